import Qhttp.Model.Handler
import Qhttp.Lemmas.RouteSingle
/-
  LEGACY ANALYSIS (finding D12, repaired): `QString::arg` applied once per capture
  (`substituteChained`, what `Handler::route` did before the repair) as a rewriting of the TOKEN
  list of the template: when does re-reading the string after one round give the intended token
  list?  The repaired code (`substitute`) needs none of this; the results here say exactly where
  the repair changed nothing (`C05.substitute_eq_chained`).

  * `render`, `expand`, `expandAll` : the intended token-level meaning of the rounds;
  * `Rescans` / `MarkerFree`        : the exact (decidable) condition, round by round:
                                      "what the next `arg` call reads is what the previous one meant";
  * `substituteChained_eq_render`   : under it, the chained calls are the token-level rewriting;
  * `sepScan` / `Separated` / `Plain`: a syntactic sufficient condition (template markers are not
                                      glued to a pending '%' / '%L' / a higher one-digit marker;
                                      captures read as literals and end outside a '%' sequence);
  * `markerFree_of_separated`       : Separated ∧ all captures Plain → MarkerFree.
-/
namespace Qhttp.RouteL
open Qhttp
set_option linter.unusedSimpArgs false

/-- what `Handler::route` did before the repair of D12:
    `foreach (replacement, capturedTexts().mid(1)) newPath = newPath.arg(replacement)` -/
def substituteChained (tmpl : QStr) (caps : List QStr) : QStr := caps.foldl qarg tmpl

/-- the string a token list spells -/
def render : List ArgTok → QStr
  | [] => []
  | .lit c :: l => c :: render l
  | .esc _ raw :: l => raw ++ render l

/-- the token list one `arg(a)` round MEANS: marker `n` becomes the literal units of `a` -/
def expand (n : Nat) (a : QStr) : List ArgTok → List ArgTok
  | [] => []
  | .lit c :: l => .lit c :: expand n a l
  | .esc k raw :: l => if k = n then a.map .lit ++ expand n a l else .esc k raw :: expand n a l

/-- all rounds, on tokens -/
def expandAll : List ArgTok → List QStr → List ArgTok
  | toks, [] => toks
  | toks, a :: as =>
    match minEsc toks with
    | none => toks
    | some n => expandAll (expand n a toks) as

/-- round by round: whenever a further `arg` call follows, the string produced by this round
    reads back as the token list this round meant -/
def Rescans : List ArgTok → List QStr → Bool
  | _, [] => true
  | toks, a :: as =>
    match minEsc toks with
    | none => true
    | some n =>
      (as.isEmpty || argScan .normal (argFill n a toks) == expand n a toks) &&
        Rescans (expand n a toks) as

/-- the exact condition of `chained arg() = simultaneous substitution` (finding D12 was its
    negation): no round creates, destroys or renumbers a place marker for a later round -/
def MarkerFree (tmpl : QStr) (caps : List QStr) : Bool := Rescans (argScan .normal tmpl) caps

/-! ### basic facts -/

theorem render_append (a b : List ArgTok) : render (a ++ b) = render a ++ render b := by
  induction a with
  | nil => rfl
  | cons t a ih => cases t <;> simp [render, ih]

theorem render_map_lit (a : QStr) : render (a.map .lit) = a := by
  induction a with
  | nil => rfl
  | cons c a ih => simp [render, ih]

theorem argFill_eq_render (n : Nat) (a : QStr) (toks : List ArgTok) :
    argFill n a toks = render (expand n a toks) := by
  induction toks with
  | nil => rfl
  | cons t l ih =>
    cases t with
    | lit c => simp [argFill, expand, render, ih]
    | esc k raw =>
      by_cases h : k = n
      · simp [argFill, expand, ih, h, render_append, render_map_lit]
      · simp [argFill, expand, render, ih, h]

/-- units a scanner state still owes to the output -/
def pend : ArgSt → QStr
  | .normal => []
  | .pct => [37]
  | .pctL => [37, 76]
  | .d1 loc c => rawOf loc [c]

theorem render_argScan (st : ArgSt) (s : QStr) : render (argScan st s) = pend st ++ s := by
  induction s generalizing st with
  | nil => cases st <;> simp [argScan, render, pend, rawOf]
  | cons c cs ih =>
    cases st with
    | normal =>
      by_cases h : c = 37
      · simp [argScan, h, ih, pend]
      · simp [argScan, h, ih, pend, render]
    | pct =>
      simp only [argScan]
      split
      · next h => simp [ih, pend, h]
      · split
        · simp [ih, pend, rawOf]
        · split
          · next h => simp [ih, pend, render, h]
          · simp [ih, pend, render]
    | pctL =>
      simp only [argScan]
      split
      · simp [ih, pend, rawOf]
      · split
        · next h => simp [ih, pend, render, h]
        · simp [ih, pend, render]
    | d1 loc d =>
      simp only [argScan]
      split
      · cases loc <;> simp [ih, pend, render, rawOf]
      · split
        · next h => cases loc <;> simp [ih, pend, render, rawOf, h]
        · cases loc <;> simp [ih, pend, render, rawOf]

theorem render_argScan_normal (s : QStr) : render (argScan .normal s) = s := by
  simpa [pend] using render_argScan .normal s

/-! ### the chained calls are the token-level rewriting when every round reads back -/

theorem foldl_qarg_noEsc (s : QStr) (h : minEsc (argScan .normal s) = none) (caps : List QStr) :
    caps.foldl qarg s = s := by
  induction caps with
  | nil => rfl
  | cons a as ih => simp [List.foldl, qarg, h, ih]

theorem foldl_qarg_eq_render (caps : List QStr) :
    ∀ (s : QStr), Rescans (argScan .normal s) caps = true →
      caps.foldl qarg s = render (expandAll (argScan .normal s) caps) := by
  induction caps with
  | nil => intro s _; simp [expandAll, render_argScan_normal]
  | cons a as ih =>
    intro s h
    simp only [List.foldl, expandAll]
    cases hm : minEsc (argScan .normal s) with
    | none =>
      have : qarg s a = s := by simp [qarg, hm]
      rw [this, foldl_qarg_noEsc s hm]; simp [render_argScan_normal]
    | some n =>
      have hq : qarg s a = argFill n a (argScan .normal s) := by simp [qarg, hm]
      simp only [Rescans, hm, Bool.and_eq_true, Bool.or_eq_true, beq_iff_eq] at h
      rw [hq]
      cases as with
      | nil => simp [expandAll, argFill_eq_render]
      | cons b bs =>
        have hr : argScan .normal (argFill n a (argScan .normal s)) = expand n a (argScan .normal s) := by
          rcases h.1 with h1 | h1
          · simp at h1
          · exact h1
        have := ih (argFill n a (argScan .normal s)) (by rw [hr]; exact h.2)
        rw [this, hr]

/-- the chained calls under the exact side condition -/
theorem substituteChained_eq_render (tmpl : QStr) (caps : List QStr) (h : MarkerFree tmpl caps = true) :
    substituteChained tmpl caps = render (expandAll (argScan .normal tmpl) caps) :=
  foldl_qarg_eq_render caps tmpl h

/-! ### the lowest marker -/

theorem minEsc_none {toks : List ArgTok} (h : minEsc toks = none) :
    ∀ k raw, ArgTok.esc k raw ∉ toks := by
  induction toks with
  | nil => simp
  | cons t l ih =>
    cases t with
    | lit c => simp only [minEsc] at h; intro k raw; simp [ih h]
    | esc k raw => simp only [minEsc] at h; split at h <;> simp at h

theorem minEsc_some {toks : List ArgTok} {n : Nat} (h : minEsc toks = some n) :
    (∃ raw, ArgTok.esc n raw ∈ toks) ∧ ∀ k raw, ArgTok.esc k raw ∈ toks → n ≤ k := by
  induction toks generalizing n with
  | nil => simp [minEsc] at h
  | cons t l ih =>
    cases t with
    | lit c =>
      simp only [minEsc] at h
      obtain ⟨⟨raw, hr⟩, h2⟩ := ih h
      exact ⟨⟨raw, by simp [hr]⟩, by intro k raw hk; simp at hk; exact h2 k raw hk⟩
    | esc k raw =>
      simp only [minEsc] at h
      cases hl : minEsc l with
      | none =>
        simp [hl] at h; subst h
        refine ⟨⟨raw, by simp⟩, ?_⟩
        intro k' raw' hk'
        simp at hk'
        rcases hk' with ⟨rfl, _⟩ | hk'
        · exact Nat.le_refl _
        · exact absurd hk' (minEsc_none hl k' raw')
      | some m =>
        simp [hl] at h; subst h
        obtain ⟨⟨raw', hr⟩, h2⟩ := ih hl
        refine ⟨?_, ?_⟩
        · by_cases hkm : k ≤ m
          · exact ⟨raw, by simp [Nat.min_eq_left hkm]⟩
          · have : min k m = m := Nat.min_eq_right (by omega)
            exact ⟨raw', by simp [this, hr]⟩
        · intro k' raw'' hk'
          simp at hk'
          rcases hk' with ⟨rfl, _⟩ | hk'
          · exact Nat.min_le_left _ _
          · exact Nat.le_trans (Nat.min_le_right _ _) (h2 k' raw'' hk')

/-! ### a syntactic sufficient condition -/

def isDig (c : UInt16) : Bool := (digit16 c).isSome

/-- the scanner state after reading the spelling `raw` of marker `k` from `.normal`, before a
    one-digit marker is emitted (`.d1`) or after a two-digit one was (`.normal`); `none` for a
    token that is not a marker spelling -/
def escNext (k : Nat) (raw : QStr) : Option ArgSt :=
  match raw with
  | [p, d] => if p = 37 ∧ isDig d = true ∧ k = dval d then some (.d1 false d) else none
  | [p, x, y] =>
    if p = 37 ∧ x = 76 ∧ isDig y = true ∧ k = dval y then some (.d1 true y)
    else if p = 37 ∧ isDig x = true ∧ isDig y = true ∧ k = 10 * dval x + dval y then some .normal
    else none
  | [p, l, x, y] =>
    if p = 37 ∧ l = 76 ∧ isDig x = true ∧ isDig y = true ∧ k = 10 * dval x + dval y then some .normal
    else none
  | _ => none

def litNext (c : UInt16) : ArgSt := if c = 37 then .pct else .normal

/-- a token list that reads back as itself and whose markers are separated: no marker is glued
    to a pending `%` / `%L`, and a one-digit marker is directly followed by another marker only
    if that one's number is not smaller.  The state is the scanner's (`.d1 _ d`: just after the
    one-digit marker `d`). -/
def sepScan : ArgSt → List ArgTok → Bool
  | _, [] => true
  | st, .lit c :: l =>
    match st with
    | .normal => sepScan (litNext c) l
    | .pct => if c = 76 then sepScan .pctL l else if isDig c then false else sepScan (litNext c) l
    | .pctL => if isDig c then false else sepScan (litNext c) l
    | .d1 _ _ => if isDig c then false else sepScan (litNext c) l
  | st, .esc k raw :: l =>
    (match st with | .normal => true | .d1 _ d => decide (dval d ≤ k) | _ => false) &&
    match escNext k raw with
    | some st' => sepScan st' l
    | none => false

/-- template condition: see `sepScan` -/
def Separated (tmpl : QStr) : Bool := sepScan .normal (argScan .normal tmpl)

/-- the scanner state at the end of a text -/
def argEnd : ArgSt → QStr → ArgSt
  | st, [] => st
  | .normal, c :: cs => argEnd (litNext c) cs
  | .pct, c :: cs =>
    if c = 76 then argEnd .pctL cs else if isDig c then argEnd (.d1 false c) cs else argEnd (litNext c) cs
  | .pctL, c :: cs => if isDig c then argEnd (.d1 true c) cs else argEnd (litNext c) cs
  | .d1 _ _, c :: cs => if isDig c then argEnd .normal cs else argEnd (litNext c) cs

def noEsc (toks : List ArgTok) : Bool :=
  toks.all fun t => match t with | .lit _ => true | .esc _ _ => false

/-- capture condition: read on its own the text has no place marker, and it does not end inside
    a `%` sequence (`%`, `%L`; `%<digit>` is a marker already) -/
def Plain (a : QStr) : Bool := noEsc (argScan .normal a) && argEnd .normal a == .normal

def pendTok : ArgSt → List ArgTok
  | .normal => []
  | .pct => [.lit 37]
  | .pctL => [.lit 37, .lit 76]
  | .d1 loc d => [.esc (dval d) (rawOf loc [d])]

theorem isDig_ne {c : UInt16} (h : isDig c = true) : c ≠ 37 ∧ c ≠ 76 := by
  constructor <;> (intro e; subst e; revert h; decide)

theorem isDig_iff (c : UInt16) : (digit16 c).isSome = isDig c := rfl

/-- reading a marker's spelling from `.normal` -/
theorem argScan_esc {k : Nat} {raw : QStr} {st' : ArgSt} (h : escNext k raw = some st') (rest : QStr)
    (l : List ArgTok) (ih : argScan st' rest = pendTok st' ++ l) :
    argScan .normal (raw ++ rest) = .esc k raw :: l := by
  unfold escNext at h
  split at h
  · next p d =>
    split at h
    · next hc =>
      obtain ⟨rfl, hd, rfl⟩ := hc
      cases h
      have := isDig_ne hd
      simp only [List.cons_append, List.nil_append, argScan, if_true, this.2, if_false, isDig_iff, hd]
      simpa [pendTok, rawOf] using ih
    · cases h
  · next p x y =>
    split at h
    · next hc =>
      obtain ⟨rfl, rfl, hd, rfl⟩ := hc
      cases h
      simp only [List.cons_append, List.nil_append, argScan, if_true, isDig_iff, hd]
      simpa [pendTok, rawOf] using ih
    · split at h
      · next hc =>
        obtain ⟨rfl, hx, hy, rfl⟩ := hc
        cases h
        have := isDig_ne hx
        simp only [List.cons_append, List.nil_append, argScan, if_true, this.2, if_false, isDig_iff, hx, hy]
        simpa [pendTok, rawOf] using ih
      · cases h
  · next p l' x y =>
    split at h
    · next hc =>
      obtain ⟨rfl, rfl, hx, hy, rfl⟩ := hc
      cases h
      simp only [List.cons_append, List.nil_append, argScan, if_true, isDig_iff, hx, hy]
      simpa [pendTok, rawOf] using ih
    · cases h
  · cases h

theorem escNext_head {k : Nat} {raw : QStr} {st' : ArgSt} (h : escNext k raw = some st') :
    ∃ r, raw = 37 :: r := by
  unfold escNext at h
  split at h
  · split at h
    · next hc => exact ⟨_, by rw [hc.1]⟩
    · cases h
  · split at h
    · next hc => exact ⟨_, by rw [hc.1]⟩
    · split at h
      · next hc => exact ⟨_, by rw [hc.1]⟩
      · cases h
  · split at h
    · next hc => exact ⟨_, by rw [hc.1]⟩
    · cases h
  · cases h

/-- a separated token list reads back as itself (from any scanner state it is separated for) -/
theorem argScan_render (toks : List ArgTok) :
    ∀ st, sepScan st toks = true → argScan st (render toks) = pendTok st ++ toks := by
  induction toks with
  | nil => intro st _; cases st <;> simp [render, argScan, pendTok]
  | cons t l ih =>
    intro st h
    cases t with
    | lit c =>
      simp only [render]
      cases st with
      | normal =>
        simp only [sepScan, litNext] at h
        by_cases hc : c = 37
        · simp only [hc, if_true] at h; simp [argScan, hc, ih _ h, pendTok]
        · simp only [hc, if_false] at h; simp [argScan, hc, ih _ h, pendTok]
      | pct =>
        simp only [sepScan, litNext] at h
        by_cases hL : c = 76
        · simp only [hL, if_true] at h; simp [argScan, hL, ih _ h, pendTok]
        · simp only [hL, if_false] at h
          by_cases hd : isDig c = true
          · simp [hd] at h
          · simp only [hd, if_false] at h
            have hd' : (digit16 c).isSome = false := by simpa [isDig] using hd
            by_cases hc : c = 37
            · simp only [hc, if_true] at h; simp [argScan, hc, ih _ h, pendTok, digit16_pct]
            · simp only [hc, if_false] at h; simp [argScan, hc, hL, hd', ih _ h, pendTok]
      | pctL =>
        simp only [sepScan, litNext] at h
        by_cases hd : isDig c = true
        · simp [hd] at h
        · simp only [hd, if_false] at h
          have hd' : (digit16 c).isSome = false := by simpa [isDig] using hd
          by_cases hc : c = 37
          · simp only [hc, if_true] at h; simp [argScan, hc, ih _ h, pendTok, digit16_pct]
          · simp only [hc, if_false] at h; simp [argScan, hc, hd', ih _ h, pendTok]
      | d1 loc d =>
        simp only [sepScan, litNext] at h
        by_cases hd : isDig c = true
        · simp [hd] at h
        · simp only [hd, if_false] at h
          have hd' : (digit16 c).isSome = false := by simpa [isDig] using hd
          by_cases hc : c = 37
          · simp only [hc, if_true] at h; simp [argScan, hc, ih _ h, pendTok, digit16_pct]
          · simp only [hc, if_false] at h; simp [argScan, hc, hd', ih _ h, pendTok]
    | esc k raw =>
      simp only [sepScan, Bool.and_eq_true] at h
      obtain ⟨hst, hn⟩ := h
      cases hx : escNext k raw with
      | none => simp [hx] at hn
      | some st' =>
        simp only [hx] at hn
        have hN : argScan .normal (render (.esc k raw :: l)) = .esc k raw :: l := by
          simp only [render]
          exact argScan_esc hx _ _ (ih _ hn)
        cases st with
        | normal => simpa [pendTok] using hN
        | pct => simp at hst
        | pctL => simp at hst
        | d1 loc d =>
          obtain ⟨r, hr⟩ := escNext_head hx
          have hN' := hN
          simp only [render, hr, List.cons_append, argScan, if_true] at hN' ⊢
          simp [digit16_pct, hN', pendTok, hr]

theorem noEsc_d1 (loc : Bool) (d : UInt16) (s : QStr) : noEsc (argScan (.d1 loc d) s) = false := by
  cases s with
  | nil => simp [argScan, noEsc]
  | cons c cs =>
    simp only [argScan]
    split
    · simp [noEsc]
    · split <;> simp [noEsc]

/-- literal text without markers moves a separated scan exactly as it moves the scanner -/
theorem sepScan_lits (a : QStr) (l : List ArgTok) :
    ∀ st, (st = .normal ∨ st = .pct ∨ st = .pctL) → noEsc (argScan st a) = true →
      sepScan st (a.map .lit ++ l) = sepScan (argEnd st a) l := by
  induction a with
  | nil => intro st _ _; simp [argEnd]
  | cons c cs ih =>
    intro st hst hne
    rcases hst with rfl | rfl | rfl
    · simp only [List.map_cons, List.cons_append, sepScan, argEnd, litNext]
      by_cases hc : c = 37
      · simp only [hc, if_true]
        apply ih _ (by simp)
        simpa [argScan, hc] using hne
      · simp only [hc, if_false]
        apply ih _ (by simp)
        simpa [argScan, hc, noEsc] using hne
    · simp only [List.map_cons, List.cons_append, sepScan, argEnd, litNext]
      by_cases hL : c = 76
      · simp only [hL, if_true]
        apply ih _ (by simp)
        simpa [argScan, hL] using hne
      · simp only [hL, if_false]
        by_cases hd : isDig c = true
        · have : noEsc (argScan (.d1 false c) cs) = true := by
            simpa [argScan, hL, isDig_iff, hd] using hne
          simp [noEsc_d1] at this
        · simp only [hd, if_false]
          have hd' : (digit16 c).isSome = false := by simpa [isDig] using hd
          by_cases hc : c = 37
          · simp only [hc, if_true]
            apply ih _ (by simp)
            simpa [argScan, hc, digit16_pct, noEsc] using hne
          · simp only [hc, if_false]
            apply ih _ (by simp)
            simpa [argScan, hc, hL, hd', noEsc] using hne
    · simp only [List.map_cons, List.cons_append, sepScan, argEnd, litNext]
      by_cases hd : isDig c = true
      · have : noEsc (argScan (.d1 true c) cs) = true := by
          simpa [argScan, isDig_iff, hd] using hne
        simp [noEsc_d1] at this
      · simp only [hd, if_false]
        have hd' : (digit16 c).isSome = false := by simpa [isDig] using hd
        by_cases hc : c = 37
        · simp only [hc, if_true]
          apply ih _ (by simp)
          simpa [argScan, hc, digit16_pct, noEsc] using hne
        · simp only [hc, if_false]
          apply ih _ (by simp)
          simpa [argScan, hc, hd', noEsc] using hne

theorem sepScan_plain {a : QStr} (h : Plain a = true) (l : List ArgTok) :
    sepScan .normal (a.map .lit ++ l) = sepScan .normal l := by
  simp only [Plain, Bool.and_eq_true, beq_iff_eq] at h
  rw [sepScan_lits a l .normal (by simp) h.1, h.2]

theorem litNext_cases (c : UInt16) : litNext c = .normal ∨ litNext c = .pct := by
  unfold litNext; split <;> simp

/-- the relation between the scanner state of the old token list and of the expanded one -/
def StRel (n : Nat) (st st' : ArgSt) : Prop :=
  st' = .normal ∨ (st' = st ∧ ∀ loc d, st = .d1 loc d → n < dval d)

theorem StRel.refl_of_lit (n : Nat) (c : UInt16) : StRel n (litNext c) (litNext c) := by
  right; refine ⟨rfl, ?_⟩; intro loc d h; rcases litNext_cases c with e | e <;> simp [e] at h

theorem escNext_d1 {k : Nat} {raw : QStr} {loc : Bool} {d : UInt16} (h : escNext k raw = some (.d1 loc d)) :
    k = dval d := by
  unfold escNext at h
  split at h
  · split at h
    · next hc => cases h; exact hc.2.2
    · cases h
  · split at h
    · next hc => cases h; exact hc.2.2.2
    · split at h <;> cases h
  · split at h <;> cases h
  · cases h

/-- one round with the lowest marker and a plain text keeps a token list separated -/
theorem sepScan_expand (n : Nat) {a : QStr} (ha : Plain a = true) (toks : List ArgTok) :
    ∀ st st', sepScan st toks = true → StRel n st st' →
      (∀ k raw, ArgTok.esc k raw ∈ toks → n ≤ k) → sepScan st' (expand n a toks) = true := by
  induction toks with
  | nil => intro st st' _ _ _; cases st' <;> simp [expand, sepScan]
  | cons t l ih =>
    intro st st' h hrel hmin
    have hmin' : ∀ k raw, ArgTok.esc k raw ∈ l → n ≤ k := fun k raw hk => hmin k raw (by simp [hk])
    cases t with
    | lit c =>
      simp only [expand]
      -- the old scan accepts `lit c` from `st`; so does the new one from `st'`
      rcases hrel with rfl | ⟨rfl, hd⟩
      · -- new state normal
        simp only [sepScan]
        cases st with
        | normal => simp only [sepScan] at h; exact ih _ _ h (StRel.refl_of_lit n c) hmin'
        | pct =>
          simp only [sepScan] at h
          by_cases hL : c = 76
          · simp only [hL, if_true] at h
            have : litNext c = .normal := by simp [litNext, hL]
            rw [this]; exact ih _ _ h (Or.inl rfl) hmin'
          · simp only [hL, if_false] at h
            by_cases hdg : isDig c = true
            · simp [hdg] at h
            · simp only [hdg] at h; exact ih _ _ h (StRel.refl_of_lit n c) hmin'
        | pctL =>
          simp only [sepScan] at h
          by_cases hdg : isDig c = true
          · simp [hdg] at h
          · simp only [hdg] at h; exact ih _ _ h (StRel.refl_of_lit n c) hmin'
        | d1 loc d =>
          simp only [sepScan] at h
          by_cases hdg : isDig c = true
          · simp [hdg] at h
          · simp only [hdg] at h; exact ih _ _ h (StRel.refl_of_lit n c) hmin'
      · -- same state
        cases st' with
        | normal => simp only [sepScan] at h ⊢; exact ih _ _ h (StRel.refl_of_lit n c) hmin'
        | pct =>
          simp only [sepScan] at h ⊢
          by_cases hL : c = 76
          · simp only [hL, if_true] at h ⊢
            exact ih _ _ h (Or.inr ⟨rfl, by intro loc d e; cases e⟩) hmin'
          · simp only [hL, if_false] at h ⊢
            by_cases hdg : isDig c = true
            · simp [hdg] at h
            · simp only [hdg] at h ⊢; exact ih _ _ h (StRel.refl_of_lit n c) hmin'
        | pctL =>
          simp only [sepScan] at h ⊢
          by_cases hdg : isDig c = true
          · simp [hdg] at h
          · simp only [hdg] at h ⊢; exact ih _ _ h (StRel.refl_of_lit n c) hmin'
        | d1 loc d =>
          simp only [sepScan] at h ⊢
          by_cases hdg : isDig c = true
          · simp [hdg] at h
          · simp only [hdg] at h ⊢; exact ih _ _ h (StRel.refl_of_lit n c) hmin'
    | esc k raw =>
      simp only [sepScan, Bool.and_eq_true] at h
      obtain ⟨hst, hn⟩ := h
      have hnk : n ≤ k := hmin k raw (by simp)
      cases hx : escNext k raw with
      | none => simp [hx] at hn
      | some s2 =>
        simp only [hx] at hn
        by_cases hk : k = n
        · -- replaced: the new state must be `.normal`
          have hst' : st' = .normal := by
            rcases hrel with e | ⟨e, hd⟩
            · exact e
            · subst e
              cases st' with
              | normal => rfl
              | pct => simp at hst
              | pctL => simp at hst
              | d1 loc d =>
                have := hd loc d rfl
                simp at hst; omega
          subst hst'
          simp only [expand, hk, if_true]
          rw [sepScan_plain ha]
          exact ih _ _ hn (Or.inl rfl) hmin'
        · simp only [expand, hk, if_false, sepScan, hx, Bool.and_eq_true]
          refine ⟨?_, ?_⟩
          · rcases hrel with rfl | ⟨rfl, _⟩
            · rfl
            · exact hst
          · apply ih _ _ hn _ hmin'
            right; refine ⟨rfl, ?_⟩
            intro loc d e; subst e
            have := escNext_d1 hx
            omega

/-- **sufficient syntactic condition**: separated template, plain captures -/
theorem rescans_of_sepScan (caps : List QStr) (hc : ∀ a ∈ caps, Plain a = true) :
    ∀ toks, sepScan .normal toks = true → Rescans toks caps = true := by
  induction caps with
  | nil => intro _ _; rfl
  | cons a as ih =>
    intro toks h
    simp only [Rescans]
    cases hm : minEsc toks with
    | none => rfl
    | some n =>
      have hsep : sepScan .normal (expand n a toks) = true :=
        sepScan_expand n (hc a (by simp)) toks _ _ h (Or.inl rfl) (minEsc_some hm).2
      simp only [Bool.and_eq_true, Bool.or_eq_true, beq_iff_eq]
      refine ⟨Or.inr ?_, ih (fun b hb => hc b (by simp [hb])) _ hsep⟩
      rw [argFill_eq_render]
      simpa [pendTok] using argScan_render _ _ hsep

theorem markerFree_of_separated {tmpl : QStr} {caps : List QStr} (ht : Separated tmpl = true)
    (hc : ∀ a ∈ caps, Plain a = true) : MarkerFree tmpl caps = true :=
  rescans_of_sepScan caps hc _ ht

/-- a single capture never needs a side condition -/
theorem markerFree_one (tmpl a : QStr) : MarkerFree tmpl [a] = true := by
  simp only [MarkerFree, Rescans]
  cases minEsc (argScan .normal tmpl) <;> simp [Rescans]

theorem markerFree_nil (tmpl : QStr) : MarkerFree tmpl [] = true := rfl

/-! ### `Plain` in words: no marker inside, and the text does not end in `%` or `%L` -/

/-- one scanner transition -/
def argNext : ArgSt → UInt16 → ArgSt
  | .normal, c => litNext c
  | .pct, c => if c = 76 then .pctL else if isDig c then .d1 false c else litNext c
  | .pctL, c => if isDig c then .d1 true c else litNext c
  | .d1 _ _, c => if isDig c then .normal else litNext c

theorem argEnd_cons (st : ArgSt) (c : UInt16) (cs : QStr) : argEnd st (c :: cs) = argEnd (argNext st c) cs := by
  cases st <;> simp only [argEnd, argNext] <;> (repeat' split) <;> rfl

theorem argEnd_snoc (a : QStr) (c : UInt16) : ∀ st, argEnd st (a ++ [c]) = argNext (argEnd st a) c := by
  induction a with
  | nil => intro st; rw [List.nil_append, argEnd_cons]; rfl
  | cons x xs ih => intro st; rw [List.cons_append, argEnd_cons, argEnd_cons, ih]

theorem argNext_pct {st : ArgSt} {c : UInt16} : argNext st c = .pct ↔ c = 37 := by
  have hd : isDig 37 = false := by decide
  constructor
  · intro h
    cases st <;> simp only [argNext, litNext] at h <;> (repeat' split at h) <;> first | assumption | cases h
  · rintro rfl
    cases st <;> simp [argNext, litNext, hd]

theorem argNext_pctL {st : ArgSt} {c : UInt16} : argNext st c = .pctL ↔ st = .pct ∧ c = 76 := by
  constructor
  · intro h
    cases st <;> simp only [argNext, litNext] at h <;> (repeat' split at h) <;>
      first | exact ⟨rfl, by assumption⟩ | cases h
  · rintro ⟨rfl, rfl⟩; simp [argNext]

/-- the scanner ends in `.pct` exactly after a text ending in `%` -/
theorem argEnd_normal_pct (a : QStr) : argEnd .normal a = .pct ↔ a.getLast? = some 37 := by
  rcases List.eq_nil_or_concat a with rfl | ⟨b, c, rfl⟩
  · simp [argEnd]
  · simp only [List.concat_eq_append, argEnd_snoc, argNext_pct, List.getLast?_concat, Option.some.injEq]

/-- … and in `.pctL` exactly after a text ending in `%L` -/
theorem argEnd_normal_pctL (a : QStr) : argEnd .normal a = .pctL ↔ [37, 76] <:+ a := by
  rcases List.eq_nil_or_concat a with rfl | ⟨b, c, rfl⟩
  · simp [argEnd]
  · simp only [List.concat_eq_append, argEnd_snoc, argNext_pctL, argEnd_normal_pct]
    constructor
    · rintro ⟨h, rfl⟩
      rcases List.eq_nil_or_concat b with rfl | ⟨b', c', rfl⟩
      · simp at h
      · simp only [List.concat_eq_append, List.getLast?_concat, Option.some.injEq] at h
        subst h
        exact ⟨b', by simp⟩
    · rintro ⟨t, ht⟩
      have h2 : t ++ [37] ++ [76] = b ++ [c] := by rw [← ht]; simp
      have := List.append_inj' h2 rfl
      obtain ⟨h3, h4⟩ := this
      simp only [List.cons.injEq, and_true] at h4
      subst h4
      rw [← h3]
      exact ⟨List.getLast?_concat .., rfl⟩

theorem argEnd_noEsc (a : QStr) : ∀ st, noEsc (argScan st a) = true → ∀ loc d, argEnd st a ≠ .d1 loc d := by
  induction a with
  | nil =>
    intro st h loc d e
    simp only [argEnd] at e; subst e
    simp [argScan, noEsc] at h
  | cons c cs ih =>
    intro st h loc d
    rw [argEnd_cons]
    apply ih
    cases st with
    | normal =>
      simp only [argScan] at h
      simp only [argNext, litNext]
      split <;> simp_all [noEsc]
    | pct =>
      simp only [argScan] at h
      simp only [argNext, litNext, isDig]
      (repeat' split at h) <;> simp_all [noEsc]
    | pctL =>
      simp only [argScan] at h
      simp only [argNext, litNext, isDig]
      (repeat' split at h) <;> simp_all [noEsc]
    | d1 l x => rw [noEsc_d1] at h; cases h

/-- **`Plain` in words** -/
theorem plain_iff (a : QStr) :
    Plain a = true ↔ noEsc (argScan .normal a) = true ∧ a.getLast? ≠ some 37 ∧ ¬ [37, 76] <:+ a := by
  simp only [Plain, Bool.and_eq_true, beq_iff_eq]
  rw [← argEnd_normal_pctL, Ne, ← argEnd_normal_pct]
  constructor
  · rintro ⟨h1, h2⟩; rw [h2]; exact ⟨h1, by simp, by simp⟩
  · rintro ⟨h1, h2, h3⟩
    refine ⟨h1, ?_⟩
    have := argEnd_noEsc a .normal h1
    cases h : argEnd .normal a with
    | normal => rfl
    | pct => exact absurd h h2
    | pctL => exact absurd h h3
    | d1 loc d => exact absurd h (this loc d)

end Qhttp.RouteL
