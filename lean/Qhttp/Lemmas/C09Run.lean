import Qhttp.Model.BasicAuth
import Qhttp.Model.Http
import Qhttp.Lemmas.HttpRender
import Qhttp.Lemmas.C09Auth
/-
  C09, the run `new; feed (head ++ CRLF2); turn` of the socket model with the basic-auth
  application: the exact history in the three cases (head rejected, credentials refused,
  credentials admitted) and what the strict reader `Http.parse` makes of the 401.
-/
namespace Qhttp.C09L
open Qhttp Qhttp.Sock Qhttp.BasicAuth

/-! ### the response-side primitives on an open, connected socket -/

theorem headBytes_ne (s : Sock) : (headBytes s).isEmpty = false := by
  simp [headBytes, lit]

/-- `writeHeaders; write body; close` on an open connected socket: what it leaves behind -/
theorem respond_state (s : Sock) (body : Bytes)
    (hio : s.ioOpen = true) (hdev : s.tcp.devOpen = true) (hconn : s.tcp.conn = .connected) :
    (close (write (writeHeaders s) body)).alive = s.alive ∧
    (close (write (writeHeaders s) body)).rs = .finished ∧
    (close (write (writeHeaders s) body)).dcFlag = s.dcFlag ∧
    (close (write (writeHeaders s) body)).delPending = s.delPending ∧
    (close (write (writeHeaders s) body)).tcp.devOpen = false ∧
    (close (write (writeHeaders s) body)).log =
      s.log ++ (Obs.w (headBytes s) :: ((if body.isEmpty then [] else [Obs.w body]) ++ [Obs.tc])) := by
  have hne := headBytes_ne s
  simp only [writeHeaders]
  generalize headBytes s = hb at hne ⊢
  obtain ⟨⟨inbox, wire, unacked, devOpen, conn⟩, readBuffer, qio, rs, method, rawPath, path, query,
    reqHeaders, dataRead, total, ws, code, reason, respHeaders, hdrRemaining, ioOpen, initPending,
    closeCalled, dcFlag, delPending, alive, log⟩ := s
  simp only at hio hdev hconn
  subst hio hdev hconn
  have hlen : 0 < hb.length := by
    cases hb with
    | nil => simp at hne
    | cons _ _ => simp
  cases hbody : body.isEmpty <;>
    simp [write, close, tcpWrite, tcpClose, hne, hbody] <;> split <;> simp_all

/-- the header map `writeError` sends: `Content-Length` and `Content-Type` replaced -/
def errHeaders (H : HeaderMap) (d : Bytes) : HeaderMap :=
  HeaderMap.insert CONTENT_TYPE TEXT_HTML (HeaderMap.remove CONTENT_TYPE
    (HeaderMap.insert CONTENT_LENGTH d (HeaderMap.remove CONTENT_LENGTH H)))

/-- the status line of an error response -/
def errStart (c : Int) : Bytes :=
  lit ['H','T','T','P','/','1','.','0',' '] ++ intText c ++ [SP] ++ statusReason c

def errBody (env : Env) (c : Int) : Bytes := env.errPage c (statusReason c)

theorem writeError_state (env : Env) (s : Sock) (c : Int)
    (hio : s.ioOpen = true) (hdev : s.tcp.devOpen = true) (hconn : s.tcp.conn = .connected) :
    (writeError env s c none).alive = s.alive ∧
    (writeError env s c none).rs = .finished ∧
    (writeError env s c none).dcFlag = s.dcFlag ∧
    (writeError env s c none).delPending = s.delPending ∧
    (writeError env s c none).tcp.devOpen = false ∧
    (writeError env s c none).log =
      s.log ++ (Obs.w (errStart c ++ CRLF ++
          headerLines (errHeaders s.respHeaders (natDigits (errBody env c).length)) ++ CRLF) ::
        ((if (errBody env c).isEmpty then [] else [Obs.w (errBody env c)]) ++ [Obs.tc])) := by
  let s3 := setHeader (setHeader (setStatusCode s c none) CONTENT_LENGTH
    (natDigits (errBody env c).length) true) CONTENT_TYPE TEXT_HTML true
  have e : writeError env s c none = close (write (writeHeaders s3) (errBody env c)) := rfl
  have f1 : s3.code = c := by simp [s3, setHeader, setStatusCode]
  have f2 : s3.reason = statusReason c := by simp [s3, setHeader, setStatusCode]
  have f3 : s3.respHeaders = errHeaders s.respHeaders (natDigits (errBody env c).length) := by
    simp [s3, setHeader, setStatusCode, errHeaders]
  have f4 : s3.ioOpen = s.ioOpen := by simp [s3, setHeader, setStatusCode]
  have f5 : s3.tcp = s.tcp := by simp [s3, setHeader, setStatusCode]
  have f6 : s3.log = s.log := by simp [s3, setHeader, setStatusCode]
  have f7 : s3.alive = s.alive := by simp [s3, setHeader, setStatusCode]
  have f8 : s3.dcFlag = s.dcFlag := by simp [s3, setHeader, setStatusCode]
  have f9 : s3.delPending = s.delPending := by simp [s3, setHeader, setStatusCode]
  have hh : headBytes s3 = errStart c ++ CRLF ++
      headerLines (errHeaders s.respHeaders (natDigits (errBody env c).length)) ++ CRLF := by
    unfold headBytes errStart
    rw [f1, f2, f3]
  rw [e]
  have := respond_state s3 (errBody env c) (by rw [f4]; exact hio) (by rw [f5]; exact hdev)
    (by rw [f5]; exact hconn)
  rw [hh, f6, f7, f8, f9] at this
  exact this

/-! ### the run -/

/-- the application of the `auth` scenarios: only `headersParsed` is connected -/
def authApp (table : List (Bytes × Bytes)) (realm : Bytes) : App :=
  { onHp := fun s => ops table realm s }

/-- the state in which the segment `stream` arrives (after `new`) -/
def sFeed (stream : Bytes) : Sock :=
  { initPending := true, log := [Obs.ev 0, Obs.ev 1], tcp := { inbox := stream } }

/-- the state in which `readHeaders` runs -/
def sRead (stream : Bytes) : Sock :=
  { initPending := true, log := [Obs.ev 0, Obs.ev 1], readBuffer := stream }

def mark (k : Nat) (s : Sock) : Sock := if !s.alive then s else { s with log := s.log ++ [Obs.ev k] }

theorem stepK_new (env : Env) (app : App) :
    stepK env app (({} : Sock), 0) .new = ({ initPending := true, log := [Obs.ev 0] }, 1) := by
  simp [stepK, step]

theorem stepK_feed (env : Env) (app : App) (stream : Bytes) :
    stepK env app (({ initPending := true, log := [Obs.ev 0] } : Sock), 1) (.feed stream) =
      (onReadyRead env app (sFeed stream), 2) := by
  simp [stepK, step, sFeed]

theorem run_eq (env : Env) (app : App) (stream : Bytes) :
    Sock.run env app [.new, .feed stream, .turn] =
      step env app (mark 2 (onReadyRead env app (sFeed stream))) .turn := by
  simp only [Sock.run, List.foldl, stepK_new, stepK_feed]
  rfl

/-- the last event on a socket whose request side is finished: the marker, and the deferred
    deletion if one is pending -/
theorem turn_log (env : Env) (app : App) (s : Sock) (ha : s.alive = true) (hrs : s.rs = .finished) :
    (step env app (mark 2 s) .turn).log =
      s.log ++ (Obs.ev 2 :: if s.delPending then [Obs.del] else []) := by
  obtain ⟨⟨inbox, wire, unacked, devOpen, conn⟩, readBuffer, qio, rs, method, rawPath, path, query,
    reqHeaders, dataRead, total, ws, code, reason, respHeaders, hdrRemaining, ioOpen, initPending,
    closeCalled, dcFlag, delPending, alive, log⟩ := s
  simp only at ha hrs
  subst ha hrs
  cases initPending <;> cases delPending <;> cases devOpen <;> simp [step, mark, onReadyRead]

theorem orr_eq (env : Env) (app : App) (stream : Bytes) :
    onReadyRead env app (sFeed stream) =
      (let r := readHeaders env app (sRead stream)
       if !r.2 then r.1 else
       match r.1.rs with
       | .data => readDataSlot env app r.1
       | .finished => { r.1 with readBuffer := [] }
       | .headers => r.1) := by
  unfold onReadyRead
  rfl

theorem orr_of_false (env : Env) (app : App) (stream : Bytes) (r : Sock)
    (h : readHeaders env app (sRead stream) = (r, false)) :
    onReadyRead env app (sFeed stream) = r := by
  rw [orr_eq, h]; rfl

theorem orr_of_true (env : Env) (app : App) (stream : Bytes) (r : Sock)
    (h : readHeaders env app (sRead stream) = (r, true)) (hrs : r.rs = .finished) :
    onReadyRead env app (sFeed stream) = { r with readBuffer := [] } := by
  rw [orr_eq, h]
  simp [hrs]

/-- the head is not acceptable -/
def BadHead (env : Env) (head : Bytes) : Prop :=
  ∀ rh, Parser.parseRequestHeaders head [] = some rh → env.url rh.rawPath = none

theorem readHeaders_bad (env : Env) (app : App) (stream head rest : Bytes)
    (h : breakOn CRLF2 stream = some (head, rest)) (hbad : BadHead env head) :
    readHeaders env app (sRead stream) = (writeError env (sRead stream) 400 none, false) := by
  have hd : (writeError env (sRead stream) 400 none).dcFlag = false :=
    (writeError_state env (sRead stream) 400 rfl rfl rfl).2.2.1
  unfold Sock.readHeaders
  rw [show (sRead stream).readBuffer = stream from rfl, h, show (sRead stream).reqHeaders = [] from rfl]
  simp only [hd, Bool.false_eq_true, if_false]
  cases hp : Parser.parseRequestHeaders head [] with
  | none => rfl
  | some rh => simp only [hbad rh hp]

/-- the 400 written for an unacceptable head -/
def log400 (env : Env) : List Obs :=
  [Obs.ev 0, Obs.ev 1] ++ (Obs.w (errStart 400 ++ CRLF ++
      headerLines (errHeaders [] (natDigits (errBody env 400).length)) ++ CRLF) ::
    ((if (errBody env 400).isEmpty then [] else [Obs.w (errBody env 400)]) ++ [Obs.tc]))

theorem run_bad (env : Env) (app : App) (stream head rest : Bytes)
    (h : breakOn CRLF2 stream = some (head, rest)) (hbad : BadHead env head) :
    (Sock.run env app [.new, .feed stream, .turn]).log = log400 env ++ [Obs.ev 2] := by
  obtain ⟨h1, h2, _, h4, _, h6⟩ := writeError_state env (sRead stream) 400 rfl rfl rfl
  have hx : onReadyRead env app (sFeed stream) = writeError env (sRead stream) 400 none := by
    exact orr_of_false env app stream _ (readHeaders_bad env app stream head rest h hbad)
  rw [run_eq, hx, turn_log env app _ (by rw [h1]; rfl) h2, h4, h6]
  rfl

/-- the socket at the moment `headersParsed` is emitted in the run -/
structure Ready (s : Sock) : Prop where
  alive : s.alive = true
  ioOpen : s.ioOpen = true
  devOpen : s.tcp.devOpen = true
  conn : s.tcp.conn = .connected
  ws : s.ws = .none
  respH : s.respHeaders = []
  dcFlag : s.dcFlag = false
  delP : s.delPending = false
  log : s.log = [Obs.ev 0, Obs.ev 1]

theorem readHeaders_good (env : Env) (app : App) (stream head rest : Bytes) (rh : Parser.ReqHead)
    (p : Bytes) (q : List (Bytes × Bytes))
    (h : breakOn CRLF2 stream = some (head, rest))
    (hp : Parser.parseRequestHeaders head [] = some rh) (hu : env.url rh.rawPath = some (p, q)) :
    ∃ s1, readHeaders env app (sRead stream) = (emit env app s1 .hp (app.onHp s1), true) ∧
      Ready s1 ∧ s1.reqHeaders = rh.headers := by
  unfold Sock.readHeaders
  rw [show (sRead stream).readBuffer = stream from rfl, h, show (sRead stream).reqHeaders = [] from rfl]
  simp only [hp, hu]
  refine ⟨_, rfl, ?_, ?_⟩
  · split <;> constructor <;> rfl
  · split <;> rfl

/-- what `writeError` needs of the socket it is called on -/
structure Open (s : Sock) : Prop where
  alive : s.alive = true
  ioOpen : s.ioOpen = true
  devOpen : s.tcp.devOpen = true
  conn : s.tcp.conn = .connected
  dcFlag : s.dcFlag = false
  delP : s.delPending = false

theorem emit_refused_eq (env : Env) (app : App) (s1 : Sock) (hR : Ready s1) (ch : Bytes) :
    ∃ s4, emit env app s1 .hp [.note (.mw 0 false), .hdr WWW_AUTH ch true, .err 401 none] =
        (if (writeError env s4 401 none).dcFlag then emitDc env app (writeError env s4 401 none)
         else writeError env s4 401 none) ∧
      Open s4 ∧ s4.respHeaders = [(WWW_AUTH, ch)] ∧
      s4.log = [Obs.ev 0, Obs.ev 1, Obs.hp, Obs.mw 0 false] := by
  obtain ⟨h1, h2, h3, h4, h5, h6, h7, h8, h9⟩ := hR
  obtain ⟨⟨inbox, wire, unacked, devOpen, conn⟩, readBuffer, qio, rs, method, rawPath, path, query,
    reqHeaders, dataRead, total, ws, code, reason, respHeaders, hdrRemaining, ioOpen, initPending,
    closeCalled, dcFlag, delPending, alive, log⟩ := s1
  simp only at h1 h2 h3 h4 h5 h6 h7 h8 h9
  subst h1 h2 h3 h4 h5 h6 h7 h8 h9
  simp only [emit, apis, api, apiPrim, setHeader, HeaderMap.insert, HeaderMap.remove, List.foldl,
    Bool.not_true, Bool.false_eq_true, if_false, Bool.true_or, if_true, List.filter_nil,
    List.cons_append, List.nil_append]
  exact ⟨_, rfl, ⟨rfl, rfl, rfl, rfl, rfl, rfl⟩, rfl, rfl⟩

theorem emit_refused (env : Env) (app : App) (s1 : Sock) (hR : Ready s1) (ch : Bytes) :
    ∃ r, emit env app s1 .hp [.note (.mw 0 false), .hdr WWW_AUTH ch true, .err 401 none] = r ∧
    r.alive = true ∧ r.rs = .finished ∧ r.delPending = false ∧
    r.log = [Obs.ev 0, Obs.ev 1, Obs.hp, Obs.mw 0 false] ++
      (Obs.w (errStart 401 ++ CRLF ++
          headerLines (errHeaders [(WWW_AUTH, ch)] (natDigits (errBody env 401).length)) ++ CRLF) ::
        ((if (errBody env 401).isEmpty then [] else [Obs.w (errBody env 401)]) ++ [Obs.tc])) := by
  obtain ⟨s4, he, hO, hH, hL⟩ := emit_refused_eq env app s1 hR ch
  obtain ⟨g1, g2, g3, g4, _, g6⟩ := writeError_state env s4 401 hO.ioOpen hO.devOpen hO.conn
  rw [hO.dcFlag] at g3
  rw [g3] at he
  refine ⟨_, he, ?_, ?_, ?_, ?_⟩
  · simp only [Bool.false_eq_true, if_false]; rw [g1, hO.alive]
  · simpa using g2
  · simp only [Bool.false_eq_true, if_false]; rw [g4, hO.delP]
  · simp only [Bool.false_eq_true, if_false]; rw [g6, hH, hL]


theorem tcpWrite_flags (s : Sock) (b : Bytes) :
    (tcpWrite s b).alive = s.alive ∧ (tcpWrite s b).dcFlag = s.dcFlag := by
  unfold tcpWrite; split <;> exact ⟨rfl, rfl⟩

theorem write_flags (s : Sock) (b : Bytes) :
    (write s b).alive = s.alive ∧ (write s b).dcFlag = s.dcFlag := by
  unfold write
  split
  · exact ⟨rfl, rfl⟩
  · split
    · exact ⟨((tcpWrite_flags _ b).1).trans (tcpWrite_flags _ _).1,
        ((tcpWrite_flags _ b).2).trans (tcpWrite_flags _ _).2⟩
    · exact tcpWrite_flags _ b

theorem write_eq (s : Sock) (b : Bytes) (hio : s.ioOpen = true) (hws : s.ws = .none) :
    write s b = write (writeHeaders s) b := by
  have h1 : (writeHeaders s).ioOpen = true := by
    unfold writeHeaders tcpWrite; simp only; split <;> exact hio
  have h2 : (writeHeaders s).ws ≠ .none := by
    unfold writeHeaders tcpWrite; simp only; split <;> simp
  unfold write
  rw [hio, h1]
  simp only [Bool.not_true, Bool.false_eq_true, if_false, hws, if_true, if_neg h2]

/-- `Ready` with the history as a parameter -/
structure RdyL (s : Sock) (l : List Obs) : Prop where
  alive : s.alive = true
  ioOpen : s.ioOpen = true
  devOpen : s.tcp.devOpen = true
  conn : s.tcp.conn = .connected
  ws : s.ws = .none
  dcFlag : s.dcFlag = false
  delP : s.delPending = false
  log : s.log = l

theorem RdyL.note {s : Sock} {l : List Obs} (h : RdyL s l) (o : Obs) :
    RdyL { s with log := s.log ++ [o] } (l ++ [o]) :=
  ⟨h.alive, h.ioOpen, h.devOpen, h.conn, h.ws, h.dcFlag, h.delP, by show s.log ++ [o] = _; rw [h.log]⟩

theorem api_note (env : Env) (app : App) (s : Sock) (o : Obs) (ha : s.alive = true)
    (hd : s.dcFlag = false) : api env app s (.note o) = { s with log := s.log ++ [o] } := by
  simp [api, apiPrim, ha, hd]

theorem emit_admitted (env : Env) (app : App) (s1 : Sock) (hR : Ready s1) (ok : Bytes) :
    ∃ r tail, emit env app s1 .hp [.note (.mw 0 true), .note (.pr 0 []), .write ok, .close] = r ∧
    r.alive = true ∧ r.rs = .finished ∧ r.delPending = false ∧
    r.log = [Obs.ev 0, Obs.ev 1, Obs.hp, Obs.mw 0 true, Obs.pr 0 []] ++ tail := by
  have R1 : RdyL s1 [Obs.ev 0, Obs.ev 1] :=
    ⟨hR.alive, hR.ioOpen, hR.devOpen, hR.conn, hR.ws, hR.dcFlag, hR.delP, hR.log⟩
  have R2 := R1.note Obs.hp
  simp only [emit, apis, List.foldl]
  generalize ({ s1 with log := s1.log ++ [Obs.hp] } : Sock) = s2 at R2 ⊢
  rw [api_note env app s2 _ R2.alive R2.dcFlag]
  have R3 := R2.note (Obs.mw 0 true)
  generalize ({ s2 with log := s2.log ++ [Obs.mw 0 true] } : Sock) = s3 at R3 ⊢
  rw [api_note env app s3 _ R3.alive R3.dcFlag]
  have R4 := R3.note (Obs.pr 0 [])
  generalize ({ s3 with log := s3.log ++ [Obs.pr 0 []] } : Sock) = s4 at R4 ⊢
  have e3 : api env app s4 (.write ok) = write s4 ok := by
    have p : apiPrim env s4 (.write ok) = write s4 ok := by simp [apiPrim, R4.alive]
    have d : (write s4 ok).dcFlag = false := by rw [(write_flags s4 ok).2, R4.dcFlag]
    unfold api; simp only [p, d]; simp
  rw [e3, write_eq s4 ok R4.ioOpen R4.ws]
  obtain ⟨g1, g2, g3, g4, _, g6⟩ := respond_state s4 ok R4.ioOpen R4.devOpen R4.conn
  have e4 : api env app (write (writeHeaders s4) ok) .close = close (write (writeHeaders s4) ok) := by
    have : (write (writeHeaders s4) ok).alive = true := by
      rw [(write_flags _ ok).1]; unfold writeHeaders; rw [(tcpWrite_flags _ _).1]; exact R4.alive
    have p : apiPrim env (write (writeHeaders s4) ok) .close = close (write (writeHeaders s4) ok) := by
      simp [apiPrim, this]
    have d : (close (write (writeHeaders s4) ok)).dcFlag = false := by rw [g3, R4.dcFlag]
    unfold api; simp only [p, d]; simp
  rw [e4]
  refine ⟨_, Obs.w (headBytes s4) :: ((if ok.isEmpty then [] else [Obs.w ok]) ++ [Obs.tc]), rfl,
    by rw [g1, R4.alive], g2, by rw [g4, R4.delP], ?_⟩
  rw [g6, R4.log]
  rfl


/-! ### the three runs -/

theorem run_refused (env : Env) (table : List (Bytes × Bytes)) (realm stream head rest : Bytes)
    (rh : Parser.ReqHead) (p : Bytes) (q : List (Bytes × Bytes))
    (h : breakOn CRLF2 stream = some (head, rest))
    (hp : Parser.parseRequestHeaders head [] = some rh) (hu : env.url rh.rawPath = some (p, q))
    (hv : verdict table (HeaderMap.value AUTHORIZATION rh.headers) = false) :
    (Sock.run env (authApp table realm) [.new, .feed stream, .turn]).log =
      [Obs.ev 0, Obs.ev 1, Obs.hp, Obs.mw 0 false] ++
      (Obs.w (errStart 401 ++ CRLF ++
          headerLines (errHeaders [(WWW_AUTH, challenge realm)] (natDigits (errBody env 401).length)) ++ CRLF) ::
        ((if (errBody env 401).isEmpty then [] else [Obs.w (errBody env 401)]) ++ [Obs.tc])) ++
      [Obs.ev 2] := by
  obtain ⟨s1, hr, hR, hq⟩ := readHeaders_good env (authApp table realm) stream head rest rh p q h hp hu
  have ho : (authApp table realm).onHp s1 =
      [.note (.mw 0 false), .hdr WWW_AUTH (challenge realm) true, .err 401 none] := by
    show ops table realm s1 = _
    unfold ops; rw [hq, hv]; rfl
  rw [ho] at hr
  obtain ⟨r, he, g1, g2, g3, g4⟩ := emit_refused env (authApp table realm) s1 hR (challenge realm)
  rw [he] at hr
  rw [run_eq, orr_of_true env _ stream r hr g2, turn_log env _ ({ r with readBuffer := [] }) g1 g2]
  show r.log ++ (Obs.ev 2 :: if r.delPending = true then [Obs.del] else []) = _
  rw [g3, g4]
  rfl

theorem run_admitted (env : Env) (table : List (Bytes × Bytes)) (realm stream head rest : Bytes)
    (rh : Parser.ReqHead) (p : Bytes) (q : List (Bytes × Bytes))
    (h : breakOn CRLF2 stream = some (head, rest))
    (hp : Parser.parseRequestHeaders head [] = some rh) (hu : env.url rh.rawPath = some (p, q))
    (hv : verdict table (HeaderMap.value AUTHORIZATION rh.headers) = true) :
    ∃ tail, (Sock.run env (authApp table realm) [.new, .feed stream, .turn]).log =
      [Obs.ev 0, Obs.ev 1, Obs.hp, Obs.mw 0 true, Obs.pr 0 []] ++ tail := by
  obtain ⟨s1, hr, hR, hq⟩ := readHeaders_good env (authApp table realm) stream head rest rh p q h hp hu
  have ho : (authApp table realm).onHp s1 =
      [.note (.mw 0 true), .note (.pr 0 []), .write (lit ['o','k']), .close] := by
    show ops table realm s1 = _
    unfold ops; rw [hq, hv]; rfl
  rw [ho] at hr
  obtain ⟨r, tail, he, g1, g2, g3, g4⟩ := emit_admitted env (authApp table realm) s1 hR (lit ['o','k'])
  rw [he] at hr
  rw [run_eq, orr_of_true env _ stream r hr g2, turn_log env _ ({ r with readBuffer := [] }) g1 g2]
  show ∃ tail, r.log ++ (Obs.ev 2 :: if r.delPending = true then [Obs.del] else []) = _
  rw [g3, g4]
  exact ⟨tail ++ [Obs.ev 2], by simp⟩

/-! ### the 401 on the wire, read back by the strict reader -/

theorem errHeaders_auth (ch d : Bytes) :
    errHeaders [(WWW_AUTH, ch)] d = [(CONTENT_LENGTH, d), (CONTENT_TYPE, TEXT_HTML), (WWW_AUTH, ch)] := by
  have k1 : HeaderMap.keyEq WWW_AUTH CONTENT_LENGTH = false := by decide
  have k2 : HeaderMap.keyLt WWW_AUTH CONTENT_LENGTH = false := by decide
  have k3 : HeaderMap.keyEq CONTENT_LENGTH CONTENT_TYPE = false := by decide
  have k4 : HeaderMap.keyEq WWW_AUTH CONTENT_TYPE = false := by decide
  have k5 : HeaderMap.keyLt CONTENT_LENGTH CONTENT_TYPE = true := by decide
  have k6 : HeaderMap.keyLt WWW_AUTH CONTENT_TYPE = false := by decide
  simp [errHeaders, HeaderMap.remove, HeaderMap.insert, List.filter, k1, k2, k3, k4, k5, k6]

/-- a two-byte delimiter not found in `x` is not found after appending a byte different from
    its second byte -/
theorem breakOn2_none_snoc {p q c : UInt8} (hc : c ≠ q) : ∀ {x : Bytes},
    breakOn [p, q] x = none → breakOn [p, q] (x ++ [c]) = none
  | [], _ => by simp [breakOn, List.isPrefixOf]
  | a :: x, h => by
    rw [breakOn] at h
    by_cases hp : [p, q].isPrefixOf (a :: x) = true
    · simp [hp] at h
    · simp only [hp, Bool.false_eq_true, if_false] at h
      have hx : breakOn [p, q] x = none := by
        cases hb : breakOn [p, q] x with
        | none => rfl
        | some w => simp [hb] at h
      have hp' : [p, q].isPrefixOf (a :: (x ++ [c])) = false := by
        cases x with
        | nil => simp [List.isPrefixOf]; intro _; exact fun e => hc e.symm
        | cons b x => simpa [List.isPrefixOf] using hp
      rw [List.cons_append, breakOn, hp', breakOn2_none_snoc hc hx]; simp

/-- the challenge contains `", "` only if the realm does -/
theorem challenge_no_commaSP {realm : Bytes} (h : isInfixB [44, 32] realm = false) :
    breakOn [44, 32] (challenge realm) = none := by
  have h0 : breakOn [44, 32] realm = none := by
    unfold isInfixB at h
    cases hb : breakOn [44, 32] realm with
    | none => rfl
    | some w => rw [hb] at h; cases h
  have h1 : breakOn [44, 32] (realm ++ [34]) = none := breakOn2_none_snoc (by decide) h0
  unfold challenge
  rw [List.append_assoc, HB.breakOn_append_of_not_mem _ (by decide), h1]
  rfl

theorem challenge_no_CR {realm : Bytes} (h : containsByte CR realm = false) : CR ∉ challenge realm := by
  have := containsByte_eq_false_iff.1 h
  unfold challenge
  simp only [List.mem_append, not_or]
  exact ⟨⟨by decide, this⟩, by decide⟩

/-- the 401 response as the strict reader sees it -/
def msg401 (env : Env) (realm : Bytes) : Http.Msg :=
  { start := errStart 401,
    headers := [(CONTENT_LENGTH, natDigits (errBody env 401).length), (CONTENT_TYPE, TEXT_HTML),
                (WWW_AUTH, challenge realm)],
    body := errBody env 401 }

theorem parse_401 (env : Env) (realm : Bytes) (hcr : containsByte CR realm = false) :
    Http.parse (errStart 401 ++ CRLF ++
        headerLines (errHeaders [(WWW_AUTH, challenge realm)] (natDigits (errBody env 401).length)) ++ CRLF ++
        errBody env 401) = some (msg401 env realm) := by
  rw [errHeaders_auth]
  apply Http.parse_render
  · decide
  · intro e he
    simp only [List.mem_cons, List.not_mem_nil, or_false] at he
    rcases he with rfl | rfl | rfl
    · exact ⟨(by decide : CONTENT_LENGTH ≠ []), (by decide : COLON ∉ CONTENT_LENGTH),
        (by decide : CR ∉ CONTENT_LENGTH), HB.natDigits_not_mem _ (Or.inl (by decide))⟩
    · exact ⟨(by decide : CONTENT_TYPE ≠ []), (by decide : COLON ∉ CONTENT_TYPE),
        (by decide : CR ∉ CONTENT_TYPE), (by decide : CR ∉ TEXT_HTML)⟩
    · exact ⟨(by decide : WWW_AUTH ≠ []), (by decide : COLON ∉ WWW_AUTH),
        (by decide : CR ∉ WWW_AUTH), challenge_no_CR hcr⟩

theorem statusLine_401 : (Http.statusLine (errStart 401)).map (·.code) = some 401 := by decide

theorem valuesOf_auth_401 (d ch : Bytes) (h : breakOn [44, 32] ch = none) :
    Http.valuesOf WWW_AUTH [(CONTENT_LENGTH, d), (CONTENT_TYPE, TEXT_HTML), (WWW_AUTH, ch)] = [ch] := by
  have k1 : (lower CONTENT_LENGTH == lower WWW_AUTH) = false := by decide
  have k2 : (lower CONTENT_TYPE == lower WWW_AUTH) = false := by decide
  have e : splitF [44, 32] (ch.length + 1) none ch = [ch] := by
    show HB.splitAll [44, 32] ch = [ch]
    rw [HB.splitAll_eq, h]
  simp [Http.valuesOf, List.filter, k1, k2, e]

theorem valuesOf_cl_401 (n : Nat) (ch : Bytes) :
    Http.valuesOf CONTENT_LENGTH
      [(CONTENT_LENGTH, natDigits n), (CONTENT_TYPE, TEXT_HTML), (WWW_AUTH, ch)] = [natDigits n] := by
  have k1 : (lower WWW_AUTH == lower CONTENT_LENGTH) = false := by decide
  have k2 : (lower CONTENT_TYPE == lower CONTENT_LENGTH) = false := by decide
  have e : splitF [44, 32] ((natDigits n).length + 1) none (natDigits n) = [natDigits n] := by
    show HB.splitAll [44, 32] (natDigits n) = [natDigits n]
    exact HB.splitAll_of_not_mem (HB.natDigits_not_mem n (Or.inl (by decide)))
  simp [Http.valuesOf, List.filter, k1, k2, e]

end Qhttp.C09L
