import Qhttp.Lemmas.C19Api
/-
  C19, part 3: the invariant.

  `K` is stated over the fields C19 depends on: unacknowledged bytes `u`, the transport's open
  flag `o`, its connection state `c`, the "disconnected is due" flag `f`, the history `l` and
  whether the request head is still being read (`rh`).  Ghost parameters:
    `d`  — a `dc` that is owed because the transport was set to unconnected by the caller
           (peerClose, last acknowledgement) and `emitDc` has not run yet;
    `m`  — how many `rt` notes the running `headersParsed` slot may still record;
    `q`  — whether "closing implies bytes outstanding" currently holds (it is transiently false
           inside `ackN`, between the decrement and the check that follows the `bw` slot);
    `ak` — the acknowledgement function of the event list (`ackAt evs`).
-/
namespace Qhttp.C19L
open Qhttp Qhttp.Obs Qhttp.Sock

def K (ak : Nat → Nat → Nat) (q : Bool) (d m u : Nat) (o : Bool) (c : Conn) (f : Bool)
    (l : List Obs) (rh : Prop) : Prop :=
  countP isDc l + d + (if f = true then 1 else 0) = (if c = .unconnected then 1 else 0) ∧
  countP isTc l = (if o = true then 0 else 1) ∧
  aftClose l = true ∧
  (o = false → c ≠ .connected) ∧
  (c = .closing → o = false) ∧
  countP isHp l ≤ 1 ∧
  countP isRt l + m ≤ countP isHp l ∧
  (rh → countP isHp l = 0) ∧
  (trk ak l).1 = (trk ak l).2 + u ∧
  (q = true → c = .closing → 0 < u)

def KP (ak : Nat → Nat → Nat) (q : Bool) (d m : Nat) (s : Sock) : Prop :=
  K ak q d m s.tcp.unacked s.tcp.devOpen s.tcp.conn s.dcFlag s.log (s.rs = .headers)

theorem K_note {ak q d m u o c f l rh} {x : Obs} (hx : quiet x = true)
    (h : K ak q d m u o c f l rh) : K ak q d m u o c f (l ++ [x]) rh := by
  obtain ⟨h1, h2, h3, h4, h5, h6, h7, h8, h9, h10⟩ := h
  obtain ⟨q1, q2, q3, q4, q5, q6⟩ := quiet_facts hx
  refine ⟨?_, ?_, ?_, h4, h5, ?_, ?_, ?_, ?_, h10⟩
  · rw [countP_snoc_false _ q5]; exact h1
  · rw [countP_snoc_false _ q4]; exact h2
  · exact aftClose_snoc _ _ h3 (Or.inl q3)
  · rw [countP_snoc_false _ q1]; exact h6
  · rw [countP_snoc_false _ q1, countP_snoc_false _ q2]; exact h7
  · rw [countP_snoc_false _ q1]; exact h8
  · rw [trk_snoc, trk1_other _ _ _ q3 q6]; exact h9

theorem K_write {ak q d m u f l rh} (b : Bytes)
    (h : K ak q d m u true .connected f l rh) :
    K ak q d m (u + b.length) true .connected f (l ++ [.w b]) rh := by
  obtain ⟨h1, h2, h3, h4, h5, h6, h7, h8, h9, h10⟩ := h
  refine ⟨?_, ?_, ?_, h4, h5, ?_, ?_, ?_, ?_, ?_⟩
  · rw [countP_snoc_false _ rfl]; exact h1
  · rw [countP_snoc_false _ rfl]; exact h2
  · exact aftClose_snoc _ _ h3 (Or.inr (by simpa using h2))
  · rw [countP_snoc_false _ rfl]; exact h6
  · rw [countP_snoc_false _ rfl, countP_snoc_false _ rfl]; exact h7
  · rw [countP_snoc_false _ rfl]; exact h8
  · rw [trk_snoc]; simp only [trk1]; omega
  · intro _ hc; cases hc

theorem K_tc {ak q d m u c f l rh} 
    (h : K ak q d m u true c f l rh) (c' : Conn) (f' : Bool)
    (hc : (c = .connected ∧ u = 0 ∧ c' = .unconnected ∧ f' = true) ∨
          (c = .connected ∧ u ≠ 0 ∧ c' = .closing ∧ f' = f) ∨
          (c ≠ .connected ∧ c' = c ∧ f' = f)) :
    K ak q d m u false c' f' (l ++ [.tc]) rh := by
  obtain ⟨h1, h2, h3, h4, h5, h6, h7, h8, h9, h10⟩ := h
  refine ⟨?_, ?_, ?_, ?_, ?_, ?_, ?_, ?_, ?_, ?_⟩
  · rw [countP_snoc_false _ rfl]
    rcases hc with ⟨rfl, rfl, rfl, rfl⟩ | ⟨rfl, _, rfl, rfl⟩ | ⟨hc, rfl, rfl⟩
    · simp at h1 ⊢; omega
    · simpa using h1
    · exact h1
  · rw [countP_snoc]; simp at h2; simp [h2, isTc]
  · exact aftClose_snoc _ _ h3 (Or.inl rfl)
  · intro _
    rcases hc with ⟨rfl, rfl, rfl, rfl⟩ | ⟨rfl, _, rfl, rfl⟩ | ⟨hc, rfl, rfl⟩ <;> simp_all
  · intro _; rfl
  · rw [countP_snoc_false _ rfl]; exact h6
  · rw [countP_snoc_false _ rfl, countP_snoc_false _ rfl]; exact h7
  · rw [countP_snoc_false _ rfl]; exact h8
  · rw [trk_snoc]; exact h9
  · intro hq hcl
    rcases hc with ⟨rfl, rfl, rfl, rfl⟩ | ⟨rfl, hu, rfl, rfl⟩ | ⟨hc, rfl, rfl⟩
    · cases hcl
    · omega
    · have := h5 hcl; cases this

theorem K_dc {ak q d m u o c f l rh} (h : K ak q d m u o c f l rh)
    (hd : d + (if f = true then 1 else 0) = 1) : K ak q 0 m u o c false (l ++ [.dc]) rh := by
  obtain ⟨h1, h2, h3, h4, h5, h6, h7, h8, h9, h10⟩ := h
  refine ⟨?_, ?_, ?_, h4, h5, ?_, ?_, ?_, ?_, h10⟩
  · rw [countP_snoc]; simp [isDc]; omega
  · rw [countP_snoc_false _ rfl]; exact h2
  · exact aftClose_snoc _ _ h3 (Or.inl rfl)
  · rw [countP_snoc_false _ rfl]; exact h6
  · rw [countP_snoc_false _ rfl, countP_snoc_false _ rfl]; exact h7
  · rw [countP_snoc_false _ rfl]; exact h8
  · rw [trk_snoc]; exact h9

theorem K_hp {ak q d u o c f l} {rh : Prop} (h : K ak q d 0 u o c f l rh) (hr : rh) :
    K ak q d 1 u o c f (l ++ [.hp]) False := by
  obtain ⟨h1, h2, h3, h4, h5, h6, h7, h8, h9, h10⟩ := h
  have h0 := h8 hr
  refine ⟨?_, ?_, ?_, h4, h5, ?_, ?_, ?_, ?_, h10⟩
  · rw [countP_snoc_false _ rfl]; exact h1
  · rw [countP_snoc_false _ rfl]; exact h2
  · exact aftClose_snoc _ _ h3 (Or.inl rfl)
  · rw [countP_snoc]; simp [isHp]; omega
  · rw [countP_snoc_false (p := isRt) _ rfl, countP_snoc]; simp [isHp]; omega
  · exact False.elim
  · rw [trk_snoc]; exact h9

theorem K_rt {ak q d m u o c f l rh} (a : Nat) (b : Bytes) (h : K ak q d (m + 1) u o c f l rh) :
    K ak q d m u o c f (l ++ [.rt a b]) rh := by
  obtain ⟨h1, h2, h3, h4, h5, h6, h7, h8, h9, h10⟩ := h
  refine ⟨?_, ?_, ?_, h4, h5, ?_, ?_, ?_, ?_, h10⟩
  · rw [countP_snoc_false _ rfl]; exact h1
  · rw [countP_snoc_false _ rfl]; exact h2
  · exact aftClose_snoc _ _ h3 (Or.inl rfl)
  · rw [countP_snoc_false _ rfl]; exact h6
  · rw [countP_snoc_false (p := isHp) _ rfl, countP_snoc]; simp [isRt]; omega
  · rw [countP_snoc_false _ rfl]; exact h8
  · rw [trk_snoc]; exact h9

theorem K_weaken {ak q d m m' u o c f l rh} (h : K ak q d m u o c f l rh) (hm : m' ≤ m) :
    K ak q d m' u o c f l rh := by
  obtain ⟨h1, h2, h3, h4, h5, h6, h7, h8, h9, h10⟩ := h
  exact ⟨h1, h2, h3, h4, h5, h6, by omega, h8, h9, h10⟩

theorem K_rh {ak q d m u o c f l} {rh rh' : Prop} (h : K ak q d m u o c f l rh) (hr : rh' → rh) :
    K ak q d m u o c f l rh' := by
  obtain ⟨h1, h2, h3, h4, h5, h6, h7, h8, h9, h10⟩ := h
  exact ⟨h1, h2, h3, h4, h5, h6, h7, fun x => h8 (hr x), h9, h10⟩

theorem K_qfalse {ak q d m u o c f l rh} (h : K ak q d m u o c f l rh) :
    K ak false d m u o c f l rh := by
  obtain ⟨h1, h2, h3, h4, h5, h6, h7, h8, h9, h10⟩ := h
  exact ⟨h1, h2, h3, h4, h5, h6, h7, h8, h9, fun x => by cases x⟩

theorem K_qtrue {ak q d m u o c f l rh} (h : K ak q d m u o c f l rh)
    (hq : c = .closing → 0 < u) : K ak true d m u o c f l rh := by
  obtain ⟨h1, h2, h3, h4, h5, h6, h7, h8, h9, h10⟩ := h
  exact ⟨h1, h2, h3, h4, h5, h6, h7, h8, h9, fun _ => hq⟩

/-- the marker of the k-th event, together with the decrement the event is about to make -/
theorem K_ev {ak q d m u o c f l rh} (k : Nat) (h : K ak q d m u o c f l rh) (hk : ak k u ≤ u) :
    K ak false d m (u - ak k u) o c f (l ++ [.ev k]) rh := by
  obtain ⟨h1, h2, h3, h4, h5, h6, h7, h8, h9, h10⟩ := h
  refine ⟨?_, ?_, ?_, h4, h5, ?_, ?_, ?_, ?_, fun x => by cases x⟩
  · rw [countP_snoc_false _ rfl]; exact h1
  · rw [countP_snoc_false _ rfl]; exact h2
  · exact aftClose_snoc _ _ h3 (Or.inl rfl)
  · rw [countP_snoc_false _ rfl]; exact h6
  · rw [countP_snoc_false _ rfl, countP_snoc_false _ rfl]; exact h7
  · rw [countP_snoc_false _ rfl]; exact h8
  · rw [trk_snoc]; simp only [trk1]
    have : (trk ak l).1 - (trk ak l).2 = u := by omega
    rw [this]; omega

/-- the transport becomes unconnected from outside the API: a `dc` is owed -/
theorem K_unconn {ak q m u o c l rh} (h : K ak q 0 m u o c false l rh) (hc : c ≠ .unconnected) :
    K ak true 1 m u o .unconnected false l rh := by
  obtain ⟨h1, h2, h3, h4, h5, h6, h7, h8, h9, h10⟩ := h
  refine ⟨?_, h2, h3, ?_, ?_, h6, h7, h8, h9, ?_⟩
  · simp [hc] at h1 ⊢; omega
  · intro _ x; cases x
  · intro x; cases x
  · intro _ x; cases x

theorem K_init (ak : Nat → Nat → Nat) (rh : Prop) :
    K ak true 0 0 0 true .connected false [] rh := by
  refine ⟨?_, ?_, ?_, ?_, ?_, ?_, ?_, ?_, ?_, ?_⟩ <;> simp [countP_nil, aftClose_nil, trk_nil]

theorem KP_same {ak q d m} {s s' : Sock} (hs : Same s s') (h : KP ak q d m s) : KP ak q d m s' := by
  unfold KP at *
  rw [hs.u, hs.o, hs.c, hs.f, hs.l]
  exact K_rh h hs.r

theorem KP_tcpWrite {ak q d m} {s : Sock} (b : Bytes) (h : KP ak q d m s) :
    KP ak q d m (tcpWrite s b) := by
  unfold tcpWrite
  split
  · rename_i hc
    simp only [Bool.and_eq_true, beq_iff_eq] at hc
    obtain ⟨⟨ho, hcn⟩, _⟩ := hc
    unfold KP at *
    rw [ho, hcn] at h
    show K ak q d m (s.tcp.unacked + b.length) s.tcp.devOpen s.tcp.conn s.dcFlag (s.log ++ [.w b]) _
    rw [ho, hcn]
    exact K_write b h
  · exact h

theorem KP_tcpClose {ak q d m} {s : Sock} (h : KP ak q d m s) : KP ak q d m (tcpClose s) := by
  unfold tcpClose
  split
  · exact h
  · rename_i ho
    replace ho : s.tcp.devOpen = true := by simpa using ho
    unfold KP at h
    rw [ho] at h
    dsimp only
    split
    · rename_i hc
      split
      · rename_i hu
        exact K_tc h _ _ (Or.inl ⟨hc, hu, rfl, rfl⟩)
      · rename_i hu
        exact K_tc h _ _ (Or.inr (Or.inl ⟨hc, hu, rfl, rfl⟩))
    · rename_i hc
      exact K_tc h _ _ (Or.inr (Or.inr ⟨fun x => hc x, rfl, rfl⟩))

theorem KP_closed (ak q d m) : ApiClosed (KP ak q d m) where
  same := fun _ _ hs h => KP_same hs h
  tw := fun _ b h => KP_tcpWrite b h
  tcl := fun _ h => KP_tcpClose h
  note := fun _ _ ho h => K_note ho h


def rtNote : ApiOp → Bool
  | .note (.rt _ _) => true
  | _ => false

/-- what the `headersParsed` slot may do -/
def hOp (op : ApiOp) : Bool := rtNote op || qOp op

/-- the application class of C19 (same shape as `C19.AppOK`) -/
structure AppOK (app : App) : Prop where
  hp  : ∀ s, (app.onHp s).all hOp = true ∧ ((app.onHp s).filter rtNote).length ≤ 1
  rr  : ∀ s, (app.onRr s).all qOp = true
  rcf : ∀ s, (app.onRcf s).all qOp = true
  bw  : ∀ s, (app.onBw s).all qOp = true
  dc  : ∀ s, (app.onDc s).all qOp = true

/-- signal level: the invariant, and no `disconnected` emission is due -/
def KS (ak : Nat → Nat → Nat) (q : Bool) (d m : Nat) (s : Sock) : Prop :=
  KP ak q d m s ∧ s.dcFlag = false

theorem ApiClosed.and {P Q : Sock → Prop} (h1 : ApiClosed P) (h2 : ApiClosed Q) :
    ApiClosed (fun s => P s ∧ Q s) where
  same := fun s s' hs h => ⟨h1.same s s' hs h.1, h2.same s s' hs h.2⟩
  tw := fun s b h => ⟨h1.tw s b h.1, h2.tw s b h.2⟩
  tcl := fun s h => ⟨h1.tcl s h.1, h2.tcl s h.2⟩
  note := fun s o ho h => ⟨h1.note s o ho h.1, h2.note s o ho h.2⟩

theorem dcge_closed (n : Nat) : ApiClosed (fun s => n ≤ countP isDc s.log) where
  same := fun s s' hs h => by rw [hs.l]; exact h
  tw := fun s b h => by
    unfold tcpWrite; split
    · show n ≤ countP isDc (s.log ++ [.w b])
      rw [countP_snoc_false _ rfl]; exact h
    · exact h
  tcl := fun s h => by
    have : (tcpClose s).log = s.log ∨ (tcpClose s).log = s.log ++ [.tc] := by
      unfold tcpClose; split
      · exact Or.inl rfl
      · right; dsimp only; split
        · split <;> rfl
        · rfl
    rcases this with e | e <;> rw [e]
    · exact h
    · rw [countP_snoc_false _ rfl]; exact h
  note := fun s o ho h => by
    show n ≤ countP isDc (s.log ++ [o])
    rw [countP_snoc_false _ (quiet_facts ho).2.2.2.2.1]; exact h

variable {env : Env} {app : App} {ak : Nat → Nat → Nat} {q : Bool} {d m : Nat} {s : Sock}

theorem dcFold (s1 : Sock) (h1 : KP ak q 0 m s1) (h2 : 1 ≤ countP isDc s1.log)
    (ops : List ApiOp) (hq : ops.all qOp = true) :
    KP ak q 0 m (ops.foldl (apiPrim env) s1) ∧ (ops.foldl (apiPrim env) s1).dcFlag = false := by
  have h3 := foldl_apiPrim_closed (P := fun s => KP ak q 0 m s ∧ 1 ≤ countP isDc s.log)
    ((KP_closed ak q 0 m).and (dcge_closed 1)) env ops hq (s := s1) ⟨h1, h2⟩
  generalize List.foldl (apiPrim env) s1 ops = s2 at h3 ⊢
  obtain ⟨h3, h4⟩ := h3
  refine ⟨h3, ?_⟩
  have := h3.1
  cases hf : s2.dcFlag
  · rfl
  · by_cases hc : s2.tcp.conn = .unconnected <;> simp [hf, hc] at this <;> omega

theorem emitDc_KS (happ : AppOK app) (h : KP ak q d m s)
    (hd : d + (if s.dcFlag = true then 1 else 0) = 1) : KS ak q 0 m (emitDc env app s) := by
  unfold emitDc
  dsimp only
  have h1 : KP ak q 0 m { s with dcFlag := false, log := s.log ++ [.dc] } := K_dc h hd
  have h2 : 1 ≤ countP isDc ({ s with dcFlag := false, log := s.log ++ [.dc] } : Sock).log := by
    show 1 ≤ countP isDc (s.log ++ [.dc])
    rw [countP_snoc]; simp [isDc]
  have h3 := dcFold (env := env) _ h1 h2
    (app.onDc { s with dcFlag := false, log := s.log ++ [.dc] }) (happ.dc _)
  generalize List.foldl (apiPrim env) _ _ = s2 at h3 ⊢
  obtain ⟨h3, hf⟩ := h3
  exact ⟨KP_same (s := s2) ⟨rfl, rfl, rfl, hf.symm, rfl, id⟩ h3, rfl⟩

/-- what `api` and `readHeaders` do after a primitive: run the `disconnected` reaction if due -/
theorem fin_KS (happ : AppOK app) (h : KP ak q d m s) :
    KS ak q d m (if s.dcFlag = true then emitDc env app s else s) := by
  split
  · rename_i hf
    have h0 := h.1
    rw [hf] at h0
    have hd : d = 0 := by
      by_cases hc : s.tcp.conn = .unconnected <;> simp [hc] at h0 <;> omega
    subst hd
    exact emitDc_KS happ h (by simp [hf])
  · rename_i hf
    exact ⟨h, by simpa using hf⟩

theorem api_quiet (happ : AppOK app) {op : ApiOp} (hq : qOp op = true) (h : KP ak q d m s) :
    KS ak q d m (api env app s op) := by
  unfold api
  exact fin_KS happ (apiPrim_closed (KP_closed ak q d m) env hq h)

theorem api_rt (happ : AppOK app) (a : Nat) (b : Bytes) (h : KP ak q d (m + 1) s) :
    KS ak q d m (api env app s (.note (.rt a b))) := by
  unfold api
  apply fin_KS happ
  unfold apiPrim
  split
  · exact K_weaken h (Nat.le_succ m)
  · exact K_rt a b h

theorem apis_quiet (happ : AppOK app) (ops : List ApiOp) (hq : ops.all qOp = true)
    (h : KS ak q d m s) : KS ak q d m (apis env app s ops) := by
  unfold apis
  induction ops generalizing s with
  | nil => exact h
  | cons op ops ih =>
    simp only [List.all_cons, Bool.and_eq_true] at hq
    exact ih hq.2 (api_quiet happ hq.1 h.1)

theorem apis_hp (happ : AppOK app) (ops : List ApiOp) (hq : ops.all hOp = true)
    (hn : (ops.filter rtNote).length ≤ m) (h : KS ak q d m s) :
    KS ak q d 0 (apis env app s ops) := by
  unfold apis
  induction ops generalizing s m with
  | nil => exact ⟨K_weaken h.1 (Nat.zero_le m), h.2⟩
  | cons op ops ih =>
    simp only [List.all_cons, Bool.and_eq_true] at hq
    by_cases hr : rtNote op = true
    · have hn' : (ops.filter rtNote).length + 1 ≤ m := by
        simpa [List.filter_cons, hr] using hn
      obtain ⟨m', rfl⟩ : ∃ m', m = m' + 1 := ⟨m - 1, by omega⟩
      have : ∃ a b, op = .note (.rt a b) := by
        cases op <;> simp [rtNote] at hr
        rename_i o; cases o <;> simp at hr
        exact ⟨_, _, rfl⟩
      obtain ⟨a, b, rfl⟩ := this
      exact ih hq.2 (by omega) (api_rt happ a b h.1)
    · have hn' : (ops.filter rtNote).length ≤ m := by
        simpa [List.filter_cons, hr] using hn
      have hqo : qOp op = true := by
        have := hq.1; simp only [hOp, Bool.or_eq_true] at this
        rcases this with h' | h'
        · exact absurd h' hr
        · exact h'
      exact ih hq.2 hn' (api_quiet happ hqo h.1)

theorem emit_quiet (happ : AppOK app) {o : Obs} (ho : quiet o = true) (ops : List ApiOp)
    (hq : ops.all qOp = true) (h : KS ak q d m s) : KS ak q d m (emit env app s o ops) := by
  unfold emit
  exact apis_quiet happ ops hq ⟨K_note ho h.1, h.2⟩


end Qhttp.C19L
