import Qhttp.Lemmas.C02Inv
/-
  C02 — the private slots (`readHeaders`, `readData`, `onReadyRead`) preserve `Mid` for every
  reader application.
-/
namespace Qhttp.C02
open Qhttp

variable {evs : List Event} {hl N fedLen : Nat} {hb B : Bytes} {a : Option Nat} {s : Sock}

/-! ### state changes made by the slots themselves -/

theorem Mid.len_le (h : Mid evs hl N fedLen hb B a s) (hrs : s.rs ≠ .headers) :
    (Obs.reads s.log).length + s.qio.length + s.readBuffer.length = B.length := by
  have := (h.dat hrs).1
  rw [← this]; simp; omega

/-- the transport's bytes are moved into the read buffer -/
theorem Mid.setBuf (h : Mid evs hl N fedLen hb B a s) (b' : Bytes) (t' : Tcp) (ht : t'.devOpen = true)
    (hf : s.rs ≠ .headers → hl + (Obs.reads s.log ++ s.qio ++ b').length ≤ fedLen) :
    Mid evs hl N fedLen b' (Obs.reads s.log ++ s.qio ++ b') a { s with readBuffer := b', tcp := t' } := by
  refine { alive := h.alive, ioOpen := h.ioOpen, devOpen := ht,
           dcFlag := h.dcFlag, delPending := h.delPending,
           walk := h.walk, wst := h.wst, hp := h.hp, rcf := h.rcf, tc := h.tc, hdr := ?_, dat := ?_ }
  · intro hh
    obtain ⟨_, e2, e3, e4, e5, e6⟩ := h.hdr hh
    exact ⟨rfl, e2, e3, e4, e5, e6⟩
  · intro hh
    obtain ⟨_, e2, e3, _⟩ := h.dat hh
    exact ⟨rfl, e2, e3, hf hh⟩

theorem Mid.setInit (h : Mid evs hl N fedLen hb B a s) (v : Bool) :
    Mid evs hl N fedLen hb B a { s with initPending := v } :=
  { alive := h.alive, ioOpen := h.ioOpen, devOpen := h.devOpen,
    dcFlag := h.dcFlag, delPending := h.delPending,
    walk := h.walk, wst := h.wst, hp := h.hp, rcf := h.rcf, tc := h.tc, hdr := h.hdr, dat := h.dat }

theorem Mid.setInbox (h : Mid evs hl N fedLen hb B a s) (v : Bytes) :
    Mid evs hl N fedLen hb B a { s with tcp := { s.tcp with inbox := v } } :=
  { alive := h.alive, ioOpen := h.ioOpen, devOpen := h.devOpen,
    dcFlag := h.dcFlag, delPending := h.delPending,
    walk := h.walk, wst := h.wst, hp := h.hp, rcf := h.rcf, tc := h.tc, hdr := h.hdr, dat := h.dat }

/-- `SocketPrivate::readData`, first statement: the buffer is cut at the declared length -/
theorem Mid.cut (h : Mid evs hl N fedLen hb B a s) (hrs : s.rs ≠ .headers)
    (hk : (Obs.reads s.log).length + s.qio.length ≤ N) :
    Mid evs hl N fedLen hb (B.take N) a
      (if s.total ≥ 0 && s.dataRead + s.readBuffer.length > s.total
       then { s with readBuffer := s.readBuffer.take (s.total - s.dataRead).toNat } else s) := by
  obtain ⟨e1, e2, e3, e4⟩ := h.dat hrs
  have hlen := h.len_le hrs
  by_cases hc : (s.total ≥ 0 && s.dataRead + s.readBuffer.length > s.total) = true
  · rw [if_pos hc]
    have hk' : (s.total - s.dataRead).toNat = N - ((Obs.reads s.log).length + s.qio.length) := by
      rw [e2, e3]; omega
    have hB : B.take N = Obs.reads s.log ++ s.qio ++ s.readBuffer.take (s.total - s.dataRead).toNat := by
      rw [← e1, hk', C02L.take_append_of_le _ _ _ (by simp; omega)]
      simp
    rw [hB]
    have := h.setBuf (s.readBuffer.take (s.total - s.dataRead).toNat) s.tcp h.devOpen
      (fun _ => by rw [← hB]; simp; omega)
    refine { alive := this.alive, ioOpen := this.ioOpen, devOpen := this.devOpen,
             dcFlag := this.dcFlag, delPending := this.delPending,
             walk := this.walk, wst := this.wst, hp := this.hp, rcf := this.rcf, tc := this.tc,
             hdr := fun hh => absurd hh hrs, dat := this.dat }
  · rw [if_neg hc]
    have hle : B.length ≤ N := by
      simp only [Bool.and_eq_true, decide_eq_true_eq, not_and] at hc
      rw [e2, e3] at hc
      have := hc (by omega)
      omega
    rw [List.take_of_length_le hle]
    exact h

/-- `headersParsed` is about to be emitted -/
theorem Mid.hpEmit (h : Mid evs hl N fedLen hb B none s) (hrs : s.rs = .headers)
    (m : Nat) (rp p : Bytes) (rh : HeaderMap) (q : List (Bytes × Bytes)) (buf : Bytes)
    (hf : hl + buf.length ≤ fedLen) :
    Mid evs hl N fedLen hb buf none
      { s with method := m, rawPath := rp, reqHeaders := rh, path := p, query := q, readBuffer := buf,
               rs := .data, total := (N : Int), log := s.log ++ [Obs.hp] } := by
  obtain ⟨_, _, _, e4, e5, e6⟩ := h.hdr hrs
  refine { alive := h.alive, ioOpen := h.ioOpen, devOpen := h.devOpen,
           dcFlag := h.dcFlag, delPending := h.delPending,
           walk := ?_, wst := ?_, hp := ?_, rcf := ?_, tc := ?_, hdr := ?_, dat := ?_ }
  · show walkL evs hl N (s.log ++ [Obs.hp]) 0 false none = true
    rw [walkL_append, h.walk]; simp [walkL]
  · show C02.wst evs (s.log ++ [Obs.hp]) 0 false none = _
    rw [wst_append, h.wst]; simp [C02.wst]
  · show Obs.countP Obs.isHp (s.log ++ [Obs.hp]) = _
    rw [countP_append, h.hp, hrs]; rfl
  · show Obs.countP Obs.isRcf (s.log ++ [Obs.hp]) = _
    rw [countP_append, h.rcf, hrs]; rfl
  · show (s.log ++ [Obs.hp]).any Obs.isTc = false
    rw [List.any_append, h.tc]; simp [Obs.isTc]
  · intro hh; exact absurd hh (by simp)
  · intro _
    show Obs.reads (s.log ++ [Obs.hp]) ++ s.qio ++ buf = buf ∧
      s.dataRead = ((Obs.reads (s.log ++ [Obs.hp])).length + s.qio.length : Nat) ∧ (N : Int) = N ∧
      hl + buf.length ≤ fedLen
    have : Obs.reads [Obs.hp] = [] := rfl
    rw [reads_append, this, e5, e4, e6]
    exact ⟨by simp, by simp, rfl, hf⟩

/-- `readChannelFinished` is about to be emitted -/
theorem Mid.rcfEmit (h : Mid evs hl N fedLen hb B none s) (hrs : s.rs = .data) (hN : hl + N ≤ fedLen) :
    Mid evs hl N fedLen hb B none { s with rs := .finished, log := s.log ++ [Obs.rcf] } := by
  have hne : s.rs ≠ .headers := by rw [hrs]; simp
  obtain ⟨e1, e2, e3, e4⟩ := h.dat hne
  refine { alive := h.alive, ioOpen := h.ioOpen, devOpen := h.devOpen,
           dcFlag := h.dcFlag, delPending := h.delPending,
           walk := ?_, wst := ?_, hp := ?_, rcf := ?_, tc := ?_, hdr := ?_, dat := ?_ }
  · show walkL evs hl N (s.log ++ [Obs.rcf]) 0 false none = true
    rw [walkL_append, h.walk, h.wst]; simp [walkL, hN]
  · show C02.wst evs (s.log ++ [Obs.rcf]) 0 false none = _
    rw [wst_append, h.wst, hrs]; rfl
  · show Obs.countP Obs.isHp (s.log ++ [Obs.rcf]) = _
    rw [countP_append, h.hp, hrs]; rfl
  · show Obs.countP Obs.isRcf (s.log ++ [Obs.rcf]) = _
    rw [countP_append, h.rcf, hrs]; rfl
  · show (s.log ++ [Obs.rcf]).any Obs.isTc = false
    rw [List.any_append, h.tc]; simp [Obs.isTc]
  · intro hh; exact absurd hh (by simp)
  · intro _
    show Obs.reads (s.log ++ [Obs.rcf]) ++ s.qio ++ s.readBuffer = B ∧
      s.dataRead = ((Obs.reads (s.log ++ [Obs.rcf])).length + s.qio.length : Nat) ∧ s.total = N ∧
      hl + B.length ≤ fedLen
    have : Obs.reads [Obs.rcf] = [] := rfl
    rw [reads_append, this, List.append_nil]
    exact ⟨e1, e2, e3, e4⟩

/-! ### `SocketPrivate::readData` -/

theorem Mid.emit_rr (env : Env) (app : App) (happ : ReaderApp app) (h : Mid evs hl N fedLen hb B a s) :
    Mid evs hl N fedLen hb B none (Sock.emit env app s .rr (app.onRr s)) ∧
      SameCtl s (Sock.emit env app s .rr (app.onRr s)) := by
  unfold Sock.emit
  obtain ⟨h2, c2⟩ := Mid.apis env app (app.onRr s) (happ.rr s) _ h.rr
  exact ⟨h2, SameCtl.trans ⟨rfl, rfl, rfl, rfl⟩ c2⟩

/-- the three statements of `SocketPrivate::readData`, one function each -/
def cutS (s : Sock) : Sock :=
  if s.total ≥ 0 && s.dataRead + s.readBuffer.length > s.total
  then { s with readBuffer := s.readBuffer.take (s.total - s.dataRead).toNat } else s
def rrS (env : Env) (app : App) (s : Sock) : Sock :=
  if s.readBuffer.length != 0 then Sock.emit env app s .rr (app.onRr s) else s
def finS (env : Env) (app : App) (s : Sock) : Sock :=
  if s.total != -1 && s.dataRead + s.readBuffer.length ≥ s.total then
    Sock.emit env app { s with rs := .finished } .rcf (app.onRcf { s with rs := .finished })
  else s

theorem readDataSlot_eq (env : Env) (app : App) (s : Sock) :
    Sock.readDataSlot env app s = finS env app (rrS env app (cutS s)) := rfl

theorem Mid.readDataSlot (env : Env) (app : App) (happ : ReaderApp app)
    (h : Mid evs hl N fedLen hb B none s) (hrs : s.rs = .data)
    (hk : (Obs.reads s.log).length + s.qio.length ≤ N) :
    Mid evs hl N fedLen hb (B.take N) none (Sock.readDataSlot env app s) ∧
      (Sock.readDataSlot env app s).tcp = s.tcp ∧
      (Sock.readDataSlot env app s).initPending = s.initPending ∧
      (Sock.readDataSlot env app s).rs = (if N ≤ B.length then .finished else .data) := by
  have hne : s.rs ≠ .headers := by rw [hrs]; simp
  rw [readDataSlot_eq]
  have h1 : Mid evs hl N fedLen hb (B.take N) none (cutS s) := h.cut hne hk
  have c1 : SameCtl s (cutS s) := by
    unfold cutS; split <;> exact ⟨rfl, rfl, rfl, rfl⟩
  generalize cutS s = s1 at h1 c1 ⊢
  have hc2 : Mid evs hl N fedLen hb (B.take N) none (rrS env app s1) ∧ SameCtl s1 (rrS env app s1) := by
    unfold rrS
    split
    · exact h1.emit_rr env app happ
    · exact ⟨h1, SameCtl.refl s1⟩
  obtain ⟨h2, c2⟩ := hc2
  generalize rrS env app s1 = s2 at h2 c2 ⊢
  have c12 := c1.trans c2
  have hrs2 : s2.rs = .data := by rw [c12.1, hrs]
  have hne2 : s2.rs ≠ .headers := by rw [hrs2]; simp
  obtain ⟨e1, e2, e3, e4⟩ := h2.dat hne2
  have hlen := h2.len_le hne2
  have hcond : (s2.total != -1 && s2.dataRead + s2.readBuffer.length ≥ s2.total) = true ↔ N ≤ B.length := by
    rw [e2, e3]
    simp only [Bool.and_eq_true, bne_iff_ne, ne_eq, decide_eq_true_eq, List.length_take] at hlen ⊢
    constructor
    · intro ⟨_, hx⟩; omega
    · intro hx; exact ⟨by omega, by omega⟩
  unfold finS
  by_cases hN : N ≤ B.length
  · rw [if_pos (hcond.mpr hN), if_pos hN]
    have hfed : hl + N ≤ fedLen := by
      have : (B.take N).length = N := by simp; omega
      omega
    have h3 := h2.rcfEmit hrs2 hfed
    unfold Sock.emit
    obtain ⟨h4, c4⟩ := Mid.apis env app (app.onRcf { s2 with rs := .finished })
      (happ.rcf _) _ h3
    refine ⟨h4, ?_, ?_, ?_⟩
    · rw [c4.2.1]; exact c12.2.1
    · rw [c4.2.2.1]; exact c12.2.2.1
    · rw [c4.1]
  · rw [if_neg (fun hc => hN (hcond.mp hc)), if_neg hN]
    exact ⟨h2, c12.2.1, c12.2.2.1, hrs2⟩

/-! ### `readHeaders`, `onReadyRead`: computation lemmas -/

theorem readHeaders_none (env : Env) (app : App) (s : Sock) (h : breakOn CRLF2 s.readBuffer = none) :
    Sock.readHeaders env app s = (s, false) := by
  unfold Sock.readHeaders; rw [h]

/-- the state in which `headersParsed` is emitted for an accepted head declaring `N` body bytes -/
def hpState (s : Sock) (rh : Parser.ReqHead) (p : Bytes) (q : List (Bytes × Bytes)) (rest : Bytes) (N : Nat) : Sock :=
  { s with method := rh.method, rawPath := rh.rawPath, reqHeaders := rh.headers, path := p,
           query := q.foldl (fun m e => Sock.qmInsert e.1 e.2 m) s.query,
           readBuffer := rest.take N, rs := .data, total := (N : Int) }

theorem readHeaders_acc (env : Env) (app : App) (s : Sock) (head rest : Bytes) (rh : Parser.ReqHead)
    (p : Bytes) (q : List (Bytes × Bytes)) (N : Nat)
    (hb : breakOn CRLF2 s.readBuffer = some (head, rest))
    (hp : Parser.parseRequestHeaders head s.reqHeaders = some rh)
    (hu : env.url rh.rawPath = some (p, q))
    (hc : HeaderMap.contains Sock.CONTENT_LENGTH_KEY rh.headers = true)
    (ht : toLongLong (HeaderMap.value Sock.CONTENT_LENGTH_KEY rh.headers) = (N : Int)) :
    Sock.readHeaders env app s =
      (Sock.emit env app (hpState s rh p q rest N) .hp (app.onHp (hpState s rh p q rest N)), true) := by
  unfold Sock.readHeaders
  simp only [hb, hp, hu]
  have hbuf : (if ((N : Int) ≥ 0 && (rest.length : Int) > (N : Int)) = true then rest.take (N : Int).toNat else rest)
      = rest.take N := by
    split
    · simp
    · rename_i hc
      simp at hc
      rw [List.take_of_length_le (by omega)]
  simp only [hc, ht, if_true, hbuf]
  rfl

def pullS (s : Sock) : Sock :=
  if s.tcp.devOpen then { s with readBuffer := s.readBuffer ++ s.tcp.inbox, tcp := { s.tcp with inbox := [] } } else s

theorem pullS_rs (s : Sock) : (pullS s).rs = s.rs := by unfold pullS; split <;> rfl

/-- `onReadyRead` after the transport's bytes were appended to the buffer -/
def orrBody (env : Env) (app : App) (s : Sock) : Sock :=
  let r := if s.rs = .headers then Sock.readHeaders env app s else (s, true)
  if !r.2 then r.1 else
  match r.1.rs with
  | .data => Sock.readDataSlot env app r.1
  | .finished => { r.1 with readBuffer := [] }
  | .headers => r.1

theorem onReadyRead_eq (env : Env) (app : App) (s : Sock) :
    Sock.onReadyRead env app s =
      if s.rs = .finished then
        (if s.tcp.devOpen then { s with tcp := { s.tcp with inbox := [] } } else s)
      else orrBody env app (pullS s) := rfl

theorem orrBody_data (env : Env) (app : App) (s : Sock) (h : s.rs = .data) :
    orrBody env app s = Sock.readDataSlot env app s := by
  unfold orrBody; simp [h]

theorem orrBody_headers_none (env : Env) (app : App) (s : Sock) (h : s.rs = .headers)
    (hb : breakOn CRLF2 s.readBuffer = none) : orrBody env app s = s := by
  unfold orrBody; simp [h, readHeaders_none env app s hb]

theorem orrBody_headers_acc (env : Env) (app : App) (s : Sock) (h : s.rs = .headers)
    (head rest : Bytes) (rh : Parser.ReqHead) (p : Bytes) (q : List (Bytes × Bytes)) (N : Nat)
    (hb : breakOn CRLF2 s.readBuffer = some (head, rest))
    (hp : Parser.parseRequestHeaders head s.reqHeaders = some rh)
    (hu : env.url rh.rawPath = some (p, q))
    (hc : HeaderMap.contains Sock.CONTENT_LENGTH_KEY rh.headers = true)
    (ht : toLongLong (HeaderMap.value Sock.CONTENT_LENGTH_KEY rh.headers) = (N : Int))
    (hrs : (Sock.emit env app (hpState s rh p q rest N) .hp (app.onHp (hpState s rh p q rest N))).rs = .data) :
    orrBody env app s =
      Sock.readDataSlot env app (Sock.emit env app (hpState s rh p q rest N) .hp (app.onHp (hpState s rh p q rest N))) := by
  unfold orrBody
  simp [h, readHeaders_acc env app s head rest rh p q N hb hp hu hc ht, hrs]

end Qhttp.C02
