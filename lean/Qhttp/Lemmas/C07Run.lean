import Qhttp.Lemmas.C08Parse
import Qhttp.Lemmas.FsWalk
/-
  C07 helper lemmas: what the composed run (socket + FilesystemHandler + copier) answers for each
  outcome of `process`, for a request without Range header.
-/
namespace Qhttp
namespace C07L
open Qhttp Qhttp.Sock FsHandler C08L

/-- nothing to decode in a string without '%' -/
theorem pctDecode_plain : ∀ (p : Bytes), (37 : UInt8) ∉ p → Fs.pctDecode p = p := by
  intro p
  induction p with
  | nil => intro _; simp [Fs.pctDecode]
  | cons x xs ih =>
    intro h
    have hx : x ≠ 37 := fun e => h (by simp [e])
    have hxs : (37 : UInt8) ∉ xs := fun e => h (by simp [e])
    rw [Fs.pctDecode.eq_def]
    split
    · rename_i heq
      simp only [List.cons.injEq] at heq
      exact absurd heq.1 hx
    · rename_i heq
      simp only [List.cons.injEq] at heq
      obtain ⟨rfl, rfl⟩ := heq
      rw [ih hxs]
    · rename_i heq; cases heq

theorem requestedRange_nil (size : Nat) : (requestedRange [] size).isValid = false := by
  have : requestedRange [] size = Range.invalid := rfl
  rw [this]; decide

/-- the response of the composed run, read back with the strict reader: status and body for each
    outcome of `process` (request without Range header) -/
theorem run_response (env : Env) (fe : FsEnv) (req head : Bytes) (rh : Parser.ReqHead)
    (p : Bytes) (q : List (Bytes × Bytes)) (tail : List Event)
    (hreq : breakOn CRLF2 req = some (head, []))
    (hparse : Parser.parseRequestHeaders head [] = some rh)
    (hurl : env.url rh.rawPath = some (p, q))
    (hcl : HeaderMap.contains Sock.CONTENT_LENGTH rh.headers = false)
    (hnr : HeaderMap.value RANGE rh.headers = [])
    (hfile : ∀ loc r, plan fe (p.drop 1) rh.headers = .file loc r →
      (fe.content loc).length ≤ 65536 ∧ CR ∉ fe.mime loc)
    (ht : tail.all C03L.allowedEv = true) :
    ∃ m, Http.parse (Obs.wire (FsHandler.run env fe (.new :: .feed req :: .turn :: tail)).sock.log) = some m ∧
      (match plan fe (p.drop 1) rh.headers with
       | .notFound => (Http.statusLine m.start).map (·.code) = some 404
       | .dir loc d => (Http.statusLine m.start).map (·.code) = some 200 ∧ m.body = fe.listing loc d
       | .file loc _ => (Http.statusLine m.start).map (·.code) = some 200 ∧ m.body = fe.content loc) := by
  have ht' : (Event.turn :: tail).all C03L.allowedEv = true := by rw [List.all_cons, ht]; rfl
  cases hplan : plan fe (p.drop 1) rh.headers with
  | notFound =>
    have hwire := run_wire_answered env fe req head rh p q 404 (statusReason 404) (nfHdrs env)
      (env.errPage 404 (statusReason 404)) (.turn :: tail) hreq hparse hurl hcl
      (hpResult_notFound env fe rh p q hplan) (hpOps_notFound (s := hpSock rh p q) hplan).2 ht'
    refine ⟨_, by rw [hwire]; exact parse_answered 404 _ _ _ (by omega) (by decide) (entryOk_nfHdrs env), ?_⟩
    exact statusLine_ansStart (by omega) _
  | dir loc d =>
    have hwire := run_wire_answered env fe req head rh p q 200 (lit ['O','K']) (dirHdrs (fe.listing loc d))
      (fe.listing loc d) (.turn :: tail) hreq hparse hurl hcl (hpResult_dir env fe rh p q loc d hplan)
      (hpOps_dir (s := hpSock rh p q) hplan).2 ht'
    refine ⟨_, by rw [hwire]; exact parse_answered 200 _ _ _ (by omega) (by decide) (entryOk_dirHdrs _), ?_, rfl⟩
    exact statusLine_ansStart (by omega) _
  | file loc r =>
    obtain ⟨hsz, hm⟩ := hfile loc r hplan
    have hr : r = requestedRange (HeaderMap.value RANGE rh.headers) (fe.content loc).length := by
      unfold plan at hplan
      simp only [] at hplan
      split at hplan
      · cases hplan
      · split at hplan
        · cases hplan
        · cases hplan; rfl
    have hv : r.isValid = false := by rw [hr, hnr]; exact requestedRange_nil _
    have hwire := run_wire env fe req head rh p q loc r tail hreq hparse hurl hcl hplan hsz
      (by intro h; rw [hv] at h; cases h) ht
    refine ⟨_, by rw [hwire]; exact parse_response r _ _ _ hm, ?_, ?_⟩
    · rw [statusLine_respStart, hv]; rfl
    · simp [bodyOf, hv]

end C07L
end Qhttp
