import Qhttp.Model.FsHandler
import Qhttp.Props.C16
import Qhttp.Props.C14
import Qhttp.Lemmas.C09Auth
/-
  C08 helper lemmas: the first element of `split(',')`, the Range object built from a text in
  one of the three forms, its accessors in natural numbers, `intText` of a natural number.
-/
namespace Qhttp
namespace C08L

/-- the first element of `QByteArray::split(c)`: everything before the first `c` -/
def firstElem (c : UInt8) (x : Bytes) : Bytes :=
  match breakOn [c] x with | some (a, _) => a | none => x

theorem splitChar_first (c : UInt8) (x : Bytes) : ∃ rest, splitChar c x = firstElem c x :: rest := by
  rw [splitChar_eq]
  unfold firstElem
  cases breakOn [c] x with
  | none => exact ⟨[], rfl⟩
  | some p => exact ⟨_, rfl⟩

/-- a text in one of the three forms builds exactly the raw bounds the specification reads -/
theorem ofString_of_specText {x : Bytes} {f t : Int} (s : Int) (h : C16.specText x = some (f, t)) :
    Range.ofString x s = ⟨f, t, s⟩ := by
  unfold C16.specText at h
  unfold Range.ofString
  simp only [] at h ⊢
  cases hb : breakOn [45] (trim x) with
  | none => rw [hb] at h; cases h
  | some p =>
    obtain ⟨a, c⟩ := p
    rw [hb] at h
    simp only [] at h ⊢
    by_cases hd : (!(a.all isDigit) || !(c.all isDigit)) = true
    · simp [hd] at h
    · by_cases he : (a.isEmpty && c.isEmpty) = true
      · simp [hd, he] at h
      · simp only [hd, he, Bool.or_false, Bool.false_eq_true, if_false] at h ⊢
        simp only [Range.digitsToInt]
        by_cases ha : a.isEmpty = true
        · have hc : c.isEmpty = false := by simpa [ha] using he
          simp only [ha, hc, if_true, Bool.false_eq_true, if_false] at h ⊢
          by_cases hv : digitsVal c 0 ≤ 2147483647 ∧ digitsVal c 0 ≠ 0
          · rw [if_pos hv] at h
            simp only [Option.some.injEq, Prod.mk.injEq] at h
            obtain ⟨rfl, rfl⟩ := h
            simp only [hv.1, if_true]
            rw [if_neg (by have := hv.2; omega)]
          · rw [if_neg hv] at h; cases h
        · simp only [ha, Bool.false_eq_true, if_false] at h ⊢
          by_cases hc : c.isEmpty = true
          · simp only [hc, if_true] at h ⊢
            by_cases hv : digitsVal a 0 ≤ 2147483647
            · rw [if_pos hv] at h
              simp only [Option.some.injEq, Prod.mk.injEq] at h
              obtain ⟨rfl, rfl⟩ := h
              simp [hv]
            · rw [if_neg hv] at h; cases h
          · simp only [hc, Bool.false_eq_true, if_false] at h ⊢
            by_cases hv : digitsVal a 0 ≤ 2147483647 ∧ digitsVal c 0 ≤ 2147483647
            · rw [if_pos hv] at h
              simp only [Option.some.injEq, Prod.mk.injEq] at h
              obtain ⟨rfl, rfl⟩ := h
              simp [hv.1, hv.2]
            · rw [if_neg hv] at h; cases h

theorem specText_wf {x : Bytes} {f t : Int} (h : C16.specText x = some (f, t)) : t ≥ -1 := by
  have := C16.wf_ofString x 0
  rw [ofString_of_specText 0 h] at this
  exact this

/-- the absolute bounds of a valid range with raw bounds in one of the three forms -/
theorem abs_of_valid (f t : Int) (size : Nat) (ht : t ≥ -1)
    (hv : C16.specValid f t size = true) :
    (⟨f, t, size⟩ : Range).absFrom = (if f < 0 then (size : Int) + f else f) ∧
    (⟨f, t, size⟩ : Range).absTo = (if f < 0 then (size : Int) - 1 else if t < 0 then (size : Int) - 1 else t) ∧
    (f < 0 → 1 ≤ size) ∧ (0 ≤ f → f < size) := by
  simp only [C16.specValid] at hv
  simp only [Range.absFrom, Range.absTo]
  refine ⟨?_, ?_, ?_, ?_⟩ <;> grind

theorem intText_nat (n : Nat) : intText (n : Int) = natDigits n := by
  unfold intText
  rw [if_neg (by omega)]
  simp

theorem intText_of_nonneg {i : Int} (h : 0 ≤ i) : intText i = natDigits i.toNat := by
  have : i = ((i.toNat : Nat) : Int) := by omega
  conv => lhs; rw [this]
  exact intText_nat _

end C08L
end Qhttp
