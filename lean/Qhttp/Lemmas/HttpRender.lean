import Qhttp.Lemmas.HttpBytes
/-
  The strict reader `Http.parse` inverts the serialiser of `Socket::writeHeaders`
  (`start CRLF (name ": " value CRLF)* CRLF body`), and `Http.statusLine` inverts the status line.
-/
namespace Qhttp.Http
open Qhttp Qhttp.HB

theorem containsByte_eq_false {c : UInt8} {xs : Bytes} : containsByte c xs = false ↔ c ∉ xs := by
  simp [containsByte, List.any_eq_false]
  constructor
  · intro h hm; exact h c hm rfl
  · intro h x hx e; exact h (e ▸ hx)

/-- what `parse_render` needs of a header entry: the name is non-empty and free of `:` and CR,
    the value is free of CR -/
def EntryOk (e : Bytes × Bytes) : Prop := e.1 ≠ [] ∧ COLON ∉ e.1 ∧ CR ∉ e.1 ∧ CR ∉ e.2

def line (e : Bytes × Bytes) : Bytes := e.1 ++ [COLON, SP] ++ e.2

/-- the header block with the line break in front of each line -/
def hl2 (m : List (Bytes × Bytes)) : Bytes := m.flatMap fun e => CRLF ++ line e

theorem CRLF_headerLines (m : List (Bytes × Bytes)) : CRLF ++ Sock.headerLines m = hl2 m ++ CRLF := by
  induction m with
  | nil => rfl
  | cons e m ih =>
    obtain ⟨k, v⟩ := e
    simp only [Sock.headerLines, hl2, List.flatMap_cons, line] at ih ⊢
    simp only [List.append_assoc] at ih ⊢
    rw [ih]

theorem line_CR {e : Bytes × Bytes} (h : EntryOk e) : CR ∉ line e := by
  obtain ⟨_, _, h3, h4⟩ := h
  simp only [line, List.mem_append, not_or]
  refine ⟨⟨h3, ?_⟩, h4⟩
  simp [COLON, SP, CR]

theorem line_cons {e : Bytes × Bytes} (h : EntryOk e) : ∃ c l, line e = c :: l ∧ c ≠ CR := by
  obtain ⟨k, v⟩ := e
  obtain ⟨h1, _, h3, _⟩ := h
  cases k with
  | nil => exact absurd rfl h1
  | cons c k => exact ⟨c, _, rfl, fun e => h3 (by simp [e])⟩

theorem breakOn_CRLF2_skip {l : Bytes} (rest : Bytes) (h : CR ∉ l) :
    breakOn CRLF2 (l ++ rest) = (breakOn CRLF2 rest).map (fun p => (l ++ p.1, p.2)) :=
  breakOn_append_of_not_mem (c := 13) (d := [10, 13, 10]) rest h

theorem splitAll_CRLF_found {l : Bytes} (rest : Bytes) (h : CR ∉ l) :
    splitAll CRLF (l ++ CRLF ++ rest) = l :: splitAll CRLF rest :=
  splitAll_found (c := 13) (d := [10]) rest h

theorem splitAll_CRLF_none {l : Bytes} (h : CR ∉ l) : splitAll CRLF l = [l] :=
  splitAll_of_not_mem (c := 13) (d := [10]) h

theorem breakOn_COLONSP_found {l : Bytes} (rest : Bytes) (h : COLON ∉ l) :
    breakOn [COLON, SP] (l ++ [COLON, SP] ++ rest) = some (l, rest) :=
  breakOn_found (c := COLON) (d := [SP]) rest h

theorem breakOn_SP_found {l : Bytes} (rest : Bytes) (h : SP ∉ l) :
    breakOn [SP] (l ++ [SP] ++ rest) = some (l, rest) :=
  breakOn_found (c := SP) (d := []) rest h

theorem breakOn_CRLF2_sep {x : UInt8} (rest : Bytes) (hx : x ≠ CR) :
    breakOn CRLF2 (CRLF ++ x :: rest) = (breakOn CRLF2 (x :: rest)).map (fun p => (CRLF ++ p.1, p.2)) := by
  have hx' : (13 : UInt8) ≠ x := fun e => hx (by simp [CR, ← e])
  show breakOn CRLF2 (13 :: 10 :: x :: rest) = _
  have h1 : CRLF2.isPrefixOf (13 :: 10 :: x :: rest) = false := by simp [CRLF2, List.isPrefixOf, hx']
  have h2 : CRLF2.isPrefixOf (10 :: x :: rest) = false := by simp [CRLF2, List.isPrefixOf]
  rw [breakOn, h1]; simp only [Bool.false_eq_true, if_false]
  rw [breakOn, h2]; simp only [Bool.false_eq_true, if_false]
  cases breakOn CRLF2 (x :: rest) <;> simp [CRLF]

theorem breakOn_CRLF2_hl2 (m : List (Bytes × Bytes)) (body : Bytes) (hm : ∀ e ∈ m, EntryOk e) :
    breakOn CRLF2 (hl2 m ++ (CRLF2 ++ body)) = some (hl2 m, body) := by
  induction m with
  | nil => simpa [hl2] using breakOn_self_append CRLF2 body
  | cons e m ih =>
    have he := hm e (by simp)
    have ih := ih (fun e h => hm e (by simp [h]))
    obtain ⟨c, l, hl, hc⟩ := line_cons he
    have hcr := line_CR he
    have : hl2 (e :: m) ++ (CRLF2 ++ body) = CRLF ++ c :: (l ++ (hl2 m ++ (CRLF2 ++ body))) := by
      simp only [hl2, List.flatMap_cons, List.append_assoc, hl, List.cons_append]
    rw [this, breakOn_CRLF2_sep _ hc, ← List.cons_append, ← hl]
    rw [breakOn_CRLF2_skip _ hcr, ih]; simp [hl2]

theorem splitAll_CRLF_hl2 (m : List (Bytes × Bytes)) (hm : ∀ e ∈ m, EntryOk e) :
    ∀ (start : Bytes), CR ∉ start → splitAll CRLF (start ++ hl2 m) = start :: m.map line := by
  induction m with
  | nil => intro start hs; simpa [hl2] using splitAll_CRLF_none hs
  | cons e m ih =>
    intro start hs
    have he := hm e (by simp)
    have : start ++ hl2 (e :: m) = start ++ CRLF ++ (line e ++ hl2 m) := by
      simp [hl2, List.append_assoc]
    rw [this, splitAll_CRLF_found _ hs]
    rw [ih (fun e h => hm e (by simp [h])) _ (line_CR he)]; simp

theorem headerLine_line {e : Bytes × Bytes} (h : EntryOk e) : headerLine (line e) = some e := by
  obtain ⟨k, v⟩ := e
  obtain ⟨h1, h2, _, _⟩ := h
  simp only [headerLine, line]
  rw [breakOn_COLONSP_found _ h2]
  have : containsByte COLON k = false := containsByte_eq_false.mpr h2
  cases k with
  | nil => exact absurd rfl h1
  | cons c k => simp [this]

theorem headerLines_map_line (m : List (Bytes × Bytes)) (hm : ∀ e ∈ m, EntryOk e) :
    headerLines (m.map line) = some m := by
  induction m with
  | nil => rfl
  | cons e m ih =>
    simp only [List.map_cons, headerLines, headerLine_line (hm e (by simp)),
      ih (fun e h => hm e (by simp [h]))]

/-- **the strict reader inverts the serialiser**: a CR-free start line, header entries whose
    names are non-empty and free of `:` and CR and whose values are free of CR, any body. -/
theorem parse_render (start : Bytes) (m : List (Bytes × Bytes)) (body : Bytes)
    (hs : CR ∉ start) (hm : ∀ e ∈ m, EntryOk e) :
    parse (start ++ CRLF ++ Sock.headerLines m ++ CRLF ++ body) =
      some { start := start, headers := m, body := body } := by
  have hw : start ++ CRLF ++ Sock.headerLines m ++ CRLF ++ body = start ++ (hl2 m ++ (CRLF2 ++ body)) := by
    rw [List.append_assoc start, CRLF_headerLines]; simp [List.append_assoc, CRLF, CRLF2]
  rw [hw, parse]
  rw [breakOn_CRLF2_skip _ hs, breakOn_CRLF2_hl2 m body hm]
  simp only [Option.map_some]
  show (match splitAll CRLF (start ++ hl2 m) with | [] => _ | start :: ls => _) = _
  rw [splitAll_CRLF_hl2 m hm start hs]
  simp only [headerLines_map_line m hm]

/-! ### the status line -/

def HTTP10 : Bytes := lit ['H','T','T','P','/','1','.','0',' ']

theorem statusLine_render (n : Nat) (reason : Bytes) :
    statusLine (HTTP10 ++ natDigits n ++ [SP] ++ reason) = some { code := n, reason := reason } := by
  have h : HTTP10 = [72, 84, 84, 80, 47, 49, 46, 48, 32] := by decide
  have hsp : SP ∉ natDigits n := natDigits_not_mem n (Or.inl (by decide))
  rw [h]
  show statusLine (72 :: 84 :: 84 :: 80 :: 47 :: 49 :: 46 :: 48 :: 32 :: (natDigits n ++ [SP] ++ reason)) = _
  simp only [statusLine]
  rw [breakOn_SP_found _ hsp]
  have h1 : natDigits n ≠ [] := natDigits_ne_nil n
  have h2 := List.all_eq_true.mp (natDigits_all_isDigit n)
  simp [h1, digitsVal_natDigits]; exact h2

/-- the status line of a response with a non-negative code reads back as that code and reason -/
theorem statusLine_intText {code : Int} (hc : 0 ≤ code) (reason : Bytes) :
    statusLine (HTTP10 ++ intText code ++ [SP] ++ reason) = some { code := code.natAbs, reason := reason } := by
  rw [intText_of_nonneg hc, statusLine_render]

end Qhttp.Http
