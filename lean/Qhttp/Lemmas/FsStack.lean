import Qhttp.Lemmas.FsSegs
/-
  C07 helper lemmas, part 2: the lexical walk `lexR`, its relation to `Fs.walk` and to the
  segment stack `normStack`; normal forms of segment lists.
-/
namespace Qhttp
namespace Fs

/-- purely lexical resolution on a reversed location: `""` and `.` are skipped, `..` pops (the
    empty stack stays empty), names are pushed -/
def lexR : List Bytes → List Bytes → List Bytes
  | cur, [] => cur
  | cur, s :: rest =>
    if s.isEmpty || s == DOT then lexR cur rest
    else if s == DOTDOT then lexR (cur.drop 1) rest
    else lexR (s :: cur) rest

/-- lexical normalisation of the segments `ss` starting at the location `loc` -/
def lexical (loc : List Bytes) (ss : List Bytes) : List Bytes := (lexR loc.reverse ss).reverse

theorem lexR_nil (cur : List Bytes) : lexR cur [] = cur := rfl

theorem lexR_cons (cur : List Bytes) (s : Bytes) (rest : List Bytes) :
    lexR cur (s :: rest) =
      if s.isEmpty || s == DOT then lexR cur rest
      else if s == DOTDOT then lexR (cur.drop 1) rest
      else lexR (s :: cur) rest := by
  rw [lexR.eq_def]

theorem skip_cond {s : Bytes} (h : s = [] ∨ s = DOT) : (s.isEmpty || s == DOT) = true := by
  rcases h with rfl | rfl
  · rfl
  · simp

theorem name_cond {s : Bytes} (h : isName s = true) :
    (s.isEmpty || s == DOT) = false ∧ (s == DOTDOT) = false := by
  obtain ⟨h1, h2, h3⟩ := isName_iff.1 h
  constructor
  · cases s with
    | nil => exact absurd rfl h1
    | cons c s => simpa using h2
  · simpa using h3

theorem dd_cond : (DOTDOT.isEmpty || DOTDOT == DOT) = false ∧ (DOTDOT == DOTDOT) = true := by decide

theorem lexR_skip {s : Bytes} (h : s = [] ∨ s = DOT) (cur rest : List Bytes) :
    lexR cur (s :: rest) = lexR cur rest := by
  rw [lexR_cons, if_pos (skip_cond h)]

theorem lexR_name {s : Bytes} (h : isName s = true) (cur rest : List Bytes) :
    lexR cur (s :: rest) = lexR (s :: cur) rest := by
  rw [lexR_cons, (name_cond h).1, (name_cond h).2]; simp

theorem lexR_dd (cur rest : List Bytes) :
    lexR cur (DOTDOT :: rest) = lexR (cur.drop 1) rest := by
  rw [lexR_cons, dd_cond.1, dd_cond.2]; simp

theorem lexR_append (cur a c : List Bytes) : lexR cur (a ++ c) = lexR (lexR cur a) c := by
  induction a generalizing cur with
  | nil => rfl
  | cons s a ih =>
    rw [List.cons_append]
    rcases seg_cases s with h | rfl | h
    · rw [lexR_skip h, lexR_skip h, ih]
    · rw [lexR_dd, lexR_dd, ih]
    · rw [lexR_name h, lexR_name h, ih]

/-! ### `walk` computes the lexical normalisation whenever it succeeds -/

theorem walk_cons (t : Tree) (cur : List Bytes) (s : Bytes) (rest : List Bytes) :
    walk t cur (s :: rest) =
      if s.isEmpty || s == DOT then walk t cur rest
      else if s == DOTDOT then walk t (cur.drop 1) rest
      else
        match kindAt t (s :: cur).reverse with
        | some .dir => walk t (s :: cur) rest
        | some .file => if rest.isEmpty then some (s :: cur).reverse else none
        | none => none := by
  rw [walk.eq_def]; rfl

theorem walk_skip (t : Tree) {s : Bytes} (h : s = [] ∨ s = DOT) (cur rest : List Bytes) :
    walk t cur (s :: rest) = walk t cur rest := by
  rw [walk_cons, if_pos (skip_cond h)]

theorem walk_dd (t : Tree) (cur rest : List Bytes) :
    walk t cur (DOTDOT :: rest) = walk t (cur.drop 1) rest := by
  rw [walk_cons, dd_cond.1, dd_cond.2]; simp

theorem walk_name (t : Tree) {s : Bytes} (h : isName s = true) (cur rest : List Bytes) :
    walk t cur (s :: rest) =
      match kindAt t (s :: cur).reverse with
      | some .dir => walk t (s :: cur) rest
      | some .file => if rest.isEmpty then some (s :: cur).reverse else none
      | none => none := by
  rw [walk_cons, (name_cond h).1, (name_cond h).2]; simp

/-- key lemma (a): a successful kernel walk ends where the lexical walk ends -/
theorem walk_lexR (t : Tree) (cur ss loc : List Bytes) (h : walk t cur ss = some loc) :
    loc = (lexR cur ss).reverse := by
  induction ss generalizing cur with
  | nil =>
    simp only [walk, Option.some.injEq] at h
    rw [lexR_nil, h]
  | cons s ss ih =>
    rcases seg_cases s with hs | rfl | hs
    · rw [walk_skip t hs] at h; rw [lexR_skip hs]; exact ih _ h
    · rw [walk_dd] at h; rw [lexR_dd]; exact ih _ h
    · rw [walk_name t hs] at h; rw [lexR_name hs]
      split at h
      · exact ih _ h
      · split at h
        · rename_i he
          have : ss = [] := by simpa using he
          subst this
          simp only [Option.some.injEq] at h
          rw [lexR_nil, h]
        · cases h
      · cases h

theorem walk_lexical (t : Tree) (cur ss loc : List Bytes) (h : walk t cur ss = some loc) :
    loc = lexical cur.reverse ss := by
  rw [lexical, List.reverse_reverse]; exact walk_lexR t cur ss loc h

/-! ### segment lists without `..` -/

theorem lexR_no_dd (cur ss : List Bytes) (h : ∀ s ∈ ss, s ≠ DOTDOT) :
    lexR cur ss = (ss.filter isName).reverse ++ cur := by
  induction ss generalizing cur with
  | nil => simp [lexR_nil]
  | cons s ss ih =>
    have h' : ∀ x ∈ ss, x ≠ DOTDOT := fun x hx => h x (by simp [hx])
    rcases seg_cases s with hs | rfl | hs
    · rw [lexR_skip hs, ih _ h']
      have : isName s = false := by
        rcases hs with rfl | rfl <;> decide
      simp [this]
    · exact absurd rfl (h DOTDOT (by simp))
    · rw [lexR_name hs, ih _ h']
      simp [hs]

theorem normStack_no_dd (acc ss : List Bytes) (h : ∀ s ∈ ss, s ≠ DOTDOT) :
    normStack acc ss = acc.reverse ++ ss.filter isName := by
  induction ss generalizing acc with
  | nil => simp [normStack_nil]
  | cons s ss ih =>
    have h' : ∀ x ∈ ss, x ≠ DOTDOT := fun x hx => h x (by simp [hx])
    rcases seg_cases s with hs | rfl | hs
    · rw [normStack_skip hs, ih _ h']
      have : isName s = false := by
        rcases hs with rfl | rfl <;> decide
      simp [this]
    · exact absurd rfl (h DOTDOT (by simp))
    · rw [normStack_name hs, ih _ h']
      simp [hs]

theorem filter_isName_of_all {ss : List Bytes} (h : ∀ s ∈ ss, isName s = true) :
    ss.filter isName = ss := List.filter_eq_self.2 h

/-! ### `normStack` against the lexical walk -/

/-- a `..` at the bottom of the stack stays there -/
theorem normStack_head_dd (acc ss : List Bytes) (h : acc.getLast? = some DOTDOT) :
    (normStack acc ss).head? = some DOTDOT := by
  induction ss generalizing acc with
  | nil => rw [normStack_nil, List.head?_reverse]; exact h
  | cons s ss ih =>
    rcases seg_cases s with hs | rfl | hs
    · rw [normStack_skip hs]; exact ih _ h
    · cases acc with
      | nil => simp at h
      | cons top below =>
        by_cases ht : top = DOTDOT
        · subst ht
          rw [normStack_dd_dd]
          apply ih
          rw [List.getLast?_cons_cons]; exact h
        · rw [normStack_dd_pop ht]
          apply ih
          cases below with
          | nil => simp at h; exact absurd h ht
          | cons b bs => rw [List.getLast?_cons_cons] at h; exact h
    · rw [normStack_name hs]
      apply ih
      cases acc with
      | nil => simp at h
      | cons a as => rw [List.getLast?_cons_cons]; exact h

/-- key lemma (b): when the cleaned segment list does not begin with `..`, every `..` of the
    input cancelled a preceding name, and the lexical walk from any location `cur` pushes exactly
    the cleaned segments on top of it -/
theorem lexR_of_normStack (acc cur ss : List Bytes) (hacc : ∀ x ∈ acc, x ≠ DOTDOT)
    (h : (normStack acc ss).head? ≠ some DOTDOT) :
    lexR (acc ++ cur) ss = (normStack acc ss).reverse ++ cur := by
  induction ss generalizing acc with
  | nil => simp [lexR_nil, normStack_nil]
  | cons s ss ih =>
    rcases seg_cases s with hs | rfl | hs
    · rw [normStack_skip hs] at h ⊢
      rw [lexR_skip hs]; exact ih _ hacc h
    · cases acc with
      | nil =>
        rw [normStack_dd_nil] at h
        exact absurd (normStack_head_dd [DOTDOT] ss rfl) h
      | cons top below =>
        have ht : top ≠ DOTDOT := hacc top (by simp)
        rw [normStack_dd_pop ht] at h ⊢
        rw [lexR_dd]
        exact ih below (fun x hx => hacc x (by simp [hx])) h
    · rw [normStack_name hs] at h ⊢
      rw [lexR_name hs]
      have := ih (s :: acc) (by
        intro x hx
        simp only [List.mem_cons] at hx
        rcases hx with rfl | hx
        · exact (isName_iff.1 hs).2.2
        · exact hacc x hx) h
      simpa using this

/-! ### normal forms -/

/-- a leading run of `..` followed by names only -/
def NF (l : List Bytes) : Prop :=
  ∃ k names, l = List.replicate k DOTDOT ++ names ∧ ∀ s ∈ names, isName s = true

/-- executable version of `NF` -/
def isNF (l : List Bytes) : Bool := (l.dropWhile (· == DOTDOT)).all isName

theorem isNF_of_NF {l : List Bytes} (h : NF l) : isNF l = true := by
  obtain ⟨k, names, rfl, hn⟩ := h
  unfold isNF
  induction k with
  | zero =>
    simp only [List.replicate_zero, List.nil_append]
    cases names with
    | nil => rfl
    | cons n ns =>
      have h1 : (n == DOTDOT) = false := (name_cond (hn n (by simp))).2
      rw [List.dropWhile_cons_of_neg (by simp [h1])]
      exact List.all_eq_true.2 hn
  | succ k ih =>
    rw [List.replicate_succ, List.cons_append, List.dropWhile_cons_of_pos (by simp)]
    exact ih

theorem NF_of_isNF {l : List Bytes} (h : isNF l = true) : NF l := by
  unfold isNF at h
  induction l with
  | nil => exact ⟨0, [], rfl, by simp⟩
  | cons x l ih =>
    by_cases hx : x = DOTDOT
    · subst hx
      rw [List.dropWhile_cons_of_pos (by simp)] at h
      obtain ⟨k, names, rfl, hn⟩ := ih h
      exact ⟨k + 1, names, by simp [List.replicate_succ], hn⟩
    · rw [List.dropWhile_cons_of_neg (by simpa using hx)] at h
      exact ⟨0, x :: l, by simp, List.all_eq_true.1 h⟩

theorem NF_iff {l : List Bytes} : NF l ↔ isNF l = true := ⟨isNF_of_NF, NF_of_isNF⟩

theorem NF_mem {l : List Bytes} (h : NF l) : ∀ s ∈ l, s = DOTDOT ∨ isName s = true := by
  obtain ⟨k, names, rfl, hn⟩ := h
  intro s hs
  rcases List.mem_append.1 hs with hs | hs
  · exact .inl (List.eq_of_mem_replicate hs)
  · exact .inr (hn s hs)

theorem NF_ne_nil_of_mem {l : List Bytes} (h : NF l) : ∀ s ∈ l, s ≠ [] ∧ s ≠ DOT := by
  intro s hs
  rcases NF_mem h s hs with rfl | hn
  · exact ⟨DOTDOT_ne_nil, DOTDOT_ne_DOT⟩
  · exact ⟨(isName_iff.1 hn).1, (isName_iff.1 hn).2.1⟩

/-- the stack invariant of `normStack`: names on top of a run of `..` -/
def StackOK (acc : List Bytes) : Prop :=
  ∃ k names, acc = names ++ List.replicate k DOTDOT ∧ ∀ s ∈ names, isName s = true

theorem normStack_NF (acc ss : List Bytes) (h : StackOK acc) : NF (normStack acc ss) := by
  induction ss generalizing acc with
  | nil =>
    obtain ⟨k, names, rfl, hn⟩ := h
    rw [normStack_nil]
    exact ⟨k, names.reverse, by simp, fun s hs => hn s (List.mem_reverse.1 hs)⟩
  | cons s ss ih =>
    rcases seg_cases s with hs | rfl | hs
    · rw [normStack_skip hs]; exact ih _ h
    · obtain ⟨k, names, rfl, hn⟩ := h
      cases names with
      | nil =>
        cases k with
        | zero =>
          rw [List.replicate_zero, List.append_nil, normStack_dd_nil]
          exact ih _ ⟨1, [], rfl, by simp⟩
        | succ k =>
          rw [List.nil_append, List.replicate_succ, normStack_dd_dd]
          exact ih _ ⟨k + 2, [], by simp [List.replicate_succ], by simp⟩
      | cons n ns =>
        rw [List.cons_append, normStack_dd_pop (isName_iff.1 (hn n (by simp))).2.2]
        exact ih _ ⟨k, ns, rfl, fun s hs => hn s (by simp [hs])⟩
    · rw [normStack_name hs]
      obtain ⟨k, names, rfl, hn⟩ := h
      apply ih
      refine ⟨k, s :: names, rfl, ?_⟩
      intro x hx
      simp only [List.mem_cons] at hx
      rcases hx with rfl | hx
      · exact hs
      · exact hn x hx

theorem normStack_nil_NF (ss : List Bytes) : NF (normStack [] ss) :=
  normStack_NF [] ss ⟨0, [], rfl, by simp⟩

theorem normStack_names (acc names : List Bytes) (hn : ∀ s ∈ names, isName s = true) :
    normStack acc names = acc.reverse ++ names := by
  rw [normStack_no_dd acc names (fun s hs => (isName_iff.1 (hn s hs)).2.2), filter_isName_of_all hn]

theorem normStack_replicate (k j : Nat) (names : List Bytes) (hn : ∀ s ∈ names, isName s = true) :
    normStack (List.replicate k DOTDOT) (List.replicate j DOTDOT ++ names) =
      List.replicate (k + j) DOTDOT ++ names := by
  induction j generalizing k with
  | zero => simp [normStack_names _ _ hn]
  | succ j ih =>
    rw [List.replicate_succ, List.cons_append]
    cases k with
    | zero =>
      rw [List.replicate_zero, normStack_dd_nil]
      have := ih 1
      simp only [List.replicate_succ, List.replicate_zero] at this
      rw [this]
      simp [List.replicate_succ, Nat.add_comm]
    | succ k =>
      rw [List.replicate_succ, normStack_dd_dd]
      have := ih (k + 2)
      simp only [List.replicate_succ] at this
      rw [this]
      have : k + 2 + j = k + 1 + (j + 1) := by omega
      rw [this]

/-- a normal form is a fixed point of the stack normalisation -/
theorem normStack_of_NF {l : List Bytes} (h : NF l) : normStack [] l = l := by
  obtain ⟨k, names, rfl, hn⟩ := h
  have := normStack_replicate 0 k names hn
  simpa using this

theorem normStack_mem (acc ss : List Bytes) : ∀ s ∈ normStack acc ss, s ∈ acc ∨ s ∈ ss := by
  induction ss generalizing acc with
  | nil => intro s hs; rw [normStack_nil] at hs; exact .inl (List.mem_reverse.1 hs)
  | cons x ss ih =>
    intro s hs
    rcases seg_cases x with hx | rfl | hx
    · rw [normStack_skip hx] at hs
      rcases ih _ s hs with h | h
      · exact .inl h
      · exact .inr (by simp [h])
    · cases acc with
      | nil =>
        rw [normStack_dd_nil] at hs
        rcases ih _ s hs with h | h
        · simp at h; exact .inr (by simp [h])
        · exact .inr (by simp [h])
      | cons top below =>
        by_cases ht : top = DOTDOT
        · subst ht
          rw [normStack_dd_dd] at hs
          rcases ih _ s hs with h | h
          · simp at h; exact .inl (by simp [h])
          · exact .inr (by simp [h])
        · rw [normStack_dd_pop ht] at hs
          rcases ih _ s hs with h | h
          · exact .inl (by simp [h])
          · exact .inr (by simp [h])
    · rw [normStack_name hx] at hs
      rcases ih _ s hs with h | h
      · simp only [List.mem_cons] at h
        rcases h with rfl | h
        · exact .inr (by simp)
        · exact .inl h
      · exact .inr (by simp [h])

end Fs
end Qhttp
