import Qhttp.Lemmas.C13First
/-
  C13, item 8: one event of the history on a proxy whose client socket is still open — the
  invariant (`OSt`, `OMode`) and what an event-loop turn makes of it (`TurnRes`).
-/
namespace Qhttp.C13L
open Qhttp Qhttp.Sock Qhttp.Proxy
open Qhttp.C03L (quietObs)

/-- connected upstream, client socket open, the queued initial read done -/
structure OSt (st : St) : Prop where
  conn : st.conn = .connected
  op : WOpen st.sock
  initP : st.sock.initPending = false

/-- `D` = the upstream bytes delivered to the proxy so far -/
inductive OMode (st : St) (D : Bytes) : Prop
  /-- no complete head yet: nothing written -/
  | acc (wire : Obs.wire st.sock.log = []) (hp : st.headersParsed = false) (respH : st.sock.respHeaders = [])
      (upRead : st.upRead = D) (nb : breakOn CRLF2 D = none)
  /-- head relayed, body passing through -/
  | relayed (head body : Bytes) (code : Int) (reason : Bytes) (hs : HeaderMap)
      (hp : st.headersParsed = true) (ws : st.sock.ws ≠ .none)
      (hb : breakOn CRLF2 D = some (head, body))
      (hq : Parser.parseResponseHeaders head = some (code, reason, hs))
      (wire : Obs.wire st.sock.log = headOut code reason hs ++ body)

theorem OSt.quiet {st st' : St} (o : OSt st) (w : WStep st.sock st'.sock []) (hc : st'.conn = st.conn) : OSt st' :=
  ⟨hc.trans o.conn, w.op, w.initP.trans o.initP⟩

theorem OMode.quiet {st st' : St} {D : Bytes} (m : OMode st D) (w : WStep st.sock st'.sock [])
    (hp : st'.headersParsed = st.headersParsed) (hu : st'.upRead = st.upRead) : OMode st' D := by
  cases m with
  | acc wire hp' respH upRead nb =>
    exact OMode.acc (by rw [w.wire, wire]; rfl) (hp.trans hp') (w.respH.trans respH) (hu.trans upRead) nb
  | relayed head body code reason hs hp' ws hb hq wire =>
    exact OMode.relayed head body code reason hs (hp.trans hp') (w.ws ws) hb hq (by rw [w.wire, wire]; simp)

/-! ### stages 1 to 3 of a turn -/

theorem tStage1_sock (env : Env) (st : St) :
    (tStage1 env st).sock =
      if st.sock.initPending
      then Sock.onReadyRead env app { st.sock with log := st.sock.log ++ [Obs.ev (evCount st.sock.log)],
                                                   initPending := false }
      else { st.sock with log := st.sock.log ++ [Obs.ev (evCount st.sock.log)] } := by
  unfold tStage1
  dsimp only
  rw [relayReads_sock, afterRoute_sock]

theorem tStage1_fields (env : Env) (st : St) :
    ((tStage1 env st).headersParsed, (tStage1 env st).upRead, (tStage1 env st).fromUp,
      (tStage1 env st).upClosing) = (st.headersParsed, st.upRead, st.fromUp, st.upClosing) := by
  unfold tStage1
  dsimp only
  have hf := relayReads_fields (afterRoute (Obs.countP Obs.isHp st.sock.log)
    { st with sock := if st.sock.initPending = true
        then Sock.onReadyRead env app { st.sock with log := st.sock.log ++ [Obs.ev (evCount st.sock.log)],
                                                     initPending := false }
        else { st.sock with log := st.sock.log ++ [Obs.ev (evCount st.sock.log)] } })
  have hg := afterRoute_fields (Obs.countP Obs.isHp st.sock.log)
    { st with sock := if st.sock.initPending = true
        then Sock.onReadyRead env app { st.sock with log := st.sock.log ++ [Obs.ev (evCount st.sock.log)],
                                                     initPending := false }
        else { st.sock with log := st.sock.log ++ [Obs.ev (evCount st.sock.log)] } }
  simp only [Prod.mk.injEq] at hf hg ⊢
  exact ⟨hf.2.1.trans hg.1, hf.2.2.1.trans hg.2.1, hf.2.2.2.1.trans hg.2.2.1, hf.2.2.2.2.trans hg.2.2.2⟩

theorem tStage1_conn (env : Env) (st : St) (h : st.conn ≠ .none) : (tStage1 env st).conn = st.conn := by
  unfold tStage1
  dsimp only
  have hf := relayReads_fields (afterRoute (Obs.countP Obs.isHp st.sock.log)
    { st with sock := if st.sock.initPending = true
        then Sock.onReadyRead env app { st.sock with log := st.sock.log ++ [Obs.ev (evCount st.sock.log)],
                                                     initPending := false }
        else { st.sock with log := st.sock.log ++ [Obs.ev (evCount st.sock.log)] } })
  simp only [Prod.mk.injEq] at hf
  rw [hf.1]
  exact afterRoute_conn_of_ne _ _ h

/-- the marker and the queued initial read: the write side is left alone, `initPending` is cleared -/
theorem tStage1_wstep (env : Env) {st : St} (ho : WOpen st.sock)
    (hr : st.sock.initPending = true → st.sock.rs ≠ .headers) :
    WStep { st.sock with initPending := false } (tStage1 env st).sock [] := by
  rw [tStage1_sock]
  have ho' : WOpen { st.sock with initPending := false } := ho.of_eq rfl ho.logOpen
  by_cases hi : st.sock.initPending = true
  · rw [if_pos hi]
    obtain ⟨inb, fr⟩ := onReadyRead_frame env
      (s := { st.sock with log := st.sock.log ++ [Obs.ev (evCount st.sock.log)], initPending := false })
      ho.alive ho.dcF (hr hi)
    have w0 : WStep { st.sock with initPending := false }
        { st.sock with log := st.sock.log ++ [Obs.ev (evCount st.sock.log)], initPending := false,
                       tcp := { st.sock.tcp with inbox := inb } } [] :=
      WStep.of_quiet ho' [Obs.ev (evCount st.sock.log)] (by simp [quiet_ev]) rfl rfl rfl id rfl
    have w1 := fr.wstep w0.op
    simpa using w0.trans w1
  · rw [if_neg hi]
    have hi' : st.sock.initPending = false := by simpa using hi
    exact WStep.of_quiet ho' [Obs.ev (evCount st.sock.log)] (by simp [quiet_ev]) rfl rfl hi' id rfl

theorem wstep_clearInit {s : Sock} (ho : WOpen s) (hi : s.initPending = false) :
    WStep s { s with initPending := false } [] :=
  WStep.of_quiet ho [] (by simp) (by simp) rfl hi.symm id rfl

theorem tStage3_wstep {st : St} (ho : WOpen st.sock) : WStep st.sock (tStage3 st).sock [] := by
  unfold tStage3
  split
  · exact wstep_note ho (quiet_misc 20 st.toUp)
  · exact WStep.refl ho

theorem tStage3_fields (st : St) :
    ((tStage3 st).conn, (tStage3 st).headersParsed, (tStage3 st).upRead, (tStage3 st).fromUp,
      (tStage3 st).upClosing) = (st.conn, st.headersParsed, st.upRead, st.fromUp, st.upClosing) := by
  unfold tStage3; split <;> rfl

theorem tStage2_connected (env : Env) (c : Cfg) {st : St} (h : st.conn = .connected) : tStage2 env c st = st := by
  unfold tStage2; simp [h]

/-- stages 1–3 on an open, connected proxy -/
theorem turn_pre (env : Env) (c : Cfg) {st : St} {D : Bytes} (o : OSt st) (m : OMode st D) :
    OSt (tStage3 (tStage2 env c (tStage1 env st))) ∧ OMode (tStage3 (tStage2 env c (tStage1 env st))) D ∧
    (tStage3 (tStage2 env c (tStage1 env st))).fromUp = st.fromUp ∧
    (tStage3 (tStage2 env c (tStage1 env st))).upClosing = st.upClosing := by
  have hcn : st.conn ≠ .none := by rw [o.conn]; simp
  have c1 : (tStage1 env st).conn = .connected := (tStage1_conn env st hcn).trans o.conn
  have f1 := tStage1_fields env st
  simp only [Prod.mk.injEq] at f1
  have w1 : WStep st.sock (tStage1 env st).sock [] := by
    simpa using (wstep_clearInit o.op o.initP).trans
      (tStage1_wstep env o.op (fun h => by rw [o.initP] at h; cases h))
  rw [tStage2_connected env c c1]
  have w3 := tStage3_wstep w1.op
  have f3 := tStage3_fields (tStage1 env st)
  simp only [Prod.mk.injEq] at f3
  have w : WStep st.sock (tStage3 (tStage1 env st)).sock [] := by simpa using w1.trans w3
  exact ⟨o.quiet w (f3.1.trans (tStage1_conn env st hcn)), m.quiet w (f3.2.1.trans f1.1) (f3.2.2.1.trans f1.2.1),
    f3.2.2.2.1.trans f1.2.2.1, f3.2.2.2.2.trans f1.2.2.2⟩

/-! ### stage 4: everything the upstream wrote is delivered -/

theorem tStage4_connected (env : Env) {st : St} (h : st.conn = .connected) :
    tStage4 env st = deliverAll env st.fromUp { st with fromUp := [] } := by
  unfold tStage4; simp [h]

/-- delivery on an open proxy: either still open with `D` extended, or a rejected head (502) -/
theorem deliver_open (env : Env) {st : St} {D : Bytes} (o : OSt st) (m : OMode st D) :
    (OSt (tStage4 env st) ∧ OMode (tStage4 env st) (D ++ st.fromUp.flatten) ∧ (tStage4 env st).fromUp = [] ∧
      (tStage4 env st).upClosing = st.upClosing) ∨
    (∃ head body, breakOn CRLF2 (D ++ st.fromUp.flatten) = some (head, body) ∧
      Parser.parseResponseHeaders head = none ∧ Frozen (err502 env []) (tStage4 env st).sock) := by
  rw [tStage4_connected env o.conn]
  cases m with
  | acc wire hp respH upRead nb =>
    have := deliver_outcome env st.fromUp { st with fromUp := [] } o.op hp (by show breakOn CRLF2 st.upRead = none; rw [upRead]; exact nb)
    have hD : ({ st with fromUp := [] } : St).upRead ++ st.fromUp.flatten = D ++ st.fromUp.flatten := by
      show st.upRead ++ _ = _; rw [upRead]
    rw [hD] at this
    cases this with
    | waiting h e =>
      left
      rw [e]
      exact ⟨⟨o.conn, o.op, o.initP⟩, OMode.acc wire hp respH rfl h, rfl, rfl⟩
    | relayed head body code reason hs hb hq op wire' parsed ws respH' initP rest =>
      left
      simp only [Prod.mk.injEq] at rest
      refine ⟨⟨rest.1.trans o.conn, op, initP.trans o.initP⟩, ?_, rest.2.1, rest.2.2⟩
      refine OMode.relayed head body code reason hs parsed ws hb hq ?_
      rw [wire']; show Obs.wire st.sock.log ++ _ = _; rw [wire]; rfl
    | failed head body hb hq fr parsed rest =>
      right
      refine ⟨head, body, hb, hq, ?_⟩
      have e : Obs.wire ({ st with fromUp := [] } : St).sock.log ++
          err502 env ({ st with fromUp := [] } : St).sock.respHeaders = err502 env [] := by
        show Obs.wire st.sock.log ++ err502 env st.sock.respHeaders = _
        rw [wire, respH]; rfl
      rw [e] at fr
      exact fr
  | relayed head body code reason hs hp ws hb hq wire =>
    left
    obtain ⟨s', e, w⟩ := passthrough env st.fromUp (st := { st with fromUp := [] }) o.op hp ws
    rw [e]
    refine ⟨⟨o.conn, w.op, w.initP.trans o.initP⟩, ?_, rfl, rfl⟩
    refine OMode.relayed head (body ++ st.fromUp.flatten) code reason hs hp (w.ws ws)
      (breakOn_append _ hb) hq ?_
    show Obs.wire s'.log = _
    rw [w.wire]; show Obs.wire st.sock.log ++ _ = _; rw [wire]; simp [List.append_assoc]

/-! ### stages 5 and 6: the upstream's close, deferred deletion -/

/-- what a turn makes of an open proxy; `D'` = everything delivered including this turn -/
inductive TurnRes (env : Env) (st' : St) (D' : Bytes) (closing : Bool) : Prop
  | cont (hc : closing = false) (o : OSt st') (m : OMode st' D') (fu : st'.fromUp = [])
      (uc : st'.upClosing = false)
  | failed (head body : Bytes) (hb : breakOn CRLF2 D' = some (head, body))
      (hq : Parser.parseResponseHeaders head = none) (fr : Frozen (err502 env []) st'.sock)
  | closedNone (hc : closing = true) (nb : breakOn CRLF2 D' = none) (fr : Frozen (err502 env []) st'.sock)
  | closedRelayed (hc : closing = true) (head body : Bytes) (code : Int) (reason : Bytes) (hs : HeaderMap)
      (hb : breakOn CRLF2 D' = some (head, body))
      (hq : Parser.parseResponseHeaders head = some (code, reason, hs))
      (fr : Frozen (headOut code reason hs ++ body) st'.sock)

theorem tStage6_open {st : St} (ho : WOpen st.sock) : tStage6 st = st := by
  unfold tStage6
  simp [ho.noDel]

theorem turn_post (env : Env) {st : St} {D : Bytes} (o : OSt st) (m : OMode st D) (hf : st.fromUp = []) :
    TurnRes env (tStage6 (tStage5 env st)) D st.upClosing := by
  by_cases hc : st.upClosing = true
  · have e5 : tStage5 env st = onUpstreamError env { st with conn := .closed, upClosing := false } := by
      unfold tStage5; simp [o.conn, hc]
    rw [e5, hc]
    cases m with
    | acc wire hp respH upRead nb =>
      obtain ⟨fr, _⟩ := onUpstreamError_502 env (st := { st with conn := .closed, upClosing := false }) o.op hp
      have e : Obs.wire ({ st with conn := .closed, upClosing := false } : St).sock.log ++
          err502 env ({ st with conn := .closed, upClosing := false } : St).sock.respHeaders = err502 env [] := by
        show Obs.wire st.sock.log ++ err502 env st.sock.respHeaders = _
        rw [wire, respH]; rfl
      rw [e] at fr
      exact TurnRes.closedNone rfl nb (frozen_tStage6 fr)
    | relayed head body code reason hs hp ws hb hq wire =>
      obtain ⟨fr, _⟩ := onUpstreamError_close env (st := { st with conn := .closed, upClosing := false }) o.op hp
      have e : Obs.wire ({ st with conn := .closed, upClosing := false } : St).sock.log =
          headOut code reason hs ++ body := wire
      rw [e] at fr
      exact TurnRes.closedRelayed rfl head body code reason hs hb hq (frozen_tStage6 fr)
  · have hc' : st.upClosing = false := by simpa using hc
    have e5 : tStage5 env st = st := by unfold tStage5; simp [hc']
    rw [e5, tStage6_open o.op, hc']
    exact TurnRes.cont rfl o m hf hc'

/-- **one event-loop turn on an open proxy** -/
theorem turn_open (env : Env) (c : Cfg) {st : St} {D : Bytes} (o : OSt st) (m : OMode st D) :
    TurnRes env (Proxy.turn env c st) (D ++ st.fromUp.flatten) st.upClosing := by
  rw [turn_eq, if_neg (by simp [o.op.alive])]
  obtain ⟨o3, m3, f3, u3⟩ := turn_pre env c o m
  generalize tStage3 (tStage2 env c (tStage1 env st)) = a3 at o3 m3 f3 u3
  rw [← f3, ← u3]
  rcases deliver_open env o3 m3 with ⟨o4, m4, f4, u4⟩ | ⟨head, body, hb, hq, fr⟩
  · rw [← u4]
    exact turn_post env o4 m4 f4
  · exact TurnRes.failed head body hb hq (frozen_tStage6 (frozen_tStage5 env fr))

/-! ### the first turn: the connection attempt completes -/

/-- `onUpstreamConnected` -/
def connectSt (c : Cfg) (a : St) : St :=
  { a with conn := .connected, headersWritten := true,
           toUp := a.toUp ++ upstreamHead c a.sock ++ a.buf, buf := [] }

theorem first_turn (env : Env) (c : Cfg) {st : St} (h : Fed st) :
    (c.refuse = true → Frozen (err502 env []) (Proxy.turn env c st).sock) ∧
    (c.refuse = false → OSt (Proxy.turn env c st) ∧ OMode (Proxy.turn env c st) [] ∧
      (Proxy.turn env c st).fromUp = [] ∧ (Proxy.turn env c st).upClosing = false) := by
  have ho := h.sock.op
  rw [turn_eq, if_neg (by simp [ho.alive])]
  have hcn : st.conn ≠ .none := by rw [h.conn]; simp
  have c1 : (tStage1 env st).conn = .connecting := (tStage1_conn env st hcn).trans h.conn
  have f1 := tStage1_fields env st
  simp only [Prod.mk.injEq] at f1
  have w1 := tStage1_wstep env ho (fun _ => h.sock.rs)
  have wire1 : Obs.wire (tStage1 env st).sock.log = [] := by
    rw [w1.wire]; show Obs.wire st.sock.log ++ [] = []; rw [h.sock.wire]; rfl
  have resp1 : (tStage1 env st).sock.respHeaders = [] := w1.respH.trans h.sock.respH
  have init1 : (tStage1 env st).sock.initPending = false := w1.initP
  generalize tStage1 env st = a1 at c1 f1 w1 wire1 resp1 init1
  constructor
  · intro hr
    have e2 : tStage2 env c a1 = onUpstreamError env { a1 with conn := .closed } := by
      unfold tStage2; simp [c1, hr]
    rw [e2]
    obtain ⟨fr, _⟩ := onUpstreamError_502 env (st := { a1 with conn := .closed }) w1.op (f1.1.trans h.parsed)
    have e : Obs.wire ({ a1 with conn := .closed } : St).sock.log ++
        err502 env ({ a1 with conn := .closed } : St).sock.respHeaders = err502 env [] := by
      show Obs.wire a1.sock.log ++ err502 env a1.sock.respHeaders = _
      rw [wire1, resp1]; rfl
    rw [e] at fr
    exact frozen_tStage6 (frozen_tStage5 env (frozen_tStage4 env (frozen_tStage3 fr)))
  · intro hr
    have e2 : tStage2 env c a1 = connectSt c a1 := by
      unfold tStage2 connectSt; simp [c1, hr]
    rw [e2]
    generalize ha2 : connectSt c a1 = a2
    have s2 : a2.sock = a1.sock := by rw [← ha2]; rfl
    have g2 : (a2.conn, a2.headersParsed, a2.upRead, a2.fromUp, a2.upClosing) =
        (.connected, a1.headersParsed, a1.upRead, a1.fromUp, a1.upClosing) := by rw [← ha2]; rfl
    simp only [Prod.mk.injEq] at g2
    have o2 : WOpen a2.sock := by rw [s2]; exact w1.op
    have w3 := tStage3_wstep o2
    have f3 := tStage3_fields a2
    simp only [Prod.mk.injEq] at f3
    have o3 : OSt (tStage3 a2) := ⟨f3.1.trans g2.1, w3.op, by rw [w3.initP, s2]; exact init1⟩
    have m3 : OMode (tStage3 a2) [] :=
      OMode.acc (by rw [w3.wire, s2, wire1]; rfl) (f3.2.1.trans (g2.2.1.trans (f1.1.trans h.parsed)))
        (by rw [w3.respH, s2]; exact resp1) (f3.2.2.1.trans (g2.2.2.1.trans (f1.2.1.trans h.upRead))) rfl
    have fu3 : (tStage3 a2).fromUp = [] := f3.2.2.2.1.trans (g2.2.2.2.1.trans (f1.2.2.1.trans h.fromUp))
    have uc3 : (tStage3 a2).upClosing = false := f3.2.2.2.2.trans (g2.2.2.2.2.trans (f1.2.2.2.trans h.upClosing))
    generalize tStage3 a2 = a3 at o3 m3 fu3 uc3
    rcases deliver_open env o3 m3 with ⟨o4, m4, f4, u4⟩ | ⟨head, body, hb, _, _⟩
    · rw [fu3] at m4
      have := turn_post env o4 m4 f4
      rw [u4, uc3] at this
      cases this with
      | cont _ o m fu uc => exact ⟨o, by simpa using m, fu, uc⟩
      | failed head body hb hq fr => simp [breakOn, CRLF2, List.isPrefixOf] at hb
      | closedNone hc _ _ => cases hc
      | closedRelayed hc _ _ _ _ _ _ _ _ => cases hc
    · rw [fu3] at hb
      simp [breakOn, CRLF2, List.isPrefixOf] at hb

end Qhttp.C13L
