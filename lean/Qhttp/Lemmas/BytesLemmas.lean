import Qhttp.Model.Bytes
/-
  Basic facts about `breakOn`, `splitF`, `split`, `joinWith` (Model/Bytes.lean).
  Self-contained (imports only the Bytes model), core-only, fast.

  Overview
    breakOn_some / breakOn_min / breakOn_not_infix_left   what `some (a, r)` means (first occurrence)
    breakOn_none / breakOn_eq_none_iff / breakOn_isSome_iff
    breakOn_eq_some_iff                                    exact characterisation
    breakOn_of_not_infix                                   converse, infix formulation
    breakOn_append                                         first occurrence does not move
    splitF_ne_nil / split_ne_nil, joinWith_splitF / join_split
    splitF_fuel / splitF_eq / split_zero_eq / split_succ_eq   fuel is irrelevant once > length
    splitF_dropLast_not_infix / split_zero_not_infix       pieces do not contain the delimiter
    splitF_length_le / split_length_le                      at most k+1 pieces
    splitF_joinWith / split_joinWith                        split ∘ join = id on delimiter-free pieces
-/
namespace Qhttp

/-! ### breakOn -/

theorem breakOn_nil (d : Bytes) :
    breakOn d [] = if d.isPrefixOf [] then some ([], []) else none := by
  rw [breakOn]; simp only [List.drop_nil]

theorem breakOn_cons (d : Bytes) (x : UInt8) (xs : Bytes) :
    breakOn d (x :: xs) =
      if d.isPrefixOf (x :: xs) then some ([], (x :: xs).drop d.length)
      else (breakOn d xs).map (fun p => (x :: p.1, p.2)) := by
  rw [breakOn]
  split
  · rfl
  · cases breakOn d xs with
    | none => rfl
    | some p => rfl

theorem breakOn_of_prefix {d xs : Bytes} (h : d <+: xs) :
    breakOn d xs = some ([], xs.drop d.length) := by
  have h' : d.isPrefixOf xs = true := List.isPrefixOf_iff_prefix.2 h
  cases xs with
  | nil => rw [breakOn_nil, if_pos h']; simp
  | cons x xs => rw [breakOn_cons, if_pos h']

theorem breakOn_cons_of_not_prefix {d : Bytes} {x : UInt8} {xs : Bytes} (h : ¬ d <+: x :: xs) :
    breakOn d (x :: xs) = (breakOn d xs).map (fun p => (x :: p.1, p.2)) := by
  have h' : ¬ d.isPrefixOf (x :: xs) = true := fun c => h (List.isPrefixOf_iff_prefix.1 c)
  rw [breakOn_cons, if_neg h']

/-- the pieces returned by `breakOn` reassemble the input around the delimiter -/
theorem breakOn_some {d xs a r : Bytes} (h : breakOn d xs = some (a, r)) : xs = a ++ d ++ r := by
  induction xs generalizing a with
  | nil =>
    rw [breakOn_nil] at h
    split at h
    · rename_i hp
      have : d = [] := by simpa using hp
      cases h; simp [this]
    · cases h
  | cons x xs ih =>
    by_cases hp : d <+: x :: xs
    · rw [breakOn_of_prefix hp] at h
      cases h
      simpa using (List.prefix_iff_eq_append.1 hp).symm
    · rw [breakOn_cons_of_not_prefix hp] at h
      cases hb : breakOn d xs with
      | none => rw [hb] at h; cases h
      | some p =>
        obtain ⟨a0, r0⟩ := p
        rw [hb] at h
        cases h
        simp [← ih hb]

/-- first occurrence: no other decomposition of the input around `d` starts earlier -/
theorem breakOn_min {d xs a r : Bytes} (h : breakOn d xs = some (a, r))
    {a' r' : Bytes} (h' : xs = a' ++ d ++ r') : a.length ≤ a'.length := by
  induction xs generalizing a a' with
  | nil =>
    have := breakOn_some h
    have : a = [] := by
      cases a with
      | nil => rfl
      | cons _ _ => simp at this
    simp [this]
  | cons x xs ih =>
    by_cases hp : d <+: x :: xs
    · rw [breakOn_of_prefix hp] at h
      cases h; simp
    · rw [breakOn_cons_of_not_prefix hp] at h
      cases hb : breakOn d xs with
      | none => rw [hb] at h; cases h
      | some p =>
        obtain ⟨a0, r0⟩ := p
        rw [hb] at h
        cases h
        cases a' with
        | nil => exact absurd ⟨r', by simpa using h'.symm⟩ hp
        | cons y a0' =>
          simp only [List.cons_append, List.cons.injEq] at h'
          have := ih hb h'.2
          simpa using this

theorem breakOn_length {d xs a r : Bytes} (h : breakOn d xs = some (a, r)) :
    xs.length = a.length + d.length + r.length := by
  rw [breakOn_some h]; simp only [List.length_append]

/-- with a non-empty delimiter the remainder is strictly shorter -/
theorem breakOn_length_lt {d xs a r : Bytes} (hd : d ≠ []) (h : breakOn d xs = some (a, r)) :
    r.length < xs.length := by
  have := breakOn_length h
  have : 0 < d.length := List.length_pos_iff.2 hd
  omega

/-- first occurrence, infix formulation: `d` does not occur in `a ++ d` before position `|a|` -/
theorem breakOn_not_infix_left {d xs a r : Bytes} (hd : d ≠ []) (h : breakOn d xs = some (a, r)) :
    ¬ d <:+: a ++ d.dropLast := by
  rintro ⟨s, t, hst⟩
  have hx := breakOn_some h
  have hdl : d = d.dropLast ++ [d.getLast hd] := (List.dropLast_concat_getLast hd).symm
  have e : xs = s ++ d ++ (t ++ [d.getLast hd] ++ r) := by
    rw [hx]
    conv => lhs; rw [hdl]
    rw [← List.append_assoc a, ← hst]
    simp [List.append_assoc]
  have h1 := breakOn_min h e
  have h2 : (s ++ d ++ t).length = (a ++ d.dropLast).length := by rw [hst]
  have : 0 < d.length := List.length_pos_iff.2 hd
  simp only [List.length_append, List.length_dropLast] at h2
  omega

/-- in particular the part before the first occurrence does not contain the delimiter -/
theorem breakOn_not_infix_fst {d xs a r : Bytes} (hd : d ≠ []) (h : breakOn d xs = some (a, r)) :
    ¬ d <:+: a := fun c =>
  breakOn_not_infix_left hd h (List.infix_append_iff.2 (Or.inl c))

theorem breakOn_none {d xs : Bytes} (h : breakOn d xs = none) : ¬ d <:+: xs := by
  induction xs with
  | nil =>
    rw [breakOn_nil] at h
    split at h
    · cases h
    · rename_i hp
      intro c
      have : d = [] := by simpa using c
      exact hp (by simp [this])
  | cons x xs ih =>
    by_cases hp : d <+: x :: xs
    · rw [breakOn_of_prefix hp] at h; cases h
    · rw [breakOn_cons_of_not_prefix hp] at h
      cases hb : breakOn d xs with
      | none =>
        intro c
        rcases List.infix_cons_iff.1 c with c | c
        · exact hp c
        · exact ih hb c
      | some p => rw [hb] at h; cases h

theorem breakOn_some_infix {d xs a r : Bytes} (h : breakOn d xs = some (a, r)) : d <:+: xs :=
  ⟨a, r, (breakOn_some h).symm⟩

theorem breakOn_eq_none_iff {d xs : Bytes} : breakOn d xs = none ↔ ¬ d <:+: xs := by
  refine ⟨breakOn_none, fun h => ?_⟩
  cases hb : breakOn d xs with
  | none => rfl
  | some p => exact absurd (breakOn_some_infix (a := p.1) (r := p.2) hb) h

theorem breakOn_isSome_iff {d xs : Bytes} : (breakOn d xs).isSome ↔ d <:+: xs := by
  cases hb : breakOn d xs with
  | none => simpa using breakOn_none hb
  | some p => simpa using breakOn_some_infix (a := p.1) (r := p.2) hb

theorem isInfixB_iff {d xs : Bytes} : isInfixB d xs = true ↔ d <:+: xs := breakOn_isSome_iff

/-- exact characterisation of `breakOn`: a decomposition around `d` with the shortest left part -/
theorem breakOn_eq_some_iff {d xs a r : Bytes} :
    breakOn d xs = some (a, r) ↔
      xs = a ++ d ++ r ∧ ∀ a' r', xs = a' ++ d ++ r' → a.length ≤ a'.length := by
  refine ⟨fun h => ⟨breakOn_some h, fun _ _ h' => breakOn_min h h'⟩, fun ⟨he, hm⟩ => ?_⟩
  cases hb : breakOn d xs with
  | none => exact absurd ⟨a, r, he.symm⟩ (breakOn_none hb)
  | some p =>
    obtain ⟨a2, r2⟩ := p
    have e2 := breakOn_some hb
    have l1 := breakOn_min hb he
    have l2 := hm a2 r2 e2
    have hl : a2.length = a.length := by omega
    rw [e2, List.append_assoc, List.append_assoc] at he
    obtain ⟨h1, h2⟩ := List.append_inj he hl
    have h3 := List.append_cancel_left h2
    rw [h1, h3]

/-- converse of `breakOn_some` + `breakOn_not_infix_left` -/
theorem breakOn_of_not_infix {d a : Bytes} (r : Bytes) (hd : d ≠ [])
    (h : ¬ d <:+: a ++ d.dropLast) : breakOn d (a ++ d ++ r) = some (a, r) := by
  rw [breakOn_eq_some_iff]
  refine ⟨rfl, fun a' r' he => ?_⟩
  apply Nat.le_of_not_lt
  intro hlt
  apply h
  -- `a' ++ d` is a prefix of `a ++ d.dropLast`
  have hdl : d = d.dropLast ++ [d.getLast hd] := (List.dropLast_concat_getLast hd).symm
  have e : (a ++ d.dropLast) ++ ([d.getLast hd] ++ r) = (a' ++ d) ++ r' := by
    rw [← he]
    conv => rhs; rw [hdl]
    simp [List.append_assoc]
  have hlen : (a' ++ d).length ≤ (a ++ d.dropLast).length := by
    have : 0 < d.length := List.length_pos_iff.2 hd
    simp only [List.length_append, List.length_dropLast]
    omega
  have hp : a' ++ d <+: a ++ d.dropLast :=
    List.prefix_of_prefix_length_le ⟨r', e.symm⟩ ⟨_, rfl⟩ hlen
  obtain ⟨t, ht⟩ := hp
  exact ⟨a', t, ht⟩

theorem singleton_infix_iff {c : UInt8} {a : Bytes} : [c] <:+: a ↔ c ∈ a := by
  constructor
  · rintro ⟨s, t, rfl⟩; simp
  · intro h
    obtain ⟨s, t, rfl⟩ := List.mem_iff_append.1 h
    exact ⟨s, t, by simp⟩

/-- for a one-byte delimiter: the first occurrence is after `a` iff the byte is not in `a` -/
theorem breakOn_singleton {c : UInt8} {a : Bytes} (r : Bytes) (h : c ∉ a) :
    breakOn [c] (a ++ [c] ++ r) = some (a, r) := by
  apply breakOn_of_not_infix r (by simp)
  intro hc
  have : [c] <:+: a := by simpa using hc
  exact h (singleton_infix_iff.1 this)

theorem breakOn_singleton_not_mem {c : UInt8} {xs a r : Bytes} (h : breakOn [c] xs = some (a, r)) :
    c ∉ a := fun hc =>
  breakOn_not_infix_fst (by simp) h (singleton_infix_iff.2 hc)

theorem breakOn_singleton_isSome_iff {c : UInt8} {xs : Bytes} :
    (breakOn [c] xs).isSome ↔ c ∈ xs := by
  rw [breakOn_isSome_iff, singleton_infix_iff]

/-- the first occurrence does not move when bytes are appended -/
theorem breakOn_append {d xs a r : Bytes} (ys : Bytes) (h : breakOn d xs = some (a, r)) :
    breakOn d (xs ++ ys) = some (a, r ++ ys) := by
  induction xs generalizing a with
  | nil =>
    have e := breakOn_some h
    have hl := congrArg List.length e
    simp only [List.length_append, List.length_nil] at hl
    have ha : a = [] := List.length_eq_zero_iff.1 (by omega)
    have hd' : d = [] := List.length_eq_zero_iff.1 (by omega)
    have hr : r = [] := List.length_eq_zero_iff.1 (by omega)
    subst ha hd' hr
    rw [breakOn_of_prefix (by simp)]
    simp
  | cons x xs ih =>
    by_cases hp : d <+: x :: xs
    · rw [breakOn_of_prefix hp] at h
      cases h
      have hp' : d <+: (x :: xs) ++ ys := List.IsPrefix.trans hp ⟨ys, rfl⟩
      rw [breakOn_of_prefix hp']
      have : d.length ≤ (x :: xs).length := hp.length_le
      rw [List.drop_append_of_le_length this]
    · have hlen : d.length ≤ (x :: xs).length := (breakOn_some_infix h).length_le
      have hp' : ¬ d <+: (x :: xs) ++ ys := fun c =>
        hp (List.prefix_of_prefix_length_le c ⟨ys, rfl⟩ hlen)
      rw [breakOn_cons_of_not_prefix hp] at h
      rw [List.cons_append] at hp' ⊢
      rw [breakOn_cons_of_not_prefix hp']
      cases hb : breakOn d xs with
      | none => rw [hb] at h; cases h
      | some p =>
        obtain ⟨a0, r0⟩ := p
        rw [hb] at h
        cases h
        rw [ih hb]; rfl

/-- nothing found in a longer input: nothing found in a prefix of it -/
theorem breakOn_none_of_append {d xs ys : Bytes} (h : breakOn d (xs ++ ys) = none) :
    breakOn d xs = none := by
  rw [breakOn_eq_none_iff] at h ⊢
  exact fun c => h (List.infix_append_iff.2 (Or.inl c))

/-! ### joinWith -/

theorem joinWith_cons {d x : Bytes} {l : List Bytes} (h : l ≠ []) :
    joinWith d (x :: l) = x ++ d ++ joinWith d l := by
  cases l with
  | nil => exact absurd rfl h
  | cons y ys => rfl

theorem joinWith_singleton (d x : Bytes) : joinWith d [x] = x := rfl

/-- `joinWith` written with `flatMap` (the shape used by grammar-style specifications) -/
theorem joinWith_cons_eq_flatMap (d x : Bytes) (l : List Bytes) :
    joinWith d (x :: l) = x ++ l.flatMap (fun p => d ++ p) := by
  induction l generalizing x with
  | nil => simp [joinWith]
  | cons y ys ih =>
    rw [joinWith_cons (by simp), ih]
    simp [List.append_assoc]

/-! ### splitF / split -/

theorem splitF_zero (d : Bytes) (lim : Option Nat) (xs : Bytes) : splitF d 0 lim xs = [xs] := by
  rw [splitF]

theorem splitF_succ (d : Bytes) (f : Nat) (lim : Option Nat) (xs : Bytes) :
    splitF d (f + 1) lim xs =
      if lim = some 0 then [xs] else
      match breakOn d xs with
      | none => [xs]
      | some (a, r) => a :: splitF d f (lim.map (· - 1)) r := by
  rw [splitF]
  split
  · rfl
  · cases breakOn d xs with
    | none => rfl
    | some p => rfl

/-- `Parser::split` never returns an empty list (any delimiter, any fuel, any limit) -/
theorem splitF_ne_nil (d : Bytes) (f : Nat) (lim : Option Nat) (xs : Bytes) :
    splitF d f lim xs ≠ [] := by
  cases f with
  | zero => simp [splitF_zero]
  | succ f =>
    rw [splitF_succ]
    split
    · simp
    · split <;> simp

theorem split_ne_nil (d : Bytes) (k : Nat) (xs : Bytes) : split d k xs ≠ [] :=
  splitF_ne_nil _ _ _ _

theorem splitChar_ne_nil (c : UInt8) (xs : Bytes) : splitChar c xs ≠ [] :=
  splitF_ne_nil _ _ _ _

/-- joining the pieces with the delimiter gives back the input (any delimiter, fuel, limit) -/
theorem joinWith_splitF (d : Bytes) (f : Nat) (lim : Option Nat) (xs : Bytes) :
    joinWith d (splitF d f lim xs) = xs := by
  induction f generalizing lim xs with
  | zero => simp [splitF_zero, joinWith]
  | succ f ih =>
    rw [splitF_succ]
    split
    · rfl
    · split
      · rfl
      · rename_i a r hb
        rw [joinWith_cons (splitF_ne_nil _ _ _ _), ih, ← breakOn_some hb]

theorem join_split (d : Bytes) (k : Nat) (xs : Bytes) : joinWith d (split d k xs) = xs :=
  joinWith_splitF _ _ _ _

theorem join_splitChar (c : UInt8) (xs : Bytes) : joinWith [c] (splitChar c xs) = xs :=
  joinWith_splitF _ _ _ _

/-- with a non-empty delimiter any fuel larger than the input length gives the same result -/
theorem splitF_fuel {d : Bytes} (hd : d ≠ []) {f1 f2 : Nat} {lim : Option Nat} {xs : Bytes}
    (h1 : xs.length < f1) (h2 : xs.length < f2) :
    splitF d f1 lim xs = splitF d f2 lim xs := by
  induction f1 generalizing f2 lim xs with
  | zero => omega
  | succ f1 ih =>
    cases f2 with
    | zero => omega
    | succ f2 =>
      rw [splitF_succ, splitF_succ]
      split
      · rfl
      · split
        · rfl
        · rename_i a r hb
          have := breakOn_length_lt hd hb
          exact congrArg _ (ih (f2 := f2) (by omega) (by omega))

/-- fuel-free unfolding of `splitF` -/
theorem splitF_eq {d : Bytes} (hd : d ≠ []) {f : Nat} {lim : Option Nat} {xs : Bytes}
    (h : xs.length < f) :
    splitF d f lim xs =
      if lim = some 0 then [xs] else
      match breakOn d xs with
      | none => [xs]
      | some (a, r) => a :: splitF d (r.length + 1) (lim.map (· - 1)) r := by
  cases f with
  | zero => omega
  | succ f =>
    rw [splitF_succ]
    split
    · rfl
    · split
      · rfl
      · rename_i a r hb
        have := breakOn_length_lt hd hb
        rw [splitF_fuel hd (f1 := f) (f2 := r.length + 1) (by omega) (by omega)]

/-- `split` does not depend on the fuel chosen in its definition -/
theorem split_eq_splitF {d : Bytes} (hd : d ≠ []) (k : Nat) {f : Nat} {xs : Bytes}
    (h : xs.length < f) : split d k xs = splitF d f (limOf k) xs :=
  splitF_fuel hd (Nat.lt_succ_self _) h

/-- unlimited `split`, unfolded -/
theorem split_zero_eq {d : Bytes} (hd : d ≠ []) (xs : Bytes) :
    split d 0 xs =
      match breakOn d xs with
      | none => [xs]
      | some (a, r) => a :: split d 0 r := by
  unfold split
  rw [splitF_eq hd (Nat.lt_succ_self _)]
  simp only [limOf, if_true]
  rw [if_neg (by simp)]
  rfl

/-- `split` with `maxSplit = k + 1`, unfolded -/
theorem split_succ_eq {d : Bytes} (hd : d ≠ []) (k : Nat) (xs : Bytes) :
    split d (k + 1) xs =
      match breakOn d xs with
      | none => [xs]
      | some (a, r) => a :: (if k = 0 then [r] else split d k r) := by
  unfold split
  rw [splitF_eq hd (Nat.lt_succ_self _)]
  have e1 : limOf (k + 1) = some (k + 1) := by simp [limOf]
  rw [e1, if_neg (by simp)]
  cases hb : breakOn d xs with
  | none => rfl
  | some p =>
    obtain ⟨a, r⟩ := p
    simp only [Option.map_some, Nat.add_sub_cancel]
    by_cases hk : k = 0
    · subst hk
      rw [if_pos rfl, splitF_succ, if_pos rfl]
    · rw [if_neg hk]
      simp [limOf, hk]

/-- every piece but the last is the part before a first occurrence, hence free of `d` -/
theorem splitF_dropLast_not_infix {d : Bytes} (hd : d ≠ []) (f : Nat) (lim : Option Nat)
    (xs : Bytes) : ∀ p ∈ (splitF d f lim xs).dropLast, ¬ d <:+: p ++ d.dropLast := by
  induction f generalizing lim xs with
  | zero => simp [splitF_zero]
  | succ f ih =>
    rw [splitF_succ]
    split
    · simp
    · split
      · simp
      · rename_i a r hb
        intro p hp
        rw [List.dropLast_cons_of_ne_nil (splitF_ne_nil _ _ _ _)] at hp
        rcases List.mem_cons.1 hp with rfl | hp
        · exact breakOn_not_infix_left hd hb
        · exact ih _ _ p hp

theorem split_dropLast_not_infix {d : Bytes} (hd : d ≠ []) (k : Nat) (xs : Bytes) :
    ∀ p ∈ (split d k xs).dropLast, ¬ d <:+: p := fun p hp c =>
  splitF_dropLast_not_infix hd _ _ _ p hp (List.infix_append_iff.2 (Or.inl c))

/-- with unlimited splitting and enough fuel the last piece is free of `d` too -/
theorem splitF_none_getLast_not_infix {d : Bytes} (hd : d ≠ []) {f : Nat} {xs : Bytes}
    (h : xs.length < f) :
    ¬ d <:+: (splitF d f none xs).getLast (splitF_ne_nil _ _ _ _) := by
  induction f generalizing xs with
  | zero => omega
  | succ f ih =>
    have key : ∀ l (hl : l ≠ []), l = splitF d (f + 1) none xs → ¬ d <:+: l.getLast hl := by
      intro l hl e
      rw [splitF_succ, if_neg (by simp)] at e
      cases hb : breakOn d xs with
      | none =>
        rw [hb] at e
        subst e
        simpa using breakOn_none hb
      | some p =>
        obtain ⟨a, r⟩ := p
        rw [hb] at e
        subst e
        have := breakOn_length_lt hd hb
        rw [List.getLast_cons (splitF_ne_nil _ _ _ _)]
        exact ih (by omega)
    exact key _ _ rfl

/-- unlimited `split`: no piece contains the delimiter -/
theorem split_zero_not_infix {d : Bytes} (hd : d ≠ []) (xs : Bytes) :
    ∀ p ∈ split d 0 xs, ¬ d <:+: p := by
  intro p hp
  have hne := split_ne_nil d 0 xs
  rw [← List.dropLast_concat_getLast hne] at hp
  rcases List.mem_append.1 hp with hp | hp
  · exact split_dropLast_not_infix hd 0 xs p hp
  · have : p = (split d 0 xs).getLast hne := by simpa using hp
    rw [this]
    exact splitF_none_getLast_not_infix hd (Nat.lt_succ_self _)

/-- `maxSplit = k` gives at most `k + 1` pieces -/
theorem splitF_length_le (d : Bytes) (f k : Nat) (xs : Bytes) :
    (splitF d f (some k) xs).length ≤ k + 1 := by
  induction f generalizing k xs with
  | zero => simp [splitF_zero]
  | succ f ih =>
    rw [splitF_succ]
    split
    · simp
    · split
      · simp
      · rename_i a r hb
        cases k with
        | zero => rename_i hk; exact absurd rfl hk
        | succ k =>
          have := ih k r
          simpa using this

theorem split_length_le (d : Bytes) {k : Nat} (hk : k ≠ 0) (xs : Bytes) :
    (split d k xs).length ≤ k + 1 := by
  unfold split
  rw [show limOf k = some k by simp [limOf, hk]]
  exact splitF_length_le _ _ _ _

/-- the fuel bounds the number of pieces as well -/
theorem splitF_length_le_fuel (d : Bytes) (f : Nat) (lim : Option Nat) (xs : Bytes) :
    (splitF d f lim xs).length ≤ f + 1 := by
  induction f generalizing lim xs with
  | zero => simp [splitF_zero]
  | succ f ih =>
    rw [splitF_succ]
    split
    · simp
    · split
      · simp
      · have := ih (lim.map (· - 1)) ‹_›
        simpa using this

/-- `split ∘ join = id` (unlimited): pieces in which the delimiter has no early occurrence
    (all but the last) resp. no occurrence (the last) are recovered exactly -/
theorem splitF_joinWith {d : Bytes} (hd : d ≠ []) (ps : List Bytes) (hne : ps ≠ [])
    (h1 : ∀ p ∈ ps.dropLast, ¬ d <:+: p ++ d.dropLast)
    (h2 : ¬ d <:+: ps.getLast hne) {f : Nat} (hf : (joinWith d ps).length < f) :
    splitF d f none (joinWith d ps) = ps := by
  induction ps generalizing f with
  | nil => exact absurd rfl hne
  | cons p ps ih =>
    rw [splitF_eq hd hf, if_neg (by simp)]
    cases ps with
    | nil =>
      simp only [joinWith_singleton]
      have : breakOn d p = none := breakOn_eq_none_iff.2 (by simpa using h2)
      rw [this]
    | cons q qs =>
      have hne' : q :: qs ≠ [] := by simp
      rw [joinWith_cons hne']
      rw [breakOn_of_not_infix _ hd (h1 p (by simp))]
      simp only [Option.map_none]
      rw [ih hne' (fun p' hp' => h1 p' (by
            rw [List.dropLast_cons_of_ne_nil hne']; exact List.mem_cons_of_mem _ hp'))
          (by rw [List.getLast_cons hne'] at h2; exact h2) (Nat.lt_succ_self _)]

theorem split_joinWith {d : Bytes} (hd : d ≠ []) (ps : List Bytes) (hne : ps ≠ [])
    (h1 : ∀ p ∈ ps.dropLast, ¬ d <:+: p ++ d.dropLast)
    (h2 : ¬ d <:+: ps.getLast hne) : split d 0 (joinWith d ps) = ps :=
  splitF_joinWith hd ps hne h1 h2 (Nat.lt_succ_self _)

/-! ### the two delimiters the parser uses -/

theorem CRLF_ne_nil : CRLF ≠ [] := by decide

/-- a CRLF cannot start inside a CRLF-free piece and end in the following delimiter -/
theorem not_CRLF_infix_append_CR {p : Bytes} (h : ¬ CRLF <:+: p) :
    ¬ CRLF <:+: p ++ CRLF.dropLast := by
  intro c
  rcases List.infix_append_iff_ne_nil.1 c with c | c | ⟨l1, l2, h1, h2, e, _, hp⟩
  · exact h c
  · have := c.length_le; simp [CRLF] at this
  · -- l1 = [13], l2 = [10], but l2 is a prefix of [13]
    have hl : l1.length + l2.length = 2 := by
      have := congrArg List.length e; simpa [CRLF] using this.symm
    have hl2 : l2.length ≤ 1 := by simpa [CRLF] using hp.length_le
    have : 0 < l1.length := List.length_pos_iff.2 h1
    have : 0 < l2.length := List.length_pos_iff.2 h2
    match l1, l2, e with
    | [x], [y], e =>
      simp only [CRLF, List.cons_append, List.nil_append, List.cons.injEq, and_true] at e
      have : y = 13 := by simpa [CRLF] using hp
      rw [this] at e
      exact absurd e.2 (by decide)
    | [], _, _ => simp at *
    | _ :: _ :: _, _, _ => simp at *; omega
    | [_], [], _ => simp at *
    | [_], _ :: _ :: _, _ => simp at *

/-- `split CRLF 0` recovers CRLF-free lines exactly -/
theorem split_CRLF_joinWith (ps : List Bytes) (hne : ps ≠ []) (h : ∀ p ∈ ps, ¬ CRLF <:+: p) :
    split CRLF 0 (joinWith CRLF ps) = ps :=
  split_joinWith CRLF_ne_nil ps hne
    (fun p hp => not_CRLF_infix_append_CR (h p (List.dropLast_subset _ hp)))
    (h _ (List.getLast_mem hne))

end Qhttp
