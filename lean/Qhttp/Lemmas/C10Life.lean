import Qhttp.Lemmas.C10Sock
/-
  C10, part 2: the composed models (`FsHandler`, `Life`) extend the socket state the same way;
  what an event-loop turn and the Server glue (`afterEvent`) do on top of it.
-/
namespace Qhttp.C10L
open Qhttp Qhttp.Sock

/-! ### history counting -/

theorem dcCount_append (s : Sock) (l t : List Obs) (h : s.log = l ++ t) :
    Life.dcCount s = Obs.countP Obs.isDc l + Obs.countP Obs.isDc t := by
  simp [Life.dcCount, Obs.countP, h]

theorem countP_isDc_pos {l : List Obs} : 0 < Obs.countP Obs.isDc l ↔ Obs.dc ∈ l := by
  unfold Obs.countP
  rw [List.length_pos_iff_exists_mem]
  constructor
  · rintro ⟨o, ho⟩
    rw [List.mem_filter] at ho
    obtain ⟨h1, h2⟩ := ho
    cases o <;> simp [Obs.isDc] at h2
    exact h1
  · intro h
    exact ⟨Obs.dc, List.mem_filter.mpr ⟨h, rfl⟩⟩

theorem dcCount_pos {s : Sock} : 0 < Life.dcCount s ↔ Obs.dc ∈ s.log := countP_isDc_pos

/-- if the history grew and the number of `dc` did not, every `dc` was there before -/
theorem dc_of_same_count {s s' : Sock} (hl : ∃ t, s'.log = s.log ++ t)
    (hc : Life.dcCount s' = Life.dcCount s) (h : Obs.dc ∈ s'.log) : Obs.dc ∈ s.log := by
  obtain ⟨t, e⟩ := hl
  have h1 := dcCount_append s' s.log t e
  have h2 : Life.dcCount s = Obs.countP Obs.isDc s.log := rfl
  have h3 := dcCount_pos.mpr h
  apply countP_isDc_pos.mp
  have h4 : Obs.countP Obs.isDc t = 0 := by omega
  omega

/-! ### whole events: the object may be destroyed, never resurrected -/

structure Evo (s s' : Sock) : Prop where
  al : s'.alive = true → s.alive = true
  cc : s.closeCalled = true → s'.closeCalled = true
  lg : ∃ t, s'.log = s.log ++ t
  un : U s → U s'
  df : s.dcFlag = false → s'.dcFlag = false

theorem Evo.refl (s : Sock) : Evo s s := ⟨id, id, ⟨[], by simp⟩, id, id⟩

theorem Evo.trans {a b c : Sock} (h1 : Evo a b) (h2 : Evo b c) : Evo a c := by
  obtain ⟨t1, e1⟩ := h1.lg
  obtain ⟨t2, e2⟩ := h2.lg
  exact ⟨fun h => h1.al (h2.al h), fun h => h2.cc (h1.cc h),
    ⟨t1 ++ t2, by rw [e2, e1, List.append_assoc]⟩,
    fun h => h2.un (h1.un h), fun h => h2.df (h1.df h)⟩

theorem ExtE.evo {s s' : Sock} (h : ExtE s s') : Evo s s' :=
  ⟨fun h' => by rw [← h.1.al]; exact h', h.1.cc, h.1.lg, h.1.un, h.2⟩

theorem Evo.mem {s s' : Sock} (h : Evo s s') {o : Obs} (ho : o ∈ s.log) : o ∈ s'.log := by
  obtain ⟨t, e⟩ := h.lg
  rw [e]; exact List.mem_append_left _ ho

/-- changes of the lifetime flags and of the history only -/
theorem Evo.flags {s s' : Sock} (t : List Obs) (h1 : s'.alive = true → s.alive = true)
    (h3 : s'.closeCalled = s.closeCalled)
    (h4 : s'.log = s.log ++ t) (h5 : s'.tcp.conn = s.tcp.conn) (h6 : s'.dcFlag = s.dcFlag) :
    Evo s s' := by
  refine ⟨h1, fun h => by rw [h3]; exact h, ⟨t, h4⟩, fun hu hc => ?_, fun h => by rw [h6]; exact h⟩
  rw [h5] at hc
  rcases hu hc with h | h
  · left; rw [h6]; exact h
  · right; rw [h4]; exact List.mem_append_left _ h

theorem reap_evo (s : Sock) : Evo s (reap s) := by
  unfold reap
  split
  · exact Evo.flags [Obs.del] (fun h => by simp at h) rfl rfl rfl rfl
  · exact Evo.refl s

theorem reap_alive {s : Sock} (h : (reap s).alive = true) :
    s.delPending = false ∧ reap s = s := by
  unfold reap at h ⊢
  split at h
  · simp at h
  · rename_i hd
    simp [hd]

theorem reap_dead {s : Sock} (h : s.delPending = true) : (reap s).alive = false := by
  unfold reap; simp [h]

/-! ### the filesystem handler on top of the socket -/

theorem relay_extE (env : Env) (app : App) (l : List Obs) (s : Sock) :
    ExtE s (FsHandler.relay env app s l) := by
  fun_induction FsHandler.relay env app s l with
  | case1 s => exact ExtE.refl s
  | case2 s b rest ih => exact (api_extE env app s _).trans ih
  | case3 s d rest ih => exact (api_extE env app s _).trans ih
  | case4 s o rest h1 h2 ih => exact ih

theorem afterRoute_sock (fe : FsHandler.FsEnv) (n : Nat) (st : FsHandler.St) :
    (FsHandler.afterRoute fe n st).sock = st.sock := by
  unfold FsHandler.afterRoute
  split
  · split <;> rfl
  · rfl

theorem fsStep_eq (env : Env) (fe : FsHandler.FsEnv) (st : FsHandler.St) (e : Event)
    (he : e ≠ .turn) :
    ∃ k, FsHandler.step env fe st e = FsHandler.afterRoute fe (Obs.countP Obs.isHp st.sock.log)
      { st with sock := (Sock.stepK env (FsHandler.app fe) (st.sock, k) e).1 } := by
  cases e <;> first | exact ⟨_, rfl⟩ | exact absurd rfl he

theorem fsStep_extE (env : Env) (fe : FsHandler.FsEnv) (st : FsHandler.St) (e : Event)
    (he : e ≠ .turn) : ExtE st.sock (FsHandler.step env fe st e).sock := by
  obtain ⟨k, hk⟩ := fsStep_eq env fe st e he
  rw [hk, afterRoute_sock]
  exact stepK_extE env _ st.sock k e he

/-- a destroyed socket: no event changes anything in the handler's state -/
theorem fsStep_dead (env : Env) (fe : FsHandler.FsEnv) (st : FsHandler.St) (e : Event)
    (h : st.sock.alive = false) : FsHandler.step env fe st e = st := by
  by_cases he : e = .turn
  · subst he
    show FsHandler.turn env fe st = st
    unfold FsHandler.turn
    simp [h]
  · obtain ⟨k, hk⟩ := fsStep_eq env fe st e he
    rw [hk, stepK_dead env _ st.sock k e h]
    unfold FsHandler.afterRoute
    simp

/-- the copier's pending call, relayed to the socket -/
def turnCop (env : Env) (a : App) (st : FsHandler.St) : FsHandler.St :=
  match st.cop with
  | some (cfg, cs) =>
    { st with sock := FsHandler.relay env a st.sock
                        ((Copier.step cfg cs .turn).log.drop cs.log.length),
              cop := some (cfg, Copier.step cfg cs .turn) }
  | none => st

theorem fsTurn_eq (env : Env) (fe : FsHandler.FsEnv) (st : FsHandler.St)
    (ha : st.sock.alive = true) :
    ∃ n k, FsHandler.turn env fe st =
      { turnCop env (FsHandler.app fe) (FsHandler.afterRoute fe n
          { st with sock := initRead env (FsHandler.app fe)
                              { st.sock with log := st.sock.log ++ [Obs.ev k] } }) with
        sock := reap (turnCop env (FsHandler.app fe) (FsHandler.afterRoute fe n
          { st with sock := initRead env (FsHandler.app fe)
                              { st.sock with log := st.sock.log ++ [Obs.ev k] } })).sock } := by
  refine ⟨?_, ?_, ?_⟩
  case refine_3 =>
    unfold FsHandler.turn
    rw [if_neg (by simp [ha])]
    rfl

theorem turnCop_extE (env : Env) (a : App) (st : FsHandler.St) :
    ExtE st.sock (turnCop env a st).sock := by
  unfold turnCop
  split
  · exact relay_extE env a _ _
  · exact ExtE.refl _

/-- an event-loop turn of the handler: some extension of the state, then deferred deletion -/
theorem fsTurn_sock (env : Env) (fe : FsHandler.FsEnv) (st : FsHandler.St)
    (ha : st.sock.alive = true) :
    ∃ s2, ExtE st.sock s2 ∧ (FsHandler.turn env fe st).sock = reap s2 := by
  obtain ⟨n, k, h⟩ := fsTurn_eq env fe st ha
  refine ⟨_, ?_, by rw [h]⟩
  refine ExtE.trans ?_ (turnCop_extE env _ _)
  rw [afterRoute_sock]
  refine ExtE.trans ?_ (initRead_extE env _ _)
  exact ExtE.grow [_] rfl rfl id rfl rfl rfl


/-! ### the Server glue -/

/-- the documented `disconnected -> deleteLater` connection -/
def setDel (s : Sock) : Sock := { s with delPending := true }

theorem setDel_evo (s : Sock) : Evo s (setDel s) := Evo.flags [] id rfl (by simp [setDel]) rfl rfl

/-- the copier signalled `finished` -/
def copFinished (cs : Copier.St) : Bool :=
  cs.log.any fun o => match o with | .misc 2 _ => true | _ => false

theorem afterEvent_idle (env : Env) (fe : FsHandler.FsEnv) (n : Nat) (st : Life.St)
    (h : st.fs.sock.alive = false ∨ Life.dcCount st.fs.sock = n) :
    Life.afterEvent env fe n st = st := by
  unfold Life.afterEvent
  rcases h with h | h <;> simp [h]

/-- the three outcomes when `disconnected` was reported during the event -/
theorem afterEvent_fire (env : Env) (fe : FsHandler.FsEnv) (n : Nat) (st : Life.St)
    (ha : st.fs.sock.alive = true) (hn : Life.dcCount st.fs.sock ≠ n) :
    Life.afterEvent env fe n st =
      match st.fs.cop with
      | some (cfg, cs) =>
        if copFinished cs || st.stopped then { st with fs := { st.fs with sock := setDel st.fs.sock } }
        else { st with fs := { st.fs with sock := api env (FsHandler.app fe) (setDel st.fs.sock) .close,
                                          cop := some (cfg, Copier.stop cs) },
                       stopped := true }
      | none => { st with fs := { st.fs with sock := setDel st.fs.sock } } := by
  unfold Life.afterEvent
  dsimp only
  rw [if_neg (by simp [ha, hn])]
  rfl

theorem afterEvent_fire_extE (env : Env) (fe : FsHandler.FsEnv) (n : Nat) (st : Life.St)
    (ha : st.fs.sock.alive = true) (hn : Life.dcCount st.fs.sock ≠ n) :
    ExtE (setDel st.fs.sock) (Life.afterEvent env fe n st).fs.sock ∧
    (Life.afterEvent env fe n st).deadSrv = st.deadSrv := by
  rw [afterEvent_fire env fe n st ha hn]
  split
  · split
    · exact ⟨ExtE.refl _, rfl⟩
    · exact ⟨api_extE env _ _ _, rfl⟩
  · exact ⟨ExtE.refl _, rfl⟩

theorem afterEvent_evo (env : Env) (fe : FsHandler.FsEnv) (n : Nat) (st : Life.St) :
    Evo st.fs.sock (Life.afterEvent env fe n st).fs.sock ∧
    (Life.afterEvent env fe n st).deadSrv = st.deadSrv := by
  by_cases h : st.fs.sock.alive = false ∨ Life.dcCount st.fs.sock = n
  · rw [afterEvent_idle env fe n st h]
    exact ⟨Evo.refl _, rfl⟩
  · have ha : st.fs.sock.alive = true := by
      cases hx : st.fs.sock.alive
      · exact absurd (Or.inl hx) h
      · rfl
    have hn : Life.dcCount st.fs.sock ≠ n := fun hx => h (Or.inr hx)
    have := afterEvent_fire_extE env fe n st ha hn
    exact ⟨(setDel_evo _).trans this.1.evo, this.2⟩

theorem fsStep_evo (env : Env) (fe : FsHandler.FsEnv) (st : FsHandler.St) (e : Event) :
    Evo st.sock (FsHandler.step env fe st e).sock := by
  by_cases he : e = .turn
  · cases ha : st.sock.alive
    · rw [fsStep_dead env fe st e ha]
      exact Evo.refl _
    · subst he
      obtain ⟨s2, h1, h2⟩ := fsTurn_sock env fe st ha
      show Evo st.sock (FsHandler.turn env fe st).sock
      rw [h2]
      exact h1.evo.trans (reap_evo s2)
  · exact (fsStep_extE env fe st e he).evo

theorem lifeStep_ev (env : Env) (fe : FsHandler.FsEnv) (st : Life.St) (e : Event)
    (h : st.deadSrv = false) :
    Life.step env fe st (.ev e) = Life.afterEvent env fe (Life.dcCount st.fs.sock)
      { st with fs := FsHandler.step env fe st.fs e } := by
  simp [Life.step, h]

theorem lifeStep_deadSrv (env : Env) (fe : FsHandler.FsEnv) (st : Life.St) (ev : Life.LEv)
    (h : st.deadSrv = true) : Life.step env fe st ev = st := by
  cases ev <;> simp [Life.step, h]

/-- a destroyed socket: no socket-level event changes anything in the whole state -/
theorem lifeStep_dead (env : Env) (fe : FsHandler.FsEnv) (st : Life.St) (e : Event)
    (h : st.fs.sock.alive = false) : Life.step env fe st (.ev e) = st := by
  cases hd : st.deadSrv
  · rw [lifeStep_ev env fe st e hd, fsStep_dead env fe st.fs e h]
    exact afterEvent_idle env fe _ st (Or.inl h)
  · exact lifeStep_deadSrv env fe st _ hd

theorem lifeStep_kill (env : Env) (fe : FsHandler.FsEnv) (st : Life.St) (h : st.deadSrv = false) :
    (Life.step env fe st .killServer).deadSrv = true ∧
    (Life.step env fe st .killServer).fs.sock.alive = false ∧
    Evo st.fs.sock (Life.step env fe st .killServer).fs.sock := by
  refine ⟨by simp [Life.step, h], by simp [Life.step, h], ?_⟩
  simp only [Life.step, h, Bool.false_eq_true, if_false]
  exact Evo.flags [_] (fun h => by simp at h) rfl rfl rfl rfl

theorem lifeStep_evo (env : Env) (fe : FsHandler.FsEnv) (st : Life.St) (ev : Life.LEv) :
    Evo st.fs.sock (Life.step env fe st ev).fs.sock := by
  cases hd : st.deadSrv
  · cases ev with
    | ev e =>
      rw [lifeStep_ev env fe st e hd]
      exact (fsStep_evo env fe st.fs e).trans
        (afterEvent_evo env fe _ { st with fs := FsHandler.step env fe st.fs e }).1
    | killServer => exact (lifeStep_kill env fe st hd).2.2
  · rw [lifeStep_deadSrv env fe st ev hd]
    exact Evo.refl _

/-! ### the invariant of every reachable state -/

structure LInv (st : Life.St) : Prop where
  df : st.fs.sock.dcFlag = false
  un : U st.fs.sock
  dl : st.fs.sock.alive = true → Obs.dc ∈ st.fs.sock.log → st.fs.sock.delPending = true
  ds : st.deadSrv = true → st.fs.sock.alive = false

theorem LInv.init : LInv ({} : Life.St) :=
  ⟨rfl, fun h => by simp at h, fun _ h => by simp at h, fun h => by simp at h⟩

/-- `disconnected` reported during the event and the socket still there: deletion is scheduled -/
theorem lifeStep_schedules (env : Env) (fe : FsHandler.FsEnv) (st : Life.St) (e : Event)
    (ha : (Life.step env fe st (.ev e)).fs.sock.alive = true)
    (hn : Life.dcCount (Life.step env fe st (.ev e)).fs.sock ≠ Life.dcCount st.fs.sock) :
    (Life.step env fe st (.ev e)).fs.sock.delPending = true := by
  cases hd : st.deadSrv
  · rw [lifeStep_ev env fe st e hd] at ha hn ⊢
    by_cases h : (FsHandler.step env fe st.fs e).sock.alive = false ∨
        Life.dcCount (FsHandler.step env fe st.fs e).sock = Life.dcCount st.fs.sock
    · rw [afterEvent_idle env fe _ _ h] at ha hn
      rcases h with h | h
      · rw [h] at ha; exact absurd ha (by simp)
      · exact absurd h hn
    · have ha' : (FsHandler.step env fe st.fs e).sock.alive = true := by
        cases hx : (FsHandler.step env fe st.fs e).sock.alive
        · exact absurd (Or.inl hx) h
        · rfl
      have := afterEvent_fire_extE env fe (Life.dcCount st.fs.sock)
        { st with fs := FsHandler.step env fe st.fs e } ha' (fun hx => h (Or.inr hx))
      exact this.1.1.dp rfl
  · rw [lifeStep_deadSrv env fe st _ hd] at hn
    exact absurd rfl hn

/-- a scheduled deletion survives every event that is not an event-loop turn -/
theorem lifeStep_keeps (env : Env) (fe : FsHandler.FsEnv) (st : Life.St) (e : Event)
    (he : e ≠ .turn) (h : st.fs.sock.delPending = true) :
    (Life.step env fe st (.ev e)).fs.sock.delPending = true := by
  cases hd : st.deadSrv
  · rw [lifeStep_ev env fe st e hd]
    have h1 := (fsStep_extE env fe st.fs e he).1.dp h
    by_cases hi : (FsHandler.step env fe st.fs e).sock.alive = false ∨
        Life.dcCount (FsHandler.step env fe st.fs e).sock = Life.dcCount st.fs.sock
    · rw [afterEvent_idle env fe _ _ hi]; exact h1
    · have ha' : (FsHandler.step env fe st.fs e).sock.alive = true := by
        cases hx : (FsHandler.step env fe st.fs e).sock.alive
        · exact absurd (Or.inl hx) hi
        · rfl
      have := afterEvent_fire_extE env fe (Life.dcCount st.fs.sock)
        { st with fs := FsHandler.step env fe st.fs e } ha' (fun hx => hi (Or.inr hx))
      exact this.1.1.dp rfl
  · rw [lifeStep_deadSrv env fe st _ hd]; exact h

/-- the event-loop turn destroys a socket whose deletion is scheduled -/
theorem lifeStep_turn_deletes (env : Env) (fe : FsHandler.FsEnv) (st : Life.St)
    (hd : st.deadSrv = false) (ha : st.fs.sock.alive = true) (h : st.fs.sock.delPending = true) :
    (Life.step env fe st (.ev .turn)).fs.sock.alive = false := by
  rw [lifeStep_ev env fe st _ hd]
  obtain ⟨s2, h1, h2⟩ := fsTurn_sock env fe st.fs ha
  have h3 : (FsHandler.step env fe st.fs .turn).sock.alive = false := by
    show (FsHandler.turn env fe st.fs).sock.alive = false
    rw [h2]; exact reap_dead (h1.1.dp h)
  rw [afterEvent_idle env fe _ _ (Or.inl h3)]
  exact h3

theorem lifeStep_inv (env : Env) (fe : FsHandler.FsEnv) (st : Life.St) (ev : Life.LEv)
    (hi : LInv st) : LInv (Life.step env fe st ev) := by
  have hevo := lifeStep_evo env fe st ev
  refine ⟨hevo.df hi.df, hevo.un hi.un, fun ha hdc => ?_, ?_⟩
  · cases hd : st.deadSrv
    · cases ev with
      | killServer =>
        rw [(lifeStep_kill env fe st hd).2.1] at ha
        exact absurd ha (by simp)
      | ev e =>
        by_cases hn : Life.dcCount (Life.step env fe st (.ev e)).fs.sock = Life.dcCount st.fs.sock
        · -- no `dc` during this event: it was there before, so deletion was already scheduled
          have hdc0 := dc_of_same_count hevo.lg hn hdc
          have ha0 := hevo.al ha
          have hp0 := hi.dl ha0 hdc0
          by_cases he : e = .turn
          · subst he
            rw [lifeStep_turn_deletes env fe st hd ha0 hp0] at ha
            exact absurd ha (by simp)
          · exact lifeStep_keeps env fe st e he hp0
        · exact lifeStep_schedules env fe st e ha hn
    · rw [lifeStep_deadSrv env fe st ev hd] at ha
      rw [hi.ds hd] at ha
      exact absurd ha (by simp)
  · intro hds
    cases hd : st.deadSrv
    · cases ev with
      | killServer => exact (lifeStep_kill env fe st hd).2.1
      | ev e =>
        rw [lifeStep_ev env fe st e hd] at hds
        rw [(afterEvent_evo env fe _ _).2] at hds
        exact absurd (hd.symm.trans hds) (by simp)
    · rw [lifeStep_deadSrv env fe st ev hd]
      exact hi.ds hd

theorem foldl_inv (env : Env) (fe : FsHandler.FsEnv) (evs : List Life.LEv) (st : Life.St)
    (hi : LInv st) : LInv (evs.foldl (Life.step env fe) st) := by
  induction evs generalizing st with
  | nil => exact hi
  | cons ev evs ih => exact ih _ (lifeStep_inv env fe st ev hi)

theorem run_inv (env : Env) (fe : FsHandler.FsEnv) (evs : List Life.LEv) :
    LInv (Life.run env fe evs) := foldl_inv env fe evs _ LInv.init


/-! ### both sides closed -/

/-- the peer's close on a live socket: `dc` is in the history afterwards (it is reported now,
    or the transport was unconnected already and it had been reported) -/
theorem step_peerClose_dc (env : Env) (app : App) (s : Sock) (ha : s.alive = true) (hu : U s)
    (hf : s.dcFlag = false) : Obs.dc ∈ (step env app s .peerClose).log := by
  unfold step
  rw [if_neg (by simp [ha])]
  dsimp only
  split
  · rename_i hc
    rcases hu (by simpa using hc) with h | h
    · rw [hf] at h; exact absurd h (by simp)
    · exact h
  · exact (emitDc_ext env app _).2.2.1

theorem lifeStep_peerClose_dc (env : Env) (fe : FsHandler.FsEnv) (st : Life.St) (hi : LInv st)
    (ha : (Life.step env fe st (.ev .peerClose)).fs.sock.alive = true) :
    Obs.dc ∈ (Life.step env fe st (.ev .peerClose)).fs.sock.log := by
  have ha0 := (lifeStep_evo env fe st (.ev .peerClose)).al ha
  cases hd : st.deadSrv
  · rw [lifeStep_ev env fe st _ hd]
    apply (afterEvent_evo env fe _ { st with fs := FsHandler.step env fe st.fs .peerClose }).1.mem
    obtain ⟨k, hk⟩ := fsStep_eq env fe st.fs .peerClose (by simp)
    show Obs.dc ∈ (FsHandler.step env fe st.fs .peerClose).sock.log
    rw [hk, afterRoute_sock]
    unfold stepK
    dsimp only
    rw [if_neg (by simp [ha0])]
    refine step_peerClose_dc env _ _ ?_ ?_ ?_
    · exact ha0
    · exact (note_ext st.fs.sock (Obs.ev k)).un hi.un
    · exact hi.df
  · have := hi.ds hd
    rw [ha0] at this
    exact absurd this (by simp)

/-- the socket is gone, or its `disconnected` was reported -/
def Closing (st : Life.St) : Prop :=
  LInv st ∧ (st.fs.sock.alive = true → Obs.dc ∈ st.fs.sock.log)

theorem Closing.step (env : Env) (fe : FsHandler.FsEnv) {st : Life.St} (ev : Life.LEv)
    (h : Closing st) : Closing (Life.step env fe st ev) :=
  ⟨lifeStep_inv env fe st ev h.1, fun ha =>
    (lifeStep_evo env fe st ev).mem (h.2 ((lifeStep_evo env fe st ev).al ha))⟩

theorem Closing.turn (env : Env) (fe : FsHandler.FsEnv) {st : Life.St} (h : Closing st) :
    (Life.step env fe st (.ev .turn)).fs.sock.alive = false := by
  cases ha : st.fs.sock.alive
  · rw [lifeStep_dead env fe st _ ha]; exact ha
  · cases hs : st.deadSrv
    · exact lifeStep_turn_deletes env fe st hs ha (h.1.dl ha (h.2 ha))
    · have := h.1.ds hs
      rw [ha] at this
      exact absurd this (by simp)


theorem Closing.foldl (env : Env) (fe : FsHandler.FsEnv) (evs : List Life.LEv) {st : Life.St}
    (h : Closing st) : Closing (evs.foldl (Life.step env fe) st) := by
  induction evs generalizing st with
  | nil => exact h
  | cons ev evs ih => exact ih (h.step env fe ev)

theorem Closing.peerClose (env : Env) (fe : FsHandler.FsEnv) {st : Life.St} (h : LInv st) :
    Closing (Life.step env fe st (.ev .peerClose)) :=
  ⟨lifeStep_inv env fe st _ h, lifeStep_peerClose_dc env fe st h⟩

/-! ### the history rewritten without the event markers (what the driver does to the closing events) -/

def relog (st : Life.St) (l : List Obs) : Life.St :=
  { st with fs := { st.fs with sock := { st.fs.sock with log := l } } }

theorem Closing.relog {st : Life.St} (h : Closing st) (l : List Obs)
    (hl : Obs.dc ∈ l ↔ Obs.dc ∈ st.fs.sock.log) : Closing (relog st l) := by
  obtain ⟨⟨h1, h2, h3, h4⟩, h5⟩ := h
  refine ⟨⟨h1, fun hc => ?_, fun ha hd => h3 ha (hl.mp hd), h4⟩, fun ha => hl.mpr (h5 ha)⟩
  rcases h2 hc with h | h
  · exact Or.inl h
  · exact Or.inr (hl.mpr h)

/-- a step of the composed model whose event marker is dropped from the history -/
def quietStep (env : Env) (fe : FsHandler.FsEnv) (st : Life.St) (e : Life.LEv) : Life.St :=
  let before := st.fs.sock.log.length
  let st' := Life.step env fe st e
  let added := st'.fs.sock.log.drop before
  let kept := added.filter fun o => match o with | .ev _ => false | _ => true
  { st' with fs := { st'.fs with sock := { st'.fs.sock with log := st.fs.sock.log ++ kept } } }

theorem quietStep_eq (env : Env) (fe : FsHandler.FsEnv) (st : Life.St) (e : Life.LEv) :
    ∃ l, quietStep env fe st e = relog (Life.step env fe st e) l ∧
      (Obs.dc ∈ l ↔ Obs.dc ∈ (Life.step env fe st e).fs.sock.log) := by
  refine ⟨_, rfl, ?_⟩
  obtain ⟨t, ht⟩ := (lifeStep_evo env fe st e).lg
  rw [ht, List.drop_left]
  simp [List.mem_filter]

theorem quietStep_alive (env : Env) (fe : FsHandler.FsEnv) (st : Life.St) (e : Life.LEv) :
    (quietStep env fe st e).fs.sock.alive = (Life.step env fe st e).fs.sock.alive ∧
    (quietStep env fe st e).deadSrv = (Life.step env fe st e).deadSrv := ⟨rfl, rfl⟩

theorem Closing.quietStep (env : Env) (fe : FsHandler.FsEnv) {st : Life.St} (e : Life.LEv)
    (h : Closing st) : Closing (quietStep env fe st e) := by
  obtain ⟨l, h1, h2⟩ := quietStep_eq env fe st e
  rw [h1]
  exact (h.step env fe e).relog l h2

theorem Closing.quietPeerClose (env : Env) (fe : FsHandler.FsEnv) {st : Life.St} (h : LInv st) :
    Closing (C10L.quietStep env fe st (.ev .peerClose)) := by
  obtain ⟨l, h1, h2⟩ := quietStep_eq env fe st (.ev .peerClose)
  rw [h1]
  exact (Closing.peerClose env fe h).relog l h2

end Qhttp.C10L
