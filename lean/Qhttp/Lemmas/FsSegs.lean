import Qhttp.Model.Fs
import Qhttp.Lemmas.BytesLemmas
import Qhttp.Lemmas.C09Auth
/-
  C07 helper lemmas, part 1: `Fs.segs` (split at '/') structurally, `joinSegs`, and the
  segment stack `normStack`.
-/
namespace Qhttp
namespace Fs

/-- put a byte in front of the first segment -/
def consHead (c : UInt8) : List Bytes → List Bytes
  | [] => [[c]]
  | h :: t => (c :: h) :: t

theorem segs_eq_splitChar (p : Bytes) : segs p = splitChar 47 p := rfl

theorem segs_nil : segs [] = [[]] := by decide

theorem segs_ne_nil (p : Bytes) : segs p ≠ [] := splitChar_ne_nil _ _

theorem segs_cons_slash (xs : Bytes) : segs (47 :: xs) = [] :: segs xs := by
  rw [segs_eq_splitChar, splitChar_eq, breakOn_of_prefix (by simp)]
  rfl

theorem segs_cons_other {c : UInt8} (hc : c ≠ 47) (xs : Bytes) :
    segs (c :: xs) = consHead c (segs xs) := by
  rw [segs_eq_splitChar, segs_eq_splitChar, splitChar_eq, splitChar_eq 47 xs]
  have hnp : ¬ [(47 : UInt8)] <+: c :: xs := by
    intro h
    simp at h
    exact hc h.symm
  rw [breakOn_cons_of_not_prefix hnp]
  cases breakOn [47] xs with
  | none => rfl
  | some p => rfl

/-- structural recursion equation of `segs` -/
theorem segs_cons (c : UInt8) (xs : Bytes) :
    segs (c :: xs) = if c = 47 then [] :: segs xs else consHead c (segs xs) := by
  by_cases hc : c = 47
  · subst hc; simp [segs_cons_slash]
  · simp [hc, segs_cons_other hc]

theorem consHead_append (c : UInt8) {l : List Bytes} (hl : l ≠ []) (m : List Bytes) :
    consHead c (l ++ m) = consHead c l ++ m := by
  cases l with
  | nil => exact absurd rfl hl
  | cons h t => rfl

/-- cutting at a slash -/
theorem segs_append_slash (a b : Bytes) : segs (a ++ 47 :: b) = segs a ++ segs b := by
  induction a with
  | nil => simp [segs_cons_slash, segs_nil]
  | cons c a ih =>
    rw [List.cons_append, segs_cons, segs_cons, ih]
    by_cases hc : c = 47
    · simp [hc]
    · simp only [hc, if_false]
      exact consHead_append c (segs_ne_nil a) _

theorem segs_append_single_slash (a : Bytes) : segs (a ++ [47]) = segs a ++ [[]] := by
  rw [segs_append_slash, segs_nil]

/-- no segment contains a slash -/
theorem segs_no_slash (p : Bytes) : ∀ s ∈ segs p, (47 : UInt8) ∉ s := by
  induction p with
  | nil => simp [segs_nil]
  | cons c p ih =>
    rw [segs_cons]
    by_cases hc : c = 47
    · simp only [hc, if_true]
      intro s hs
      cases hs with
      | head => simp
      | tail _ h => exact ih s h
    · simp only [hc, if_false]
      cases hseg : segs p with
      | nil => exact absurd hseg (segs_ne_nil p)
      | cons h t =>
        rw [hseg] at ih
        intro s hs
        simp only [consHead, List.mem_cons] at hs
        rcases hs with rfl | hs
        · intro hm
          simp only [List.mem_cons] at hm
          rcases hm with hm | hm
          · exact hc hm.symm
          · exact ih h (by simp) hm
        · exact ih s (by simp [hs])

/-- a slash-free string is its own single segment -/
theorem segs_of_no_slash {s : Bytes} (h : (47 : UInt8) ∉ s) : segs s = [s] := by
  induction s with
  | nil => exact segs_nil
  | cons c s ih =>
    have hc : c ≠ 47 := fun e => h (by simp [e])
    rw [segs_cons_other hc, ih (fun hm => h (by simp [hm]))]
    rfl

theorem joinSegs_nil : joinSegs [] = [] := rfl
theorem joinSegs_single (x : Bytes) : joinSegs [x] = x := rfl
theorem joinSegs_cons (x : Bytes) {l : List Bytes} (h : l ≠ []) :
    joinSegs (x :: l) = x ++ 47 :: joinSegs l := by
  unfold joinSegs
  rw [joinWith_cons h]
  simp [SLASH]

/-- joining the segments gives back the path -/
theorem joinSegs_segs (p : Bytes) : joinSegs (segs p) = p := join_splitChar 47 p

/-- splitting a join of slash-free pieces gives back the pieces -/
theorem segs_joinSegs {l : List Bytes} (hne : l ≠ []) (h : ∀ s ∈ l, (47 : UInt8) ∉ s) :
    segs (joinSegs l) = l := by
  induction l with
  | nil => exact absurd rfl hne
  | cons x l ih =>
    cases l with
    | nil => rw [joinSegs_single]; exact segs_of_no_slash (h x (by simp))
    | cons y l =>
      rw [joinSegs_cons x (by simp), segs_append_slash, ih (by simp) (fun s hs => h s (by simp [hs])),
        segs_of_no_slash (h x (by simp))]
      rfl

/-! ### names -/

/-- a real name: not empty, not `.`, not `..` -/
def isName (s : Bytes) : Bool := !s.isEmpty && s != DOT && s != DOTDOT

theorem DOTDOT_ne_nil : DOTDOT ≠ [] := by decide
theorem DOTDOT_ne_DOT : DOTDOT ≠ DOT := by decide
theorem DOTDOT_no_slash : (47 : UInt8) ∉ DOTDOT := by decide

theorem isName_iff {s : Bytes} : isName s = true ↔ s ≠ [] ∧ s ≠ DOT ∧ s ≠ DOTDOT := by
  unfold isName
  cases s with
  | nil => simp
  | cons c s => simp

theorem normStack_nil (acc : List Bytes) : normStack acc [] = acc.reverse := rfl

theorem normStack_cons (acc : List Bytes) (s : Bytes) (rest : List Bytes) :
    normStack acc (s :: rest) =
      if s.isEmpty || s == DOT then normStack acc rest
      else if s == DOTDOT then
        (match acc with
         | top :: below => if top == DOTDOT then normStack (s :: acc) rest else normStack below rest
         | [] => normStack [s] rest)
      else normStack (s :: acc) rest := by
  rw [normStack.eq_def]; rfl

theorem normStack_skip {s : Bytes} (h : s = [] ∨ s = DOT) (acc rest : List Bytes) :
    normStack acc (s :: rest) = normStack acc rest := by
  rw [normStack_cons]
  have : (s.isEmpty || s == DOT) = true := by
    rcases h with rfl | rfl
    · rfl
    · simp
  rw [if_pos this]

theorem normStack_name {s : Bytes} (h : isName s = true) (acc rest : List Bytes) :
    normStack acc (s :: rest) = normStack (s :: acc) rest := by
  obtain ⟨h1, h2, h3⟩ := isName_iff.1 h
  rw [normStack_cons]
  have e1 : (s.isEmpty || s == DOT) = false := by
    cases s with
    | nil => exact absurd rfl h1
    | cons c s => simpa using h2
  rw [e1]
  have e2 : (s == DOTDOT) = false := by simpa using h3
  simp [e2]

theorem normStack_dd_nil (rest : List Bytes) :
    normStack [] (DOTDOT :: rest) = normStack [DOTDOT] rest := by
  rw [normStack_cons]; rfl

theorem normStack_dd_dd (below rest : List Bytes) :
    normStack (DOTDOT :: below) (DOTDOT :: rest) = normStack (DOTDOT :: DOTDOT :: below) rest := by
  rw [normStack_cons]; rfl

theorem normStack_dd_pop {top : Bytes} (h : top ≠ DOTDOT) (below rest : List Bytes) :
    normStack (top :: below) (DOTDOT :: rest) = normStack below rest := by
  rw [normStack_cons]
  have e : (top == DOTDOT) = false := by simpa using h
  simp only [e]
  rfl

/-- every segment is empty, `.`, `..` or a name -/
theorem seg_cases (s : Bytes) : (s = [] ∨ s = DOT) ∨ s = DOTDOT ∨ isName s = true := by
  by_cases h1 : s = []
  · exact .inl (.inl h1)
  · by_cases h2 : s = DOT
    · exact .inl (.inr h2)
    · by_cases h3 : s = DOTDOT
      · exact .inr (.inl h3)
      · exact .inr (.inr (isName_iff.2 ⟨h1, h2, h3⟩))

end Fs
end Qhttp
