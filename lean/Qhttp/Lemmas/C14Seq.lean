import Qhttp.Lemmas.C14Run
/-
  C14 helper lemmas, part 4: sequential sources before any `stop`.
  `SActive c arr s`: the copy is connected to the source's signals, everything that arrived
  (`arr`, quiet arrivals included) and was not lost to a failed write has been written or still
  sits in the source's buffer (quiet arrivals since the last read), no completion yet.
  `SFailed c s`: `start()` gave up (a device did not open): error, completion, nothing else ever.
-/
namespace Qhttp.C14L
open Qhttp Copier

structure SActive (c : Cfg) (arr : Bytes) (s : St) : Prop where
  connected : s.connected = true
  stopped : s.stopped = false
  pending : s.pending ≠ .nextBlock
  nofin : Obs.countP isFin s.log = 0
  pre : written s.log <+: arr
  opn : s.srcClosed = false → written s.log ++ s.buffered = arr
  nowf : c.writeFailAt = none → s.srcClosed = false ∧ Obs.countP isErr s.log = 0
  startok : startFails c = false

structure SFailed (c : Cfg) (s : St) : Prop where
  connected : s.connected = false
  pending : s.pending = .none
  closed : Closed s.log
  wr : written s.log = []
  fails : startFails c = true

def SInv (c : Cfg) (arr : Bytes) (s : St) : Prop := SActive c arr s ∨ SFailed c s

theorem written_snoc_ev (l : List Obs) (k : Nat) : written (l ++ [Obs.ev k]) = written l := by
  rw [written_append, written_ev, List.append_nil]
theorem cntFin_snoc_ev (l : List Obs) (k : Nat) : Obs.countP isFin (l ++ [Obs.ev k]) = Obs.countP isFin l := by
  rw [cnt_append]; simp [cnt_cons]
theorem cntErr_snoc_ev (l : List Obs) (k : Nat) : Obs.countP isErr (l ++ [Obs.ev k]) = Obs.countP isErr l := by
  rw [cnt_append]; simp [cnt_cons]

theorem SActive.marker {c : Cfg} {arr : Bytes} {s : St} (h : SActive c arr s) (k : Nat) :
    SActive c arr (C14L.mk s k) := by
  refine ⟨h.connected, h.stopped, h.pending, ?_, ?_, ?_, ?_, h.startok⟩
  · show Obs.countP isFin (s.log ++ [Obs.ev k]) = 0
    rw [cntFin_snoc_ev]; exact h.nofin
  · show written (s.log ++ [Obs.ev k]) <+: arr
    rw [written_snoc_ev]; exact h.pre
  · show s.srcClosed = false → written (s.log ++ [Obs.ev k]) ++ s.buffered = arr
    rw [written_snoc_ev]; exact h.opn
  · show c.writeFailAt = none → s.srcClosed = false ∧ Obs.countP isErr (s.log ++ [Obs.ev k]) = 0
    rw [cntErr_snoc_ev]; exact h.nowf

theorem SFailed.marker {c : Cfg} {s : St} (h : SFailed c s) (k : Nat) : SFailed c (C14L.mk s k) := by
  refine ⟨h.connected, h.pending, h.closed.snoc_mk k, ?_, h.fails⟩
  show written (s.log ++ [Obs.ev k]) = []
  rw [written_snoc_ev]; exact h.wr

theorem SActive.mono {c : Cfg} {arr : Bytes} {s : St} (h : SActive c arr s) (b : Bytes)
    (hc : s.srcClosed = true) : SActive c (arr ++ b) s := by
  refine ⟨h.connected, h.stopped, h.pending, h.nofin,
    h.pre.trans (List.prefix_append _ _), ?_, h.nowf, h.startok⟩
  intro h0; rw [hc] at h0; cases h0

theorem start_init_seq (c : Cfg) (hseq : c.seq = true) : SInv c [] (start c (mk (init c) 0)) := by
  rw [start_eq]
  cases hsf : startFails c
  · left
    simp only [Bool.false_eq_true, if_false, hseq, if_true]
    refine ⟨rfl, rfl, by simp, ?_, ?_, ?_, ?_, hsf⟩
    · show Obs.countP isFin ([] ++ [Obs.ev 0]) = 0
      simp [cnt_cons]
    · show written ([] ++ [Obs.ev 0]) <+: []
      simp [written]
    · intro _; show written ([] ++ [Obs.ev 0]) ++ [] = []
      simp [written]
    · intro _
      refine ⟨rfl, ?_⟩
      show Obs.countP isErr ([] ++ [Obs.ev 0]) = 0
      simp [cnt_cons]
  · right
    simp only [if_true]
    refine ⟨rfl, rfl, ⟨[Obs.ev 0, err], [], rfl, by simp [cnt_cons], by simp⟩, ?_, hsf⟩
    show written ([] ++ [Obs.ev 0] ++ [err, fin]) = []
    simp [written, err, fin]

/-- `onReadyRead` on an active sequential copy to whose buffer `b` was appended (the piece that
    just arrived, or nothing for the timer-triggered first call and for the drain at end of data):
    everything buffered is handed to the destination, the buffer of an open source is empty -/
theorem onReadyRead_active (c : Cfg) (arr b : Bytes) (s s1 : St) (h : SActive c arr s)
    (hb : s1.buffered = s.buffered ++ b)
    (h1 : s1.connected = s.connected ∧ s1.stopped = s.stopped ∧ s1.srcClosed = s.srcClosed ∧
          s1.log = s.log ∧ s1.pending ≠ .nextBlock) :
    SActive c (arr ++ b) (onReadyRead c s1) ∧
    ((onReadyRead c s1).srcClosed = false → (onReadyRead c s1).buffered = []) := by
  obtain ⟨e1, e2, e3, e4, e5⟩ := h1
  rw [onReadyRead_eq c s1 (by rw [e2]; exact h.stopped)]
  simp only []
  rw [e4, e3, hb]
  cases hf : (c.writeFailAt == some s1.writes)
  · simp only [Bool.false_eq_true, if_false, Bool.or_false]
    refine ⟨⟨by show s1.connected = true; rw [e1]; exact h.connected,
            by show s1.stopped = false; rw [e2]; exact h.stopped, e5, ?_, ?_, ?_, ?_, h.startok⟩, ?_⟩
    · show Obs.countP isFin (s.log ++ wr _) = 0
      rw [cnt_append, h.nofin, wr_fin]
    · show written (s.log ++ wr _) <+: arr ++ b
      rw [written_append, written_wr]
      cases hc : s.srcClosed
      · simp only [Bool.false_eq_true, if_false]
        rw [← List.append_assoc, h.opn hc]; exact List.prefix_refl _
      · simp only [if_true, List.append_nil]
        exact h.pre.trans (List.prefix_append _ _)
    · show s.srcClosed = false → written (s.log ++ wr _) ++ _ = arr ++ b
      intro hc
      rw [written_append, written_wr]
      simp only [hc, Bool.false_eq_true, if_false, List.append_nil]
      rw [← List.append_assoc, h.opn hc]
    · show c.writeFailAt = none → s.srcClosed = false ∧ Obs.countP isErr (s.log ++ wr _) = 0
      intro hn
      rw [cnt_append, wr_err]
      exact h.nowf hn
    · show s.srcClosed = false → _
      intro hc; simp [hc]
  · simp only [if_true, Bool.or_true]
    refine ⟨⟨by show s1.connected = true; rw [e1]; exact h.connected,
            by show s1.stopped = false; rw [e2]; exact h.stopped, e5, ?_, ?_, ?_, ?_, h.startok⟩, ?_⟩
    · show Obs.countP isFin (s.log ++ [err]) = 0
      rw [cnt_append, h.nofin]; simp [cnt_cons]
    · show written (s.log ++ [err]) <+: arr ++ b
      rw [written_append, written_err, List.append_nil]
      exact h.pre.trans (List.prefix_append _ _)
    · intro hc; cases hc
    · intro hn; rw [hn] at hf; cases hf
    · intro hc; cases hc

theorem step_sinv (c : Cfg) (hseq : c.seq = true) (arr : Bytes) (s : St) (k : Nat) (e : Ev)
    (he : e ≠ .start ∧ e ≠ .stop ∧ e ≠ .eof) (h : SInv c arr s) :
    SInv c (arr ++ pieceOf e) (step c (mk s k) e) := by
  obtain ⟨he1, he2, he3⟩ := he
  cases e with
  | start => exact absurd rfl he1
  | stop => exact absurd rfl he2
  | eof => exact absurd rfl he3
  | turn =>
    simp only [pieceOf, List.append_nil]
    rcases h with h | h
    · have hm := h.marker k
      cases hp : (mk s k).pending with
      | none => rw [step_turn_done c s k hp]; exact Or.inl hm
      | nextBlock => exact absurd hp hm.pending
      | readyRead =>
        have : step c (mk s k) .turn = onReadyRead c { mk s k with pending := .none } := by
          simp only [step]; rw [hp]
        rw [this]
        left
        have := (onReadyRead_active c arr [] (mk s k) { mk s k with pending := .none } hm
          (by show (mk s k).buffered = _; rw [List.append_nil])
          ⟨rfl, rfl, rfl, rfl, by simp⟩).1
        rwa [List.append_nil] at this
    · rw [step_turn_done c s k h.pending]; exact Or.inr (h.marker k)
  | arrive b =>
    simp only [pieceOf]
    rcases h with h | h
    · have hm := h.marker k
      left
      cases hc : (mk s k).srcClosed
      · have : step c (mk s k) (.arrive b) = onReadyRead c { mk s k with buffered := (mk s k).buffered ++ b } := by
          simp only [step, hseq, hc, hm.connected]; simp
        rw [this]
        exact (onReadyRead_active c arr b (mk s k) { mk s k with buffered := (mk s k).buffered ++ b } hm
          rfl
          ⟨rfl, rfl, rfl, rfl, hm.pending⟩).1
      · have : step c (mk s k) (.arrive b) = mk s k := by simp [step, hc]
        rw [this]
        exact hm.mono b hc
    · right
      have hm := h.marker k
      have hconn : (mk s k).connected = false := hm.connected
      cases hc : (mk s k).srcClosed
      · have : step c (mk s k) (.arrive b) = { mk s k with buffered := (mk s k).buffered ++ b } := by
          simp [step, hseq, hc, hconn]
        rw [this]
        exact ⟨hm.connected, hm.pending, hm.closed, hm.wr, hm.fails⟩
      · have : step c (mk s k) (.arrive b) = mk s k := by simp [step, hc]
        rw [this]; exact hm
  | arriveQ b =>
    simp only [pieceOf]
    rcases h with h | h
    · have hm := h.marker k
      left
      cases hc : (mk s k).srcClosed
      · have : step c (mk s k) (.arriveQ b) = { mk s k with buffered := (mk s k).buffered ++ b } := by
          simp [step, hseq, hc]
        rw [this]
        refine ⟨hm.connected, hm.stopped, hm.pending, hm.nofin, hm.pre.trans (List.prefix_append _ _), ?_,
          hm.nowf, hm.startok⟩
        intro _
        show written (mk s k).log ++ ((mk s k).buffered ++ b) = arr ++ b
        rw [← List.append_assoc, hm.opn hc]
      · have : step c (mk s k) (.arriveQ b) = mk s k := by simp [step, hc]
        rw [this]
        exact hm.mono b hc
    · right
      have hm := h.marker k
      cases hc : (mk s k).srcClosed
      · have : step c (mk s k) (.arriveQ b) = { mk s k with buffered := (mk s k).buffered ++ b } := by
          simp [step, hseq, hc]
        rw [this]
        exact ⟨hm.connected, hm.pending, hm.closed, hm.wr, hm.fails⟩
      · have : step c (mk s k) (.arriveQ b) = mk s k := by simp [step, hc]
        rw [this]; exact hm

theorem runFrom_sinv (c : Cfg) (hseq : c.seq = true) :
    ∀ (l : List Ev) (s : St) (k : Nat) (arr : Bytes), (∀ e ∈ l, e ≠ .start ∧ e ≠ .stop ∧ e ≠ .eof) →
      SInv c arr s → SInv c (arr ++ arrived l) (runFrom c (s, k) l).1 := by
  intro l
  induction l with
  | nil => intro s k arr _ h; rw [runFrom_nil]; simpa [arrived] using h
  | cons e l ih =>
    intro s k arr hl h
    rw [runFrom_cons, arrived_cons, ← List.append_assoc]
    exact ih _ _ _ (fun e he => hl e (List.mem_cons_of_mem _ he))
      (step_sinv c hseq arr s k e (hl e (List.mem_cons_self ..)) h)

/-- a sequential copy after `start` and arrivals/turns -/
theorem run_sinv (c : Cfg) (hseq : c.seq = true) (r : List Ev)
    (hrs : ∀ e ∈ r, e ≠ .start ∧ e ≠ .stop ∧ e ≠ .eof) :
    SInv c (arrived r) (run c (.start :: r)) := by
  rw [run_eq, runFrom_cons]
  have := runFrom_sinv c hseq r _ 1 [] hrs (start_init_seq c hseq)
  rwa [List.nil_append] at this

theorem SInv.prefix {c : Cfg} {arr : Bytes} {s : St} (h : SInv c arr s) : written s.log <+: arr := by
  rcases h with h | h
  · exact h.pre
  · rw [h.wr]; exact List.nil_prefix

/-- the final `eof` of a sequential copy -/
theorem run_seq_eof (c : Cfg) (hseq : c.seq = true) (r : List Ev)
    (hrs : ∀ e ∈ r, e ≠ .start ∧ e ≠ .stop ∧ e ≠ .eof) :
    Closed (run c (.start :: (r ++ [.eof]))).log ∧
    written (run c (.start :: (r ++ [.eof]))).log <+: arrived r ∧
    (anyFault c = false →
      written (run c (.start :: (r ++ [.eof]))).log = arrived r ∧
      Obs.countP isErr (run c (.start :: (r ++ [.eof]))).log = 0 ∧
      ∃ L, (run c (.start :: (r ++ [.eof]))).log = L ++ [fin]) := by
  have hinv := run_sinv c hseq r hrs
  have hrun : run c (.start :: (r ++ [.eof])) =
      step c (mk (run c (.start :: r)) (r.length + 1)) .eof := by
    rw [run_eq, run_eq, ← List.cons_append, runFrom_append]
    have hk := runFrom_counter c (.start :: r) (init c) 0
    generalize runFrom c (init c, 0) (.start :: r) = sk at hk ⊢
    obtain ⟨s, k⟩ := sk
    simp only [Nat.zero_add, List.length_cons] at hk; subst hk
    rfl
  rw [hrun]
  generalize run c (.start :: r) = s at hinv
  generalize r.length + 1 = k
  rcases hinv with h | h
  · have hm := h.marker k
    -- what remains in the buffer (quiet arrivals) is drained first
    have hdrain : ∃ s2 : St, step c (mk s k) .eof = { s2 with log := s2.log ++ [fin] } ∧
        SActive c (arrived r) s2 ∧ (s2.srcClosed = false → s2.buffered = []) := by
      have hst : step c (mk s k) .eof = onReadChannelFinished c (mk s k) := by
        simp [step, hseq, hm.connected]
      rw [hst]
      unfold onReadChannelFinished
      simp only []
      split
      · rename_i hcond
        have := onReadyRead_active c (arrived r) [] (mk s k) (mk s k) hm (by rw [List.append_nil])
          ⟨rfl, rfl, rfl, rfl, hm.pending⟩
        rw [List.append_nil] at this
        exact ⟨_, rfl, this.1, this.2⟩
      · rename_i hcond
        refine ⟨_, rfl, hm, ?_⟩
        intro hc
        simp only [hc, Bool.not_false, Bool.true_and, bne_iff_ne, ne_eq, Decidable.not_not,
          List.length_eq_zero_iff] at hcond
        exact hcond
    obtain ⟨s2, hst, h2, hbuf⟩ := hdrain
    rw [hst]
    have hw : written (s2.log ++ [fin]) = written s2.log := by
      rw [written_append, written_fin, List.append_nil]
    refine ⟨Closed.of_snoc_fin h2.nofin, by show written (s2.log ++ [fin]) <+: _; rw [hw]; exact h2.pre, ?_⟩
    intro hnf
    have hwf : c.writeFailAt = none := by
      simp only [anyFault, Bool.or_eq_false_iff] at hnf
      cases hh : c.writeFailAt <;> simp_all
    obtain ⟨hc, he⟩ := h2.nowf hwf
    refine ⟨?_, ?_, _, rfl⟩
    · show written (s2.log ++ [fin]) = _
      rw [hw]
      have := h2.opn hc
      rw [hbuf hc, List.append_nil] at this
      exact this
    · show Obs.countP isErr (s2.log ++ [fin]) = 0
      rw [cnt_append, he]; simp [cnt_cons]
  · have hm := h.marker k
    have hst : step c (mk s k) .eof = mk s k := by
      simp [step, hseq, hm.connected]
    rw [hst]
    refine ⟨hm.closed, by rw [hm.wr]; exact List.nil_prefix, ?_⟩
    intro hnf
    have hf := h.fails
    rw [startFails_of_noFault c hnf (Or.inl hseq)] at hf
    cases hf

end Qhttp.C14L
