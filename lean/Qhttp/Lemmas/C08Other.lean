import Qhttp.Lemmas.C08Run
/-
  C07/C08 helper lemmas: the composed run when `process` answers inside the `headersParsed` slot
  (404 for an unserved path, the listing for a directory).
-/
namespace Qhttp
namespace C08L
open Qhttp Qhttp.Sock FsHandler

/-! ### responses completed inside the `headersParsed` slot (404 and directory listings) -/

/-- the socket after `writeHeaders`, `write body`, `close` -/
def answered (s : Sock) (body : Bytes) : Sock :=
  { s with ws := .finished, rs := .finished, hdrRemaining := (headBytes s).length, ioOpen := false,
           qio := [], closeCalled := true,
           tcp := { s.tcp with wire := s.tcp.wire ++ headBytes s ++ body,
                               unacked := s.tcp.unacked + (headBytes s).length + body.length,
                               devOpen := false, conn := .closing },
           log := s.log ++ Obs.w (headBytes s) :: ((if body.isEmpty then [] else [Obs.w body]) ++ [Obs.tc]) }

theorem close_write_headers (s : Sock) (hdev : s.tcp.devOpen = true) (hc : s.tcp.conn = .connected)
    (body : Bytes) :
    Sock.close (tcpWrite (writeHeaders s) body) = answered s body := by
  have hH := C03L.headBytes_ne_nil s
  have hlen : (headBytes s).length ≠ 0 := fun e => hH (List.length_eq_zero_iff.1 e)
  rw [writeHeaders_eq hdev hc]
  by_cases hb : body.isEmpty = true
  · have : body = [] := List.isEmpty_iff.1 hb
    subst this
    rw [C03L.tcpWrite_nil]
    simp [Sock.close, tcpClose, hdev, hc, hlen, answered]
  · have hne : body ≠ [] := by intro e; rw [e] at hb; exact hb rfl
    rw [C03L.tcpWrite_open (by exact hdev) (by exact hc) hne]
    have hu : s.tcp.unacked + (headBytes s).length + body.length ≠ 0 := by omega
    have hdev' : ¬ s.tcp.devOpen = false := by simp [hdev]
    simp [Sock.close, tcpClose, hc, hdev', hne, answered, hb, List.append_assoc]

theorem tcpWrite_frame (s : Sock) (b : Bytes) :
    (tcpWrite s b).alive = s.alive ∧ (tcpWrite s b).dcFlag = s.dcFlag := by
  unfold tcpWrite; split <;> exact ⟨rfl, rfl⟩

theorem writeHeaders_frame (s : Sock) :
    (writeHeaders s).alive = s.alive ∧ (writeHeaders s).dcFlag = s.dcFlag := by
  unfold writeHeaders; exact tcpWrite_frame _ _

/-- `write` as the first output call: the head goes out first -/
theorem api_write_first (env : Env) (app : App) {s : Sock} (ha : s.alive = true) (hd : s.dcFlag = false)
    (hio : s.ioOpen = true) (hws : s.ws = .none) (body : Bytes) :
    api env app s (.write body) = tcpWrite (writeHeaders s) body := by
  have h1 : apiPrim env s (.write body) = tcpWrite (writeHeaders s) body := by
    simp [apiPrim, ha, Sock.write, hio, hws]
  unfold api
  rw [h1, if_neg]
  rw [(tcpWrite_frame _ _).2, (writeHeaders_frame _).2, hd]
  simp

theorem api_close_answered (env : Env) (app : App) {s : Sock} (ha : s.alive = true) (hd : s.dcFlag = false)
    (hdev : s.tcp.devOpen = true) (hc : s.tcp.conn = .connected) (body : Bytes) :
    api env app (tcpWrite (writeHeaders s) body) .close = answered s body := by
  have h1 : apiPrim env (tcpWrite (writeHeaders s) body) .close = Sock.close (tcpWrite (writeHeaders s) body) := by
    have : (tcpWrite (writeHeaders s) body).alive = true := by
      rw [(tcpWrite_frame _ _).1, (writeHeaders_frame _).1, ha]
    simp [apiPrim, this]
  unfold api
  rw [h1, close_write_headers s hdev hc, if_neg]
  show ¬ s.dcFlag = true
  simp [hd]

/-- the calls of `processDirectory` -/
theorem apis_dir (env : Env) (app : App) {s : Sock} (ha : s.alive = true) (hd : s.dcFlag = false)
    (hio : s.ioOpen = true) (hws : s.ws = .none)
    (hdev : s.tcp.devOpen = true) (hc : s.tcp.conn = .connected) (hrh : s.respHeaders = []) (body : Bytes) :
    apis env app s [.hdr Sock.CONTENT_TYPE Sock.TEXT_HTML true,
                    .hdr Sock.CONTENT_LENGTH (natDigits body.length) true, .write body, .close] =
      answered { s with respHeaders := [(Sock.CONTENT_LENGTH, natDigits body.length),
                                        (Sock.CONTENT_TYPE, Sock.TEXT_HTML)] } body := by
  unfold apis
  simp only [List.foldl_cons, List.foldl_nil]
  rw [api_hdr env app ha hd]
  rw [api_hdr env app (s := setHeader s _ _ true) ha hd]
  have e : setHeader (setHeader s Sock.CONTENT_TYPE Sock.TEXT_HTML true) Sock.CONTENT_LENGTH
      (natDigits body.length) true =
      { s with respHeaders := [(Sock.CONTENT_LENGTH, natDigits body.length),
                               (Sock.CONTENT_TYPE, Sock.TEXT_HTML)] } := by
    have k1 : HeaderMap.keyEq Sock.CONTENT_TYPE Sock.CONTENT_LENGTH = false := by decide
    have k2 : HeaderMap.keyLt Sock.CONTENT_TYPE Sock.CONTENT_LENGTH = false := by decide
    simp [setHeader_replace, hrh, HeaderMap.insert, HeaderMap.remove, k1, k2]
  rw [e]
  generalize hs' : ({ s with respHeaders := [(Sock.CONTENT_LENGTH, natDigits body.length),
                                             (Sock.CONTENT_TYPE, Sock.TEXT_HTML)] } : Sock) = s'
  have ha' : s'.alive = true := by rw [← hs']; exact ha
  have hd' : s'.dcFlag = false := by rw [← hs']; exact hd
  have hio' : s'.ioOpen = true := by rw [← hs']; exact hio
  have hws' : s'.ws = .none := by rw [← hs']; exact hws
  have hdev' : s'.tcp.devOpen = true := by rw [← hs']; exact hdev
  have hc' : s'.tcp.conn = .connected := by rw [← hs']; exact hc
  rw [api_write_first env app ha' hd' hio' hws']
  exact api_close_answered env app ha' hd' hdev' hc' body

/-- the response head fields `writeError` sets -/
def errState (env : Env) (s : Sock) (code : Int) : Sock :=
  { s with code := code, reason := statusReason code,
           respHeaders := [(Sock.CONTENT_LENGTH, natDigits (env.errPage code (statusReason code)).length),
                           (Sock.CONTENT_TYPE, Sock.TEXT_HTML)] }

/-- `writeError` -/
theorem api_err (env : Env) (app : App) {s : Sock} (ha : s.alive = true) (hd : s.dcFlag = false)
    (hio : s.ioOpen = true)
    (hdev : s.tcp.devOpen = true) (hc : s.tcp.conn = .connected) (hrh : s.respHeaders = []) (code : Int) :
    api env app s (.err code none) =
      answered (errState env s code) (env.errPage code (statusReason code)) := by
  have e : setHeader (setHeader (setStatusCode s code none) Sock.CONTENT_LENGTH
        (natDigits (env.errPage code (statusReason code)).length) true)
      Sock.CONTENT_TYPE Sock.TEXT_HTML true = errState env s code := by
    simp [setHeader_replace, setStatusCode, hrh, HeaderMap.insert, HeaderMap.remove, keyLt_CL_CT, keyEq_CL_CT,
      errState]
  have hw : Sock.write (writeHeaders (errState env s code)) (env.errPage code (statusReason code)) =
      tcpWrite (writeHeaders (errState env s code)) (env.errPage code (statusReason code)) := by
    rw [writeHeaders_eq (by exact hdev) (by exact hc)]
    simp [Sock.write, errState, hio]
  have h1 : apiPrim env s (.err code none) =
      Sock.close (tcpWrite (writeHeaders (errState env s code)) (env.errPage code (statusReason code))) := by
    simp only [apiPrim, ha, Bool.not_true, Bool.false_eq_true, if_false, writeError]
    have hc' : (setStatusCode s code none).code = code := rfl
    have hr' : (setStatusCode s code none).reason = statusReason code := rfl
    rw [hc', hr', e, hw]
  unfold api
  rw [h1, close_write_headers _ (by exact hdev) (by exact hc), if_neg]
  show ¬ s.dcFlag = true
  simp [hd]

/-- the socket when the `headersParsed` slot returns -/
def hpResult (env : Env) (fe : FsEnv) (rh : Parser.ReqHead) (p : Bytes) (q : List (Bytes × Bytes)) : Sock :=
  apis env (app fe) (hpSock rh p q) (hpOps fe (hpSock rh p q))

/-- the `feed` event for any accepted request head without Content-Length and nothing after the
    blank line, whatever `process` decides -/
theorem onReadyRead_hp (env : Env) (fe : FsEnv) (req head : Bytes) (rh : Parser.ReqHead)
    (p : Bytes) (q : List (Bytes × Bytes))
    (hreq : breakOn CRLF2 req = some (head, []))
    (hparse : Parser.parseRequestHeaders head [] = some rh)
    (hurl : env.url rh.rawPath = some (p, q))
    (hcl : HeaderMap.contains Sock.CONTENT_LENGTH rh.headers = false) :
    onReadyRead env (app fe) (preSock req) =
      (match (hpResult env fe rh p q).rs with
       | .data => readDataSlot env (app fe) (hpResult env fe rh p q)
       | .finished => { hpResult env fe rh p q with readBuffer := [] }
       | .headers => hpResult env fe rh p q) := by
  have hrd := C02.readHeaders_ok env (app fe)
    { ({} : Sock) with log := [Obs.ev 0, Obs.ev 1], initPending := true, readBuffer := req }
    head [] rh p q hreq hparse hurl
  have hst : C02.hpStateG
      { ({} : Sock) with log := [Obs.ev 0, Obs.ev 1], initPending := true, readBuffer := req } rh p q [] =
      { hpSock rh p q with log := [Obs.ev 0, Obs.ev 1] } := by
    unfold C02.hpStateG
    simp only [Sock.CONTENT_LENGTH_KEY, hcl]
    rfl
  rw [hst] at hrd
  have hemit : emit env (app fe) { hpSock rh p q with log := [Obs.ev 0, Obs.ev 1] } .hp
      ((app fe).onHp { hpSock rh p q with log := [Obs.ev 0, Obs.ev 1] }) = hpResult env fe rh p q := rfl
  rw [hemit] at hrd
  unfold onReadyRead preSock
  simp only [List.nil_append]
  simp only [↓reduceIte, reduceCtorEq]
  have hrd' : readHeaders env (app fe)
      { readBuffer := req, initPending := true, log := [Obs.ev 0, Obs.ev 1] } =
      (hpResult env fe rh p q, true) := hrd
  rw [hrd']
  simp only [Bool.not_true, Bool.false_eq_true, if_false]
  rfl

/-- the socket after a response completed inside the slot: head fields `c`, `rsn`, `hdrs` -/
def ansSock (rh : Parser.ReqHead) (p : Bytes) (q : List (Bytes × Bytes)) (c : Int) (rsn : Bytes)
    (hdrs : HeaderMap) (body : Bytes) : Sock :=
  answered { hpSock rh p q with code := c, reason := rsn, respHeaders := hdrs } body

/-- the head bytes of such a response -/
def ansHead (c : Int) (rsn : Bytes) (hdrs : HeaderMap) : Bytes :=
  headBytes { ({} : Sock) with code := c, reason := rsn, respHeaders := hdrs }

theorem shut_ansSock (rh : Parser.ReqHead) (p : Bytes) (q : List (Bytes × Bytes)) (c : Int) (rsn : Bytes)
    (hdrs : HeaderMap) (body : Bytes) : C03L.Shut (ansSock rh p q c rsn hdrs body) := by
  refine ⟨⟨rfl, rfl, rfl, by simp [ansSock, answered]⟩, rfl, rfl, ?_⟩
  show C03L.LogShut (([Obs.ev 0, Obs.ev 1, Obs.hp] ++ Obs.w (ansHead c rsn hdrs) ::
      (if body.isEmpty then [] else [Obs.w body])) ++ [Obs.tc])
  apply C03L.LogOpen.close
  intro o ho
  by_cases hb : body.isEmpty = true
  · simp only [hb, if_true, List.cons_append, List.nil_append, List.mem_cons, List.not_mem_nil, or_false] at ho
    rcases ho with rfl | rfl | rfl | rfl <;> rfl
  · simp only [hb, Bool.false_eq_true, if_false, List.cons_append, List.nil_append, List.mem_cons,
      List.not_mem_nil, or_false] at ho
    rcases ho with rfl | rfl | rfl | rfl | rfl <;> rfl

theorem chunks_ansSock (rh : Parser.ReqHead) (p : Bytes) (q : List (Bytes × Bytes)) (c : Int) (rsn : Bytes)
    (hdrs : HeaderMap) (body : Bytes) :
    (C03L.chunks (ansSock rh p q c rsn hdrs body).log).flatten = ansHead c rsn hdrs ++ body := by
  show (C03L.chunks ([Obs.ev 0, Obs.ev 1, Obs.hp] ++ Obs.w (ansHead c rsn hdrs) ::
      ((if body.isEmpty then [] else [Obs.w body]) ++ [Obs.tc]))).flatten = _
  by_cases hb : body.isEmpty = true
  · have : body = [] := List.isEmpty_iff.1 hb
    subst this
    simp [C03L.chunks]
  · simp [hb, C03L.chunks]

/-- the `feed` event when the slot completes the response and no copier is created -/
theorem step_feed_answered (env : Env) (fe : FsEnv) (req head : Bytes) (rh : Parser.ReqHead)
    (p : Bytes) (q : List (Bytes × Bytes)) (c : Int) (rsn : Bytes) (hdrs : HeaderMap) (body : Bytes)
    (hreq : breakOn CRLF2 req = some (head, []))
    (hparse : Parser.parseRequestHeaders head [] = some rh)
    (hurl : env.url rh.rawPath = some (p, q))
    (hcl : HeaderMap.contains Sock.CONTENT_LENGTH rh.headers = false)
    (hres : hpResult env fe rh p q = ansSock rh p q c rsn hdrs body)
    (hnc : copierCfg fe (hpSock rh p q) = none) :
    FsHandler.step env fe s0 (.feed req) =
      { sock := ansSock rh p q c rsn hdrs body, cop := none, routed := true } := by
  have h1 : Sock.stepK env (app fe) (s0.sock, 1) (.feed req) =
      (onReadyRead env (app fe) (preSock req), 2) := rfl
  have h2 : onReadyRead env (app fe) (preSock req) = ansSock rh p q c rsn hdrs body := by
    rw [onReadyRead_hp env fe req head rh p q hreq hparse hurl hcl, hres]
    rfl
  have h3 : FsHandler.step env fe s0 (.feed req) =
      afterRoute fe 0 { s0 with sock := (Sock.stepK env (app fe) (s0.sock, 1) (.feed req)).1 } :=
    step_nonturn env fe s0 (.feed req) (by simp)
  rw [h3, h1, h2]
  unfold afterRoute
  have hc : Obs.countP Obs.isHp (ansSock rh p q c rsn hdrs body).log = 1 := by
    show Obs.countP Obs.isHp ([Obs.ev 0, Obs.ev 1, Obs.hp] ++ Obs.w (ansHead c rsn hdrs) ::
      ((if body.isEmpty then [] else [Obs.w body]) ++ [Obs.tc])) = 1
    by_cases hb : body.isEmpty = true <;> simp [hb, Obs.countP] <;> rfl
  have hcfg : copierCfg fe (ansSock rh p q c rsn hdrs body) = none := hnc
  simp only [s0, hc, hcfg]
  rfl

/-- the composed run for such a response: the wire carries the head and the body -/
theorem run_wire_answered (env : Env) (fe : FsEnv) (req head : Bytes) (rh : Parser.ReqHead)
    (p : Bytes) (q : List (Bytes × Bytes)) (c : Int) (rsn : Bytes) (hdrs : HeaderMap) (body : Bytes)
    (tail : List Event)
    (hreq : breakOn CRLF2 req = some (head, []))
    (hparse : Parser.parseRequestHeaders head [] = some rh)
    (hurl : env.url rh.rawPath = some (p, q))
    (hcl : HeaderMap.contains Sock.CONTENT_LENGTH rh.headers = false)
    (hres : hpResult env fe rh p q = ansSock rh p q c rsn hdrs body)
    (hnc : copierCfg fe (hpSock rh p q) = none)
    (ht : tail.all C03L.allowedEv = true) :
    Obs.wire (FsHandler.run env fe (.new :: .feed req :: tail)).sock.log = ansHead c rsn hdrs ++ body := by
  have h1 := step_feed_answered env fe req head rh p q c rsn hdrs body hreq hparse hurl hcl hres hnc
  have hrun : FsHandler.run env fe (.new :: .feed req :: tail) =
      tail.foldl (FsHandler.step env fe)
        { sock := ansSock rh p q c rsn hdrs body, cop := none, routed := true } := by
    unfold FsHandler.run
    rw [List.foldl_cons, step_new, List.foldl_cons, h1]
  rw [hrun]
  have hinv : TInv (C03L.chunks (ansSock rh p q c rsn hdrs body).log)
      { sock := ansSock rh p q c rsn hdrs body, cop := none, routed := true } :=
    ⟨shut_ansSock _ _ _ _ _ _ _, rfl, fun _ _ h => (by cases h), rfl⟩
  have hfin := tinv_foldl env fe tail ht hinv
  rw [C03L.wire_eq_chunks, hfin.chunks, chunks_ansSock]

/-! ### the two plans -/

theorem hpOps_notFound {fe : FsEnv} {s : Sock} (hp : plan fe (s.path.drop 1) s.reqHeaders = .notFound) :
    hpOps fe s = [.err 404 none] ∧ copierCfg fe s = none := by
  unfold hpOps copierCfg
  rw [hp]
  exact ⟨rfl, rfl⟩

theorem hpOps_dir {fe : FsEnv} {s : Sock} {loc : List Bytes} {d : Bytes}
    (hp : plan fe (s.path.drop 1) s.reqHeaders = .dir loc d) :
    hpOps fe s = [.hdr Sock.CONTENT_TYPE Sock.TEXT_HTML true,
                  .hdr Sock.CONTENT_LENGTH (natDigits (fe.listing loc d).length) true,
                  .write (fe.listing loc d), .close] ∧ copierCfg fe s = none := by
  unfold hpOps copierCfg
  rw [hp]
  exact ⟨rfl, rfl⟩

/-- head fields of the 404 response -/
def nfHdrs (env : Env) : HeaderMap :=
  [(Sock.CONTENT_LENGTH, natDigits (env.errPage 404 (statusReason 404)).length),
   (Sock.CONTENT_TYPE, Sock.TEXT_HTML)]

/-- head fields of a listing response -/
def dirHdrs (body : Bytes) : HeaderMap :=
  [(Sock.CONTENT_LENGTH, natDigits body.length), (Sock.CONTENT_TYPE, Sock.TEXT_HTML)]

theorem hpResult_notFound (env : Env) (fe : FsEnv) (rh : Parser.ReqHead) (p : Bytes) (q : List (Bytes × Bytes))
    (hp : plan fe (p.drop 1) rh.headers = .notFound) :
    hpResult env fe rh p q =
      ansSock rh p q 404 (statusReason 404) (nfHdrs env) (env.errPage 404 (statusReason 404)) := by
  unfold hpResult
  rw [(hpOps_notFound (s := hpSock rh p q) hp).1]
  show api env (app fe) (hpSock rh p q) (.err 404 none) = _
  rw [api_err env (app fe) (s := hpSock rh p q) rfl rfl rfl rfl rfl rfl 404]
  rfl

theorem hpResult_dir (env : Env) (fe : FsEnv) (rh : Parser.ReqHead) (p : Bytes) (q : List (Bytes × Bytes))
    (loc : List Bytes) (d : Bytes)
    (hp : plan fe (p.drop 1) rh.headers = .dir loc d) :
    hpResult env fe rh p q =
      ansSock rh p q 200 (lit ['O','K']) (dirHdrs (fe.listing loc d)) (fe.listing loc d) := by
  unfold hpResult
  rw [(hpOps_dir (s := hpSock rh p q) hp).1]
  rw [apis_dir env (app fe) (s := hpSock rh p q) rfl rfl rfl rfl rfl rfl rfl]
  rfl

end C08L
end Qhttp
