import Qhttp.Lemmas.C15Slot
import Qhttp.Lemmas.C09Run
import Qhttp.Props.C01
/-
  C15 — the phases of a run of the slot application in which the application can still act:
  `PH` (head incomplete) and `P2` (invocation deferred until the declared body is readable),
  and what `onReadyRead` makes of them.
-/
namespace Qhttp.C15L
open Qhttp SlotHandler

/-- the control fields that decide whether a response can be written -/
def ctl (s : Sock) : Bool × Bool × Bool × Bool × Bool × Bool × WState × HeaderMap :=
  (s.alive, s.ioOpen, s.tcp.devOpen, s.dcFlag, s.delPending, s.closeCalled, s.ws, s.respHeaders)

/-- nothing was written, closed or invoked yet; `c`: the transport is still connected -/
structure Opn (c : Bool) (s : Sock) : Prop where
  ctl : ctl s = (true, true, true, false, false, false, .none, [])
  conn : c = true → s.tcp.conn = .connected
  slots : slotsL s.log = []
  wire : Obs.wire s.log = []

section
variable {c : Bool} {s s' : Sock}

theorem Opn.alive (h : Opn c s) : s.alive = true := congrArg (·.1) h.ctl
theorem Opn.ioOpen (h : Opn c s) : s.ioOpen = true := congrArg (·.2.1) h.ctl
theorem Opn.devOpen (h : Opn c s) : s.tcp.devOpen = true := congrArg (·.2.2.1) h.ctl
theorem Opn.dcFlag (h : Opn c s) : s.dcFlag = false := congrArg (·.2.2.2.1) h.ctl
theorem Opn.delPending (h : Opn c s) : s.delPending = false := congrArg (·.2.2.2.2.1) h.ctl
theorem Opn.closeCalled (h : Opn c s) : s.closeCalled = false := congrArg (·.2.2.2.2.2.1) h.ctl
theorem Opn.ws (h : Opn c s) : s.ws = .none := congrArg (·.2.2.2.2.2.2.1) h.ctl
theorem Opn.respH (h : Opn c s) : s.respHeaders = [] := congrArg (·.2.2.2.2.2.2.2) h.ctl

theorem Opn.same (h : Opn c s) (h1 : C15L.ctl s' = C15L.ctl s) (h2 : s'.tcp.conn = s.tcp.conn)
    (h3 : s'.log = s.log) : Opn c s' :=
  ⟨h1.trans h.ctl, fun hc => h2.trans (h.conn hc), by rw [h3]; exact h.slots, by rw [h3]; exact h.wire⟩

theorem Opn.log1 (h : Opn c s) (o : Obs) (h1 : slotsL [o] = []) (h2 : Obs.wire [o] = []) :
    Opn c { s with log := s.log ++ [o] } :=
  ⟨h.ctl, h.conn, by show slotsL (s.log ++ [o]) = []; rw [slotsL_append, h.slots, h1]; rfl,
    by show Obs.wire (s.log ++ [o]) = []; rw [wire_append, h.wire, h2]; rfl⟩

theorem Opn.weaken (h : Opn c s) : Opn false s := ⟨h.ctl, fun hc => absurd hc (by simp), h.slots, h.wire⟩

theorem Opn.not_silent (h : Opn c s) : ¬ Silent s := by
  intro hs
  rcases hs with hs | hs
  · rw [any_isSlot_false_iff.mpr h.slots] at hs; exact absurd hs (by simp)
  · exact hs h.ws
end

/-! ### an error response on an open, connected socket -/

/-- the error response `writeError(code)` puts on the wire when no response header was set -/
def errWire (env : Env) (code : Int) : Bytes :=
  C09L.errStart code ++ CRLF ++
    Sock.headerLines (C09L.errHeaders [] (natDigits (C09L.errBody env code).length)) ++ CRLF ++
    C09L.errBody env code

theorem close_ws (s : Sock) : (Sock.close s).ws = .finished := by
  unfold Sock.close Sock.tcpClose
  simp only
  split
  · rfl
  · split
    · split <;> rfl
    · rfl

theorem writeError_ws (env : Env) (s : Sock) (code : Int) (r : Option Bytes) :
    (Sock.writeError env s code r).ws = .finished := by
  unfold Sock.writeError; exact close_ws _

/-- `writeError` from application code on an open connected socket: the socket is finished in
    both directions, exactly the error response is on the wire, no slot ran -/
theorem Opn.api_err {s : Sock} (env : Env) (app : App) (h : Opn true s) (code : Int) :
    (Sock.api env app s (.err code none)).rs = .finished ∧
    (Sock.api env app s (.err code none)).ws = .finished ∧
    slotsL (Sock.api env app s (.err code none)).log = [] ∧
    Obs.wire (Sock.api env app s (.err code none)).log = errWire env code := by
  obtain ⟨g1, g2, g3, g4, g5, g6⟩ := C09L.writeError_state env s code h.ioOpen h.devOpen (h.conn rfl)
  have p : Sock.apiPrim env s (.err code none) = Sock.writeError env s code none := by
    simp [Sock.apiPrim, h.alive]
  have e : Sock.api env app s (.err code none) = Sock.writeError env s code none := by
    unfold Sock.api
    simp only [p, g3, h.dcFlag]
    simp
  rw [e]
  refine ⟨g2, writeError_ws env s code none, ?_, ?_⟩
  · rw [g6, slotsL_append, h.slots]
    cases (C09L.errBody env code).isEmpty <;> rfl
  · rw [g6, wire_append, h.wire, h.respH]
    cases hb : (C09L.errBody env code).isEmpty
    · simp [Obs.wire, errWire]
    · have : C09L.errBody env code = [] := by simpa using hb
      simp [Obs.wire, errWire, this]

theorem Opn.api_note {s : Sock} (env : Env) (app : App) (h : Opn c s) (o : Obs) :
    Sock.api env app s (.note o) = { s with log := s.log ++ [o] } :=
  C09L.api_note env app s o h.alive h.dcFlag

/-- the buffer handed to the application: cut at the declared length -/
def cutBuf (t : Int) (rest : Bytes) : Bytes :=
  if t ≥ 0 && (rest.length : Int) > t then rest.take t.toNat else rest

/-- the state in which `headersParsed` is emitted -/
def hpS (s : Sock) (m : Nat) (rp p : Bytes) (hd : HeaderMap) (q : List (Bytes × Bytes)) (buf : Bytes) (t : Int) : Sock :=
  { s with method := m, rawPath := rp, reqHeaders := hd, path := p, query := q,
           readBuffer := buf, rs := .data, total := t }

theorem readHeaders_rej (env : Env) (app : App) (s : Sock) (head rest : Bytes)
    (hrq : s.reqHeaders = []) (hb : breakOn CRLF2 s.readBuffer = some (head, rest))
    (he : C01.expect env head = none) :
    Sock.readHeaders env app s =
      (if (Sock.writeError env s 400 none).dcFlag then Sock.emitDc env app (Sock.writeError env s 400 none)
       else Sock.writeError env s 400 none, false) := by
  unfold Sock.readHeaders
  rw [hb, hrq]
  simp only
  unfold C01.expect at he
  cases hp : Parser.parseRequestHeaders head [] with
  | none => rfl
  | some rh =>
    rw [hp] at he
    simp only at he
    cases hu : env.url rh.rawPath with
    | none => simp only [hu]
    | some pq =>
      rw [hu] at he
      simp at he

theorem readHeaders_acc (env : Env) (app : App) (s : Sock) (head rest : Bytes) (f : Snap)
    (hrq : s.reqHeaders = []) (ht : s.total = -1)
    (hb : breakOn CRLF2 s.readBuffer = some (head, rest))
    (he : C01.expect env head = some f) :
    ∃ m rp p hd q, Sock.readHeaders env app s =
      (Sock.emit env app (hpS s m rp p hd q (cutBuf f.total rest) f.total) .hp
        (app.onHp (hpS s m rp p hd q (cutBuf f.total rest) f.total)), true) := by
  unfold C01.expect at he
  cases hp : Parser.parseRequestHeaders head [] with
  | none => rw [hp] at he; simp at he
  | some rh =>
    rw [hp] at he
    simp only at he
    cases hu : env.url rh.rawPath with
    | none => rw [hu] at he; simp at he
    | some pq =>
      obtain ⟨p, q⟩ := pq
      rw [hu] at he
      simp only [Option.some.injEq] at he
      refine ⟨rh.method, rh.rawPath, p, rh.headers, q.foldl (fun m e => Sock.qmInsert e.1 e.2 m) s.query, ?_⟩
      unfold Sock.readHeaders
      rw [hb, hrq]
      simp only [hp, hu]
      by_cases hc : HeaderMap.contains Sock.CONTENT_LENGTH rh.headers = true
      · have hft : f.total = toLongLong (HeaderMap.value Sock.CONTENT_LENGTH rh.headers) := by
          rw [← he]; simp [hc]
        simp only [Sock.CONTENT_LENGTH_KEY, hc, if_true]
        rw [hft]
        rfl
      · have hft : f.total = -1 := by
          rw [← he]; simp [hc]
        simp only [Sock.CONTENT_LENGTH_KEY, hc]
        rw [hft]
        have : cutBuf (-1) rest = rest := by simp [cutBuf]
        rw [this]
        obtain ⟨tcp, rb, qio, rs, method, rawPath, path, query, reqHeaders, dataRead, total, ws, code, reason,
          respHeaders, hdrRemaining, ioOpen, initPending, closeCalled, dcFlag, delPending, alive, log⟩ := s
        simp only at ht
        subst ht
        rfl

/-! ### the two phases in which the application can still act -/

/-- the head is not complete: everything delivered is in the buffer (`inb`: not yet pulled) -/
structure PH (c : Bool) (B inb : Bytes) (s : Sock) : Prop where
  opn : Opn c s
  rs : s.rs = .headers
  buf : s.readBuffer = B
  inbox : s.tcp.inbox = inb
  reqH : s.reqHeaders = []
  qio : s.qio = []
  dataRead : s.dataRead = 0
  total : s.total = -1
  noHp : s.log.any Obs.isHp = false

/-- `headersParsed` was emitted, the invocation is deferred: fewer than `N` body bytes are
    buffered, nothing was read -/
structure P2 (c : Bool) (N : Nat) (B inb : Bytes) (s : Sock) : Prop where
  opn : Opn c s
  rs : s.rs = .data
  buf : s.readBuffer = B
  inbox : s.tcp.inbox = inb
  qio : s.qio = []
  dataRead : s.dataRead = 0
  total : s.total = (N : Int)
  short : B.length < N
  hp : s.log.any Obs.isHp = true

theorem bytesAvailable_data (s : Sock) (h : s.rs ≠ .headers) :
    Sock.bytesAvailable s = s.readBuffer.length + s.qio.length := by
  simp [Sock.bytesAvailable, h]

section emits
variable (env : Env) (regs : List Reg) (path : QStr)

theorem apis_single (app : App) (s : Sock) (op : ApiOp) : Sock.apis env app s [op] = Sock.api env app s op := rfl

/-- a signal whose reaction is `writeError(code)` -/
theorem emit_err {t : Sock} (h : Opn true t) (o : Obs) (h1 : slotsL [o] = []) (h2 : Obs.wire [o] = [])
    (code : Int) :
    (Sock.emit env (app regs path) t o [.err code none]).rs = .finished ∧
    (Sock.emit env (app regs path) t o [.err code none]).ws = .finished ∧
    slotsL (Sock.emit env (app regs path) t o [.err code none]).log = [] ∧
    Obs.wire (Sock.emit env (app regs path) t o [.err code none]).log = errWire env code := by
  unfold Sock.emit
  rw [apis_single]
  exact (h.log1 o h1 h2).api_err env _ code

/-- a signal whose reaction is `invokeSlot` -/
theorem emit_invoke {t : Sock} (h : Opn true t) (o : Obs) (h1 : slotsL [o] = []) (h2 : Obs.wire [o] = [])
    (m : Reg) :
    (m.good = true → Sock.emit env (app regs path) t o (invoke m t) =
        { t with log := t.log ++ [o] ++ [Obs.slot m.idx (Sock.bytesAvailable t)] }) ∧
    (m.good = false →
      (Sock.emit env (app regs path) t o (invoke m t)).rs = .finished ∧
      (Sock.emit env (app regs path) t o (invoke m t)).ws = .finished ∧
      slotsL (Sock.emit env (app regs path) t o (invoke m t)).log = [] ∧
      Obs.wire (Sock.emit env (app regs path) t o (invoke m t)).log = errWire env 500) := by
  constructor
  · intro hg
    unfold invoke; rw [if_pos hg]
    unfold Sock.emit
    rw [apis_single, (h.log1 o h1 h2).api_note]
  · intro hg
    unfold invoke; rw [if_neg (by simp [hg])]
    exact emit_err env regs path h o h1 h2 500

end emits


/-! ### `readData` in the deferred phase -/

section rds
variable (env : Env) (regs : List Reg) (path : QStr)

/-- `readData` while fewer than `N` bytes are buffered: at most a `readyRead` -/
theorem P2.readDataSlot_short {c : Bool} {N : Nat} {B : Bytes} {t : Sock} (h : P2 c N B [] t) :
    P2 c N B [] (Sock.readDataSlot env (app regs path) t) := by
  rw [C02.readDataSlot_eq]
  have hlen : t.readBuffer.length < N := by rw [h.buf]; exact h.short
  have e1 : C02.cutS t = t := by
    unfold C02.cutS
    rw [if_neg]
    rw [h.total, h.dataRead]
    simp; omega
  rw [e1]
  have h2 : P2 c N B [] (C02.rrS env (app regs path) t) := by
    unfold C02.rrS
    split
    · show P2 c N B [] { t with log := t.log ++ [Obs.rr] }
      exact ⟨h.opn.log1 .rr rfl rfl, h.rs, h.buf, h.inbox, h.qio, h.dataRead, h.total, h.short,
        by show (t.log ++ [Obs.rr]).any Obs.isHp = true; rw [List.any_append, h.hp]; rfl⟩
    · exact h
  generalize C02.rrS env (app regs path) t = t2 at h2
  have hlen2 : t2.readBuffer.length < N := by rw [h2.buf]; exact h2.short
  unfold C02.finS
  rw [if_neg]
  · exact h2
  · rw [h2.total, h2.dataRead]
    simp; omega


theorem onRcf_fire {t : Sock} {m : Reg} (hl : lookup regs path = some m) (hra : m.readAll = true)
    (hs : slotsL t.log = []) (hw : t.ws = .none) (hp : t.log.any Obs.isHp = true) :
    onRcf regs path t = invoke m t := by
  unfold onRcf
  rw [hl]
  simp only
  rw [if_pos]
  simp [hra, any_isSlot_false_iff.mpr hs, hw, hp]

/-- `readData` when the declared length is reached with the invocation still pending -/
theorem readDataSlot_full {N : Nat} {B : Bytes} {t : Sock} {m : Reg}
    (ho : Opn true t) (hrs : t.rs = .data) (hb : t.readBuffer = B) (hN : N ≤ B.length)
    (hq : t.qio = []) (hd : t.dataRead = 0) (ht : t.total = (N : Int))
    (hp : t.log.any Obs.isHp = true)
    (hl : lookup regs path = some m) (hra : m.readAll = true) :
    Quiet (Sock.readDataSlot env (app regs path) t) ∧
    (m.good = true → slotsL (Sock.readDataSlot env (app regs path) t).log = [(m.idx, N)]) ∧
    (m.good = false → slotsL (Sock.readDataSlot env (app regs path) t).log = [] ∧
      Obs.wire (Sock.readDataSlot env (app regs path) t).log = errWire env 500) := by
  rw [C02.readDataSlot_eq]
  -- the cut
  have h1 : Opn true (C02.cutS t) ∧ (C02.cutS t).rs = .data ∧ (C02.cutS t).readBuffer.length = N ∧
      (C02.cutS t).qio = [] ∧ (C02.cutS t).dataRead = 0 ∧ (C02.cutS t).total = (N : Int) ∧
      (C02.cutS t).log.any Obs.isHp = true := by
    unfold C02.cutS
    split
    · refine ⟨ho.same rfl rfl rfl, hrs, ?_, hq, hd, ht, hp⟩
      show (t.readBuffer.take (t.total - t.dataRead).toNat).length = N
      rw [ht, hd, hb]; simp; omega
    · rename_i hc
      refine ⟨ho, hrs, ?_, hq, hd, ht, hp⟩
      rw [ht, hd, hb] at hc
      simp at hc
      rw [hb]; omega
  generalize C02.cutS t = t1 at h1
  obtain ⟨o1, r1, b1, q1, d1, tt1, p1⟩ := h1
  -- readyRead
  have h2 : Opn true (C02.rrS env (app regs path) t1) ∧ (C02.rrS env (app regs path) t1).rs = .data ∧
      (C02.rrS env (app regs path) t1).readBuffer.length = N ∧
      (C02.rrS env (app regs path) t1).qio = [] ∧ (C02.rrS env (app regs path) t1).dataRead = 0 ∧
      (C02.rrS env (app regs path) t1).total = (N : Int) ∧
      (C02.rrS env (app regs path) t1).log.any Obs.isHp = true := by
    unfold C02.rrS
    split
    · exact ⟨o1.log1 .rr rfl rfl, r1, b1, q1, d1, tt1,
        by show (t1.log ++ [Obs.rr]).any Obs.isHp = true; rw [List.any_append, p1]; rfl⟩
    · exact ⟨o1, r1, b1, q1, d1, tt1, p1⟩
  generalize C02.rrS env (app regs path) t1 = t2 at h2
  obtain ⟨o2, r2, b2, q2, d2, tt2, p2⟩ := h2
  -- readChannelFinished
  unfold C02.finS
  rw [if_pos (by rw [tt2, d2, b2]; simp)]
  have o3 : Opn true { t2 with rs := .finished } := o2.same rfl rfl rfl
  have hfire : (app regs path).onRcf { t2 with rs := .finished } = invoke m { t2 with rs := .finished } :=
    onRcf_fire regs path hl hra o3.slots o3.ws p2
  rw [hfire]
  have hav : Sock.bytesAvailable { t2 with rs := .finished } = N := by
    rw [bytesAvailable_data _ (by simp)]
    show t2.readBuffer.length + t2.qio.length = N
    rw [b2, q2]; rfl
  obtain ⟨g, b⟩ := emit_invoke env regs path o3 .rcf rfl rfl m
  cases hg : m.good with
  | true =>
    rw [g hg, hav]
    refine ⟨⟨by simp, Or.inl ?_⟩, fun _ => ?_, fun h => absurd h (by simp)⟩
    · show (t2.log ++ [Obs.rcf] ++ [Obs.slot m.idx N]).any isSlot = true
      simp [isSlot]
    · show slotsL (t2.log ++ [Obs.rcf] ++ [Obs.slot m.idx N]) = _
      rw [slotsL_append, slotsL_append, o2.slots]; rfl
  | false =>
    obtain ⟨b1, b2, b3, b4⟩ := b hg
    refine ⟨⟨by rw [b1]; simp, Or.inr (by rw [b2]; simp)⟩, fun h => absurd h (by simp), fun _ => ⟨b3, b4⟩⟩

end rds

end Qhttp.C15L
