import Qhttp.Model.Proxy
import Qhttp.Lemmas.C02Run
/-
  C12 — the socket under the proxy's application (`onRr = readAll`, nothing else): closed forms
  of the emissions, and what one `onReadyRead` does beyond what the C02 invariant `RInv` says
  (history grows without markers / upstream observations, the parsed request fields are the
  head's and stay, everything readable has been read).
-/
namespace Qhttp.ProxyL
open Qhttp Proxy Qhttp.C02

/-- neither an event marker nor an upstream observation -/
def quiet0 : Obs → Bool | .ev _ => false | .misc _ _ => false | _ => true

/-- the history grew by observations that are neither markers nor upstream observations -/
def Grow (s s' : Sock) : Prop := ∃ l, s'.log = s.log ++ l ∧ l.all quiet0 = true

theorem Grow.refl (s : Sock) : Grow s s := ⟨[], by simp, rfl⟩
theorem Grow.of_log_eq {s s' : Sock} (h : s'.log = s.log) : Grow s s' := ⟨[], by simp [h], rfl⟩
theorem Grow.trans {a b c : Sock} (h1 : Grow a b) (h2 : Grow b c) : Grow a c := by
  obtain ⟨l1, e1, q1⟩ := h1
  obtain ⟨l2, e2, q2⟩ := h2
  exact ⟨l1 ++ l2, by rw [e2, e1, List.append_assoc], by rw [List.all_append, q1, q2]; rfl⟩

/-- the parsed request fields the upstream head is built from -/
def SameReq (s s' : Sock) : Prop :=
  s'.method = s.method ∧ s'.rawPath = s.rawPath ∧ s'.reqHeaders = s.reqHeaders

theorem SameReq.refl (s : Sock) : SameReq s s := ⟨rfl, rfl, rfl⟩
theorem SameReq.trans {a b c : Sock} (h1 : SameReq a b) (h2 : SameReq b c) : SameReq a c :=
  ⟨h2.1.trans h1.1, h2.2.1.trans h1.2.1, h2.2.2.trans h1.2.2⟩

/-- everything the reader may read has been read -/
def Drained (s : Sock) : Prop := s.qio = [] ∧ s.readBuffer = []

/-! ### closed forms of the emissions under `Proxy.app` -/

theorem emit_hp_app (env : Env) (s : Sock) :
    Sock.emit env Proxy.app s .hp (Proxy.app.onHp s) = { s with log := s.log ++ [.hp] } := rfl

theorem emit_rcf_app (env : Env) (s : Sock) :
    Sock.emit env Proxy.app s .rcf (Proxy.app.onRcf s) = { s with log := s.log ++ [.rcf] } := rfl

theorem emit_rr_app (env : Env) (s : Sock) (ha : s.alive = true) (hio : s.ioOpen = true)
    (hrs : s.rs ≠ .headers) (hdc : s.dcFlag = false) :
    Sock.emit env Proxy.app s .rr (Proxy.app.onRr s) =
      { s with qio := [], readBuffer := [], dataRead := s.dataRead + s.readBuffer.length,
               log := s.log ++ [.rr, .rd (s.qio ++ s.readBuffer)] } := by
  have h1 : Sock.emit env Proxy.app s .rr (Proxy.app.onRr s) =
      Sock.api env Proxy.app { s with log := s.log ++ [.rr] } .readAll := rfl
  rw [h1]
  unfold Sock.api Sock.apiPrim
  simp only [ha, Bool.not_true, Bool.false_eq_true, if_false]
  rw [readAll_data _ (by exact hio) (by exact hrs)]
  simp [hdc]

/-- the facts about a socket state the body-phase analysis needs and keeps -/
structure Live (s : Sock) : Prop where
  alive : s.alive = true
  ioOpen : s.ioOpen = true
  dcFlag : s.dcFlag = false

/-- what the data slot does under `Proxy.app`: history quiet, request fields kept, drained -/
theorem readDataSlot_app (env : Env) (s : Sock) (hl : Live s) (hrs : s.rs = .data) (hq : s.qio = []) :
    Grow s (Sock.readDataSlot env Proxy.app s) ∧ SameReq s (Sock.readDataSlot env Proxy.app s) ∧
    Drained (Sock.readDataSlot env Proxy.app s) := by
  rw [readDataSlot_eq]
  -- cutS
  have c1 : Grow s (cutS s) ∧ SameReq s (cutS s) ∧ Live (cutS s) ∧ (cutS s).rs = .data ∧ (cutS s).qio = [] := by
    unfold cutS; split
    · exact ⟨Grow.of_log_eq rfl, ⟨rfl, rfl, rfl⟩, ⟨hl.alive, hl.ioOpen, hl.dcFlag⟩, hrs, hq⟩
    · exact ⟨Grow.refl s, SameReq.refl s, hl, hrs, hq⟩
  obtain ⟨g1, r1, l1, rs1, q1⟩ := c1
  generalize cutS s = s1 at g1 r1 l1 rs1 q1 ⊢
  -- rrS
  have c2 : Grow s1 (rrS env Proxy.app s1) ∧ SameReq s1 (rrS env Proxy.app s1) ∧
      Drained (rrS env Proxy.app s1) := by
    unfold rrS; split
    · rw [emit_rr_app env s1 l1.alive l1.ioOpen (by rw [rs1]; simp) l1.dcFlag]
      exact ⟨⟨_, rfl, by simp [quiet0]⟩, ⟨rfl, rfl, rfl⟩, ⟨rfl, rfl⟩⟩
    · rename_i hlen
      have : s1.readBuffer = [] := by
        cases hb : s1.readBuffer with
        | nil => rfl
        | cons x xs => rw [hb] at hlen; simp at hlen
      exact ⟨Grow.refl s1, SameReq.refl s1, ⟨q1, this⟩⟩
  obtain ⟨g2, r2, d2⟩ := c2
  generalize rrS env Proxy.app s1 = s2 at g2 r2 d2 ⊢
  -- finS
  unfold finS; split
  · rw [emit_rcf_app]
    exact ⟨g1.trans (g2.trans ⟨_, rfl, by simp [quiet0]⟩), r1.trans (r2.trans ⟨rfl, rfl, rfl⟩), d2⟩
  · exact ⟨g1.trans g2, r1.trans r2, d2⟩

/-! ### one `onReadyRead` on the good path -/

/-- the parsed head: what `C01.expect` / `C02.Acc` hide behind their existentials -/
structure Parsed (env : Env) (head : Bytes) (N : Nat) (rh : Parser.ReqHead) : Prop where
  parse : Parser.parseRequestHeaders head [] = some rh
  url : ∃ p q, env.url rh.rawPath = some (p, q)
  cl : HeaderMap.contains Sock.CONTENT_LENGTH_KEY rh.headers = true
  len : toLongLong (HeaderMap.value Sock.CONTENT_LENGTH_KEY rh.headers) = (N : Int)

theorem Parsed.acc {env : Env} {head : Bytes} {N : Nat} {rh : Parser.ReqHead} (h : Parsed env head N rh) :
    Acc env head N := by
  obtain ⟨p, q, hu⟩ := h.url
  exact ⟨⟨rh, p, q, h.parse, hu, h.cl, h.len⟩⟩

/-- what `onReadyRead` does beyond `RInv`, for the proxy's application, when the request head is
    the accepted `head` -/
theorem orr_good (env : Env) {evs : List Event} {head : Bytes} {N hl fl : Nat} {hb B : Bytes} {s : Sock}
    {rh : Parser.ReqHead} (hp : Parsed env head N rh)
    (fedF restF fed seg : Bytes) (hfin : breakOn CRLF2 fedF = some (head, restF))
    (hpre : (fed ++ seg) <+: fedF)
    (hm : Mid evs hl N fl hb B none s) (hin : s.tcp.inbox = seg) (hrel : Rel head N fed hb B s)
    (hdr : s.rs ≠ .headers → Drained s) :
    Grow s (Sock.onReadyRead env Proxy.app s) ∧
    (s.rs ≠ .headers → SameReq s (Sock.onReadyRead env Proxy.app s)) ∧
    (s.rs = .headers → (Sock.onReadyRead env Proxy.app s).rs ≠ .headers →
      (Sock.onReadyRead env Proxy.app s).method = rh.method ∧
      (Sock.onReadyRead env Proxy.app s).rawPath = rh.rawPath ∧
      (Sock.onReadyRead env Proxy.app s).reqHeaders = rh.headers) ∧
    ((Sock.onReadyRead env Proxy.app s).rs ≠ .headers → Drained (Sock.onReadyRead env Proxy.app s)) := by
  have hlive : Live s := ⟨hm.alive, hm.ioOpen, hm.dcFlag⟩
  rw [onReadyRead_eq]
  have h3 : s.rs = .finished ∨ s.rs = .data ∨ s.rs = .headers := by cases s.rs <;> simp
  rcases h3 with hrs | hrs | hrs
  · -- finished: only the inbox is cleared
    have hne : s.rs ≠ .headers := by rw [hrs]; simp
    rw [if_pos hrs, if_pos hm.devOpen]
    exact ⟨Grow.of_log_eq rfl, fun _ => ⟨rfl, rfl, rfl⟩, fun h => absurd h hne, fun _ => hdr hne⟩
  · -- data
    have hne : s.rs ≠ .headers := by rw [hrs]; simp
    rw [if_neg (by rw [hrs]; simp)]
    have hps : (pullS s).rs = .data := by rw [pullS_rs, hrs]
    rw [orrBody_data _ _ _ hps]
    have hpl : Grow s (pullS s) ∧ SameReq s (pullS s) ∧ Live (pullS s) ∧ (pullS s).qio = [] := by
      unfold pullS; rw [if_pos hm.devOpen]
      exact ⟨Grow.of_log_eq rfl, ⟨rfl, rfl, rfl⟩, ⟨hm.alive, hm.ioOpen, hm.dcFlag⟩, (hdr hne).1⟩
    obtain ⟨g0, r0, l0, q0⟩ := hpl
    obtain ⟨g1, r1, d1⟩ := readDataSlot_app env (pullS s) l0 hps q0
    exact ⟨g0.trans g1, fun _ => r0.trans r1, fun h => absurd h hne, fun _ => d1⟩
  · -- headers
    rw [if_neg (by rw [hrs]; simp)]
    obtain ⟨g1, g2, _, g4, _, _⟩ := hm.hdr hrs
    obtain ⟨k1, _⟩ := hrel.1 hrs
    have hpl : pullS s = { s with readBuffer := s.readBuffer ++ seg, tcp := { s.tcp with inbox := [] } } := by
      unfold pullS; rw [if_pos hm.devOpen, hin]
    have hbuf : s.readBuffer ++ seg = fed ++ seg := by rw [g1, k1]
    rw [hpl]
    cases hbk : breakOn CRLF2 (s.readBuffer ++ seg) with
    | none =>
      rw [orrBody_headers_none _ _ _ (by exact hrs) (by exact hbk)]
      refine ⟨Grow.of_log_eq rfl, fun h => absurd hrs h, fun _ h => absurd ?_ h, fun h => absurd ?_ h⟩
      · exact hrs
      · exact hrs
    | some pr =>
      obtain ⟨h', rest⟩ := pr
      obtain ⟨t, _, ht⟩ := C02L.breakOn_prefix CRLF2 (fed ++ seg) fedF h' rest hpre (by rw [← hbuf]; exact hbk)
      rw [hfin] at ht
      have hhead : h' = head := by
        simp only [Option.some.injEq, Prod.mk.injEq] at ht; exact ht.1.symm
      subst hhead
      obtain ⟨p, q, hu⟩ := hp.url
      have hrs4 : (Sock.emit env Proxy.app
          (hpState { s with readBuffer := s.readBuffer ++ seg, tcp := { s.tcp with inbox := [] } } rh p q rest N) .hp
          (Proxy.app.onHp (hpState { s with readBuffer := s.readBuffer ++ seg, tcp := { s.tcp with inbox := [] } } rh p q rest N))).rs
          = .data := rfl
      rw [orrBody_headers_acc _ _ _ (by exact hrs) h' rest rh p q N (by exact hbk)
        (by show Parser.parseRequestHeaders h' s.reqHeaders = some rh; rw [g2]; exact hp.parse) hu hp.cl hp.len hrs4]
      rw [emit_hp_app]
      generalize hse : ({ hpState { s with readBuffer := s.readBuffer ++ seg, tcp := { s.tcp with inbox := [] } } rh p q rest N
        with log := (hpState { s with readBuffer := s.readBuffer ++ seg, tcp := { s.tcp with inbox := [] } } rh p q rest N).log ++ [Obs.hp] } : Sock) = se
      have e1 : se.log = s.log ++ [Obs.hp] := by rw [← hse]; rfl
      have e2 : se.method = rh.method ∧ se.rawPath = rh.rawPath ∧ se.reqHeaders = rh.headers := by
        rw [← hse]; exact ⟨rfl, rfl, rfl⟩
      have e3 : Live se := by rw [← hse]; exact ⟨hm.alive, hm.ioOpen, hm.dcFlag⟩
      have e4 : se.rs = .data := by rw [← hse]; rfl
      have e5 : se.qio = [] := by rw [← hse]; exact g4
      obtain ⟨gg, rr, dd⟩ := readDataSlot_app env se e3 e4 e5
      refine ⟨?_, fun h => absurd hrs h, fun _ _ => ?_, fun _ => dd⟩
      · have g0 : Grow s se := ⟨[Obs.hp], e1, by simp [quiet0]⟩
        exact g0.trans gg
      · obtain ⟨a1, a2, a3⟩ := rr
        exact ⟨a1.trans e2.1, a2.trans e2.2.1, a3.trans e2.2.2⟩

end Qhttp.ProxyL

namespace Qhttp.ProxyL
open Qhttp Proxy Qhttp.C02

/-! ### one socket event of the relay shape -/

def relaySockEvent : Event → Bool
  | .new => true | .feed _ => true | .turn => true | _ => false

theorem okEvent_of_relay {e : Event} (h : relaySockEvent e = true) : okEvent e = true := by
  cases e <;> simp [relaySockEvent] at h <;> simp [okEvent, readerEvent]

/-- what is tracked beyond `RInv`: once the head is parsed the request fields are the head's, and
    between events everything readable has been read -/
structure Extra (rh : Parser.ReqHead) (s : Sock) : Prop where
  fields : s.rs ≠ .headers → s.method = rh.method ∧ s.rawPath = rh.rawPath ∧ s.reqHeaders = rh.headers
  drained : s.rs ≠ .headers → Drained s

/-- the socket part of `Proxy.turn` -/
def turnSock (env : Env) (s : Sock) (k : Nat) : Sock :=
  let s := { s with log := s.log ++ [Obs.ev k] }
  if s.initPending then Sock.onReadyRead env Proxy.app { s with initPending := false } else s

theorem Extra.of_eq {rh : Parser.ReqHead} {s s' : Sock} (h : Extra rh s) (hrs : s'.rs = s.rs)
    (hr : SameReq s s') (hq : s'.qio = s.qio) (hb : s'.readBuffer = s.readBuffer) : Extra rh s' := by
  constructor
  · intro hne
    obtain ⟨a, b, c⟩ := h.fields (by rw [← hrs]; exact hne)
    exact ⟨hr.1.trans a, hr.2.1.trans b, hr.2.2.trans c⟩
  · intro hne
    obtain ⟨a, b⟩ := h.drained (by rw [← hrs]; exact hne)
    exact ⟨hq.trans a, hb.trans b⟩

/-- `Extra` across one `onReadyRead`, from `orr_good` -/
theorem Extra.orr {rh : Parser.ReqHead} {s : Sock} (env : Env) (h : Extra rh s)
    (hs : (s.rs ≠ .headers → SameReq s (Sock.onReadyRead env Proxy.app s)) ∧
      (s.rs = .headers → (Sock.onReadyRead env Proxy.app s).rs ≠ .headers →
        (Sock.onReadyRead env Proxy.app s).method = rh.method ∧
        (Sock.onReadyRead env Proxy.app s).rawPath = rh.rawPath ∧
        (Sock.onReadyRead env Proxy.app s).reqHeaders = rh.headers) ∧
      ((Sock.onReadyRead env Proxy.app s).rs ≠ .headers → Drained (Sock.onReadyRead env Proxy.app s))) :
    Extra rh (Sock.onReadyRead env Proxy.app s) := by
  obtain ⟨h1, h2, h3⟩ := hs
  constructor
  · intro hne
    by_cases hrs : s.rs = .headers
    · exact h2 hrs hne
    · obtain ⟨a, b, c⟩ := h.fields hrs
      obtain ⟨x, y, z⟩ := h1 hrs
      exact ⟨x.trans a, y.trans b, z.trans c⟩
  · exact h3

theorem stepK_good (env : Env) {evs : List Event} {head : Bytes} {N : Nat} {s : Sock}
    {rh : Parser.ReqHead} (hp : Parsed env head N rh)
    (fedF restF fed : Bytes) (hfin : breakOn CRLF2 fedF = some (head, restF))
    (e : Event) (k : Nat) (hk : evs[k]? = some e) (he : relaySockEvent e = true)
    (hpre : (fed ++ evBytesOf e) <+: fedF) (h : RInv evs head N fed s) (hx : Extra rh s) :
    RInv evs head N (fed ++ evBytesOf e) (Sock.stepK env Proxy.app (s, k) e).1 ∧
    Extra rh (Sock.stepK env Proxy.app (s, k) e).1 ∧
    (∃ l, (Sock.stepK env Proxy.app (s, k) e).1.log = s.log ++ Obs.ev k :: l ∧ l.all quiet0 = true) ∧
    (e = .turn → (Sock.stepK env Proxy.app (s, k) e).1 = turnSock env s k) := by
  have hR := (stepK_inv env Proxy.app ⟨fun _ => rfl, fun _ => rfl, fun _ => rfl, fun _ => rfl, fun _ => rfl⟩
    hp.acc fedF restF fed hfin e k hk (okEvent_of_relay he) hpre h).1
  refine ⟨hR, ?_⟩
  obtain ⟨a, hb, B, hm, hin, hrel⟩ := h
  have hm1 := hm.ev k
  rw [evLen_of k e hk, ← List.length_append] at hm1
  have hxe : Extra rh { s with log := s.log ++ [Obs.ev k] } := hx.of_eq rfl ⟨rfl, rfl, rfl⟩ rfl rfl
  rw [stepK_alive env Proxy.app s k e hm.alive] at hR ⊢
  simp only [] at hR ⊢
  have hgrow : ∀ s' : Sock, Grow { s with log := s.log ++ [Obs.ev k] } s' →
      ∃ l, s'.log = s.log ++ Obs.ev k :: l ∧ l.all quiet0 = true := by
    rintro s' ⟨l, e1, q1⟩
    exact ⟨l, by rw [e1]; simp, q1⟩
  cases e with
  | prebuf b => simp [relaySockEvent] at he
  | ack n => simp [relaySockEvent] at he
  | ackAll => simp [relaySockEvent] at he
  | peerClose => simp [relaySockEvent] at he
  | api op => simp [relaySockEvent] at he
  | new =>
    unfold Sock.step
    rw [if_neg (by simp [hm.alive])]
    refine ⟨hxe.of_eq rfl ⟨rfl, rfl, rfl⟩ rfl rfl, hgrow _ (Grow.of_log_eq rfl), fun h => by cases h⟩
  | feed seg =>
    simp only [evBytesOf] at hm1 hpre
    unfold Sock.step
    rw [if_neg (by simp [hm.alive])]
    have hg := orr_good env hp fedF restF fed seg hfin hpre
      (hm1.setInbox (s.tcp.inbox ++ seg)) (by show s.tcp.inbox ++ seg = seg; rw [hin]; rfl)
      (hrel.of_rs rfl) (fun hne => (hxe.drained hne))
    have hxi : Extra rh { ({ s with log := s.log ++ [Obs.ev k] } : Sock) with
        tcp := { s.tcp with inbox := s.tcp.inbox ++ seg } } := hxe.of_eq rfl ⟨rfl, rfl, rfl⟩ rfl rfl
    exact ⟨hxi.orr env hg.2, hgrow _ ((Grow.of_log_eq rfl).trans hg.1), fun h => by cases h⟩
  | turn =>
    simp only [evBytesOf, List.append_nil] at hm1 hpre
    unfold Sock.step at hR ⊢
    rw [if_neg (by simp [hm.alive])] at hR ⊢
    simp only [] at hR ⊢
    by_cases hip : s.initPending = true
    · have hip' : ({ s with log := s.log ++ [Obs.ev k] } : Sock).initPending = true := hip
      rw [if_pos hip'] at hR ⊢
      have hg := orr_good (s := { ({ s with log := s.log ++ [Obs.ev k] } : Sock) with initPending := false })
        env hp fedF restF fed [] hfin (by simpa using hpre)
        (hm1.setInit false) (by exact hin) (hrel.of_rs rfl)
        (fun hne => (hxe.drained hne))
      have hxi : Extra rh { ({ s with log := s.log ++ [Obs.ev k] } : Sock) with initPending := false } :=
        hxe.of_eq rfl ⟨rfl, rfl, rfl⟩ rfl rfl
      -- the deferred deletion is not pending: the result is alive
      have hdel : (Sock.onReadyRead env Proxy.app
          { ({ s with log := s.log ++ [Obs.ev k] } : Sock) with initPending := false }).delPending = false := by
        cases hd : (Sock.onReadyRead env Proxy.app
          { ({ s with log := s.log ++ [Obs.ev k] } : Sock) with initPending := false }).delPending with
        | false => rfl
        | true =>
          rw [if_pos hd] at hR
          obtain ⟨_, _, _, m', _, _⟩ := hR
          exact absurd m'.alive (by simp)
      rw [if_neg (by simp [hdel])]
      refine ⟨hxi.orr env hg.2, hgrow _ ((Grow.of_log_eq rfl).trans hg.1), fun _ => ?_⟩
      unfold turnSock
      simp only []
      rw [if_pos hip]
    · have hip' : ¬ ({ s with log := s.log ++ [Obs.ev k] } : Sock).initPending = true := hip
      rw [if_neg hip'] at hR ⊢
      rw [if_neg (by simp [hm.delPending])]
      refine ⟨hxe, hgrow _ (Grow.refl _), fun _ => ?_⟩
      unfold turnSock
      simp only []
      rw [if_neg hip]

end Qhttp.ProxyL
