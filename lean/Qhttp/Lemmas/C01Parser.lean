import Qhttp.Model.Parser
import Qhttp.Lemmas.BytesLemmas
/-
  Lemmas for C01: `HeaderMap.insert`/`values`, and `Parser.parseHeaderList`, `parseHeaders`,
  `parseRequestHeaders` function by function (exact characterisations, all byte strings).
-/
namespace Qhttp

/-! ### HeaderMap -/
namespace HeaderMap

theorem bytesLt_irrefl (a : Bytes) : bytesLt a a = false := by
  induction a with
  | nil => rfl
  | cons x xs ih => simp [bytesLt, ih, UInt8.lt_irrefl]

theorem keyEq_iff {a c : Bytes} : keyEq a c = true ↔ lower a = lower c := by
  simp [keyEq]

theorem keyEq_false_of_keyLt {a n k : Bytes} (h : keyLt a n = true) (hk : keyEq n k = true) :
    keyEq a k = false := by
  rw [keyEq_iff] at hk
  cases hc : keyEq a k with
  | false => rfl
  | true =>
    rw [keyEq_iff] at hc
    rw [keyLt, hc, ← hk, bytesLt_irrefl] at h
    cases h

theorem values_nil (k : Bytes) : values k [] = [] := rfl

theorem values_cons (k : Bytes) (e : Bytes × Bytes) (m : HeaderMap) :
    values k (e :: m) = if keyEq e.1 k then e.2 :: values k m else values k m := by
  unfold values
  rw [List.filter_cons]
  split <;> simp

/-- `QMultiMap::insert` then `values`: the new value comes first under its (case-folded) key;
    other keys are unaffected.  No sortedness assumption. -/
theorem values_insert (k n v : Bytes) (m : HeaderMap) :
    values k (insert n v m) = if keyEq n k then v :: values k m else values k m := by
  induction m with
  | nil => rw [insert, values_cons]
  | cons e m ih =>
    obtain ⟨k', v'⟩ := e
    rw [insert]
    split
    · rename_i hlt
      rw [values_cons, ih, values_cons]
      by_cases hk : keyEq n k = true
      · have := keyEq_false_of_keyLt hlt hk
        simp [hk, this]
      · simp [hk]
    · rw [values_cons]

theorem contains_iff_values (k : Bytes) (m : HeaderMap) :
    contains k m = true ↔ values k m ≠ [] := by
  induction m with
  | nil => simp [contains, values]
  | cons e m ih =>
    rw [values_cons]
    simp only [contains, List.any_cons, Bool.or_eq_true] at ih ⊢
    by_cases h : keyEq e.1 k = true
    · simp [h]
    · simp [h, ih]

/-- `contains`/`value` in terms of `values` -/
theorem contains_value_eq (k : Bytes) (m : HeaderMap) (f : Bytes → Int) (dflt : Int) :
    (if contains k m then f (value k m) else dflt) =
      match values k m with
      | [] => dflt
      | x :: _ => f x := by
  have h := contains_iff_values k m
  unfold value
  cases hv : values k m with
  | nil =>
    rw [hv] at h
    have : contains k m = false := by
      cases hc : contains k m with
      | false => rfl
      | true => exact absurd rfl (h.1 hc)
    simp [this]
  | cons x xs =>
    rw [hv] at h
    have : contains k m = true := h.2 (by simp)
    simp [this]

end HeaderMap

/-! ### small facts about infixes -/

theorem CR_mem_of_CRLF_infix {xs : Bytes} (h : CRLF <:+: xs) : (13 : UInt8) ∈ xs := by
  obtain ⟨s, t, rfl⟩ := h
  simp [CRLF]

/-- a delimiter cannot straddle a byte it does not contain -/
theorem not_infix_append_sep {d a b : Bytes} {c : UInt8} (ha : ¬ d <:+: a) (hb : ¬ d <:+: b)
    (hc : c ∉ d) : ¬ d <:+: a ++ [c] ++ b := by
  rintro ⟨s, t, e⟩
  simp only [List.append_assoc] at e
  rcases List.append_eq_append_iff.1 e with ⟨a', h1, h2⟩ | ⟨c', h1, h2⟩
  · -- a = s ++ a', d ++ t = a' ++ c :: b
    rcases List.append_eq_append_iff.1 h2 with ⟨a'', h3, _⟩ | ⟨d', h3, h4⟩
    · exact ha ⟨s, a'', by rw [h1, h3, List.append_assoc]⟩
    · cases d' with
      | nil => exact ha ⟨s, [], by rw [h1, h3]; simp⟩
      | cons y d'' =>
        simp only [List.cons_append, List.cons.injEq] at h4
        exact hc (by rw [h3, h4.1]; simp)
  · -- s = a ++ c', c :: b = c' ++ (d ++ t)
    cases c' with
    | nil =>
      cases d with
      | nil => exact ha ⟨[], a, by simp⟩
      | cons y d' =>
        simp only [List.nil_append, List.cons_append, List.cons.injEq] at h2
        exact hc (by rw [h2.1]; simp)
    | cons y c'' =>
      simp only [List.cons_append, List.cons.injEq] at h2
      exact hb ⟨c'', t, by simpa [List.append_assoc] using h2.2.symm⟩

namespace Parser

/-! ### one header line -/

/-- what `parseHeaderList` does with one line that contains a colon -/
def insertLine (m : HeaderMap) (l : Bytes) : HeaderMap :=
  match breakOn [COLON] l with
  | some (n, x) => HeaderMap.insert (trim n) (trim x) m
  | none => m

theorem split_colon (l : Bytes) :
    split [COLON] 1 l =
      match breakOn [COLON] l with
      | none => [l]
      | some (n, x) => [n, x] := by
  rw [split_succ_eq (by simp)]
  cases breakOn [COLON] l with
  | none => rfl
  | some p => rfl

/-! #### blank names (`QByteArray::trimmed().isEmpty()`) -/

/-- a byte string that consists of white space only (the empty string included) -/
def Blank (n : Bytes) : Prop := ∀ c ∈ n, isSp c = true

instance (n : Bytes) : Decidable (Blank n) := by unfold Blank; infer_instance

theorem dropWhile_isSp_eq_nil_iff (n : Bytes) : n.dropWhile isSp = [] ↔ Blank n := by
  unfold Blank
  induction n with
  | nil => simp
  | cons c r ih =>
    rw [List.dropWhile_cons]
    cases hc : isSp c with
    | true => simp [ih, hc]
    | false => simp [hc]

theorem trimL_eq_nil_iff (n : Bytes) : trimL n = [] ↔ Blank n := dropWhile_isSp_eq_nil_iff n

theorem trimR_eq_nil_iff (n : Bytes) : trimR n = [] ↔ Blank n := by
  unfold trimR
  rw [List.reverse_eq_nil_iff, dropWhile_isSp_eq_nil_iff]
  unfold Blank
  simp only [List.mem_reverse]

/-- `trimmed()` is empty exactly on blank strings -/
theorem trim_eq_nil_iff (n : Bytes) : trim n = [] ↔ Blank n := by
  unfold trim
  rw [trimR_eq_nil_iff]
  constructor
  · intro h
    by_cases hb : Blank n
    · exact hb
    · -- the first byte kept by `trimL` is not white space
      exfalso
      have hne : n.dropWhile isSp ≠ [] := fun e => hb ((trimL_eq_nil_iff n).1 e)
      have h1 := List.head_dropWhile_not isSp hne
      have h2 := h _ (List.head_mem hne)
      rw [h2] at h1
      cases h1
  · intro h c hc
    exact h c ((List.dropWhile_sublist isSp).subset hc)

theorem trim_isEmpty_iff (n : Bytes) : (trim n).isEmpty = true ↔ Blank n := by
  rw [List.isEmpty_iff, trim_eq_nil_iff]

/-- a header line of the form `name: value`: it contains a colon and what stands before the
    FIRST colon (the name) is not blank.  Executable form (what `parseHeaderList` tests). -/
def hdrLineB (l : Bytes) : Bool :=
  match breakOn [COLON] l with
  | some (n, _) => !(trim n).isEmpty
  | none => false

/-- a header line of the form `name: value`, stated on the bytes: `l = name ++ ":" ++ value` with
    a name that contains no colon (so the colon shown is the first one) and at least one byte
    that is not white space -/
def HdrLine (l : Bytes) : Prop :=
  ∃ n x, l = n ++ [COLON] ++ x ∧ COLON ∉ n ∧ ∃ c ∈ n, isSp c = false

theorem not_blank_iff (n : Bytes) : ¬ Blank n ↔ ∃ c ∈ n, isSp c = false := by
  unfold Blank
  constructor
  · intro h
    apply Classical.byContradiction
    intro hc
    apply h
    intro c hm
    cases hs : isSp c with
    | true => rfl
    | false => exact absurd ⟨c, hm, hs⟩ hc
  · rintro ⟨c, hm, hs⟩ h
    rw [h c hm] at hs
    cases hs

theorem hdrLineB_iff (l : Bytes) : hdrLineB l = true ↔ HdrLine l := by
  unfold hdrLineB HdrLine
  constructor
  · intro h
    cases hb : breakOn [COLON] l with
    | none => rw [hb] at h; cases h
    | some p =>
      obtain ⟨n, x⟩ := p
      rw [hb] at h
      simp only [Bool.not_eq_true'] at h
      refine ⟨n, x, breakOn_some hb, breakOn_singleton_not_mem hb, (not_blank_iff n).1 ?_⟩
      intro hbl
      rw [(trim_isEmpty_iff n).2 hbl] at h
      cases h
  · rintro ⟨n, x, rfl, hn, hc⟩
    rw [breakOn_singleton x hn]
    simp only [Bool.not_eq_true']
    cases he : (trim n).isEmpty with
    | false => rfl
    | true => exact absurd ((trim_isEmpty_iff n).1 he) ((not_blank_iff n).2 hc)

theorem colon_mem_of_hdrLineB {l : Bytes} (h : hdrLineB l = true) : COLON ∈ l := by
  obtain ⟨n, x, rfl, _, _⟩ := (hdrLineB_iff l).1 h
  simp

theorem parseHeaderList_cons (l : Bytes) (rest : List Bytes) (m : HeaderMap) :
    parseHeaderList (l :: rest) m =
      if hdrLineB l then parseHeaderList rest (insertLine m l) else none := by
  rw [parseHeaderList, split_colon]
  unfold hdrLineB
  cases hb : breakOn [COLON] l with
  | none => simp
  | some p =>
    obtain ⟨n, x⟩ := p
    simp only [insertLine, hb]
    cases (trim n).isEmpty <;> simp

/-- `parseHeaderList` succeeds iff every line has the form `name: value` (a colon, and a name
    before the first colon that is not blank), and then folds `insertLine` -/
theorem parseHeaderList_eq (hs : List Bytes) (m : HeaderMap) :
    parseHeaderList hs m =
      if ∀ l ∈ hs, hdrLineB l = true then some (hs.foldl insertLine m) else none := by
  induction hs generalizing m with
  | nil => simp [parseHeaderList]
  | cons l rest ih =>
    rw [parseHeaderList_cons]
    by_cases h : hdrLineB l = true
    · rw [if_pos h, ih]
      simp [h]
    · rw [if_neg h, if_neg]
      intro c
      exact h (c l (by simp))

/-- the header lookup the application sees, line by line -/
def lineValue (k : Bytes) (l : Bytes) : Option Bytes :=
  match breakOn [COLON] l with
  | some (n, x) => if lower (trim n) = lower k then some (trim x) else none
  | none => none

theorem values_insertLine (k : Bytes) (m : HeaderMap) (l : Bytes) :
    HeaderMap.values k (insertLine m l) =
      (match lineValue k l with | some x => [x] | none => []) ++ HeaderMap.values k m := by
  unfold insertLine lineValue
  cases breakOn [COLON] l with
  | none => simp
  | some p =>
    obtain ⟨n, x⟩ := p
    simp only [HeaderMap.values_insert]
    by_cases h : lower (trim n) = lower k
    · have : HeaderMap.keyEq (trim n) k = true := HeaderMap.keyEq_iff.2 h
      simp [this, h]
    · have : ¬ HeaderMap.keyEq (trim n) k = true := fun c => h (HeaderMap.keyEq_iff.1 c)
      simp [this, h]

theorem values_foldl_insertLine (k : Bytes) (hs : List Bytes) (m : HeaderMap) :
    HeaderMap.values k (hs.foldl insertLine m) =
      hs.reverse.filterMap (lineValue k) ++ HeaderMap.values k m := by
  induction hs generalizing m with
  | nil => simp
  | cons l rest ih =>
    rw [List.foldl_cons, ih, values_insertLine, List.reverse_cons, List.filterMap_append]
    cases hlv : lineValue k l <;> simp [hlv]

/-! ### the request line -/

theorem split_SP2_eq_iff (first p0 p1 p2 : Bytes) :
    split [SP] 2 first = [p0, p1, p2] ↔
      SP ∉ p0 ∧ SP ∉ p1 ∧ first = p0 ++ [SP] ++ p1 ++ [SP] ++ p2 := by
  rw [split_succ_eq (by simp) 1]
  constructor
  · intro h
    cases hb : breakOn [SP] first with
    | none => rw [hb] at h; simp at h
    | some p =>
      obtain ⟨a, r⟩ := p
      rw [hb] at h
      simp only [if_neg (show (1 : Nat) ≠ 0 by decide)] at h
      rw [split_succ_eq (by simp) 0] at h
      cases hb2 : breakOn [SP] r with
      | none => rw [hb2] at h; simp at h
      | some q =>
        obtain ⟨a', r'⟩ := q
        rw [hb2] at h
        simp only [if_pos, List.cons.injEq, and_true] at h
        obtain ⟨rfl, rfl, rfl⟩ := h
        refine ⟨breakOn_singleton_not_mem hb, breakOn_singleton_not_mem hb2, ?_⟩
        rw [breakOn_some hb, breakOn_some hb2]
        simp [List.append_assoc]
  · rintro ⟨h0, h1, rfl⟩
    have e : p0 ++ [SP] ++ p1 ++ [SP] ++ p2 = p0 ++ [SP] ++ (p1 ++ [SP] ++ p2) := by
      simp [List.append_assoc]
    rw [e, breakOn_singleton _ h0]
    simp only [if_neg (show (1 : Nat) ≠ 0 by decide)]
    rw [split_succ_eq (by simp) 0, breakOn_singleton _ h1]
    simp

/-- `split [SP] 2` gives exactly three parts or the match in `parseHeaders` fails -/
theorem parseHeaders_eq_some_iff (data : Bytes) (m : HeaderMap) (p0 p1 p2 : Bytes)
    (m' : HeaderMap) :
    parseHeaders data m = some (p0, p1, p2, m') ↔
      ∃ hs, SP ∉ p0 ∧ SP ∉ p1 ∧ ¬ CRLF <:+: p0 ++ [SP] ++ p1 ++ [SP] ++ p2 ∧
        (∀ l ∈ hs, ¬ CRLF <:+: l) ∧ parseHeaderList hs m = some m' ∧
        data = joinWith CRLF ((p0 ++ [SP] ++ p1 ++ [SP] ++ p2) :: hs) := by
  constructor
  · intro h
    unfold parseHeaders at h
    have hj := join_split CRLF 0 data
    have hn := split_zero_not_infix CRLF_ne_nil data
    cases hs : split CRLF 0 data with
    | nil => rw [hs] at h; cases h
    | cons first lines =>
      rw [hs] at h hj hn
      simp only at h
      split at h
      · rename_i q0 q1 q2 hsp
        split at h
        · rename_i m2 hpl
          cases h
          obtain ⟨h0, h1, rfl⟩ := (split_SP2_eq_iff _ _ _ _).1 hsp
          exact ⟨lines, h0, h1, hn _ (by simp), fun l hl => hn l (by simp [hl]), hpl, hj.symm⟩
        · cases h
      · cases h
  · rintro ⟨hs, h0, h1, hf, hl, hpl, rfl⟩
    unfold parseHeaders
    rw [split_CRLF_joinWith _ (by simp) (by
      intro p hp
      rcases List.mem_cons.1 hp with rfl | hp
      · exact hf
      · exact hl p hp)]
    simp only
    rw [(split_SP2_eq_iff _ p0 p1 p2).2 ⟨h0, h1, rfl⟩]
    simp only [hpl]

/-! ### methods and versions -/

def OPTIONS : Bytes := lit ['O','P','T','I','O','N','S']
def GET : Bytes := lit ['G','E','T']
def HEAD : Bytes := lit ['H','E','A','D']
def POST : Bytes := lit ['P','O','S','T']
def PUT : Bytes := lit ['P','U','T']
def DELETE : Bytes := lit ['D','E','L','E','T','E']
def TRACE : Bytes := lit ['T','R','A','C','E']
def CONNECT : Bytes := lit ['C','O','N','N','E','C','T']

/-- the eight RFC 2616 method tokens, exact spelling (upper case) -/
def eightMethods : List Bytes := [OPTIONS, GET, HEAD, POST, PUT, DELETE, TRACE, CONNECT]

theorem methodCode_eq_some_iff (tok : Bytes) (c : Nat) :
    methodCode tok = some c ↔ (tok, c) ∈ methodTable := by
  unfold methodCode methodTable
  simp only [List.find?_cons, List.find?_nil]
  constructor
  · intro h
    repeat' split at h
    all_goals first
      | (rename_i heq; simp only [Option.map_some, Option.some.injEq] at h
         have := eq_of_beq heq; subst this; subst h; simp)
      | (simp at h)
  · intro h
    simp only [List.mem_cons, Prod.mk.injEq, List.not_mem_nil, or_false] at h
    rcases h with ⟨rfl, rfl⟩ | ⟨rfl, rfl⟩ | ⟨rfl, rfl⟩ | ⟨rfl, rfl⟩ | ⟨rfl, rfl⟩ | ⟨rfl, rfl⟩ |
      ⟨rfl, rfl⟩ | ⟨rfl, rfl⟩ <;> decide

/-- the accepted method tokens are exactly the eight literal upper-case names -/
theorem methodCode_ne_none_iff (tok : Bytes) :
    methodCode tok ≠ none ↔
      tok = OPTIONS ∨ tok = GET ∨ tok = HEAD ∨ tok = POST ∨ tok = PUT ∨ tok = DELETE ∨
      tok = TRACE ∨ tok = CONNECT := by
  constructor
  · intro h
    cases hc : methodCode tok with
    | none => exact absurd hc h
    | some c =>
      have := (methodCode_eq_some_iff tok c).1 hc
      simp only [methodTable, List.mem_cons, Prod.mk.injEq, List.not_mem_nil, or_false] at this
      rcases this with ⟨rfl, _⟩ | ⟨rfl, _⟩ | ⟨rfl, _⟩ | ⟨rfl, _⟩ | ⟨rfl, _⟩ | ⟨rfl, _⟩ |
        ⟨rfl, _⟩ | ⟨rfl, _⟩ <;> simp [OPTIONS, GET, HEAD, POST, PUT, DELETE, TRACE, CONNECT]
  · rintro (rfl | rfl | rfl | rfl | rfl | rfl | rfl | rfl) <;> decide

/-- the codes are the eight distinct powers of two of `Socket::Method` -/
theorem methodCodes :
    eightMethods.map methodCode = [some 1, some 2, some 4, some 8, some 16, some 32, some 64, some 128] := by
  decide

theorem method_no_SP_CR {tok : Bytes} (h : methodCode tok ≠ none) : SP ∉ tok ∧ (13 : UInt8) ∉ tok := by
  rcases (methodCode_ne_none_iff tok).1 h with rfl | rfl | rfl | rfl | rfl | rfl | rfl | rfl <;>
    decide

theorem version_no_CR {v : Bytes} (h : v = HTTP10 ∨ v = HTTP11) : (13 : UInt8) ∉ v := by
  rcases h with rfl | rfl <;> decide

/-- the request line built from a method, a CRLF-free target and a version is CRLF-free -/
theorem requestLine_no_CRLF {m t v : Bytes} (hm : methodCode m ≠ none)
    (hv : v = HTTP10 ∨ v = HTTP11) (ht : ¬ CRLF <:+: t) :
    ¬ CRLF <:+: m ++ [SP] ++ t ++ [SP] ++ v := by
  have hsp : SP ∉ CRLF := by decide
  have h1 : ¬ CRLF <:+: m := fun c => (method_no_SP_CR hm).2 (CR_mem_of_CRLF_infix c)
  have h2 : ¬ CRLF <:+: v := fun c => version_no_CR hv (CR_mem_of_CRLF_infix c)
  exact not_infix_append_sep (not_infix_append_sep h1 ht hsp) h2 hsp

/-! ### parseRequestHeaders -/

theorem parseRequestHeaders_eq_some_iff (data : Bytes) (m0 : HeaderMap) (rh : ReqHead) :
    parseRequestHeaders data m0 = some rh ↔
      ∃ p0 p2, parseHeaders data m0 = some (p0, rh.rawPath, p2, rh.headers) ∧
        (p2 = HTTP10 ∨ p2 = HTTP11) ∧ methodCode p0 = some rh.method := by
  unfold parseRequestHeaders
  constructor
  · intro h
    split at h
    · cases h
    · rename_i p0 p1 p2 m hp
      split at h
      · cases h
      · rename_i hv
        split at h
        · cases h
        · rename_i c hc
          cases h
          refine ⟨p0, p2, hp, ?_, hc⟩
          simp only [Bool.and_eq_true, bne_iff_ne, ne_eq, not_and, Classical.not_not] at hv
          by_cases h10 : p2 = HTTP10
          · exact Or.inl h10
          · exact Or.inr (hv h10)
  · rintro ⟨p0, p2, hp, hv, hc⟩
    rw [hp]
    simp only
    have : (p2 != HTTP10 && p2 != HTTP11) = false := by
      rcases hv with rfl | rfl <;> simp
    rw [this]
    simp only [hc]
    rfl

end Parser
end Qhttp
