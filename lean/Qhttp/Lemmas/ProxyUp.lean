import Qhttp.Lemmas.ProxyUpSock
/-
  C12 — the relay invariant when the upstream server answers at any time: `new`, then client
  segments, event-loop turns and upstream payloads in any order.

  Between two events a run is in one of two phases.
  * `AliveU`: the socket invariant of the relay argument holds, the relay part holds (with whatever
    the upstream server wrote still waiting in `fromUp`), and the proxy's view of the answer
    (`upRead`, `fromUp`, `headersParsed`) is what `Proxy.upScan` reads off the event list.
  * `DeadU`: a complete response head that `Parser::parseResponseHeaders` refuses was delivered;
    the proxy answered 502, `writeError` closed the client's socket.  Nothing is read from the
    client any more; what reached the upstream server stays a prefix of the entitled body.
-/
namespace Qhttp.ProxyL
open Qhttp Proxy Qhttp.C02

/-! ### the extended shape -/

/-- events of the relay shape with an answering upstream server -/
def relayPEvU : PEv → Bool
  | .up _ => true
  | e => relayPEv e

theorem relaySock_projU {e : PEv} (h : relayPEvU e = true) : relaySockEvent (proj e) = true := by
  cases e with
  | sock ev => exact relaySock_proj (e := .sock ev) h
  | turn => rfl
  | up b => rfl
  | upClose => simp [relayPEvU, relayPEv] at h

theorem relayPEvU_of_relayPEv {e : PEv} (h : relayPEv e = true) : relayPEvU e = true := by
  cases e <;> first | exact h | rfl

/-! ### what the argument needs of the socket invariant beyond `SockI` -/

structure SockU (evs : List Event) (I : Bytes → Sock → Prop) : Prop where
  dc : ∀ {fed s}, I fed s → s.dcFlag = false
  wsame : ∀ {fed s s'}, I fed s → WSame s s' → I fed s'
  mark : ∀ {fed s} (k : Nat), I fed s → evs[k]? = some .turn → I fed { s with log := s.log ++ [Obs.ev k] }
  hdrIff : ∀ {fed s}, I fed s → (s.rs = .headers ↔ breakOn CRLF2 fed = none)

/-- the declared-length case as an instance of the relay interface -/
theorem sockI_len (env : Env) (evs : List Event) {head : Bytes} {N : Nat} {rh : Parser.ReqHead}
    (hp : Parsed env head N rh) (fedF restF : Bytes) (hfin : breakOn CRLF2 fedF = some (head, restF)) :
    SockI env evs fedF rh (restF.take N) (fun fed s => RInv evs head N fed s ∧ Extra rh s) where
  init := ⟨RInv_init evs head N, ⟨fun h => absurd rfl h, fun h => absurd rfl h⟩⟩
  hpCount := fun h => rinv_hpCount h.1
  readsNil := fun h => rinv_reads_nil h.1
  flags := fun h => rinv_flags h.1
  misc := fun b h => ⟨rinv_misc h.1 b, h.2.misc b⟩
  fields := fun h => h.2.fields
  step := by
    intro fed s e k h hk he hpre
    obtain ⟨a, b, c, d⟩ := stepK_good env hp fedF restF fed hfin e k hk he hpre h.1 h.2
    exact ⟨⟨a, b⟩, ⟨c⟩, d⟩
  full := fun h => rs_of_full h.1 hfin
  readsPre := fun h hpre => RInv.reads_prefix h.1 hfin hpre
  readsAll := by
    intro s h
    have hne := rs_of_full h.1 hfin
    obtain ⟨rest', t, k1, k2, k3, _⟩ := RInv.rest_eq h.1 hfin (List.prefix_refl _) hne
    obtain ⟨q1, q2⟩ := h.2.drained hne
    rw [q1, q2, List.append_nil, List.append_nil] at k3
    have hF := C02L.breakOn_some_eq CRLF2 _ _ _ hfin
    have : rest' = restF := by
      rw [k1] at hF
      simp only [List.append_assoc] at hF
      exact List.append_cancel_left (List.append_cancel_left hF)
    rw [k3, this]

theorem sockU_len (evs : List Event) (head : Bytes) (N : Nat) (rh : Parser.ReqHead) :
    SockU evs (fun fed s => RInv evs head N fed s ∧ Extra rh s) where
  dc := by
    intro fed s h
    obtain ⟨a, hb, B, hm, _, _⟩ := h.1
    exact hm.dcFlag
  wsame := fun h w => ⟨RInv.wsame h.1 w, Extra.wsame h.2 w⟩
  mark := fun k h hk => ⟨RInv.mark h.1 k hk, Extra.mark h.2 k⟩
  hdrIff := fun h => RInv.hdrIff h.1

theorem sockU_nolen (evs : List Event) (head : Bytes) (rh : Parser.ReqHead) : SockU evs (NInv head rh) where
  dc := fun h => h.dcFlag
  wsame := fun h w => NInv.wsame h w
  mark := fun k h _ => h.snoc (Obs.ev k) rfl rfl
  hdrIff := fun h => NInv.hdrIff h

/-! ### the proxy's bookkeeping does not look at what waits in `fromUp` -/

/-- the state without the payloads that wait for the next turn -/
def clr (st : St) : St := { st with fromUp := [] }

theorem routed_clr (hpB : Nat) (st : St) (s1 : Sock) : routed hpB (clr st) s1 = clr (routed hpB st s1) := by
  unfold routed relayReads afterRoute clr
  simp only []
  split <;> split <;> (try split) <;> rfl

theorem routed_frame (hpB : Nat) (st : St) (s1 : Sock) :
    (routed hpB st s1).fromUp = st.fromUp ∧ (routed hpB st s1).upClosing = st.upClosing ∧
    (routed hpB st s1).headersParsed = st.headersParsed ∧ (routed hpB st s1).upRead = st.upRead ∧
    ((routed hpB st s1).conn = .connected ↔ st.conn = .connected) := by
  obtain ⟨sock, conn, buf, hw, hpd, upRead, toUp, fromUp, upClosing, errored, seenRd⟩ := st
  unfold routed relayReads afterRoute
  simp only []
  cases conn <;> cases hw <;> (split <;> (try split) <;> simp_all)

theorem connectFlush_clr (c : Cfg) (st : St) : connectFlush c (clr st) = clr (connectFlush c st) := by
  unfold connectFlush clr
  simp only []
  split <;> split <;> rfl

theorem connectFlush_frame (c : Cfg) (st : St) :
    (connectFlush c st).fromUp = st.fromUp ∧ (connectFlush c st).upClosing = st.upClosing ∧
    (connectFlush c st).headersParsed = st.headersParsed ∧ (connectFlush c st).upRead = st.upRead ∧
    (st.conn = .connected → (connectFlush c st).conn = .connected) ∧
    (connectFlush c st).conn ≠ .connecting := by
  obtain ⟨sock, conn, buf, hw, hpd, upRead, toUp, fromUp, upClosing, errored, seenRd⟩ := st
  unfold connectFlush
  simp only []
  cases conn <;> (split <;> (try split) <;> simp_all)

/-- `Relay` only looks at these parts of the state -/
theorem Relay.transfer {c : Cfg} {rh : Parser.ReqHead} {st st' : St} (h : Relay c rh st)
    (e1 : st'.seenRd = st.seenRd) (e2 : st'.fromUp = st.fromUp) (e3 : st'.upClosing = st.upClosing)
    (e4 : st'.conn = st.conn) (e5 : st'.buf = st.buf) (e6 : st'.toUp = st.toUp)
    (e7 : st'.headersWritten = st.headersWritten) (e8 : st'.sock.rs = st.sock.rs)
    (l1 : rdsOf st'.sock.log = rdsOf st.sock.log) (l2 : upBytes st'.sock.log = upBytes st.sock.log)
    (l3 : Obs.reads st'.sock.log = Obs.reads st.sock.log) : Relay c rh st' := by
  obtain ⟨seen, hfu, huc, hcn, hnone, hcing, hced, hncl⟩ := h
  refine ⟨by rw [e1, l1]; exact seen, e2.trans hfu, e3.trans huc, by rw [e4, e8]; exact hcn, ?_, ?_, ?_,
    by rw [e4]; exact hncl⟩
  · intro hh
    obtain ⟨a, b, c', d⟩ := hnone (e4.symm.trans hh)
    exact ⟨e5.trans a, e6.trans b, e7.trans c', l2.trans d⟩
  · intro hh
    obtain ⟨a, b, c', d⟩ := hcing (e4.symm.trans hh)
    exact ⟨e6.trans a, e7.trans b, l2.trans c', by rw [e5, l3]; exact d⟩
  · intro hh
    obtain ⟨a, b, d, c1, c2⟩ := hced (e4.symm.trans hh)
    exact ⟨e5.trans a, e7.trans b, d, l2.trans c1, by rw [e6, l3]; exact c2⟩

/-! ### the upstream answer as the proxy has seen it -/

/-- a complete response head lies within `got`; `ok`: `Parser::parseResponseHeaders` accepts it -/
def HeadSeen (got : Bytes) (ok : Bool) : Prop :=
  ∃ p h r, p <+: got ∧ breakOn CRLF2 p = some (h, r) ∧ (Parser.parseResponseHeaders h).isSome = ok

theorem HeadSeen.mono {got got' : Bytes} {ok : Bool} (h : HeadSeen got ok) (hp : got <+: got') :
    HeadSeen got' ok := by
  obtain ⟨p, hd, r, h1, h2, h3⟩ := h
  exact ⟨p, hd, r, h1.trans hp, h2, h3⟩

/-- the first blank line decides -/
theorem HeadSeen.decides {got : Bytes} {ok : Bool} (h : HeadSeen got ok) :
    (match breakOn CRLF2 got with
     | none => true
     | some (hd, _) => (Parser.parseResponseHeaders hd).isSome) = ok := by
  obtain ⟨p, hd, r, h1, h2, h3⟩ := h
  obtain ⟨t, _, ht⟩ := C02L.breakOn_prefix CRLF2 p got hd r h1 h2
  rw [ht]; exact h3

/-- how the proxy's view of the answer relates to the scan of the event list -/
structure UpLink (u : UpScan) (st : St) : Prop where
  conn : u.conn = true ↔ st.conn = .connected
  pend : st.conn ≠ .connected → st.fromUp = []
  acc : st.headersParsed = false → st.upRead ++ st.fromUp.flatten = u.got ∧ breakOn CRLF2 st.upRead = none
  ok : st.headersParsed = true → HeadSeen u.got true

/-- the forwarding phase -/
structure AliveU (I : Bytes → Sock → Prop) (c : Cfg) (rh : Parser.ReqHead) (n : Nat) (fed : Bytes)
    (u : UpScan) (st : St) : Prop where
  inv : I fed st.sock
  relay : Relay c rh (clr st)
  nev : countEv st.sock.log = n
  ufed : u.fed = fed
  link : UpLink u st

/-- after the 502: the client's socket is closed, what was forwarded stays -/
structure DeadU (c : Cfg) (rh : Parser.ReqHead) (ent : Bytes) (got : Bytes) (st : St) : Prop where
  closed : ClosedS st.sock
  conn : st.conn = .connected
  hw : st.headersWritten = true
  buf : st.buf = []
  upClosing : st.upClosing = false
  seen : st.seenRd = (rdsOf st.sock.log).length
  up : ∃ d, upBytes st.sock.log = upstreamHead c (reqSock rh) ++ d ∧ d ++ st.toUp = Obs.reads st.sock.log
  pre : Obs.reads st.sock.log <+: ent
  bad : HeadSeen got false

theorem DeadU.of_drel {c : Cfg} {rh : Parser.ReqHead} {ent got : Bytes} {st st' : St}
    (h : DeadU c rh ent got st) (d : DRel st.sock st'.sock)
    (e1 : st'.conn = st.conn) (e2 : st'.headersWritten = st.headersWritten) (e3 : st'.buf = st.buf)
    (e4 : st'.upClosing = st.upClosing) (e5 : st'.seenRd = st.seenRd) (e6 : st'.toUp = st.toUp) :
    DeadU c rh ent got st' := by
  obtain ⟨l1, l2, l3⟩ := d.logs
  obtain ⟨x, u1, u2⟩ := h.up
  exact ⟨d.closed h.closed, e1.trans h.conn, e2.trans h.hw, e3.trans h.buf, e4.trans h.upClosing,
    by rw [e5, l1]; exact h.seen, ⟨x, l2.trans u1, by rw [e6, l3]; exact u2⟩, by rw [l3]; exact h.pre, h.bad⟩

theorem DeadU.mono {c : Cfg} {rh : Parser.ReqHead} {ent got got' : Bytes} {st : St}
    (h : DeadU c rh ent got st) (hp : got <+: got') : DeadU c rh ent got' st :=
  ⟨h.closed, h.conn, h.hw, h.buf, h.upClosing, h.seen, h.up, h.pre, h.bad.mono hp⟩

/-! ### `onUpstreamReadyRead` -/

/-- the four calls that relay a response head: `setStatusCode; setHeaders; writeHeaders; write` -/
def relayedSock (env : Env) (s : Sock) (code : Int) (reason : Bytes) (hs : HeaderMap) (rest : Bytes) : Sock :=
  let s := Sock.api env Proxy.app s (.status code (some reason))
  let s := if s.alive then { s with respHeaders := hs } else s
  let s := Sock.api env Proxy.app s .wh
  Sock.api env Proxy.app s (.write rest)

theorem ourr_eq (env : Env) (st : St) (chunk : Bytes) :
    onUpstreamReadyRead env st chunk =
      if st.headersParsed then { st with sock := Sock.api env Proxy.app st.sock (.write chunk) } else
      match breakOn CRLF2 (st.upRead ++ chunk) with
      | none => { st with upRead := st.upRead ++ chunk }
      | some (head, rest) =>
        match Parser.parseResponseHeaders head with
        | none => { st with upRead := st.upRead ++ chunk, sock := Sock.api env Proxy.app st.sock (.err 502 none) }
        | some (code, reason, hs) =>
          { st with sock := relayedSock env st.sock code reason hs rest, headersParsed := true, upRead := [] } := rfl

theorem relayedSock_wsame (env : Env) (s : Sock) (code : Int) (reason : Bytes) (hs : HeaderMap) (rest : Bytes)
    (hdc : s.dcFlag = false) : WSame s (relayedSock env s code reason hs rest) := by
  unfold relayedSock
  simp only []
  have w1 := api_status_wsame env s code (some reason) hdc
  have w2 : WSame (Sock.api env Proxy.app s (.status code (some reason)))
      (if (Sock.api env Proxy.app s (.status code (some reason))).alive then
        { Sock.api env Proxy.app s (.status code (some reason)) with respHeaders := hs }
       else Sock.api env Proxy.app s (.status code (some reason))) := by
    split
    · exact respHeaders_wsame _ hs
    · exact WSame.refl _
  have w12 := w1.trans w2
  have w3 := api_wh_wsame env _ (w12.dcFlag.trans hdc)
  have w123 := w12.trans w3
  exact w123.trans (api_write_wsame env _ rest (w123.dcFlag.trans hdc))

theorem relayedSock_drel (env : Env) (s : Sock) (code : Int) (reason : Bytes) (hs : HeaderMap) (rest : Bytes) :
    DRel s (relayedSock env s code reason hs rest) := by
  unfold relayedSock
  simp only []
  have w1 := api_status_drel env s code (some reason)
  have w2 : DRel (Sock.api env Proxy.app s (.status code (some reason)))
      (if (Sock.api env Proxy.app s (.status code (some reason))).alive then
        { Sock.api env Proxy.app s (.status code (some reason)) with respHeaders := hs }
       else Sock.api env Proxy.app s (.status code (some reason))) := by
    split
    · exact (respHeaders_wsame _ hs).drel
    · exact DRel.refl _
  exact ((w1.trans w2).trans (api_wh_drel env _)).trans (api_write_drel env _ rest)

/-- on a closed socket nothing `onUpstreamReadyRead` does reads from the client or reaches the
    upstream server -/
theorem ourr_dead (env : Env) {c : Cfg} {rh : Parser.ReqHead} {ent got : Bytes} {st : St}
    (h : DeadU c rh ent got st) (chunk : Bytes) : DeadU c rh ent got (onUpstreamReadyRead env st chunk) := by
  rw [ourr_eq]
  split
  · exact h.of_drel (api_write_drel env _ chunk) rfl rfl rfl rfl rfl rfl
  · split
    · exact h.of_drel (DRel.refl _) rfl rfl rfl rfl rfl rfl
    · split
      · exact h.of_drel (api_err_drel env _ 502 none) rfl rfl rfl rfl rfl rfl
      · exact h.of_drel (relayedSock_drel env _ _ _ _ _) rfl rfl rfl rfl rfl rfl

theorem deliver_dead (env : Env) {c : Cfg} {rh : Parser.ReqHead} {ent got : Bytes} (cs : List Bytes) :
    ∀ {st : St}, DeadU c rh ent got st → DeadU c rh ent got (deliverAll env cs st) := by
  induction cs with
  | nil => intro st h; exact h
  | cons ch cs ih => intro st h; exact ih (ourr_dead env h ch)

/-! ### delivering the waiting payloads in the forwarding phase -/

/-- the part of the forwarding phase `deliverAll` works on: connected, nothing waiting -/
structure ACore (I : Bytes → Sock → Prop) (c : Cfg) (rh : Parser.ReqHead) (n : Nat) (fed : Bytes)
    (st : St) : Prop where
  inv : I fed st.sock
  relay : Relay c rh st
  nev : countEv st.sock.log = n
  conn : st.conn = .connected

section deliver
variable {env : Env} {evs : List Event} {fedF : Bytes} {rh : Parser.ReqHead} {ent : Bytes}
  {I : Bytes → Sock → Prop}

theorem ACore.step_w (hU : SockU evs I) {c : Cfg} {n : Nat} {fed : Bytes} {st : St}
    (h : ACore I c rh n fed st) {s' : Sock} (w : WSame st.sock s') (hp' : Bool) (ur' : Bytes) :
    ACore I c rh n fed { st with sock := s', headersParsed := hp', upRead := ur' } :=
  ⟨hU.wsame h.inv w, h.relay.transfer rfl rfl rfl rfl rfl rfl rfl w.rs w.logs.1 w.logs.2.1 w.logs.2.2.2.1,
    by show countEv s'.log = n; rw [w.logs.2.2.1]; exact h.nev, h.conn⟩

theorem ACore.dead (hI : SockI env evs fedF rh ent I) {c : Cfg} {n : Nat} {fed : Bytes} {st : St}
    (h : ACore I c rh n fed st) (hpre : fed <+: fedF) {got : Bytes} (hbad : HeadSeen got false) (ur : Bytes) :
    DeadU c rh ent got { st with upRead := ur, sock := Sock.api env Proxy.app st.sock (.err 502 none) } := by
  have d := api_err_drel env st.sock 502 none
  obtain ⟨l1, l2, l3⟩ := d.logs
  obtain ⟨b1, b2, x, b3, b4⟩ := h.relay.connected h.conn
  refine ⟨api_err_closed env st.sock 502 none (hI.flags h.inv).1, h.conn, b2, b1, h.relay.upClosing, ?_,
    ⟨x, l2.trans b3, ?_⟩, ?_, hbad⟩
  · show st.seenRd = (rdsOf (Sock.api env Proxy.app st.sock (.err 502 none)).log).length
    rw [l1]; exact h.relay.seen
  · show x ++ st.toUp = Obs.reads (Sock.api env Proxy.app st.sock (.err 502 none)).log
    rw [l3]; exact b4
  · show Obs.reads (Sock.api env Proxy.app st.sock (.err 502 none)).log <+: ent
    rw [l3]; exact hI.readsPre h.inv hpre

/-- what delivering the waiting payloads leads to -/
def DelOut (I : Bytes → Sock → Prop) (c : Cfg) (rh : Parser.ReqHead) (ent : Bytes) (n : Nat) (fed got toUp0 : Bytes)
    (st' : St) : Prop :=
  (ACore I c rh n fed st' ∧ st'.toUp = toUp0 ∧
    (st'.headersParsed = false → st'.upRead = got ∧ breakOn CRLF2 st'.upRead = none) ∧
    (st'.headersParsed = true → HeadSeen got true)) ∨
  DeadU c rh ent got st'

/-- **every chunking of the answer**: the waiting payloads are delivered one by one; either the
    forwarding phase goes on (nothing of the request side changed, `toUp` untouched) and the
    proxy's accumulator / `headersParsed` is what the bytes sent so far determine, or one chunk
    completed a head the parser refuses and the run is in the closed phase -/
theorem deliver_alive (hI : SockI env evs fedF rh ent I) (hU : SockU evs I) (c : Cfg) (n : Nat) (fed : Bytes)
    (hpre : fed <+: fedF) (got : Bytes) (cs : List Bytes) : ∀ (st : St), ACore I c rh n fed st →
    (st.headersParsed = false → st.upRead ++ cs.flatten = got ∧ breakOn CRLF2 st.upRead = none) →
    (st.headersParsed = true → HeadSeen got true) →
    DelOut I c rh ent n fed got st.toUp (deliverAll env cs st) := by
  induction cs with
  | nil =>
    intro st h h1 h2
    refine Or.inl ⟨h, rfl, fun hp => ?_, h2⟩
    have := h1 hp
    simp only [List.flatten_nil, List.append_nil] at this
    exact this
  | cons ch cs ih =>
    intro st h h1 h2
    show DelOut I c rh ent n fed got st.toUp (deliverAll env cs (onUpstreamReadyRead env st ch))
    have hdc := hU.dc h.inv
    rw [ourr_eq]
    by_cases hp : st.headersParsed = true
    · -- the head was relayed before: the chunk is passed on
      rw [if_pos hp]
      have w := api_write_wsame env st.sock ch hdc
      have hA := h.step_w hU w st.headersParsed st.upRead
      exact ih _ hA (fun hh => absurd hp (by rw [show st.headersParsed = false from hh]; simp)) (fun _ => h2 hp)
    · have hp' : st.headersParsed = false := by simpa using hp
      rw [if_neg hp]
      obtain ⟨a1, a2⟩ := h1 hp'
      have hgot : (st.upRead ++ ch) ++ cs.flatten = got := by
        rw [← a1]; simp
      cases hb : breakOn CRLF2 (st.upRead ++ ch) with
      | none =>
        simp only []
        have hA : ACore I c rh n fed { st with upRead := st.upRead ++ ch } :=
          ⟨h.inv, h.relay.transfer rfl rfl rfl rfl rfl rfl rfl rfl rfl rfl rfl, h.nev, h.conn⟩
        exact ih _ hA (fun _ => ⟨hgot, hb⟩) (fun hh => absurd hp' (by rw [show st.headersParsed = true from hh]; simp))
      | some pr =>
        obtain ⟨hd, rest⟩ := pr
        simp only []
        have hseen : ∀ ok, (Parser.parseResponseHeaders hd).isSome = ok → HeadSeen got ok :=
          fun ok hk => ⟨st.upRead ++ ch, hd, rest, ⟨cs.flatten, hgot⟩, hb, hk⟩
        cases hpr : Parser.parseResponseHeaders hd with
        | none =>
          simp only []
          exact Or.inr (deliver_dead env cs (h.dead hI hpre (hseen false (by rw [hpr]; rfl)) _))
        | some tr =>
          obtain ⟨code, reason, hs⟩ := tr
          simp only []
          have w := relayedSock_wsame env st.sock code reason hs rest hdc
          have hA := h.step_w hU w true []
          have hok := hseen true (by rw [hpr]; rfl)
          exact ih _ hA (fun hh => by cases hh) (fun _ => hok)

end deliver

/-! ### the scan of the event list, one event -/

theorem upScanStep_fed (u : UpScan) (e : PEv) (he : relayPEvU e = true) :
    (upScanStep u e).fed = u.fed ++ evBytesOf (proj e) := by
  cases e with
  | sock ev => cases ev <;> simp [relayPEvU, relayPEv] at he <;> simp [upScanStep, proj, evBytesOf]
  | turn => simp [upScanStep, proj, evBytesOf]
  | up b =>
    simp only [upScanStep, proj, evBytesOf, List.append_nil]
    split <;> rfl
  | upClose => simp [relayPEvU, relayPEv] at he

theorem upScanStep_sock (u : UpScan) (ev : Event) :
    (upScanStep u (.sock ev)).conn = u.conn ∧ (upScanStep u (.sock ev)).got = u.got := by
  cases ev <;> exact ⟨rfl, rfl⟩

theorem upScanStep_got (u : UpScan) (e : PEv) : u.got <+: (upScanStep u e).got := by
  cases e with
  | sock ev => rw [(upScanStep_sock u ev).2]; exact List.prefix_refl _
  | turn => exact List.prefix_refl _
  | up b =>
    simp only [upScanStep]
    split
    · exact List.prefix_append _ _
    · exact List.prefix_refl _
  | upClose => exact List.prefix_refl _

/-! ### one event in the closed phase -/

theorem routed_dead (hpB : Nat) (st : St) (s1 : Sock) (h1 : st.conn = .connected) (h2 : st.headersWritten = true)
    (h3 : st.seenRd = (rdsOf st.sock.log).length) (h4 : rdsOf s1.log = rdsOf st.sock.log) :
    routed hpB st s1 = { st with sock := s1 } := by
  obtain ⟨sock, conn, buf, hw, hpd, upRead, toUp, fromUp, upClosing, errored, seenRd⟩ := st
  simp only at h1 h2 h3 h4
  subst h1 h2 h3
  simp [routed, relayReads, afterRoute, h4]

theorem marker_def (st : St) :
    marker st = if st.sock.alive = true
      then { st with sock := { st.sock with log := st.sock.log ++ [Obs.ev (countEv st.sock.log)] } } else st := by
  unfold marker
  simp only []
  by_cases ha : st.sock.alive = true
  · rw [if_neg (by simp [ha]), if_pos ha]; rfl
  · rw [if_pos (by simpa using ha), if_neg ha]

theorem marker_eq (st : St) : marker st = { st with sock := (marker st).sock } := by
  rw [marker_def]; split <;> rfl

theorem marker_drel (st : St) : DRel st.sock (marker st).sock := by
  rw [marker_def]; split
  · exact DRel.one _ _ rfl
  · exact DRel.refl _

theorem marker_alive (st : St) (ha : st.sock.alive = true) :
    marker st = { st with sock := { st.sock with log := st.sock.log ++ [Obs.ev (countEv st.sock.log)] } } := by
  rw [marker_def, if_pos ha]

theorem step_up_eq (env : Env) (c : Cfg) (st : St) (b : Bytes) :
    step env c st (.up b) =
      if st.conn = .connected then { st with sock := (marker st).sock, fromUp := st.fromUp ++ [b] }
      else { st with sock := (marker st).sock } := by
  show (if (marker st).conn == .connected then { marker st with fromUp := (marker st).fromUp ++ [b] } else marker st) = _
  rw [marker_eq st]
  by_cases h : st.conn = .connected
  · rw [if_pos h, if_pos (by simp [h])]
  · rw [if_neg h, if_neg (by simpa using h)]

theorem flush_dead (env : Env) {c : Cfg} {rh : Parser.ReqHead} {ent got : Bytes} {st : St}
    (h : DeadU c rh ent got st) : DeadU c rh ent got (connectFlushR env c st) := by
  obtain ⟨sock, conn, buf, hw, hpd, upRead, toUp, fromUp, upClosing, errored, seenRd⟩ := st
  obtain ⟨hcl, hcn, hhw, hbuf, huc, hseen, ⟨d, u1, u2⟩, hpre, hbad⟩ := h
  simp only at hcl hcn hhw hbuf huc hseen u1 u2 hpre
  subst hcn
  by_cases ht : toUp.isEmpty = true
  · have e : connectFlushR env c ⟨sock, .connected, buf, hw, hpd, upRead, toUp, fromUp, upClosing, errored, seenRd⟩ =
        ⟨sock, .connected, buf, hw, hpd, upRead, toUp, fromUp, upClosing, errored, seenRd⟩ := by
      simp [connectFlushR, ht]
    rw [e]
    exact ⟨hcl, rfl, hhw, hbuf, huc, hseen, ⟨d, u1, u2⟩, hpre, hbad⟩
  · have ht' : toUp.isEmpty = false := by simpa using ht
    have e : connectFlushR env c ⟨sock, .connected, buf, hw, hpd, upRead, toUp, fromUp, upClosing, errored, seenRd⟩ =
        ⟨{ sock with log := sock.log ++ [Obs.misc 20 toUp] }, .connected, buf, hw, hpd, upRead, [], fromUp, upClosing,
          errored, seenRd⟩ := by
      simp [connectFlushR, ht']
    rw [e]
    refine ⟨hcl, rfl, hhw, hbuf, huc, ?_, ⟨d ++ toUp, ?_, ?_⟩, ?_, hbad⟩
    · show seenRd = (rdsOf (sock.log ++ [Obs.misc 20 toUp])).length
      rw [rdsOf_append, hseen]; simp [rdsOf]
    · show upBytes (sock.log ++ [Obs.misc 20 toUp]) = _
      rw [upBytes_append, u1]; simp [upBytes]
    · show d ++ toUp ++ [] = Obs.reads (sock.log ++ [Obs.misc 20 toUp])
      rw [reads_append, ← u2]; simp [Obs.reads]
    · show Obs.reads (sock.log ++ [Obs.misc 20 toUp]) <+: ent
      rw [reads_append]
      simpa [Obs.reads] using hpre

theorem closePhase_id (env : Env) (st : St) (h : st.upClosing = false) : closePhase env st = st := by
  unfold closePhase
  rw [if_neg (by simp [h])]

theorem tail_dead (env : Env) {c : Cfg} {rh : Parser.ReqHead} {ent got : Bytes} {st : St}
    (h : DeadU c rh ent got st) : DeadU c rh ent got (delPhase (closePhase env st)) := by
  rw [closePhase_id env st h.upClosing]
  exact h.of_drel (del_drel st.sock) rfl rfl rfl rfl rfl rfl

theorem deliverPhase_dead (env : Env) {c : Cfg} {rh : Parser.ReqHead} {ent got : Bytes} {st : St}
    (h : DeadU c rh ent got st) : DeadU c rh ent got (deliverPhase env st) := by
  unfold deliverPhase
  rw [if_pos (by simp [h.conn])]
  exact deliver_dead env _ (h.of_drel (st' := { st with fromUp := [] }) (DRel.refl _) rfl rfl rfl rfl rfl rfl)

/-- **the closed phase is stable**: whatever comes next (client segments, turns, upstream
    payloads), nothing more is read from the client and nothing more goes upstream than what was
    in flight -/
theorem dstep (env : Env) (c : Cfg) {rh : Parser.ReqHead} {ent : Bytes} (u : UpScan) (e : PEv)
    (he : relayPEvU e = true) {st : St} (h : DeadU c rh ent u.got st) :
    DeadU c rh ent (upScanStep u e).got (step env c st e) := by
  refine DeadU.mono ?_ (upScanStep_got u e)
  cases e with
  | upClose => simp [relayPEvU, relayPEv] at he
  | up b =>
    rw [step_up_eq]
    split
    · exact h.of_drel (marker_drel st) rfl rfl rfl rfl rfl rfl
    · exact h.of_drel (marker_drel st) rfl rfl rfl rfl rfl rfl
  | sock ev =>
    show DeadU c rh ent u.got (sockEvent env st ev)
    rw [sockEvent_eq]
    obtain ⟨d1, _⟩ := stepK_closed env st.sock (countEv st.sock.log) ev (relaySock_projU (e := .sock ev) he) h.closed
    rw [routed_dead _ st _ h.conn h.hw h.seen d1.logs.1]
    exact h.of_drel d1 rfl rfl rfl rfl rfl rfl
  | turn =>
    show DeadU c rh ent u.got (turn env c st)
    rw [turn_eq0]
    split
    · exact h
    · have d1 := turnSock_closed env st.sock (countEv st.sock.log) h.closed
      rw [routed_dead _ st _ h.conn h.hw h.seen d1.logs.1]
      have h1 : DeadU c rh ent u.got { st with sock := turnSock env st.sock (countEv st.sock.log) } :=
        h.of_drel d1 rfl rfl rfl rfl rfl rfl
      exact tail_dead env (deliverPhase_dead env (flush_dead env h1))

/-! ### one event in the forwarding phase -/

section alive
variable {env : Env} {evs : List Event} {fedF : Bytes} {rh : Parser.ReqHead} {ent : Bytes}
  {I : Bytes → Sock → Prop}

/-- the upstream server writes: the payload waits for the next turn (or is lost when there is no
    connection yet); nothing else moves -/
theorem astep_up (hU : SockU evs I) (c : Cfg) (n : Nat) (fed : Bytes) (u : UpScan) (b : Bytes)
    (hk : evs[n]? = some .turn) (ha : ∀ {fed s}, I fed s → s.alive = true) {st : St}
    (h : AliveU I c rh n fed u st) :
    AliveU I c rh (n + 1) fed (upScanStep u (.up b)) (step env c st (.up b)) ∧
    (step env c st (.up b)).conn = st.conn ∧ (step env c st (.up b)).toUp = st.toUp := by
  obtain ⟨hR, hP, hn, hf, hL⟩ := h
  have hm := marker_alive st (ha hR)
  have hsk : (marker st).sock = { st.sock with log := st.sock.log ++ [Obs.ev n] } := by rw [hm, hn]
  have hR1 : I fed (marker st).sock := by rw [hsk]; exact hU.mark n hR hk
  have l1 : rdsOf (marker st).sock.log = rdsOf st.sock.log := by
    rw [hsk]; show rdsOf (st.sock.log ++ [Obs.ev n]) = _; rw [rdsOf_append]; simp [rdsOf]
  have l2 : upBytes (marker st).sock.log = upBytes st.sock.log := by
    rw [hsk]; show upBytes (st.sock.log ++ [Obs.ev n]) = _; rw [upBytes_append]; simp [upBytes]
  have l3 : Obs.reads (marker st).sock.log = Obs.reads st.sock.log := by
    rw [hsk]; show Obs.reads (st.sock.log ++ [Obs.ev n]) = _; rw [reads_append]; simp [Obs.reads]
  have l4 : countEv (marker st).sock.log = n + 1 := by
    rw [hsk]; show countEv (st.sock.log ++ [Obs.ev n]) = _; rw [countEv_append, hn]; rfl
  have hrs : (marker st).sock.rs = st.sock.rs := by rw [hsk]
  rw [step_up_eq]
  by_cases hc : st.conn = .connected
  · rw [if_pos hc]
    have hu : u.conn = true := hL.conn.mpr hc
    have hu' : upScanStep u (.up b) = { u with got := u.got ++ b } := by simp [upScanStep, hu]
    rw [hu']
    refine ⟨⟨hR1, hP.transfer rfl rfl rfl rfl rfl rfl rfl hrs l1 l2 l3, l4, hf,
      ⟨⟨fun _ => hc, fun _ => hu⟩, fun h' => absurd hc h', fun hp => ?_, fun hp => (hL.ok hp).mono (List.prefix_append _ _)⟩⟩,
      rfl, rfl⟩
    obtain ⟨a1, a2⟩ := hL.acc hp
    refine ⟨?_, a2⟩
    show st.upRead ++ (st.fromUp ++ [b]).flatten = u.got ++ b
    rw [← a1]; simp
  · rw [if_neg hc]
    have hu : u.conn = false := by
      cases hh : u.conn with
      | false => rfl
      | true => exact absurd (hL.conn.mp hh) hc
    have hu' : upScanStep u (.up b) = u := by simp [upScanStep, hu]
    rw [hu']
    exact ⟨⟨hR1, hP.transfer rfl rfl rfl rfl rfl rfl rfl hrs l1 l2 l3, l4, hf,
      ⟨hL.conn, hL.pend, hL.acc, hL.ok⟩⟩, rfl, rfl⟩

/-- a client segment (or `new`) -/
theorem astep_sock (hI : SockI env evs fedF rh ent I) (c : Cfg) (n : Nat) (fed : Bytes) (u : UpScan) (ev : Event)
    (he : relayPEvU (.sock ev) = true) (hk : evs[n]? = some ev) (hpre : (fed ++ evBytesOf ev) <+: fedF) {st : St}
    (h : AliveU I c rh n fed u st) :
    AliveU I c rh (n + 1) (fed ++ evBytesOf ev) (upScanStep u (.sock ev)) (step env c st (.sock ev)) := by
  obtain ⟨hR, hP, hn, hf, hL⟩ := h
  obtain ⟨hR1, hls, _⟩ := hI.step ev n hR hk (relaySock_projU (e := .sock ev) he) hpre
  have hrel : Relay c rh (routed (Obs.countP Obs.isHp st.sock.log) (clr st) (Sock.stepK env Proxy.app (st.sock, n) ev).1) :=
    routed_relay (st := clr st) hP hls (hI.hpCount hR) (hI.hpCount hR1) (hI.readsNil hR)
  rw [routed_clr] at hrel
  have hsock := routed_sock (Obs.countP Obs.isHp st.sock.log) st (Sock.stepK env Proxy.app (st.sock, n) ev).1
  obtain ⟨f1, f2, f3, f4, f5⟩ := routed_frame (Obs.countP Obs.isHp st.sock.log) st (Sock.stepK env Proxy.app (st.sock, n) ev).1
  have e0 : step env c st (.sock ev) =
      routed (Obs.countP Obs.isHp st.sock.log) st (Sock.stepK env Proxy.app (st.sock, n) ev).1 := by
    show sockEvent env st ev = _
    rw [sockEvent_eq, hn]
  rw [e0]
  obtain ⟨s1, s2⟩ := upScanStep_sock u ev
  refine ⟨by rw [hsock]; exact hR1, hrel, by rw [hsock, hls.countEv, hn], ?_, ⟨?_, ?_, ?_, ?_⟩⟩
  · rw [upScanStep_fed u _ he, hf]; rfl
  · rw [s1, f5]; exact hL.conn
  · intro hc; rw [f1]; exact hL.pend (fun h' => hc (f5.mpr h'))
  · intro hp; rw [f4, f1, s2]; exact hL.acc (f3.symm.trans hp)
  · intro hp; rw [s2]; exact hL.ok (f3.symm.trans hp)

/-- the state of a turn after the client side and the connection have been dealt with -/
def flushed (env : Env) (c : Cfg) (st : St) (n : Nat) : St :=
  connectFlush c (routed (Obs.countP Obs.isHp st.sock.log) st (turnSock env st.sock n))

/-- a turn, up to the point where the waiting upstream payloads are delivered -/
theorem turn_pre (hI : SockI env evs fedF rh ent I) (c : Cfg) (hc : c.refuse = false) (n : Nat) (fed : Bytes)
    (u : UpScan) (hk : evs[n]? = some .turn) (hpre : fed <+: fedF) {st : St} (h : AliveU I c rh n fed u st) :
    I fed (flushed env c st n).sock ∧ countEv (flushed env c st n).sock.log = n + 1 ∧
    Relay c rh (clr (flushed env c st n)) ∧
    (st.sock.rs ≠ .headers → (flushed env c st n).conn = .connected ∧ (flushed env c st n).toUp = []) ∧
    step env c st .turn = delPhase (closePhase env (deliverPhase env (flushed env c st n))) ∧
    (flushed env c st n).fromUp = st.fromUp ∧ (flushed env c st n).headersParsed = st.headersParsed ∧
    (flushed env c st n).upRead = st.upRead ∧
    (st.conn = .connected → (flushed env c st n).conn = .connected) ∧
    (flushed env c st n).conn ≠ .connecting := by
  obtain ⟨hR, hP, hn, hf, hL⟩ := h
  obtain ⟨hR1, hls, ht1⟩ := hI.step .turn n hR hk rfl (by simpa [evBytesOf] using hpre)
  have hts' : (Sock.stepK env Proxy.app (st.sock, n) Event.turn).1 = turnSock env st.sock n := ht1 rfl
  rw [hts'] at hR1 hls
  simp only [evBytesOf, List.append_nil] at hR1
  have hrel : Relay c rh (routed (Obs.countP Obs.isHp st.sock.log) (clr st) (turnSock env st.sock n)) :=
    routed_relay (st := clr st) hP hls (hI.hpCount hR) (hI.hpCount hR1) (hI.readsNil hR)
  have hsock := routed_sock (Obs.countP Obs.isHp st.sock.log) st (turnSock env st.sock n)
  have hsockc := routed_sock (Obs.countP Obs.isHp st.sock.log) (clr st) (turnSock env st.sock n)
  obtain ⟨cf1, cf2, cf3⟩ := connectFlush_good hrel (by rw [hsockc]; exact hI.fields hR1)
  rw [routed_clr, connectFlush_clr] at cf1 cf2 cf3
  rw [routed_clr] at hsockc
  -- `clr` does not touch the socket, the connection state or `toUp`
  have k1 : ∀ x : St, (clr x).sock = x.sock := fun _ => rfl
  have k2 : ∀ x : St, (clr x).conn = x.conn := fun _ => rfl
  have k3 : ∀ x : St, (clr x).toUp = x.toUp := fun _ => rfl
  rw [k1, k1] at cf2
  rw [k1, k2, k3] at cf3
  rw [k1] at hsockc
  have hRx : I fed (flushed env c st n).sock ∧ countEv (flushed env c st n).sock.log = n + 1 := by
    rcases cf2 with e | ⟨b, e⟩
    · show I fed (connectFlush c _).sock ∧ countEv (connectFlush c _).sock.log = n + 1
      rw [e, hsock]; exact ⟨hR1, by rw [hls.countEv, hn]⟩
    · show I fed (connectFlush c _).sock ∧ countEv (connectFlush c _).sock.log = n + 1
      rw [e, hsock]
      refine ⟨hI.misc b hR1, ?_⟩
      show countEv ((turnSock env st.sock n).log ++ [Obs.misc 20 b]) = n + 1
      rw [countEv_append, hls.countEv, hn]; rfl
  obtain ⟨r1, r2, r3, r4, r5⟩ := routed_frame (Obs.countP Obs.isHp st.sock.log) st (turnSock env st.sock n)
  obtain ⟨g1, g2, g3, g4, g5, g6⟩ := connectFlush_frame c (routed (Obs.countP Obs.isHp st.sock.log) st (turnSock env st.sock n))
  refine ⟨hRx.1, hRx.2, cf1, fun hne => ?_, ?_, g1.trans r1, g3.trans r3, g4.trans r4, fun h' => g5 (r5.mpr h'), g6⟩
  · apply cf3
    rw [hsock]
    intro h1
    have m := hls.countHp
    rw [hI.hpCount hR, hI.hpCount hR1, if_neg hne, if_pos h1] at m
    omega
  · show turn env c st = _
    rw [turn_eq0, if_neg (by simp [(hI.flags hR).1]), connectFlushR_eq env c _ hc, hn]
    rfl

theorem delPhase_id (st : St) (h : st.sock.delPending = false) : delPhase st = st := by
  unfold delPhase
  rw [if_neg (by simp [h])]

theorem deliverPhase_conn (env : Env) (st : St) (h : st.conn = .connected) :
    deliverPhase env st = deliverAll env st.fromUp (clr st) := by
  unfold deliverPhase
  rw [if_pos (by simp [h])]
  rfl

theorem deliverPhase_nconn (env : Env) (st : St) (h : st.conn ≠ .connected) : deliverPhase env st = st := by
  unfold deliverPhase
  rw [if_neg (by simpa using h)]

/-- **one turn in the forwarding phase**, with payloads of the upstream server waiting: the
    client side and the connection are dealt with as if the upstream server were silent, then the
    payloads are delivered.  Either the forwarding phase goes on — and after a turn that starts
    past the client's head the connection is up and nothing is in flight — or a refused response
    head ends it. -/
theorem astep_turn (hI : SockI env evs fedF rh ent I) (hU : SockU evs I) (c : Cfg) (hc : c.refuse = false)
    (n : Nat) (fed : Bytes) (u : UpScan) (hk : evs[n]? = some .turn) (hpre : fed <+: fedF) {st : St}
    (h : AliveU I c rh n fed u st) :
    (AliveU I c rh (n + 1) fed (upScanStep u .turn) (step env c st .turn) ∧
      (st.sock.rs ≠ .headers → (step env c st .turn).conn = .connected ∧ (step env c st .turn).toUp = [])) ∨
    DeadU c rh ent (upScanStep u .turn).got (step env c st .turn) := by
  obtain ⟨p1, p2, p3, p4, p5, p6, p7, p8, p9, p10⟩ := turn_pre hI c hc n fed u hk hpre h
  obtain ⟨hR, hP, hn, hf, hL⟩ := h
  rw [p5]
  generalize flushed env c st n = st2 at p1 p2 p3 p4 p6 p7 p8 p9 p10 ⊢
  have hiff := hU.hdrIff p1
  have hconn2 : st2.conn = .connected ↔ breakOn CRLF2 fed ≠ none := by
    constructor
    · intro hc2 hb
      have : st2.conn = .none := p3.connNone.mpr (hiff.mpr hb)
      rw [hc2] at this; cases this
    · intro hb
      have hne : st2.conn ≠ .none := fun h' => hb (hiff.mp (p3.connNone.mp h'))
      cases hcc : st2.conn with
      | none => exact absurd hcc hne
      | connecting => exact absurd hcc p10
      | connected => rfl
      | closed => exact absurd hcc p3.notClosed
  have hu' : (upScanStep u .turn).conn = true ↔ breakOn CRLF2 fed ≠ none := by
    show (u.conn || (breakOn CRLF2 u.fed).isSome) = true ↔ _
    rw [hf, Bool.or_eq_true]
    constructor
    · rintro (h1 | h1)
      · intro hb
        have hc0 : st.conn = .connected := hL.conn.mp h1
        have : st.conn = .none := hP.connNone.mpr ((hU.hdrIff hR).mpr hb)
        rw [hc0] at this; cases this
      · intro hb; rw [hb] at h1; cases h1
    · intro hb
      right
      cases hbb : breakOn CRLF2 fed with
      | none => exact absurd hbb hb
      | some x => rfl
  by_cases hc2 : st2.conn = .connected
  · rw [deliverPhase_conn env st2 hc2]
    have hA : ACore I c rh (n + 1) fed (clr st2) := ⟨p1, p3, p2, hc2⟩
    have hD := deliver_alive hI hU c (n + 1) fed hpre u.got st2.fromUp (clr st2) hA
      (fun hp => by
        show st2.upRead ++ st2.fromUp.flatten = u.got ∧ breakOn CRLF2 st2.upRead = none
        rw [p6, p8]; exact hL.acc (p7.symm.trans hp))
      (fun hp => hL.ok (p7.symm.trans hp))
    generalize deliverAll env st2.fromUp (clr st2) = st3 at hD ⊢
    rcases hD with ⟨a1, a2, a3, a4⟩ | hdead
    · rw [closePhase_id env st3 a1.relay.upClosing, delPhase_id st3 (hI.flags a1.inv).2]
      left
      refine ⟨⟨a1.inv, a1.relay.transfer (st' := clr st3) rfl a1.relay.fromUp.symm rfl rfl rfl rfl rfl rfl rfl rfl rfl,
        a1.nev, hf, ⟨⟨fun _ => a1.conn, fun _ => hu'.mpr (hconn2.mp hc2)⟩, fun h' => absurd a1.conn h', fun hp => ?_, a4⟩⟩,
        fun hne => ⟨a1.conn, a2.trans (p4 hne).2⟩⟩
      obtain ⟨b1, b2⟩ := a3 hp
      refine ⟨?_, b2⟩
      show st3.upRead ++ st3.fromUp.flatten = u.got
      rw [a1.relay.fromUp]
      simpa using b1
    · right
      exact tail_dead env hdead
  · rw [deliverPhase_nconn env st2 hc2, closePhase_id env st2 p3.upClosing, delPhase_id st2 (hI.flags p1).2]
    left
    refine ⟨⟨p1, p3, p2, hf, ⟨hu'.trans hconn2.symm, fun _ => p6.trans (hL.pend (fun h' => hc2 (p9 h'))),
      fun hp => ?_, fun hp => hL.ok (p7.symm.trans hp)⟩⟩, fun hne => absurd (p4 hne).1 hc2⟩
    rw [p8, p6]; exact hL.acc (p7.symm.trans hp)

end alive

/-! ### whole runs -/

/-- between two events of a run: forwarding, or closed after a refused response head -/
def PU (I : Bytes → Sock → Prop) (c : Cfg) (rh : Parser.ReqHead) (ent : Bytes) (n : Nat) (fed : Bytes)
    (u : UpScan) (st : St) : Prop :=
  AliveU I c rh n fed u st ∨ DeadU c rh ent u.got st

section runs
variable {env : Env} {evs : List Event} {fedF : Bytes} {rh : Parser.ReqHead} {ent : Bytes}
  {I : Bytes → Sock → Prop}

theorem pstep_up (hI : SockI env evs fedF rh ent I) (hU : SockU evs I) (c : Cfg) (hc : c.refuse = false)
    (fed : Bytes) (u : UpScan) (e : PEv) (he : relayPEvU e = true) (n : Nat) (hk : evs[n]? = some (proj e))
    (hpre : (fed ++ evBytesOf (proj e)) <+: fedF) {st : St} (h : PU I c rh ent n fed u st) :
    PU I c rh ent (n + 1) (fed ++ evBytesOf (proj e)) (upScanStep u e) (step env c st e) := by
  rcases h with h | h
  · cases e with
    | upClose => simp [relayPEvU, relayPEv] at he
    | sock ev => exact Or.inl (astep_sock hI c n fed u ev he hk hpre h)
    | turn =>
      simp only [proj, evBytesOf, List.append_nil] at hpre ⊢
      rcases astep_turn hI hU c hc n fed u hk hpre h with ⟨a, _⟩ | d
      · exact Or.inl a
      · exact Or.inr d
    | up b =>
      simp only [proj, evBytesOf, List.append_nil] at hpre ⊢
      exact Or.inl (astep_up hU c n fed u b hk (fun h' => (hI.flags h').1) h).1
  · exact Or.inr (dstep env c u e he h)

theorem PU_init (hI : SockI env evs fedF rh ent I) (c : Cfg) : PU I c rh ent 0 [] ({} : UpScan) ({} : St) := by
  refine Or.inl ⟨hI.init, ?_, rfl, rfl, ⟨?_, fun _ => rfl, fun _ => ⟨rfl, by decide⟩, fun h => by cases h⟩⟩
  · exact ⟨rfl, rfl, rfl, ⟨fun _ => rfl, fun _ => rfl⟩, fun _ => ⟨rfl, rfl, rfl, rfl⟩,
      (fun h => nomatch h), (fun h => nomatch h), (fun h => nomatch h)⟩
  · exact ⟨fun h => (by cases h), fun h => (by cases h)⟩

end runs

theorem upScan_append (a b : List PEv) : upScan (a ++ b) = b.foldl upScanStep (upScan a) := by
  simp [upScan, List.foldl_append]

theorem pfold_up {env : Env} {pevs : List PEv} {rh : Parser.ReqHead} {ent : Bytes}
    {I : Bytes → Sock → Prop} (hI : SockI env (pevs.map proj) (fedP pevs) rh ent I)
    (hU : SockU (pevs.map proj) I) (c : Cfg) (hc : c.refuse = false) :
    ∀ (mid pre post : List PEv) (st : St), pevs = pre ++ mid ++ post →
      (∀ e ∈ mid, relayPEvU e = true) →
      PU I c rh ent pre.length (fedP pre) (upScan pre) st →
      PU I c rh ent (pre ++ mid).length (fedP (pre ++ mid)) (upScan (pre ++ mid)) (mid.foldl (step env c) st) := by
  intro mid
  induction mid with
  | nil => intro pre post st _ _ h; simpa using h
  | cons e mid ih =>
    intro pre post st hevs hok h
    have hk : (pevs.map proj)[pre.length]? = some (proj e) := by
      rw [hevs]; simp
    have hpre : (fedP pre ++ evBytesOf (proj e)) <+: fedP pevs := by
      rw [hevs]
      have : pre ++ e :: mid ++ post = (pre ++ [e]) ++ (mid ++ post) := by simp
      rw [this, fedP_append, fedP_append, fedP_single]
      exact List.prefix_append _ _
    have h1 := pstep_up hI hU c hc (fedP pre) (upScan pre) e (hok e (by simp)) pre.length hk hpre h
    rw [List.foldl_cons]
    have := ih (pre ++ [e]) post (step env c st e) (by rw [hevs]; simp)
      (fun e' he' => hok e' (by simp [he']))
      (by rw [fedP_append, fedP_single, List.length_append, List.length_singleton, upScan_append]; exact h1)
    simpa using this

/-- **the invariant holds after every prefix of a run** `new (feed | turn | up)*` -/
theorem prun_up {env : Env} {pevs : List PEv} {rh : Parser.ReqHead} {ent : Bytes}
    {I : Bytes → Sock → Prop} (hI : SockI env (pevs.map proj) (fedP pevs) rh ent I)
    (hU : SockU (pevs.map proj) I) (c : Cfg) (hc : c.refuse = false)
    (pre post : List PEv) (hevs : pevs = pre ++ post) (hok : ∀ e ∈ pre, relayPEvU e = true) :
    PU I c rh ent pre.length (fedP pre) (upScan pre) (Proxy.run env c pre) := by
  have := pfold_up hI hU c hc pre [] post {} (by simpa using hevs) hok
    (by simpa [fedP, fed_eq, upScan] using PU_init hI c)
  simpa [Proxy.run] using this

/-- the closed phase through any further events -/
theorem dfold (env : Env) (c : Cfg) {rh : Parser.ReqHead} {ent : Bytes} :
    ∀ (l : List PEv) (u : UpScan) (st : St), (∀ e ∈ l, relayPEvU e = true) → DeadU c rh ent u.got st →
      DeadU c rh ent (l.foldl upScanStep u).got (l.foldl (step env c) st) := by
  intro l
  induction l with
  | nil => intro u st _ h; exact h
  | cons e l ih =>
    intro u st hok h
    exact ih _ _ (fun e' he' => hok e' (by simp [he'])) (dstep env c u e (hok e (by simp)) h)

/-- upstream payloads alone move neither the connection state nor what is in flight upstream -/
theorem ups_frame (env : Env) (c : Cfg) : ∀ (post : List PEv) (st : St), (∀ e ∈ post, ∃ b, e = PEv.up b) →
    (post.foldl (step env c) st).conn = st.conn ∧ (post.foldl (step env c) st).toUp = st.toUp := by
  intro post
  induction post with
  | nil => intro st _; exact ⟨rfl, rfl⟩
  | cons e post ih =>
    intro st hall
    obtain ⟨b, rfl⟩ := hall e (by simp)
    obtain ⟨i1, i2⟩ := ih (step env c st (.up b)) (fun e' he' => hall e' (by simp [he']))
    rw [List.foldl_cons, i1, i2, step_up_eq]
    split <;> exact ⟨rfl, rfl⟩

theorem fedP_ups : ∀ (post : List PEv), (∀ e ∈ post, ∃ b, e = PEv.up b) → fedP post = [] := by
  intro post
  induction post with
  | nil => intro _; rfl
  | cons e post ih =>
    intro hall
    obtain ⟨b, rfl⟩ := hall (e) (by simp)
    have : PEv.up b :: post = [PEv.up b] ++ post := rfl
    rw [this, fedP_append, fedP_single, ih (fun e' he' => hall e' (by simp [he']))]
    rfl

/-- after the last event-loop turn only upstream payloads follow -/
def TurnTail (pevs : List PEv) : Prop :=
  ∃ pre post, pevs = pre ++ PEv.turn :: post ∧ ∀ e ∈ post, ∃ b, e = PEv.up b

/-- **the relay invariant at the end of a run** `new (feed | turn | up)*`, for every interleaving:
    either nothing has reached the upstream server yet (and then the run does not end with a turn
    followed by upstream payloads only), or what it received is the request head followed by `d`,
    a prefix of the entitled body — all of it when a turn has run since the complete stream
    arrived and the upstream server's answer, as far as sent, is not one the proxy turns into a
    502 (`Proxy.upHeadOk`). -/
theorem run_final_up {env : Env} {pevs : List PEv} {rh : Parser.ReqHead} {ent : Bytes}
    {I : Bytes → Sock → Prop} (hI : SockI env (pevs.map proj) (fedP pevs) rh ent I)
    (hU : SockU (pevs.map proj) I) (c : Cfg) (hc : c.refuse = false)
    (hok : ∀ e ∈ pevs, relayPEvU e = true) :
    (upBytes (Proxy.run env c pevs).sock.log = [] ∧ ¬ TurnTail pevs) ∨
    ∃ d, upBytes (Proxy.run env c pevs).sock.log = upstreamHead c (reqSock rh) ++ d ∧
      d <+: ent ∧ (TurnTail pevs → upHeadOk pevs = true → d = ent) := by
  -- the two phases at the end of the run
  have cdead : DeadU c rh ent (upScan pevs).got (Proxy.run env c pevs) →
      ∃ d, upBytes (Proxy.run env c pevs).sock.log = upstreamHead c (reqSock rh) ++ d ∧
        d <+: ent ∧ (TurnTail pevs → upHeadOk pevs = true → d = ent) := by
    intro h
    obtain ⟨d, u1, u2⟩ := h.up
    refine ⟨d, u1, (List.prefix_append d _).trans (by rw [u2]; exact h.pre), fun _ hk => ?_⟩
    have := h.bad.decides
    have hk' : (match breakOn CRLF2 (upScan pevs).got with
      | none => true
      | some (hd, _) => (Parser.parseResponseHeaders hd).isSome) = true := hk
    rw [this] at hk'; cases hk'
  have calive : AliveU I c rh pevs.length (fedP pevs) (upScan pevs) (Proxy.run env c pevs) →
      (TurnTail pevs → (Proxy.run env c pevs).conn = .connected ∧ (Proxy.run env c pevs).toUp = []) →
      (upBytes (Proxy.run env c pevs).sock.log = [] ∧ ¬ TurnTail pevs) ∨
      ∃ d, upBytes (Proxy.run env c pevs).sock.log = upstreamHead c (reqSock rh) ++ d ∧
        d <+: ent ∧ (TurnTail pevs → upHeadOk pevs = true → d = ent) := by
    intro h hturn
    obtain ⟨hR, hP, _, _, _⟩ := h
    have hne := hI.full hR
    have hreads := hI.readsPre hR (List.prefix_refl _)
    cases hconn : (Proxy.run env c pevs).conn with
    | none => exact absurd (hP.connNone.mp hconn) hne
    | connecting =>
      left
      refine ⟨(hP.connecting hconn).2.2.1, fun h => ?_⟩
      have := (hturn h).1
      rw [hconn] at this; cases this
    | connected =>
      right
      obtain ⟨_, _, d, e1, e2⟩ := hP.connected hconn
      refine ⟨d, e1, (List.prefix_append d _).trans (by rw [e2]; exact hreads), fun h _ => ?_⟩
      have ht : (Proxy.run env c pevs).toUp = [] := (hturn h).2
      have e2' : d ++ (Proxy.run env c pevs).toUp = Obs.reads (Proxy.run env c pevs).sock.log := e2
      rw [ht, List.append_nil] at e2'
      rw [e2']; exact hI.readsAll hR
    | closed => exact absurd hconn hP.notClosed
  have hF := prun_up hI hU c hc pevs [] (by simp) hok
  by_cases hT : TurnTail pevs
  · obtain ⟨pre, post, hpe, hall⟩ := hT
    have hT : TurnTail pevs := ⟨pre, post, hpe, hall⟩
    have hokpost : ∀ e ∈ post, relayPEvU e = true := by
      intro e he; obtain ⟨b, rfl⟩ := hall e he; rfl
    have hrun : Proxy.run env c pevs = post.foldl (step env c) (step env c (Proxy.run env c pre) .turn) := by
      rw [hpe]; simp [Proxy.run, List.foldl_append]
    have hscan : upScan pevs = post.foldl upScanStep (upScanStep (upScan pre) .turn) := by
      rw [hpe, upScan_append]; rfl
    have hIp := prun_up hI hU c hc pre (PEv.turn :: post) hpe (fun e he => hok e (by rw [hpe]; simp [he]))
    have hfp : fedP pre = fedP pevs := by
      rw [hpe, fedP_append]
      have : PEv.turn :: post = [PEv.turn] ++ post := rfl
      rw [this, fedP_append, fedP_single, fedP_ups post hall]
      simp [proj, evBytesOf]
    rcases hIp with ha | hd
    · have hk : (pevs.map proj)[pre.length]? = some Event.turn := by rw [hpe]; simp [proj]
      rcases astep_turn hI hU c hc pre.length (fedP pre) (upScan pre) hk (by rw [hfp]; exact List.prefix_refl _) ha
        with ⟨_, a2⟩ | d2
      · have hfacts := a2 (hI.full (by rw [← hfp]; exact ha.inv))
        obtain ⟨i1, i2⟩ := ups_frame env c post (step env c (Proxy.run env c pre) .turn) hall
        rcases hF with hfa | hfd
        · exact calive hfa (fun _ => by rw [hrun, i1, i2]; exact hfacts)
        · exact Or.inr (cdead hfd)
      · have := dfold env c post _ _ hokpost d2
        rw [← hrun, ← hscan] at this
        exact Or.inr (cdead this)
    · have := dfold env c (PEv.turn :: post) _ _
        (fun e he => hok e (by rw [hpe]; simp; exact Or.inr (by simpa using he))) hd
      have hrun' : Proxy.run env c pevs = (PEv.turn :: post).foldl (step env c) (Proxy.run env c pre) := by
        rw [hrun]; rfl
      have hscan' : upScan pevs = (PEv.turn :: post).foldl upScanStep (upScan pre) := by
        rw [hscan]; rfl
      rw [← hrun', ← hscan'] at this
      exact Or.inr (cdead this)
  · rcases hF with hfa | hfd
    · exact calive hfa (fun h => absurd h hT)
    · exact Or.inr (cdead hfd)

/-! ### streams without an acceptable head: the upstream server is never connected to -/

theorem pstep_bad_up (env : Env) (c : Cfg) (fedF fed : Bytes) (hbad : BadStream env fedF)
    (e : PEv) (he : relayPEvU e = true) (hpre : (fed ++ evBytesOf (proj e)) <+: fedF)
    {st : St} (h : WInv fed st) : WInv (fed ++ evBytesOf (proj e)) (step env c st e) := by
  cases e with
  | sock ev => exact pstep_bad env c fedF fed hbad (.sock ev) he hpre h
  | turn => exact pstep_bad env c fedF fed hbad .turn rfl hpre h
  | upClose => simp [relayPEvU, relayPEv] at he
  | up b =>
    simp only [proj, evBytesOf, List.append_nil]
    obtain ⟨hJ, hcn, htu⟩ := h
    rw [step_up_eq, if_neg (by rw [hcn]; simp)]
    refine ⟨?_, hcn, htu⟩
    show JInv fed (marker st).sock
    rw [marker_def]
    split
    · exact hJ.snoc (Obs.ev _) rfl rfl
    · exact hJ

/-- **nothing reaches the upstream server** when the stream has no acceptable head, for every run
    `new / feed / turn / up` in any order (an upstream server that is never connected to has
    nothing to write on) -/
theorem run_bad_up (env : Env) (c : Cfg) (pevs : List PEv) (hbad : BadStream env (fedP pevs))
    (hok : ∀ e ∈ pevs, relayPEvU e = true) :
    upBytes (Proxy.run env c pevs).sock.log = [] := by
  have key : ∀ (mid pre post : List PEv) (st : St), pevs = pre ++ mid ++ post →
      (∀ e ∈ mid, relayPEvU e = true) → WInv (fedP pre) st →
      WInv (fedP (pre ++ mid)) (mid.foldl (step env c) st) := by
    intro mid
    induction mid with
    | nil => intro pre post st _ _ h; simpa using h
    | cons e mid ih =>
      intro pre post st hevs hok' h
      have hpre : (fedP pre ++ evBytesOf (proj e)) <+: fedP pevs := by
        rw [hevs]
        have : pre ++ e :: mid ++ post = (pre ++ [e]) ++ (mid ++ post) := by simp
        rw [this, fedP_append, fedP_append, fedP_single]
        exact List.prefix_append _ _
      have h1 := pstep_bad_up env c (fedP pevs) (fedP pre) hbad e (hok' e (by simp)) hpre h
      rw [List.foldl_cons]
      have := ih (pre ++ [e]) post (step env c st e) (by rw [hevs]; simp)
        (fun e' he' => hok' e' (by simp [he'])) (by rw [fedP_append, fedP_single]; exact h1)
      simpa using this
  have := key pevs [] [] {} (by simp) hok (by simpa [fedP, fed_eq] using (⟨JInv_init, rfl, rfl⟩ : WInv [] ({} : St)))
  have h2 : WInv (fedP pevs) (Proxy.run env c pevs) := by simpa [Proxy.run] using this
  exact h2.sock.up

end Qhttp.ProxyL
