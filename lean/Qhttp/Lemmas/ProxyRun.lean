import Qhttp.Lemmas.ProxyRelay
/-
  C12 — the invariant of whole proxy runs of the relay shape (`new`, client segments and turns
  in any order, the upstream server only listens).

  The shape with an upstream server that answers at any time (`up` events anywhere) is treated in
  `ProxyUpSock.lean` / `ProxyUp.lean` (`relayPEvU`, `AliveU` / `DeadU`, `prun_up`, `run_final_up`),
  generically in the socket invariant; the theorems of this file are its special case without `up`
  events and are kept as they were.
-/
namespace Qhttp.ProxyL
open Qhttp Proxy Qhttp.C02

/-! ### the upstream observation does not disturb the socket invariants -/

theorem rinv_misc {evs : List Event} {head : Bytes} {N : Nat} {fed : Bytes} {s : Sock}
    (h : RInv evs head N fed s) (b : Bytes) :
    RInv evs head N fed { s with log := s.log ++ [Obs.misc 20 b] } := by
  obtain ⟨a, hb, B, hm, hin, hrel⟩ := h
  exact ⟨none, hb, B,
    hm.sig (Obs.misc 20 b) (by intros; simp [walkL]) (by intros; simp [C02.wst]) rfl rfl rfl rfl,
    hin, hrel.of_rs rfl⟩

theorem Extra.misc {rh : Parser.ReqHead} {s : Sock} (h : Extra rh s) (b : Bytes) :
    Extra rh { s with log := s.log ++ [Obs.misc 20 b] } := h.of_eq rfl ⟨rfl, rfl, rfl⟩ rfl rfl

/-! ### `connectFlush` -/

theorem connectFlush_good {c : Cfg} {rh : Parser.ReqHead} {st : St} (hP : Relay c rh st)
    (hf : st.sock.rs ≠ .headers →
      st.sock.method = rh.method ∧ st.sock.rawPath = rh.rawPath ∧ st.sock.reqHeaders = rh.headers) :
    Relay c rh (connectFlush c st) ∧
    ((connectFlush c st).sock = st.sock ∨
      ∃ b, (connectFlush c st).sock = { st.sock with log := st.sock.log ++ [Obs.misc 20 b] }) ∧
    (st.sock.rs ≠ .headers → (connectFlush c st).conn = .connected ∧ (connectFlush c st).toUp = []) := by
  obtain ⟨sock, conn, buf, hw, hpd, upRead, toUp, fromUp, upClosing, errored, seenRd⟩ := st
  obtain ⟨seen, hfu, huc, hcn, hnone, hcing, hced, hncl⟩ := hP
  simp only at seen hfu huc hcn hnone hcing hced hncl hf
  cases conn with
  | none =>
    have h0 : sock.rs = .headers := hcn.mp rfl
    have e : connectFlush c ⟨sock, .none, buf, hw, hpd, upRead, toUp, fromUp, upClosing, errored, seenRd⟩ =
        ⟨sock, .none, buf, hw, hpd, upRead, toUp, fromUp, upClosing, errored, seenRd⟩ := by
      simp [connectFlush]
    rw [e]
    exact ⟨⟨seen, hfu, huc, hcn, hnone, hcing, hced, hncl⟩, Or.inl rfl, fun h => absurd h0 h⟩
  | connecting =>
    obtain ⟨b1, b2, b3, b4⟩ := hcing rfl
    subst b1 b2
    have h0 : sock.rs ≠ .headers := fun h => by have := hcn.mpr h; cases this
    have hH := upstreamHead_congr c sock rh (hf h0)
    have hne : (upstreamHead c sock ++ buf).isEmpty = false := by
      cases hh : upstreamHead c sock with
      | nil => exact absurd hh (upstreamHead_ne_nil c sock)
      | cons x xs => rfl
    have e : connectFlush c ⟨sock, .connecting, buf, false, hpd, upRead, [], fromUp, upClosing, errored, seenRd⟩ =
        ⟨{ sock with log := sock.log ++ [Obs.misc 20 (upstreamHead c sock ++ buf)] }, .connected, [], true, hpd,
          upRead, [], fromUp, upClosing, errored, seenRd⟩ := by
      simp [connectFlush, hne]
    rw [e]
    refine ⟨⟨?_, hfu, huc, ⟨(fun h => nomatch h), fun h => absurd h h0⟩, (fun h => nomatch h),
      (fun h => nomatch h), fun _ => ⟨rfl, rfl, buf, ?_, ?_⟩, by simp⟩, Or.inr ⟨_, rfl⟩, fun _ => ⟨rfl, rfl⟩⟩
    · show seenRd = (rdsOf (sock.log ++ [Obs.misc 20 (upstreamHead c sock ++ buf)])).length
      rw [rdsOf_append, seen]; simp [rdsOf]
    · show upBytes (sock.log ++ [Obs.misc 20 (upstreamHead c sock ++ buf)]) = _
      rw [upBytes_append, b3, hH]; simp [upBytes]
    · show buf ++ [] = Obs.reads (sock.log ++ [Obs.misc 20 (upstreamHead c sock ++ buf)])
      rw [reads_append, ← b4]; simp [Obs.reads]
  | connected =>
    obtain ⟨b1, b2, d, b3, b4⟩ := hced rfl
    subst b1 b2
    have h0 : sock.rs ≠ .headers := fun h => by have := hcn.mpr h; cases this
    by_cases ht : toUp.isEmpty = true
    · have ht' : toUp = [] := List.isEmpty_iff.mp ht
      subst ht'
      have e : connectFlush c ⟨sock, .connected, [], true, hpd, upRead, [], fromUp, upClosing, errored, seenRd⟩ =
          ⟨sock, .connected, [], true, hpd, upRead, [], fromUp, upClosing, errored, seenRd⟩ := by
        simp [connectFlush]
      rw [e]
      exact ⟨⟨seen, hfu, huc, hcn, hnone, hcing, fun _ => ⟨rfl, rfl, d, b3, b4⟩, hncl⟩, Or.inl rfl,
        fun _ => ⟨rfl, rfl⟩⟩
    · have ht' : toUp.isEmpty = false := by simpa using ht
      have e : connectFlush c ⟨sock, .connected, [], true, hpd, upRead, toUp, fromUp, upClosing, errored, seenRd⟩ =
          ⟨{ sock with log := sock.log ++ [Obs.misc 20 toUp] }, .connected, [], true, hpd,
            upRead, [], fromUp, upClosing, errored, seenRd⟩ := by
        simp [connectFlush, ht']
      rw [e]
      refine ⟨⟨?_, hfu, huc, ⟨(fun h => nomatch h), fun h => absurd h h0⟩, (fun h => nomatch h),
        (fun h => nomatch h), fun _ => ⟨rfl, rfl, d ++ toUp, ?_, ?_⟩, by simp⟩, Or.inr ⟨_, rfl⟩, fun _ => ⟨rfl, rfl⟩⟩
      · show seenRd = (rdsOf (sock.log ++ [Obs.misc 20 toUp])).length
        rw [rdsOf_append, seen]; simp [rdsOf]
      · show upBytes (sock.log ++ [Obs.misc 20 toUp]) = _
        rw [upBytes_append, b3]; simp [upBytes]
      · show d ++ toUp ++ [] = Obs.reads (sock.log ++ [Obs.misc 20 toUp])
        rw [reads_append, ← b4]; simp [Obs.reads]
  | closed => exact absurd rfl hncl

/-! ### `turn` in phases -/

def deliverPhase (env : Env) (st : St) : St :=
  if st.conn == .connected then deliverAll env st.fromUp { st with fromUp := [] } else st
def closePhase (env : Env) (st : St) : St :=
  if st.conn == .connected && st.upClosing
  then onUpstreamError env { st with conn := .closed, upClosing := false } else st
def delPhase (st : St) : St :=
  { st with sock := if st.sock.delPending
                    then { st.sock with alive := false, delPending := false, log := st.sock.log ++ [Obs.del] }
                    else st.sock }

/-- `connectFlush` with the refusal branch of the model -/
def connectFlushR (env : Env) (c : Cfg) (st : St) : St :=
  let st :=
    if st.conn == .connecting then
      if c.refuse then onUpstreamError env { st with conn := .closed }
      else
      { st with conn := .connected, headersWritten := true,
                toUp := st.toUp ++ upstreamHead c st.sock ++ st.buf, buf := [] }
    else st
  if st.conn == .connected && !st.toUp.isEmpty
  then { st with sock := { st.sock with log := st.sock.log ++ [Obs.misc 20 st.toUp] }, toUp := [] } else st

/-- `Proxy.turn` is the composition of its phases -/
theorem turn_eq0 (env : Env) (c : Cfg) (st : St) :
    turn env c st = if !st.sock.alive then st else
      delPhase (closePhase env (deliverPhase env (connectFlushR env c
        (routed (Obs.countP Obs.isHp st.sock.log) st (turnSock env st.sock (countEv st.sock.log)))))) := by
  delta turn
  extract_lets s hpB k s1 s2 st1 stc st2 x1 x2 x3 x4 x5
  have e1 : s2 = turnSock env st.sock (countEv st.sock.log) := rfl
  have e2 : st1 = routed (Obs.countP Obs.isHp st.sock.log) st s2 := rfl
  have e3 : x2 = connectFlushR env c st1 := rfl
  have e4 : x3 = deliverPhase env x2 := rfl
  have e5 : x4 = closePhase env x3 := rfl
  have e6 : ({ x4 with sock := if x5.delPending = true then
            { x5 with alive := false, delPending := false, log := x5.log ++ [Obs.del] } else x5 } : St) = delPhase x4 := rfl
  rw [← e1, ← e2, ← e3, ← e4, ← e5, ← e6]

theorem connectFlushR_eq (env : Env) (c : Cfg) (st : St) (hc : c.refuse = false) :
    connectFlushR env c st = connectFlush c st := by
  unfold connectFlushR connectFlush
  simp only [hc, Bool.false_eq_true, if_false]

/-- nothing from upstream, nothing to delete: the last three phases do nothing -/
theorem tail_id (env : Env) (st : St) (h1 : st.fromUp = []) (h2 : st.upClosing = false)
    (h3 : st.sock.delPending = false) : delPhase (closePhase env (deliverPhase env st)) = st := by
  obtain ⟨sock, conn, buf, hw, hpd, upRead, toUp, fromUp, upClosing, errored, seenRd⟩ := st
  simp only at h1 h2 h3
  subst h1 h2
  cases conn <;> simp [delPhase, closePhase, deliverPhase, deliverAll, h3]

/-! ### one proxy event of the relay shape -/

def relayPEv : PEv → Bool
  | .sock .new => true | .sock (.feed _) => true | .turn => true | _ => false

/-- the socket event a proxy event of the relay shape amounts to -/
def proj : PEv → Event
  | .sock e => e
  | _ => .turn

theorem relaySock_proj {e : PEv} (h : relayPEv e = true) : relaySockEvent (proj e) = true := by
  cases e with
  | sock ev => cases ev <;> simp [relayPEv] at h <;> rfl
  | turn => rfl
  | up b => simp [relayPEv] at h
  | upClose => simp [relayPEv] at h

/-- everything that holds between two events of a relay run -/
structure PInv (c : Cfg) (evs : List Event) (head : Bytes) (N : Nat) (rh : Parser.ReqHead)
    (n : Nat) (fed : Bytes) (st : St) : Prop where
  rinv : RInv evs head N fed st.sock
  extra : Extra rh st.sock
  relay : Relay c rh st
  nev : countEv st.sock.log = n

theorem rinv_hpCount {evs : List Event} {head : Bytes} {N : Nat} {fed : Bytes} {s : Sock}
    (h : RInv evs head N fed s) :
    Obs.countP Obs.isHp s.log = if s.rs = .headers then 0 else 1 := h.counts.1

theorem rinv_reads_nil {evs : List Event} {head : Bytes} {N : Nat} {fed : Bytes} {s : Sock}
    (h : RInv evs head N fed s) (hrs : s.rs = .headers) : Obs.reads s.log = [] := by
  obtain ⟨a, hb, B, hm, _, _⟩ := h
  exact (hm.hdr hrs).2.2.2.2.1

theorem rinv_flags {evs : List Event} {head : Bytes} {N : Nat} {fed : Bytes} {s : Sock}
    (h : RInv evs head N fed s) : s.alive = true ∧ s.delPending = false := by
  obtain ⟨a, hb, B, hm, _, _⟩ := h
  exact ⟨hm.alive, hm.delPending⟩

theorem pstep_good (env : Env) (c : Cfg) (hc : c.refuse = false) {evs : List Event} {head : Bytes}
    {N : Nat} {rh : Parser.ReqHead} (hp : Parsed env head N rh)
    (fedF restF fed : Bytes) (hfin : breakOn CRLF2 fedF = some (head, restF))
    (e : PEv) (he : relayPEv e = true) (n : Nat) (hk : evs[n]? = some (proj e))
    (hpre : (fed ++ evBytesOf (proj e)) <+: fedF) {st : St} (h : PInv c evs head N rh n fed st) :
    PInv c evs head N rh (n + 1) (fed ++ evBytesOf (proj e)) (step env c st e) ∧
    (e = .turn → st.sock.rs ≠ .headers → (step env c st e).conn = .connected ∧ (step env c st e).toUp = []) := by
  obtain ⟨hR, hx, hP, hn⟩ := h
  obtain ⟨hR1, hx1, hl1, ht1⟩ := stepK_good env hp fedF restF fed hfin (proj e) n hk (relaySock_proj he) hpre hR hx
  have hls : LogStep st.sock (Sock.stepK env Proxy.app (st.sock, n) (proj e)).1 n := ⟨hl1⟩
  have hrel := routed_relay hP hls (rinv_hpCount hR) (rinv_hpCount hR1) (rinv_reads_nil hR)
  have hsock := routed_sock (Obs.countP Obs.isHp st.sock.log) st (Sock.stepK env Proxy.app (st.sock, n) (proj e)).1
  cases e with
  | up b => simp [relayPEv] at he
  | upClose => simp [relayPEv] at he
  | sock ev =>
    rw [show proj (PEv.sock ev) = ev from rfl] at hR1 hx1 hls hrel hsock hpre
    have e0 : step env c st (.sock ev) =
        routed (Obs.countP Obs.isHp st.sock.log) st (Sock.stepK env Proxy.app (st.sock, n) ev).1 := by
      show sockEvent env st ev = _
      rw [sockEvent_eq, hn]
    rw [e0]
    refine ⟨⟨?_, ?_, hrel, ?_⟩, fun h => nomatch h⟩
    · rw [hsock]; exact hR1
    · rw [hsock]; exact hx1
    · rw [hsock, hls.countEv, hn]
  | turn =>
    have hts := ht1 rfl
    have hts' : (Sock.stepK env Proxy.app (st.sock, n) Event.turn).1 = turnSock env st.sock n := hts
    rw [show proj PEv.turn = Event.turn from rfl] at hR1 hx1 hls hrel hsock hpre
    rw [hts'] at hR1 hx1 hls hrel hsock
    obtain ⟨cf1, cf2, cf3⟩ := connectFlush_good hrel (by rw [hsock]; exact hx1.fields)
    -- the socket after the flush
    have hRx : RInv evs head N (fed ++ evBytesOf Event.turn)
        (connectFlush c (routed (Obs.countP Obs.isHp st.sock.log) st (turnSock env st.sock n))).sock ∧
        Extra rh (connectFlush c (routed (Obs.countP Obs.isHp st.sock.log) st (turnSock env st.sock n))).sock ∧
        countEv (connectFlush c (routed (Obs.countP Obs.isHp st.sock.log) st (turnSock env st.sock n))).sock.log
          = n + 1 := by
      rcases cf2 with e | ⟨b, e⟩
      · rw [e, hsock]; exact ⟨hR1, hx1, by rw [hls.countEv, hn]⟩
      · rw [e, hsock]
        refine ⟨rinv_misc hR1 b, hx1.misc b, ?_⟩
        show countEv ((turnSock env st.sock n).log ++ [Obs.misc 20 b]) = n + 1
        rw [countEv_append, hls.countEv, hn]; rfl
    have e0 : step env c st .turn =
        connectFlush c (routed (Obs.countP Obs.isHp st.sock.log) st (turnSock env st.sock n)) := by
      show turn env c st = _
      rw [turn_eq0, if_neg (by simp [(rinv_flags hR).1]), connectFlushR_eq env c _ hc, hn]
      exact tail_id env _ cf1.fromUp cf1.upClosing (rinv_flags hRx.1).2
    rw [e0]
    refine ⟨⟨hRx.1, hRx.2.1, cf1, hRx.2.2⟩, fun _ hne => ?_⟩
    apply cf3
    rw [hsock]
    -- once past the head, always past the head
    intro h1
    have m := hls.countHp
    rw [rinv_hpCount hR, rinv_hpCount hR1, if_neg hne, if_pos h1] at m
    omega

/-! ### whole runs -/

/-- the client's byte stream of a relay run -/
def fedP (evs : List PEv) : Bytes := Scenario.fed (evs.map proj)

theorem fedP_append (a b : List PEv) : fedP (a ++ b) = fedP a ++ fedP b := by
  simp [fedP, fed_append]

theorem fedP_single (e : PEv) : fedP [e] = evBytesOf (proj e) := by
  simp [fedP, fed_single]

theorem PInv_init (c : Cfg) (evs : List Event) (head : Bytes) (N : Nat) (rh : Parser.ReqHead) :
    PInv c evs head N rh 0 [] ({} : St) := by
  refine ⟨RInv_init evs head N, ⟨fun h => absurd rfl h, fun h => absurd rfl h⟩, ?_, rfl⟩
  exact ⟨rfl, rfl, rfl, ⟨fun _ => rfl, fun _ => rfl⟩, fun _ => ⟨rfl, rfl, rfl, rfl⟩,
    (fun h => nomatch h), (fun h => nomatch h), (fun h => nomatch h)⟩

theorem pfold_inv (env : Env) (c : Cfg) (hc : c.refuse = false) {evs : List PEv} {head : Bytes}
    {N : Nat} {rh : Parser.ReqHead} (hp : Parsed env head N rh) (restF : Bytes)
    (hfin : breakOn CRLF2 (fedP evs) = some (head, restF)) :
    ∀ (mid pre post : List PEv) (st : St), evs = pre ++ mid ++ post →
      (∀ e ∈ mid, relayPEv e = true) →
      PInv c (evs.map proj) head N rh pre.length (fedP pre) st →
      PInv c (evs.map proj) head N rh (pre ++ mid).length (fedP (pre ++ mid)) (mid.foldl (step env c) st) := by
  intro mid
  induction mid with
  | nil => intro pre post st _ _ h; simpa using h
  | cons e mid ih =>
    intro pre post st hevs hok h
    have hk : (evs.map proj)[pre.length]? = some (proj e) := by
      rw [hevs]; simp
    have hpre : (fedP pre ++ evBytesOf (proj e)) <+: fedP evs := by
      rw [hevs]
      have : pre ++ e :: mid ++ post = (pre ++ [e]) ++ (mid ++ post) := by simp
      rw [this, fedP_append, fedP_append, fedP_single]
      exact List.prefix_append _ _
    have h1 := (pstep_good env c hc hp (fedP evs) restF (fedP pre) hfin e (hok e (by simp)) pre.length hk hpre h).1
    rw [List.foldl_cons]
    have := ih (pre ++ [e]) post (step env c st e) (by rw [hevs]; simp)
      (fun e' he' => hok e' (by simp [he']))
      (by rw [fedP_append, fedP_single, List.length_append, List.length_singleton]; exact h1)
    simpa using this

/-- the invariant holds after every prefix of a relay run -/
theorem prun_inv (env : Env) (c : Cfg) (hc : c.refuse = false) {evs : List PEv} {head : Bytes}
    {N : Nat} {rh : Parser.ReqHead} (hp : Parsed env head N rh) (restF : Bytes)
    (hfin : breakOn CRLF2 (fedP evs) = some (head, restF))
    (pre post : List PEv) (hevs : evs = pre ++ post) (hok : ∀ e ∈ pre, relayPEv e = true) :
    PInv c (evs.map proj) head N rh pre.length (fedP pre) (Proxy.run env c pre) := by
  have := pfold_inv env c hc hp restF hfin pre [] post {} (by simpa using hevs) hok
    (by simpa [fedP, fed_eq] using PInv_init c (evs.map proj) head N rh)
  simpa [Proxy.run] using this

/-- past the head once the whole stream has arrived -/
theorem rs_of_full {evs : List Event} {head : Bytes} {N : Nat} {fed restF : Bytes} {s : Sock}
    (h : RInv evs head N fed s) (hfin : breakOn CRLF2 fed = some (head, restF)) : s.rs ≠ .headers := by
  intro hc
  obtain ⟨a, hb, B, hm, _, hrel⟩ := h
  have := (hrel.1 hc).2
  rw [hfin] at this; cases this

/-- **the relay invariant at the end of a run**, for every event list `new / feed / turn` in any
    order: either nothing has reached the upstream server yet (and then the run does not end with
    a turn after the complete stream), or what it received is the request head followed by `d`,
    a prefix of the entitled body — all of it when the run ends with a turn. -/
theorem run_final (env : Env) (c : Cfg) (hc : c.refuse = false) {evs : List PEv} {head : Bytes}
    {N : Nat} {rh : Parser.ReqHead} (hp : Parsed env head N rh) (restF : Bytes)
    (hfin : breakOn CRLF2 (fedP evs) = some (head, restF)) (hok : ∀ e ∈ evs, relayPEv e = true) :
    (upBytes (Proxy.run env c evs).sock.log = [] ∧ ¬ ∃ pre, evs = pre ++ [PEv.turn]) ∨
    ∃ d, upBytes (Proxy.run env c evs).sock.log = upstreamHead c (reqSock rh) ++ d ∧
      d <+: restF.take N ∧ ((∃ pre, evs = pre ++ [PEv.turn]) → d = restF.take N) := by
  have hI := prun_inv env c hc hp restF hfin evs [] (by simp) hok
  obtain ⟨hR, hx, hP, _⟩ := hI
  have hne := rs_of_full hR hfin
  -- a run that ends with a turn is connected and has delivered everything
  have hturn : (∃ pre, evs = pre ++ [PEv.turn]) →
      (Proxy.run env c evs).conn = .connected ∧ (Proxy.run env c evs).toUp = [] := by
    rintro ⟨pre, hpe⟩
    have hIp := prun_inv env c hc hp restF hfin pre [.turn] hpe (fun e he => hok e (by rw [hpe]; simp [he]))
    have hfp : fedP pre = fedP evs := by
      rw [hpe, fedP_append, fedP_single]; simp [proj, evBytesOf]
    have hk : (evs.map proj)[pre.length]? = some (proj .turn) := by rw [hpe]; simp
    have hpre : (fedP pre ++ evBytesOf (proj .turn)) <+: fedP evs := by
      rw [hfp]; simp [proj, evBytesOf]
    have hs := (pstep_good env c hc hp (fedP evs) restF (fedP pre) hfin .turn rfl pre.length hk hpre hIp).2 rfl
      (rs_of_full hIp.rinv (by rw [hfp]; exact hfin))
    have hrun : Proxy.run env c evs = step env c (Proxy.run env c pre) .turn := by
      rw [hpe]; simp [Proxy.run, List.foldl_append]
    rw [hrun]; exact hs
  have hreads := RInv.reads_prefix hR hfin (List.prefix_refl _)
  cases hconn : (Proxy.run env c evs).conn with
  | none => exact absurd (hP.connNone.mp hconn) hne
  | connecting =>
    left
    refine ⟨(hP.connecting hconn).2.2.1, fun h => ?_⟩
    have := (hturn h).1
    rw [hconn] at this; cases this
  | connected =>
    right
    obtain ⟨_, _, d, e1, e2⟩ := hP.connected hconn
    refine ⟨d, e1, ?_, fun h => ?_⟩
    · exact (List.prefix_append d _).trans (by rw [e2]; exact hreads)
    · have ht := (hturn h).2
      rw [ht, List.append_nil] at e2
      obtain ⟨rest', t, k1, k2, k3, _⟩ := RInv.rest_eq hR hfin (List.prefix_refl _) hne
      obtain ⟨q1, q2⟩ := hx.drained hne
      rw [q1, q2, List.append_nil, List.append_nil] at k3
      have hF := C02L.breakOn_some_eq CRLF2 _ _ _ hfin
      have : rest' = restF := by
        rw [k1] at hF
        simp only [List.append_assoc] at hF
        exact List.append_cancel_left (List.append_cancel_left hF)
      rw [e2, k3, this]
  | closed => exact absurd hconn hP.notClosed

end Qhttp.ProxyL
