import Qhttp.Lemmas.C10Life
/-
  C10, part 3: the file copy in progress is stopped when the transport reports `disconnected`
  (`processFile`: `disconnected -> copier.stop`, `finished -> socket.close`), and a stopped copier
  stays stopped and silent.
-/
namespace Qhttp.C10L
open Qhttp Qhttp.Sock

/-! ### the copier -/

/-- a stopped copier: the event-loop turn adds nothing to its history (no block is handed to the
    destination, nothing is signalled) and it stays stopped -/
theorem copier_stopped_turn (cfg : Copier.Cfg) (cs : Copier.St) (h : cs.stopped = true) :
    (Copier.step cfg cs .turn).log = cs.log ∧ (Copier.step cfg cs .turn).stopped = true := by
  have e : Copier.step cfg cs .turn = match cs.pending with
      | .none => cs
      | .nextBlock => Copier.nextBlock cfg { cs with pending := .none }
      | .readyRead => Copier.onReadyRead cfg { cs with pending := .none } := rfl
  rw [e]
  split
  · exact ⟨rfl, h⟩
  · unfold Copier.nextBlock
    rw [if_pos h]
    exact ⟨rfl, h⟩
  · unfold Copier.onReadyRead
    rw [if_pos h]
    exact ⟨rfl, h⟩

theorem copier_stop_stopped (cs : Copier.St) : (Copier.stop cs).stopped = true := rfl

theorem copier_stop_finished (cs : Copier.St) : copFinished (Copier.stop cs) = true := by
  simp [copFinished, Copier.stop, Copier.fin]

/-! ### `Socket::close` was called -/

theorem api_close_cc (env : Env) (app : App) (s : Sock) (ha : s.alive = true) :
    (api env app s .close).closeCalled = true := by
  unfold api
  have h1 : (apiPrim env s .close).closeCalled = true := by
    unfold apiPrim
    rw [if_neg (by simp [ha])]
    exact close_cc s
  dsimp only
  split
  · exact (emitDc_ext env app _).1.cc h1
  · exact h1

/-! ### the handler's copier across one socket-level event -/

/-- `cop` exists only once the request was routed; a stopped copier stays the same stopped
    copier's continuation -/
structure CopRel (st st' : FsHandler.St) : Prop where
  rt : st'.cop.isSome = true → st'.routed = true
  sp : ∀ cfg cs, st.cop = some (cfg, cs) → cs.stopped = true →
        ∃ cs', st'.cop = some (cfg, cs') ∧ cs'.stopped = true

theorem afterRoute_rel (fe : FsHandler.FsEnv) (n : Nat) (st : FsHandler.St)
    (hinv : st.cop.isSome = true → st.routed = true) :
    CopRel st (FsHandler.afterRoute fe n st) := by
  unfold FsHandler.afterRoute
  split
  · rename_i hc
    have hr : st.routed = false := by
      cases hx : st.routed
      · rfl
      · simp [hx] at hc
    have hn : st.cop = none := by
      cases hx : st.cop
      · rfl
      · have := hinv (by simp [hx]); rw [hr] at this; exact absurd this (by simp)
    split
    · exact ⟨fun _ => rfl, fun cfg cs h => by rw [hn] at h; exact absurd h (by simp)⟩
    · exact ⟨fun _ => rfl, fun cfg cs h => by rw [hn] at h; exact absurd h (by simp)⟩
  · exact ⟨hinv, fun cfg cs h hs => ⟨cs, h, hs⟩⟩

theorem turnCop_rel (env : Env) (a : App) (st : FsHandler.St)
    (hinv : st.cop.isSome = true → st.routed = true) : CopRel st (turnCop env a st) := by
  unfold turnCop
  split
  · rename_i cfg cs hc
    refine ⟨fun _ => hinv (by simp [hc]), fun cfg' cs' h hs => ?_⟩
    rw [hc] at h
    simp only [Option.some.injEq, Prod.mk.injEq] at h
    obtain ⟨rfl, rfl⟩ := h
    exact ⟨_, rfl, (copier_stopped_turn cfg cs hs).2⟩
  · exact ⟨hinv, fun cfg cs h hs => ⟨cs, h, hs⟩⟩

theorem CopRel.trans {a b c : FsHandler.St} (h1 : CopRel a b) (h2 : CopRel b c) : CopRel a c :=
  ⟨h2.rt, fun cfg cs h hs => by
    obtain ⟨cs', e1, s1⟩ := h1.sp cfg cs h hs
    exact h2.sp cfg cs' e1 s1⟩

theorem fsStep_rel (env : Env) (fe : FsHandler.FsEnv) (st : FsHandler.St) (e : Event)
    (hinv : st.cop.isSome = true → st.routed = true) :
    CopRel st (FsHandler.step env fe st e) := by
  by_cases he : e = .turn
  · subst he
    cases ha : st.sock.alive
    · rw [fsStep_dead env fe st _ ha]
      exact ⟨hinv, fun cfg cs h hs => ⟨cs, h, hs⟩⟩
    · obtain ⟨n, k, h⟩ := fsTurn_eq env fe st ha
      show CopRel st (FsHandler.turn env fe st)
      rw [h]
      have h1 := afterRoute_rel fe n
        { st with sock := initRead env (FsHandler.app fe)
                            { st.sock with log := st.sock.log ++ [Obs.ev k] } } hinv
      have h2 := turnCop_rel env (FsHandler.app fe) _ h1.rt
      have h3 := CopRel.trans h1 h2
      exact ⟨h3.rt, h3.sp⟩
  · obtain ⟨k, hk⟩ := fsStep_eq env fe st e he
    rw [hk]
    have h1 := afterRoute_rel fe (Obs.countP Obs.isHp st.sock.log)
      { st with sock := (Sock.stepK env (FsHandler.app fe) (st.sock, k) e).1 } hinv
    exact ⟨h1.rt, h1.sp⟩

/-! ### the Server glue stops the copy -/

/-- `disconnected` reported during the event while a copier is active: it is stopped, and the
    socket is closed (the copier's `finished` is connected to `Socket::close`) -/
theorem afterEvent_stops (env : Env) (fe : FsHandler.FsEnv) (n : Nat) (st : Life.St)
    (cfg : Copier.Cfg) (cs : Copier.St)
    (ha : st.fs.sock.alive = true) (hn : Life.dcCount st.fs.sock ≠ n)
    (hc : st.fs.cop = some (cfg, cs)) (hf : copFinished cs = false) (hs : st.stopped = false) :
    Life.afterEvent env fe n st =
      { st with fs := { st.fs with sock := api env (FsHandler.app fe) (setDel st.fs.sock) .close,
                                   cop := some (cfg, Copier.stop cs) },
                stopped := true } := by
  rw [afterEvent_fire env fe n st ha hn]
  split
  · rename_i cfg' cs' hc'
    rw [hc] at hc'
    simp only [Option.some.injEq, Prod.mk.injEq] at hc'
    obtain ⟨rfl, rfl⟩ := hc'
    rw [if_neg (by simp [hf, hs])]
  · rename_i hc'
    rw [hc] at hc'
    exact absurd hc' (by simp)

/-! ### invariant: `stopped` means a stopped copier and a closed socket -/

structure SInv (st : Life.St) : Prop where
  rt : st.fs.cop.isSome = true → st.fs.routed = true
  sp : st.stopped = true →
        ∃ cfg cs, st.fs.cop = some (cfg, cs) ∧ cs.stopped = true ∧ st.fs.sock.closeCalled = true

theorem SInv.init : SInv ({} : Life.St) := ⟨fun h => by simp at h, fun h => by simp at h⟩

theorem afterEvent_sinv (env : Env) (fe : FsHandler.FsEnv) (n : Nat) (st : Life.St) (h : SInv st) :
    SInv (Life.afterEvent env fe n st) := by
  by_cases hi : st.fs.sock.alive = false ∨ Life.dcCount st.fs.sock = n
  · rw [afterEvent_idle env fe n st hi]; exact h
  · have ha : st.fs.sock.alive = true := by
      cases hx : st.fs.sock.alive
      · exact absurd (Or.inl hx) hi
      · rfl
    have hn : Life.dcCount st.fs.sock ≠ n := fun hx => hi (Or.inr hx)
    rw [afterEvent_fire env fe n st ha hn]
    split
    · rename_i cfg cs hc
      split
      · exact ⟨h.rt, h.sp⟩
      · refine ⟨fun _ => h.rt (by simp [hc]), fun _ => ⟨cfg, Copier.stop cs, rfl, rfl, ?_⟩⟩
        exact api_close_cc env _ _ ha
    · exact ⟨h.rt, h.sp⟩

theorem lifeStep_sinv (env : Env) (fe : FsHandler.FsEnv) (st : Life.St) (ev : Life.LEv)
    (h : SInv st) : SInv (Life.step env fe st ev) := by
  cases hd : st.deadSrv
  · cases ev with
    | ev e =>
      rw [lifeStep_ev env fe st e hd]
      apply afterEvent_sinv
      have hr := fsStep_rel env fe st.fs e h.rt
      refine ⟨hr.rt, fun hs => ?_⟩
      obtain ⟨cfg, cs, h1, h2, h3⟩ := h.sp hs
      obtain ⟨cs', h4, h5⟩ := hr.sp cfg cs h1 h2
      exact ⟨cfg, cs', h4, h5, (fsStep_evo env fe st.fs e).cc h3⟩
    | killServer =>
      simp only [Life.step, hd, Bool.false_eq_true, if_false]
      exact ⟨h.rt, h.sp⟩
  · rw [lifeStep_deadSrv env fe st ev hd]; exact h

theorem run_sinv (env : Env) (fe : FsHandler.FsEnv) (evs : List Life.LEv) :
    SInv (Life.run env fe evs) := by
  unfold Life.run
  have key : ∀ (evs : List Life.LEv) (st : Life.St), SInv st →
      SInv (evs.foldl (Life.step env fe) st) := by
    intro evs
    induction evs with
    | nil => exact fun _ h => h
    | cons ev evs ih => exact fun st h => ih _ (lifeStep_sinv env fe st ev h)
  exact key evs _ SInv.init

/-- an event-loop turn with a stopped copier: nothing is relayed to the socket -/
theorem turnCop_stopped (env : Env) (a : App) (st : FsHandler.St) (cfg : Copier.Cfg)
    (cs : Copier.St) (hc : st.cop = some (cfg, cs)) (hs : cs.stopped = true) :
    (turnCop env a st).sock = st.sock := by
  unfold turnCop
  split
  · rename_i cfg' cs' hc'
    rw [hc] at hc'
    simp only [Option.some.injEq, Prod.mk.injEq] at hc'
    obtain ⟨rfl, rfl⟩ := hc'
    show FsHandler.relay env a st.sock _ = st.sock
    rw [(copier_stopped_turn cfg cs hs).1, List.drop_length]
    rfl
  · rfl

end Qhttp.C10L
