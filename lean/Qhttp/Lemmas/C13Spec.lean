import Qhttp.Props.C12
import Qhttp.Lemmas.C01Parser
import Qhttp.Lemmas.HttpBytes
/-
  C13, item 6c: the specification-side reader of an upstream response head (`C13.specHead`, defined
  in Props/C13.lean; restated here as `specHead'` because Props/C13 imports this file) agrees
  with the library's `Parser.parseResponseHeaders`; the header map is the insertion of the
  `name: value` pairs in line order, hence a permutation of the pairs.
-/
namespace Qhttp.C13L
open Qhttp

/-- `C13.headerPairs` (same text) -/
def headerPairs' (lines : List Bytes) : Option (List (Bytes × Bytes)) :=
  lines.foldr (fun l acc =>
    match acc, breakOn [COLON] l with
    | some hs, some (n, v) => if (trim n).isEmpty then none else some ((trim n, trim v) :: hs)
    | _, _ => none) (some [])

/-- `C13.specHead` (same text) -/
def specHead' (head : Bytes) : Option (Int × Bytes × List (Bytes × Bytes)) :=
  match splitF CRLF (head.length + 1) none head with
  | [] => none
  | first :: lines =>
    match splitF [SP] (first.length + 1) (some 2) first with
    | [_, code, reason] =>
      let cv := toIntQ code
      if 100 ≤ cv && cv ≤ 599 then (headerPairs' lines).map fun hs => (cv, reason, hs) else none
    | _ => none

/-- the header map built from pairs in line order -/
def mapOf (pairs : List (Bytes × Bytes)) (m : HeaderMap := []) : HeaderMap :=
  pairs.foldl (fun acc e => HeaderMap.insert e.1 e.2 acc) m

theorem headerPairs'_cons (l : Bytes) (ls : List Bytes) :
    headerPairs' (l :: ls) =
      match headerPairs' ls, breakOn [COLON] l with
      | some hs, some (n, v) => if (trim n).isEmpty then none else some ((trim n, trim v) :: hs)
      | _, _ => none := rfl

/-- `Parser::parseHeaderList` = insert the pairs of `headerPairs` in line order -/
theorem parseHeaderList_eq_pairs (lines : List Bytes) :
    ∀ m, Parser.parseHeaderList lines m = (headerPairs' lines).map (fun ps => mapOf ps m) := by
  induction lines with
  | nil => intro m; rfl
  | cons l ls ih =>
    intro m
    rw [Parser.parseHeaderList, Parser.split_colon, headerPairs'_cons]
    cases hb : breakOn [COLON] l with
    | none => cases headerPairs' ls <;> rfl
    | some p =>
      obtain ⟨n, v⟩ := p
      simp only
      rw [ih]
      cases headerPairs' ls with
      | none => cases (trim n).isEmpty <;> simp
      | some hs => cases he : (trim n).isEmpty <;> simp [he, mapOf]

/-- **6c**: the library's parser succeeds exactly when the specification's reader does, with the
    same code and reason; its header map is the insertion of the specification's pairs in line
    order -/
theorem specHead'_eq (head : Bytes) :
    Parser.parseResponseHeaders head =
      (specHead' head).map fun x => (x.1, x.2.1, mapOf x.2.2) := by
  unfold Parser.parseResponseHeaders Parser.parseHeaders specHead'
  show (match (match splitF CRLF (head.length + 1) none head with
        | [] => none
        | first :: lines =>
          match splitF [SP] (first.length + 1) (some 2) first with
          | [p0, p1, p2] =>
            match Parser.parseHeaderList lines [] with
            | some m' => some (p0, p1, p2, m')
            | none => none
          | _ => none) with
      | none => none
      | some (_, p1, p2, m) =>
        let code := toIntQ p1
        if 100 ≤ code && code ≤ 599 then some (code, p2, m) else none) = _
  cases splitF CRLF (head.length + 1) none head with
  | nil => rfl
  | cons first lines =>
    simp only
    generalize splitF [SP] (first.length + 1) (some 2) first = parts
    rcases parts with _ | ⟨p0, _ | ⟨p1, _ | ⟨p2, _ | ⟨p3, ps⟩⟩⟩⟩ <;> try rfl
    simp only [parseHeaderList_eq_pairs]
    cases headerPairs' lines with
    | none => simp
    | some ps =>
      simp only [Option.map_some]
      split <;> simp

/-! ### the map is a permutation of the pairs -/

theorem insert_perm (k v : Bytes) (m : HeaderMap) : (HeaderMap.insert k v m).Perm ((k, v) :: m) := by
  induction m with
  | nil => exact List.Perm.refl _
  | cons e m ih =>
    obtain ⟨k', v'⟩ := e
    unfold HeaderMap.insert
    split
    · exact (List.Perm.cons _ ih).trans (List.Perm.swap _ _ _)
    · exact List.Perm.refl _

theorem mapOf_perm (pairs : List (Bytes × Bytes)) : ∀ m, (mapOf pairs m).Perm (pairs ++ m) := by
  induction pairs with
  | nil => intro m; exact List.Perm.refl _
  | cons e ps ih =>
    intro m
    show (mapOf ps (HeaderMap.insert e.1 e.2 m)).Perm _
    refine (ih _).trans ?_
    refine (List.Perm.append_left ps (insert_perm e.1 e.2 m)).trans ?_
    simp

/-- per name the same value multiset: the canonical (sorted) value lists agree -/
theorem vals_mapOf (n : Bytes) (pairs : List (Bytes × Bytes)) :
    C12.vals n (mapOf pairs) = C12.vals n pairs := by
  unfold C12.vals
  apply HB.sortBytes_perm
  have := mapOf_perm pairs []
  rw [List.append_nil] at this
  exact (this.filter _).map _

theorem mem_mapOf {pairs : List (Bytes × Bytes)} {e : Bytes × Bytes} :
    e ∈ mapOf pairs ↔ e ∈ pairs := by
  have := mapOf_perm pairs []
  rw [List.append_nil] at this
  exact this.mem_iff

/-- no name appears in the map that is not a name of a pair -/
theorem names_mapOf (pairs : List (Bytes × Bytes)) :
    (Http.names (mapOf pairs)).all (fun n => pairs.any fun h => lower h.1 == n) = true := by
  rw [List.all_eq_true]
  intro n hn
  unfold Http.names at hn
  have hn' := List.mem_eraseDups.mp hn
  obtain ⟨e, he, rfl⟩ := List.mem_map.mp hn'
  rw [List.any_eq_true]
  exact ⟨e, mem_mapOf.mp he, by simp⟩

end Qhttp.C13L
