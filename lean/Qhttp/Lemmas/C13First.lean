import Qhttp.Lemmas.C13Turn
/-
  C13, item 8: the first three events `new; feed req; turn` of a scripted-upstream history with one
  accepted client request: the request side of the socket model leaves the write side alone, the
  proxy connects (or the connection is refused: 502).
-/
namespace Qhttp.C13L
open Qhttp Qhttp.Sock Qhttp.Proxy
open Qhttp.C03L (quietObs)

/-! ### the request side leaves the write side alone -/

/-- `s'` differs from `s` in request-side fields and quiet observations only -/
def RFrame (s s' : Sock) : Prop :=
  ∃ rb q d r l, s' = { s with readBuffer := rb, qio := q, dataRead := d, rs := r, log := s.log ++ l } ∧
    (∀ o ∈ l, quietObs o = true) ∧ (s.rs ≠ .headers → r ≠ .headers)

theorem RFrame.refl (s : Sock) : RFrame s s :=
  ⟨s.readBuffer, s.qio, s.dataRead, s.rs, [], by simp, by simp, id⟩

theorem RFrame.trans {a c d : Sock} (h1 : RFrame a c) (h2 : RFrame c d) : RFrame a d := by
  obtain ⟨rb1, q1, d1, r1, l1, e1, p1, g1⟩ := h1
  obtain ⟨rb2, q2, d2, r2, l2, e2, p2, g2⟩ := h2
  refine ⟨rb2, q2, d2, r2, l1 ++ l2, by rw [e2, e1]; simp, ?_, ?_⟩
  · intro o ho; rcases List.mem_append.mp ho with ho | ho
    · exact p1 o ho
    · exact p2 o ho
  · intro h; apply g2; rw [e1]; exact g1 h

theorem RFrame.wstep {s s' : Sock} (h : RFrame s s') (ho : WOpen s) : WStep s s' [] := by
  obtain ⟨rb, q, d, r, l, e, hl, _⟩ := h
  subst e
  exact WStep.of_quiet ho l hl rfl rfl rfl id rfl

theorem RFrame.rs {s s' : Sock} (h : RFrame s s') (hr : s.rs ≠ .headers) : s'.rs ≠ .headers := by
  obtain ⟨rb, q, d, r, l, e, _, g⟩ := h
  subst e; exact g hr

theorem RFrame.ext {s s' : Sock} (h : RFrame s s') : ∃ l, s'.log = s.log ++ l := by
  obtain ⟨rb, q, d, r, l, e, _, _⟩ := h
  exact ⟨l, by rw [e]⟩

theorem readAll_frame (s : Sock) :
    ∃ rb q d, (Sock.readAll s).1 = { s with readBuffer := rb, qio := q, dataRead := d } := by
  unfold Sock.readAll
  by_cases h : (!s.ioOpen) = true
  · rw [if_pos h]; exact ⟨s.readBuffer, s.qio, s.dataRead, rfl⟩
  · rw [if_neg h]
    dsimp only
    unfold Sock.readData
    by_cases h2 : s.rs = .headers
    · simp only [h2, if_true]; exact ⟨s.readBuffer, [], s.dataRead, rfl⟩
    · simp only [h2, if_false]; exact ⟨_, [], _, rfl⟩

theorem api_readAll (env : Env) {s : Sock} (ha : s.alive = true) (hd : s.dcFlag = false) :
    RFrame s (api env app s .readAll) := by
  obtain ⟨rb, q, d, e⟩ := readAll_frame s
  have e1 : apiPrim env s .readAll =
      { s with readBuffer := rb, qio := q, dataRead := d, log := s.log ++ [Obs.rd (Sock.readAll s).2] } := by
    unfold apiPrim
    rw [if_neg (by simp [ha])]
    show ({ (Sock.readAll s).1 with log := (Sock.readAll s).1.log ++ [Obs.rd (Sock.readAll s).2] } : Sock) = _
    rw [e]
  have e2 : api env app s .readAll = apiPrim env s .readAll := by
    unfold api; rw [e1]; simp [hd]
  rw [e2, e1]
  exact ⟨rb, q, d, s.rs, [Obs.rd (Sock.readAll s).2], rfl, by simp [quietObs, Obs.isW, Obs.isTc], id⟩

theorem rframe_note (s : Sock) {o : Obs} (ho : quietObs o = true) : RFrame s { s with log := s.log ++ [o] } :=
  ⟨s.readBuffer, s.qio, s.dataRead, s.rs, [o], rfl, by simpa using ho, id⟩

theorem readDataSlot_frame (env : Env) {s : Sock} (ha : s.alive = true) (hd : s.dcFlag = false) :
    RFrame s (readDataSlot env app s) := by
  unfold readDataSlot
  -- truncation to the declared length
  have h1 : RFrame s (if s.total ≥ 0 && s.dataRead + s.readBuffer.length > s.total
      then { s with readBuffer := s.readBuffer.take (s.total - s.dataRead).toNat } else s) := by
    split
    · exact ⟨s.readBuffer.take (s.total - s.dataRead).toNat, s.qio, s.dataRead, s.rs, [], by simp, by simp, id⟩
    · exact RFrame.refl s
  generalize (if s.total ≥ 0 && s.dataRead + s.readBuffer.length > s.total
      then { s with readBuffer := s.readBuffer.take (s.total - s.dataRead).toNat } else s) = s1 at h1
  have ha1 : s1.alive = true := by obtain ⟨_, _, _, _, _, e, _, _⟩ := h1; rw [e]; exact ha
  have hd1 : s1.dcFlag = false := by obtain ⟨_, _, _, _, _, e, _, _⟩ := h1; rw [e]; exact hd
  dsimp only
  -- `readyRead` and the proxy's `readAll`
  have h2 : RFrame s1 (if s1.readBuffer.length != 0 then emit env app s1 .rr (app.onRr s1) else s1) := by
    split
    · have : emit env app s1 .rr (app.onRr s1) = api env app { s1 with log := s1.log ++ [Obs.rr] } .readAll := rfl
      rw [this]
      exact (rframe_note s1 (o := .rr) rfl).trans (api_readAll env ha1 hd1)
    · exact RFrame.refl s1
  generalize (if s1.readBuffer.length != 0 then emit env app s1 .rr (app.onRr s1) else s1) = s2 at h2
  -- `readChannelFinished`
  have h3 : RFrame s2 (if s2.total != -1 && s2.dataRead + s2.readBuffer.length ≥ s2.total then
      emit env app { s2 with rs := .finished } .rcf (app.onRcf { s2 with rs := .finished }) else s2) := by
    split
    · have : emit env app { s2 with rs := .finished } .rcf (app.onRcf { s2 with rs := .finished }) =
          { s2 with rs := .finished, log := s2.log ++ [Obs.rcf] } := rfl
      rw [this]
      exact ⟨s2.readBuffer, s2.qio, s2.dataRead, .finished, [Obs.rcf], rfl,
        by simp [quietObs, Obs.isW, Obs.isTc], fun _ => by simp⟩
    · exact RFrame.refl s2
  exact h1.trans (h2.trans h3)

/-- the private slot `onReadyRead` once the head has been read -/
theorem onReadyRead_frame (env : Env) {s : Sock} (ha : s.alive = true) (hd : s.dcFlag = false)
    (hrs : s.rs ≠ .headers) :
    ∃ inb, RFrame { s with tcp := { s.tcp with inbox := inb } } (onReadyRead env app s) := by
  unfold onReadyRead
  by_cases hf : s.rs = .finished
  · rw [if_pos hf]
    split
    · exact ⟨[], RFrame.refl _⟩
    · exact ⟨s.tcp.inbox, RFrame.refl _⟩
  · rw [if_neg hf]
    have hdata : s.rs = .data := by
      cases h : s.rs
      · exact absurd h hrs
      · rfl
      · exact absurd h hf
    rcases s with ⟨⟨inbox, wire, unacked, devOpen, conn⟩, readBuffer, qio, rs, method, rawPath, path, query,
      reqHeaders, dataRead, total, ws, code, reason, respHeaders, hdrRemaining, ioOpen, initPending,
      closeCalled, dcFlag, delPending, alive, log⟩
    simp only at ha hd hdata
    subst ha hd hdata
    cases devOpen
    · refine ⟨inbox, ?_⟩
      simp only [Bool.false_eq_true, if_false, reduceCtorEq, Bool.not_true]
      exact readDataSlot_frame env rfl rfl
    · refine ⟨[], ?_⟩
      simp only [if_true, reduceCtorEq, if_false, Bool.not_true, Bool.false_eq_true]
      obtain ⟨rb, q, d, r, l, e, hl, g⟩ := readDataSlot_frame env
        (s := ⟨⟨[], wire, unacked, true, conn⟩, readBuffer ++ inbox, qio, .data, method, rawPath, path, query,
          reqHeaders, dataRead, total, ws, code, reason, respHeaders, hdrRemaining, ioOpen, initPending,
          closeCalled, false, delPending, true, log⟩) rfl rfl
      rw [e]
      exact ⟨rb, q, d, r, l, rfl, hl, fun _ => g (by simp)⟩

/-! ### `new; feed req` with an accepted head -/

/-- the socket at the moment `headersParsed` is emitted -/
structure Fresh1 (s : Sock) : Prop where
  alive : s.alive = true
  io : s.ioOpen = true
  dev : s.tcp.devOpen = true
  conn : s.tcp.conn = .connected
  dcF : s.dcFlag = false
  noClose : s.closeCalled = false
  noDel : s.delPending = false
  log : s.log = [Obs.ev 0, Obs.ev 1]
  respH : s.respHeaders = []
  initP : s.initPending = true
  rs : s.rs = .data

theorem readHeaders_good' (env : Env) (stream head rest : Bytes) (rh : Parser.ReqHead)
    (p : Bytes) (q : List (Bytes × Bytes))
    (h : breakOn CRLF2 stream = some (head, rest))
    (hp : Parser.parseRequestHeaders head [] = some rh) (hu : env.url rh.rawPath = some (p, q)) :
    ∃ s1, readHeaders env app (C09L.sRead stream) = (emit env app s1 .hp (app.onHp s1), true) ∧ Fresh1 s1 := by
  unfold Sock.readHeaders
  rw [show (C09L.sRead stream).readBuffer = stream from rfl, h,
    show (C09L.sRead stream).reqHeaders = [] from rfl]
  simp only [hp, hu]
  refine ⟨_, rfl, ?_⟩
  split <;> constructor <;> rfl

/-- the socket after `new; feed req`: the write side untouched, `headersParsed` emitted -/
structure Fresh2 (s : Sock) : Prop where
  op : WOpen s
  wire : Obs.wire s.log = []
  respH : s.respHeaders = []
  initP : s.initPending = true
  rs : s.rs ≠ .headers
  hp : Obs.countP Obs.isHp s.log > 0

theorem feed_state (env : Env) (stream head rest : Bytes) (rh : Parser.ReqHead)
    (p : Bytes) (q : List (Bytes × Bytes))
    (h : breakOn CRLF2 stream = some (head, rest))
    (hp : Parser.parseRequestHeaders head [] = some rh) (hu : env.url rh.rawPath = some (p, q)) :
    Fresh2 (onReadyRead env app (C09L.sFeed stream)) := by
  obtain ⟨s1, e1, f1⟩ := readHeaders_good' env stream head rest rh p q h hp hu
  have e2 : emit env app s1 .hp (app.onHp s1) = { s1 with log := s1.log ++ [Obs.hp] } := rfl
  have e3 : onReadyRead env app (C09L.sFeed stream) =
      readDataSlot env app { s1 with log := s1.log ++ [Obs.hp] } := by
    rw [C09L.orr_eq, e1, e2]
    simp [f1.rs]
  rw [e3]
  have o1 : WOpen { s1 with log := s1.log ++ [Obs.hp] } := by
    refine ⟨f1.alive, f1.io, f1.dev, f1.conn, f1.dcF, f1.noClose, f1.noDel, ?_⟩
    show C03L.LogOpen (s1.log ++ [Obs.hp])
    rw [f1.log]
    intro o ho
    simp at ho
    rcases ho with rfl | rfl | rfl <;> rfl
  have fr := readDataSlot_frame env (s := { s1 with log := s1.log ++ [Obs.hp] }) f1.alive f1.dcF
  have w := fr.wstep o1
  obtain ⟨l, hl⟩ := fr.ext
  refine ⟨w.op, ?_, ?_, ?_, fr.rs (by show s1.rs ≠ _; rw [f1.rs]; simp), ?_⟩
  · rw [w.wire]; show Obs.wire (s1.log ++ [Obs.hp]) ++ [] = []; rw [f1.log]; rfl
  · rw [w.respH]; exact f1.respH
  · rw [w.initP]; exact f1.initP
  · rw [hl]
    show Obs.countP Obs.isHp (s1.log ++ [Obs.hp] ++ l) > 0
    rw [f1.log]
    simp [Obs.countP, Obs.isHp]

/-! ### the proxy state after `new; feed req` -/

theorem step_sock (env : Env) (c : Cfg) (st : St) (e : Event) :
    Proxy.step env c st (.sock e) = sockEvent env st e := rfl

theorem step_new (env : Env) (c : Cfg) :
    Proxy.step env c {} (.sock .new) = { sock := { initPending := true, log := [Obs.ev 0] } } := rfl

theorem step_feed_sock (env : Env) (c : Cfg) (req : Bytes) :
    (Proxy.step env c { sock := { initPending := true, log := [Obs.ev 0] } } (.sock (.feed req))).sock =
      onReadyRead env app (C09L.sFeed req) := by
  rw [step_sock, sockEvent_sock]
  exact congrArg Prod.fst (C09L.stepK_feed env app req)

/-- the proxy after `new; feed req` with an accepted head: the ProxySocket exists and is connecting -/
structure Fed (st : St) : Prop where
  sock : Fresh2 st.sock
  conn : st.conn = .connecting
  parsed : st.headersParsed = false
  upRead : st.upRead = []
  fromUp : st.fromUp = []
  upClosing : st.upClosing = false

theorem sockEvent_eq (env : Env) (st : St) (e : Event) :
    sockEvent env st e = relayReads (afterRoute (Obs.countP Obs.isHp st.sock.log)
      { st with sock := (Sock.stepK env app (st.sock, evCount st.sock.log) e).1 }) := rfl

/-- a socket event leaves the upstream side of the proxy state alone -/
theorem sockEvent_fields (env : Env) (st : St) (e : Event) :
    ((sockEvent env st e).headersParsed, (sockEvent env st e).upRead, (sockEvent env st e).fromUp,
      (sockEvent env st e).upClosing) = (st.headersParsed, st.upRead, st.fromUp, st.upClosing) := by
  rw [sockEvent_eq]
  have hf := relayReads_fields (afterRoute (Obs.countP Obs.isHp st.sock.log)
      { st with sock := (Sock.stepK env app (st.sock, evCount st.sock.log) e).1 })
  have hg := afterRoute_fields (Obs.countP Obs.isHp st.sock.log)
      { st with sock := (Sock.stepK env app (st.sock, evCount st.sock.log) e).1 }
  simp only [Prod.mk.injEq] at hf hg ⊢
  exact ⟨hf.2.1.trans hg.1, hf.2.2.1.trans hg.2.1, hf.2.2.2.1.trans hg.2.2.1, hf.2.2.2.2.trans hg.2.2.2⟩

theorem sockEvent_conn_of_ne (env : Env) (st : St) (e : Event) (h : st.conn ≠ .none) :
    (sockEvent env st e).conn = st.conn := by
  rw [sockEvent_eq]
  have hf := relayReads_fields (afterRoute (Obs.countP Obs.isHp st.sock.log)
      { st with sock := (Sock.stepK env app (st.sock, evCount st.sock.log) e).1 })
  simp only [Prod.mk.injEq] at hf
  rw [hf.1]
  exact afterRoute_conn_of_ne _ _ h

theorem sockEvent_conn_routed (env : Env) (st : St) (e : Event) (h : st.conn = .none)
    (hp : Obs.countP Obs.isHp (sockEvent env st e).sock.log > Obs.countP Obs.isHp st.sock.log) :
    (sockEvent env st e).conn = .connecting := by
  rw [sockEvent_sock] at hp
  rw [sockEvent_eq]
  have hf := relayReads_fields (afterRoute (Obs.countP Obs.isHp st.sock.log)
      { st with sock := (Sock.stepK env app (st.sock, evCount st.sock.log) e).1 })
  simp only [Prod.mk.injEq] at hf
  rw [hf.1]
  unfold afterRoute
  simp [h, hp]

theorem fed_state (env : Env) (c : Cfg) (req head rest : Bytes) (rh : Parser.ReqHead)
    (p : Bytes) (q : List (Bytes × Bytes))
    (h : breakOn CRLF2 req = some (head, rest))
    (hp : Parser.parseRequestHeaders head [] = some rh) (hu : env.url rh.rawPath = some (p, q)) :
    Fed ([PEv.sock .new, .sock (.feed req)].foldl (Proxy.step env c) {}) := by
  have f2 := feed_state env req head rest rh p q h hp hu
  rw [List.foldl_cons, List.foldl_cons, List.foldl_nil, step_new]
  have hs := step_feed_sock env c req
  rw [step_sock] at hs ⊢
  have hf := sockEvent_fields env { sock := { initPending := true, log := [Obs.ev 0] } } (.feed req)
  simp only [Prod.mk.injEq] at hf
  refine ⟨by rw [hs]; exact f2, ?_, hf.1, hf.2.1, hf.2.2.1, hf.2.2.2⟩
  apply sockEvent_conn_routed _ _ _ rfl
  rw [hs]
  exact f2.hp

end Qhttp.C13L
