import Qhttp.Lemmas.ProxyRun
/-
  C12 — the relay induction once more, generic in the socket invariant: everything the proxy-level
  argument needs of the socket is collected in `SockI`.  Instances: the declared-length case
  (C02's `RInv` + `Extra`, `sockI_len`) and the case without a declared length
  (`ProxyNoLen.lean`).
-/
namespace Qhttp.ProxyL
open Qhttp Proxy Qhttp.C02

/-- what the relay argument needs of a socket invariant `I fed s` (`fed`: bytes delivered so far;
    `fedF`: the whole stream; `ent`: the body bytes the upstream server is entitled to) -/
structure SockI (env : Env) (evs : List Event) (fedF : Bytes) (rh : Parser.ReqHead) (ent : Bytes)
    (I : Bytes → Sock → Prop) : Prop where
  init : I [] {}
  hpCount : ∀ {fed s}, I fed s → Obs.countP Obs.isHp s.log = if s.rs = .headers then 0 else 1
  readsNil : ∀ {fed s}, I fed s → s.rs = .headers → Obs.reads s.log = []
  flags : ∀ {fed s}, I fed s → s.alive = true ∧ s.delPending = false
  misc : ∀ {fed s} (b : Bytes), I fed s → I fed { s with log := s.log ++ [Obs.misc 20 b] }
  fields : ∀ {fed s}, I fed s → s.rs ≠ .headers →
    s.method = rh.method ∧ s.rawPath = rh.rawPath ∧ s.reqHeaders = rh.headers
  step : ∀ {fed s} (e : Event) (k : Nat), I fed s → evs[k]? = some e → relaySockEvent e = true →
    (fed ++ evBytesOf e) <+: fedF →
    I (fed ++ evBytesOf e) (Sock.stepK env Proxy.app (s, k) e).1 ∧
    LogStep s (Sock.stepK env Proxy.app (s, k) e).1 k ∧
    (e = .turn → (Sock.stepK env Proxy.app (s, k) e).1 = turnSock env s k)
  full : ∀ {s}, I fedF s → s.rs ≠ .headers
  readsPre : ∀ {fed s}, I fed s → fed <+: fedF → Obs.reads s.log <+: ent
  readsAll : ∀ {s}, I fedF s → Obs.reads s.log = ent

structure PInvG (I : Bytes → Sock → Prop) (c : Cfg) (rh : Parser.ReqHead) (n : Nat) (fed : Bytes)
    (st : St) : Prop where
  inv : I fed st.sock
  relay : Relay c rh st
  nev : countEv st.sock.log = n

section generic
variable {env : Env} {evs : List Event} {fedF : Bytes} {rh : Parser.ReqHead} {ent : Bytes}
  {I : Bytes → Sock → Prop}

theorem pstep_gen (hI : SockI env evs fedF rh ent I) (c : Cfg) (hc : c.refuse = false) (fed : Bytes)
    (e : PEv) (he : relayPEv e = true) (n : Nat) (hk : evs[n]? = some (proj e))
    (hpre : (fed ++ evBytesOf (proj e)) <+: fedF) {st : St} (h : PInvG I c rh n fed st) :
    PInvG I c rh (n + 1) (fed ++ evBytesOf (proj e)) (step env c st e) ∧
    (e = .turn → st.sock.rs ≠ .headers → (step env c st e).conn = .connected ∧ (step env c st e).toUp = []) := by
  obtain ⟨hR, hP, hn⟩ := h
  obtain ⟨hR1, hls, ht1⟩ := hI.step (proj e) n hR hk (relaySock_proj he) hpre
  have hrel := routed_relay hP hls (hI.hpCount hR) (hI.hpCount hR1) (hI.readsNil hR)
  have hsock := routed_sock (Obs.countP Obs.isHp st.sock.log) st (Sock.stepK env Proxy.app (st.sock, n) (proj e)).1
  cases e with
  | up b => simp [relayPEv] at he
  | upClose => simp [relayPEv] at he
  | sock ev =>
    rw [show proj (PEv.sock ev) = ev from rfl] at hR1 hls hrel hsock hpre
    have e0 : step env c st (.sock ev) =
        routed (Obs.countP Obs.isHp st.sock.log) st (Sock.stepK env Proxy.app (st.sock, n) ev).1 := by
      show sockEvent env st ev = _
      rw [sockEvent_eq, hn]
    rw [e0]
    refine ⟨⟨?_, hrel, ?_⟩, fun h => nomatch h⟩
    · rw [hsock]; exact hR1
    · rw [hsock, hls.countEv, hn]
  | turn =>
    have hts' : (Sock.stepK env Proxy.app (st.sock, n) Event.turn).1 = turnSock env st.sock n := ht1 rfl
    rw [show proj PEv.turn = Event.turn from rfl] at hR1 hls hrel hsock hpre
    rw [hts'] at hR1 hls hrel hsock
    obtain ⟨cf1, cf2, cf3⟩ := connectFlush_good hrel (by rw [hsock]; exact hI.fields hR1)
    have hRx : I (fed ++ evBytesOf Event.turn)
        (connectFlush c (routed (Obs.countP Obs.isHp st.sock.log) st (turnSock env st.sock n))).sock ∧
        countEv (connectFlush c (routed (Obs.countP Obs.isHp st.sock.log) st (turnSock env st.sock n))).sock.log
          = n + 1 := by
      rcases cf2 with e | ⟨b, e⟩
      · rw [e, hsock]; exact ⟨hR1, by rw [hls.countEv, hn]⟩
      · rw [e, hsock]
        refine ⟨hI.misc b hR1, ?_⟩
        show countEv ((turnSock env st.sock n).log ++ [Obs.misc 20 b]) = n + 1
        rw [countEv_append, hls.countEv, hn]; rfl
    have e0 : step env c st .turn =
        connectFlush c (routed (Obs.countP Obs.isHp st.sock.log) st (turnSock env st.sock n)) := by
      show turn env c st = _
      rw [turn_eq0, if_neg (by simp [(hI.flags hR).1]), connectFlushR_eq env c _ hc, hn]
      exact tail_id env _ cf1.fromUp cf1.upClosing (hI.flags hRx.1).2
    rw [e0]
    refine ⟨⟨hRx.1, cf1, hRx.2⟩, fun _ hne => ?_⟩
    apply cf3
    rw [hsock]
    intro h1
    have m := hls.countHp
    rw [hI.hpCount hR, hI.hpCount hR1, if_neg hne, if_pos h1] at m
    omega

theorem PInvG_init (hI : SockI env evs fedF rh ent I) (c : Cfg) : PInvG I c rh 0 [] ({} : St) := by
  refine ⟨hI.init, ?_, rfl⟩
  exact ⟨rfl, rfl, rfl, ⟨fun _ => rfl, fun _ => rfl⟩, fun _ => ⟨rfl, rfl, rfl, rfl⟩,
    (fun h => nomatch h), (fun h => nomatch h), (fun h => nomatch h)⟩

end generic

theorem pfold_gen {env : Env} {pevs : List PEv} {rh : Parser.ReqHead} {ent : Bytes}
    {I : Bytes → Sock → Prop} (hI : SockI env (pevs.map proj) (fedP pevs) rh ent I)
    (c : Cfg) (hc : c.refuse = false) :
    ∀ (mid pre post : List PEv) (st : St), pevs = pre ++ mid ++ post →
      (∀ e ∈ mid, relayPEv e = true) →
      PInvG I c rh pre.length (fedP pre) st →
      PInvG I c rh (pre ++ mid).length (fedP (pre ++ mid)) (mid.foldl (step env c) st) := by
  intro mid
  induction mid with
  | nil => intro pre post st _ _ h; simpa using h
  | cons e mid ih =>
    intro pre post st hevs hok h
    have hk : (pevs.map proj)[pre.length]? = some (proj e) := by
      rw [hevs]; simp
    have hpre : (fedP pre ++ evBytesOf (proj e)) <+: fedP pevs := by
      rw [hevs]
      have : pre ++ e :: mid ++ post = (pre ++ [e]) ++ (mid ++ post) := by simp
      rw [this, fedP_append, fedP_append, fedP_single]
      exact List.prefix_append _ _
    have h1 := (pstep_gen hI c hc (fedP pre) e (hok e (by simp)) pre.length hk hpre h).1
    rw [List.foldl_cons]
    have := ih (pre ++ [e]) post (step env c st e) (by rw [hevs]; simp)
      (fun e' he' => hok e' (by simp [he']))
      (by rw [fedP_append, fedP_single, List.length_append, List.length_singleton]; exact h1)
    simpa using this

/-- the invariant holds after every prefix of a relay run -/
theorem prun_gen {env : Env} {pevs : List PEv} {rh : Parser.ReqHead} {ent : Bytes}
    {I : Bytes → Sock → Prop} (hI : SockI env (pevs.map proj) (fedP pevs) rh ent I)
    (c : Cfg) (hc : c.refuse = false)
    (pre post : List PEv) (hevs : pevs = pre ++ post) (hok : ∀ e ∈ pre, relayPEv e = true) :
    PInvG I c rh pre.length (fedP pre) (Proxy.run env c pre) := by
  have := pfold_gen hI c hc pre [] post {} (by simpa using hevs) hok
    (by simpa [fedP, fed_eq] using PInvG_init hI c)
  simpa [Proxy.run] using this

/-- the relay invariant at the end of a run, for any socket invariant -/
theorem run_final_gen {env : Env} {pevs : List PEv} {rh : Parser.ReqHead} {ent : Bytes}
    {I : Bytes → Sock → Prop} (hI : SockI env (pevs.map proj) (fedP pevs) rh ent I)
    (c : Cfg) (hc : c.refuse = false) (hok : ∀ e ∈ pevs, relayPEv e = true) :
    (upBytes (Proxy.run env c pevs).sock.log = [] ∧ ¬ ∃ pre, pevs = pre ++ [PEv.turn]) ∨
    ∃ d, upBytes (Proxy.run env c pevs).sock.log = upstreamHead c (reqSock rh) ++ d ∧
      d <+: ent ∧ ((∃ pre, pevs = pre ++ [PEv.turn]) → d = ent) := by
  obtain ⟨hR, hP, _⟩ := prun_gen hI c hc pevs [] (by simp) hok
  have hne := hI.full hR
  have hturn : (∃ pre, pevs = pre ++ [PEv.turn]) →
      (Proxy.run env c pevs).conn = .connected ∧ (Proxy.run env c pevs).toUp = [] := by
    rintro ⟨pre, hpe⟩
    have hIp := prun_gen hI c hc pre [.turn] hpe (fun e he => hok e (by rw [hpe]; simp [he]))
    have hfp : fedP pre = fedP pevs := by
      rw [hpe, fedP_append, fedP_single]; simp [proj, evBytesOf]
    have hk : (pevs.map proj)[pre.length]? = some (proj .turn) := by rw [hpe]; simp
    have hpre : (fedP pre ++ evBytesOf (proj .turn)) <+: fedP pevs := by
      rw [hfp]; simp [proj, evBytesOf]
    have hs := (pstep_gen hI c hc (fedP pre) .turn rfl pre.length hk hpre hIp).2 rfl
      (hI.full (by rw [← hfp]; exact hIp.inv))
    have hrun : Proxy.run env c pevs = step env c (Proxy.run env c pre) .turn := by
      rw [hpe]; simp [Proxy.run, List.foldl_append]
    rw [hrun]; exact hs
  have hreads := hI.readsPre hR (List.prefix_refl _)
  cases hconn : (Proxy.run env c pevs).conn with
  | none => exact absurd (hP.connNone.mp hconn) hne
  | connecting =>
    left
    refine ⟨(hP.connecting hconn).2.2.1, fun h => ?_⟩
    have := (hturn h).1
    rw [hconn] at this; cases this
  | connected =>
    right
    obtain ⟨_, _, d, e1, e2⟩ := hP.connected hconn
    refine ⟨d, e1, ?_, fun h => ?_⟩
    · exact (List.prefix_append d _).trans (by rw [e2]; exact hreads)
    · have ht := (hturn h).2
      rw [ht, List.append_nil] at e2
      rw [e2]; exact hI.readsAll hR
  | closed => exact absurd hconn hP.notClosed

end Qhttp.ProxyL
