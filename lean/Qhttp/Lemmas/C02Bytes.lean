import Qhttp.Model.Bytes
/-
  Byte-string lemmas used by the C02 proofs (first occurrence of a delimiter is stable under
  appending; take/append arithmetic).
-/
namespace Qhttp.C02L
open Qhttp

theorem breakOn_some_eq (d : Bytes) : ∀ (xs a r : Bytes), breakOn d xs = some (a, r) → xs = a ++ d ++ r := by
  intro xs
  induction xs with
  | nil =>
    intro a r h
    unfold breakOn at h
    by_cases hp : d.isPrefixOf [] = true
    · simp only [hp, if_true, Option.some.injEq, Prod.mk.injEq] at h
      obtain ⟨rfl, rfl⟩ := h
      have := List.isPrefixOf_iff_prefix.mp hp
      have hd : d = [] := List.prefix_nil.mp this
      subst hd; simp
    · simp [hp] at h
  | cons x xs ih =>
    intro a r h
    unfold breakOn at h
    by_cases hp : d.isPrefixOf (x :: xs) = true
    · simp only [hp, if_true, Option.some.injEq, Prod.mk.injEq] at h
      obtain ⟨rfl, rfl⟩ := h
      obtain ⟨t, ht⟩ := List.isPrefixOf_iff_prefix.mp hp
      rw [← ht]; simp
    · simp only [hp] at h
      cases hb : breakOn d xs with
      | none => simp [hb] at h
      | some p =>
        obtain ⟨a', r'⟩ := p
        simp only [hb] at h
        obtain ⟨rfl, rfl⟩ := h
        have := ih a' r hb
        rw [this]; simp

theorem breakOn_append (d : Bytes) : ∀ (xs a r ys : Bytes), breakOn d xs = some (a, r) →
    breakOn d (xs ++ ys) = some (a, r ++ ys) := by
  intro xs
  induction xs with
  | nil =>
    intro a r ys h
    unfold breakOn at h
    by_cases hp : d.isPrefixOf [] = true
    · simp only [hp, if_true, Option.some.injEq, Prod.mk.injEq] at h
      obtain ⟨rfl, rfl⟩ := h
      have hd : d = [] := List.prefix_nil.mp (List.isPrefixOf_iff_prefix.mp hp)
      subst hd
      unfold breakOn; simp
    · simp [hp] at h
  | cons x xs ih =>
    intro a r ys h
    unfold breakOn at h
    by_cases hp : d.isPrefixOf (x :: xs) = true
    · simp only [hp, if_true, Option.some.injEq, Prod.mk.injEq] at h
      obtain ⟨rfl, rfl⟩ := h
      obtain ⟨t, ht⟩ := List.isPrefixOf_iff_prefix.mp hp
      have hp' : d.isPrefixOf (x :: xs ++ ys) = true := by
        apply List.isPrefixOf_iff_prefix.mpr
        exact ⟨t ++ ys, by rw [← List.append_assoc, ht]⟩
      unfold breakOn
      simp only [hp', if_true, Option.some.injEq, Prod.mk.injEq, true_and]
      rw [← ht]; simp
    · simp only [hp] at h
      cases hb : breakOn d xs with
      | none => simp [hb] at h
      | some p =>
        obtain ⟨a', r'⟩ := p
        simp only [hb] at h
        obtain ⟨rfl, rfl⟩ := h
        have hp' : ¬ d.isPrefixOf (x :: xs ++ ys) = true := by
          intro hc
          -- d is a prefix of (x::xs)++ys, and breakOn found d inside xs: so |d| ≤ |xs| < |x::xs|
          have hx := breakOn_some_eq d xs a' r hb
          have hle : d.length ≤ (x :: xs).length := by
            rw [hx]; simp; omega
          have := List.prefix_of_prefix_length_le (List.isPrefixOf_iff_prefix.mp hc)
            (List.prefix_append (x :: xs) ys) hle
          exact hp (List.isPrefixOf_iff_prefix.mpr this)
        have : breakOn d (x :: xs ++ ys) = (match breakOn d (xs ++ ys) with
            | some (a, r) => some (x :: a, r) | none => none) := by
          conv => lhs; unfold breakOn
          simp only [hp']
          rfl
        rw [this, ih a' r ys hb]

/-- if the stream so far is a prefix of the final stream and already contains the delimiter,
    the split of the final stream is the same head and an extension of the rest -/
theorem breakOn_prefix (d xs full a r : Bytes) (hp : xs <+: full) (h : breakOn d xs = some (a, r)) :
    ∃ t, full = xs ++ t ∧ breakOn d full = some (a, r ++ t) := by
  obtain ⟨t, rfl⟩ := hp
  exact ⟨t, rfl, breakOn_append d xs a r t h⟩

theorem take_append_of_le {α} (a b : List α) (n : Nat) (h : a.length ≤ n) :
    (a ++ b).take n = a ++ b.take (n - a.length) := by
  rw [List.take_append, List.take_of_length_le h]

end Qhttp.C02L
