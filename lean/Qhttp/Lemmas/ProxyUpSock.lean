import Qhttp.Lemmas.ProxyNoLen
import Qhttp.Lemmas.ProxyBad
/-
  C12 — the upstream server answers while the client is still sending: what relaying an answer
  does to the client's socket.

  * A relayed response (`setStatusCode`, `setHeaders`, `writeHeaders`, `write`) touches the
    response side only (`WSame`): nothing the request side reads or decides on changes, the
    history gains `w` observations only.  Every socket invariant of the relay argument is
    insensitive to that (`Mid.wsame`, `RInv.wsame`, `NInv.wsame`).
  * `writeError` (502 for an answer whose head `Parser::parseResponseHeaders` refuses) closes the
    socket (`ClosedS`): from then on nothing is read from the client any more, the history gains
    neither `rd` nor upstream observations (`DRel`).
-/
namespace Qhttp.ProxyL
open Qhttp Proxy Qhttp.C02

/-! ### histories made of `w` observations -/

theorem isW_facts : ∀ (l : List Obs), l.all Obs.isW = true →
    rdsOf l = [] ∧ upBytes l = [] ∧ countEv l = 0 ∧ Obs.reads l = [] ∧ Obs.countP Obs.isHp l = 0 ∧
    Obs.countP Obs.isRcf l = 0 ∧ l.any Obs.isTc = false := by
  intro l
  induction l with
  | nil => intro _; exact ⟨rfl, rfl, rfl, rfl, rfl, rfl, rfl⟩
  | cons o l ih =>
    intro h
    simp only [List.all_cons, Bool.and_eq_true] at h
    obtain ⟨h1, h2⟩ := h
    obtain ⟨a, b, c, d, e, f, g⟩ := ih h2
    cases o <;> simp [Obs.isW] at h1
    refine ⟨?_, ?_, ?_, ?_, ?_, ?_, ?_⟩
    · rw [show ∀ (x : Obs) (xs : List Obs), x :: xs = [x] ++ xs from fun _ _ => rfl, rdsOf_append, a]; rfl
    · rw [show ∀ (x : Obs) (xs : List Obs), x :: xs = [x] ++ xs from fun _ _ => rfl, upBytes_append, b]; rfl
    · rw [show ∀ (x : Obs) (xs : List Obs), x :: xs = [x] ++ xs from fun _ _ => rfl, countEv_append, c]; rfl
    · rw [show ∀ (x : Obs) (xs : List Obs), x :: xs = [x] ++ xs from fun _ _ => rfl, reads_append, d]; rfl
    · rw [show ∀ (x : Obs) (xs : List Obs), x :: xs = [x] ++ xs from fun _ _ => rfl, countP_append, e]; rfl
    · rw [show ∀ (x : Obs) (xs : List Obs), x :: xs = [x] ++ xs from fun _ _ => rfl, countP_append, f]; rfl
    · rw [List.any_cons, g]; rfl

theorem isW_walk (evs : List Event) (hl N : Nat) : ∀ (l : List Obs), l.all Obs.isW = true →
    ∀ f hp a, walkL evs hl N l f hp a = true ∧ ∃ a', C02.wst evs l f hp a = (f, hp, a') := by
  intro l
  induction l with
  | nil => intro _ f hp a; exact ⟨rfl, a, rfl⟩
  | cons o l ih =>
    intro h f hp a
    simp only [List.all_cons, Bool.and_eq_true] at h
    obtain ⟨h1, h2⟩ := h
    cases o <;> simp [Obs.isW] at h1
    obtain ⟨w1, a', w2⟩ := ih h2 f hp none
    exact ⟨by simp [walkL, w1], a', by simp [C02.wst, w2]⟩

/-! ### `WSame`: the same socket up to the response side -/

structure WSame (s s' : Sock) : Prop where
  alive : s'.alive = s.alive
  ioOpen : s'.ioOpen = s.ioOpen
  inbox : s'.tcp.inbox = s.tcp.inbox
  devOpen : s'.tcp.devOpen = s.tcp.devOpen
  dcFlag : s'.dcFlag = s.dcFlag
  delPending : s'.delPending = s.delPending
  rs : s'.rs = s.rs
  readBuffer : s'.readBuffer = s.readBuffer
  reqHeaders : s'.reqHeaders = s.reqHeaders
  query : s'.query = s.query
  qio : s'.qio = s.qio
  dataRead : s'.dataRead = s.dataRead
  total : s'.total = s.total
  method : s'.method = s.method
  rawPath : s'.rawPath = s.rawPath
  initPending : s'.initPending = s.initPending
  log : ∃ l, s'.log = s.log ++ l ∧ l.all Obs.isW = true

theorem WSame.refl (s : Sock) : WSame s s :=
  ⟨rfl, rfl, rfl, rfl, rfl, rfl, rfl, rfl, rfl, rfl, rfl, rfl, rfl, rfl, rfl, rfl, [], by simp, rfl⟩

theorem WSame.trans {a b c : Sock} (h1 : WSame a b) (h2 : WSame b c) : WSame a c := by
  obtain ⟨l1, e1, q1⟩ := h1.log
  obtain ⟨l2, e2, q2⟩ := h2.log
  exact ⟨h2.alive.trans h1.alive, h2.ioOpen.trans h1.ioOpen, h2.inbox.trans h1.inbox,
    h2.devOpen.trans h1.devOpen, h2.dcFlag.trans h1.dcFlag, h2.delPending.trans h1.delPending,
    h2.rs.trans h1.rs, h2.readBuffer.trans h1.readBuffer, h2.reqHeaders.trans h1.reqHeaders,
    h2.query.trans h1.query, h2.qio.trans h1.qio, h2.dataRead.trans h1.dataRead, h2.total.trans h1.total,
    h2.method.trans h1.method, h2.rawPath.trans h1.rawPath, h2.initPending.trans h1.initPending,
    l1 ++ l2, by rw [e2, e1, List.append_assoc], by rw [List.all_append, q1, q2]; rfl⟩

/-- the history projections the relay argument uses do not see `w` observations -/
theorem WSame.logs {s s' : Sock} (h : WSame s s') :
    rdsOf s'.log = rdsOf s.log ∧ upBytes s'.log = upBytes s.log ∧ countEv s'.log = countEv s.log ∧
    Obs.reads s'.log = Obs.reads s.log ∧ Obs.countP Obs.isHp s'.log = Obs.countP Obs.isHp s.log := by
  obtain ⟨l, e, q⟩ := h.log
  obtain ⟨a, b, c, d, f, _, _⟩ := isW_facts l q
  rw [e, rdsOf_append, upBytes_append, countEv_append, reads_append, countP_append, a, b, c, d, f]
  simp

theorem tcpWrite_wsame (s : Sock) (b : Bytes) : WSame s (Sock.tcpWrite s b) := by
  unfold Sock.tcpWrite
  split
  · exact ⟨rfl, rfl, rfl, rfl, rfl, rfl, rfl, rfl, rfl, rfl, rfl, rfl, rfl, rfl, rfl, rfl, [Obs.w b], rfl, rfl⟩
  · exact WSame.refl s

theorem writeHeaders_wsame (s : Sock) : WSame s (Sock.writeHeaders s) := by
  have h1 : WSame s { s with ws := .headers, hdrRemaining := (Sock.headBytes s).length } :=
    ⟨rfl, rfl, rfl, rfl, rfl, rfl, rfl, rfl, rfl, rfl, rfl, rfl, rfl, rfl, rfl, rfl, [], by simp, rfl⟩
  exact h1.trans (tcpWrite_wsame _ _)

theorem write_wsame (s : Sock) (b : Bytes) : WSame s (Sock.write s b) := by
  unfold Sock.write
  split
  · exact WSame.refl s
  · simp only []
    split
    · exact (writeHeaders_wsame s).trans (tcpWrite_wsame _ _)
    · exact tcpWrite_wsame _ _

theorem setStatusCode_wsame (s : Sock) (c : Int) (r : Option Bytes) : WSame s (Sock.setStatusCode s c r) :=
  ⟨rfl, rfl, rfl, rfl, rfl, rfl, rfl, rfl, rfl, rfl, rfl, rfl, rfl, rfl, rfl, rfl, [], by simp [Sock.setStatusCode], rfl⟩

theorem respHeaders_wsame (s : Sock) (hs : HeaderMap) : WSame s { s with respHeaders := hs } :=
  ⟨rfl, rfl, rfl, rfl, rfl, rfl, rfl, rfl, rfl, rfl, rfl, rfl, rfl, rfl, rfl, rfl, [], by simp, rfl⟩

/-- the three calls a relayed response consists of, made on a live socket outside a reaction -/
theorem api_status_wsame (env : Env) (s : Sock) (c : Int) (r : Option Bytes) (hdc : s.dcFlag = false) :
    WSame s (Sock.api env Proxy.app s (.status c r)) := by
  have h : WSame s (Sock.apiPrim env s (.status c r)) := by
    unfold Sock.apiPrim; split
    · exact WSame.refl s
    · exact setStatusCode_wsame s c r
  rw [api_of_dcFlag env Proxy.app s _ (h.dcFlag.trans hdc)]; exact h

theorem api_wh_wsame (env : Env) (s : Sock) (hdc : s.dcFlag = false) :
    WSame s (Sock.api env Proxy.app s .wh) := by
  have h : WSame s (Sock.apiPrim env s .wh) := by
    unfold Sock.apiPrim; split
    · exact WSame.refl s
    · exact writeHeaders_wsame s
  rw [api_of_dcFlag env Proxy.app s _ (h.dcFlag.trans hdc)]; exact h

theorem api_write_wsame (env : Env) (s : Sock) (b : Bytes) (hdc : s.dcFlag = false) :
    WSame s (Sock.api env Proxy.app s (.write b)) := by
  have h : WSame s (Sock.apiPrim env s (.write b)) := by
    unfold Sock.apiPrim; split
    · exact WSame.refl s
    · exact write_wsame s b
  rw [api_of_dcFlag env Proxy.app s _ (h.dcFlag.trans hdc)]; exact h

/-! ### the socket invariants do not look at the response side -/

theorem Mid.wsame {evs : List Event} {hl N fedLen : Nat} {hb B : Bytes} {a : Option Nat} {s s' : Sock}
    (h : Mid evs hl N fedLen hb B a s) (w : WSame s s') : ∃ a', Mid evs hl N fedLen hb B a' s' := by
  obtain ⟨l, e, q⟩ := w.log
  obtain ⟨_, _, _, f4, f5, f6, f7⟩ := isW_facts l q
  obtain ⟨w1, a', w2⟩ := isW_walk evs hl N l q fedLen (s.rs != .headers) a
  refine ⟨a', { alive := w.alive.trans h.alive, ioOpen := w.ioOpen.trans h.ioOpen,
                devOpen := w.devOpen.trans h.devOpen, dcFlag := w.dcFlag.trans h.dcFlag,
                delPending := w.delPending.trans h.delPending,
                walk := ?_, wst := ?_, hp := ?_, rcf := ?_, tc := ?_, hdr := ?_, dat := ?_ }⟩
  · rw [e, walkL_append, h.walk, h.wst]; simpa using w1
  · rw [e, wst_append, h.wst, w.rs]; simpa using w2
  · rw [e, countP_append, h.hp, f5, w.rs]; rfl
  · rw [e, countP_append, h.rcf, f6, w.rs]; rfl
  · rw [e, List.any_append, h.tc, f7]; rfl
  · intro hh
    obtain ⟨e1, e2, e3, e4, e5, e6⟩ := h.hdr (w.rs.symm.trans hh)
    refine ⟨w.readBuffer.trans e1, w.reqHeaders.trans e2, w.query.trans e3, w.qio.trans e4, ?_, w.dataRead.trans e6⟩
    rw [e, reads_append, e5, f4]; rfl
  · intro hh
    obtain ⟨e1, e2, e3, e4⟩ := h.dat (by rw [← w.rs]; exact hh)
    rw [e, reads_append, f4, List.append_nil, w.qio, w.readBuffer, w.dataRead, w.total]
    exact ⟨e1, e2, e3, e4⟩

theorem RInv.wsame {evs : List Event} {head : Bytes} {N : Nat} {fed : Bytes} {s s' : Sock}
    (h : RInv evs head N fed s) (w : WSame s s') : RInv evs head N fed s' := by
  obtain ⟨a, hb, B, hm, hin, hrel⟩ := h
  obtain ⟨a', hm'⟩ := Mid.wsame hm w
  exact ⟨a', hb, B, hm', w.inbox.trans hin, hrel.of_rs w.rs⟩

theorem Extra.wsame {rh : Parser.ReqHead} {s s' : Sock} (h : Extra rh s) (w : WSame s s') : Extra rh s' :=
  h.of_eq w.rs ⟨w.method, w.rawPath, w.reqHeaders⟩ w.qio w.readBuffer

theorem NInv.wsame {head : Bytes} {rh : Parser.ReqHead} {fed : Bytes} {s s' : Sock}
    (h : NInv head rh fed s) (w : WSame s s') : NInv head rh fed s' :=
  h.transfer w.alive w.ioOpen w.devOpen w.dcFlag w.delPending (w.inbox.trans h.inbox) w.total w.qio w.rs
    w.readBuffer w.reqHeaders w.method w.rawPath w.logs.2.2.2.1 w.logs.2.2.2.2

/-! ### the marker of an event that delivers nothing to the socket (`up`) -/

theorem RInv.mark {evs : List Event} {head : Bytes} {N : Nat} {fed : Bytes} {s : Sock}
    (h : RInv evs head N fed s) (k : Nat) (hk : evs[k]? = some .turn) :
    RInv evs head N fed { s with log := s.log ++ [Obs.ev k] } := by
  obtain ⟨a, hb, B, hm, hin, hrel⟩ := h
  have hm1 := hm.ev k
  rw [evLen_of k .turn hk] at hm1
  exact ⟨none, hb, B, hm1, hin, hrel.of_rs rfl⟩

theorem Extra.mark {rh : Parser.ReqHead} {s : Sock} (h : Extra rh s) (k : Nat) :
    Extra rh { s with log := s.log ++ [Obs.ev k] } := h.of_eq rfl ⟨rfl, rfl, rfl⟩ rfl rfl

/-! ### the head is complete exactly when the socket is past it -/

theorem crlf2_infix (a b : Bytes) : breakOn CRLF2 (a ++ CRLF2 ++ b) ≠ none := by
  intro h
  exact (breakOn_eq_none_iff.mp h) ⟨a, b, rfl⟩

theorem RInv.hdrIff {evs : List Event} {head : Bytes} {N : Nat} {fed : Bytes} {s : Sock}
    (h : RInv evs head N fed s) : s.rs = .headers ↔ breakOn CRLF2 fed = none := by
  obtain ⟨a, hb, B, hm, hin, hrel⟩ := h
  constructor
  · intro hrs; exact (hrel.1 hrs).2
  · intro hb'
    cases hrs : s.rs with
    | headers => rfl
    | data =>
      obtain ⟨rest, e1, _⟩ := hrel.2 (by rw [hrs]; simp)
      rw [e1] at hb'; exact absurd hb' (crlf2_infix _ _)
    | finished =>
      obtain ⟨rest, e1, _⟩ := hrel.2 (by rw [hrs]; simp)
      rw [e1] at hb'; exact absurd hb' (crlf2_infix _ _)

theorem NInv.hdrIff {head : Bytes} {rh : Parser.ReqHead} {fed : Bytes} {s : Sock}
    (h : NInv head rh fed s) : s.rs = .headers ↔ breakOn CRLF2 fed = none := by
  constructor
  · intro hrs; exact (h.hdr hrs).2.1
  · intro hb'
    cases hrs : s.rs with
    | headers => rfl
    | data =>
      obtain ⟨rest, e1, _⟩ := (h.dat hrs).2.1
      rw [e1] at hb'; exact absurd hb' (crlf2_infix _ _)
    | finished => exact absurd hrs h.notFin

/-! ### after `writeError`: the closed socket -/

/-- neither a read result nor an upstream observation -/
def quietD : Obs → Bool | .rd _ => false | .misc _ _ => false | _ => true

/-- `Socket::close` was called: the request side is over -/
def ClosedS (s : Sock) : Prop := s.rs = .finished ∧ s.ioOpen = false

/-- the history grew by observations other than reads / upstream observations, and a closed
    socket stayed closed -/
structure DRel (s s' : Sock) : Prop where
  grow : ∃ l, s'.log = s.log ++ l ∧ l.all quietD = true
  closed : ClosedS s → ClosedS s'

theorem DRel.refl (s : Sock) : DRel s s := ⟨⟨[], by simp, rfl⟩, id⟩

theorem DRel.trans {a b c : Sock} (h1 : DRel a b) (h2 : DRel b c) : DRel a c := by
  obtain ⟨l1, e1, q1⟩ := h1.grow
  obtain ⟨l2, e2, q2⟩ := h2.grow
  exact ⟨⟨l1 ++ l2, by rw [e2, e1, List.append_assoc], by rw [List.all_append, q1, q2]; rfl⟩,
    fun h => h2.closed (h1.closed h)⟩

theorem DRel.of_eq {s s' : Sock} (h1 : s'.log = s.log) (h2 : s'.rs = s.rs) (h3 : s'.ioOpen = s.ioOpen) :
    DRel s s' := ⟨⟨[], by simp [h1], rfl⟩, fun h => ⟨h2.trans h.1, h3.trans h.2⟩⟩

theorem DRel.one (s : Sock) (o : Obs) (h : quietD o = true) : DRel s { s with log := s.log ++ [o] } :=
  ⟨⟨[o], rfl, by simp [h]⟩, id⟩

theorem quietD_facts : ∀ (l : List Obs), l.all quietD = true →
    rdsOf l = [] ∧ upBytes l = [] ∧ Obs.reads l = [] := by
  intro l
  induction l with
  | nil => intro _; exact ⟨rfl, rfl, rfl⟩
  | cons o l ih =>
    intro h
    simp only [List.all_cons, Bool.and_eq_true] at h
    obtain ⟨h1, h2⟩ := h
    obtain ⟨a, b, c⟩ := ih h2
    have e : o :: l = [o] ++ l := rfl
    rw [e, rdsOf_append, upBytes_append, reads_append, a, b, c]
    cases o <;> simp [quietD] at h1 <;> exact ⟨rfl, rfl, rfl⟩

theorem DRel.logs {s s' : Sock} (h : DRel s s') :
    rdsOf s'.log = rdsOf s.log ∧ upBytes s'.log = upBytes s.log ∧ Obs.reads s'.log = Obs.reads s.log := by
  obtain ⟨l, e, q⟩ := h.grow
  obtain ⟨a, b, c⟩ := quietD_facts l q
  rw [e, rdsOf_append, upBytes_append, reads_append, a, b, c]
  simp

theorem WSame.drel {s s' : Sock} (h : WSame s s') : DRel s s' := by
  obtain ⟨l, e, q⟩ := h.log
  refine ⟨⟨l, e, ?_⟩, fun c => ⟨h.rs.trans c.1, h.ioOpen.trans c.2⟩⟩
  rw [List.all_eq_true] at q ⊢
  intro o ho
  have := q o ho
  cases o <;> simp [Obs.isW] at this <;> rfl

theorem tcpClose_drel (s : Sock) : DRel s (Sock.tcpClose s) := by
  unfold Sock.tcpClose
  split
  · exact DRel.refl s
  · simp only []
    split
    · split
      · exact ⟨⟨[Obs.tc], rfl, rfl⟩, id⟩
      · exact ⟨⟨[Obs.tc], rfl, rfl⟩, id⟩
    · exact ⟨⟨[Obs.tc], rfl, rfl⟩, id⟩

theorem close_drel (s : Sock) : DRel s (Sock.close s) ∧ ClosedS (Sock.close s) := by
  unfold Sock.close
  have h0 : DRel s { s with ioOpen := false, qio := [], rs := .finished, ws := .finished, closeCalled := true } :=
    ⟨⟨[], by simp, rfl⟩, fun _ => ⟨rfl, rfl⟩⟩
  have h1 := tcpClose_drel { s with ioOpen := false, qio := [], rs := .finished, ws := .finished, closeCalled := true }
  exact ⟨h0.trans h1, h1.closed ⟨rfl, rfl⟩⟩

theorem writeError_drel (env : Env) (s : Sock) (c : Int) (r : Option Bytes) :
    DRel s (Sock.writeError env s c r) ∧ ClosedS (Sock.writeError env s c r) := by
  unfold Sock.writeError
  simp only []
  have h1 : DRel s (Sock.setHeader (Sock.setHeader (Sock.setStatusCode s c r) Sock.CONTENT_LENGTH
      (natDigits (env.errPage (Sock.setStatusCode s c r).code (Sock.setStatusCode s c r).reason).length) true)
      Sock.CONTENT_TYPE Sock.TEXT_HTML true) := by
    unfold Sock.setHeader Sock.setStatusCode
    simp only [Bool.true_or, if_true]
    exact DRel.of_eq rfl rfl rfl
  have h2 := h1.trans (writeHeaders_wsame _).drel
  have h3 := h2.trans (write_wsame _ (env.errPage (Sock.setStatusCode s c r).code (Sock.setStatusCode s c r).reason)).drel
  obtain ⟨c1, c2⟩ := close_drel (Sock.write (Sock.writeHeaders (Sock.setHeader (Sock.setHeader (Sock.setStatusCode s c r) Sock.CONTENT_LENGTH
      (natDigits (env.errPage (Sock.setStatusCode s c r).code (Sock.setStatusCode s c r).reason).length) true)
      Sock.CONTENT_TYPE Sock.TEXT_HTML true)) (env.errPage (Sock.setStatusCode s c r).code (Sock.setStatusCode s c r).reason))
  exact ⟨h3.trans c1, c2⟩

theorem emitDc_drel (env : Env) (s : Sock) : DRel s (Sock.emitDc env Proxy.app s) := by
  unfold Sock.emitDc
  exact ⟨⟨[Obs.dc], rfl, rfl⟩, id⟩

/-- after any call: `disconnected` may be due -/
theorem api_of_prim (env : Env) (s : Sock) (op : ApiOp) (h : DRel s (Sock.apiPrim env s op)) :
    DRel s (Sock.api env Proxy.app s op) := by
  unfold Sock.api
  simp only []
  split
  · exact h.trans (emitDc_drel env _)
  · exact h

/-- the four calls `onUpstreamReadyRead` makes, on any socket -/
theorem api_status_drel (env : Env) (s : Sock) (c : Int) (r : Option Bytes) :
    DRel s (Sock.api env Proxy.app s (.status c r)) := by
  apply api_of_prim
  unfold Sock.apiPrim; split
  · exact DRel.refl s
  · exact (setStatusCode_wsame s c r).drel

theorem api_wh_drel (env : Env) (s : Sock) : DRel s (Sock.api env Proxy.app s .wh) := by
  apply api_of_prim
  unfold Sock.apiPrim; split
  · exact DRel.refl s
  · exact (writeHeaders_wsame s).drel

theorem api_write_drel (env : Env) (s : Sock) (b : Bytes) : DRel s (Sock.api env Proxy.app s (.write b)) := by
  apply api_of_prim
  unfold Sock.apiPrim; split
  · exact DRel.refl s
  · exact (write_wsame s b).drel

theorem api_err_drel (env : Env) (s : Sock) (c : Int) (r : Option Bytes) :
    DRel s (Sock.api env Proxy.app s (.err c r)) := by
  apply api_of_prim
  unfold Sock.apiPrim; split
  · exact DRel.refl s
  · exact (writeError_drel env s c r).1

/-- `writeError` on a live socket leaves it closed -/
theorem api_err_closed (env : Env) (s : Sock) (c : Int) (r : Option Bytes) (ha : s.alive = true) :
    ClosedS (Sock.api env Proxy.app s (.err c r)) := by
  have h : ClosedS (Sock.apiPrim env s (.err c r)) := by
    unfold Sock.apiPrim
    rw [if_neg (by simp [ha])]
    exact (writeError_drel env s c r).2
  unfold Sock.api
  simp only []
  split
  · exact (emitDc_drel env _).closed h
  · exact h

/-- the deferred deletion at the end of a turn -/
theorem del_drel (r : Sock) :
    DRel r (if r.delPending then { r with alive := false, delPending := false, log := r.log ++ [Obs.del] } else r) := by
  split
  · exact ⟨⟨[Obs.del], rfl, rfl⟩, fun h => ⟨h.1, h.2⟩⟩
  · exact DRel.refl _

/-- one socket event of the relay shape on a closed socket: nothing is read -/
theorem stepK_closed (env : Env) (s : Sock) (k : Nat) (e : Event) (he : relaySockEvent e = true)
    (hc : ClosedS s) : DRel s (Sock.stepK env Proxy.app (s, k) e).1 ∧ ClosedS (Sock.stepK env Proxy.app (s, k) e).1 := by
  have key : DRel s (Sock.stepK env Proxy.app (s, k) e).1 := by
    unfold Sock.stepK
    simp only []
    by_cases ha : s.alive = true
    · rw [if_neg (by simp [ha])]
      have h0 : DRel s { s with log := s.log ++ [Obs.ev k] } := DRel.one s _ rfl
      refine h0.trans ?_
      have hc0 : ({ s with log := s.log ++ [Obs.ev k] } : Sock).rs = .finished := hc.1
      unfold Sock.step
      rw [if_neg (by simp [ha])]
      cases e with
      | prebuf b => simp [relaySockEvent] at he
      | ack n => simp [relaySockEvent] at he
      | ackAll => simp [relaySockEvent] at he
      | peerClose => simp [relaySockEvent] at he
      | api op => simp [relaySockEvent] at he
      | new => exact DRel.of_eq rfl rfl rfl
      | feed seg =>
        simp only []
        rw [onReadyRead_eq, if_pos (by exact hc.1)]
        split
        · exact DRel.of_eq rfl rfl rfl
        · exact DRel.of_eq rfl rfl rfl
      | turn =>
        simp only []
        have h1 : DRel { s with log := s.log ++ [Obs.ev k] }
            (if ({ s with log := s.log ++ [Obs.ev k] } : Sock).initPending = true then
              Sock.onReadyRead env Proxy.app { ({ s with log := s.log ++ [Obs.ev k] } : Sock) with initPending := false }
             else { s with log := s.log ++ [Obs.ev k] }) := by
          split
          · rw [onReadyRead_eq, if_pos (by exact hc.1)]
            split
            · exact DRel.of_eq rfl rfl rfl
            · exact DRel.of_eq rfl rfl rfl
          · exact DRel.refl _
        exact h1.trans (del_drel _)
    · have ha' : s.alive = false := by simpa using ha
      rw [if_pos (by simp [ha'])]
      unfold Sock.step
      rw [if_pos (by simp [ha'])]
      exact DRel.refl s
  exact ⟨key, key.closed hc⟩

/-- the socket part of `Proxy.turn` on a closed socket -/
theorem turnSock_closed (env : Env) (s : Sock) (k : Nat) (hc : ClosedS s) : DRel s (turnSock env s k) := by
  unfold turnSock
  simp only []
  have h0 : DRel s { s with log := s.log ++ [Obs.ev k] } := DRel.one s _ rfl
  refine h0.trans ?_
  split
  · rw [onReadyRead_eq, if_pos (by exact hc.1)]
    split
    · exact DRel.of_eq rfl rfl rfl
    · exact DRel.of_eq rfl rfl rfl
  · exact DRel.refl _

end Qhttp.ProxyL
