import Qhttp.Model.Handler
/-
  The single-pass substitution of `Handler::route` (`substituteCaptures` in handler.cpp, `substitute`
  in the model) read as a function of the TOKEN list of the template:

  * `tokGo`              : the tokens the two loops of `substituteCaptures` see (position based:
                           "is there a marker at this '%'?", `markerAt`);
  * `tokGo_eq_argScan`   : they are the tokens of Qt's own scanner (`argScan`, the state machine of
                           `findArgEscapes`) — the two ways of reading a template agree on EVERY
                           string, so the repaired code keeps Qt's marker syntax exactly;
  * `presentGo_eq`, `fillGo_eq` : the loops are `tokNums` / `fillTok` of that token list.
-/
namespace Qhttp.RouteL
open Qhttp
set_option linter.unusedSimpArgs false

/-- the tokens the loops of `substituteCaptures` see; `skip` as in `presentGo` / `fillGo` -/
def tokGo : Nat → QStr → List ArgTok
  | _, [] => []
  | skip + 1, _ :: cs => tokGo skip cs
  | 0, c :: cs =>
    match (if c = 37 then markerAt cs else none) with
    | some (len, n) => .esc n ((c :: cs).take len) :: tokGo (len - 1) cs
    | none => .lit c :: tokGo 0 cs

/-- the marker numbers of a token list, in order of occurrence -/
def tokNums : List ArgTok → List Nat
  | [] => []
  | .lit _ :: l => tokNums l
  | .esc n _ :: l => n :: tokNums l

/-- replace the markers for which `f` has a text, keep the others as spelled -/
def fillTok (f : Nat → Option QStr) : List ArgTok → QStr
  | [] => []
  | .lit c :: l => c :: fillTok f l
  | .esc k raw :: l => (match f k with | some a => a | none => raw) ++ fillTok f l

theorem presentGo_eq (s : QStr) : ∀ k, presentGo k s = tokNums (tokGo k s) := by
  induction s with
  | nil => intro k; cases k <;> rfl
  | cons c cs ih =>
    intro k
    cases k with
    | succ k => simpa [presentGo, tokGo] using ih k
    | zero =>
      simp only [presentGo, tokGo]
      split
      · next len n h => simp only [h, tokNums, ih]
      · next h => simp only [h, tokNums, ih]

theorem fillGo_eq (present : List Nat) (caps : List QStr) (s : QStr) :
    ∀ k, fillGo present caps k s = fillTok (fun n => caps[rank present n]?) (tokGo k s) := by
  induction s with
  | nil => intro k; cases k <;> rfl
  | cons c cs ih =>
    intro k
    cases k with
    | succ k => simpa [fillGo, tokGo] using ih k
    | zero =>
      simp only [fillGo, tokGo]
      split
      · next len n h => simp only [h, fillTok, ih]; rfl
      · next h => simp only [h, fillTok, ih]

theorem fillTok_congr {f g : Nat → Option QStr} {toks : List ArgTok}
    (h : ∀ k ∈ tokNums toks, f k = g k) : fillTok f toks = fillTok g toks := by
  induction toks with
  | nil => rfl
  | cons t l ih =>
    cases t with
    | lit c => simp only [fillTok]; rw [ih (fun k hk => h k (by simpa [tokNums] using hk))]
    | esc k raw =>
      simp only [fillTok]
      rw [h k (by simp [tokNums]), ih (fun j hj => h j (by simp [tokNums, hj]))]

/-! ### the position-based reading is Qt's scanner -/

theorem digit16_pct : digit16 37 = none := by decide
theorem digit16_L : digit16 76 = none := by decide

theorem tokGo_skip (xs s : QStr) : tokGo xs.length (xs ++ s) = tokGo 0 s := by
  induction xs with
  | nil => rfl
  | cons x xs ih => simpa [tokGo] using ih

theorem tokGo_ne {c : UInt16} (h : c ≠ 37) (s : QStr) : tokGo 0 (c :: s) = .lit c :: tokGo 0 s := by
  simp [tokGo, h]

theorem tokGo_pct_none {s : QStr} (h : markerAt s = none) : tokGo 0 (37 :: s) = .lit 37 :: tokGo 0 s := by
  simp [tokGo, h]

theorem tokGo_pct_some {s : QStr} {len n : Nat} (h : markerAt s = some (len, n)) :
    tokGo 0 (37 :: s) = .esc n ((37 :: s).take len) :: tokGo (len - 1) s := by
  simp [tokGo, h]

theorem digitsAt_none {d : UInt16} (h : digit16 d = none) (r : QStr) : digitsAt (d :: r) = none := by
  simp [digitsAt, h]

theorem markerAt_nondigit {c : UInt16} (hL : c ≠ 76) (hd : digit16 c = none) (r : QStr) :
    markerAt (c :: r) = none := by
  simp [markerAt, hL, digitsAt_none hd]

theorem markerAt_L_nondigit {c : UInt16} (hd : digit16 c = none) (r : QStr) :
    markerAt (76 :: c :: r) = none := by
  simp [markerAt, digitsAt_none hd]

theorem isSome_dval {c : UInt16} (h : (digit16 c).isSome = true) : digit16 c = some (dval c) := by
  obtain ⟨v, hv⟩ := Option.isSome_iff_exists.1 h
  simp [dval, hv]

theorem not_isSome {c : UInt16} (h : ¬ (digit16 c).isSome = true) : digit16 c = none := by
  cases hc : digit16 c with
  | none => rfl
  | some v => simp [hc] at h

theorem digit_ne {c : UInt16} (h : (digit16 c).isSome = true) : c ≠ 37 ∧ c ≠ 76 := by
  constructor <;> (intro e; subst e; revert h; decide)

/-- the marker spelled by `%`[`L`] and one digit, followed by something that is not a digit -/
theorem tokGo_one (loc : Bool) {d : UInt16} (hd : (digit16 d).isSome = true) (s : QStr)
    (hs : ∀ c r, s = c :: r → digit16 c = none) :
    tokGo 0 (rawOf loc [d] ++ s) = .esc (dval d) (rawOf loc [d]) :: tokGo 0 s := by
  have hv := isSome_dval hd
  have hne := digit_ne hd
  have hda : digitsAt (d :: s) = some (1, dval d) := by
    cases s with
    | nil => simp [digitsAt, hv]
    | cons c r => simp [digitsAt, hv, hs c r rfl]
  cases loc with
  | false =>
    have hm : markerAt (d :: s) = some (2, dval d) := by simp [markerAt, hne.2, hda]
    have := tokGo_pct_some hm
    simpa [rawOf, tokGo] using this
  | true =>
    have hm : markerAt (76 :: d :: s) = some (3, dval d) := by simp [markerAt, hda]
    have := tokGo_pct_some hm
    simpa [rawOf, tokGo] using this

/-- the marker spelled by `%`[`L`] and two digits -/
theorem tokGo_two (loc : Bool) {d c : UInt16} (hd : (digit16 d).isSome = true)
    (hc : (digit16 c).isSome = true) (s : QStr) :
    tokGo 0 (rawOf loc [d] ++ c :: s) = .esc (10 * dval d + dval c) (rawOf loc [d, c]) :: tokGo 0 s := by
  have hv := isSome_dval hd
  have hw := isSome_dval hc
  have hne := digit_ne hd
  have hda : digitsAt (d :: c :: s) = some (2, 10 * dval d + dval c) := by simp [digitsAt, hv, hw]
  cases loc with
  | false =>
    have hm : markerAt (d :: c :: s) = some (3, 10 * dval d + dval c) := by simp [markerAt, hne.2, hda]
    have := tokGo_pct_some hm
    simpa [rawOf, tokGo] using this
  | true =>
    have hm : markerAt (76 :: d :: c :: s) = some (4, 10 * dval d + dval c) := by simp [markerAt, hda]
    have := tokGo_pct_some hm
    simpa [rawOf, tokGo] using this

/-- from every state of Qt's scanner: what it still produces is what the position-based reading
    produces on the pending units followed by the rest -/
theorem argScan_eq_tokGo (s : QStr) :
    argScan .normal s = tokGo 0 s ∧
    argScan .pct s = tokGo 0 (37 :: s) ∧
    argScan .pctL s = tokGo 0 (37 :: 76 :: s) ∧
    ∀ loc d, (digit16 d).isSome = true → argScan (.d1 loc d) s = tokGo 0 (rawOf loc [d] ++ s) := by
  induction s with
  | nil =>
    refine ⟨rfl, ?_, ?_, ?_⟩
    · rw [tokGo_pct_none (by rfl)]; rfl
    · rw [tokGo_pct_none (by simp [markerAt, digitsAt]), tokGo_ne (by decide)]; rfl
    · intro loc d hd
      have := tokGo_one loc hd [] (by intro c r h; cases h)
      simpa [argScan, tokGo] using this.symm
  | cons c cs ih =>
    obtain ⟨ihN, ihP, ihL, ihD⟩ := ih
    refine ⟨?_, ?_, ?_, ?_⟩
    · -- normal
      by_cases hc : c = 37
      · subst hc; simpa [argScan] using ihP
      · rw [tokGo_ne hc]; simp [argScan, hc, ihN]
    · -- after '%'
      simp only [argScan]
      by_cases hL : c = 76
      · subst hL; simpa using ihL
      · simp only [hL, if_false]
        by_cases hd : (digit16 c).isSome = true
        · simp only [hd, if_true]
          simpa [rawOf] using ihD false c hd
        · simp only [hd, if_false]
          have hn := not_isSome hd
          rw [tokGo_pct_none (markerAt_nondigit hL hn cs)]
          by_cases hc : c = 37
          · subst hc; simp [ihP]
          · simp [hc, tokGo_ne hc, ihN]
    · -- after '%L'
      simp only [argScan]
      by_cases hd : (digit16 c).isSome = true
      · simp only [hd, if_true]
        simpa [rawOf] using ihD true c hd
      · simp only [hd, if_false]
        have hn := not_isSome hd
        rw [tokGo_pct_none (markerAt_L_nondigit hn cs), tokGo_ne (by decide)]
        by_cases hc : c = 37
        · subst hc; simp [ihP]
        · simp [hc, tokGo_ne hc, ihN]
    · -- after '%'['L'] and one digit
      intro loc d hd
      simp only [argScan]
      by_cases hc : (digit16 c).isSome = true
      · simp only [hc, if_true]
        rw [tokGo_two loc hd hc, ihN]
      · simp only [hc, if_false]
        have hn := not_isSome hc
        rw [tokGo_one loc hd (c :: cs) (by intro x r h; cases h; exact hn)]
        by_cases h37 : c = 37
        · subst h37; simp [ihP]
        · simp [h37, tokGo_ne h37, ihN]

/-- **the repaired code reads a template exactly as `QString::arg` does** -/
theorem tokGo_eq_argScan (s : QStr) : tokGo 0 s = argScan .normal s := (argScan_eq_tokGo s).1.symm

end Qhttp.RouteL
