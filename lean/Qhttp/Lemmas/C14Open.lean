import Qhttp.Model.Copier
/-
  A copy whose source or destination cannot be opened: `start` signals error then completion and
  leaves the copier unconnected and idle; nothing the source announces afterwards is seen.
-/
namespace Qhttp.C14O
open Qhttp Copier

def isEv : Obs → Bool | .ev _ => true | _ => false

/-- idle after a failed start: unconnected, no timer armed, the log is the start marker, the
    error, the completion, then only event markers -/
def Idle (s : St) : Prop :=
  s.connected = false ∧ s.pending = .none ∧ ∃ d, s.log = [Obs.ev 0, err, fin] ++ d ∧ d.all isEv = true

theorem step_idle (c : Cfg) (s : St) (k : Nat) (e : Ev) (hs : Idle s) (he : e ≠ .start) (he' : e ≠ .stop) :
    Idle (stepK c (s, k) e).1 := by
  obtain ⟨hc, hp, d, hl, hd⟩ := hs
  obtain ⟨pos, buf, scl, pend, conn, stp, r, w, log⟩ := s
  simp only at hc hp hl
  subst hc hp hl
  have hd' : (d ++ [Obs.ev k]).all isEv = true := by simp [hd, isEv]
  cases e with
  | start => exact absurd rfl he
  | stop => exact absurd rfl he'
  | turn => exact ⟨rfl, rfl, d ++ [Obs.ev k], by simp [stepK, step], hd'⟩
  | arrive b =>
    simp only [stepK, step]
    split
    · exact ⟨rfl, rfl, d ++ [Obs.ev k], by simp, hd'⟩
    · exact ⟨rfl, rfl, d ++ [Obs.ev k], by simp, hd'⟩
  | eof =>
    simp only [stepK, step]
    split
    · exact ⟨rfl, rfl, d ++ [Obs.ev k], by simp, hd'⟩
    · exact ⟨rfl, rfl, d ++ [Obs.ev k], by simp, hd'⟩
  | arriveQ b =>
    simp only [stepK, step]
    split
    · exact ⟨rfl, rfl, d ++ [Obs.ev k], by simp, hd'⟩
    · exact ⟨rfl, rfl, d ++ [Obs.ev k], by simp, hd'⟩

theorem run_idle (c : Cfg) (evs : List Ev) (s : St) (k : Nat) (hs : Idle s)
    (h1 : ∀ e ∈ evs, e ≠ .start) (h2 : ∀ e ∈ evs, e ≠ .stop) :
    Idle (evs.foldl (stepK c) (s, k)).1 := by
  induction evs generalizing s k with
  | nil => exact hs
  | cons e evs ih =>
    simp only [List.foldl_cons]
    have := step_idle c s k e hs (h1 e (by simp)) (h2 e (by simp))
    have e2 : stepK c (s, k) e = ((stepK c (s, k) e).1, k + 1) := rfl
    rw [e2]
    exact ih _ _ this (fun x hx => h1 x (by simp [hx])) (fun x hx => h2 x (by simp [hx]))

theorem start_idle (c : Cfg) (h : (c.srcOpenFails || c.dstOpenFails) = true) :
    Idle (stepK c (init c, 0) .start).1 := by
  simp only [stepK, step, start, init]
  cases hs : c.srcOpenFails
  · have hd : c.dstOpenFails = true := by simpa [hs] using h
    simp only [hd, Bool.false_eq_true, if_false, if_true]; exact ⟨rfl, rfl, [], rfl, rfl⟩
  · simp only [if_true]; exact ⟨rfl, rfl, [], rfl, rfl⟩

end Qhttp.C14O
