import Qhttp.Lemmas.C10Life
import Qhttp.Lemmas.C19Step
/-
  C10, part 4: `disconnected` is reported at most once, for the composed models.
  The counting invariant is the first clause of C19's `K`; it is carried through the
  filesystem handler's turn (copier relay) and the Server glue with C19's frame rule
  (`C19L.ApiClosed`) for the API level.
-/
namespace Qhttp.C10L
open Qhttp Qhttp.Obs Qhttp.Sock Qhttp.C19L

/-- `dc` reported + owed by the caller (`d`) + due (`dcFlag`) = 1 exactly when the transport is
    unconnected, else 0 -/
def D (d : Nat) (s : Sock) : Prop :=
  countP isDc s.log + d + (if s.dcFlag = true then 1 else 0)
    = (if s.tcp.conn = .unconnected then 1 else 0)

theorem ite01 (p : Prop) [Decidable p] : (if p then 1 else 0 : Nat) ≤ 1 := by
  split <;> omega

theorem D_of_eq {d : Nat} {s s' : Sock} (h : D d s) (hc : s'.tcp.conn = s.tcp.conn)
    (hf : s'.dcFlag = s.dcFlag) (hl : s'.log = s.log) : D d s' := by
  unfold D at *; rw [hc, hf, hl]; exact h

theorem D_snoc {d : Nat} {s s' : Sock} {o : Obs} (h : D d s) (ho : isDc o = false)
    (hc : s'.tcp.conn = s.tcp.conn) (hf : s'.dcFlag = s.dcFlag)
    (hl : s'.log = s.log ++ [o]) : D d s' := by
  unfold D at *; rw [hc, hf, hl, countP_snoc_false _ ho]; exact h

theorem D_closed (d : Nat) : ApiClosed (D d) where
  same := fun _ _ hs h => D_of_eq h hs.c hs.f hs.l
  tw := fun s b h => by
    unfold tcpWrite; split
    · exact D_snoc (o := .w b) h rfl rfl rfl rfl
    · exact h
  tcl := fun s h => by
    unfold tcpClose; split
    · exact h
    · dsimp only
      split
      · rename_i hc
        split
        · unfold D at *
          show countP isDc (s.log ++ [.tc]) + d + (if true = true then 1 else 0)
            = (if Conn.unconnected = Conn.unconnected then 1 else 0)
          rw [countP_snoc_false _ rfl]
          rw [hc] at h
          simp at h ⊢
          omega
        · unfold D at *
          show countP isDc (s.log ++ [.tc]) + d + (if s.dcFlag = true then 1 else 0)
            = (if Conn.closing = Conn.unconnected then 1 else 0)
          rw [countP_snoc_false _ rfl]
          rw [hc] at h
          simpa using h
      · exact D_snoc (o := .tc) h rfl rfl rfl rfl
  note := fun s o ho h => D_snoc h (quiet_facts ho).2.2.2.2.1 rfl rfl rfl

/-- applications whose slots record nothing that C19 counts -/
structure AppQ (app : App) : Prop where
  hp  : ∀ s, (app.onHp s).all qOp = true
  rr  : ∀ s, (app.onRr s).all qOp = true
  rcf : ∀ s, (app.onRcf s).all qOp = true
  bw  : ∀ s, (app.onBw s).all qOp = true
  dc  : ∀ s, (app.onDc s).all qOp = true

def DS (d : Nat) (s : Sock) : Prop := D d s ∧ s.dcFlag = false

variable {env : Env} {app : App} {d : Nat} {s : Sock}

theorem emitDc_D (happ : AppQ app) (h : D d s)
    (hd : d + (if s.dcFlag = true then 1 else 0) = 1) : DS 0 (emitDc env app s) := by
  unfold emitDc
  dsimp only
  have h1 : D 0 { s with dcFlag := false, log := s.log ++ [.dc] } := by
    unfold D at *
    show countP isDc (s.log ++ [.dc]) + 0 + (if false = true then 1 else 0) = _
    rw [countP_snoc]
    simp only [isDc, Bool.false_eq_true, ↓reduceIte]
    have := ite01 (s.tcp.conn = .unconnected)
    omega
  have h2 : 1 ≤ countP isDc ({ s with dcFlag := false, log := s.log ++ [.dc] } : Sock).log := by
    show 1 ≤ countP isDc (s.log ++ [.dc])
    rw [countP_snoc]; simp [isDc]
  have h3 := foldl_apiPrim_closed (P := fun s => D 0 s ∧ 1 ≤ countP isDc s.log)
    ((D_closed 0).and (dcge_closed 1)) env
    (app.onDc { s with dcFlag := false, log := s.log ++ [.dc] }) (happ.dc _) ⟨h1, h2⟩
  generalize List.foldl (apiPrim env) _ _ = s2 at h3 ⊢
  obtain ⟨h3, h4⟩ := h3
  have hf : s2.dcFlag = false := by
    cases hf : s2.dcFlag
    · rfl
    · unfold D at h3
      rw [hf] at h3
      simp only [↓reduceIte] at h3
      have := ite01 (s2.tcp.conn = .unconnected)
      omega
  exact ⟨D_of_eq h3 rfl hf.symm rfl, rfl⟩

theorem fin_D (happ : AppQ app) (h : D d s) :
    DS d (if s.dcFlag = true then emitDc env app s else s) := by
  split
  · rename_i hf
    have h0 := h
    unfold D at h0
    rw [hf] at h0
    have hd : d = 0 := by
      simp only [↓reduceIte] at h0
      have := ite01 (s.tcp.conn = .unconnected)
      omega
    subst hd
    exact emitDc_D happ h (by simp [hf])
  · rename_i hf
    exact ⟨h, by simpa using hf⟩

theorem api_D (happ : AppQ app) {op : ApiOp} (hq : qOp op = true) (h : D d s) :
    DS d (api env app s op) := by
  unfold api
  exact fin_D happ (apiPrim_closed (D_closed d) env hq h)

theorem apis_D (happ : AppQ app) (ops : List ApiOp) (hq : ops.all qOp = true) (h : DS d s) :
    DS d (apis env app s ops) := by
  unfold apis
  induction ops generalizing s with
  | nil => exact h
  | cons op ops ih =>
    simp only [List.all_cons, Bool.and_eq_true] at hq
    exact ih hq.2 (api_D happ hq.1 h.1)

theorem emit_D (happ : AppQ app) {o : Obs} (ho : isDc o = false) (ops : List ApiOp)
    (hq : ops.all qOp = true) (h : DS d s) : DS d (emit env app s o ops) := by
  unfold emit
  exact apis_D happ ops hq ⟨D_snoc h.1 ho rfl rfl rfl, h.2⟩

theorem DS_of_eq {s s' : Sock} (h : DS d s) (hc : s'.tcp.conn = s.tcp.conn)
    (hf : s'.dcFlag = s.dcFlag) (hl : s'.log = s.log) : DS d s' :=
  ⟨D_of_eq h.1 hc hf hl, by rw [hf]; exact h.2⟩

theorem DS_snoc {s s' : Sock} {o : Obs} (h : DS d s) (ho : isDc o = false)
    (hc : s'.tcp.conn = s.tcp.conn) (hf : s'.dcFlag = s.dcFlag)
    (hl : s'.log = s.log ++ [o]) : DS d s' :=
  ⟨D_snoc h.1 ho hc hf hl, by rw [hf]; exact h.2⟩

theorem readHeaders_D (happ : AppQ app) (h : DS d s) : DS d (readHeaders env app s).1 := by
  have hbad : DS d (if (writeError env s 400 none).dcFlag = true
      then emitDc env app (writeError env s 400 none) else writeError env s 400 none) :=
    fin_D happ (writeError_closed (D_closed d) env _ _ h.1)
  unfold readHeaders
  split
  · exact h
  · dsimp only
    split
    · exact hbad
    · split
      · exact hbad
      · refine emit_D happ rfl _ (happ.hp _) ?_
        split
        · exact DS_of_eq h rfl rfl rfl
        · exact DS_of_eq h rfl rfl rfl

theorem readDataSlot_D (happ : AppQ app) (h : DS d s) : DS d (readDataSlot env app s) := by
  unfold readDataSlot
  dsimp only
  have h1 : DS d (if s.total ≥ 0 && s.dataRead + s.readBuffer.length > s.total
      then { s with readBuffer := s.readBuffer.take (s.total - s.dataRead).toNat } else s) := by
    split
    · exact DS_of_eq h rfl rfl rfl
    · exact h
  generalize (if s.total ≥ 0 && s.dataRead + s.readBuffer.length > s.total
      then { s with readBuffer := s.readBuffer.take (s.total - s.dataRead).toNat } else s) = s1 at h1 ⊢
  have h2 : DS d (if s1.readBuffer.length != 0 then emit env app s1 .rr (app.onRr s1) else s1) := by
    split
    · exact emit_D happ rfl _ (happ.rr _) h1
    · exact h1
  generalize (if s1.readBuffer.length != 0 then emit env app s1 .rr (app.onRr s1) else s1) = s2 at h2 ⊢
  split
  · refine emit_D happ rfl _ (happ.rcf _) ?_
    exact DS_of_eq h2 rfl rfl rfl
  · exact h2

theorem onReadyRead_D (happ : AppQ app) (h : DS d s) : DS d (onReadyRead env app s) := by
  unfold onReadyRead
  split
  · split
    · exact DS_of_eq h rfl rfl rfl
    · exact h
  · dsimp only
    have h1 : DS d (if s.tcp.devOpen
        then { s with readBuffer := s.readBuffer ++ s.tcp.inbox, tcp := { s.tcp with inbox := [] } }
        else s) := by
      split
      · exact DS_of_eq h rfl rfl rfl
      · exact h
    generalize (if s.tcp.devOpen
        then { s with readBuffer := s.readBuffer ++ s.tcp.inbox, tcp := { s.tcp with inbox := [] } }
        else s) = s1 at h1 ⊢
    have h2 : DS d (if s1.rs = .headers then readHeaders env app s1 else (s1, true)).1 := by
      split
      · exact readHeaders_D happ h1
      · exact h1
    generalize (if s1.rs = .headers then readHeaders env app s1 else (s1, true)) = p at h2 ⊢
    obtain ⟨s2, go⟩ := p
    dsimp only at h2 ⊢
    split
    · exact h2
    · split
      · exact readDataSlot_D happ h2
      · exact DS_of_eq h2 rfl rfl rfl
      · exact h2

theorem onBytesWritten_D (happ : AppQ app) (n : Int) (h : DS d s) :
    DS d (onBytesWritten env app s n) := by
  unfold onBytesWritten
  dsimp only
  have h1 : DS d (if s.ws = .headers then
      if s.hdrRemaining - n > 0 then ({ s with hdrRemaining := s.hdrRemaining - n }, n)
      else ({ s with ws := .data }, n - s.hdrRemaining)
    else (s, n)).1 := by
    split
    · split <;> exact DS_of_eq h rfl rfl rfl
    · exact h
  generalize (if s.ws = .headers then
      if s.hdrRemaining - n > 0 then ({ s with hdrRemaining := s.hdrRemaining - n }, n)
      else ({ s with ws := .data }, n - s.hdrRemaining)
    else (s, n)) = p at h1 ⊢
  obtain ⟨s1, m⟩ := p
  dsimp only at h1 ⊢
  split
  · exact emit_D happ rfl _ (happ.bw _) h1
  · exact h1

theorem onReadChannelFinished_D (happ : AppQ app) (h : DS d s) :
    DS d (onReadChannelFinished env app s) := by
  unfold onReadChannelFinished
  split
  · exact emit_D happ rfl _ (happ.rcf _) h
  · exact h

/-- the transport becomes unconnected from outside the API: a `dc` is owed -/
theorem DS_unconn (h : DS 0 s) (hc : s.tcp.conn ≠ .unconnected) :
    DS 1 { s with tcp := { s.tcp with conn := .unconnected } } := by
  obtain ⟨h1, hf⟩ := h
  refine ⟨?_, hf⟩
  unfold D at *
  show countP isDc s.log + 1 + (if s.dcFlag = true then 1 else 0)
    = (if Conn.unconnected = Conn.unconnected then 1 else 0)
  rw [if_neg hc] at h1
  rw [if_pos rfl]
  omega

theorem emitDc_owed_D (happ : AppQ app) (h : DS 1 s) : DS 0 (emitDc env app s) :=
  emitDc_D happ h.1 (by rw [h.2]; rfl)

theorem ackN_D (happ : AppQ app) (n : Nat) (h : DS 0 s) : DS 0 (ackN env app s n) := by
  unfold ackN
  dsimp only
  split
  · exact h
  · have h1 : DS 0 (onBytesWritten env app
        { s with tcp := { s.tcp with unacked := s.tcp.unacked - min n s.tcp.unacked } }
        (min n s.tcp.unacked : Nat)) :=
      onBytesWritten_D happ _ (DS_of_eq h rfl rfl rfl)
    generalize (onBytesWritten env app
        { s with tcp := { s.tcp with unacked := s.tcp.unacked - min n s.tcp.unacked } }
        (min n s.tcp.unacked : Nat)) = s1 at h1 ⊢
    split
    · rename_i hc
      simp only [Bool.and_eq_true, beq_iff_eq, decide_eq_true_eq] at hc
      exact emitDc_owed_D happ (DS_unconn h1 (by rw [hc.1]; simp))
    · exact h1

theorem step_D (happ : AppQ app) (e : Event) (he : evOK e = true) (h : DS 0 s) :
    DS 0 (step env app s e) := by
  unfold step
  split
  · exact h
  · cases e with
    | prebuf bs => exact DS_of_eq h rfl rfl rfl
    | new => exact DS_of_eq h rfl rfl rfl
    | feed seg => exact onReadyRead_D happ (DS_of_eq h rfl rfl rfl)
    | ack n => exact ackN_D happ n h
    | ackAll => exact ackN_D happ _ h
    | peerClose =>
      dsimp only
      split
      · exact h
      · rename_i hc
        exact emitDc_owed_D happ (onReadChannelFinished_D happ (DS_unconn h (by simpa using hc)))
    | turn =>
      dsimp only
      have h2 : DS 0 (if s.initPending then onReadyRead env app { s with initPending := false }
          else s) := by
        split
        · exact onReadyRead_D happ (DS_of_eq h rfl rfl rfl)
        · exact h
      generalize (if s.initPending then onReadyRead env app { s with initPending := false }
          else s) = s2 at h2 ⊢
      split
      · exact DS_snoc (o := .del) h2 rfl rfl rfl rfl
      · exact h2
    | api op => exact api_D happ he h.1

theorem stepK_D (happ : AppQ app) (k : Nat) (e : Event) (he : evOK e = true) (h : DS 0 s) :
    DS 0 (stepK env app (s, k) e).1 := by
  unfold stepK
  dsimp only
  split
  · exact step_D happ e he h
  · exact step_D happ e he (DS_snoc (o := .ev k) h rfl rfl rfl rfl)

/-- between events: at most one `dc` in the history -/
theorem DS_final (h : DS 0 s) : countP isDc s.log ≤ 1 := by
  obtain ⟨h1, hf⟩ := h
  unfold D at h1
  rw [hf] at h1
  simp only [Bool.false_eq_true, ↓reduceIte] at h1
  have := ite01 (s.tcp.conn = .unconnected)
  omega

/-! ### the composed models -/

theorem relay_D (happ : AppQ app) (l : List Obs) (h : DS 0 s) :
    DS 0 (FsHandler.relay env app s l) := by
  fun_induction FsHandler.relay env app s l with
  | case1 s => exact h
  | case2 s b rest ih => exact ih (api_D happ rfl h.1)
  | case3 s x rest ih => exact ih (api_D happ rfl h.1)
  | case4 s o rest h1 h2 ih => exact ih h

theorem fsApp_Q (fe : FsHandler.FsEnv) : AppQ (FsHandler.app fe) where
  hp := fun s => by
    show (FsHandler.hpOps fe s).all qOp = true
    unfold FsHandler.hpOps
    split
    · rfl
    · rfl
    · dsimp only
      split <;> rfl
  rr := fun _ => rfl
  rcf := fun _ => rfl
  bw := fun _ => rfl
  dc := fun _ => rfl

theorem reap_D (h : DS 0 s) : DS 0 (reap s) := by
  unfold reap
  split
  · exact DS_snoc (o := .del) h rfl rfl rfl rfl
  · exact h

theorem initRead_D (happ : AppQ app) (h : DS 0 s) : DS 0 (initRead env app s) := by
  unfold initRead
  split
  · exact onReadyRead_D happ (DS_of_eq h rfl rfl rfl)
  · exact h

theorem fsStep_D (env : Env) (fe : FsHandler.FsEnv) (st : FsHandler.St) (e : Event)
    (he : evOK e = true) (h : DS 0 st.sock) : DS 0 (FsHandler.step env fe st e).sock := by
  by_cases ht : e = .turn
  · subst ht
    cases ha : st.sock.alive
    · rw [fsStep_dead env fe st _ ha]; exact h
    · obtain ⟨n, k, hk⟩ := fsTurn_eq env fe st ha
      show DS 0 (FsHandler.turn env fe st).sock
      rw [hk]
      apply reap_D
      unfold turnCop
      split
      · apply relay_D (fsApp_Q fe)
        rw [afterRoute_sock]
        exact initRead_D (fsApp_Q fe) (DS_snoc (o := .ev k) h rfl rfl rfl rfl)
      · rw [afterRoute_sock]
        exact initRead_D (fsApp_Q fe) (DS_snoc (o := .ev k) h rfl rfl rfl rfl)
  · obtain ⟨k, hk⟩ := fsStep_eq env fe st e ht
    rw [hk, afterRoute_sock]
    exact stepK_D (fsApp_Q fe) k e he h

theorem afterEvent_D (env : Env) (fe : FsHandler.FsEnv) (n : Nat) (st : Life.St)
    (h : DS 0 st.fs.sock) : DS 0 (Life.afterEvent env fe n st).fs.sock := by
  by_cases hi : st.fs.sock.alive = false ∨ Life.dcCount st.fs.sock = n
  · rw [afterEvent_idle env fe n st hi]; exact h
  · have ha : st.fs.sock.alive = true := by
      cases hx : st.fs.sock.alive
      · exact absurd (Or.inl hx) hi
      · rfl
    rw [afterEvent_fire env fe n st ha (fun hx => hi (Or.inr hx))]
    have h1 : DS 0 (setDel st.fs.sock) := DS_of_eq h rfl rfl rfl
    split
    · split
      · exact h1
      · exact api_D (fsApp_Q fe) rfl h1.1
    · exact h1

def lifeEvOK : Life.LEv → Bool
  | .ev e => evOK e
  | .killServer => true

theorem lifeStep_D (env : Env) (fe : FsHandler.FsEnv) (st : Life.St) (ev : Life.LEv)
    (he : lifeEvOK ev = true) (h : DS 0 st.fs.sock) : DS 0 (Life.step env fe st ev).fs.sock := by
  cases hd : st.deadSrv
  · cases ev with
    | ev e =>
      rw [lifeStep_ev env fe st e hd]
      apply afterEvent_D
      exact fsStep_D env fe st.fs e he h
    | killServer =>
      simp only [Life.step, hd, Bool.false_eq_true, if_false]
      exact DS_snoc (o := .ev _) h rfl rfl rfl rfl
  · rw [lifeStep_deadSrv env fe st ev hd]; exact h

theorem run_D (env : Env) (fe : FsHandler.FsEnv) (evs : List Life.LEv)
    (he : evs.all lifeEvOK = true) : DS 0 (Life.run env fe evs).fs.sock := by
  unfold Life.run
  have key : ∀ (evs : List Life.LEv) (st : Life.St), evs.all lifeEvOK = true → DS 0 st.fs.sock →
      DS 0 (evs.foldl (Life.step env fe) st).fs.sock := by
    intro evs
    induction evs with
    | nil => exact fun _ _ h => h
    | cons ev evs ih =>
      intro st hall h
      simp only [List.all_cons, Bool.and_eq_true] at hall
      exact ih _ hall.2 (lifeStep_D env fe st ev hall.1 h)
  refine key evs _ he ⟨?_, rfl⟩
  unfold D
  rfl

end Qhttp.C10L
