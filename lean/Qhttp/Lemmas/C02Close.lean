import Qhttp.Lemmas.C02Run
/-
  C02 — the client leaves (`Event.peerClose`: the transport reports `readChannelFinished` and
  `disconnected`) before, at, or after the end of the declared body.

  Part 1: `NoCl`, "`Socket::close` was never called while the device is still open", holds along
  every run of a reader application (whatever the head is): the reaction to `disconnected` then
  does not queue a deletion.
  Part 2: the step `peerClose` preserves `RInv` once the head has been parsed (`total ≠ -1`: the
  transport's `readChannelFinished` is not forwarded).
  Part 3: whole runs of the shape `new :: pre ++ peerClose :: post` (`closingEvents`, `closing_inv`).
  Part 4: `arrivedAt`, the bytes that had arrived at a point of the history.
-/
namespace Qhttp.C02
open Qhttp

/-! ### Part 1: nobody closed the Socket -/

/-- `closeCalled` is set only by `Socket::close`, which also closes the device for good -/
def NoCl (s : Sock) : Prop := s.ioOpen = true → s.closeCalled = false

theorem NoCl.of_frame {s s' : Sock} (h : NoCl s) (h1 : s'.closeCalled = s.closeCalled)
    (h2 : s'.ioOpen = s.ioOpen) : NoCl s' := by
  unfold NoCl at *; rw [h1, h2]; exact h

theorem NoCl.of_closed {s' : Sock} (h : s'.ioOpen = false) : NoCl s' := by
  intro h'; rw [h] at h'; exact absurd h' (by simp)

/-- frame: the two fields `NoCl` is about -/
def SameCl (s s' : Sock) : Prop := s'.closeCalled = s.closeCalled ∧ s'.ioOpen = s.ioOpen

theorem SameCl.refl (s : Sock) : SameCl s s := ⟨rfl, rfl⟩
theorem SameCl.trans {s1 s2 s3 : Sock} (h1 : SameCl s1 s2) (h2 : SameCl s2 s3) : SameCl s1 s3 :=
  ⟨h2.1.trans h1.1, h2.2.trans h1.2⟩
theorem NoCl.same {s s' : Sock} (h : NoCl s) (c : SameCl s s') : NoCl s' := h.of_frame c.1 c.2

theorem read_sameCl (s : Sock) (n : Nat) : SameCl s (Sock.read s n).1 := by
  obtain ⟨tcp, rb, qio, rs, method, rawPath, path, query, reqHeaders, dataRead, total, ws, code, reason,
    respHeaders, hdrRemaining, ioOpen, initPending, closeCalled, dcFlag, delPending, alive, log⟩ := s
  unfold Sock.read Sock.readData
  simp only []
  repeat' split
  all_goals exact ⟨rfl, rfl⟩

theorem readAll_sameCl (s : Sock) : SameCl s (Sock.readAll s).1 := by
  obtain ⟨tcp, rb, qio, rs, method, rawPath, path, query, reqHeaders, dataRead, total, ws, code, reason,
    respHeaders, hdrRemaining, ioOpen, initPending, closeCalled, dcFlag, delPending, alive, log⟩ := s
  unfold Sock.readAll Sock.readData
  simp only []
  repeat' split
  all_goals exact ⟨rfl, rfl⟩

theorem apiPrim_sameCl (env : Env) (s : Sock) (op : ApiOp) (hop : readerOp op = true) :
    SameCl s (Sock.apiPrim env s op) := by
  unfold Sock.apiPrim
  split
  · exact SameCl.refl s
  · cases op <;> simp [readerOp] at hop
    · exact read_sameCl s _
    · exact readAll_sameCl s
    · exact ⟨rfl, rfl⟩

theorem readerOp_of_ops {ops : List ApiOp} (h : ReaderOps ops) : ∀ op ∈ ops, readerOp op = true := by
  unfold ReaderOps at h
  fun_induction readerOps ops with
  | case1 => intro op hm; simp at hm
  | case2 n l ih =>
    intro op hm
    rcases List.mem_cons.mp hm with rfl | hm
    · rfl
    · exact ih h op hm
  | case3 l ih =>
    intro op hm
    rcases List.mem_cons.mp hm with rfl | hm
    · rfl
    · exact ih h op hm
  | case4 l ih =>
    intro op hm
    rcases List.mem_cons.mp hm with rfl | hm
    · rfl
    · rcases List.mem_cons.mp hm with rfl | hm
      · rfl
      · exact ih h op hm
  | case5 l h1 h2 h3 h4 => exact absurd h (by simp)

theorem prims_sameCl (env : Env) (ops : List ApiOp) (hops : ∀ op ∈ ops, readerOp op = true) :
    ∀ s, SameCl s (ops.foldl (Sock.apiPrim env) s) := by
  induction ops with
  | nil => intro s; exact SameCl.refl s
  | cons op l ih =>
    intro s
    rw [List.foldl_cons]
    exact (apiPrim_sameCl env s op (hops op (by simp))).trans
      (ih (fun o ho => hops o (by simp [ho])) _)

theorem emitDc_sameCl (env : Env) (app : App) (happ : ReaderApp app) (s : Sock) :
    SameCl s (Sock.emitDc env app s) := by
  unfold Sock.emitDc
  have := prims_sameCl env (app.onDc { s with dcFlag := false, log := s.log ++ [Obs.dc] })
    (readerOp_of_ops (happ.dc _)) { s with dcFlag := false, log := s.log ++ [Obs.dc] }
  exact ⟨this.1, this.2⟩

theorem api_sameCl (env : Env) (app : App) (happ : ReaderApp app) (s : Sock) (op : ApiOp)
    (hop : readerOp op = true) : SameCl s (Sock.api env app s op) := by
  unfold Sock.api
  have h1 := apiPrim_sameCl env s op hop
  simp only []
  split
  · exact h1.trans (emitDc_sameCl env app happ _)
  · exact h1

theorem apis_sameCl (env : Env) (app : App) (happ : ReaderApp app) (ops : List ApiOp)
    (hops : ∀ op ∈ ops, readerOp op = true) : ∀ s, SameCl s (Sock.apis env app s ops) := by
  unfold Sock.apis
  induction ops with
  | nil => intro s; exact SameCl.refl s
  | cons op l ih =>
    intro s
    rw [List.foldl_cons]
    exact (api_sameCl env app happ s op (hops op (by simp))).trans
      (ih (fun o ho => hops o (by simp [ho])) _)

theorem emit_sameCl (env : Env) (app : App) (happ : ReaderApp app) (s : Sock) (o : Obs)
    (ops : List ApiOp) (hops : ReaderOps ops) : SameCl s (Sock.emit env app s o ops) := by
  unfold Sock.emit
  have := apis_sameCl env app happ ops (readerOp_of_ops hops) { s with log := s.log ++ [o] }
  exact ⟨this.1, this.2⟩

theorem readDataSlot_sameCl (env : Env) (app : App) (happ : ReaderApp app) (s : Sock) :
    SameCl s (Sock.readDataSlot env app s) := by
  rw [readDataSlot_eq]
  have c1 : SameCl s (cutS s) := by unfold cutS; split <;> exact ⟨rfl, rfl⟩
  have c2 : SameCl (cutS s) (rrS env app (cutS s)) := by
    unfold rrS; split
    · exact emit_sameCl env app happ _ _ _ (happ.rr _)
    · exact SameCl.refl _
  have c3 : SameCl (rrS env app (cutS s)) (finS env app (rrS env app (cutS s))) := by
    unfold finS; split
    · have := emit_sameCl env app happ { rrS env app (cutS s) with rs := .finished } .rcf
        (app.onRcf { rrS env app (cutS s) with rs := .finished }) (happ.rcf _)
      exact ⟨this.1, this.2⟩
    · exact SameCl.refl _
  exact (c1.trans c2).trans c3

theorem close_ioOpen (s : Sock) : (Sock.close s).ioOpen = false := by
  unfold Sock.close Sock.tcpClose
  simp only []
  repeat' split
  all_goals rfl

theorem writeError_ioOpen (env : Env) (s : Sock) (c : Int) (r : Option Bytes) :
    (Sock.writeError env s c r).ioOpen = false := by
  unfold Sock.writeError; exact close_ioOpen _

theorem readHeaders_noCl (env : Env) (app : App) (happ : ReaderApp app) (s : Sock) (h : NoCl s) :
    NoCl (Sock.readHeaders env app s).1 := by
  have bad : NoCl (if (Sock.writeError env s 400 none).dcFlag
      then Sock.emitDc env app (Sock.writeError env s 400 none) else Sock.writeError env s 400 none) := by
    split
    · exact NoCl.of_closed (by rw [(emitDc_sameCl env app happ _).2]; exact writeError_ioOpen env s 400 none)
    · exact NoCl.of_closed (writeError_ioOpen env s 400 none)
  unfold Sock.readHeaders
  split
  · exact h
  · simp only []
    split
    · exact bad
    · split
      · exact bad
      · refine h.same (SameCl.trans ?_ (emit_sameCl env app happ _ .hp _ (happ.hp _)))
        split <;> exact ⟨rfl, rfl⟩

theorem onReadyRead_noCl (env : Env) (app : App) (happ : ReaderApp app) (s : Sock) (h : NoCl s) :
    NoCl (Sock.onReadyRead env app s) := by
  rw [onReadyRead_eq]
  split
  · split
    · exact h.same ⟨rfl, rfl⟩
    · exact h
  · have h1 : NoCl (pullS s) := by unfold pullS; split; exact h.same ⟨rfl, rfl⟩; exact h
    generalize pullS s = s1 at h1
    unfold orrBody
    have h2 : NoCl (if s1.rs = .headers then Sock.readHeaders env app s1 else (s1, true)).1 := by
      split
      · exact readHeaders_noCl env app happ s1 h1
      · exact h1
    generalize (if s1.rs = .headers then Sock.readHeaders env app s1 else (s1, true)) = r at h2
    simp only []
    split
    · exact h2
    · split
      · exact h2.same (readDataSlot_sameCl env app happ _)
      · exact h2.same ⟨rfl, rfl⟩
      · exact h2

/-- events of the closing shape -/
def clEvent (e : Event) : Bool := okEvent e || (match e with | .peerClose => true | _ => false)

theorem step_noCl (env : Env) (app : App) (happ : ReaderApp app) (s : Sock) (e : Event)
    (he : clEvent e = true) (h : NoCl s) : NoCl (Sock.step env app s e) := by
  unfold Sock.step
  split
  · exact h
  · cases e with
    | prebuf b => simp [clEvent, okEvent, readerEvent] at he
    | ack n => simp [clEvent, okEvent, readerEvent] at he
    | ackAll => simp [clEvent, okEvent, readerEvent] at he
    | new => exact h.same ⟨rfl, rfl⟩
    | feed seg => exact onReadyRead_noCl env app happ _ (h.same ⟨rfl, rfl⟩)
    | peerClose =>
      simp only []
      split
      · exact h
      · refine NoCl.same ?_ (emitDc_sameCl env app happ _)
        unfold Sock.onReadChannelFinished
        split
        · exact (h.same ⟨rfl, rfl⟩).same (emit_sameCl env app happ _ .rcf _ (happ.rcf _))
        · exact h.same ⟨rfl, rfl⟩
    | turn =>
      simp only []
      have h1 : NoCl (if s.initPending then Sock.onReadyRead env app { s with initPending := false } else s) := by
        split
        · exact onReadyRead_noCl env app happ _ (h.same ⟨rfl, rfl⟩)
        · exact h
      generalize (if s.initPending then Sock.onReadyRead env app { s with initPending := false } else s) = s1 at h1
      split
      · exact h1.same ⟨rfl, rfl⟩
      · exact h1
    | api op =>
      have hop : readerOp op = true := by simpa [clEvent, okEvent, readerEvent] using he
      exact h.same (api_sameCl env app happ s op hop)

theorem stepK_noCl (env : Env) (app : App) (happ : ReaderApp app) (sk : Sock × Nat) (e : Event)
    (he : clEvent e = true) (h : NoCl sk.1) : NoCl (Sock.stepK env app sk e).1 := by
  unfold Sock.stepK
  simp only []
  refine step_noCl env app happ _ e he ?_
  split
  · exact h
  · exact h.same ⟨rfl, rfl⟩

theorem fold_noCl (env : Env) (app : App) (happ : ReaderApp app) (l : List Event)
    (hl : ∀ e ∈ l, clEvent e = true) :
    ∀ sk : Sock × Nat, NoCl sk.1 → NoCl (l.foldl (Sock.stepK env app) sk).1 := by
  induction l with
  | nil => intro sk h; exact h
  | cons e l ih =>
    intro sk h
    rw [List.foldl_cons]
    exact ih (fun e' he' => hl e' (by simp [he'])) _ (stepK_noCl env app happ sk e (hl e (by simp)) h)

theorem run_noCl (env : Env) (app : App) (happ : ReaderApp app) (l : List Event)
    (hl : ∀ e ∈ l, clEvent e = true) : NoCl (Sock.run env app l) :=
  fold_noCl env app happ l hl ({}, 0) (fun _ => rfl)

/-- the counter of `stepK` counts events -/
theorem fold_count (env : Env) (app : App) (l : List Event) :
    ∀ sk : Sock × Nat, (l.foldl (Sock.stepK env app) sk).2 = sk.2 + l.length := by
  induction l with
  | nil => intro sk; rfl
  | cons e l ih =>
    intro sk
    rw [List.foldl_cons, ih]
    simp [Sock.stepK]; omega

/-! ### Part 2: the client leaves -/

variable {evs : List Event} {hl N fedLen : Nat} {head hb B : Bytes} {a : Option Nat} {s : Sock}

/-- the connection state and the two deferred-work flags are not part of `Mid` -/
theorem Mid.setConn (h : Mid evs hl N fedLen hb B a s) (c : Conn) (d1 d2 : Bool)
    (h1 : d1 = false) (h2 : d2 = false) :
    Mid evs hl N fedLen hb B a { s with tcp := { s.tcp with conn := c }, dcFlag := d1, delPending := d2 } :=
  { alive := h.alive, ioOpen := h.ioOpen, devOpen := h.devOpen,
    dcFlag := h1, delPending := h2,
    walk := h.walk, wst := h.wst, hp := h.hp, rcf := h.rcf, tc := h.tc, hdr := h.hdr, dat := h.dat }

theorem Mid.dc (h : Mid evs hl N fedLen hb B a s) :
    Mid evs hl N fedLen hb B none { s with log := s.log ++ [Obs.dc] } :=
  h.sig Obs.dc (by intros; simp [walkL]) (by intros; simp [C02.wst]) rfl rfl rfl rfl

/-- a reader reaction run with `apiPrim` (the reaction to `disconnected`) -/
theorem Mid.prims (env : Env) (ops : List ApiOp) (hops : ReaderOps ops) :
    ∀ s, Mid evs hl N fedLen hb B none s →
      Mid evs hl N fedLen hb B none (ops.foldl (Sock.apiPrim env) s) ∧
        SameCtl s (ops.foldl (Sock.apiPrim env) s) := by
  unfold ReaderOps at hops
  fun_induction readerOps ops with
  | case1 => intro s h; exact ⟨h, SameCtl.refl s⟩
  | case2 n l ih =>
    intro s h
    obtain ⟨h2, c2⟩ := ih hops _ (h.apiPrim_read env n)
    exact ⟨h2, (h.apiPrim_sameCtl env (.read n) rfl).trans c2⟩
  | case3 l ih =>
    intro s h
    obtain ⟨h2, c2⟩ := ih hops _ (h.apiPrim_readAll env (Or.inl rfl))
    exact ⟨h2, (h.apiPrim_sameCtl env .readAll rfl).trans c2⟩
  | case4 l ih =>
    intro s h
    have h1 := h.apiPrim_avail env
    have c1 := h.apiPrim_sameCtl env .avail rfl
    have h2 := h1.apiPrim_readAll env (Or.inr (by rw [bytesAvailable_avail]))
    have c2 := h1.apiPrim_sameCtl env .readAll rfl
    obtain ⟨h3, c3⟩ := ih hops _ h2
    exact ⟨h3, (c1.trans c2).trans c3⟩
  | case5 l h1 h2 h3 h4 => exact absurd hops (by simp)

theorem emitDc_eq (env : Env) (app : App) (s : Sock) :
    Sock.emitDc env app s =
      { (app.onDc { s with dcFlag := false, log := s.log ++ [Obs.dc] }).foldl (Sock.apiPrim env)
          { s with dcFlag := false, log := s.log ++ [Obs.dc] } with
        dcFlag := false,
        delPending := ((app.onDc { s with dcFlag := false, log := s.log ++ [Obs.dc] }).foldl (Sock.apiPrim env)
          { s with dcFlag := false, log := s.log ++ [Obs.dc] }).delPending || s.closeCalled } := rfl

/-- `disconnected` reaches a reader that never closed: its reaction runs, nothing is scheduled -/
theorem Mid.emitDc (env : Env) (app : App) (happ : ReaderApp app) (h : Mid evs hl N fedLen hb B a s)
    (hcc : s.closeCalled = false) :
    Mid evs hl N fedLen hb B none (Sock.emitDc env app s) ∧ SameCtl s (Sock.emitDc env app s) := by
  have h1 : Mid evs hl N fedLen hb B none { s with dcFlag := false, log := s.log ++ [Obs.dc] } := by
    have := h.dc
    exact { alive := this.alive, ioOpen := this.ioOpen, devOpen := this.devOpen,
            dcFlag := rfl, delPending := this.delPending,
            walk := this.walk, wst := this.wst, hp := this.hp, rcf := this.rcf, tc := this.tc,
            hdr := this.hdr, dat := this.dat }
  obtain ⟨h2, c2⟩ := Mid.prims env (app.onDc { s with dcFlag := false, log := s.log ++ [Obs.dc] })
    (happ.dc _) _ h1
  rw [emitDc_eq]
  generalize (app.onDc { s with dcFlag := false, log := s.log ++ [Obs.dc] }).foldl (Sock.apiPrim env)
    { s with dcFlag := false, log := s.log ++ [Obs.dc] } = s2 at h2 c2
  refine ⟨?_, ⟨c2.1, c2.2.1, c2.2.2.1, c2.2.2.2⟩⟩
  exact { alive := h2.alive, ioOpen := h2.ioOpen, devOpen := h2.devOpen,
          dcFlag := rfl, delPending := by show (s2.delPending || s.closeCalled) = false; rw [h2.delPending, hcc]; rfl,
          walk := h2.walk, wst := h2.wst, hp := h2.hp, rcf := h2.rcf, tc := h2.tc,
          hdr := h2.hdr, dat := h2.dat }

/-- The client leaves after the head has been parsed: `requestDataTotal` is the declared length,
    not -1, so the transport's `readChannelFinished` is NOT forwarded; `disconnected` is, and the
    reader's reaction to it can still read what has arrived. -/
theorem step_peerClose_inv (env : Env) (app : App) (happ : ReaderApp app) {fed : Bytes} (s1 : Sock)
    (hm1 : Mid evs (head.length + 4) N fed.length hb B none s1) (hin1 : s1.tcp.inbox = [])
    (hrel1 : Rel head N fed hb B s1) (hrs : s1.rs ≠ .headers) (hcc : s1.closeCalled = false) :
    RInv evs head N fed (Sock.step env app s1 .peerClose) := by
  unfold Sock.step
  rw [if_neg (by simp [hm1.alive])]
  simp only []
  split
  · exact ⟨none, hb, B, hm1, hin1, hrel1⟩
  · have htot : s1.total ≠ -1 := by rw [(hm1.dat hrs).2.2.1]; omega
    have h2 : Mid evs (head.length + 4) N fed.length hb B none
        { s1 with tcp := { s1.tcp with conn := .unconnected } } := by
      have := hm1.setConn .unconnected s1.dcFlag s1.delPending hm1.dcFlag hm1.delPending
      exact this
    have e : Sock.onReadChannelFinished env app { s1 with tcp := { s1.tcp with conn := .unconnected } } =
        { s1 with tcp := { s1.tcp with conn := .unconnected } } := by
      unfold Sock.onReadChannelFinished
      rw [if_neg (by exact htot)]
    rw [e]
    obtain ⟨h3, c3⟩ := h2.emitDc env app happ (by exact hcc)
    refine ⟨none, hb, B, h3, ?_, hrel1.of_rs c3.1⟩
    rw [c3.2.1]; exact hin1

theorem stepK_peerClose_inv (env : Env) (app : App) (happ : ReaderApp app) {fed : Bytes} (k : Nat)
    (hk : evs[k]? = some .peerClose) (h : RInv evs head N fed s) (hrs : s.rs ≠ .headers)
    (hcc : s.closeCalled = false) :
    RInv evs head N fed (Sock.stepK env app (s, k) .peerClose).1 := by
  obtain ⟨a, hb, B, hm, hin, hrel⟩ := h
  have hm1 := hm.ev k
  rw [evLen_of k _ hk] at hm1
  rw [stepK_alive env app s k _ hm.alive]
  exact step_peerClose_inv env app happ _ (by simpa [evBytesOf] using hm1) hin (hrel.of_rs rfl)
    (by exact hrs) (by exact hcc)

/-! ### Part 3: whole runs in which the client leaves -/

/-- after the client has left: event-loop turns and reads from idle context -/
def idleEvent : Event → Bool
  | .turn => true | .api op => readerOp op | _ => false

def closingTail : List Event → Bool
  | [] => false
  | .peerClose :: post => post.all idleEvent
  | e :: rest => readerEvent e && closingTail rest

/-- the scenario shape "the client leaves": `new :: pre ++ peerClose :: post`, `pre` made of
    segments, turns and idle-context reads, `post` of turns and idle-context reads -/
def closingEvents : List Event → Bool
  | .new :: rest => closingTail rest
  | _ => false

theorem closingTail_split {l : List Event} (h : closingTail l = true) :
    ∃ pre post, l = pre ++ .peerClose :: post ∧ (∀ e ∈ pre, readerEvent e = true) ∧
      (∀ e ∈ post, idleEvent e = true) := by
  induction l with
  | nil => simp [closingTail] at h
  | cons e l ih =>
    by_cases hpc : e = .peerClose
    · subst hpc
      refine ⟨[], l, rfl, by simp, ?_⟩
      simpa [closingTail, List.all_eq_true] using h
    · have h' : (readerEvent e && closingTail l) = true := by
        cases e <;> first | exact absurd rfl hpc | simpa [closingTail] using h
      simp only [Bool.and_eq_true] at h'
      obtain ⟨pre, post, e1, e2, e3⟩ := ih h'.2
      refine ⟨e :: pre, post, by rw [e1]; rfl, ?_, e3⟩
      intro x hx
      rcases List.mem_cons.mp hx with rfl | hx
      · exact h'.1
      · exact e2 x hx

/-- whatever follows a `peerClose` in a list of the closing shape is idle -/
theorem closingTail_idle_after (pre post : List Event) (h : closingTail (pre ++ .peerClose :: post) = true) :
    ∀ e ∈ post, idleEvent e = true := by
  induction pre with
  | nil => simpa [closingTail, List.all_eq_true] using h
  | cons e pre ih =>
    by_cases hpc : e = .peerClose
    · subst hpc
      have : (pre ++ Event.peerClose :: post).all idleEvent = true := h
      have := List.all_eq_true.mp this .peerClose (by simp)
      exact absurd this (by simp [idleEvent])
    · have h' : (readerEvent e && closingTail (pre ++ .peerClose :: post)) = true := by
        cases e <;> first | exact absurd rfl hpc | simpa [closingTail] using h
      simp only [Bool.and_eq_true] at h'
      exact ih h'.2

theorem closingTail_of_split (pre post : List Event) (h1 : ∀ e ∈ pre, readerEvent e = true)
    (h2 : ∀ e ∈ post, idleEvent e = true) : closingTail (pre ++ .peerClose :: post) = true := by
  induction pre with
  | nil => simpa [closingTail, List.all_eq_true] using h2
  | cons e pre ih =>
    have he := h1 e (by simp)
    have := ih (fun x hx => h1 x (by simp [hx]))
    cases e <;> simp [readerEvent] at he <;> simp [closingTail, readerEvent, he, this]

/-- the shape, spelled out -/
theorem closingEvents_iff (evs : List Event) :
    closingEvents evs = true ↔
      ∃ pre post, evs = .new :: pre ++ .peerClose :: post ∧ (∀ e ∈ pre, readerEvent e = true) ∧
        (∀ e ∈ post, idleEvent e = true) := by
  constructor
  · intro h
    unfold closingEvents at h
    split at h
    · rename_i rest
      obtain ⟨pre, post, e1, e2, e3⟩ := closingTail_split h
      exact ⟨pre, post, by rw [e1]; rfl, e2, e3⟩
    · exact absurd h (by simp)
  · rintro ⟨pre, post, rfl, h1, h2⟩
    exact closingTail_of_split pre post h1 h2

theorem okEvent_of_idle {e : Event} (h : idleEvent e = true) : okEvent e = true := by
  cases e <;> simp [idleEvent] at h <;> simp [okEvent, readerEvent, h]

theorem fed_idle (l : List Event) (h : ∀ e ∈ l, idleEvent e = true) : Scenario.fed l = [] := by
  induction l with
  | nil => rfl
  | cons e l ih =>
    have he := h e (by simp)
    have : Scenario.fed (e :: l) = evBytesOf e ++ Scenario.fed l := by simp [fed_eq]
    rw [this, ih (fun x hx => h x (by simp [hx]))]
    cases e <;> simp [idleEvent] at he <;> rfl

theorem fed_peerClose (post : List Event) (h : ∀ e ∈ post, idleEvent e = true) :
    Scenario.fed (.peerClose :: post) = [] := by
  have : Scenario.fed (.peerClose :: post) = evBytesOf .peerClose ++ Scenario.fed post := by simp [fed_eq]
  rw [this, fed_idle post h]; rfl

theorem clEvent_of_ok {e : Event} (h : okEvent e = true) : clEvent e = true := by
  simp [clEvent, h]

theorem run_eq_fold (env : Env) (app : App) (l : List Event) :
    l.foldl (Sock.stepK env app) ({}, 0) = (Sock.run env app l, l.length) := by
  have := fold_count env app l ({}, 0)
  simp only [Nat.zero_add] at this
  rw [← this]; rfl

/-- **The invariant at every point of a run in which the client leaves.**  The stream contains a
    complete accepted head declaring `N` body bytes; `p` is any prefix of the event list. -/
theorem closing_inv (env : Env) (app : App) (happ : ReaderApp app) {head : Bytes} {N : Nat}
    {evs : List Event} (acc : Acc env head N) (restF : Bytes)
    (hfin : breakOn CRLF2 (Scenario.fed evs) = some (head, restF))
    (pre post : List Event) (hevs : evs = .new :: pre ++ .peerClose :: post)
    (hpre : ∀ e ∈ pre, readerEvent e = true) (hpost : ∀ e ∈ post, idleEvent e = true)
    (p q : List Event) (hpq : evs = p ++ q) :
    RInv evs head N (Scenario.fed p) (Sock.run env app p) := by
  have hoka : ∀ e ∈ Event.new :: pre, okEvent e = true := by
    intro e he
    rcases List.mem_cons.mp he with rfl | he
    · rfl
    · simp [okEvent, hpre e he]
  have hsplit : p ++ q = (Event.new :: pre) ++ (.peerClose :: post) := by rw [← hpq, hevs]
  rcases List.append_eq_append_iff.mp hsplit with ⟨a', e1, e2⟩ | ⟨b', e1, e2⟩
  · -- `p` ends before the client leaves
    refine run_inv env app happ acc restF hfin p q hpq ?_
    intro e he; exact hoka e (by rw [e1]; simp [he])
  · cases b' with
    | nil =>
      refine run_inv env app happ acc restF hfin p q hpq ?_
      intro e he; exact hoka e (by simpa [e1] using he)
    | cons x post1 =>
      -- `p = new :: pre ++ peerClose :: post1`, `post = post1 ++ q`
      have hx : x = .peerClose ∧ post = post1 ++ q := by
        have : Event.peerClose :: post = x :: (post1 ++ q) := e2
        simp only [List.cons.injEq] at this
        exact ⟨this.1.symm, this.2⟩
      obtain ⟨rfl, hpost1⟩ := hx
      have hevs' : evs = (Event.new :: pre) ++ (.peerClose :: post) := by rw [hevs]
      -- up to the moment the client leaves
      have hRa := run_inv env app happ acc restF hfin (.new :: pre) (.peerClose :: post) hevs' hoka
      have hfa : Scenario.fed (.new :: pre) = Scenario.fed evs := by
        rw [hevs', fed_append, fed_peerClose post hpost, List.append_nil]
      have hrs : (Sock.run env app (.new :: pre)).rs ≠ .headers := by
        intro hc
        obtain ⟨a, hb, B, hm, _, hrel⟩ := hRa
        have := (hrel.1 hc).2
        rw [hfa, hfin] at this; exact absurd this (by simp)
      have hcc : (Sock.run env app (.new :: pre)).closeCalled = false := by
        have hn := run_noCl env app happ (.new :: pre) (fun e he => clEvent_of_ok (hoka e he))
        obtain ⟨a, hb, B, hm, _, _⟩ := hRa
        exact hn hm.ioOpen
      -- the client leaves
      have hk : evs[(Event.new :: pre).length]? = some .peerClose := by rw [hevs']; simp
      have hRb := stepK_peerClose_inv env app happ (Event.new :: pre).length hk hRa hrs hcc
      have hcnt : (Sock.stepK env app (Sock.run env app (.new :: pre), (Event.new :: pre).length) .peerClose).2
          = (Event.new :: pre ++ [Event.peerClose]).length := by
        simp [Sock.stepK]
      -- afterwards
      have hfb : Scenario.fed (Event.new :: pre ++ [Event.peerClose]) = Scenario.fed (.new :: pre) := by
        have : Event.new :: pre ++ [Event.peerClose] = (Event.new :: pre) ++ [Event.peerClose] := rfl
        rw [this, fed_append, fed_single]; simp [evBytesOf]
      have hpost1ok : ∀ e ∈ post1, okEvent e = true := fun e he =>
        okEvent_of_idle (hpost e (by rw [hpost1]; simp [he]))
      have hR := fold_inv env app happ acc restF hfin post1 (Event.new :: pre ++ [Event.peerClose]) q
        (Sock.stepK env app (Sock.run env app (.new :: pre), (Event.new :: pre).length) .peerClose).1
        (by rw [hevs, hpost1]; simp) hpost1ok (by rw [hfb]; exact hRb)
      have hp : p = (Event.new :: pre ++ [Event.peerClose]) ++ post1 := by rw [e1]; simp
      have hrun : Sock.run env app p =
          (post1.foldl (Sock.stepK env app)
            ((Sock.stepK env app (Sock.run env app (.new :: pre), (Event.new :: pre).length) .peerClose).1,
              (Event.new :: pre ++ [Event.peerClose]).length)).1 := by
        rw [← hcnt, hp, Sock.run, List.foldl_append, List.foldl_append, run_eq_fold]
        rfl
      rw [hrun, hp]
      exact hR

/-! ### "bytes that had arrived" at a point of the history -/

/-- The bytes the client had sent when the history `l` was complete: every external event leaves
    its marker `ev k` in the history before anything it causes, so these are the bytes of the
    events whose markers occur in `l`. -/
def arrivedAt (evs : List Event) (l : List Obs) : Nat :=
  (l.map fun o => match o with | .ev k => evLen evs k | _ => 0).sum

theorem wst_fst (evs : List Event) (l : List Obs) :
    ∀ f h a, (wst evs l f h a).1 = f + arrivedAt evs l := by
  induction l with
  | nil => intro f h a; simp [wst, arrivedAt]
  | cons o l ih =>
    intro f h a
    cases o <;> simp [wst, ih, arrivedAt] <;> omega

/-- the walk's clause for `readChannelFinished`, in terms of `arrivedAt` -/
theorem walkL_rcf (evs : List Event) (hl n : Nat) (l1 l2 : List Obs)
    (h : walkL evs hl n (l1 ++ Obs.rcf :: l2) 0 false none = true) : hl + n ≤ arrivedAt evs l1 := by
  rw [walkL_append, wst_fst] at h
  simp only [walkL, Bool.and_eq_true, decide_eq_true_eq] at h
  have := h.2.1
  omega

/-- between two events the markers account for exactly the bytes delivered -/
theorem RInv.arrivedAt_eq {evs : List Event} {head : Bytes} {N : Nat} {fed : Bytes} {s : Sock}
    (h : RInv evs head N fed s) : arrivedAt evs s.log = fed.length := by
  obtain ⟨a, hb, B, hm, _, _⟩ := h
  have := congrArg Prod.fst hm.wst
  rw [wst_fst] at this
  simpa using this

end Qhttp.C02
