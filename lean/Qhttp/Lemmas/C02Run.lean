import Qhttp.Lemmas.C02Slots
/-
  C02 — the invariant between external events (`RInv`), its preservation by `onReadyRead`, by
  every event of the reader scenario shape, and by whole runs.
-/
namespace Qhttp.C02
open Qhttp

/-- the head is acceptable and declares `Content-Length: N`, `N ≥ 0` (what `C01.expect` computes) -/
structure Acc (env : Env) (head : Bytes) (N : Nat) : Prop where
  ex : ∃ rh p q, Parser.parseRequestHeaders head [] = some rh ∧ env.url rh.rawPath = some (p, q) ∧
        HeaderMap.contains Sock.CONTENT_LENGTH_KEY rh.headers = true ∧
        toLongLong (HeaderMap.value Sock.CONTENT_LENGTH_KEY rh.headers) = (N : Int)

/-- how the parameters of `Mid` relate to the bytes delivered so far, between two events -/
def Rel (head : Bytes) (N : Nat) (fed hb B : Bytes) (s : Sock) : Prop :=
  (s.rs = .headers → hb = fed ∧ breakOn CRLF2 fed = none) ∧
  (s.rs ≠ .headers → ∃ rest, fed = head ++ CRLF2 ++ rest ∧ B = rest.take N ∧
      (s.rs = .finished ↔ N ≤ rest.length))

/-- the invariant between external events, against `fed` = all bytes delivered so far -/
def RInv (evs : List Event) (head : Bytes) (N : Nat) (fed : Bytes) (s : Sock) : Prop :=
  ∃ a hb B, Mid evs (head.length + 4) N fed.length hb B a s ∧ s.tcp.inbox = [] ∧ Rel head N fed hb B s

theorem CRLF2_length : CRLF2.length = 4 := rfl

variable {evs : List Event} {head : Bytes} {N : Nat} {hb B : Bytes} {s : Sock}

theorem Mid.emit_hp {hl fedLen : Nat} (env : Env) (app : App) (happ : ReaderApp app)
    (h : Mid evs hl N fedLen hb B none s) (hrs : s.rs = .headers)
    (rh : Parser.ReqHead) (p : Bytes) (q : List (Bytes × Bytes)) (rest : Bytes)
    (hf : hl + (rest.take N).length ≤ fedLen) :
    Mid evs hl N fedLen hb (rest.take N) none
        (Sock.emit env app (hpState s rh p q rest N) .hp (app.onHp (hpState s rh p q rest N))) ∧
      (Sock.emit env app (hpState s rh p q rest N) .hp (app.onHp (hpState s rh p q rest N))).rs = .data ∧
      (Sock.emit env app (hpState s rh p q rest N) .hp (app.onHp (hpState s rh p q rest N))).tcp = s.tcp ∧
      (Sock.emit env app (hpState s rh p q rest N) .hp (app.onHp (hpState s rh p q rest N))).initPending
        = s.initPending := by
  have hm3 := h.hpEmit hrs rh.method rh.rawPath p rh.headers
    (q.foldl (fun m e => Sock.qmInsert e.1 e.2 m) s.query) (rest.take N) hf
  obtain ⟨hm4, c4⟩ := Mid.apis env app (app.onHp (hpState s rh p q rest N)) (happ.hp _) _ hm3
  unfold Sock.emit
  exact ⟨hm4, c4.1, c4.2.1, c4.2.2.1⟩

theorem orr_inv (env : Env) (app : App) (happ : ReaderApp app) (acc : Acc env head N)
    (fedF restF fed seg : Bytes)
    (hfin : breakOn CRLF2 fedF = some (head, restF)) (hpre : (fed ++ seg) <+: fedF)
    (hm : Mid evs (head.length + 4) N (fed ++ seg).length hb B none s) (hin : s.tcp.inbox = seg)
    (hrel : Rel head N fed hb B s) :
    RInv evs head N (fed ++ seg) (Sock.onReadyRead env app s) ∧
      (Sock.onReadyRead env app s).initPending = s.initPending := by
  obtain ⟨hH, hD⟩ := hrel
  rw [onReadyRead_eq]
  have h3 : s.rs = .finished ∨ s.rs = .data ∨ s.rs = .headers := by
    cases s.rs <;> simp
  rcases h3 with hrs | hrs | hrs
  · rw [if_pos hrs, if_pos hm.devOpen]
    refine ⟨⟨none, hb, B, hm.setInbox [], rfl, ?_, ?_⟩, rfl⟩
    · intro hh; rw [hrs] at hh; exact absurd hh (by simp)
    · intro _
      obtain ⟨rest, e1, e2, e3⟩ := hD (by rw [hrs]; simp)
      have hle : N ≤ rest.length := e3.mp hrs
      refine ⟨rest ++ seg, by rw [e1]; simp, ?_, ?_⟩
      · rw [e2, List.take_append_of_le_length hle]
      · show s.rs = .finished ↔ _
        simp [hrs]; omega
  · rw [if_neg (by rw [hrs]; simp)]
    have hne : s.rs ≠ .headers := by rw [hrs]; simp
    obtain ⟨rest, e1, e2, e3⟩ := hD hne
    have hlt : ¬ N ≤ rest.length := fun hc => by have := e3.mpr hc; rw [hrs] at this; exact absurd this (by simp)
    have hBr : B = rest := by rw [e2, List.take_of_length_le (by omega)]
    obtain ⟨d1, d2, d3, d4⟩ := hm.dat hne
    unfold pullS
    rw [if_pos hm.devOpen, hin]
    have hX : Obs.reads s.log ++ s.qio ++ (s.readBuffer ++ seg) = rest ++ seg := by
      rw [← hBr, ← d1]; simp
    have hm2 := hm.setBuf (s.readBuffer ++ seg) { s.tcp with inbox := [] } hm.devOpen
      (fun _ => by rw [hX, e1]; simp only [List.length_append, CRLF2_length]; omega)
    rw [hX] at hm2
    have hk : (Obs.reads s.log).length + s.qio.length ≤ N := by
      have := hm.len_le hne
      rw [hBr] at this; omega
    rw [orrBody_data _ _ _ (by exact hrs)]
    obtain ⟨r1, r2, r3, r4⟩ := hm2.readDataSlot env app happ hrs hk
    refine ⟨⟨none, s.readBuffer ++ seg, (rest ++ seg).take N, r1, by rw [r2], ?_, ?_⟩, by rw [r3]⟩
    · intro hh; rw [r4] at hh; split at hh <;> simp at hh
    · intro _
      refine ⟨rest ++ seg, by rw [e1]; simp, rfl, ?_⟩
      rw [r4]
      by_cases hc : N ≤ (rest ++ seg).length
      · rw [if_pos hc]; exact ⟨fun _ => hc, fun _ => rfl⟩
      · rw [if_neg hc]; exact ⟨fun h => absurd h (by simp), fun h => absurd h hc⟩
  · rw [if_neg (by rw [hrs]; simp)]
    obtain ⟨g1, g2, g3, g4, g5, g6⟩ := hm.hdr hrs
    obtain ⟨k1, _⟩ := hH hrs
    unfold pullS
    rw [if_pos hm.devOpen, hin]
    have hm2 := hm.setBuf (s.readBuffer ++ seg) { s.tcp with inbox := [] } hm.devOpen
      (fun hh => absurd hrs hh)
    have hbuf : s.readBuffer ++ seg = fed ++ seg := by rw [g1, k1]
    cases hbk : breakOn CRLF2 (s.readBuffer ++ seg) with
    | none =>
      rw [orrBody_headers_none _ _ _ (by exact hrs) (by exact hbk)]
      refine ⟨⟨none, _, _, hm2, rfl, ?_, ?_⟩, rfl⟩
      · intro _; exact ⟨hbuf, by rw [← hbuf]; exact hbk⟩
      · intro hh; exact absurd hrs hh
    | some pr =>
      obtain ⟨h', rest⟩ := pr
      obtain ⟨t, _, ht⟩ := C02L.breakOn_prefix CRLF2 (fed ++ seg) fedF h' rest hpre (by rw [← hbuf]; exact hbk)
      rw [hfin] at ht
      have hhead : h' = head := by
        simp only [Option.some.injEq, Prod.mk.injEq] at ht; exact ht.1.symm
      subst hhead
      have hsplit := C02L.breakOn_some_eq CRLF2 _ _ _ hbk
      obtain ⟨rh, p, q, a1, a2, a3, a4⟩ := acc.ex
      have hfl : h'.length + 4 + (rest.take N).length ≤ (fed ++ seg).length := by
        rw [← hbuf, hsplit]; simp only [List.length_append, List.length_take, CRLF2_length]; omega
      obtain ⟨hm4, hrs4, t4, i4⟩ := hm2.emit_hp env app happ hrs rh p q rest hfl
      rw [orrBody_headers_acc _ _ _ (by exact hrs) h' rest rh p q N (by exact hbk)
        (by show Parser.parseRequestHeaders h' s.reqHeaders = some rh; rw [g2]; exact a1) a2 a3 a4 hrs4]
      generalize Sock.emit env app
          (hpState { s with readBuffer := s.readBuffer ++ seg, tcp := { s.tcp with inbox := [] } } rh p q rest N) .hp
          (app.onHp (hpState { s with readBuffer := s.readBuffer ++ seg, tcp := { s.tcp with inbox := [] } } rh p q rest N))
          = se at hm4 hrs4 t4 i4 ⊢
      have hk : (Obs.reads se.log).length + se.qio.length ≤ N := by
        have := Mid.len_le hm4 (by rw [hrs4]; simp)
        simp only [List.length_take] at this
        omega
      obtain ⟨r1, r2, r3, r4⟩ := Mid.readDataSlot env app happ hm4 hrs4 hk
      refine ⟨⟨none, _, _, r1, ?_, ?_, ?_⟩, ?_⟩
      · rw [r2, t4]
      · intro hh; rw [r4] at hh; split at hh <;> simp at hh
      · intro _
        refine ⟨rest, by rw [← hbuf, hsplit], by rw [List.take_take]; simp, ?_⟩
        rw [r4]; simp only [List.length_take]
        split <;> simp <;> omega
      · rw [r3, i4]

/-! ### one external event -/

def evBytesOf (e : Event) : Bytes := match e with | .prebuf b => b | .feed b => b | _ => []

theorem fed_eq (l : List Event) : Scenario.fed l = l.flatMap evBytesOf := rfl

theorem fed_append (l1 l2 : List Event) : Scenario.fed (l1 ++ l2) = Scenario.fed l1 ++ Scenario.fed l2 := by
  simp [fed_eq]

theorem fed_single (e : Event) : Scenario.fed [e] = evBytesOf e := by simp [fed_eq]

theorem evLen_of (k : Nat) (e : Event) (hk : evs[k]? = some e) : evLen evs k = (evBytesOf e).length := by
  unfold evLen; rw [hk]; cases e <;> rfl

theorem Rel.of_rs {fed : Bytes} {s' : Sock} (h : Rel head N fed hb B s) (hrs : s'.rs = s.rs) :
    Rel head N fed hb B s' := by
  unfold Rel at h ⊢; rw [hrs]; exact h

/-- events of the reader scenario shape (and `new`, wherever it stands) -/
def okEvent (e : Event) : Bool := readerEvent e || (match e with | .new => true | _ => false)

theorem step_inv (env : Env) (app : App) (happ : ReaderApp app) (acc : Acc env head N)
    (fedF restF fed : Bytes) (hfin : breakOn CRLF2 fedF = some (head, restF))
    (e : Event) (he : okEvent e = true) (hpre : (fed ++ evBytesOf e) <+: fedF) (s1 : Sock)
    (hm1 : Mid evs (head.length + 4) N (fed ++ evBytesOf e).length hb B none s1)
    (hin1 : s1.tcp.inbox = []) (hrel1 : Rel head N fed hb B s1) :
    RInv evs head N (fed ++ evBytesOf e) (Sock.step env app s1 e) := by
  unfold Sock.step
  rw [if_neg (by simp [hm1.alive])]
  cases e with
  | prebuf b => simp [okEvent, readerEvent] at he
  | ack n => simp [okEvent, readerEvent] at he
  | ackAll => simp [okEvent, readerEvent] at he
  | peerClose => simp [okEvent, readerEvent] at he
  | new =>
    simp only [evBytesOf, List.append_nil] at hm1 ⊢
    exact ⟨none, hb, B, hm1.setInit true, hin1, hrel1.of_rs rfl⟩
  | feed seg =>
    simp only [evBytesOf] at hm1 hpre ⊢
    have := orr_inv env app happ acc fedF restF fed seg hfin hpre
      (hm1.setInbox (s1.tcp.inbox ++ seg)) (by show s1.tcp.inbox ++ seg = seg; rw [hin1]; rfl)
      (hrel1.of_rs rfl)
    exact this.1
  | turn =>
    simp only [evBytesOf, List.append_nil] at hm1 hpre ⊢
    by_cases hip : s1.initPending = true
    · rw [if_pos hip]
      have := orr_inv (s := { s1 with initPending := false }) env app happ acc fedF restF fed [] hfin
        (by simpa using hpre) (by rw [List.append_nil]; exact hm1.setInit false) (by exact hin1)
        (hrel1.of_rs rfl)
      obtain ⟨r, _⟩ := this
      rw [List.append_nil] at r
      obtain ⟨a', hb', B', m', i', rel'⟩ := r
      rw [if_neg (by simp [m'.delPending])]
      exact ⟨a', hb', B', m', i', rel'⟩
    · rw [if_neg hip]
      rw [if_neg (by simp [hm1.delPending])]
      exact ⟨none, hb, B, hm1, hin1, hrel1⟩
  | api op =>
    simp only [evBytesOf, List.append_nil] at hm1 hpre ⊢
    have hop : readerOp op = true := by simpa [okEvent, readerEvent] using he
    have c := hm1.apiPrim_sameCtl env op hop
    cases op <;> simp [readerOp] at hop
    · rw [hm1.api_read env app]
      exact ⟨none, hb, B, hm1.apiPrim_read env _, by rw [c.2.1]; exact hin1, hrel1.of_rs c.1⟩
    · rw [hm1.api_readAll env app (Or.inl rfl)]
      exact ⟨none, hb, B, hm1.apiPrim_readAll env (Or.inl rfl), by rw [c.2.1]; exact hin1, hrel1.of_rs c.1⟩
    · rw [hm1.api_avail env app]
      exact ⟨_, hb, B, hm1.apiPrim_avail env, by rw [c.2.1]; exact hin1, hrel1.of_rs c.1⟩

theorem stepK_alive (env : Env) (app : App) (s : Sock) (k : Nat) (e : Event) (h : s.alive = true) :
    Sock.stepK env app (s, k) e = (Sock.step env app { s with log := s.log ++ [Obs.ev k] } e, k + 1) := by
  unfold Sock.stepK
  simp only []
  rw [if_neg (by simp [h])]

theorem stepK_inv (env : Env) (app : App) (happ : ReaderApp app) (acc : Acc env head N)
    (fedF restF fed : Bytes) (hfin : breakOn CRLF2 fedF = some (head, restF))
    (e : Event) (k : Nat) (hk : evs[k]? = some e) (he : okEvent e = true)
    (hpre : (fed ++ evBytesOf e) <+: fedF) (h : RInv evs head N fed s) :
    RInv evs head N (fed ++ evBytesOf e) (Sock.stepK env app (s, k) e).1 ∧
      (Sock.stepK env app (s, k) e).2 = k + 1 := by
  obtain ⟨a, hb, B, hm, hin, hrel⟩ := h
  have hm1 := hm.ev k
  rw [evLen_of k e hk, ← List.length_append] at hm1
  rw [stepK_alive env app s k e hm.alive]
  exact ⟨step_inv env app happ acc fedF restF fed hfin e he hpre _ hm1 hin (hrel.of_rs rfl), rfl⟩

/-! ### whole runs -/

theorem RInv_init (evs : List Event) (head : Bytes) (N : Nat) : RInv evs head N [] ({} : Sock) := by
  refine ⟨none, [], [], ?_, rfl, ?_, ?_⟩
  · exact { alive := rfl, ioOpen := rfl, devOpen := rfl, dcFlag := rfl, delPending := rfl,
            walk := rfl, wst := rfl, hp := rfl, rcf := rfl, tc := rfl,
            hdr := fun _ => ⟨rfl, rfl, rfl, rfl, rfl, rfl⟩,
            dat := fun h => absurd rfl h }
  · intro _; exact ⟨rfl, by decide⟩
  · intro h; exact absurd rfl h

theorem fold_inv (env : Env) (app : App) (happ : ReaderApp app) (acc : Acc env head N)
    (restF : Bytes) (hfin : breakOn CRLF2 (Scenario.fed evs) = some (head, restF)) :
    ∀ (mid pre post : List Event) (s : Sock), evs = pre ++ mid ++ post →
      (∀ e ∈ mid, okEvent e = true) → RInv evs head N (Scenario.fed pre) s →
      RInv evs head N (Scenario.fed (pre ++ mid)) (mid.foldl (Sock.stepK env app) (s, pre.length)).1 := by
  intro mid
  induction mid with
  | nil => intro pre post s _ _ h; simpa using h
  | cons e mid ih =>
    intro pre post s hevs hok h
    have hk : evs[pre.length]? = some e := by
      rw [hevs]; simp
    have hpre : (Scenario.fed pre ++ evBytesOf e) <+: Scenario.fed evs := by
      rw [hevs]
      have : pre ++ e :: mid ++ post = (pre ++ [e]) ++ (mid ++ post) := by simp
      rw [this, fed_append, fed_append, fed_single]
      exact List.prefix_append _ _
    obtain ⟨h1, h2⟩ := stepK_inv env app happ acc (Scenario.fed evs) restF (Scenario.fed pre) hfin e pre.length hk
      (hok e (by simp)) hpre h
    rw [List.foldl_cons]
    have hst : Sock.stepK env app (s, pre.length) e =
        ((Sock.stepK env app (s, pre.length) e).1, (pre ++ [e]).length) := by
      rw [List.length_append, List.length_singleton, ← h2]
    rw [hst]
    have := ih (pre ++ [e]) post _ (by rw [hevs]; simp) (fun e' he' => hok e' (by simp [he']))
      (by rw [fed_append, fed_single]; exact h1)
    simpa using this

/-- the invariant holds after every prefix of a run of the reader shape -/
theorem run_inv (env : Env) (app : App) (happ : ReaderApp app) (acc : Acc env head N)
    (restF : Bytes) (hfin : breakOn CRLF2 (Scenario.fed evs) = some (head, restF))
    (pre post : List Event) (hevs : evs = pre ++ post) (hok : ∀ e ∈ pre, okEvent e = true) :
    RInv evs head N (Scenario.fed pre) (Sock.run env app pre) := by
  have := fold_inv env app happ acc restF hfin pre [] post {} (by simpa using hevs) hok
    (by simpa [fed_eq] using RInv_init evs head N)
  simpa [Sock.run] using this

/-! ### what the invariant says about the history -/

theorem RInv.rest_eq {fed fedF restF : Bytes} (h : RInv evs head N fed s)
    (hfin : breakOn CRLF2 fedF = some (head, restF)) (hpre : fed <+: fedF) (hrs : s.rs ≠ .headers) :
    ∃ rest t, fed = head ++ CRLF2 ++ rest ∧ restF = rest ++ t ∧
      Obs.reads s.log ++ s.qio ++ s.readBuffer = rest.take N ∧ (s.rs = .finished ↔ N ≤ rest.length) := by
  obtain ⟨a, hb, B, hm, _, hrel⟩ := h
  obtain ⟨rest, e1, e2, e3⟩ := hrel.2 hrs
  obtain ⟨t, ht⟩ := hpre
  have hF := C02L.breakOn_some_eq CRLF2 _ _ _ hfin
  refine ⟨rest, t, e1, ?_, ?_, e3⟩
  · rw [← ht, e1] at hF
    simp only [List.append_assoc] at hF
    exact (List.append_cancel_left (List.append_cancel_left hF)).symm
  · rw [← e2]; exact (hm.dat hrs).1

theorem RInv.reads_prefix {fed fedF restF : Bytes} (h : RInv evs head N fed s)
    (hfin : breakOn CRLF2 fedF = some (head, restF)) (hpre : fed <+: fedF) :
    Obs.reads s.log <+: restF.take N := by
  by_cases hrs : s.rs = .headers
  · obtain ⟨a, hb, B, hm, _, _⟩ := h
    rw [(hm.hdr hrs).2.2.2.2.1]; exact List.nil_prefix
  · obtain ⟨rest, t, _, e2, e3, _⟩ := h.rest_eq hfin hpre hrs
    have h1 : Obs.reads s.log <+: rest.take N := by
      rw [← e3, List.append_assoc]; exact List.prefix_append _ _
    have h2 : rest.take N <+: restF.take N := by
      rw [e2, List.take_append]; exact List.prefix_append _ _
    exact h1.trans h2

theorem RInv.counts {fed : Bytes} (h : RInv evs head N fed s) :
    Obs.countP Obs.isHp s.log = (if s.rs = .headers then 0 else 1) ∧
    Obs.countP Obs.isRcf s.log = (if s.rs = .finished then 1 else 0) ∧
    walkL evs (head.length + 4) N s.log 0 false none = true ∧ s.log.any Obs.isTc = false := by
  obtain ⟨a, hb, B, hm, _, _⟩ := h
  exact ⟨hm.hp, hm.rcf, hm.walk, hm.tc⟩

/-- `bytesAvailable()` is exactly what an immediate `readAll()` returns -/
theorem RInv.avail_exact {fed : Bytes} (h : RInv evs head N fed s) :
    Sock.bytesAvailable s = (Sock.readAll s).2.length := by
  obtain ⟨a, hb, B, hm, _, _⟩ := h
  by_cases hrs : s.rs = .headers
  · rw [readAll_headers s hrs (hm.hdr hrs).2.2.2.1]; simp [Sock.bytesAvailable, hrs]
  · rw [readAll_data s hm.ioOpen hrs]; simp [Sock.bytesAvailable, hrs]; omega

/-- the last event is a `readAll` from idle context and the whole body was delivered -/
theorem RInv.final_readAll {fed rest : Bytes} (env : Env) (app : App) (h : RInv evs head N fed s)
    (hbrk : breakOn CRLF2 fed = some (head, rest)) (hN : N ≤ rest.length) (k : Nat) :
    Obs.reads (Sock.stepK env app (s, k) (.api .readAll)).1.log = rest.take N ∧
    Obs.countP Obs.isHp (Sock.stepK env app (s, k) (.api .readAll)).1.log = 1 ∧
    Obs.countP Obs.isRcf (Sock.stepK env app (s, k) (.api .readAll)).1.log = 1 := by
  have hrs : s.rs ≠ .headers := by
    intro hc
    obtain ⟨a, hb, B, hm, _, hrel⟩ := h
    have := (hrel.1 hc).2
    rw [hbrk] at this; exact absurd this (by simp)
  obtain ⟨rest', t, e1, e2, e3, e4⟩ := h.rest_eq hbrk (List.prefix_refl _) hrs
  have hF := C02L.breakOn_some_eq CRLF2 _ _ _ hbrk
  have hr : rest' = rest := by
    rw [e1] at hF
    simp only [List.append_assoc] at hF
    exact List.append_cancel_left (List.append_cancel_left hF)
  subst hr
  have hfin : s.rs = .finished := e4.mpr hN
  obtain ⟨a, hb, B, hm, _, hrel⟩ := h
  have hm1 := hm.ev k
  rw [stepK_alive env app s k _ hm.alive]
  show Obs.reads (Sock.step env app _ _).log = _ ∧ Obs.countP Obs.isHp (Sock.step env app _ _).log = 1 ∧
    Obs.countP Obs.isRcf (Sock.step env app _ _).log = 1
  unfold Sock.step
  rw [if_neg (by simp [hm.alive])]
  show Obs.reads (Sock.api env app _ _).log = _ ∧ Obs.countP Obs.isHp (Sock.api env app _ _).log = 1 ∧
    Obs.countP Obs.isRcf (Sock.api env app _ _).log = 1
  rw [hm1.api_readAll env app (Or.inl rfl)]
  have hm2 := hm1.apiPrim_readAll env (Or.inl rfl)
  have c := hm1.apiPrim_sameCtl env .readAll rfl
  have hrs2 : (Sock.apiPrim env { s with log := s.log ++ [Obs.ev k] } .readAll).rs = .finished := by
    rw [c.1]; exact hfin
  refine ⟨?_, by rw [hm2.hp, hrs2]; rfl, by rw [hm2.rcf, hrs2]; rfl⟩
  unfold Sock.apiPrim
  rw [if_neg (by simp [hm.alive])]
  rw [readAll_data _ hm1.ioOpen (by exact hrs)]
  show Obs.reads (s.log ++ [Obs.ev k] ++ [Obs.rd (s.qio ++ s.readBuffer)]) = _
  rw [reads_append, reads_append, ← e3]
  simp [Obs.reads]

/-- the last event is a `readAll` from idle context, however much of the body has been delivered: everything
    that arrived (up to `N` bytes) has been obtained — arrived bytes stay readable -/
theorem RInv.final_readAll_partial {fed rest : Bytes} (env : Env) (app : App) (h : RInv evs head N fed s)
    (hbrk : breakOn CRLF2 fed = some (head, rest)) (k : Nat) :
    Obs.reads (Sock.stepK env app (s, k) (.api .readAll)).1.log = rest.take N ∧
    Obs.countP Obs.isHp (Sock.stepK env app (s, k) (.api .readAll)).1.log = 1 := by
  have hrs : s.rs ≠ .headers := by
    intro hc
    obtain ⟨a, hb, B, hm, _, hrel⟩ := h
    have := (hrel.1 hc).2
    rw [hbrk] at this; exact absurd this (by simp)
  obtain ⟨rest', t, e1, e2, e3, e4⟩ := h.rest_eq hbrk (List.prefix_refl _) hrs
  have hF := C02L.breakOn_some_eq CRLF2 _ _ _ hbrk
  have hr : rest' = rest := by
    rw [e1] at hF
    simp only [List.append_assoc] at hF
    exact List.append_cancel_left (List.append_cancel_left hF)
  subst hr
  obtain ⟨a, hb, B, hm, _, hrel⟩ := h
  have hm1 := hm.ev k
  rw [stepK_alive env app s k _ hm.alive]
  show Obs.reads (Sock.step env app _ _).log = _ ∧ Obs.countP Obs.isHp (Sock.step env app _ _).log = 1
  unfold Sock.step
  rw [if_neg (by simp [hm.alive])]
  show Obs.reads (Sock.api env app _ _).log = _ ∧ Obs.countP Obs.isHp (Sock.api env app _ _).log = 1
  rw [hm1.api_readAll env app (Or.inl rfl)]
  have hm2 := hm1.apiPrim_readAll env (Or.inl rfl)
  have c := hm1.apiPrim_sameCtl env .readAll rfl
  have hrs2 : (Sock.apiPrim env { s with log := s.log ++ [Obs.ev k] } .readAll).rs ≠ .headers := by
    rw [c.1]; exact hrs
  refine ⟨?_, by rw [hm2.hp]; simp [hrs2]⟩
  unfold Sock.apiPrim
  rw [if_neg (by simp [hm.alive])]
  rw [readAll_data _ hm1.ioOpen (by exact hrs)]
  show Obs.reads (s.log ++ [Obs.ev k] ++ [Obs.rd (s.qio ++ s.readBuffer)]) = _
  rw [reads_append, reads_append, ← e3]
  simp [Obs.reads]

end Qhttp.C02
