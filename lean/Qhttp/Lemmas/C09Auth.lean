import Qhttp.Model.BasicAuth
import Qhttp.Lemmas.BytesLemmas
/-
  C09 helper lemmas: `QByteArray::split(' ')` and `Parser::split(":", 1)` in terms of `breakOn`,
  `containsByte`, `lookup`.
-/
namespace Qhttp

/-- fuel-free unfolding of `splitChar` -/
theorem splitChar_eq (c : UInt8) (xs : Bytes) :
    splitChar c xs =
      match breakOn [c] xs with
      | none => [xs]
      | some (a, r) => a :: splitChar c r := by
  unfold splitChar
  rw [splitF_eq (by simp) (Nat.lt_succ_self _), if_neg (by simp)]
  rfl

theorem containsByte_iff {c : UInt8} {xs : Bytes} : containsByte c xs = true ↔ c ∈ xs := by
  unfold containsByte
  rw [List.any_eq_true]
  constructor
  · rintro ⟨x, hx, he⟩
    have : x = c := by simpa using he
    exact this ▸ hx
  · intro h; exact ⟨c, h, by simp⟩

theorem containsByte_eq_false_iff {c : UInt8} {xs : Bytes} : containsByte c xs = false ↔ c ∉ xs := by
  rw [← containsByte_iff]; simp

theorem breakOn_singleton_eq_none_iff {c : UInt8} {xs : Bytes} : breakOn [c] xs = none ↔ c ∉ xs := by
  rw [breakOn_eq_none_iff, singleton_infix_iff]

/-- exact characterisation of `breakOn` for a one-byte delimiter -/
theorem breakOn_singleton_eq_some_iff {c : UInt8} {xs a r : Bytes} :
    breakOn [c] xs = some (a, r) ↔ xs = a ++ [c] ++ r ∧ c ∉ a := by
  constructor
  · intro h; exact ⟨breakOn_some h, breakOn_singleton_not_mem h⟩
  · rintro ⟨rfl, h⟩; exact breakOn_singleton r h

/-- `QByteArray::split(c)` gives exactly two parts iff the byte occurs exactly once -/
theorem splitChar_eq_pair_iff {c : UInt8} {xs a r : Bytes} :
    splitChar c xs = [a, r] ↔ breakOn [c] xs = some (a, r) ∧ c ∉ r := by
  rw [splitChar_eq]
  cases hb : breakOn [c] xs with
  | none => simp
  | some p =>
    obtain ⟨a0, r0⟩ := p
    simp only [List.cons.injEq, Option.some.injEq, Prod.mk.injEq]
    rw [splitChar_eq]
    cases hb2 : breakOn [c] r0 with
    | none =>
      have := breakOn_singleton_eq_none_iff.1 hb2
      simp only [List.cons.injEq, and_true]
      constructor
      · rintro ⟨rfl, rfl⟩; exact ⟨⟨rfl, rfl⟩, this⟩
      · rintro ⟨⟨rfl, rfl⟩, _⟩; exact ⟨rfl, rfl⟩
    | some q =>
      obtain ⟨a1, r1⟩ := q
      have hm : c ∈ r0 := by
        rw [breakOn_some hb2]; simp
      have hne := splitChar_ne_nil c r1
      simp only [List.cons.injEq]
      constructor
      · rintro ⟨_, _, h⟩; exact absurd h hne
      · rintro ⟨⟨_, rfl⟩, h⟩; exact absurd hm h

/-- the shape of `splitChar`: either one part (no delimiter), two parts, or more than two -/
theorem splitChar_cases (c : UInt8) (xs : Bytes) :
    (breakOn [c] xs = none ∧ splitChar c xs = [xs]) ∨
    (∃ a r, breakOn [c] xs = some (a, r) ∧ c ∉ r ∧ splitChar c xs = [a, r]) ∨
    (∃ a r x y l, breakOn [c] xs = some (a, r) ∧ c ∈ r ∧ splitChar c xs = a :: x :: y :: l) := by
  cases hb : breakOn [c] xs with
  | none => left; exact ⟨rfl, by rw [splitChar_eq, hb]⟩
  | some p =>
    obtain ⟨a, r⟩ := p
    right
    by_cases hm : c ∈ r
    · right
      have h1 : splitChar c xs = a :: splitChar c r := by rw [splitChar_eq, hb]
      cases hb2 : breakOn [c] r with
      | none => exact absurd hm (breakOn_singleton_eq_none_iff.1 hb2)
      | some q =>
        obtain ⟨a1, r1⟩ := q
        have h2 : splitChar c r = a1 :: splitChar c r1 := by rw [splitChar_eq, hb2]
        cases h3 : splitChar c r1 with
        | nil => exact absurd h3 (splitChar_ne_nil _ _)
        | cons y l => exact ⟨a, r, a1, y, l, rfl, hm, by rw [h1, h2, h3]⟩
    · left
      exact ⟨a, r, rfl, hm, splitChar_eq_pair_iff.2 ⟨hb, hm⟩⟩

/-- `Parser::split(x, d, 1)`: one cut at the first occurrence -/
theorem split_one_eq {d : Bytes} (hd : d ≠ []) (xs : Bytes) :
    split d 1 xs =
      match breakOn d xs with
      | none => [xs]
      | some (a, r) => [a, r] := by
  rw [split_succ_eq hd 0 xs]
  cases breakOn d xs with
  | none => rfl
  | some p => rfl

theorem split_one_eq_pair_iff {d : Bytes} (hd : d ≠ []) {xs a r : Bytes} :
    split d 1 xs = [a, r] ↔ breakOn d xs = some (a, r) := by
  rw [split_one_eq hd]
  cases breakOn d xs with
  | none => simp
  | some p => obtain ⟨a0, r0⟩ := p; simp

namespace BasicAuth

/-- `lookup` on the empty table -/
theorem lookup_nil (u : Bytes) : lookup [] u = none := rfl

/-- `QMap::insert`: the most recent registration of a user wins -/
theorem lookup_append_singleton (t : List (Bytes × Bytes)) (u p x : Bytes) :
    lookup (t ++ [(u, p)]) x = if u = x then some p else lookup t x := by
  unfold lookup
  rw [List.reverse_append]
  simp only [List.reverse_cons, List.reverse_nil, List.nil_append, List.cons_append, List.find?_cons]
  by_cases h : u = x
  · subst h; simp
  · have : (u == x) = false := by simpa using h
    simp [this, h]

/-- what `lookup` returns is a registered pair for exactly that user (whole-string equality) -/
theorem lookup_some_mem {t : List (Bytes × Bytes)} {u p : Bytes} (h : lookup t u = some p) :
    (u, p) ∈ t := by
  unfold lookup at h
  cases hf : t.reverse.find? (fun e => e.1 == u) with
  | none => rw [hf] at h; cases h
  | some e =>
    rw [hf] at h
    have h1 := List.mem_of_find?_eq_some hf
    have h2 := List.find?_some hf
    obtain ⟨e1, e2⟩ := e
    have h3 : e1 = u := by simpa using h2
    have h4 : e2 = p := by simpa using h
    subst h3 h4
    simpa using h1

theorem lookup_isSome_iff {t : List (Bytes × Bytes)} {u : Bytes} :
    (lookup t u).isSome ↔ ∃ p, (u, p) ∈ t := by
  constructor
  · intro h
    obtain ⟨p, hp⟩ := Option.isSome_iff_exists.1 h
    exact ⟨p, lookup_some_mem hp⟩
  · rintro ⟨p, hp⟩
    unfold lookup
    rw [Option.isSome_map, List.find?_isSome]
    exact ⟨(u, p), by simpa using hp, by simp⟩

/-- a user registered once: `lookup` returns exactly that password -/
theorem lookup_of_unique {t : List (Bytes × Bytes)} {u p : Bytes} (hm : (u, p) ∈ t)
    (hu : ∀ q, (u, q) ∈ t → q = p) : lookup t u = some p := by
  have : (lookup t u).isSome := lookup_isSome_iff.2 ⟨p, hm⟩
  obtain ⟨q, hq⟩ := Option.isSome_iff_exists.1 this
  rw [hq, hu q (lookup_some_mem hq)]

end BasicAuth
end Qhttp
