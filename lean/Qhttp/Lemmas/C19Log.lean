import Qhttp.Model.Socket
/-
  C19, part 1: facts about histories (`List Obs`) alone — counters over `++`, the
  "nothing written after the close" predicate, and the written/acknowledged walk.
  Nothing here mentions the definitions of `Props/C19.lean`; that file connects its own
  definitions to the ones below.
-/
namespace Qhttp.C19L
open Qhttp Qhttp.Obs

def isRt : Obs → Bool | .rt _ _ => true | _ => false

/-- observations that none of the counters / walks of C19 look at -/
def quiet : Obs → Bool
  | .hp => false | .rt _ _ => false | .w _ => false | .tc => false | .dc => false | .ev _ => false
  | _ => true

theorem countP_nil (p : Obs → Bool) : countP p [] = 0 := rfl

theorem countP_snoc (p : Obs → Bool) (l : List Obs) (o : Obs) :
    countP p (l ++ [o]) = countP p l + (if p o = true then 1 else 0) := by
  cases h : p o <;> simp [countP, List.filter_append, h]

theorem countP_snoc_false {p : Obs → Bool} (l : List Obs) {o : Obs} (h : p o = false) :
    countP p (l ++ [o]) = countP p l := by
  simp [countP_snoc, h]

theorem countP_cons (p : Obs → Bool) (l : List Obs) (o : Obs) :
    countP p (o :: l) = countP p l + (if p o = true then 1 else 0) := by
  cases h : p o <;> simp [countP, h]

/-- no `w` from the first `tc` on (same body as `C19.afterClose`) -/
def aftClose (obs : List Obs) : Bool :=
  countP isW (obs.dropWhile (fun o => !isTc o)) == 0

theorem aftClose_nil : aftClose [] = true := rfl

/-- appending an observation keeps `aftClose` when it is not a write, or when the transport
    has not been closed yet -/
theorem aftClose_snoc (l : List Obs) (o : Obs) (h : aftClose l = true)
    (ho : isW o = false ∨ countP isTc l = 0) : aftClose (l ++ [o]) = true := by
  induction l with
  | nil =>
    cases o <;> simp [aftClose, List.dropWhile, isTc, isW, countP] at ho ⊢
  | cons x l ih =>
    by_cases hx : isTc x = true
    · have hw : isW o = false := by
        rcases ho with ho | ho
        · exact ho
        · simp [countP_cons, hx] at ho
      simp only [aftClose, List.cons_append, List.dropWhile_cons, hx, Bool.not_true] at h ⊢
      simp only [Bool.false_eq_true, ↓reduceIte] at h ⊢
      have := countP_snoc isW (x :: l) o
      simp only [List.cons_append] at this
      simp [this, hw] at h ⊢
      exact h
    · have hx' : isTc x = false := by simpa using hx
      have h' : aftClose l = true := by
        simpa [aftClose, List.dropWhile_cons, hx'] using h
      have ho' : isW o = false ∨ countP isTc l = 0 := by
        rcases ho with ho | ho
        · exact Or.inl ho
        · right; simpa [countP_cons, hx'] using ho
      have := ih h' ho'
      simpa [aftClose, List.dropWhile_cons, hx'] using this

/-! ### written / acknowledged walk -/

/-- bytes acknowledged by an event when `u` are outstanding -/
def ackE : Event → Nat → Nat
  | .ack n, u => min n u
  | .ackAll, u => u
  | _, _ => 0

def ackAt (evs : List Event) (k u : Nat) : Nat :=
  match evs[k]? with
  | some e => ackE e u
  | none => 0

/-- one step of the walk of `C19.pending` over (written, acked) -/
def trk1 (ak : Nat → Nat → Nat) (p : Nat × Nat) : Obs → Nat × Nat
  | .ev k => (p.1, p.2 + ak k (p.1 - p.2))
  | .w b => (p.1 + b.length, p.2)
  | _ => p

def trkFrom (ak : Nat → Nat → Nat) (l : List Obs) (p : Nat × Nat) : Nat × Nat :=
  l.foldl (trk1 ak) p

def trk (ak : Nat → Nat → Nat) (l : List Obs) : Nat × Nat := trkFrom ak l (0, 0)

theorem trk_nil (ak : Nat → Nat → Nat) : trk ak [] = (0, 0) := rfl

theorem trk_snoc (ak : Nat → Nat → Nat) (l : List Obs) (o : Obs) :
    trk ak (l ++ [o]) = trk1 ak (trk ak l) o := by
  simp [trk, trkFrom, List.foldl_append]

theorem trk1_other (ak : Nat → Nat → Nat) (p : Nat × Nat) (o : Obs)
    (h1 : isW o = false) (h2 : ∀ k, o ≠ .ev k) : trk1 ak p o = p := by
  cases o <;> simp_all [trk1, isW]

theorem quiet_facts {o : Obs} (h : quiet o = true) :
    isHp o = false ∧ isRt o = false ∧ isW o = false ∧ isTc o = false ∧ isDc o = false ∧
    (∀ k, o ≠ .ev k) := by
  cases o <;> simp_all [quiet, isHp, isRt, isW, isTc, isDc]

end Qhttp.C19L
