import Qhttp.Model.CopierStopIn
import Qhttp.Lemmas.C14Run
/-
  C14 helper lemmas, part 7: `stop()` called from inside write number `k` of the destination
  (`Copier.nextBlockS` / `Copier.runS`, Model/CopierStopIn.lean) against the plain model.

  A random-access copy after `start` and `i` turns is either still in the block loop (`RunI i`:
  timer armed, not stopped, exactly `i` writes made, no completion logged) or over (`Over`: timer
  idle, the log is closed).  Up to turn `k` the two models make the same steps; the turn that
  makes write `k` is analysed by cases (`turn_eq`); after it both timers are idle.
-/
namespace Qhttp.C14L
open Qhttp Copier

/-- the log without event markers (literal copy of `C14.noMark`) -/
def noMark (l : List Obs) : List Obs := l.filter fun o => match o with | .ev _ => false | _ => true

theorem noMark_append (a b : List Obs) : noMark (a ++ b) = noMark a ++ noMark b := by
  simp [noMark, List.filter_append]
theorem noMark_cons_ev (k : Nat) (l : List Obs) : noMark (Obs.ev k :: l) = noMark l := by
  simp [noMark]
theorem noMark_cons_fin (l : List Obs) : noMark (fin :: l) = fin :: noMark l := by
  simp [noMark, fin]
theorem noMark_of_mk {l : List Obs} (h : ∀ o ∈ l, isMk o = true) : noMark l = [] := by
  induction l with
  | nil => rfl
  | cons a l ih =>
    have ha := h a (List.mem_cons_self ..)
    cases a <;> simp_all [isMk, noMark]

/-- markers do not count -/
theorem written_noMark (l : List Obs) : written (noMark l) = written l := by
  induction l with
  | nil => rfl
  | cons a l ih =>
    rw [written_cons a l, ← ih]
    cases a <;> simp [noMark, written]
theorem cnt_noMark {p : Obs → Bool} (hp : ∀ o, isMk o = true → p o = false) (l : List Obs) :
    Obs.countP p (noMark l) = Obs.countP p l := by
  induction l with
  | nil => rfl
  | cons a l ih =>
    rw [cnt_cons p a l, ← ih]
    cases a with
    | ev j => simp [noMark, hp (Obs.ev j) rfl]
    | _ => simp [noMark, cnt_cons]

theorem Closed.append_mk {log ms : List Obs} (h : Closed log) (hm : ∀ o ∈ ms, isMk o = true) :
    Closed (log ++ ms) := by
  obtain ⟨l1, l2, rfl, h1, h2⟩ := h
  refine ⟨l1, l2 ++ ms, by simp, h1, ?_⟩
  intro o ho
  rcases List.mem_append.1 ho with ho | ho
  · exact h2 o ho
  · exact hm o ho

theorem Closed.mem_fin {log : List Obs} (h : Closed log) : fin ∈ log := by
  obtain ⟨l1, l2, rfl, _, _⟩ := h
  simp

theorem not_mem_fin_of_cnt {log : List Obs} (h : Obs.countP isFin log = 0) : fin ∉ log := by
  intro hm
  have := cnt_eq_zero.1 h fin hm
  simp at this

/-- a closed log without its markers: signals, then the one completion, then nothing -/
theorem Closed.strip {log : List Obs} (h : Closed log) :
    ∃ l1, noMark log = l1 ++ [fin] ∧ Obs.countP isFin l1 = 0 := by
  obtain ⟨l1, l2, rfl, h1, h2⟩ := h
  refine ⟨noMark l1, ?_, ?_⟩
  · rw [noMark_append, noMark_cons_fin, noMark_of_mk h2]
  · rw [cnt_noMark mk_not_fin]; exact h1

/-! ### `nextBlockS`, `stepS`, `runS` -/

theorem nextBlockS_eq0 (c : Cfg) (k : Nat) (s : St) (hs : s.stopped = false) :
    nextBlockS c k s =
      if c.readFailAt == some s.reads then
        { s with reads := s.reads + 1, log := s.log ++ [err, fin] }
      else
        let s2 : St := { s with reads := s.reads + 1, pos := nbPos c s.pos, writes := s.writes + 1,
                                log := s.log ++ (if wfail c s.writes (nbN c s.pos) then [] else wr (nbD c s.pos)) }
        if wfail c s.writes (nbN c s.pos) then { s2 with log := s2.log ++ [err, fin] }
        else if s.writes == k then { s2 with connected := false, stopped := true, log := s2.log ++ [fin] }
        else if nbDone c s.pos then { s2 with log := s2.log ++ [fin] }
        else { s2 with pending := .nextBlock } := by
  unfold nextBlockS
  simp only [hs, Bool.false_eq_true, ↓reduceIte, destWrite_eq]
  cases h3 : (s.writes == k)
  · simp only [Bool.false_eq_true, ↓reduceIte]
    rfl
  · simp only [stop, ↓reduceIte]
    rfl

/-- `nextBlockS` on a copier that was not stopped: read failure / write failure / write `k`
    (the block is written and `stop()` runs: completion, nothing more) / any other write -/
theorem nextBlockS_eq (c : Cfg) (k : Nat) (s : St) (hs : s.stopped = false) :
    nextBlockS c k s =
      if c.readFailAt == some s.reads then
        { s with reads := s.reads + 1, log := s.log ++ [err, fin] }
      else if wfail c s.writes (nbN c s.pos) then
        { s with reads := s.reads + 1, pos := nbPos c s.pos, writes := s.writes + 1, log := s.log ++ [err, fin] }
      else if s.writes = k then
        { s with reads := s.reads + 1, pos := nbPos c s.pos, writes := s.writes + 1,
                 log := s.log ++ (wr (nbD c s.pos) ++ [fin]), connected := false, stopped := true }
      else
        { s with reads := s.reads + 1, pos := nbPos c s.pos, writes := s.writes + 1,
                 log := s.log ++ (wr (nbD c s.pos) ++ (if nbDone c s.pos then [fin] else [])),
                 pending := if nbDone c s.pos then s.pending else .nextBlock } := by
  rw [nextBlockS_eq0 c k s hs]
  cases h1 : (c.readFailAt == some s.reads)
  · cases h2 : wfail c s.writes (nbN c s.pos)
    · by_cases h3 : s.writes = k
      · simp [h3]
      · have h3' : (s.writes == k) = false := by simp [h3]
        cases h4 : nbDone c s.pos <;> simp [h3, h3']
    · simp
  · rfl

def runFromS (c : Cfg) (k : Nat) (sk : St × Nat) (evs : List Ev) : St × Nat := evs.foldl (stepKS c k) sk

theorem runFromS_cons (c : Cfg) (k : Nat) (s : St) (j : Nat) (e : Ev) (l : List Ev) :
    runFromS c k (s, j) (e :: l) = runFromS c k (stepS c k (mk s j) e, j + 1) l := rfl
theorem runFromS_append (c : Cfg) (k : Nat) (sk : St × Nat) (l1 l2 : List Ev) :
    runFromS c k sk (l1 ++ l2) = runFromS c k (runFromS c k sk l1) l2 := by
  simp [runFromS, List.foldl_append]
theorem runS_eq (c : Cfg) (k : Nat) (evs : List Ev) : runS c k evs = (runFromS c k (init c, 0) evs).1 := rfl

/-- the copy is in its block loop: the timer is armed, `i` writes were made, no completion yet -/
structure RunI (i : Nat) (s : St) : Prop where
  pending : s.pending = .nextBlock
  stopped : s.stopped = false
  writes : s.writes = i
  nofin : Obs.countP isFin s.log = 0

/-- the copy is over: the timer is idle, one completion, only event markers after it -/
structure Over (s : St) : Prop where
  pending : s.pending = .none
  closed : Closed s.log

theorem Over.marker {s : St} (h : Over s) (j : Nat) : Over (C14L.mk s j) :=
  ⟨h.pending, h.closed.snoc_mk j⟩

theorem stepS_turn_done (c : Cfg) (k : Nat) (s : St) (j : Nat) (h : s.pending = .none) :
    stepS c k (mk s j) .turn = mk s j := by
  simp only [stepS]
  have : (mk s j).pending = .none := h
  rw [this]

theorem step_turn_armed (c : Cfg) (s : St) (j : Nat) (h : s.pending = .nextBlock) :
    step c (mk s j) .turn = nextBlock c { mk s j with pending := .none } := by
  simp only [step]
  have : (mk s j).pending = .nextBlock := h
  rw [this]

theorem stepS_turn_armed (c : Cfg) (k : Nat) (s : St) (j : Nat) (h : s.pending = .nextBlock) :
    stepS c k (mk s j) .turn = nextBlockS c k { mk s j with pending := .none } := by
  simp only [stepS]
  have : (mk s j).pending = .nextBlock := h
  rw [this]

/-- `start()` on a fresh random-access copier: the block loop is armed, or the copy is over -/
theorem start_runI (c : Cfg) (hseq : c.seq = false) (s : St) (j : Nat) (hf : Fresh c s) :
    RunI 0 (start c (mk s j)) ∨ Over (start c (mk s j)) := by
  have hfin : Obs.countP isFin (s.log ++ [Obs.ev j]) = 0 := by
    rw [cnt_append, hf.nofin]; simp [cnt_cons]
  rw [start_eq]
  cases hsf : startFails c
  · left
    simp only [Bool.false_eq_true, if_false, hseq]
    exact ⟨rfl, rfl, hf.writes, hfin⟩
  · right
    simp only [if_true]
    refine ⟨hf.pending, ?_⟩
    show Closed (s.log ++ [Obs.ev j] ++ [err, fin])
    have : s.log ++ [Obs.ev j] ++ [err, fin] = (s.log ++ [Obs.ev j] ++ [err]) ++ [fin] := by simp
    rw [this]; apply Closed.of_snoc_fin
    rw [cnt_append, hfin]; simp [cnt_cons]

/-- one call of `nextBlock()` of the plain model in the block loop -/
theorem nb_run (c : Cfg) (i : Nat) (u : St) (hp : u.pending = .none) (hs : u.stopped = false)
    (hw : u.writes = i) (hfin : Obs.countP isFin u.log = 0) :
    RunI (i + 1) (nextBlock c u) ∨ Over (nextBlock c u) := by
  have hcl : Closed (u.log ++ [err, fin]) := by
    have : u.log ++ [err, fin] = (u.log ++ [err]) ++ [fin] := by simp
    rw [this]; apply Closed.of_snoc_fin
    rw [cnt_append, hfin]; simp [cnt_cons]
  rw [nextBlock_eq c u hs]
  cases h1 : (c.readFailAt == some u.reads)
  · cases h2 : wfail c u.writes (nbN c u.pos)
    · simp only [Bool.false_eq_true, if_false]
      cases h4 : nbDone c u.pos
      · left
        simp only [Bool.false_eq_true, if_false, List.append_nil]
        refine ⟨rfl, hs, by show u.writes + 1 = i + 1; rw [hw], ?_⟩
        show Obs.countP isFin (u.log ++ wr (nbD c u.pos)) = 0
        rw [cnt_append, hfin, wr_fin]
      · right
        simp only [if_true]
        refine ⟨hp, ?_⟩
        show Closed (u.log ++ (wr (nbD c u.pos) ++ [fin]))
        rw [← List.append_assoc]
        apply Closed.of_snoc_fin
        rw [cnt_append, hfin, wr_fin]
    · right
      simp only [Bool.false_eq_true, if_false, if_true]
      exact ⟨hp, hcl⟩
  · right
    simp only [if_true]
    exact ⟨hp, hcl⟩

/-- a call that does not make write `k`: the nested-stop model does the same -/
theorem nbS_ne (c : Cfg) (k : Nat) (u : St) (hs : u.stopped = false) (hw : u.writes ≠ k) :
    nextBlockS c k u = nextBlock c u := by
  rw [nextBlock_eq c u hs, nextBlockS_eq c k u hs]
  simp only [hw, if_false]

/-- the call that makes write `k` -/
theorem nbS_eq (c : Cfg) (k : Nat) (u : St) (hp : u.pending = .none) (hs : u.stopped = false)
    (hw : u.writes = k) (hfin : Obs.countP isFin u.log = 0) :
    (nextBlockS c k u).pending = .none ∧
    ((Over (nextBlock c u) ∧ (nextBlockS c k u).log = (nextBlock c u).log) ∨
     (RunI (k + 1) (nextBlock c u) ∧ (nextBlockS c k u).stopped = true ∧
        (nextBlockS c k u).log = (nextBlock c u).log ++ [fin])) := by
  have hrun := nb_run c k u hp hs hw hfin
  rw [nextBlock_eq c u hs] at hrun ⊢
  rw [nextBlockS_eq c k u hs]
  simp only [hw, if_true] at hrun ⊢
  cases h1 : (c.readFailAt == some u.reads)
  · cases h2 : wfail c k (nbN c u.pos)
    · simp only [h1, h2, Bool.false_eq_true, if_false] at hrun ⊢
      refine ⟨hp, ?_⟩
      cases h4 : nbDone c u.pos
      · right
        simp only [h4, Bool.false_eq_true, if_false, List.append_nil] at hrun ⊢
        rcases hrun with hr | ho
        · exact ⟨hr, trivial, by simp⟩
        · have := ho.pending; cases this
      · left
        simp only [h4, if_true] at hrun ⊢
        rcases hrun with hr | ho
        · have := hr.pending; rw [hp] at this; cases this
        · exact ⟨ho, trivial⟩
    · simp only [h1, h2, Bool.false_eq_true, if_false, if_true] at hrun ⊢
      refine ⟨hp, Or.inl ⟨?_, trivial⟩⟩
      rcases hrun with hr | ho
      · have := hr.pending; rw [hp] at this; cases this
      · exact ho
  · simp only [h1, if_true] at hrun ⊢
    refine ⟨hp, Or.inl ⟨?_, trivial⟩⟩
    rcases hrun with hr | ho
    · have := hr.pending; rw [hp] at this; cases this
    · exact ho

theorem RunI.armed {i : Nat} {s : St} (h : RunI i s) (j : Nat) :
    ({ C14L.mk s j with pending := .none } : St).pending = .none ∧
    ({ C14L.mk s j with pending := .none } : St).stopped = false ∧
    ({ C14L.mk s j with pending := .none } : St).writes = i ∧
    Obs.countP isFin ({ C14L.mk s j with pending := .none } : St).log = 0 := by
  refine ⟨rfl, h.stopped, h.writes, ?_⟩
  show Obs.countP isFin (s.log ++ [Obs.ev j]) = 0
  rw [cnt_append, h.nofin]; simp [cnt_cons]

/-- one turn of the plain model in the block loop -/
theorem turn_run (c : Cfg) (i : Nat) (s : St) (j : Nat) (h : RunI i s) :
    RunI (i + 1) (step c (mk s j) .turn) ∨ Over (step c (mk s j) .turn) := by
  obtain ⟨a1, a2, a3, a4⟩ := h.armed j
  rw [step_turn_armed c s j h.pending]
  exact nb_run c i _ a1 a2 a3 a4

/-- a turn that does not make write `k`: the nested-stop model makes the same step -/
theorem turn_ne (c : Cfg) (k i : Nat) (s : St) (j : Nat) (h : RunI i s) (hik : i ≠ k) :
    stepS c k (mk s j) .turn = step c (mk s j) .turn := by
  obtain ⟨a1, a2, a3, a4⟩ := h.armed j
  rw [step_turn_armed c s j h.pending, stepS_turn_armed c k s j h.pending]
  exact nbS_ne c k _ a2 (by rw [a3]; exact hik)

/-- the turn that makes write `k`: the timer of the nested-stop model is idle afterwards; either
    the plain model's copy is over as well (a device fault, or the block was the last one) and the
    two logs are the same, or the plain model goes on and the nested-stop model has logged the
    completion signalled by `stop()` -/
theorem turn_eq (c : Cfg) (k : Nat) (s : St) (j : Nat) (h : RunI k s) :
    (stepS c k (mk s j) .turn).pending = .none ∧
    ((Over (step c (mk s j) .turn) ∧ (stepS c k (mk s j) .turn).log = (step c (mk s j) .turn).log) ∨
     (RunI (k + 1) (step c (mk s j) .turn) ∧ (stepS c k (mk s j) .turn).stopped = true ∧
        (stepS c k (mk s j) .turn).log = (step c (mk s j) .turn).log ++ [fin])) := by
  obtain ⟨a1, a2, a3, a4⟩ := h.armed j
  rw [step_turn_armed c s j h.pending, stepS_turn_armed c k s j h.pending]
  exact nbS_eq c k _ a1 a2 a3 a4

/-! ### whole runs -/

/-- as long as write `k` is not reached (or once the copy is over) the two models make the same
    steps -/
theorem runFromS_same (c : Cfg) (k : Nat) : ∀ (m i : Nat) (s : St) (j : Nat),
    (RunI i s ∧ i + m ≤ k) ∨ Over s →
    runFromS c k (s, j) (List.replicate m Ev.turn) = runFrom c (s, j) (List.replicate m Ev.turn) ∧
    (RunI (i + m) (runFrom c (s, j) (List.replicate m Ev.turn)).1 ∨
     Over (runFrom c (s, j) (List.replicate m Ev.turn)).1) := by
  intro m
  induction m with
  | zero =>
    intro i s j h
    refine ⟨rfl, ?_⟩
    rcases h with ⟨h, _⟩ | h
    · exact Or.inl h
    · exact Or.inr h
  | succ m ih =>
    intro i s j h
    rw [List.replicate_succ, runFromS_cons, runFrom_cons]
    rcases h with ⟨h, hle⟩ | h
    · rw [turn_ne c k i s j h (by omega)]
      have hnext : (RunI (i + 1) (step c (mk s j) .turn) ∧ (i + 1) + m ≤ k) ∨ Over (step c (mk s j) .turn) := by
        rcases turn_run c i s j h with h' | h'
        · exact Or.inl ⟨h', by omega⟩
        · exact Or.inr h'
      have := ih (i + 1) _ (j + 1) hnext
      rw [show i + 1 + m = i + (m + 1) by omega] at this
      exact this
    · rw [stepS_turn_done c k s j h.pending, step_turn_done c s j h.pending]
      obtain ⟨e, r⟩ := ih (i + 1) _ (j + 1) (Or.inr (h.marker j))
      refine ⟨e, Or.inr ?_⟩
      have hover : ∀ (m : Nat) (s : St) (j : Nat), Over s → Over (runFrom c (s, j) (List.replicate m Ev.turn)).1 := by
        intro m
        induction m with
        | zero => intro s j h; exact h
        | succ m ih2 =>
          intro s j h
          rw [List.replicate_succ, runFrom_cons, step_turn_done c s j h.pending]
          exact ih2 _ _ (h.marker j)
      exact hover m _ _ (h.marker j)

theorem runFromS_idle (c : Cfg) (k : Nat) : ∀ (n : Nat) (s : St) (j : Nat), s.pending = .none →
    (runFromS c k (s, j) (List.replicate n Ev.turn)).1 =
      { s with log := s.log ++ (List.range' j n).map Obs.ev } := by
  intro n
  induction n with
  | zero => intro s j _; simp [runFromS]
  | succ n ih =>
    intro s j h
    rw [List.replicate_succ, runFromS_cons, stepS_turn_done c k s j h, ih _ _ (show (mk s j).pending = .none from h)]
    simp [mk, List.range'_succ]

theorem run_start (c : Cfg) (l : List Ev) :
    run c (.start :: l) = (runFrom c (start c (mk (init c) 0), 1) l).1 := rfl
theorem runS_start (c : Cfg) (k : Nat) (l : List Ev) :
    runS c k (.start :: l) = (runFromS c k (start c (mk (init c) 0), 1) l).1 := rfl

/-- fewer than `k + 1` turns: write `k` is not reached, the nested stop does not happen -/
theorem runS_short (c : Cfg) (hseq : c.seq = false) (k n : Nat) (h : n ≤ k) :
    runS c k (.start :: List.replicate n .turn) = run c (.start :: List.replicate n .turn) := by
  rw [runS_start, run_start]
  have h0 := start_runI c hseq (init c) 0 (fresh_init c)
  have h0' : (RunI 0 (start c (mk (init c) 0)) ∧ 0 + n ≤ k) ∨ Over (start c (mk (init c) 0)) := by
    rcases h0 with h0 | h0
    · exact Or.inl ⟨h0, by omega⟩
    · exact Or.inr h0
  rw [(runFromS_same c k n 0 _ 1 h0').1]

/-- at least `k + 1` turns.  `t`: the plain model after `start` and `k + 1` turns.  The timer of
    the nested-stop model is idle; either the plain copy is over by then (fewer than `k + 1`
    blocks, a device fault, or block `k` was the last one) and the nested-stop model has the log of
    the plain model left to run, or the plain copy would go on and the nested-stop model has
    logged, after `t`'s log, the completion `stop()` signals — and then event markers only -/
theorem runS_cases (c : Cfg) (hseq : c.seq = false) (k m : Nat) :
    (runS c k (.start :: List.replicate (k + 1 + m) .turn)).pending = .none ∧
    ((Over (run c (.start :: List.replicate (k + 1) .turn)) ∧
        (runS c k (.start :: List.replicate (k + 1 + m) .turn)).log =
          (run c (.start :: List.replicate (k + 1) .turn)).log ++ (List.range' (k + 2) m).map Obs.ev ∧
        (run c (.start :: List.replicate (k + 1 + m) .turn)).log =
          (run c (.start :: List.replicate (k + 1) .turn)).log ++ (List.range' (k + 2) m).map Obs.ev) ∨
     (RunI (k + 1) (run c (.start :: List.replicate (k + 1) .turn)) ∧
        (runS c k (.start :: List.replicate (k + 1 + m) .turn)).stopped = true ∧
        (runS c k (.start :: List.replicate (k + 1 + m) .turn)).log =
          (run c (.start :: List.replicate (k + 1) .turn)).log ++ fin :: (List.range' (k + 2) m).map Obs.ev)) := by
  have e1 : List.replicate (k + 1 + m) Ev.turn = List.replicate k Ev.turn ++ (Ev.turn :: List.replicate m Ev.turn) := by
    rw [show k + 1 + m = k + (m + 1) by omega, ← List.replicate_append_replicate, List.replicate_succ]
  have e2 : List.replicate (k + 1) Ev.turn = List.replicate k Ev.turn ++ [Ev.turn] := by
    exact List.replicate_succ'
  rw [runS_start, run_start, run_start, e1, e2, runFromS_append, runFrom_append, runFrom_append]
  have h0 := start_runI c hseq (init c) 0 (fresh_init c)
  have h0' : (RunI 0 (start c (mk (init c) 0)) ∧ 0 + k ≤ k) ∨ Over (start c (mk (init c) 0)) := by
    rcases h0 with h0 | h0
    · exact Or.inl ⟨h0, by omega⟩
    · exact Or.inr h0
  obtain ⟨hsame, hk⟩ := runFromS_same c k k 0 _ 1 h0'
  rw [hsame]
  have hcnt := runFrom_counter c (List.replicate k Ev.turn) (start c (mk (init c) 0)) 1
  generalize runFrom c (start c (mk (init c) 0), 1) (List.replicate k Ev.turn) = sk at hk hcnt ⊢
  obtain ⟨s, j⟩ := sk
  simp only [List.length_replicate] at hcnt
  have hj : j = k + 1 := by omega
  subst hj
  rw [Nat.zero_add] at hk
  rw [runFromS_cons, runFrom_cons, runFrom_cons, runFrom_nil]
  rcases hk with hk | hk
  · obtain ⟨hp, hcase⟩ := turn_eq c k s (k + 1) hk
    rw [runFromS_idle c k m _ _ hp]
    refine ⟨hp, ?_⟩
    rcases hcase with ⟨ho, hl⟩ | ⟨hr, hst, hl⟩
    · left
      refine ⟨ho, ?_, ?_⟩
      · show (stepS c k (mk s (k + 1)) .turn).log ++ _ = _
        rw [hl]
      · rw [runFrom_idle c m _ _ ho.pending]
    · right
      refine ⟨hr, hst, ?_⟩
      show (stepS c k (mk s (k + 1)) .turn).log ++ _ = _
      rw [hl]; simp
  · rw [stepS_turn_done c k s (k + 1) hk.pending, step_turn_done c s (k + 1) hk.pending,
      runFromS_idle c k m _ _ (show (mk s (k + 1)).pending = .none from hk.pending),
      runFrom_idle c m _ _ (show (mk s (k + 1)).pending = .none from hk.pending)]
    exact ⟨hk.pending, Or.inl ⟨hk.marker (k + 1), rfl, rfl⟩⟩

/-! ### the bytes written by a fault-free copy after `i` turns -/

/-- `i` blocks were written and the loop is armed, or everything wanted was written, without
    error, within `i` blocks -/
def QInv (c : Cfg) (i : Nat) (s : St) : Prop :=
  Running c i s ∨
  (Done c s ∧ Obs.countP isErr s.log = 0 ∧ written s.log = wanted c ∧ (wanted c).length ≤ i * c.block)

theorem faultAt_of_noFault (c : Cfg) (hnf : anyFault c = false) (i : Nat) : faultAt c i = false := by
  cases hf : faultAt c i
  · rfl
  · have := anyFault_of_faultAt hf
    rw [hnf] at this; cases this

theorem step_qinv (c : Cfg) (hb : 1 ≤ c.block) (hr : RangeNF c) (hnf : anyFault c = false)
    (i : Nat) (s : St) (j : Nat) (h : QInv c i s) : QInv c (i + 1) (step c (mk s j) .turn) := by
  rcases h with h | ⟨hd, he, hw, hl⟩
  · have hm := h.marker j
    rw [step_turn_armed c s j h.pending]
    rcases nextBlock_ok c hb hr i _ hm (faultAt_of_noFault c hnf i) with ⟨h', _⟩ | ⟨hd, he, hw, hl⟩
    · exact Or.inl h'
    · exact Or.inr ⟨hd, he, hw, hl⟩
  · rw [step_turn_done c s j hd.pending]
    refine Or.inr ⟨hd.marker j, ?_, ?_, ?_⟩
    · show Obs.countP isErr (s.log ++ [Obs.ev j]) = 0
      rw [cnt_append, he]; simp [cnt_cons]
    · show written (s.log ++ [Obs.ev j]) = _
      rw [written_append, written_ev, List.append_nil, hw]
    · rw [Nat.succ_mul]; omega

theorem runFrom_qinv (c : Cfg) (hb : 1 ≤ c.block) (hr : RangeNF c) (hnf : anyFault c = false) :
    ∀ (m i : Nat) (s : St) (j : Nat), QInv c i s →
      QInv c (i + m) (runFrom c (s, j) (List.replicate m Ev.turn)).1 := by
  intro m
  induction m with
  | zero => intro i s j h; exact h
  | succ m ih =>
    intro i s j h
    rw [List.replicate_succ, runFrom_cons, show i + (m + 1) = i + 1 + m by omega]
    exact ih _ _ _ (step_qinv c hb hr hnf i s j h)

/-- a fault-free random-access copy after `start` and `n` turns -/
theorem run_qinv (c : Cfg) (hseq : c.seq = false) (hb : 1 ≤ c.block) (hr : RangeNF c)
    (hnf : anyFault c = false) (n : Nat) : QInv c n (run c (.start :: List.replicate n .turn)) := by
  rw [run_start]
  have hsf := startFails_of_noFault c hnf (Or.inr hr)
  have h0 : Running c 0 (start c (mk (init c) 0)) := by
    rcases start_fresh_nonseq c hseq hr (init c) 0 (fresh_init c) with h | h
    · exact h
    · exfalso
      have hp := h.pending
      rw [start_eq] at hp
      simp [hsf, hseq] at hp
  have := runFrom_qinv c hb hr hnf n 0 _ 1 (Or.inl h0)
  rw [Nat.zero_add] at this
  exact this

theorem QInv.written {c : Cfg} {i : Nat} {s : St} (h : QInv c i s) :
    C14L.written s.log = (wanted c).take (i * c.block) := by
  rcases h with h | ⟨_, _, hw, hl⟩
  · exact h.wr
  · rw [hw, List.take_of_length_le hl]

theorem QInv.noerr {c : Cfg} {i : Nat} {s : St} (h : QInv c i s) : Obs.countP isErr s.log = 0 := by
  rcases h with h | ⟨_, he, _, _⟩
  · exact h.noerr
  · exact he

end Qhttp.C14L
