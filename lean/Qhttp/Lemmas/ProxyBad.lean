import Qhttp.Lemmas.ProxyGen
import Qhttp.Lemmas.C02C01
/-
  C12 — streams whose head is never complete or is rejected: `headersParsed` is never emitted, the
  request is never routed, nothing reaches the upstream server.
-/
namespace Qhttp.ProxyL
open Qhttp Proxy Qhttp.C02

/-! ### the error path logs neither markers nor upstream observations -/

theorem Grow.one (s : Sock) (o : Obs) (h : quiet0 o = true) : Grow s { s with log := s.log ++ [o] } :=
  ⟨[o], rfl, by simp [h]⟩

theorem tcpWrite_grow (s : Sock) (b : Bytes) : Grow s (Sock.tcpWrite s b) := by
  unfold Sock.tcpWrite
  split
  · exact Grow.one _ _ rfl
  · exact Grow.refl s

theorem tcpClose_grow (s : Sock) : Grow s (Sock.tcpClose s) := by
  unfold Sock.tcpClose
  split
  · exact Grow.refl s
  · simp only []
    split
    · split
      · exact Grow.one _ _ rfl
      · exact Grow.one _ _ rfl
    · exact Grow.one _ _ rfl

theorem writeHeaders_grow (s : Sock) : Grow s (Sock.writeHeaders s) := by
  have h1 : Grow s { s with ws := .headers, hdrRemaining := (Sock.headBytes s).length } := Grow.of_log_eq rfl
  exact h1.trans (tcpWrite_grow _ _)

theorem write_grow (s : Sock) (b : Bytes) : Grow s (Sock.write s b) := by
  unfold Sock.write
  split
  · exact Grow.refl s
  · simp only []
    split
    · exact (writeHeaders_grow s).trans (tcpWrite_grow _ _)
    · exact tcpWrite_grow _ _

theorem close_grow (s : Sock) : Grow s (Sock.close s) := by
  unfold Sock.close
  exact (Grow.of_log_eq (s := s) rfl).trans (tcpClose_grow _)

theorem writeError_grow (env : Env) (s : Sock) (c : Int) (r : Option Bytes) :
    Grow s (Sock.writeError env s c r) := by
  unfold Sock.writeError
  simp only []
  have h1 : Grow s (Sock.setHeader (Sock.setHeader (Sock.setStatusCode s c r) Sock.CONTENT_LENGTH
      (natDigits (env.errPage (Sock.setStatusCode s c r).code (Sock.setStatusCode s c r).reason).length) true)
      Sock.CONTENT_TYPE Sock.TEXT_HTML true) := by
    unfold Sock.setHeader Sock.setStatusCode
    simp only [Bool.true_or, if_true]
    exact Grow.of_log_eq rfl
  exact ((h1.trans (writeHeaders_grow _)).trans (write_grow _ _)).trans (close_grow _)

theorem emitDc_grow (env : Env) (s : Sock) : Grow s (Sock.emitDc env Proxy.app s) := by
  unfold Sock.emitDc
  exact Grow.one _ _ rfl

theorem emitDc_app (env : Env) (s : Sock) :
    (Sock.emitDc env Proxy.app s).rs = s.rs ∧ (Sock.emitDc env Proxy.app s).alive = s.alive ∧
    Obs.countP Obs.isHp (Sock.emitDc env Proxy.app s).log = Obs.countP Obs.isHp s.log := by
  unfold Sock.emitDc
  refine ⟨rfl, rfl, ?_⟩
  show Obs.countP Obs.isHp (s.log ++ [Obs.dc]) = _
  rw [countP_append]; rfl

theorem Grow.upBytes {s s' : Sock} (h : Grow s s') : upBytes s'.log = upBytes s.log := by
  obtain ⟨l, e, q⟩ := h
  rw [e, upBytes_append, upBytes_quiet l q, List.append_nil]

/-! ### the invariant -/

/-- every complete head of the stream is unacceptable (in particular: there is none) -/
def BadStream (env : Env) (stream : Bytes) : Prop :=
  ∀ head rest, breakOn CRLF2 stream = some (head, rest) → C01.expect env head = none

structure JInv (fed : Bytes) (s : Sock) : Prop where
  hp : Obs.countP Obs.isHp s.log = 0
  up : upBytes s.log = []
  hdr : s.rs = .headers → s.alive = true ∧ s.readBuffer = fed ∧ s.reqHeaders = [] ∧ s.tcp.inbox = [] ∧
          s.tcp.devOpen = true ∧ s.delPending = false
  fin : s.rs ≠ .headers → s.rs = .finished

theorem expect_none {env : Env} {head : Bytes} (h : C01.expect env head = none) :
    Parser.parseRequestHeaders head [] = none ∨
    ∃ rh, Parser.parseRequestHeaders head [] = some rh ∧ env.url rh.rawPath = none := by
  unfold C01.expect at h
  split at h
  · left; assumption
  · rename_i rh hp
    split at h
    · right; exact ⟨rh, hp, by assumption⟩
    · cases h

/-- one `onReadyRead` delivering `seg` -/
theorem orr_bad (env : Env) (fedF fed seg : Bytes) (hbad : BadStream env fedF) (hpre : (fed ++ seg) <+: fedF)
    {s : Sock} (hin : s.rs = .headers → s.tcp.inbox = seg)
    (h : JInv fed { s with tcp := { s.tcp with inbox := [] } }) :
    JInv (fed ++ seg) (Sock.onReadyRead env Proxy.app s) := by
  obtain ⟨hhp, hup, hhdr, hfin⟩ := h
  simp only at hhp hup hhdr hfin
  rw [onReadyRead_eq]
  by_cases hf : s.rs = .finished
  · rw [if_pos hf]
    have hne : s.rs ≠ .headers := by rw [hf]; simp
    split
    · exact ⟨hhp, hup, fun h => absurd h hne, fun _ => hf⟩
    · exact ⟨hhp, hup, fun h => absurd h hne, fun _ => hf⟩
  · rw [if_neg hf]
    have hrs : s.rs = .headers := by
      cases h' : s.rs with
      | headers => rfl
      | data => exact absurd (hfin (by rw [h']; simp)) hf
      | finished => exact absurd h' hf
    obtain ⟨ha, g1, g2, _, gdev, gdel⟩ := hhdr hrs
    have hpl : pullS s = { s with readBuffer := s.readBuffer ++ seg, tcp := { s.tcp with inbox := [] } } := by
      unfold pullS; rw [if_pos gdev, hin hrs]
    rw [hpl, orrBody_headers _ _ _ (by exact hrs)]
    cases hbk : breakOn CRLF2 (s.readBuffer ++ seg) with
    | none =>
      rw [readHeaders_none _ _ _ (by exact hbk)]
      simp only [Bool.not_false, if_true]
      exact ⟨hhp, hup, fun _ => ⟨ha, by show s.readBuffer ++ seg = fed ++ seg; rw [g1], g2, rfl, gdev, gdel⟩,
        fun h => absurd hrs h⟩
    | some pr =>
      obtain ⟨h', rest⟩ := pr
      have hbuf : s.readBuffer ++ seg = fed ++ seg := by rw [g1]
      obtain ⟨t, _, ht⟩ := C02L.breakOn_prefix CRLF2 (fed ++ seg) fedF h' rest hpre (by rw [← hbuf]; exact hbk)
      have hexp := hbad h' (rest ++ t) ht
      have hb' : Parser.parseRequestHeaders h'
            ({ s with readBuffer := s.readBuffer ++ seg, tcp := { s.tcp with inbox := [] } } : Sock).reqHeaders = none ∨
          ∃ rh, Parser.parseRequestHeaders h'
            ({ s with readBuffer := s.readBuffer ++ seg, tcp := { s.tcp with inbox := [] } } : Sock).reqHeaders = some rh ∧
            env.url rh.rawPath = none := by
        show Parser.parseRequestHeaders h' s.reqHeaders = none ∨ _
        rw [g2]; exact expect_none hexp
      rw [readHeaders_bad env Proxy.app _ h' rest (by exact hbk) hb']
      simp only [Bool.not_false, if_true]
      generalize hx : ({ s with readBuffer := s.readBuffer ++ seg, tcp := { s.tcp with inbox := [] } } : Sock) = x
      have x1 : Obs.countP Obs.isHp x.log = 0 := by rw [← hx]; exact hhp
      have x2 : upBytes x.log = [] := by rw [← hx]; exact hup
      obtain ⟨w1, _, w3⟩ := writeError_q env x 400 none
      have wg := writeError_grow env x 400 none
      split
      · obtain ⟨d1, _, d3⟩ := emitDc_app env (Sock.writeError env x 400 none)
        have hne : (Sock.emitDc env Proxy.app (Sock.writeError env x 400 none)).rs ≠ .headers := by rw [d1, w3]; simp
        exact ⟨by rw [d3, w1.countHp, x1], by rw [(wg.trans (emitDc_grow env _)).upBytes, x2],
          fun h => absurd h hne, fun _ => by rw [d1, w3]⟩
      · have hne : (Sock.writeError env x 400 none).rs ≠ .headers := by rw [w3]; simp
        exact ⟨by rw [w1.countHp, x1], by rw [wg.upBytes, x2], fun h => absurd h hne, fun _ => w3⟩

theorem JInv.transfer {fed : Bytes} {s s' : Sock} (h : JInv fed s)
    (e1 : Obs.countP Obs.isHp s'.log = Obs.countP Obs.isHp s.log) (e2 : upBytes s'.log = upBytes s.log)
    (e3 : s'.rs = s.rs) (e4 : s'.rs = .headers → s'.alive = s.alive ∧ s'.readBuffer = s.readBuffer ∧
      s'.reqHeaders = s.reqHeaders ∧ s'.tcp.inbox = [] ∧ s'.tcp.devOpen = s.tcp.devOpen ∧
      s'.delPending = s.delPending) : JInv fed s' := by
  refine ⟨e1.trans h.hp, e2.trans h.up, fun hh => ?_, fun hh => by rw [e3]; exact h.fin (by rw [← e3]; exact hh)⟩
  obtain ⟨a, b, c, d, f, g⟩ := e4 hh
  obtain ⟨a', b', c', _, f', g'⟩ := h.hdr (e3.symm.trans hh)
  exact ⟨a.trans a', b.trans b', c.trans c', d, f.trans f', g.trans g'⟩

theorem JInv.snoc {fed : Bytes} {s : Sock} (h : JInv fed s) (o : Obs) (h1 : Obs.isHp o = false)
    (h2 : upBytes [o] = []) : JInv fed { s with log := s.log ++ [o] } :=
  h.transfer (by show Obs.countP Obs.isHp (s.log ++ [o]) = _; rw [countP_append]; simp [Obs.countP, h1])
    (by show upBytes (s.log ++ [o]) = _; rw [upBytes_append, h2, List.append_nil]) rfl
    (fun hh => ⟨rfl, rfl, rfl, (h.hdr hh).2.2.2.1, rfl, rfl⟩)

/-- one socket event of the relay shape -/
theorem stepK_bad (env : Env) (fedF fed : Bytes) (hbad : BadStream env fedF)
    (e : Event) (k : Nat) (he : relaySockEvent e = true) (hpre : (fed ++ evBytesOf e) <+: fedF)
    {s : Sock} (h : JInv fed s) :
    JInv (fed ++ evBytesOf e) (Sock.stepK env Proxy.app (s, k) e).1 := by
  unfold Sock.stepK
  simp only []
  by_cases ha : s.alive = true
  · rw [if_neg (by simp [ha])]
    have h1 := h.snoc (Obs.ev k) rfl rfl
    unfold Sock.step
    rw [if_neg (by simp [ha])]
    cases e with
    | prebuf b => simp [relaySockEvent] at he
    | ack n => simp [relaySockEvent] at he
    | ackAll => simp [relaySockEvent] at he
    | peerClose => simp [relaySockEvent] at he
    | api op => simp [relaySockEvent] at he
    | new =>
      simp only [evBytesOf, List.append_nil]
      exact h1.transfer rfl rfl rfl (fun hh => ⟨rfl, rfl, rfl, (h1.hdr hh).2.2.2.1, rfl, rfl⟩)
    | feed seg =>
      simp only [evBytesOf] at hpre ⊢
      apply orr_bad env fedF fed seg hbad hpre
      · intro hh
        show s.tcp.inbox ++ seg = seg
        rw [(h.hdr hh).2.2.2.1]; rfl
      · exact h1.transfer rfl rfl rfl (fun hh => ⟨rfl, rfl, rfl, rfl, rfl, rfl⟩)
    | turn =>
      simp only [evBytesOf, List.append_nil] at hpre ⊢
      have hdelP : ∀ r : Sock, JInv fed r →
          JInv fed (if r.delPending then { r with alive := false, delPending := false, log := r.log ++ [Obs.del] } else r) := by
        intro r hr
        split
        · rename_i hd
          have hne : r.rs ≠ .headers := fun hh => by
            have := (hr.hdr hh).2.2.2.2.2
            rw [this] at hd; cases hd
          exact ⟨by show Obs.countP Obs.isHp (r.log ++ [Obs.del]) = 0; rw [countP_append, hr.hp]; rfl,
            by show upBytes (r.log ++ [Obs.del]) = []; rw [upBytes_append, hr.up]; rfl,
            fun hh => absurd hh hne, fun _ => hr.fin hne⟩
        · exact hr
      by_cases hip : s.initPending = true
      · have hip' : ({ s with log := s.log ++ [Obs.ev k] } : Sock).initPending = true := hip
        rw [if_pos hip']
        apply hdelP
        have := orr_bad env fedF fed [] hbad (by simpa using hpre)
          (s := { ({ s with log := s.log ++ [Obs.ev k] } : Sock) with initPending := false })
          (fun hh => (h.hdr hh).2.2.2.1)
          (h1.transfer rfl rfl rfl (fun hh => ⟨rfl, rfl, rfl, rfl, rfl, rfl⟩))
        rw [List.append_nil] at this
        exact this
      · have hip' : ¬ ({ s with log := s.log ++ [Obs.ev k] } : Sock).initPending = true := hip
        rw [if_neg hip']
        exact hdelP _ h1
  · have ha' : s.alive = false := by simpa using ha
    rw [if_pos (by simp [ha'])]
    unfold Sock.step
    rw [if_pos (by simp [ha'])]
    exact ⟨h.hp, h.up, fun hh => (by have := (h.hdr hh).1; rw [ha'] at this; cases this), h.fin⟩

theorem JInv.del {fed : Bytes} {r : Sock} (hr : JInv fed r) :
    JInv fed (if r.delPending then { r with alive := false, delPending := false, log := r.log ++ [Obs.del] } else r) := by
  split
  · rename_i hd
    have hne : r.rs ≠ .headers := fun hh => by
      have := (hr.hdr hh).2.2.2.2.2
      rw [this] at hd; cases hd
    exact ⟨by show Obs.countP Obs.isHp (r.log ++ [Obs.del]) = 0; rw [countP_append, hr.hp]; rfl,
      by show upBytes (r.log ++ [Obs.del]) = []; rw [upBytes_append, hr.up]; rfl,
      fun hh => absurd hh hne, fun _ => hr.fin hne⟩
  · exact hr

/-- the socket part of `Proxy.turn` (before the deferred deletion) -/
theorem turnSock_bad (env : Env) (fedF fed : Bytes) (hbad : BadStream env fedF) (hpre : fed <+: fedF)
    (k : Nat) {s : Sock} (h : JInv fed s) : JInv fed (turnSock env s k) := by
  have h1 := h.snoc (Obs.ev k) rfl rfl
  unfold turnSock
  simp only []
  by_cases hip : s.initPending = true
  · rw [if_pos hip]
    have := orr_bad env fedF fed [] hbad (by simpa using hpre)
      (s := { ({ s with log := s.log ++ [Obs.ev k] } : Sock) with initPending := false })
      (fun hh => (h.hdr hh).2.2.2.1)
      (h1.transfer rfl rfl rfl (fun hh => ⟨rfl, rfl, rfl, rfl, rfl, rfl⟩))
    rw [List.append_nil] at this
    exact this
  · rw [if_neg hip]; exact h1

/-! ### the proxy never routes such a stream -/

structure WInv (fed : Bytes) (st : St) : Prop where
  sock : JInv fed st.sock
  conn : st.conn = .none
  toUp : st.toUp = []

theorem routed_none (hpB : Nat) (st : St) (s1 : Sock) (hc : st.conn = .none)
    (hhp : ¬ Obs.countP Obs.isHp s1.log > hpB) :
    (routed hpB st s1).sock = s1 ∧ (routed hpB st s1).conn = .none ∧ (routed hpB st s1).toUp = st.toUp := by
  obtain ⟨sock, conn, buf, hw, hpd, upRead, toUp, fromUp, upClosing, errored, seenRd⟩ := st
  simp only at hc
  subst hc
  simp [routed, relayReads, afterRoute, hhp]

theorem pstep_bad (env : Env) (c : Cfg) (fedF fed : Bytes) (hbad : BadStream env fedF)
    (e : PEv) (he : relayPEv e = true) (hpre : (fed ++ evBytesOf (proj e)) <+: fedF)
    {st : St} (h : WInv fed st) : WInv (fed ++ evBytesOf (proj e)) (step env c st e) := by
  obtain ⟨hJ, hcn, htu⟩ := h
  cases e with
  | up b => simp [relayPEv] at he
  | upClose => simp [relayPEv] at he
  | sock ev =>
    show WInv _ (sockEvent env st ev)
    rw [sockEvent_eq]
    have hJ1 := stepK_bad env fedF fed hbad ev (countEv st.sock.log) (relaySock_proj he) hpre hJ
    obtain ⟨r1, r2, r3⟩ := routed_none (Obs.countP Obs.isHp st.sock.log) st
      (Sock.stepK env Proxy.app (st.sock, countEv st.sock.log) ev).1 hcn (by rw [hJ1.hp]; omega)
    exact ⟨by rw [r1]; exact hJ1, r2, by rw [r3]; exact htu⟩
  | turn =>
    show WInv _ (turn env c st)
    have hpre' : fed <+: fedF := by simpa [proj, evBytesOf] using hpre
    have e0 : fed ++ evBytesOf (proj PEv.turn) = fed := by simp [proj, evBytesOf]
    rw [e0, turn_eq0]
    split
    · exact ⟨hJ, hcn, htu⟩
    · have hJ1 := turnSock_bad env fedF fed hbad hpre' (countEv st.sock.log) hJ
      obtain ⟨r1, r2, r3⟩ := routed_none (Obs.countP Obs.isHp st.sock.log) st
        (turnSock env st.sock (countEv st.sock.log)) hcn (by rw [hJ1.hp]; omega)
      generalize routed (Obs.countP Obs.isHp st.sock.log) st (turnSock env st.sock (countEv st.sock.log)) = st1
        at r1 r2 r3
      rw [← r1] at hJ1
      rw [htu] at r3
      obtain ⟨sock, conn, buf, hw, hpd, upRead, toUp, fromUp, upClosing, errored, seenRd⟩ := st1
      simp only at r2 r3 hJ1
      subst r2 r3
      have e1 : delPhase (closePhase env (deliverPhase env (connectFlushR env c
          ⟨sock, .none, buf, hw, hpd, upRead, [], fromUp, upClosing, errored, seenRd⟩))) =
          ⟨if sock.delPending then { sock with alive := false, delPending := false, log := sock.log ++ [Obs.del] } else sock,
            .none, buf, hw, hpd, upRead, [], fromUp, upClosing, errored, seenRd⟩ := by
        simp [delPhase, closePhase, deliverPhase, connectFlushR]
      rw [e1]
      exact ⟨hJ1.del, rfl, rfl⟩

theorem JInv_init : JInv [] ({} : Sock) :=
  ⟨rfl, rfl, fun _ => ⟨rfl, rfl, rfl, rfl, rfl, rfl⟩, fun h => absurd rfl h⟩

/-- **nothing reaches the upstream server** when the stream has no acceptable head, for every run
    `new / feed / turn` in any order -/
theorem run_bad (env : Env) (c : Cfg) (pevs : List PEv) (hbad : BadStream env (fedP pevs))
    (hok : ∀ e ∈ pevs, relayPEv e = true) :
    upBytes (Proxy.run env c pevs).sock.log = [] := by
  have key : ∀ (mid pre post : List PEv) (st : St), pevs = pre ++ mid ++ post →
      (∀ e ∈ mid, relayPEv e = true) → WInv (fedP pre) st →
      WInv (fedP (pre ++ mid)) (mid.foldl (step env c) st) := by
    intro mid
    induction mid with
    | nil => intro pre post st _ _ h; simpa using h
    | cons e mid ih =>
      intro pre post st hevs hok' h
      have hpre : (fedP pre ++ evBytesOf (proj e)) <+: fedP pevs := by
        rw [hevs]
        have : pre ++ e :: mid ++ post = (pre ++ [e]) ++ (mid ++ post) := by simp
        rw [this, fedP_append, fedP_append, fedP_single]
        exact List.prefix_append _ _
      have h1 := pstep_bad env c (fedP pevs) (fedP pre) hbad e (hok' e (by simp)) hpre h
      rw [List.foldl_cons]
      have := ih (pre ++ [e]) post (step env c st e) (by rw [hevs]; simp)
        (fun e' he' => hok' e' (by simp [he'])) (by rw [fedP_append, fedP_single]; exact h1)
      simpa using this
  have := key pevs [] [] {} (by simp) hok (by simpa [fedP, fed_eq] using (⟨JInv_init, rfl, rfl⟩ : WInv [] ({} : St)))
  have h2 : WInv (fedP pevs) (Proxy.run env c pevs) := by simpa [Proxy.run] using this
  exact h2.sock.up

end Qhttp.ProxyL
