import Qhttp.Lemmas.FsStack
/-
  C07 helper lemmas, part 3: `cleanPath`, `storedRoot`, `absoluteFilePath`, `relativeFilePath`
  in terms of segment lists; the containment argument.
-/
namespace Qhttp
namespace Fs

/-- document roots covered by the theorems: absolute spellings without a `..` segment.  Empty
    segments (repeated or trailing slashes) and `.` segments are allowed: `storedRoot` and
    `cleanPath` normalise them. -/
def CleanAbs (root : Bytes) : Bool := isAbs root && (segs root).all (· != DOTDOT)

/-- the strict class: `/`, or `/name/name/…/name` -/
def StrictCleanAbs (root : Bytes) : Bool :=
  isAbs root && (root == [SLASH] || (segs root).tail.all isName)

/-- the location of the document root: its names -/
def locOf (root : Bytes) : List Bytes := (segs root).filter isName

theorem isAbs_iff {p : Bytes} : isAbs p = true ↔ ∃ xs, p = 47 :: xs := by
  unfold isAbs
  cases p with
  | nil => simp
  | cons c xs =>
    simp only [List.head?_cons, SLASH, beq_iff_eq, Option.some.injEq, List.cons.injEq]
    constructor
    · rintro rfl; exact ⟨xs, rfl, rfl⟩
    · rintro ⟨_, h, _⟩; exact h

theorem strict_cleanAbs {root : Bytes} (h : StrictCleanAbs root = true) : CleanAbs root = true := by
  unfold StrictCleanAbs at h
  unfold CleanAbs
  simp only [Bool.and_eq_true, Bool.or_eq_true] at h ⊢
  refine ⟨h.1, ?_⟩
  obtain ⟨xs, rfl⟩ := isAbs_iff.1 h.1
  rw [segs_cons_slash]
  rcases h.2 with h2 | h2
  · have : xs = [] := by simpa [SLASH] using h2
    subst this; decide
  · rw [segs_cons_slash, List.tail_cons] at h2
    rw [List.all_cons]
    simp only [Bool.and_eq_true]
    refine ⟨by decide, ?_⟩
    rw [List.all_eq_true] at h2 ⊢
    intro s hs
    have := (isName_iff.1 (h2 s hs)).2.2
    simpa using this

/-- for the strict class the location is just the list of non-empty segments -/
theorem locOf_strict {root : Bytes} (h : StrictCleanAbs root = true) :
    locOf root = (segs root).filter (fun s => !s.isEmpty) := by
  unfold StrictCleanAbs at h
  simp only [Bool.and_eq_true, Bool.or_eq_true] at h
  obtain ⟨xs, rfl⟩ := isAbs_iff.1 h.1
  unfold locOf
  rcases h.2 with h2 | h2
  · have : xs = [] := by simpa [SLASH] using h2
    subst this; decide
  · rw [segs_cons_slash, List.tail_cons, List.all_eq_true] at h2
    rw [segs_cons_slash]
    have e1 : isName ([] : Bytes) = false := by decide
    rw [List.filter_cons_of_neg (by simp [e1]), List.filter_cons_of_neg (by simp)]
    apply List.filter_congr
    intro s hs
    have := h2 s hs
    rw [this]
    have := (isName_iff.1 this).1
    cases s with
    | nil => exact absurd rfl this
    | cons c s => rfl

theorem cleanAbs_no_dd {root : Bytes} (h : CleanAbs root = true) : ∀ s ∈ segs root, s ≠ DOTDOT := by
  unfold CleanAbs at h
  simp only [Bool.and_eq_true, List.all_eq_true] at h
  intro s hs
  simpa using h.2 s hs

theorem locOf_isName (root : Bytes) : ∀ s ∈ locOf root, isName s = true := by
  intro s hs
  exact (List.mem_filter.1 hs).2

theorem locOf_no_slash (root : Bytes) : ∀ s ∈ locOf root, (47 : UInt8) ∉ s := by
  intro s hs
  exact segs_no_slash root s (List.mem_filter.1 hs).1

/-! ### storedRoot -/

theorem dropLast_append_of_getLast? {α} {l : List α} {a : α} (h : l.getLast? = some a) :
    l.dropLast ++ [a] = l := by
  obtain ⟨ys, rfl⟩ := List.getLast?_eq_some_iff.1 h
  simp

theorem storedRoot_cases (root : Bytes) :
    storedRoot root = root ∨ (root = storedRoot root ++ [47] ∧ storedRoot root ≠ []) := by
  unfold storedRoot
  split
  · rename_i h
    right
    simp only [Bool.and_eq_true, decide_eq_true_eq, beq_iff_eq] at h
    have hne : root ≠ [] := by intro e; subst e; simp at h
    have hl := dropLast_append_of_getLast? (by simpa [SLASH] using h.2 : root.getLast? = some 47)
    refine ⟨hl.symm, ?_⟩
    intro e
    have : root.dropLast.length = 0 := by rw [e]; rfl
    rw [List.length_dropLast] at this
    omega
  · exact .inl rfl

theorem segs_storedRoot (root : Bytes) :
    segs (storedRoot root) = segs root ∨ segs root = segs (storedRoot root) ++ [[]] := by
  rcases storedRoot_cases root with h | ⟨h, _⟩
  · rw [h]; exact .inl rfl
  · right
    conv => lhs; rw [h]
    exact segs_append_single_slash _

theorem locOf_storedRoot (root : Bytes) : locOf (storedRoot root) = locOf root := by
  unfold locOf
  rcases segs_storedRoot root with h | h
  · rw [h]
  · rw [h, List.filter_append]
    simp [show isName ([] : Bytes) = false by decide]

theorem storedRoot_no_dd {root : Bytes} (h : ∀ s ∈ segs root, s ≠ DOTDOT) :
    ∀ s ∈ segs (storedRoot root), s ≠ DOTDOT := by
  intro s hs
  rcases segs_storedRoot root with e | e
  · rw [e] at hs; exact h s hs
  · exact h s (by rw [e]; simp [hs])

theorem storedRoot_isAbs {root : Bytes} (h : isAbs root = true) : isAbs (storedRoot root) = true := by
  rcases storedRoot_cases root with e | ⟨e, hne⟩
  · rw [e]; exact h
  · obtain ⟨xs, hx⟩ := isAbs_iff.1 h
    cases hs : storedRoot root with
    | nil => exact absurd hs hne
    | cons c cs =>
      rw [hs] at e
      rw [hx] at e
      simp only [List.cons_append, List.cons.injEq] at e
      rw [← e.1]; rfl

/-- the lexical location of the stored root is the root's location -/
theorem lexR_storedRoot {root : Bytes} (h : CleanAbs root = true) :
    lexR [] (segs (storedRoot root)) = (locOf root).reverse := by
  rw [lexR_no_dd _ _ (storedRoot_no_dd (cleanAbs_no_dd h)), List.append_nil]
  show (locOf (storedRoot root)).reverse = _
  rw [locOf_storedRoot]

/-! ### absoluteFilePath -/

theorem absoluteFilePath_abs (root : Bytes) {fn : Bytes} (h : isAbs fn = true) :
    absoluteFilePath root fn = fn := by
  unfold absoluteFilePath; rw [if_pos h]

/-- for a relative request path, walking the absolute file path lexically is walking the request
    path from the root's location -/
theorem lexR_absoluteFilePath {root : Bytes} (hr : CleanAbs root = true) {fn : Bytes}
    (h : isAbs fn = false) :
    lexR [] (segs (absoluteFilePath root fn)) = lexR (locOf root).reverse (segs fn) := by
  unfold absoluteFilePath
  rw [if_neg (by simp [h])]
  simp only []
  split
  · rename_i he
    have : fn = [] := by simpa using he
    subst this
    rw [segs_nil, lexR_skip (.inl rfl), lexR_nil, lexR_storedRoot hr]
  · split
    · rename_i hl
      have hl' : (storedRoot root).getLast? = some 47 := by simpa [SLASH] using hl
      have e := dropLast_append_of_getLast? hl'
      have hseg : segs (storedRoot root) = segs (storedRoot root).dropLast ++ [[]] := by
        conv => lhs; rw [← e]
        exact segs_append_single_slash _
      have e2 : storedRoot root ++ fn = (storedRoot root).dropLast ++ 47 :: fn := by
        conv => lhs; rw [← e]
        simp
      rw [e2, segs_append_slash, lexR_append]
      have : lexR [] (segs (storedRoot root).dropLast) = lexR [] (segs (storedRoot root)) := by
        rw [hseg, lexR_append, lexR_skip (.inl rfl), lexR_nil]
      rw [this, lexR_storedRoot hr]
    · have e2 : storedRoot root ++ [SLASH] ++ fn = storedRoot root ++ 47 :: fn := by
        simp [SLASH]
      rw [e2, segs_append_slash, lexR_append, lexR_storedRoot hr]

/-! ### cleanPath -/

theorem cleanPath_nil : cleanPath [] = [] := rfl

theorem cleanPath_abs {p : Bytes} (h : isAbs p = true) :
    cleanPath p = 47 :: joinSegs (normStack [] (segs p)) := by
  obtain ⟨xs, rfl⟩ := isAbs_iff.1 h
  unfold cleanPath
  rw [if_neg (by simp)]
  simp only []
  rw [if_pos h]
  rfl

theorem cleanPath_rel {p : Bytes} (hne : p ≠ []) (h : isAbs p = false) :
    cleanPath p = if (normStack [] (segs p)).isEmpty then DOT else joinSegs (normStack [] (segs p)) := by
  unfold cleanPath
  rw [if_neg (by simpa using hne)]
  simp only []
  rw [if_neg (by simp [h])]

/-- the elements of a cleaned segment list are non-empty and slash-free -/
theorem normStack_segs_elems (p : Bytes) :
    ∀ s ∈ normStack [] (segs p), s ≠ [] ∧ (47 : UInt8) ∉ s := by
  intro s hs
  refine ⟨(NF_ne_nil_of_mem (normStack_nil_NF _) s hs).1, ?_⟩
  rcases normStack_mem [] (segs p) s hs with h | h
  · simp at h
  · exact segs_no_slash p s h

theorem joinSegs_head {l : List Bytes} (h : ∀ s ∈ l, s ≠ [] ∧ (47 : UInt8) ∉ s) :
    isAbs (joinSegs l) = false := by
  cases l with
  | nil => rfl
  | cons x l =>
    have hx := h x (by simp)
    cases x with
    | nil => exact absurd rfl hx.1
    | cons c x =>
      have hc : c ≠ 47 := fun e => hx.2 (by simp [e])
      cases l with
      | nil => rw [joinSegs_single]; simpa [isAbs, SLASH] using hc
      | cons y l => rw [joinSegs_cons _ (by simp)]; simpa [isAbs, SLASH] using hc

/-- the non-empty segments of a join of non-empty slash-free pieces are the pieces -/
theorem nonEmptySegs_joinSegs {l : List Bytes} (h : ∀ s ∈ l, s ≠ [] ∧ (47 : UInt8) ∉ s) :
    (segs (joinSegs l)).filter (fun s => !s.isEmpty) = l := by
  cases l with
  | nil => decide
  | cons x l =>
    rw [segs_joinSegs (by simp) (fun s hs => (h s hs).2)]
    apply List.filter_eq_self.2
    intro s hs
    have := (h s hs).1
    cases s with
    | nil => exact absurd rfl this
    | cons c s => rfl

theorem nonEmptySegs_slash_joinSegs {l : List Bytes} (h : ∀ s ∈ l, s ≠ [] ∧ (47 : UInt8) ∉ s) :
    (segs (47 :: joinSegs l)).filter (fun s => !s.isEmpty) = l := by
  rw [segs_cons_slash, List.filter_cons_of_neg (by simp)]
  exact nonEmptySegs_joinSegs h

theorem cleanPath_rel_isAbs {p : Bytes} (h : isAbs p = false) : isAbs (cleanPath p) = false := by
  by_cases hne : p = []
  · subst hne; rfl
  · rw [cleanPath_rel hne h]
    split
    · decide
    · exact joinSegs_head (normStack_segs_elems p)

/-- the cleaned root: `/` followed by the names of its location -/
theorem cleanPath_storedRoot {root : Bytes} (h : CleanAbs root = true) :
    cleanPath (storedRoot root) = 47 :: joinSegs (locOf root) := by
  have habs : isAbs root = true := by
    unfold CleanAbs at h; simp only [Bool.and_eq_true] at h; exact h.1
  rw [cleanPath_abs (storedRoot_isAbs habs),
    normStack_no_dd _ _ (storedRoot_no_dd (cleanAbs_no_dd h))]
  show 47 :: joinSegs ([] ++ locOf (storedRoot root)) = _
  rw [locOf_storedRoot, List.nil_append]

/-! ### relativeFilePath -/

theorem relativeFilePath_rel (root : Bytes) {fn : Bytes} (h : isAbs fn = false) :
    relativeFilePath root fn = cleanPath fn := by
  unfold relativeFilePath
  simp only []
  rw [if_pos (by simp [cleanPath_rel_isAbs h])]

theorem commonPrefixLen_le (a c : List Bytes) : commonPrefixLen a c ≤ a.length := by
  induction a generalizing c with
  | nil => simp [commonPrefixLen]
  | cons x a ih =>
    cases c with
    | nil => simp [commonPrefixLen]
    | cons y c =>
      simp only [commonPrefixLen]
      split
      · have := ih c; simp; omega
      · simp

theorem prefix_of_commonPrefixLen (a c : List Bytes) (h : commonPrefixLen a c = a.length) :
    a <+: c := by
  induction a generalizing c with
  | nil => exact List.nil_prefix
  | cons x a ih =>
    cases c with
    | nil => simp [commonPrefixLen] at h
    | cons y c =>
      simp only [commonPrefixLen] at h
      split at h
      · rename_i he
        have : x = y := by simpa using he
        subst this
        simp only [List.length_cons, Nat.add_right_cancel_iff] at h
        exact List.prefix_cons_inj x |>.2 (ih c h)
      · simp at h

theorem commonPrefixLen_of_prefix (a c : List Bytes) : commonPrefixLen a (a ++ c) = a.length := by
  induction a with
  | nil => cases c <;> simp [commonPrefixLen]
  | cons x a ih => simp [commonPrefixLen, ih]

theorem startsWith_ups {n : Nat} (hn : 0 < n) (x : Bytes) :
    startsWith DOTDOTSLASH ((List.replicate n (DOTDOT ++ [SLASH])).flatten ++ x) = true := by
  cases n with
  | zero => omega
  | succ n =>
    rw [List.replicate_succ, List.flatten_cons]
    simp [startsWith, DOTDOTSLASH, DOTDOT, SLASH]

/-- `relativeFilePath` of an absolute request path, in terms of segment lists -/
theorem relativeFilePath_abs {root : Bytes} (hr : CleanAbs root = true) {fn : Bytes}
    (h : isAbs fn = true) :
    relativeFilePath root fn =
      let st := normStack [] (segs fn)
      let i := commonPrefixLen (locOf root) st
      let res := (List.replicate ((locOf root).length - i) (DOTDOT ++ [SLASH])).flatten ++
                  joinSegs (st.drop i)
      if res.isEmpty then DOT else res := by
  unfold relativeFilePath
  simp only []
  have hfile : cleanPath fn = 47 :: joinSegs (normStack [] (segs fn)) := cleanPath_abs h
  rw [if_neg (by rw [hfile]; simp [isAbs, SLASH])]
  rw [cleanPath_storedRoot hr, hfile]
  rw [nonEmptySegs_slash_joinSegs (normStack_segs_elems fn),
    nonEmptySegs_slash_joinSegs (fun s hs =>
      ⟨(isName_iff.1 (locOf_isName root s hs)).1, locOf_no_slash root s hs⟩)]

/-- key lemma (c): an absolute request path passes the `../` test only if the root's names are
    a prefix of the cleaned path's segments -/
theorem prefix_of_abs_accepted {root : Bytes} (hr : CleanAbs root = true) {fn : Bytes}
    (h : isAbs fn = true) (hacc : startsWith DOTDOTSLASH (relativeFilePath root fn) = false) :
    locOf root <+: normStack [] (segs fn) := by
  rw [relativeFilePath_abs hr h] at hacc
  simp only [] at hacc
  apply prefix_of_commonPrefixLen
  have hle := commonPrefixLen_le (locOf root) (normStack [] (segs fn))
  by_cases hlt : commonPrefixLen (locOf root) (normStack [] (segs fn)) < (locOf root).length
  · exfalso
    have hs := startsWith_ups (n := (locOf root).length -
      commonPrefixLen (locOf root) (normStack [] (segs fn))) (by omega)
      (joinSegs ((normStack [] (segs fn)).drop (commonPrefixLen (locOf root) (normStack [] (segs fn)))))
    split at hacc
    · rename_i he
      have he' := List.isEmpty_iff.1 he
      rw [he'] at hs
      exact absurd hs (by decide)
    · rw [hs] at hacc; cases hacc
  · omega

/-! ### the relative case: the `../` and `..` tests -/

theorem startsWith_ddslash_of_cons {l : List Bytes} (hl : l ≠ []) :
    startsWith DOTDOTSLASH (joinSegs (DOTDOT :: l)) = true := by
  rw [joinSegs_cons _ hl]
  simp [startsWith, DOTDOTSLASH, DOTDOT]

/-- a relative request path that passes both tests has a cleaned segment list without a leading
    `..` -/
theorem rel_accepted_head {fn : Bytes} (h : isAbs fn = false)
    (h1 : startsWith DOTDOTSLASH (cleanPath fn) = false) (h2 : cleanPath fn ≠ DOTDOT) :
    (normStack [] (segs fn)).head? ≠ some DOTDOT := by
  by_cases hne : fn = []
  · subst hne; decide
  · rw [cleanPath_rel hne h] at h1 h2
    intro hh
    cases hst : normStack [] (segs fn) with
    | nil => rw [hst] at hh; simp at hh
    | cons x l =>
      rw [hst] at hh h1 h2
      have : x = DOTDOT := by simpa using hh
      subst this
      simp only [List.isEmpty_cons, Bool.false_eq_true, if_false] at h1 h2
      cases l with
      | nil => exact h2 rfl
      | cons y l => rw [startsWith_ddslash_of_cons (by simp)] at h1; cases h1

/-! ### `served` -/

theorem served_some_iff (t : Tree) (root path : Bytes) (loc : List Bytes) :
    served t root path = some loc ↔
      resolve t (absoluteFilePath root path) = some loc ∧
      startsWith DOTDOTSLASH (relativeFilePath root path) = false ∧
      relativeFilePath root path ≠ DOTDOT := by
  unfold served
  simp only []
  cases hres : resolve t (absoluteFilePath root path) with
  | none => simp
  | some l =>
    simp only [Option.some.injEq]
    by_cases hc : (startsWith DOTDOTSLASH (relativeFilePath root path) || relativeFilePath root path == DOTDOT) = true
    · rw [if_pos hc]
      simp only [Bool.or_eq_true, beq_iff_eq] at hc
      constructor
      · intro h; cases h
      · rintro ⟨_, h1, h2⟩
        rcases hc with hc | hc
        · rw [hc] at h1; cases h1
        · exact absurd hc h2
    · rw [if_neg hc]
      simp only [Bool.or_eq_true, beq_iff_eq, not_or, Bool.not_eq_true] at hc
      simp only [Option.some.injEq]
      constructor
      · intro h; exact ⟨h, hc.1, hc.2⟩
      · intro h; exact h.1

/-- relative request path: the served location is the root's location followed by the cleaned
    segments of the request path -/
theorem served_rel_eq (t : Tree) {root path : Bytes} (hr : CleanAbs root = true)
    (hp : isAbs path = false) {loc : List Bytes} (h : served t root path = some loc) :
    loc = locOf root ++ normStack [] (segs path) ∧
      (normStack [] (segs path)).head? ≠ some DOTDOT := by
  obtain ⟨hres, h1, h2⟩ := (served_some_iff t root path loc).1 h
  rw [relativeFilePath_rel root hp] at h1 h2
  have hhead := rel_accepted_head hp h1 h2
  refine ⟨?_, hhead⟩
  have := walk_lexR t [] _ loc hres
  rw [this, lexR_absoluteFilePath hr hp]
  have := lexR_of_normStack [] (locOf root).reverse (segs path) (by simp) hhead
  rw [List.nil_append] at this
  rw [this]
  simp

/-- absolute request path: the root's names are a prefix of the cleaned segments, which (unless
    the root is `/`) are the served location -/
theorem served_abs_eq (t : Tree) {root path : Bytes} (hr : CleanAbs root = true)
    (hp : isAbs path = true) {loc : List Bytes} (h : served t root path = some loc) :
    locOf root <+: normStack [] (segs path) ∧ (locOf root ≠ [] → loc = normStack [] (segs path)) := by
  obtain ⟨hres, h1, _⟩ := (served_some_iff t root path loc).1 h
  have hpre := prefix_of_abs_accepted hr hp h1
  refine ⟨hpre, ?_⟩
  intro hne
  rw [absoluteFilePath_abs root hp] at hres
  have hl := walk_lexR t [] _ loc hres
  have hhead : (normStack [] (segs path)).head? ≠ some DOTDOT := by
    obtain ⟨rest, hrest⟩ := hpre
    cases hR : locOf root with
    | nil => exact absurd hR hne
    | cons x xs =>
      rw [← hrest, hR]
      simp only [List.cons_append, List.head?_cons, ne_eq, Option.some.injEq]
      exact (isName_iff.1 (locOf_isName root x (by rw [hR]; simp))).2.2
  have := lexR_of_normStack [] [] (segs path) (by simp) hhead
  rw [hl, List.nil_append] at *
  rw [this]; simp

end Fs
end Qhttp
