import Qhttp.Lemmas.RouteRun
/-
  The responses of the instrumented handlers read back through the strict reader `Http.parse`.
-/
namespace Qhttp.RouteL
open Qhttp Qhttp.Sock Qhttp.Http
set_option linter.unusedSimpArgs false

theorem intText_no_CR {c : Int} (hc : 0 ≤ c) : CR ∉ intText c := by
  rw [HB.intText_of_nonneg hc]
  exact HB.natDigits_not_mem _ (Or.inl (by decide))

/-- the strict reader on a response head followed by a body -/
theorem parse_headOf {c : Int} (hc : 0 ≤ c) {reason : Bytes} (hr : CR ∉ reason) {hs : HeaderMap}
    (hok : ∀ e ∈ hs, EntryOk e) (body : Bytes) :
    Http.parse (headOf c reason hs ++ body) =
      some { start := Http.HTTP10 ++ intText c ++ [SP] ++ reason, headers := hs, body := body } ∧
    Http.statusLine (Http.HTTP10 ++ intText c ++ [SP] ++ reason) = some { code := c.natAbs, reason := reason } := by
  constructor
  · have hs' : CR ∉ Http.HTTP10 ++ intText c ++ [SP] ++ reason := by
      simp only [List.mem_append, not_or]
      refine ⟨⟨⟨by decide, intText_no_CR hc⟩, by decide⟩, hr⟩
    have := parse_render (Http.HTTP10 ++ intText c ++ [SP] ++ reason) hs body hs' hok
    rw [← this]
    simp [headOf, Http.HTTP10, List.append_assoc]
  · exact statusLine_intText hc reason

theorem errHeaders_nil (n : Nat) :
    errHeaders [] n = [(CONTENT_LENGTH, natDigits n), (CONTENT_TYPE, TEXT_HTML)] := by
  have h1 : HeaderMap.keyEq CONTENT_LENGTH CONTENT_TYPE = false := by decide
  have h2 : HeaderMap.keyLt CONTENT_LENGTH CONTENT_TYPE = true := by decide
  simp [errHeaders, HeaderMap.insert, HeaderMap.remove, h1, h2]

theorem errHeaders_xmw (v : Bytes) (n : Nat) :
    errHeaders [(RouteScn.X_MW, v)] n =
      [(CONTENT_LENGTH, natDigits n), (CONTENT_TYPE, TEXT_HTML), (RouteScn.X_MW, v)] := by
  have h1 : HeaderMap.keyEq CONTENT_LENGTH CONTENT_TYPE = false := by decide
  have h2 : HeaderMap.keyLt CONTENT_LENGTH CONTENT_TYPE = true := by decide
  have h3 : HeaderMap.keyEq RouteScn.X_MW CONTENT_LENGTH = false := by decide
  have h4 : HeaderMap.keyEq RouteScn.X_MW CONTENT_TYPE = false := by decide
  have h5 : HeaderMap.keyLt RouteScn.X_MW CONTENT_LENGTH = false := by decide
  have h6 : HeaderMap.keyLt RouteScn.X_MW CONTENT_TYPE = false := by decide
  simp [errHeaders, HeaderMap.insert, HeaderMap.remove, h1, h2, h3, h4, h5, h6]

theorem natDigits_no_CR (n : Nat) : CR ∉ natDigits n := HB.natDigits_not_mem _ (Or.inl (by decide))

theorem entryOk_of {k v : Bytes} (h1 : k ≠ []) (h2 : COLON ∉ k) (h3 : CR ∉ k) (h4 : CR ∉ v) : EntryOk (k, v) :=
  ⟨h1, h2, h3, h4⟩
theorem entryOk_cl (n : Nat) : EntryOk (CONTENT_LENGTH, natDigits n) :=
  entryOk_of (by decide) (by decide) (by decide) (natDigits_no_CR n)
theorem entryOk_ct : EntryOk (CONTENT_TYPE, TEXT_HTML) := entryOk_of (by decide) (by decide) (by decide) (by decide)
theorem entryOk_xmw (n : Nat) : EntryOk (RouteScn.X_MW, natDigits n) :=
  entryOk_of (by decide) (by decide) (by decide) (natDigits_no_CR n)
theorem entryOk_loc {v : Bytes} (h : CR ∉ v) : EntryOk (LOC, v) :=
  entryOk_of (by decide) (by decide) (by decide) h

theorem wire_wObs (b : Bytes) : Obs.wire (wObs b) = b := by
  unfold wObs
  split
  · next h => simp [Obs.wire]; exact (List.isEmpty_iff.1 h)
  · simp [Obs.wire]

theorem wire_append (a b : List Obs) : Obs.wire (a ++ b) = Obs.wire a ++ Obs.wire b := by
  simp [Obs.wire]

theorem wire_mwObs (pre : List (Nat × Bool)) : Obs.wire (pre.map mwObs) = [] := by
  induction pre with
  | nil => rfl
  | cons e l ih => simp only [List.map_cons, Obs.wire, List.flatMap_cons, mwObs] at ih ⊢; simpa using ih

end Qhttp.RouteL
