import Qhttp.Lemmas.C04Inv
/-
  Phase 1 of C04: while only arrival events have happened and no blank line has reached
  `readBuffer` the socket is `Fresh`; the read that completes a malformed head answers 400 and
  takes the socket to `Done (W400 env)`.
-/
namespace Qhttp.C04L
open Qhttp Qhttp.Sock

/-- body of the 400 page -/
def body400 (env : Env) : Bytes := env.errPage 400 (statusReason 400)

theorem headBytes_400 (s : Sock) (d : Bytes) (hc : s.code = 400) (hr : s.reason = statusReason 400)
    (hh : s.respHeaders = [(CONTENT_LENGTH, d), (CONTENT_TYPE, TEXT_HTML)]) :
    headBytes s = head400 d := by
  have e1 : lit ['H','T','T','P','/','1','.','0',' '] ++ intText 400 ++ [SP] ++ statusReason 400
      = START400 := by decide
  unfold headBytes
  rw [hc, hr, hh, e1]
  simp only [headerLines, head400, CRLF2, CRLF, List.append_assoc, List.cons_append,
    List.nil_append, List.append_nil]

theorem headBytes_ne (s : Sock) : (headBytes s).isEmpty = false := by
  simp [headBytes, lit]

theorem respond_log (s : Sock) (body : Bytes)
    (hio : s.ioOpen = true) (hdev : s.tcp.devOpen = true) (hconn : s.tcp.conn = .connected) :
    (close (write (writeHeaders s) body)).tcp.devOpen = false ∧
    (close (write (writeHeaders s) body)).rs = .finished ∧
    (close (write (writeHeaders s) body)).log =
      s.log ++ (Obs.w (headBytes s) :: ((if body.isEmpty then [] else [Obs.w body]) ++ [Obs.tc])) := by
  have hne := headBytes_ne s
  simp only [writeHeaders]
  generalize headBytes s = hb at hne ⊢
  obtain ⟨⟨inbox, wire, unacked, devOpen, conn⟩, readBuffer, qio, rs, method, rawPath, path, query,
    reqHeaders, dataRead, total, ws, code, reason, respHeaders, hdrRemaining, ioOpen, initPending,
    closeCalled, dcFlag, delPending, alive, log⟩ := s
  simp only at hio hdev hconn
  subst hio hdev hconn
  cases hbody : body.isEmpty <;>
    simp [write, close, tcpWrite, tcpClose, hne, hbody] <;> split <;> simp

theorem writeError_400 (env : Env) (s : Sock) (hresp : s.respHeaders = [])
    (hio : s.ioOpen = true) (hdev : s.tcp.devOpen = true) (hconn : s.tcp.conn = .connected) :
    (writeError env s 400 none).tcp.devOpen = false ∧ (writeError env s 400 none).rs = .finished ∧
    (writeError env s 400 none).log =
      s.log ++ (Obs.w (head400 (natDigits (body400 env).length)) ::
        ((if (body400 env).isEmpty then [] else [Obs.w (body400 env)]) ++ [Obs.tc])) := by
  have hk1 : HeaderMap.keyEq CONTENT_LENGTH CONTENT_TYPE = false := by decide
  have hk2 : HeaderMap.keyLt CONTENT_LENGTH CONTENT_TYPE = true := by decide
  let s3 := setHeader (setHeader (setStatusCode s 400 none) CONTENT_LENGTH
    (natDigits (body400 env).length) true) CONTENT_TYPE TEXT_HTML true
  have e : writeError env s 400 none = close (write (writeHeaders s3) (body400 env)) := rfl
  have f1 : s3.code = 400 := by simp [s3, setHeader, setStatusCode]
  have f2 : s3.reason = statusReason 400 := by simp [s3, setHeader, setStatusCode]
  have f3 : s3.respHeaders = [(CONTENT_LENGTH, natDigits (body400 env).length),
      (CONTENT_TYPE, TEXT_HTML)] := by
    simp [s3, setHeader, setStatusCode, hresp, HeaderMap.remove, HeaderMap.insert, hk1, hk2]
  have f4 : s3.ioOpen = s.ioOpen := by simp [s3, setHeader, setStatusCode]
  have f5 : s3.tcp = s.tcp := by simp [s3, setHeader, setStatusCode]
  have f6 : s3.log = s.log := by simp [s3, setHeader, setStatusCode]
  rw [e]
  have := respond_log s3 (body400 env) (by rw [f4]; exact hio) (by rw [f5]; exact hdev)
    (by rw [f5]; exact hconn)
  rw [headBytes_400 s3 _ f1 f2 f3, f6] at this
  exact this

/-- the response to a malformed request, as it appears on the wire -/
def W400 (env : Env) : Bytes := head400 (natDigits (body400 env).length) ++ body400 env

def isEv : Obs → Bool
  | .ev _ => true
  | _ => false

theorem wire_of_allEv : ∀ (l : List Obs), l.all isEv = true → Obs.wire l = [] := by
  intro l
  induction l with
  | nil => intro _; rfl
  | cons o l ih =>
    intro h
    simp only [List.all_cons, Bool.and_eq_true] at h
    cases o <;> simp [isEv] at h
    simp [Obs.wire, List.flatMap_cons] at ih ⊢
    exact ih h

theorem preObs_of_allEv (l : List Obs) (h : l.all isEv = true) : l.all preObs = true := by
  rw [List.all_eq_true] at h ⊢
  intro o ho
  have := h o ho
  cases o <;> simp [isEv] at this
  rfl

/-- phase 1 -/
structure Fresh (s : Sock) : Prop where
  alive : s.alive = true
  rs : s.rs = .headers
  reqH : s.reqHeaders = []
  respH : s.respHeaders = []
  ioOpen : s.ioOpen = true
  devOpen : s.tcp.devOpen = true
  conn : s.tcp.conn = .connected
  delP : s.delPending = false
  log : s.log.all isEv = true
  nobrk : breakOn CRLF2 s.readBuffer = none

/-- the head is not acceptable (`C01.expect env head = none`) -/
def BadHead (env : Env) (head : Bytes) : Prop :=
  ∀ rh, Parser.parseRequestHeaders head [] = some rh → env.url rh.rawPath = none

theorem readHeaders_none (env : Env) (app : App) (s : Sock)
    (h : breakOn CRLF2 s.readBuffer = none) : readHeaders env app s = (s, false) := by
  unfold Sock.readHeaders; rw [h]

theorem readHeaders_bad (env : Env) (app : App) (s : Sock) (head rest : Bytes)
    (hreq : s.reqHeaders = []) (h : breakOn CRLF2 s.readBuffer = some (head, rest))
    (hbad : BadHead env head) :
    readHeaders env app s =
      (if (writeError env s 400 none).dcFlag = true then emitDc env app (writeError env s 400 none)
       else writeError env s 400 none, false) := by
  unfold Sock.readHeaders
  rw [h, hreq]
  simp only
  cases hp : Parser.parseRequestHeaders head [] with
  | none => rfl
  | some rh => simp only [hbad rh hp]

/-- the 400 written on a fresh socket takes it to phase 2 -/
theorem writeError_done (env : Env) (s : Sock) (hresp : s.respHeaders = [])
    (hio : s.ioOpen = true) (hdev : s.tcp.devOpen = true) (hconn : s.tcp.conn = .connected)
    (hlog : s.log.all isEv = true) :
    Done (W400 env) (writeError env s 400 none) := by
  obtain ⟨h1, h2, h3⟩ := writeError_400 env s hresp hio hdev hconn
  refine ⟨h1, h2, ?_⟩
  rw [h3]
  refine ⟨s.log ++ (Obs.w (head400 (natDigits (body400 env).length)) ::
    (if (body400 env).isEmpty then [] else [Obs.w (body400 env)])), [], by simp, ?_, ?_, rfl⟩
  · rw [List.all_append, preObs_of_allEv _ hlog]
    split <;> rfl
  · have hw := wire_of_allEv _ hlog
    unfold Obs.wire at hw ⊢
    rw [List.flatMap_append, hw]
    cases hb : (body400 env).isEmpty
    · simp [W400]
    · have : body400 env = [] := by simpa using hb
      simp [W400, this]

/-- `onReadyRead` first moves what the transport holds into `readBuffer` -/
abbrev moved (s : Sock) : Sock :=
  { s with readBuffer := s.readBuffer ++ s.tcp.inbox, tcp := { s.tcp with inbox := [] } }

theorem onReadyRead_headers (env : Env) (app : App) (s : Sock) (hrs : s.rs = .headers)
    (hdev : s.tcp.devOpen = true)
    (hgo : (readHeaders env app (moved s)).2 = false) :
    onReadyRead env app s = (readHeaders env app (moved s)).1 := by
  unfold Sock.onReadyRead
  simp only [moved, hrs, hdev, if_true, reduceCtorEq, if_false] at hgo ⊢
  generalize readHeaders env app _ = p at hgo ⊢
  obtain ⟨x, go⟩ := p
  simp only at hgo
  subst hgo
  simp

/-- the (initial or ordinary) read on a fresh socket -/
theorem Fresh.onReadyRead {s : Sock} (hf : Fresh s) (env : Env) {app : App} (ha : AppQ app)
    (hbad : ∀ h r, breakOn CRLF2 (s.readBuffer ++ s.tcp.inbox) = some (h, r) → BadHead env h) :
    (Fresh (Sock.onReadyRead env app s) ∧
      (Sock.onReadyRead env app s).readBuffer = s.readBuffer ++ s.tcp.inbox ∧
      (Sock.onReadyRead env app s).tcp.inbox = [] ∧
      (Sock.onReadyRead env app s).initPending = s.initPending) ∨
    Done (W400 env) (Sock.onReadyRead env app s) := by
  have hf1 : ∀ (hb : breakOn CRLF2 (s.readBuffer ++ s.tcp.inbox) = none),
      Fresh (moved s) := fun hb =>
    ⟨hf.alive, hf.rs, hf.reqH, hf.respH, hf.ioOpen, hf.devOpen, hf.conn, hf.delP, hf.log, hb⟩
  cases hb : breakOn CRLF2 (s.readBuffer ++ s.tcp.inbox) with
  | none =>
    have hr := readHeaders_none env app (moved s) hb
    rw [onReadyRead_headers env app s hf.rs hf.devOpen (by rw [hr]), hr]
    exact Or.inl ⟨hf1 hb, rfl, rfl, rfl⟩
  | some p =>
    obtain ⟨head, rest⟩ := p
    have hr := readHeaders_bad env app (moved s) head rest hf.reqH hb (hbad head rest hb)
    rw [onReadyRead_headers env app s hf.rs hf.devOpen (by rw [hr]), hr]
    right
    have hd : Done (W400 env) (writeError env (moved s) 400 none) :=
      writeError_done env (moved s) hf.respH hf.ioOpen hf.devOpen hf.conn hf.log
    simp only
    split
    · exact hd.emitDc_ok env ha
    · exact hd

/-- the event marker -/
def marked (sk : Sock × Nat) : Sock := { sk.1 with log := sk.1.log ++ [Obs.ev sk.2] }

@[simp] theorem marked_readBuffer (sk : Sock × Nat) : (marked sk).readBuffer = sk.1.readBuffer := rfl
@[simp] theorem marked_inbox (sk : Sock × Nat) : (marked sk).tcp.inbox = sk.1.tcp.inbox := rfl
@[simp] theorem marked_initPending (sk : Sock × Nat) :
    (marked sk).initPending = sk.1.initPending := rfl

theorem Fresh.marked {sk : Sock × Nat} (hf : Fresh sk.1) : Fresh (marked sk) :=
  ⟨hf.alive, hf.rs, hf.reqH, hf.respH, hf.ioOpen, hf.devOpen, hf.conn, hf.delP,
    by simp [C04L.marked, hf.log, isEv], hf.nobrk⟩

theorem stepK_alive (env : Env) (app : App) (sk : Sock × Nat) (e : Event)
    (h : sk.1.alive = true) : (stepK env app sk e).1 = step env app (marked sk) e := by
  have hna : (!sk.1.alive) = false := by rw [h]; rfl
  simp only [stepK, hna, Bool.false_eq_true, if_false]
  rfl

theorem Fresh.step_prebuf {s : Sock} (hf : Fresh s) (env : Env) (app : App) (bs : Bytes) :
    Fresh (step env app s (.prebuf bs)) ∧
    (step env app s (.prebuf bs)).readBuffer = s.readBuffer ∧
    (step env app s (.prebuf bs)).tcp.inbox = s.tcp.inbox ++ bs ∧
    (step env app s (.prebuf bs)).initPending = s.initPending := by
  have hna : (!s.alive) = false := by rw [hf.alive]; rfl
  simp only [step, hna, Bool.false_eq_true, if_false]
  refine ⟨⟨hf.alive, hf.rs, hf.reqH, hf.respH, hf.ioOpen, hf.devOpen, hf.conn, hf.delP, hf.log,
    hf.nobrk⟩, ?_, ?_, ?_⟩ <;> first | rfl | trivial

theorem Fresh.step_new {s : Sock} (hf : Fresh s) (env : Env) (app : App) :
    Fresh (step env app s .new) ∧
    (step env app s .new).readBuffer = s.readBuffer ∧
    (step env app s .new).tcp.inbox = s.tcp.inbox ∧
    (step env app s .new).initPending = true := by
  have hna : (!s.alive) = false := by rw [hf.alive]; rfl
  simp only [step, hna, Bool.false_eq_true, if_false]
  refine ⟨⟨hf.alive, hf.rs, hf.reqH, hf.respH, hf.ioOpen, hf.devOpen, hf.conn, hf.delP, hf.log,
    hf.nobrk⟩, ?_, ?_, ?_⟩ <;> first | rfl | trivial

theorem Fresh.step_feed {s : Sock} (hf : Fresh s) (env : Env) {app : App}
    (ha : AppQ app) (seg : Bytes)
    (hbad : ∀ h r, breakOn CRLF2 (s.readBuffer ++ (s.tcp.inbox ++ seg)) = some (h, r) →
      BadHead env h) :
    (Fresh (step env app s (.feed seg)) ∧
      (step env app s (.feed seg)).readBuffer = s.readBuffer ++ (s.tcp.inbox ++ seg) ∧
      (step env app s (.feed seg)).tcp.inbox = [] ∧
      (step env app s (.feed seg)).initPending = s.initPending) ∨
    Done (W400 env) (step env app s (.feed seg)) := by
  have hna : (!s.alive) = false := by rw [hf.alive]; rfl
  simp only [step, hna, Bool.false_eq_true, if_false]
  have hm' : Fresh { s with tcp := { s.tcp with inbox := s.tcp.inbox ++ seg } } :=
    ⟨hf.alive, hf.rs, hf.reqH, hf.respH, hf.ioOpen, hf.devOpen, hf.conn, hf.delP, hf.log, hf.nobrk⟩
  exact hm'.onReadyRead env ha hbad

theorem Fresh.step_turn {s : Sock} (hf : Fresh s) (env : Env) {app : App}
    (ha : AppQ app)
    (hbad : ∀ h r, breakOn CRLF2 (s.readBuffer ++ s.tcp.inbox) = some (h, r) → BadHead env h) :
    (Fresh (step env app s .turn) ∧
      (step env app s .turn).initPending = false ∧
      (if s.initPending = true then
        (step env app s .turn).readBuffer = s.readBuffer ++ s.tcp.inbox ∧
        (step env app s .turn).tcp.inbox = []
       else
        (step env app s .turn).readBuffer = s.readBuffer ∧
        (step env app s .turn).tcp.inbox = s.tcp.inbox)) ∨
    Done (W400 env) (step env app s .turn) := by
  have hna : (!s.alive) = false := by rw [hf.alive]; rfl
  simp only [step, hna, Bool.false_eq_true, if_false]
  cases hq : s.initPending with
  | false =>
    simp only [Bool.false_eq_true, if_false, hf.delP]
    refine Or.inl ⟨hf, hq, ?_, ?_⟩ <;> first | rfl | trivial
  | true =>
    simp only [if_true]
    have hm' : Fresh { s with initPending := false } :=
      ⟨hf.alive, hf.rs, hf.reqH, hf.respH, hf.ioOpen, hf.devOpen, hf.conn, hf.delP, hf.log, hf.nobrk⟩
    rcases hm'.onReadyRead env ha hbad with ⟨h1, h2, h3, h4⟩ | hd
    · left
      simp only [h1.delP, Bool.false_eq_true, if_false]
      exact ⟨h1, h4, h2, h3⟩
    · right
      exact done_turn_tail hd

end Qhttp.C04L
