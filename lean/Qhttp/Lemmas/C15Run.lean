import Qhttp.Lemmas.C15Phase
/-
  C15 — the invariant `SInv` of a run of the slot application, its preservation by
  `onReadyRead`, by each event of the scenario shape and by whole runs.
-/
namespace Qhttp.C15L
open Qhttp SlotHandler

/-- the invariant between two external events, against `fed` = all bytes delivered so far
    (`inb`: bytes in the transport not yet pulled by `onReadyRead`; `c`: still connected) -/
inductive SInv (env : Env) (regs : List Reg) (path : QStr) (c : Bool) (fed inb : Bytes) (s : Sock) : Prop
  | hdr (h : PH c fed inb s) (hb : breakOn CRLF2 fed = none)
  | rej (head rest : Bytes) (hb : breakOn CRLF2 fed = some (head, rest))
      (he : C01.expect env head = none) (hq : Quiet s) (hs : slotsL s.log = [])
  | unknown (head rest : Bytes) (f : Snap) (hb : breakOn CRLF2 fed = some (head, rest))
      (he : C01.expect env head = some f) (hl : lookup regs path = none)
      (hq : Quiet s) (hs : slotsL s.log = []) (hw : Obs.wire s.log = errWire env 404)
  | failed (head rest : Bytes) (f : Snap) (m : Reg) (hb : breakOn CRLF2 fed = some (head, rest))
      (he : C01.expect env head = some f) (hl : lookup regs path = some m) (hg : m.good = false)
      (hq : Quiet s) (hs : slotsL s.log = []) (hw : Obs.wire s.log = errWire env 500)
  | invoked (head rest : Bytes) (f : Snap) (m : Reg) (a : Nat) (hb : breakOn CRLF2 fed = some (head, rest))
      (he : C01.expect env head = some f) (hl : lookup regs path = some m) (hg : m.good = true)
      (hq : Quiet s) (hs : slotsL s.log = [(m.idx, a)])
      (ha : m.readAll = true → f.total ≤ (a : Int))
      (hc : m.readAll = false → ∃ l1 l2, s.log = l1 ++ Obs.hp :: Obs.slot m.idx a :: l2)
  | deferred (head rest : Bytes) (f : Snap) (m : Reg) (hb : breakOn CRLF2 fed = some (head, rest))
      (he : C01.expect env head = some f) (hl : lookup regs path = some m) (hra : m.readAll = true)
      (hN : 0 ≤ f.total) (h : P2 c f.total.toNat rest inb s)

section
variable {env : Env} {regs : List Reg} {path : QStr}

/-- in the quiet phases every further step only appends passive observations -/
theorem SInv.fr {c : Bool} {fed inb : Bytes} {s s' : Sock} (h : SInv env regs path c fed inb s)
    (hq : Quiet s) (f : Fr s s') (seg : Bytes) (c' : Bool) (inb' : Bytes) :
    SInv env regs path c' (fed ++ seg) inb' s' := by
  cases h with
  | hdr h _ => exact absurd h.rs hq.1
  | rej head rest hb he _ hs =>
    exact .rej head (rest ++ seg) (C02L.breakOn_append _ _ _ _ _ hb) he (hq.fr f) (by rw [f.slots]; exact hs)
  | unknown head rest f' hb he hl _ hs hw =>
    exact .unknown head (rest ++ seg) f' (C02L.breakOn_append _ _ _ _ _ hb) he hl (hq.fr f)
      (by rw [f.slots]; exact hs) (by rw [f.wire]; exact hw)
  | failed head rest f' m hb he hl hg _ hs hw =>
    exact .failed head (rest ++ seg) f' m (C02L.breakOn_append _ _ _ _ _ hb) he hl hg
      (hq.fr f)
      (by rw [f.slots]; exact hs) (by rw [f.wire]; exact hw)
  | invoked head rest f' m a hb he hl hg _ hs ha hc =>
    refine .invoked head (rest ++ seg) f' m a (C02L.breakOn_append _ _ _ _ _ hb) he hl hg (hq.fr f)
      (by rw [f.slots]; exact hs) ha ?_
    intro hr
    obtain ⟨l1, l2, e⟩ := hc hr
    obtain ⟨_, _, l, el, _⟩ := f
    exact ⟨l1, l2 ++ l, by rw [el, e]; simp⟩
  | deferred head rest f' m hb he hl hra hN h => exact absurd hq.2 h.opn.not_silent


theorem PH.pull {c : Bool} {B inb : Bytes} {s : Sock} (h : PH c B inb s) :
    PH c (B ++ inb) [] (C02.pullS s) := by
  unfold C02.pullS
  rw [if_pos h.opn.devOpen]
  exact ⟨h.opn.same rfl rfl rfl, h.rs, by show s.readBuffer ++ s.tcp.inbox = _; rw [h.buf, h.inbox], rfl,
    h.reqH, h.qio, h.dataRead, h.total, h.noHp⟩

/-- what `onReadyRead` does after `readHeaders` reported success -/
def afterHp (env : Env) (app : App) (r : Sock) : Sock :=
  match r.rs with
  | .data => Sock.readDataSlot env app r
  | .finished => { r with readBuffer := [] }
  | .headers => r

theorem afterHp_data (env : Env) (app : App) (r : Sock) (h : r.rs = .data) :
    afterHp env app r = Sock.readDataSlot env app r := by
  unfold afterHp; split <;> simp_all

theorem afterHp_fin (env : Env) (app : App) (r : Sock) (h : r.rs = .finished) :
    afterHp env app r = { r with readBuffer := [] } := by
  unfold afterHp; split <;> simp_all

variable (env regs path)

/-- no blank line yet: nothing happens -/
theorem orr_PH_none {c : Bool} {fed seg : Bytes} {s : Sock} (h : PH c fed seg s)
    (hb : breakOn CRLF2 (fed ++ seg) = none) :
    PH c (fed ++ seg) [] (Sock.onReadyRead env (app regs path) s) := by
  rw [C02.onReadyRead_eq, if_neg (by rw [h.rs]; simp)]
  have h1 := h.pull
  rw [C02.orrBody_headers_none _ _ _ h1.rs (by rw [h1.buf]; exact hb)]
  exact h1

theorem cutBuf_short {t : Int} {rest : Bytes} (h : ((cutBuf t rest).length : Int) < t) :
    cutBuf t rest = rest ∧ (rest.length : Int) < t := by
  unfold cutBuf at h ⊢
  split
  · rename_i hc
    rw [if_pos hc] at h
    simp at hc h
    omega
  · rename_i hc
    rw [if_neg hc] at h
    exact ⟨rfl, h⟩

/-- the blank line arrives: the head is judged and, if accepted, routed -/
theorem orr_PH_some {fed seg head rest : Bytes} {s : Sock} (h : PH true fed seg s)
    (hb : breakOn CRLF2 (fed ++ seg) = some (head, rest)) :
    SInv env regs path true (fed ++ seg) [] (Sock.onReadyRead env (app regs path) s) := by
  rw [C02.onReadyRead_eq, if_neg (by rw [h.rs]; simp)]
  have h1 := h.pull
  generalize C02.pullS s = s1 at h1
  have hb1 : breakOn CRLF2 s1.readBuffer = some (head, rest) := by rw [h1.buf]; exact hb
  unfold C02.orrBody
  simp only [h1.rs, if_true]
  cases he : C01.expect env head with
  | none =>
    rw [readHeaders_rej env _ s1 head rest h1.reqH hb1 he]
    obtain ⟨_, g2, g3, _, _, g6⟩ :=
      C09L.writeError_state env s1 400 h1.opn.ioOpen h1.opn.devOpen (h1.opn.conn rfl)
    rw [h1.opn.dcFlag] at g3
    simp only [g3, Bool.false_eq_true, if_false, Bool.not_false, if_true]
    refine .rej head rest hb he ⟨by rw [g2]; simp, Or.inr (by rw [writeError_ws]; simp)⟩ ?_
    rw [g6, slotsL_append, h1.opn.slots]
    cases (C09L.errBody env 400).isEmpty <;> rfl
  | some f =>
    obtain ⟨mm, rp, p, hd, q, hr⟩ := readHeaders_acc env (app regs path) s1 head rest f h1.reqH h1.total hb1 he
    rw [hr]
    simp only [Bool.not_true, Bool.false_eq_true, if_false]
    -- the state in which `headersParsed` is emitted
    have o : Opn true (hpS s1 mm rp p hd q (cutBuf f.total rest) f.total) := h1.opn.same rfl rfl rfl
    have hav : Sock.bytesAvailable (hpS s1 mm rp p hd q (cutBuf f.total rest) f.total) =
        (cutBuf f.total rest).length := by
      rw [bytesAvailable_data _ (by simp [hpS])]
      show (cutBuf f.total rest).length + s1.qio.length = _
      rw [h1.qio]; rfl
    have hrs : (hpS s1 mm rp p hd q (cutBuf f.total rest) f.total).rs = .data := rfl
    have hbuf : (hpS s1 mm rp p hd q (cutBuf f.total rest) f.total).readBuffer = cutBuf f.total rest := rfl
    have hq0 : (hpS s1 mm rp p hd q (cutBuf f.total rest) f.total).qio = [] := h1.qio
    have hd0 : (hpS s1 mm rp p hd q (cutBuf f.total rest) f.total).dataRead = 0 := h1.dataRead
    have ht0 : (hpS s1 mm rp p hd q (cutBuf f.total rest) f.total).total = f.total := rfl
    have hin : (hpS s1 mm rp p hd q (cutBuf f.total rest) f.total).tcp.inbox = [] := h1.inbox
    have hlog : (hpS s1 mm rp p hd q (cutBuf f.total rest) f.total).log = s1.log := rfl
    generalize hpS s1 mm rp p hd q (cutBuf f.total rest) f.total = sH at o hav hrs hbuf hq0 hd0 ht0 hin hlog
    show SInv env regs path true (fed ++ seg) []
      (afterHp env (app regs path) (Sock.emit env (app regs path) sH .hp (onHp regs path sH)))
    cases hl : lookup regs path with
    | none =>
      have e : onHp regs path sH = [.err 404 none] := by unfold onHp; rw [hl]
      rw [e]
      obtain ⟨b1, b2, b3, b4⟩ := emit_err env regs path o .hp rfl rfl 404
      generalize Sock.emit env (app regs path) sH .hp [.err 404 none] = r at b1 b2 b3 b4
      rw [afterHp_fin _ _ _ b1]
      exact .unknown head rest f hb he hl
        ⟨(by rw [b1]; simp : r.rs ≠ .headers), Or.inr (by rw [b2]; simp : r.ws ≠ .none)⟩ b3 b4
    | some m =>
      by_cases hcond : (!m.readAll || decide ((Sock.bytesAvailable sH : Int) ≥ sH.total)) = true
      · have e : onHp regs path sH = invoke m sH := by unfold onHp; rw [hl]; simp only; rw [if_pos hcond]
        rw [e]
        obtain ⟨g, b⟩ := emit_invoke env regs path o .hp rfl rfl m
        cases hg : m.good with
        | true =>
          rw [g hg, hav, afterHp_data _ _ _ (by exact hrs)]
          have hsil : Silent { sH with log := sH.log ++ [Obs.hp] ++ [Obs.slot m.idx (cutBuf f.total rest).length] } := by
            left
            show (sH.log ++ [Obs.hp] ++ [Obs.slot m.idx (cutBuf f.total rest).length]).any isSlot = true
            simp [isSlot]
          have fr := readDataSlot_silent env regs path _ hsil
          have hsl : slotsL (sH.log ++ [Obs.hp] ++ [Obs.slot m.idx (cutBuf f.total rest).length]) =
              [(m.idx, (cutBuf f.total rest).length)] := by
            rw [slotsL_append, slotsL_append, o.slots]; rfl
          refine .invoked head rest f m (cutBuf f.total rest).length hb he hl hg
            (Quiet.fr ⟨by simp [hrs], hsil⟩ fr) (by rw [fr.slots]; exact hsl) ?_ ?_
          · intro hra
            rw [hra, hav, ht0] at hcond
            simpa using hcond
          · intro _
            obtain ⟨_, _, l, el, _⟩ := fr
            exact ⟨sH.log, l, by rw [el]; simp⟩
        | false =>
          obtain ⟨b1, b2, b3, b4⟩ := b hg
          generalize Sock.emit env (app regs path) sH .hp (invoke m sH) = r at b1 b2 b3 b4
          rw [afterHp_fin _ _ _ b1]
          exact .failed head rest f m hb he hl hg
            ⟨(by rw [b1]; simp : r.rs ≠ .headers), Or.inr (by rw [b2]; simp : r.ws ≠ .none)⟩ b3 b4
      · have e : onHp regs path sH = [] := by unfold onHp; rw [hl]; simp only; rw [if_neg hcond]
        rw [e, emit_nil, afterHp_data _ _ _ (by exact hrs)]
        have hra : m.readAll = true := by
          cases hr : m.readAll
          · rw [hr] at hcond; simp at hcond
          · rfl
        have hlt : ((cutBuf f.total rest).length : Int) < f.total := by
          rw [hra, hav, ht0] at hcond
          simpa using hcond
        obtain ⟨hc1, hc2⟩ := cutBuf_short hlt
        have hN : 0 ≤ f.total := by omega
        have hp2 : P2 true f.total.toNat rest [] { sH with log := sH.log ++ [Obs.hp] } :=
          ⟨o.log1 .hp rfl rfl, hrs, by show sH.readBuffer = rest; rw [hbuf, hc1], hin, hq0, hd0,
            by show sH.total = _; rw [ht0]; omega, by omega,
            by show (sH.log ++ [Obs.hp]).any Obs.isHp = true; simp [Obs.isHp]⟩
        exact .deferred head rest f m hb he hl hra hN (hp2.readDataSlot_short env regs path)


/-- the deferred phase, still fewer than `N` body bytes -/
theorem orr_P2_short {c : Bool} {N : Nat} {B seg : Bytes} {s : Sock} (h : P2 c N B seg s)
    (hlt : (B ++ seg).length < N) :
    P2 c N (B ++ seg) [] (Sock.onReadyRead env (app regs path) s) := by
  rw [C02.onReadyRead_eq, if_neg (by rw [h.rs]; simp)]
  have h1 : P2 c N (B ++ seg) [] (C02.pullS s) := by
    unfold C02.pullS
    rw [if_pos h.opn.devOpen]
    exact ⟨h.opn.same rfl rfl rfl, h.rs, by show s.readBuffer ++ s.tcp.inbox = _; rw [h.buf, h.inbox], rfl,
      h.qio, h.dataRead, h.total, hlt, h.hp⟩
  rw [C02.orrBody_data _ _ _ h1.rs]
  exact h1.readDataSlot_short env regs path

/-- the deferred phase, the `N`-th body byte arrives: the pending invocation happens -/
theorem orr_P2_full {N : Nat} {B seg : Bytes} {s : Sock} {m : Reg} (h : P2 true N B seg s)
    (hge : N ≤ (B ++ seg).length) (hl : lookup regs path = some m) (hra : m.readAll = true) :
    Quiet (Sock.onReadyRead env (app regs path) s) ∧
    (m.good = true → slotsL (Sock.onReadyRead env (app regs path) s).log = [(m.idx, N)]) ∧
    (m.good = false → slotsL (Sock.onReadyRead env (app regs path) s).log = [] ∧
      Obs.wire (Sock.onReadyRead env (app regs path) s).log = errWire env 500) := by
  rw [C02.onReadyRead_eq, if_neg (by rw [h.rs]; simp)]
  have hrs1 : (C02.pullS s).rs = .data := by rw [C02.pullS_rs]; exact h.rs
  rw [C02.orrBody_data _ _ _ hrs1]
  unfold C02.pullS
  rw [if_pos h.opn.devOpen]
  exact readDataSlot_full env regs path (h.opn.same rfl rfl rfl) h.rs
    (by show s.readBuffer ++ s.tcp.inbox = B ++ seg; rw [h.buf, h.inbox]) hge h.qio h.dataRead h.total h.hp hl hra

variable {env regs path}

/-- `onReadyRead` with a new segment in the transport -/
theorem SInv.orr_feed {fed seg : Bytes} {s : Sock} (h : SInv env regs path true fed seg s) :
    SInv env regs path true (fed ++ seg) [] (Sock.onReadyRead env (app regs path) s) := by
  by_cases hq : Quiet s
  · exact h.fr hq (onReadyRead_quiet env regs path s hq) seg true []
  · cases h with
    | hdr h hb =>
      cases hb2 : breakOn CRLF2 (fed ++ seg) with
      | none => exact .hdr (orr_PH_none env regs path h hb2) hb2
      | some pr => exact orr_PH_some env regs path h hb2
    | rej head rest hb he hq' hs => exact absurd hq' hq
    | unknown head rest f' hb he hl hq' hs hw => exact absurd hq' hq
    | failed head rest f' m hb he hl hg hq' hs hw => exact absurd hq' hq
    | invoked head rest f' m a hb he hl hg hq' hs ha hc => exact absurd hq' hq
    | deferred head rest f m hb he hl hra hN h =>
      have hb2 := C02L.breakOn_append _ _ _ _ seg hb
      by_cases hlt : (rest ++ seg).length < f.total.toNat
      · exact .deferred head (rest ++ seg) f m hb2 he hl hra hN (orr_P2_short env regs path h hlt)
      · obtain ⟨q, g, b⟩ := orr_P2_full env regs path h (by omega) hl hra
        cases hg : m.good with
        | true =>
          exact .invoked head (rest ++ seg) f m f.total.toNat hb2 he hl hg q (g hg) (fun _ => by omega)
            (fun hr => by rw [hra] at hr; exact absurd hr (by simp))
        | false =>
          obtain ⟨b1, b2⟩ := b hg
          exact .failed head (rest ++ seg) f m hb2 he hl hg q b1 b2

/-- `onReadyRead` with nothing new in the transport (the queued initial call) -/
theorem SInv.orr_idle {c : Bool} {fed : Bytes} {s : Sock} (h : SInv env regs path c fed [] s) :
    SInv env regs path c fed [] (Sock.onReadyRead env (app regs path) s) := by
  by_cases hq : Quiet s
  · simpa using h.fr hq (onReadyRead_quiet env regs path s hq) [] c []
  · cases h with
    | hdr h hb =>
      have hb2 : breakOn CRLF2 (fed ++ []) = none := by simpa using hb
      have := orr_PH_none env regs path h hb2
      rw [List.append_nil] at this
      exact .hdr this hb
    | rej head rest hb he hq' hs => exact absurd hq' hq
    | unknown head rest f' hb he hl hq' hs hw => exact absurd hq' hq
    | failed head rest f' m hb he hl hg hq' hs hw => exact absurd hq' hq
    | invoked head rest f' m a hb he hl hg hq' hs ha hc => exact absurd hq' hq
    | deferred head rest f m hb he hl hra hN h =>
      have := orr_P2_short env regs path h (by simpa using h.short)
      rw [List.append_nil] at this
      exact .deferred head rest f m hb he hl hra hN this


/-! ### one external event -/

/-- everything the two active phases mention except the transport's inbox and connection -/
def core (s : Sock) :=
  (C15L.ctl s, s.log, s.rs, s.readBuffer, s.reqHeaders, s.qio, s.dataRead, s.total)

theorem PH.same {c : Bool} {B inb inb' : Bytes} {s s' : Sock} (h : PH c B inb s)
    (h1 : core s' = core s) (h2 : s'.tcp.conn = s.tcp.conn) (h3 : s'.tcp.inbox = inb') : PH c B inb' s' := by
  simp only [core, Prod.mk.injEq] at h1
  obtain ⟨e1, e2, e3, e4, e5, e6, e7, e8⟩ := h1
  exact ⟨h.opn.same e1 h2 e2, e3.trans h.rs, e4.trans h.buf, h3, e5.trans h.reqH, e6.trans h.qio,
    e7.trans h.dataRead, e8.trans h.total, by rw [e2]; exact h.noHp⟩

theorem P2.same {c : Bool} {N : Nat} {B inb inb' : Bytes} {s s' : Sock} (h : P2 c N B inb s)
    (h1 : core s' = core s) (h2 : s'.tcp.conn = s.tcp.conn) (h3 : s'.tcp.inbox = inb') : P2 c N B inb' s' := by
  simp only [core, Prod.mk.injEq] at h1
  obtain ⟨e1, e2, e3, e4, e5, e6, e7, e8⟩ := h1
  exact ⟨h.opn.same e1 h2 e2, e3.trans h.rs, e4.trans h.buf, h3, e6.trans h.qio,
    e7.trans h.dataRead, e8.trans h.total, h.short, by rw [e2]; exact h.hp⟩

theorem PH.log1 {c : Bool} {B inb : Bytes} {s : Sock} (h : PH c B inb s) (o : Obs) (ho : passive o = true) :
    PH c B inb { s with log := s.log ++ [o] } := by
  obtain ⟨p1, p2, p3, _⟩ := passive_facts [o] (by simp [ho])
  exact ⟨h.opn.log1 o p1 p2, h.rs, h.buf, h.inbox, h.reqH, h.qio, h.dataRead, h.total,
    by show (s.log ++ [o]).any Obs.isHp = false; rw [List.any_append, h.noHp, p3]; rfl⟩

theorem P2.log1 {c : Bool} {N : Nat} {B inb : Bytes} {s : Sock} (h : P2 c N B inb s) (o : Obs)
    (ho : passive o = true) : P2 c N B inb { s with log := s.log ++ [o] } := by
  obtain ⟨p1, p2, _, _⟩ := passive_facts [o] (by simp [ho])
  exact ⟨h.opn.log1 o p1 p2, h.rs, h.buf, h.inbox, h.qio, h.dataRead, h.total, h.short,
    by show (s.log ++ [o]).any Obs.isHp = true; rw [List.any_append, h.hp]; rfl⟩

theorem PH.unconn {c : Bool} {B inb : Bytes} {s : Sock} (h : PH c B inb s) :
    PH false B inb { s with tcp := { s.tcp with conn := .unconnected } } :=
  ⟨⟨h.opn.ctl, fun hc => absurd hc (by simp), h.opn.slots, h.opn.wire⟩, h.rs, h.buf, h.inbox, h.reqH,
    h.qio, h.dataRead, h.total, h.noHp⟩

theorem P2.unconn {c : Bool} {N : Nat} {B inb : Bytes} {s : Sock} (h : P2 c N B inb s) :
    P2 false N B inb { s with tcp := { s.tcp with conn := .unconnected } } :=
  ⟨⟨h.opn.ctl, fun hc => absurd hc (by simp), h.opn.slots, h.opn.wire⟩, h.rs, h.buf, h.inbox,
    h.qio, h.dataRead, h.total, h.short, h.hp⟩

theorem emitDc_open {c : Bool} {s : Sock} (h : Opn c s) :
    Sock.emitDc env (app regs path) s = { s with log := s.log ++ [Obs.dc] } := by
  have h1 := h.dcFlag
  have h2 := h.delPending
  have h3 := h.closeCalled
  obtain ⟨tcp, rb, qio, rs, method, rawPath, path', query, reqHeaders, dataRead, total, ws, code, reason,
    respHeaders, hdrRemaining, ioOpen, initPending, closeCalled, dcFlag, delPending, alive, log⟩ := s
  simp only at h1 h2 h3
  subst h1 h2 h3
  rfl

/-- an active phase, or a quiet one -/
theorem SInv.active {c : Bool} {fed inb : Bytes} {s : Sock} (h : SInv env regs path c fed inb s)
    (hq : ¬ Quiet s) :
    (PH c fed inb s ∧ breakOn CRLF2 fed = none) ∨
    (∃ head rest f m, breakOn CRLF2 fed = some (head, rest) ∧ C01.expect env head = some f ∧
      lookup regs path = some m ∧ m.readAll = true ∧ 0 ≤ f.total ∧ P2 c f.total.toNat rest inb s) := by
  cases h with
  | hdr h hb => exact Or.inl ⟨h, hb⟩
  | rej head rest hb he hq' hs => exact absurd hq' hq
  | unknown head rest f' hb he hl hq' hs hw => exact absurd hq' hq
  | failed head rest f' m hb he hl hg hq' hs hw => exact absurd hq' hq
  | invoked head rest f' m a hb he hl hg hq' hs ha hc => exact absurd hq' hq
  | deferred head rest f m hb he hl hra hN h => exact Or.inr ⟨head, rest, f, m, hb, he, hl, hra, hN, h⟩

/-- a change of state that the invariant does not look at -/
theorem SInv.same {c : Bool} {fed inb inb' : Bytes} {s s' : Sock} (h : SInv env regs path c fed inb s)
    (h1 : core s' = core s) (h2 : s'.tcp.conn = s.tcp.conn) (h3 : s'.tcp.inbox = inb') :
    SInv env regs path c fed inb' s' := by
  by_cases hq : Quiet s
  · have e := h1
    simp only [core, C15L.ctl, Prod.mk.injEq] at e
    have f : Fr s s' := Fr.of_eq e.1.2.2.2.2.2.2.1 e.2.2.1 e.2.1
    simpa using h.fr hq f [] c inb'
  · rcases h.active hq with ⟨p, hb⟩ | ⟨head, rest, f, m, hb, he, hl, hra, hN, p⟩
    · exact .hdr (p.same h1 h2 h3) hb
    · exact .deferred head rest f m hb he hl hra hN (p.same h1 h2 h3)

/-- a passive observation is appended to the history (the event marker) -/
theorem SInv.log1 {c : Bool} {fed inb : Bytes} {s : Sock} (h : SInv env regs path c fed inb s)
    (o : Obs) (ho : passive o = true) : SInv env regs path c fed inb { s with log := s.log ++ [o] } := by
  by_cases hq : Quiet s
  · simpa using h.fr hq (Fr.log1 s o ho) [] c inb
  · rcases h.active hq with ⟨p, hb⟩ | ⟨head, rest, f, m, hb, he, hl, hra, hN, p⟩
    · exact .hdr (p.log1 o ho) hb
    · exact .deferred head rest f m hb he hl hra hN (p.log1 o ho)

theorem SInv.alive {c : Bool} {fed inb : Bytes} {s : Sock} (h : SInv env regs path c fed inb s)
    (hq : ¬ Quiet s) : s.alive = true ∧ s.delPending = false := by
  rcases h.active hq with ⟨p, _⟩ | ⟨_, _, _, _, _, _, _, _, _, p⟩
  · exact ⟨p.opn.alive, p.opn.delPending⟩
  · exact ⟨p.opn.alive, p.opn.delPending⟩

theorem SInv.step_feed {fed : Bytes} {s : Sock} (h : SInv env regs path true fed [] s) (seg : Bytes) :
    SInv env regs path true (fed ++ seg) [] (Sock.step env (app regs path) s (.feed seg)) := by
  by_cases hq : Quiet s
  · exact h.fr hq (step_quiet env regs path s hq _ rfl) seg true []
  · unfold Sock.step
    rw [if_neg (by simp [(h.alive hq).1])]
    have hin : s.tcp.inbox = [] := by
      rcases h.active hq with ⟨p, _⟩ | ⟨_, _, _, _, _, _, _, _, _, p⟩
      · exact p.inbox
      · exact p.inbox
    exact (h.same (s' := { s with tcp := { s.tcp with inbox := s.tcp.inbox ++ seg } }) rfl rfl
      (by show s.tcp.inbox ++ seg = seg; rw [hin]; rfl)).orr_feed

theorem SInv.step_turn {c : Bool} {fed : Bytes} {s : Sock} (h : SInv env regs path c fed [] s) :
    SInv env regs path c fed [] (Sock.step env (app regs path) s .turn) := by
  by_cases hq : Quiet s
  · simpa using h.fr hq (step_quiet env regs path s hq _ rfl) [] c []
  · unfold Sock.step
    rw [if_neg (by simp [(h.alive hq).1])]
    simp only
    have hin : s.tcp.inbox = [] := by
      rcases h.active hq with ⟨p, _⟩ | ⟨_, _, _, _, _, _, _, _, _, p⟩
      · exact p.inbox
      · exact p.inbox
    have h1 : SInv env regs path c fed []
        (if s.initPending then Sock.onReadyRead env (app regs path) { s with initPending := false } else s) := by
      split
      · exact (h.same (s' := { s with initPending := false }) rfl rfl hin).orr_idle
      · exact h
    generalize (if s.initPending then Sock.onReadyRead env (app regs path) { s with initPending := false } else s)
      = s1 at h1
    split
    · rename_i hdel
      by_cases hq1 : Quiet s1
      · simpa using h1.fr hq1 (s' := { s1 with alive := false, delPending := false, log := s1.log ++ [Obs.del] })
          ⟨rfl, id, [.del], rfl, rfl⟩ [] c []
      · rw [(h1.alive hq1).2] at hdel
        exact absurd hdel (by simp)
    · exact h1

theorem SInv.step_peerClose {c : Bool} {fed : Bytes} {s : Sock} (h : SInv env regs path c fed [] s) :
    SInv env regs path false fed [] (Sock.step env (app regs path) s .peerClose) := by
  by_cases hq : Quiet s
  · simpa using h.fr hq (step_quiet env regs path s hq _ rfl) [] false []
  · unfold Sock.step
    rw [if_neg (by simp [(h.alive hq).1])]
    simp only
    rcases h.active hq with ⟨p, hb⟩ | ⟨head, rest, f, m, hb, he, hl, hra, hN, p⟩
    · split
      · exact .hdr ⟨p.opn.weaken, p.rs, p.buf, p.inbox, p.reqH, p.qio, p.dataRead, p.total, p.noHp⟩ hb
      · have p1 := p.unconn
        generalize ({ s with tcp := { s.tcp with conn := .unconnected } } : Sock) = s1 at p1
        have e : Sock.onReadChannelFinished env (app regs path) s1 = { s1 with log := s1.log ++ [Obs.rcf] } := by
          unfold Sock.onReadChannelFinished
          rw [if_pos p1.total]
          show Sock.emit env (app regs path) s1 .rcf (onRcf regs path s1) = _
          rw [onRcf_noHp regs path s1 p1.noHp, emit_nil]
        rw [e]
        have p2 := p1.log1 .rcf rfl
        rw [emitDc_open p2.opn]
        exact .hdr (p2.log1 .dc rfl) hb
    · split
      · exact .deferred head rest f m hb he hl hra hN
          ⟨p.opn.weaken, p.rs, p.buf, p.inbox, p.qio, p.dataRead, p.total, p.short, p.hp⟩
      · have p1 := p.unconn
        generalize ({ s with tcp := { s.tcp with conn := .unconnected } } : Sock) = s1 at p1
        have e : Sock.onReadChannelFinished env (app regs path) s1 = s1 := by
          unfold Sock.onReadChannelFinished
          rw [if_neg (by rw [p1.total]; omega)]
        rw [e, emitDc_open p1.opn]
        exact .deferred head rest f m hb he hl hra hN (p1.log1 .dc rfl)


/-! ### whole runs -/

/-- after construction: segments and event-loop turns, then optionally the peer closes, after
    which only turns follow (`c`: the peer has not closed yet) -/
def shapeFrom : Bool → List Event → Bool
  | _, [] => true
  | true, .feed _ :: l => shapeFrom true l
  | c, .turn :: l => shapeFrom c l
  | true, .peerClose :: l => shapeFrom false l
  | _, _ => false

/-- the scenario shape of C15: `new (feed seg | turn)* [peerClose turn*]` -/
def slotEvents : List Event → Bool
  | .new :: rest => shapeFrom true rest
  | _ => false

theorem SInv.mark {c : Bool} {fed : Bytes} {s : Sock} (h : SInv env regs path c fed [] s) (k : Nat) :
    SInv env regs path c fed [] (if !s.alive then s else { s with log := s.log ++ [Obs.ev k] }) := by
  split
  · exact h
  · exact h.log1 _ rfl

theorem fed_cons (e : Event) (l : List Event) :
    Scenario.fed (e :: l) = (match e with | .prebuf b => b | .feed b => b | _ => []) ++ Scenario.fed l := by
  cases e <;> simp [Scenario.fed, List.flatMap_cons]

theorem fold_inv : ∀ (l : List Event) (c : Bool) (fed : Bytes) (s : Sock) (k : Nat),
    shapeFrom c l = true → SInv env regs path c fed [] s →
    ∃ c', SInv env regs path c' (fed ++ Scenario.fed l) [] (l.foldl (Sock.stepK env (app regs path)) (s, k)).1 := by
  intro l
  induction l with
  | nil => intro c fed s k _ h; exact ⟨c, by simpa [Scenario.fed] using h⟩
  | cons e l ih =>
    intro c fed s k hs h
    rw [List.foldl_cons, fed_cons]
    have hm := h.mark k
    cases e with
    | feed seg =>
      cases c with
      | false => simp [shapeFrom] at hs
      | true =>
        have := ih true (fed ++ seg) _ (k + 1) (by simpa [shapeFrom] using hs) (hm.step_feed seg)
        simpa [Sock.stepK, List.append_assoc] using this
    | turn =>
      have := ih c fed _ (k + 1) (by simpa [shapeFrom] using hs) hm.step_turn
      simpa [Sock.stepK] using this
    | peerClose =>
      cases c with
      | false => simp [shapeFrom] at hs
      | true =>
        have := ih false fed _ (k + 1) (by simpa [shapeFrom] using hs) hm.step_peerClose
        simpa [Sock.stepK] using this
    | prebuf b => cases c <;> simp [shapeFrom] at hs
    | new => cases c <;> simp [shapeFrom] at hs
    | ack n => cases c <;> simp [shapeFrom] at hs
    | ackAll => cases c <;> simp [shapeFrom] at hs
    | api op => cases c <;> simp [shapeFrom] at hs

theorem SInv.init : SInv env regs path true [] [] ({ initPending := true, log := [Obs.ev 0] } : Sock) :=
  .hdr ⟨⟨rfl, fun _ => rfl, rfl, rfl⟩, rfl, rfl, rfl, rfl, rfl, rfl, rfl, rfl⟩ (by decide)

variable (env regs path)

/-- the invariant holds at the end of every run of the scenario shape, against the whole stream -/
theorem run_inv (evs : List Event) (h : slotEvents evs = true) :
    ∃ c, SInv env regs path c (Scenario.fed evs) [] (Sock.run env (app regs path) evs) := by
  cases evs with
  | nil => simp [slotEvents] at h
  | cons e rest =>
    cases e <;> simp [slotEvents] at h
    have := fold_inv rest true [] _ 1 h (SInv.init (env := env) (regs := regs) (path := path))
    rw [fed_cons]
    simpa [Sock.run, List.foldl_cons, C09L.stepK_new] using this

end

/-! ### the error responses, read back by the strict reader -/

section wire
open Qhttp.Sock

theorem errHeaders_nil (d : Bytes) :
    C09L.errHeaders [] d = [(CONTENT_LENGTH, d), (CONTENT_TYPE, TEXT_HTML)] := by
  have k3 : HeaderMap.keyEq CONTENT_LENGTH CONTENT_TYPE = false := by decide
  have k5 : HeaderMap.keyLt CONTENT_LENGTH CONTENT_TYPE = true := by decide
  simp [C09L.errHeaders, HeaderMap.remove, HeaderMap.insert, List.filter, k3, k5]

/-- the strict reader understands the error response -/
theorem parse_errWire (env : Env) (code : Int) (hc : CR ∉ C09L.errStart code) :
    Http.parse (errWire env code) =
      some { start := C09L.errStart code,
             headers := [(CONTENT_LENGTH, natDigits (C09L.errBody env code).length), (CONTENT_TYPE, TEXT_HTML)],
             body := C09L.errBody env code } := by
  unfold errWire
  rw [errHeaders_nil]
  apply Http.parse_render _ _ _ hc
  intro e he
  simp only [List.mem_cons, List.not_mem_nil, or_false] at he
  rcases he with rfl | rfl
  · exact ⟨(by decide : CONTENT_LENGTH ≠ []), (by decide : COLON ∉ CONTENT_LENGTH),
      (by decide : CR ∉ CONTENT_LENGTH), HB.natDigits_not_mem _ (Or.inl (by decide))⟩
  · exact ⟨(by decide : CONTENT_TYPE ≠ []), (by decide : COLON ∉ CONTENT_TYPE),
      (by decide : CR ∉ CONTENT_TYPE), (by decide : CR ∉ TEXT_HTML)⟩

theorem status_404 : (Http.statusLine (C09L.errStart 404)).map (·.code) = some 404 := by decide
theorem status_500 : (Http.statusLine (C09L.errStart 500)).map (·.code) = some 500 := by decide
theorem noCR_404 : CR ∉ C09L.errStart 404 := by decide
theorem noCR_500 : CR ∉ C09L.errStart 500 := by decide
end wire

end Qhttp.C15L
