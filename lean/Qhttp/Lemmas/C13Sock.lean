import Qhttp.Model.Proxy
import Qhttp.Lemmas.C03Wire
import Qhttp.Lemmas.C09Run
/-
  C13: the write side of the socket model under the proxy's application (`Proxy.app`: it reacts to
  `readyRead` only, by reading).  `WOpen s`: the response can still be written; `WShut s`: the
  library closed the transport.  Unlike `C03L.Open`/`C03L.Shut` nothing is assumed about the
  request side (a request may be half read: `rs = .data`).
-/
namespace Qhttp.C13L
open Qhttp Qhttp.Sock
open Qhttp.C03L (LogOpen LogShut quietObs)

abbrev app : App := Proxy.app

/-! ### the wire of a history -/

theorem wire_append (l l' : List Obs) : Obs.wire (l ++ l') = Obs.wire l ++ Obs.wire l' := by
  simp [Obs.wire]

theorem wire_w (b : Bytes) : Obs.wire [Obs.w b] = b := by simp [Obs.wire]

theorem wire_quiet {l : List Obs} (h : ∀ o ∈ l, quietObs o = true) : Obs.wire l = [] := by
  induction l with
  | nil => rfl
  | cons o l ih =>
    have h1 := h o (by simp)
    have h2 := ih (fun x hx => h x (by simp [hx]))
    have : Obs.wire (o :: l) = Obs.wire [o] ++ Obs.wire l := wire_append [o] l
    rw [this, h2]
    cases o <;> simp_all [quietObs, Obs.isW, Obs.wire]

theorem wire_snoc_quiet (l : List Obs) {o : Obs} (h : quietObs o = true) : Obs.wire (l ++ [o]) = Obs.wire l := by
  rw [wire_append, wire_quiet (l := [o]) (by simpa using h)]; simp

theorem anyTc_of_logShut {l : List Obs} (h : LogShut l) : l.any Obs.isTc = true := by
  have := h.oneTc
  simp only [Obs.countP] at this
  rw [List.any_eq_true]
  have hne : l.filter Obs.isTc ≠ [] := by intro e; rw [e] at this; cases this
  obtain ⟨x, hx⟩ := List.exists_mem_of_ne_nil _ hne
  exact ⟨x, (List.mem_filter.mp hx).1, (List.mem_filter.mp hx).2⟩

theorem anyTc_of_logOpen {l : List Obs} (h : LogOpen l) : l.any Obs.isTc = false := by
  rw [List.any_eq_false]
  intro x hx
  simp [h x hx]

/-! ### phases -/

/-- the response can be written: nothing was closed -/
structure WOpen (s : Sock) : Prop where
  alive : s.alive = true
  io : s.ioOpen = true
  dev : s.tcp.devOpen = true
  conn : s.tcp.conn = .connected
  dcF : s.dcFlag = false
  noClose : s.closeCalled = false
  noDel : s.delPending = false
  logOpen : LogOpen s.log

/-- the library closed the transport (the object may already be deleted) -/
structure WShut (s : Sock) : Prop where
  io : s.ioOpen = false
  dev : s.tcp.devOpen = false
  rs : s.rs = .finished
  dcF : s.dcFlag = false
  logShut : LogShut s.log

theorem WOpen.of_eq {s s' : Sock} (h : WOpen s)
    (hf : (s'.alive, s'.ioOpen, s'.tcp.devOpen, s'.tcp.conn, s'.dcFlag, s'.closeCalled, s'.delPending) =
          (s.alive, s.ioOpen, s.tcp.devOpen, s.tcp.conn, s.dcFlag, s.closeCalled, s.delPending))
    (hl : LogOpen s'.log) : WOpen s' := by
  simp only [Prod.mk.injEq] at hf
  obtain ⟨h1, h2, h3, h4, h5, h6, h7⟩ := hf
  obtain ⟨a1, a2, a3, a4, a5, a6, a7, _⟩ := h
  exact ⟨h1 ▸ a1, h2 ▸ a2, h3 ▸ a3, h4 ▸ a4, h5 ▸ a5, h6 ▸ a6, h7 ▸ a7, hl⟩

theorem WShut.of_eq {s s' : Sock} (h : WShut s)
    (hf : (s'.ioOpen, s'.tcp.devOpen, s'.rs, s'.dcFlag) = (s.ioOpen, s.tcp.devOpen, s.rs, s.dcFlag))
    (hl : LogShut s'.log) : WShut s' := by
  simp only [Prod.mk.injEq] at hf
  obtain ⟨h1, h2, h3, h4⟩ := hf
  obtain ⟨a1, a2, a3, a4, _⟩ := h
  exact ⟨h1 ▸ a1, h2 ▸ a2, h3 ▸ a3, h4 ▸ a4, hl⟩

theorem WOpen.not_shut {s : Sock} (h : WOpen s) : ¬ WShut s := fun c => by
  have := h.io; rw [c.io] at this; cases this

/-- a fresh socket (and the socket after `new`) -/
theorem wopen_default : WOpen ({} : Sock) :=
  ⟨rfl, rfl, rfl, rfl, rfl, rfl, rfl, fun _ h => by cases h⟩

/-! ### a step that leaves the socket open: the bytes it put on the wire -/

/-- `s'` is still open, `bytes` were written in between, nothing else that matters changed -/
structure WStep (s s' : Sock) (bytes : Bytes) : Prop where
  op : WOpen s'
  wire : Obs.wire s'.log = Obs.wire s.log ++ bytes
  initP : s'.initPending = s.initPending
  ws : s.ws ≠ .none → s'.ws ≠ .none
  respH : s'.respHeaders = s.respHeaders

theorem WStep.refl {s : Sock} (h : WOpen s) : WStep s s [] := ⟨h, by simp, rfl, id, rfl⟩

theorem WStep.trans {s s' s'' : Sock} {b b' : Bytes} (h1 : WStep s s' b) (h2 : WStep s' s'' b') :
    WStep s s'' (b ++ b') :=
  ⟨h2.op, by rw [h2.wire, h1.wire, List.append_assoc], h2.initP.trans h1.initP,
    fun h => h2.ws (h1.ws h), h2.respH.trans h1.respH⟩

/-- quiet observations appended, write side untouched -/
theorem WStep.of_quiet {s s' : Sock} (h : WOpen s) (l : List Obs) (hl : ∀ o ∈ l, quietObs o = true)
    (hlog : s'.log = s.log ++ l)
    (hf : (s'.alive, s'.ioOpen, s'.tcp.devOpen, s'.tcp.conn, s'.dcFlag, s'.closeCalled, s'.delPending) =
          (s.alive, s.ioOpen, s.tcp.devOpen, s.tcp.conn, s.dcFlag, s.closeCalled, s.delPending))
    (hi : s'.initPending = s.initPending) (hw : s.ws ≠ .none → s'.ws ≠ .none)
    (hr : s'.respHeaders = s.respHeaders) : WStep s s' [] :=
  ⟨h.of_eq hf (by rw [hlog]; exact h.logOpen.append hl),
    by rw [hlog, wire_append, wire_quiet hl], hi, hw, hr⟩

theorem wstep_note {s : Sock} (h : WOpen s) {o : Obs} (ho : quietObs o = true) :
    WStep s { s with log := s.log ++ [o] } [] :=
  WStep.of_quiet h [o] (by simpa using ho) rfl rfl rfl id rfl

/-! ### primitives on an open socket -/

theorem wstep_tcpWrite {s : Sock} (h : WOpen s) (b : Bytes) :
    WStep s (tcpWrite s b) b ∧ (tcpWrite s b).ws = s.ws := by
  by_cases hb : b = []
  · subst hb; rw [C03L.tcpWrite_nil]; exact ⟨WStep.refl h, rfl⟩
  · rw [C03L.tcpWrite_open h.dev h.conn hb]
    exact ⟨⟨h.of_eq rfl (h.logOpen.snoc rfl), by simp [wire_append, wire_w], rfl, id, rfl⟩, rfl⟩

theorem api_status {s : Sock} (env : Env) (a : App) (ha : s.alive = true) (hd : s.dcFlag = false)
    (c : Int) (r : Bytes) :
    api env a s (.status c (some r)) = { s with code := c, reason := r } := by
  simp [api, apiPrim, setStatusCode, ha, hd]

theorem wopen_setHead {s : Sock} (h : WOpen s) (c : Int) (r : Bytes) (m : HeaderMap) :
    WOpen { s with code := c, reason := r, respHeaders := m } := h.of_eq rfl h.logOpen

theorem api_wh {s : Sock} (env : Env) (a : App) (h : WOpen s) :
    api env a s .wh = writeHeaders s ∧
    WOpen (writeHeaders s) ∧ Obs.wire (writeHeaders s).log = Obs.wire s.log ++ headBytes s ∧
    (writeHeaders s).ws = .headers ∧ (writeHeaders s).initPending = s.initPending ∧
    (writeHeaders s).respHeaders = s.respHeaders := by
  have e : writeHeaders s = tcpWrite { s with ws := .headers, hdrRemaining := (headBytes s).length } (headBytes s) := rfl
  have h' : WOpen { s with ws := .headers, hdrRemaining := (headBytes s).length } := h.of_eq rfl h.logOpen
  obtain ⟨h1, h2⟩ := wstep_tcpWrite h' (headBytes s)
  rw [← e] at h1 h2
  refine ⟨?_, h1.op, h1.wire, h2, h1.initP, h1.respH⟩
  simp [api, apiPrim, h.alive, h1.op.dcF]

theorem api_write {s : Sock} (env : Env) (a : App) (h : WOpen s) (hw : s.ws ≠ .none) (b : Bytes) :
    api env a s (.write b) = tcpWrite s b := by
  have e : write s b = tcpWrite s b := by simp [write, h.io, hw]
  simp [api, apiPrim, h.alive, e, (wstep_tcpWrite h b).1.op.dcF]

theorem wstep_api_write {s : Sock} (env : Env) (a : App) (h : WOpen s) (hw : s.ws ≠ .none) (b : Bytes) :
    WStep s (api env a s (.write b)) b := by
  rw [api_write env a h hw]; exact (wstep_tcpWrite h b).1

/-! ### the proxy's application: nothing is connected to `bytesWritten` and `disconnected` -/

theorem emitDc_app (env : Env) (s : Sock) :
    emitDc env app s =
      { s with dcFlag := false, log := s.log ++ [Obs.dc], delPending := s.delPending || s.closeCalled } := by
  simp [emitDc, app, Proxy.app]

theorem onBytesWritten_app (env : Env) (s : Sock) (n : Int) :
    ∃ x y l, onBytesWritten env app s n = { s with ws := x, hdrRemaining := y, log := s.log ++ l } ∧
      (s.ws ≠ .none → x ≠ .none) ∧ (x = .finished ↔ s.ws = .finished) ∧ ∀ o ∈ l, quietObs o = true := by
  have hemit : ∀ (s' : Sock) (b : Int), emit env app s' (.bw b) (app.onBw s') =
      { s' with log := s'.log ++ [Obs.bw b] } := fun s' b => rfl
  have hq : ∀ b : Int, ∀ o ∈ [Obs.bw b], quietObs o = true := by
    intro b o ho; simp at ho; subst ho; rfl
  unfold onBytesWritten
  by_cases h1 : s.ws = .headers
  · by_cases h2 : s.hdrRemaining - n > 0
    · refine ⟨.headers, s.hdrRemaining - n, [], ?_, by simp, by simp [h1], by simp⟩
      simp only [h1, h2, if_true, reduceCtorEq, if_false, List.append_nil]
    · refine ⟨.data, s.hdrRemaining, [Obs.bw (n - s.hdrRemaining)], ?_, by simp, by simp [h1], hq _⟩
      simp only [h1, h2, if_true, if_false]
      rw [hemit]
  · by_cases h2 : s.ws = .data
    · refine ⟨.data, s.hdrRemaining, [Obs.bw n], ?_, by simp, by simp [h2], hq _⟩
      rw [if_neg h1]; dsimp only; rw [if_pos h2, hemit]
      simp [h2]
    · refine ⟨s.ws, s.hdrRemaining, [], ?_, id, Iff.rfl, by simp⟩
      rw [if_neg h1]; dsimp only; rw [if_neg h2]; simp

theorem wstep_ackN (env : Env) {s : Sock} (h : WOpen s) (n : Nat) : WStep s (ackN env app s n) [] := by
  unfold ackN
  by_cases hn : min n s.tcp.unacked = 0
  · simp only [hn, if_true]; exact WStep.refl h
  · simp only [hn, if_false]
    obtain ⟨x, y, l, he, hx, _, hl⟩ := onBytesWritten_app env
      { s with tcp := { s.tcp with unacked := s.tcp.unacked - min n s.tcp.unacked } } (min n s.tcp.unacked : Nat)
    rw [he]
    split
    · rename_i hc
      simp [h.conn, C03L.connected_beq_closing] at hc
    · exact WStep.of_quiet h l hl rfl rfl rfl hx rfl

theorem quiet_dc : quietObs Obs.dc = true := rfl
theorem quiet_ev (k : Nat) : quietObs (Obs.ev k) = true := rfl
theorem quiet_del : quietObs Obs.del = true := rfl
theorem quiet_misc (t : Nat) (b : Bytes) : quietObs (Obs.misc t b) = true := rfl

theorem wshut_ackN (env : Env) {s : Sock} (h : WShut s) (n : Nat) :
    WShut (ackN env app s n) ∧ Obs.wire (ackN env app s n).log = Obs.wire s.log := by
  unfold ackN
  by_cases hn : min n s.tcp.unacked = 0
  · simp only [hn, if_true]; exact ⟨h, trivial⟩
  · simp only [hn, if_false]
    obtain ⟨x, y, l, he, _, _, hl⟩ := onBytesWritten_app env
      { s with tcp := { s.tcp with unacked := s.tcp.unacked - min n s.tcp.unacked } } (min n s.tcp.unacked : Nat)
    rw [he]
    split
    · rw [emitDc_app]
      have hl' : ∀ o ∈ l ++ [Obs.dc], quietObs o = true := by
        intro o ho
        rcases List.mem_append.mp ho with ho | ho
        · exact hl o ho
        · simp at ho; subst ho; rfl
      refine ⟨h.of_eq (by simp [h.dcF]) ?_, ?_⟩
      · simpa [List.append_assoc] using h.logShut.append hl'
      · show Obs.wire (s.log ++ l ++ [Obs.dc]) = _
        rw [List.append_assoc, wire_append, wire_quiet hl']; simp
    · exact ⟨h.of_eq rfl (h.logShut.append hl), by
        show Obs.wire (s.log ++ l) = _
        rw [wire_append, wire_quiet hl]; simp⟩

/-! ### closing -/

/-- `Socket::close` and the `disconnected` emission it may cause, on an open socket -/
theorem wshut_closeDc (env : Env) {s : Sock} (h : WOpen s) :
    WShut (C03L.closeDc env app s) ∧ Obs.wire (C03L.closeDc env app s).log = Obs.wire s.log ∧
    (C03L.closeDc env app s).alive = true ∧ (C03L.closeDc env app s).respHeaders = s.respHeaders := by
  obtain ⟨a1, a2, a3, a4, a5, a6, a7, a8⟩ := h
  have hl := a8.close
  by_cases hu : s.tcp.unacked = 0
  · have e0 : C03L.closeDc env app s =
        { s with ioOpen := false, qio := [], rs := .finished, ws := .finished, closeCalled := true,
                 tcp := { s.tcp with devOpen := false, conn := .unconnected },
                 dcFlag := false, log := s.log ++ [Obs.tc] ++ [Obs.dc], delPending := true } := by
      simp only [C03L.closeDc, Sock.close, tcpClose, a3, a4, hu]
      simp [emitDc_app]
    rw [e0]
    refine ⟨⟨rfl, rfl, rfl, rfl, hl.snoc rfl⟩, ?_, a1, rfl⟩
    simp [Obs.wire]
  · have e0 : C03L.closeDc env app s =
        { s with ioOpen := false, qio := [], rs := .finished, ws := .finished, closeCalled := true,
                 tcp := { s.tcp with devOpen := false, conn := .closing },
                 log := s.log ++ [Obs.tc] } := by
      simp only [C03L.closeDc, Sock.close, tcpClose, a3, a4, hu]
      simp [a5]
    rw [e0]
    refine ⟨⟨rfl, rfl, rfl, a5, hl⟩, ?_, a1, rfl⟩
    simp [Obs.wire]

theorem api_close {s : Sock} (env : Env) (ha : s.alive = true) :
    api env app s .close = C03L.closeDc env app s := by
  simp [api, apiPrim, ha, C03L.closeDc]

/-- the socket as `writeError` sees it just before it writes the head -/
def errSock (env : Env) (s : Sock) (c : Int) : Sock :=
  setHeader (setHeader (setStatusCode s c none) CONTENT_LENGTH
    (natDigits (C09L.errBody env c).length) true) CONTENT_TYPE TEXT_HTML true

theorem api_err {s : Sock} (env : Env) (ha : s.alive = true) (c : Int) :
    api env app s (.err c none) =
      C03L.closeDc env app (write (writeHeaders (errSock env s c)) (C09L.errBody env c)) := by
  simp [api, apiPrim, ha, C03L.closeDc, writeError, errSock, C09L.errBody, setStatusCode, setHeader]

/-- the bytes of the error response `writeError(c)` puts on the wire, given the header map the
    socket had: status line, `Content-Length` and `Content-Type` replaced, the error page -/
def errBytes (env : Env) (H : HeaderMap) (c : Int) : Bytes :=
  C09L.errStart c ++ CRLF ++
    headerLines (C09L.errHeaders H (natDigits (C09L.errBody env c).length)) ++ CRLF ++ C09L.errBody env c

theorem headBytes_errSock (env : Env) (s : Sock) (c : Int) :
    headBytes (errSock env s c) = C09L.errStart c ++ CRLF ++
      headerLines (C09L.errHeaders s.respHeaders (natDigits (C09L.errBody env c).length)) ++ CRLF := by
  have f1 : (errSock env s c).code = c := by simp [errSock, setHeader, setStatusCode]
  have f2 : (errSock env s c).reason = statusReason c := by simp [errSock, setHeader, setStatusCode]
  have f3 : (errSock env s c).respHeaders =
      C09L.errHeaders s.respHeaders (natDigits (C09L.errBody env c).length) := by
    simp [errSock, setHeader, setStatusCode, C09L.errHeaders]
  unfold headBytes C09L.errStart
  rw [f1, f2, f3]

/-- **`writeError` on an open socket**: exactly the error response is written, then the transport
    is closed -/
theorem wshut_api_err (env : Env) {s : Sock} (h : WOpen s) (c : Int) :
    WShut (api env app s (.err c none)) ∧
    Obs.wire (api env app s (.err c none)).log = Obs.wire s.log ++ errBytes env s.respHeaders c ∧
    (api env app s (.err c none)).alive = true := by
  rw [api_err env h.alive]
  have h3 : WOpen (errSock env s c) := by
    refine h.of_eq ?_ ?_
    · simp [errSock, setHeader, setStatusCode]
    · have : (errSock env s c).log = s.log := by simp [errSock, C03L.setHeader_eq, setStatusCode]
      rw [this]; exact h.logOpen
  have hlog : (errSock env s c).log = s.log := by simp [errSock, C03L.setHeader_eq, setStatusCode]
  obtain ⟨_, h4, w4, ws4, _, _⟩ := api_wh env app h3
  have e5 : write (writeHeaders (errSock env s c)) (C09L.errBody env c) =
      tcpWrite (writeHeaders (errSock env s c)) (C09L.errBody env c) := by
    simp [write, h4.io, ws4]
  obtain ⟨h5, _⟩ := wstep_tcpWrite h4 (C09L.errBody env c)
  rw [e5]
  obtain ⟨h6, w6, a6, _⟩ := wshut_closeDc env h5.op
  refine ⟨h6, ?_, a6⟩
  rw [w6, h5.wire, w4, hlog, headBytes_errSock, errBytes]
  simp [List.append_assoc]

theorem wshut_api_close (env : Env) {s : Sock} (h : WOpen s) :
    WShut (api env app s .close) ∧ Obs.wire (api env app s .close).log = Obs.wire s.log ∧
    (api env app s .close).alive = true := by
  rw [api_close env h.alive]
  obtain ⟨h6, w6, a6, _⟩ := wshut_closeDc env h
  exact ⟨h6, w6, a6⟩

/-! ### after the transport was closed: no call changes the wire -/


theorem wshut_setStatusCode {s : Sock} (h : WShut s) (c : Int) (r : Option Bytes) :
    WShut (setStatusCode s c r) ∧ (setStatusCode s c r).log = s.log :=
  ⟨h.of_eq rfl h.logShut, rfl⟩

theorem wshut_setHeader {s : Sock} (h : WShut s) (n v : Bytes) (r : Bool) :
    WShut (setHeader s n v r) ∧ (setHeader s n v r).log = s.log := by
  rw [C03L.setHeader_eq]; exact ⟨h.of_eq rfl h.logShut, rfl⟩

theorem wshut_writeHeaders {s : Sock} (h : WShut s) :
    WShut (writeHeaders s) ∧ (writeHeaders s).log = s.log := by
  have : writeHeaders s = { s with ws := .headers, hdrRemaining := (headBytes s).length } := by
    show tcpWrite { s with ws := .headers, hdrRemaining := (headBytes s).length } (headBytes s) = _
    exact C03L.tcpWrite_shut _ h.dev
  rw [this]; exact ⟨h.of_eq rfl h.logShut, rfl⟩

theorem wshut_write {s : Sock} (h : WShut s) (b : Bytes) : write s b = s := by
  simp [write, h.io]

theorem wshut_close {s : Sock} (h : WShut s) :
    WShut (Sock.close s) ∧ (Sock.close s).log = s.log := by
  have : Sock.close s = { s with ioOpen := false, qio := [], rs := .finished, ws := .finished, closeCalled := true } := by
    simp [Sock.close, tcpClose, h.dev]
  rw [this]; exact ⟨h.of_eq (by simp [h.io, h.rs]) h.logShut, rfl⟩

/-- every response-side call on a closed socket leaves the history alone -/
theorem wshut_apiPrim (env : Env) {s : Sock} (h : WShut s) {op : ApiOp} (hop : C03L.respOp op = true) :
    WShut (apiPrim env s op) ∧ (apiPrim env s op).log = s.log := by
  by_cases ha : s.alive = true
  · cases op <;> simp only [C03L.respOp, Bool.false_eq_true] at hop <;>
      simp only [apiPrim, ha, Bool.not_true, Bool.false_eq_true, if_false]
    · exact wshut_setStatusCode h _ _
    · exact wshut_setHeader h _ _ _
    · exact ⟨h.of_eq rfl h.logShut, trivial⟩
    · exact wshut_writeHeaders h
    · rw [wshut_write h]; exact ⟨h, rfl⟩
    · rename_i c r
      simp only [writeError]
      obtain ⟨h1, e1⟩ := wshut_setStatusCode h c r
      obtain ⟨h2, e2⟩ := wshut_setHeader h1 CONTENT_LENGTH
        (natDigits (env.errPage (setStatusCode s c r).code (setStatusCode s c r).reason).length) true
      obtain ⟨h3, e3⟩ := wshut_setHeader h2 CONTENT_TYPE TEXT_HTML true
      obtain ⟨h4, e4⟩ := wshut_writeHeaders h3
      rw [wshut_write h4]
      obtain ⟨h5, e5⟩ := wshut_close h4
      exact ⟨h5, by rw [e5, e4, e3, e2, e1]⟩
    · rename_i p pm
      simp only [writeRedirect]
      obtain ⟨h1, e1⟩ := wshut_setStatusCode h (if pm then 301 else 302) none
      obtain ⟨h2, e2⟩ := wshut_setHeader h1 (lit ['L','o','c','a','t','i','o','n']) p true
      obtain ⟨h4, e4⟩ := wshut_writeHeaders h2
      obtain ⟨h5, e5⟩ := wshut_close h4
      exact ⟨h5, by rw [e5, e4, e2, e1]⟩
    · rename_i bd c
      simp only [writeJson]
      obtain ⟨h1, e1⟩ := wshut_setStatusCode h c none
      obtain ⟨h2, e2⟩ := wshut_setHeader h1 CONTENT_LENGTH (natDigits bd.length) true
      obtain ⟨h3, e3⟩ := wshut_setHeader h2 CONTENT_TYPE APP_JSON true
      rw [wshut_write h3]
      obtain ⟨h5, e5⟩ := wshut_close h3
      exact ⟨h5, by rw [e5, e3, e2, e1]⟩
    · exact wshut_close h
  · simp only [apiPrim, ha, Bool.not_false, if_true]; exact ⟨h, trivial⟩

theorem wshut_api (env : Env) (a : App) {s : Sock} (h : WShut s) {op : ApiOp} (hop : C03L.respOp op = true) :
    WShut (api env a s op) ∧ (api env a s op).log = s.log := by
  obtain ⟨h1, e1⟩ := wshut_apiPrim env h hop
  simp only [api, h1.dcF, Bool.false_eq_true, if_false]
  exact ⟨h1, e1⟩

/-- the proxy's direct assignment of the header map -/
theorem wshut_setRespHeaders {s : Sock} (h : WShut s) (hs : HeaderMap) :
    WShut (if s.alive then { s with respHeaders := hs } else s) ∧
    (if s.alive then { s with respHeaders := hs } else s).log = s.log := by
  split
  · exact ⟨h.of_eq rfl h.logShut, rfl⟩
  · exact ⟨h, rfl⟩

/-! ### a dead socket -/

theorem api_dead (env : Env) (a : App) {s : Sock} (hd : s.alive = false) (hf : s.dcFlag = false) (op : ApiOp) :
    api env a s op = s := by
  simp [api, apiPrim, hd, hf]

end Qhttp.C13L
