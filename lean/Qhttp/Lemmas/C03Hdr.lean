import Qhttp.Lemmas.HttpRender
/-
  The response header multimap under `Socket::setHeader` / `setHeaders`: the map stays sorted and
  well-formed, and the multiset of comma-separated values under each case-folded name changes
  exactly as intended.
-/
namespace Qhttp.C03L
open Qhttp Qhttp.HB Qhttp.Http Qhttp.HeaderMap

/-- split a value at `", "` -/
def csplit (v : Bytes) : List Bytes := splitAll [44, 32] v

/-- all comma-separated values of a list of header values -/
def svals (l : List Bytes) : List Bytes := l.flatMap csplit

/-- the comma-separated values carried under a (case-folded) name -/
def vs (n : Bytes) (m : HeaderMap) : List Bytes := svals (HeaderMap.values n m)

theorem csplit_ne_nil (v : Bytes) : csplit v ≠ [] := splitAll_ne_nil v

theorem csplit_join (x v : Bytes) : csplit (x ++ [44, 32] ++ v) = csplit x ++ csplit v :=
  splitAll2_join (p := 44) (q := 32) (by decide) v x.length x (Nat.le_refl _)

theorem valuesOf_eq (n : Bytes) (m : HeaderMap) : Http.valuesOf n m = vs n m := by
  simp only [Http.valuesOf, vs, svals, HeaderMap.values, keyEq, List.flatMap_map]
  rfl

theorem svals_eq_nil {l : List Bytes} : svals l = [] ↔ l = [] := by
  cases l with
  | nil => simp [svals]
  | cons a l => simp [svals, csplit_ne_nil]

/-! ### the map operations -/

/-- what `Socket::setHeader` does to the map -/
def hset (n v : Bytes) (r : Bool) (m : HeaderMap) : HeaderMap :=
  if r || HeaderMap.count n m == 0 then HeaderMap.insert n v (HeaderMap.remove n m)
  else HeaderMap.replace n (HeaderMap.value n m ++ [44, 32] ++ v) m

theorem setHeader_eq (s : Sock) (n v : Bytes) (r : Bool) :
    Sock.setHeader s n v r = { s with respHeaders := hset n v r s.respHeaders } := by
  simp only [Sock.setHeader, hset]; split <;> rfl

def Sorted (m : HeaderMap) : Prop := m.Pairwise (fun a c => keyLt c.1 a.1 = false)

def HdrWf (m : HeaderMap) : Prop := ∀ e ∈ m, EntryOk e

theorem mem_insert {k v : Bytes} {m : HeaderMap} {e : Bytes × Bytes} :
    e ∈ HeaderMap.insert k v m ↔ e = (k, v) ∨ e ∈ m := by
  induction m with
  | nil => simp [HeaderMap.insert]
  | cons a m ih =>
    simp only [HeaderMap.insert]; split
    · simp only [List.mem_cons, ih]; constructor <;> (intro h; rcases h with h | h | h <;> simp [h])
    · simp

theorem keyLt_asymm {a c : Bytes} (h : keyLt a c = true) : keyLt c a = false := bytesLt_asymm h

theorem sorted_insert {k v : Bytes} {m : HeaderMap} (h : Sorted m) : Sorted (HeaderMap.insert k v m) := by
  induction m with
  | nil => simp [HeaderMap.insert, Sorted]
  | cons a m ih =>
    obtain ⟨h1, h2⟩ := List.pairwise_cons.mp h
    simp only [HeaderMap.insert]; split
    · rename_i hlt
      refine List.pairwise_cons.mpr ⟨?_, ih h2⟩
      intro e he
      rcases mem_insert.mp he with he | he
      · subst he; exact keyLt_asymm hlt
      · exact h1 e he
    · rename_i hlt
      refine List.pairwise_cons.mpr ⟨?_, h⟩
      intro e he
      rcases List.mem_cons.mp he with he | he
      · subst he; simpa using hlt
      · have h3 := h1 e he
        cases h4 : keyLt e.1 k with
        | false => rfl
        | true => exact absurd (bytesLt_of_not_lt_of_lt h3 h4) hlt

theorem sorted_remove {k : Bytes} {m : HeaderMap} (h : Sorted m) : Sorted (HeaderMap.remove k m) :=
  List.Pairwise.filter _ h

theorem mem_replace {k v : Bytes} {m : HeaderMap} {e : Bytes × Bytes} (h : e ∈ HeaderMap.replace k v m) :
    e = (k, v) ∨ e ∈ m ∨ (e.2 = v ∧ ∃ x, (e.1, x) ∈ m) := by
  induction m with
  | nil => simp [HeaderMap.replace] at h; simp [h]
  | cons a m ih =>
    simp only [HeaderMap.replace] at h
    split at h
    · rcases List.mem_cons.mp h with h | h
      · right; right; subst h; exact ⟨rfl, a.2, by simp⟩
      · right; left; simp [h]
    · split at h
      · rcases List.mem_cons.mp h with h | h
        · right; left; simp [h]
        · rcases ih h with h | h | ⟨h, x, hx⟩
          · left; exact h
          · right; left; simp [h]
          · right; right; exact ⟨h, x, by simp [hx]⟩
      · rcases List.mem_cons.mp h with h | h
        · left; exact h
        · right; left; exact h

theorem sorted_replace {k v : Bytes} {m : HeaderMap} (h : Sorted m) : Sorted (HeaderMap.replace k v m) := by
  induction m with
  | nil => simp [HeaderMap.replace, Sorted]
  | cons a m ih =>
    obtain ⟨h1, h2⟩ := List.pairwise_cons.mp h
    simp only [HeaderMap.replace]; split
    · exact List.pairwise_cons.mpr ⟨h1, h2⟩
    · split
      · rename_i hlt
        refine List.pairwise_cons.mpr ⟨?_, ih h2⟩
        intro e he
        rcases mem_replace he with he | he | ⟨_, x, hx⟩
        · subst he; exact keyLt_asymm hlt
        · exact h1 e he
        · exact h1 (e.1, x) hx
      · rename_i hlt
        refine List.pairwise_cons.mpr ⟨?_, h⟩
        intro e he
        rcases List.mem_cons.mp he with he | he
        · subst he; simpa using hlt
        · have h3 := h1 e he
          cases h4 : keyLt e.1 k with
          | false => rfl
          | true => exact absurd (bytesLt_of_not_lt_of_lt h3 h4) hlt

theorem sorted_hset {n v : Bytes} {r : Bool} {m : HeaderMap} (h : Sorted m) : Sorted (hset n v r m) := by
  simp only [hset]; split
  · exact sorted_insert (sorted_remove h)
  · exact sorted_replace h

theorem sorted_foldl_insert (l : List (Bytes × Bytes)) : ∀ {m : HeaderMap}, Sorted m →
    Sorted (l.foldl (fun acc e => HeaderMap.insert e.1 e.2 acc) m) := by
  induction l with
  | nil => intro m h; exact h
  | cons e l ih => intro m h; exact ih (sorted_insert h)

/-! ### well-formed entries -/

theorem wf_insert {k v : Bytes} {m : HeaderMap} (h : HdrWf m) (he : EntryOk (k, v)) :
    HdrWf (HeaderMap.insert k v m) := by
  intro e hm
  rcases mem_insert.mp hm with hm | hm
  · subst hm; exact he
  · exact h e hm

theorem wf_remove {k : Bytes} {m : HeaderMap} (h : HdrWf m) : HdrWf (HeaderMap.remove k m) :=
  fun e hm => h e (List.mem_filter.mp hm).1

theorem mem_of_mem_values {k x : Bytes} {m : HeaderMap} (h : x ∈ HeaderMap.values k m) :
    ∃ k', (k', x) ∈ m := by
  simp only [HeaderMap.values, List.mem_map, List.mem_filter] at h
  obtain ⟨e, ⟨he, _⟩, hx⟩ := h
  exact ⟨e.1, by rw [← hx]; exact he⟩

theorem value_CR {k : Bytes} {m : HeaderMap} (h : HdrWf m) : CR ∉ HeaderMap.value k m := by
  simp only [HeaderMap.value]
  split
  · rename_i v t hv
    obtain ⟨k', hk⟩ := mem_of_mem_values (k := k) (x := v) (m := m) (by rw [hv]; simp)
    exact (h _ hk).2.2.2
  · simp

theorem wf_hset {n v : Bytes} {r : Bool} {m : HeaderMap} (h : HdrWf m) (he : EntryOk (n, v)) :
    HdrWf (hset n v r m) := by
  simp only [hset]; split
  · exact wf_insert (wf_remove h) he
  · intro e hm
    have hv : CR ∉ HeaderMap.value n m ++ [44, 32] ++ v := by
      simp only [List.mem_append, not_or]
      exact ⟨⟨value_CR h, by simp [CR]⟩, he.2.2.2⟩
    rcases mem_replace hm with hm | hm | ⟨h2, x, hx⟩
    · subst hm; exact ⟨he.1, he.2.1, he.2.2.1, hv⟩
    · exact h e hm
    · have := h _ hx
      exact ⟨this.1, this.2.1, this.2.2.1, by rw [h2]; exact hv⟩

theorem wf_foldl_insert (l : List (Bytes × Bytes)) (hl : ∀ e ∈ l, EntryOk e) : ∀ {m : HeaderMap}, HdrWf m →
    HdrWf (l.foldl (fun acc e => HeaderMap.insert e.1 e.2 acc) m) := by
  induction l with
  | nil => intro m h; exact h
  | cons e l ih =>
    intro m h
    exact ih (fun e h => hl e (by simp [h])) (wf_insert h (hl e (by simp)))

/-! ### values under a name -/

theorem values_congr {a c : Bytes} (m : HeaderMap) (h : lower a = lower c) :
    HeaderMap.values a m = HeaderMap.values c m := by
  simp only [HeaderMap.values, keyEq, h]

theorem values_insert (k v n : Bytes) (m : HeaderMap) :
    (HeaderMap.values n (HeaderMap.insert k v m)).Perm
      (if keyEq k n then v :: HeaderMap.values n m else HeaderMap.values n m) := by
  induction m with
  | nil => simp only [HeaderMap.insert, HeaderMap.values]; split <;> simp_all
  | cons a m ih =>
    simp only [HeaderMap.insert]
    by_cases hlt : keyLt a.1 k = true
    · simp only [hlt, if_true]
      by_cases ha : keyEq a.1 n = true
      · have e1 : ∀ m', HeaderMap.values n (a :: m') = a.2 :: HeaderMap.values n m' := by
          intro m'; simp [HeaderMap.values, ha]
        rw [e1, e1]
        split at ih
        · rename_i hk; simp only [hk, if_true]
          exact (List.Perm.cons _ ih).trans (List.Perm.swap _ _ _)
        · rename_i hk; simp only [hk]
          exact List.Perm.cons _ ih
      · have e1 : ∀ m', HeaderMap.values n (a :: m') = HeaderMap.values n m' := by
          intro m'; simp [HeaderMap.values, ha]
        rw [e1, e1]; exact ih
    · simp only [hlt]
      by_cases hk : keyEq k n = true
      · simp [HeaderMap.values, hk]
      · simp [HeaderMap.values, hk]

theorem values_remove (k n : Bytes) (m : HeaderMap) :
    HeaderMap.values n (HeaderMap.remove k m) = if keyEq k n then [] else HeaderMap.values n m := by
  by_cases h : keyEq k n = true
  · rw [if_pos h]
    have h' : lower k = lower n := by simpa [keyEq] using h
    simp only [HeaderMap.values, HeaderMap.remove, List.filter_filter, keyEq]
    rw [List.map_eq_nil_iff, List.filter_eq_nil_iff]
    intro e _; simp only [h', Bool.and_eq_true, Bool.not_eq_true', not_and]
    intro h1; simp [h1]
  · rw [if_neg h]
    have h' : ¬ lower k = lower n := by simpa [keyEq] using h
    simp only [HeaderMap.values, HeaderMap.remove, List.filter_filter, keyEq]
    congr 1; apply List.filter_congr
    intro e _
    by_cases h1 : lower e.1 = lower n
    · have : ¬ lower n = lower k := fun e' => h' e'.symm
      simp [h1, this]
    · simp [h1]

theorem count_ne_zero_mem {k : Bytes} {m : HeaderMap} (h : ¬ (HeaderMap.count k m == 0) = true) :
    ∃ e ∈ m, lower e.1 = lower k := by
  have : HeaderMap.values k m ≠ [] := by intro e; apply h; simp [HeaderMap.count, e]
  obtain ⟨x, hx⟩ := List.exists_mem_of_ne_nil _ this
  simp only [HeaderMap.values, List.mem_map, List.mem_filter] at hx
  obtain ⟨e, ⟨he, hk⟩, _⟩ := hx
  exact ⟨e, he, by simpa [keyEq] using hk⟩

theorem values_cons_of_ne {a : Bytes × Bytes} {n : Bytes} (m : HeaderMap) (h : ¬ lower a.1 = lower n) :
    HeaderMap.values n (a :: m) = HeaderMap.values n m := by
  simp [HeaderMap.values, keyEq, h]

theorem values_cons_of_eq {a : Bytes × Bytes} {n : Bytes} (m : HeaderMap) (h : lower a.1 = lower n) :
    HeaderMap.values n (a :: m) = a.2 :: HeaderMap.values n m := by
  simp [HeaderMap.values, keyEq, h]

/-- on a sorted map that has the key, `replace` overwrites the first entry with that key -/
theorem values_replace (k v : Bytes) {m : HeaderMap} (hs : Sorted m) (hc : ∃ e ∈ m, lower e.1 = lower k) :
    HeaderMap.values k (HeaderMap.replace k v m) = v :: (HeaderMap.values k m).tail ∧
    ∀ n, ¬ lower k = lower n → HeaderMap.values n (HeaderMap.replace k v m) = HeaderMap.values n m := by
  induction m with
  | nil => obtain ⟨e, he, _⟩ := hc; simp at he
  | cons a m ih =>
    obtain ⟨k', x⟩ := a
    obtain ⟨h1, h2⟩ := List.pairwise_cons.mp hs
    simp only [HeaderMap.replace]
    by_cases hak : keyEq k' k = true
    · simp only [hak, if_true]
      have hak' : lower k' = lower k := by simpa [keyEq] using hak
      refine ⟨by simp [HeaderMap.values, hak], ?_⟩
      intro n hn
      have : ¬ lower k' = lower n := by rw [hak']; exact hn
      rw [values_cons_of_ne (a := (k', v)) _ this, values_cons_of_ne (a := (k', x)) _ this]
    · simp only [hak, Bool.false_eq_true, if_false]
      have hak' : ¬ lower k' = lower k := by simpa [keyEq] using hak
      have hc' : ∃ e ∈ m, lower e.1 = lower k := by
        obtain ⟨e, he, hek⟩ := hc
        rcases List.mem_cons.mp he with he | he
        · subst he; exact absurd hek hak'
        · exact ⟨e, he, hek⟩
      by_cases hlt : keyLt k' k = true
      · simp only [hlt, if_true]
        obtain ⟨ih1, ih2⟩ := ih h2 hc'
        constructor
        · rw [values_cons_of_ne (a := (k', x)) _ hak', values_cons_of_ne (a := (k', x)) _ hak', ih1]
        · intro n hn
          by_cases han : lower k' = lower n
          · rw [values_cons_of_eq (a := (k', x)) _ han, values_cons_of_eq (a := (k', x)) _ han, ih2 n hn]
          · rw [values_cons_of_ne (a := (k', x)) _ han, values_cons_of_ne (a := (k', x)) _ han, ih2 n hn]
      · exfalso
        obtain ⟨e, he, hek⟩ := hc'
        have h3 := h1 e he
        simp only [keyLt, hek] at h3
        have hlt' : bytesLt (lower k') (lower k) = false := by simpa [keyLt] using hlt
        exact hak' (bytesLt_total hlt' h3)

theorem vs_insert (k v n : Bytes) (m : HeaderMap) :
    (vs n (HeaderMap.insert k v m)).Perm (if keyEq k n then csplit v ++ vs n m else vs n m) := by
  have := values_insert k v n m
  simp only [vs, svals]
  split at this
  · rename_i h; simp only [h, if_true]
    have := this.flatMap_right csplit
    simpa using this
  · rename_i h; simp only [h]
    exact this.flatMap_right csplit

theorem vs_hset_replace (n v n' : Bytes) (m : HeaderMap) :
    (vs n' (hset n v true m)).Perm (if keyEq n n' then csplit v else vs n' m) := by
  simp only [hset, Bool.true_or, if_true]
  refine (vs_insert n v n' _).trans ?_
  simp only [vs, values_remove]
  split <;> simp [svals]

theorem vs_hset_append (n v n' : Bytes) {m : HeaderMap} (hs : Sorted m) :
    (vs n' (hset n v false m)).Perm (if keyEq n n' then vs n' m ++ csplit v else vs n' m) := by
  simp only [hset, Bool.false_or]
  split
  · rename_i hc
    refine (vs_insert n v n' _).trans ?_
    simp only [vs, values_remove]
    split
    · rename_i hk
      have hk' : lower n = lower n' := by simpa [keyEq] using hk
      have : HeaderMap.values n' m = [] := by
        rw [← values_congr m hk']
        simpa [HeaderMap.count] using hc
      simp [this, svals]
    · exact List.Perm.refl _
  · rename_i hc
    obtain ⟨h1, h2⟩ := values_replace n (HeaderMap.value n m ++ [44, 32] ++ v) hs (count_ne_zero_mem hc)
    split
    · rename_i hk
      have hk' : lower n = lower n' := by simpa [keyEq] using hk
      simp only [vs, ← values_congr _ hk', h1]
      simp only [HeaderMap.value]
      cases hv : HeaderMap.values n m with
      | nil => simp [HeaderMap.count, hv] at hc
      | cons x t =>
        simp only [svals, List.flatMap_cons, List.tail_cons, csplit_join]
        simp only [List.append_assoc]
        exact List.Perm.append_left _ List.perm_append_comm
    · rename_i hk
      have hk' : ¬ lower n = lower n' := by simpa [keyEq] using hk
      simp only [vs, h2 n' hk']
      exact List.Perm.refl _

/-! ### case folding -/

theorem lower8_idem (c : UInt8) : lower8 (lower8 c) = lower8 c := by
  have h : ∀ n, n < 256 → lower8 (lower8 (UInt8.ofNat n)) = lower8 (UInt8.ofNat n) := by decide +kernel
  have := h c.toNat c.toNat_lt
  simpa using this

theorem lower_idem (x : Bytes) : lower (lower x) = lower x := by
  simp [lower, lower8_idem]

end Qhttp.C03L
