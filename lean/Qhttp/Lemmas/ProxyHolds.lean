import Qhttp.Lemmas.ProxyHead
import Qhttp.Lemmas.ProxyRun
/-
  C12 — the clauses of the executable predicate `C12.holds` about the forwarded header map,
  stated on the model's `fwdHeaders` (the Props file assembles them).
-/
namespace Qhttp.ProxyL
open Qhttp Proxy Qhttp.HB Qhttp.C03L

/-- the value multiset under a name as `C12.vals` computes it -/
def valsL (n : Bytes) (hs : List (Bytes × Bytes)) : List Bytes :=
  Http.sortBytes ((hs.filter fun h => lower h.1 == lower n).map (·.2))

theorem valsL_eq (n : Bytes) (hs : List (Bytes × Bytes)) :
    valsL n hs = Http.sortBytes (HeaderMap.values n hs) := rfl

/-- every client header (other than the two proxy headers) arrives with its values -/
theorem clause_headers (c : Cfg) (h : HeaderMap) :
    h.all (fun e => lower e.1 == lower XFF || lower e.1 == lower XRI ||
                    valsL e.1 (fwdHeaders c h) == valsL e.1 h) = true := by
  rw [List.all_eq_true]
  intro e _
  by_cases h1 : lower e.1 = lower XFF
  · simp [h1]
  · by_cases h2 : lower e.1 = lower XRI
    · simp [h2]
    · have k1 : HeaderMap.keyEq XFF e.1 = false := by
        cases hk : HeaderMap.keyEq XFF e.1
        · rfl
        · exact absurd (HeaderMap.keyEq_iff.mp hk).symm h1
      have k2 : HeaderMap.keyEq XRI e.1 = false := by
        cases hk : HeaderMap.keyEq XRI e.1
        · rfl
        · exact absurd (HeaderMap.keyEq_iff.mp hk).symm h2
      rw [valsL_eq, valsL_eq, headers_forwarded c h e.1 k1 k2]
      simp

/-! ### X-Forwarded-For -/

/-- the combined list as `C12.holds` computes it from parsed header entries -/
def combinedL (hs : List (Bytes × Bytes)) : List Bytes :=
  (hs.filter fun h => lower h.1 == lower XFF).flatMap (fun h => splitF [44, 32] (h.2.length + 1) none h.2)

theorem combinedL_eq (hs : List (Bytes × Bytes)) :
    combinedL hs = (HeaderMap.values XFF hs).flatMap csplit := by
  simp only [combinedL, HeaderMap.values, List.flatMap_map]
  rfl

theorem csplit_xff (vs : List Bytes) (peer : Bytes) :
    csplit ((vs.flatMap fun v => v ++ [44, 32]) ++ peer) = vs.flatMap csplit ++ csplit peer := by
  induction vs with
  | nil => simp
  | cons v vs ih =>
    have : ((v :: vs).flatMap fun v => v ++ [44, 32]) ++ peer =
        v ++ [44, 32] ++ ((vs.flatMap fun v => v ++ [44, 32]) ++ peer) := by
      simp [List.append_assoc]
    rw [this, csplit_join, ih]
    simp

theorem combinedL_fwd (c : Cfg) (h : HeaderMap) :
    combinedL (fwdHeaders c h) = (HeaderMap.values XFF h).reverse.flatMap csplit ++ csplit c.peerIP := by
  rw [combinedL_eq, xff_ends_with_peer]
  simp only [List.flatMap_cons, List.flatMap_nil, List.append_nil]
  exact csplit_xff _ _

/-- the combined X-Forwarded-For list ends with the peer address and keeps every client entry -/
theorem clause_xff (c : Cfg) (h : HeaderMap) (hpeer : (44 : UInt8) ∉ c.peerIP) :
    ((combinedL (fwdHeaders c h)).getLast? == some c.peerIP &&
      (h.filter fun e => lower e.1 == lower XFF).all fun e =>
        (splitF [44, 32] (e.2.length + 1) none e.2).all fun v => (combinedL (fwdHeaders c h)).contains v) = true := by
  have hp : csplit c.peerIP = [c.peerIP] := splitAll_of_not_mem (c := 44) (d := [32]) hpeer
  rw [combinedL_fwd, hp]
  simp only [Bool.and_eq_true]
  constructor
  · simp
  · rw [List.all_eq_true]
    intro e he
    rw [List.all_eq_true]
    intro v hv
    rw [List.contains_iff_mem]
    apply List.mem_append_left
    rw [List.mem_flatMap]
    refine ⟨e.2, ?_, hv⟩
    rw [List.mem_reverse]
    simp only [HeaderMap.values, List.mem_map]
    exact ⟨e, he, rfl⟩

/-! ### X-Real-IP -/

theorem sortBytes_single (x : Bytes) : Http.sortBytes [x] = [x] := rfl

theorem clause_xri (c : Cfg) (h : HeaderMap) :
    (if HeaderMap.contains XRI h then valsL XRI (fwdHeaders c h) == valsL XRI h
     else valsL XRI (fwdHeaders c h) == [c.peerIP]) = true := by
  rw [valsL_eq, valsL_eq, xri]
  split
  · simp
  · simp [sortBytes_single]

/-! ### the request line -/

theorem HTTP11_lit : Parser.HTTP11 = lit ['H','T','T','P','/','1','.','1'] := rfl

/-- the target clause of `C12.holds` -/
theorem clause_target (c : Cfg) (raw : Bytes) :
    (!containsByte CR (target c.path raw) && !containsByte LF (target c.path raw) &&
      (let (p, q) := match breakOn [63] (target c.path raw) with
                     | some (a, b) => (a, 63 :: b) | none => (target c.path raw, [])
       Fs.pctDecode p == 47 :: c.path && !containsByte SP q &&
         Fs.pctDecode q == Fs.pctDecode (rawQuery raw))) = true := by
  obtain ⟨_, t2, t3⟩ := target_clean c.path raw
  have hsp := Http.containsByte_eq_false.mpr (SP_not_mem_query raw)
  have hdq := pctDecode_upstreamQuery raw
  rw [Http.containsByte_eq_false.mpr t2, Http.containsByte_eq_false.mpr t3]
  rcases breakOn_target_cases c.path raw with ⟨hb, ht, hq⟩ | ⟨q, hb, hq⟩
  · rw [hb]
    simp only [ht, pctDecode_encPath]
    rw [hq] at hdq
    rw [← hdq]
    simp [containsByte]
  · rw [hb]
    simp only [pctDecode_encPath]
    rw [hq] at hsp hdq
    rw [hsp, hdq]
    simp

end Qhttp.ProxyL
