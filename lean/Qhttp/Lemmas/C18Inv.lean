import Qhttp.Lemmas.C18Head
import Qhttp.Props.C03
/-
  C18, part 2: the inductive invariant of the write side under acknowledgements, for the silent
  application.  The history walk of `C18.walk` is restated with the acknowledgement function
  abstracted (`walk'`), so that nothing here depends on `Props/C18.lean`.
-/
namespace Qhttp
namespace C18L

/-! ### the history walk -/

/-- ghost state of the walk: bytes written, bytes acknowledged, bytes notified -/
structure WSt where
  written : Nat := 0
  acked : Nat := 0
  sum : Int := 0

def wstep (ack : Nat → Nat → Nat) (st : WSt) : Obs → WSt
  | .ev k => { st with acked := st.acked + ack k (st.written - st.acked) }
  | .w b => { st with written := st.written + b.length }
  | .bw n => { st with sum := st.sum + n }
  | _ => st

def wok (h : Nat) (st : WSt) : Obs → Bool
  | .bw n => n ≥ 0 && st.sum + n ≤ ((st.acked : Int) - h) && st.sum + n ≤ ((st.written : Int) - h)
  | _ => true

def track (ack : Nat → Nat → Nat) (l : List Obs) (st : WSt := {}) : WSt := l.foldl (wstep ack) st

def walk' (ack : Nat → Nat → Nat) (h : Nat) : List Obs → WSt → Bool
  | [], _ => true
  | o :: l, st => wok h st o && walk' ack h l (wstep ack st o)

def isBw : Obs → Bool | .bw _ => true | _ => false

/-- observations the walk, the wire and `ended` do not look at -/
def quiet : Obs → Bool
  | .ev _ => false | .w _ => false | .bw _ => false | .tc => false | _ => true

@[simp] theorem track_snoc (ack l o st) : track ack (l ++ [o]) st = wstep ack (track ack l st) o := by
  simp [track, List.foldl_append]

theorem walk'_snoc (ack h l o st) :
    walk' ack h (l ++ [o]) st = (walk' ack h l st && wok h (track ack l st) o) := by
  induction l generalizing st with
  | nil => simp [walk', track]
  | cons p l ih => simp [walk', ih, track, Bool.and_assoc]

theorem wstep_quiet (ack st o) (h : quiet o = true) : wstep ack st o = st := by
  cases o <;> simp_all [quiet, wstep]

theorem wok_quiet (hh st o) (h : quiet o = true) : wok hh st o = true := by
  cases o <;> simp_all [quiet, wok]

theorem wire_snoc (l : List Obs) (o : Obs) :
    Obs.wire (l ++ [o]) = Obs.wire l ++ (match o with | .w b => b | _ => []) := by
  simp only [Obs.wire, List.flatMap_append, List.flatMap_cons, List.flatMap_nil, List.append_nil]
  cases o <;> rfl

theorem wire_snoc_quiet (l : List Obs) (o : Obs) (h : quiet o = true) :
    Obs.wire (l ++ [o]) = Obs.wire l := by
  rw [wire_snoc]; cases o <;> simp_all [quiet]

theorem isTc_quiet (o : Obs) (h : quiet o = true) : Obs.isTc o = false := by
  cases o <;> simp_all [quiet, Obs.isTc]

theorem isBw_quiet (o : Obs) (h : quiet o = true) : isBw o = false := by
  cases o <;> simp_all [quiet, isBw]

def noBw (l : List Obs) : Bool := l.all (fun o => !isBw o)

theorem walk'_noBw (ack h l st) (hl : noBw l = true) : walk' ack h l st = true := by
  induction l generalizing st with
  | nil => rfl
  | cons o l ih =>
    simp only [noBw, List.all_cons, Bool.and_eq_true] at hl
    simp only [walk', Bool.and_eq_true]
    refine ⟨?_, ih _ (by simpa [noBw] using hl.2)⟩
    cases o <;> simp_all [wok, isBw]

theorem track_sum (ack : Nat → Nat → Nat) (l : List Obs) (st : WSt) :
    (track ack l st).sum = l.foldl (fun a o => match o with | .bw n => a + n | _ => a) st.sum := by
  induction l generalizing st with
  | nil => rfl
  | cons o l ih =>
    simp only [track, List.foldl_cons] at ih ⊢
    rw [ih]
    cases o <;> simp [wstep]

theorem track_sum_noBw (ack l st) (hl : noBw l = true) : (track ack l st).sum = st.sum := by
  induction l generalizing st with
  | nil => rfl
  | cons o l ih =>
    simp only [noBw, List.all_cons, Bool.and_eq_true] at hl
    simp only [track, List.foldl_cons] at ih ⊢
    rw [ih _ (by simpa [noBw] using hl.2)]
    cases o <;> simp_all [wstep, isBw]


theorem track_quiet (ack l q st) (hq : List.all q quiet = true) : track ack (l ++ q) st = track ack l st := by
  induction q generalizing l with
  | nil => simp
  | cons o q ih =>
    simp only [List.all_cons, Bool.and_eq_true] at hq
    have : l ++ o :: q = (l ++ [o]) ++ q := by simp
    rw [this, ih _ hq.2, track_snoc, wstep_quiet _ _ _ hq.1]

theorem walk'_quiet (ack h l q st) (hq : List.all q quiet = true) :
    walk' ack h (l ++ q) st = walk' ack h l st := by
  induction q generalizing l with
  | nil => simp
  | cons o q ih =>
    simp only [List.all_cons, Bool.and_eq_true] at hq
    have : l ++ o :: q = (l ++ [o]) ++ q := by simp
    rw [this, ih _ hq.2, walk'_snoc, wok_quiet _ _ _ hq.1, Bool.and_true]

theorem wire_quiet (l q : List Obs) (hq : List.all q quiet = true) : Obs.wire (l ++ q) = Obs.wire l := by
  induction q generalizing l with
  | nil => simp
  | cons o q ih =>
    simp only [List.all_cons, Bool.and_eq_true] at hq
    have : l ++ o :: q = (l ++ [o]) ++ q := by simp
    rw [this, ih _ hq.2, wire_snoc_quiet _ _ hq.1]

theorem anyTc_quiet (l q : List Obs) (hq : List.all q quiet = true) :
    (l ++ q).any Obs.isTc = l.any Obs.isTc := by
  induction q generalizing l with
  | nil => simp
  | cons o q ih =>
    simp only [List.all_cons, Bool.and_eq_true] at hq
    have : l ++ o :: q = (l ++ [o]) ++ q := by simp
    rw [this, ih _ hq.2]; simp [isTc_quiet _ hq.1]

theorem noBw_quiet (l q : List Obs) (hq : List.all q quiet = true) : noBw (l ++ q) = noBw l := by
  induction q generalizing l with
  | nil => simp
  | cons o q ih =>
    simp only [List.all_cons, Bool.and_eq_true] at hq
    have : l ++ o :: q = (l ++ [o]) ++ q := by simp
    rw [this, ih _ hq.2]; simp [noBw, isBw_quiet _ hq.1]

/-! ### the invariant -/

/-- facts common to all phases -/
structure Core (ack : Nat → Nat → Nat) (s : Sock) : Prop where
  alive : s.alive = true
  wire : Obs.wire s.log = s.tcp.wire
  wr : (track ack s.log).written = s.tcp.wire.length
  ak : (track ack s.log).acked + s.tcp.unacked = s.tcp.wire.length
  tc : s.tcp.devOpen = true → s.log.any Obs.isTc = false
  tc2 : s.tcp.devOpen = false → s.log.any Obs.isTc = true

/-- the response can still be written to -/
def live (s : Sock) : Prop := s.tcp.devOpen = true ∧ s.tcp.conn = .connected ∧ s.ioOpen = true

/-- phase A: no head requested yet -/
structure PhA (s : Sock) : Prop where
  ws : s.ws = .none
  wire : s.tcp.wire = []
  un : s.tcp.unacked = 0
  lv : live s
  clean : cleanHead s = true
  nobw : noBw s.log = true

/-- phase B: closed before anything was written -/
structure PhB (s : Sock) : Prop where
  dev : s.tcp.devOpen = false
  wire : s.tcp.wire = []
  un : s.tcp.unacked = 0
  nobw : noBw s.log = true

/-- phase C: the head, `h` bytes long, is on the wire -/
structure PhC (ack : Nat → Nat → Nat) (h : Nat) (s : Sock) : Prop where
  hl : (breakOn CRLF2 s.tcp.wire).map (fun p => p.1.length + 4) = some h
  wk : walk' ack h s.log {} = true
  st : (s.ws = .headers ∧ live s ∧ s.hdrRemaining = (h : Int) - (track ack s.log).acked ∧
          (track ack s.log).acked < h ∧ (track ack s.log).sum = 0)
     ∨ (s.ws = .data ∧ live s ∧ h ≤ (track ack s.log).acked ∧
          (track ack s.log).sum = ((track ack s.log).acked : Int) - h)
     ∨ (s.ws = .finished ∧ s.tcp.devOpen = false ∧ s.ioOpen = false)

/-- `s'` differs from `s` in nothing the invariant looks at, except quiet observations -/
structure Frame (s s' : Sock) : Prop where
  tcp : s'.tcp = s.tcp
  ws : s'.ws = s.ws
  hdr : s'.hdrRemaining = s.hdrRemaining
  io : s'.ioOpen = s.ioOpen
  alive : s'.alive = s.alive
  log : ∃ q, List.all q quiet = true ∧ s'.log = s.log ++ q

theorem Frame.refl (s : Sock) : Frame s s := ⟨rfl, rfl, rfl, rfl, rfl, [], rfl, by simp⟩

theorem Frame.trans {a b c : Sock} (h1 : Frame a b) (h2 : Frame b c) : Frame a c := by
  obtain ⟨q1, hq1, hl1⟩ := h1.log
  obtain ⟨q2, hq2, hl2⟩ := h2.log
  exact ⟨h2.tcp.trans h1.tcp, h2.ws.trans h1.ws, h2.hdr.trans h1.hdr, h2.io.trans h1.io,
    h2.alive.trans h1.alive, q1 ++ q2, by simp [hq1, hq2], by rw [hl2, hl1]; simp⟩

theorem Core.frame {ack s s'} (f : Frame s s') (c : Core ack s) : Core ack s' := by
  obtain ⟨q, hq, hl⟩ := f.log
  constructor
  · rw [f.alive]; exact c.alive
  · rw [hl, f.tcp, wire_quiet _ _ hq]; exact c.wire
  · rw [hl, f.tcp, track_quiet _ _ _ _ hq]; exact c.wr
  · rw [hl, f.tcp, track_quiet _ _ _ _ hq]; exact c.ak
  · rw [hl, f.tcp, anyTc_quiet _ _ hq]; exact c.tc
  · rw [hl, f.tcp, anyTc_quiet _ _ hq]; exact c.tc2

theorem live_frame {s s'} (f : Frame s s') (h : live s) : live s' := by
  unfold live at *; rw [f.tcp, f.io]; exact h

theorem PhA.frame {s s'} (f : Frame s s') (hc : cleanHead s' = true) (p : PhA s) : PhA s' := by
  obtain ⟨q, hq, hl⟩ := f.log
  exact ⟨by rw [f.ws]; exact p.ws, by rw [f.tcp]; exact p.wire, by rw [f.tcp]; exact p.un,
    live_frame f p.lv, hc, by rw [hl, noBw_quiet _ _ hq]; exact p.nobw⟩

theorem PhB.frame {s s'} (f : Frame s s') (p : PhB s) : PhB s' := by
  obtain ⟨q, hq, hl⟩ := f.log
  exact ⟨by rw [f.tcp]; exact p.dev, by rw [f.tcp]; exact p.wire, by rw [f.tcp]; exact p.un,
    by rw [hl, noBw_quiet _ _ hq]; exact p.nobw⟩

theorem PhC.frame {ack h s s'} (f : Frame s s') (p : PhC ack h s) : PhC ack h s' := by
  obtain ⟨q, hq, hl⟩ := f.log
  refine ⟨by rw [f.tcp]; exact p.hl, by rw [hl, walk'_quiet _ _ _ _ _ hq]; exact p.wk, ?_⟩
  rw [hl, track_quiet _ _ _ _ hq, f.ws, f.hdr]
  rcases p.st with h1 | h1 | h1
  · exact Or.inl ⟨h1.1, live_frame f h1.2.1, h1.2.2⟩
  · exact Or.inr (Or.inl ⟨h1.1, live_frame f h1.2.1, h1.2.2⟩)
  · exact Or.inr (Or.inr (by rw [f.tcp, f.io]; exact h1))


/-! ### the transport primitives -/

/-- what `tcpWrite` does when it writes -/
def wrote (s : Sock) (b : Bytes) : Sock :=
  { s with tcp := { s.tcp with wire := s.tcp.wire ++ b, unacked := s.tcp.unacked + b.length },
           log := s.log ++ [Obs.w b] }

theorem tcpWrite_cases (s : Sock) (b : Bytes) :
    Sock.tcpWrite s b = s ∨
    (s.tcp.devOpen = true ∧ s.tcp.conn = .connected ∧ b ≠ [] ∧ Sock.tcpWrite s b = wrote s b) := by
  unfold Sock.tcpWrite wrote
  split
  · rename_i h
    simp only [Bool.and_eq_true, beq_iff_eq, Bool.not_eq_true', List.isEmpty_eq_false_iff] at h
    exact Or.inr ⟨h.1.1, h.1.2, h.2, rfl⟩
  · exact Or.inl rfl

theorem tcpWrite_dead (s : Sock) (b : Bytes) (h : s.tcp.devOpen = false) : Sock.tcpWrite s b = s := by
  simp [Sock.tcpWrite, h]

theorem tcpWrite_live (s : Sock) (b : Bytes) (h1 : s.tcp.devOpen = true) (h2 : s.tcp.conn = .connected)
    (hb : b ≠ []) : Sock.tcpWrite s b = wrote s b := by
  simp [Sock.tcpWrite, wrote, h1, h2, hb]

theorem Core.wrote {ack s} (b : Bytes) (c : Core ack s) : Core ack (wrote s b) := by
  constructor
  · exact c.alive
  · simp [C18L.wrote, wire_snoc, c.wire]
  · simp [C18L.wrote, wstep, c.wr]
  · simp only [C18L.wrote, track_snoc, wstep, List.length_append]
    have := c.ak; omega
  · intro h; simp only [C18L.wrote] at h ⊢; simp [c.tc h, Obs.isTc]
  · intro h; simp only [C18L.wrote] at h ⊢; simp [c.tc2 h]

theorem Core.tcpWrite {ack s} (b : Bytes) (c : Core ack s) : Core ack (Sock.tcpWrite s b) := by
  rcases tcpWrite_cases s b with h | ⟨_, _, _, h⟩ <;> rw [h]
  · exact c
  · exact c.wrote b

theorem PhB.tcpWrite {s} (b : Bytes) (p : PhB s) : Sock.tcpWrite s b = s := tcpWrite_dead s b p.dev

theorem PhC.wrote {ack h s} (b : Bytes) (p : PhC ack h s) : PhC ack h (wrote s b) := by
  refine ⟨?_, ?_, ?_⟩
  · have := p.hl
    cases hb : breakOn CRLF2 s.tcp.wire with
    | none => simp [hb] at this
    | some ar =>
      obtain ⟨a, r⟩ := ar
      simp only [C18L.wrote]
      rw [breakOn_append _ _ b a r hb]
      simpa [hb] using this
  · simp only [C18L.wrote, walk'_snoc, p.wk, wok, Bool.and_self]
  · simp only [C18L.wrote, track_snoc, wstep]
    exact p.st

theorem PhC.tcpWrite {ack h s} (b : Bytes) (p : PhC ack h s) : PhC ack h (Sock.tcpWrite s b) := by
  rcases tcpWrite_cases s b with h | ⟨_, _, _, h⟩ <;> rw [h]
  · exact p
  · exact p.wrote b


/-! ### the response-side functions -/

theorem headBytes_ne_nil (s : Sock) : Sock.headBytes s ≠ [] := by
  simp [Sock.headBytes, lit]

theorem writeHeaders_A {ack s} (c : Core ack s) (p : PhA s) :
    Core ack (Sock.writeHeaders s) ∧ PhC ack (Sock.headBytes s).length (Sock.writeHeaders s) ∧
    (Sock.writeHeaders s).ws = .headers := by
  have hw : Sock.writeHeaders s
      = wrote { s with ws := .headers, hdrRemaining := (Sock.headBytes s).length } (Sock.headBytes s) := by
    unfold Sock.writeHeaders
    exact tcpWrite_live _ _ p.lv.1 p.lv.2.1 (headBytes_ne_nil s)
  have c1 : Core ack { s with ws := .headers, hdrRemaining := (Sock.headBytes s).length } :=
    ⟨c.alive, c.wire, c.wr, c.ak, c.tc, c.tc2⟩
  obtain ⟨a, ha, hl⟩ := breakOn_head s p.clean []
  have hacked : (track ack s.log).acked = 0 := by
    have := c.ak; rw [p.wire, p.un] at this; simpa using this
  rw [hw]
  refine ⟨c1.wrote _, ⟨?_, ?_, ?_⟩, rfl⟩
  · simp only [C18L.wrote, p.wire, List.nil_append]
    rw [List.append_nil] at ha
    simp [ha, hl]
  · simp only [C18L.wrote, walk'_snoc, wok, Bool.and_true]
    exact walk'_noBw _ _ _ _ p.nobw
  · left
    simp only [C18L.wrote, track_snoc, wstep, hacked]
    refine ⟨trivial, p.lv, by simp, by omega, ?_⟩
    rw [track_sum_noBw _ _ _ p.nobw]

theorem writeHeaders_B {s} (p : PhB s) :
    Frame s (Sock.writeHeaders s) ∨
    (Sock.writeHeaders s = { s with ws := .headers, hdrRemaining := (Sock.headBytes s).length }) := by
  right
  unfold Sock.writeHeaders
  exact tcpWrite_dead _ _ p.dev


theorem noCR_of_hasCRLF (x : Bytes) (h : C03.hasCRLF x = false) : noCR x = true := by
  simp only [C03.hasCRLF, containsByte, CR, Bool.or_eq_false_iff] at h
  simp only [noCR, List.all_eq_true, bne_iff_ne, ne_eq]
  intro c hc hc13
  have := h.1
  simp only [List.any_eq_false, beq_iff_eq] at this
  exact this c hc hc13

theorem read_frame (s : Sock) (n : Nat) : Frame s (Sock.read s n).1 := by
  simp only [Sock.read, Sock.readData]
  repeat' split
  all_goals exact ⟨rfl, rfl, rfl, rfl, rfl, [], rfl, by simp⟩

theorem readAll_frame (s : Sock) : Frame s (Sock.readAll s).1 := by
  simp only [Sock.readAll, Sock.readData]
  repeat' split
  all_goals exact ⟨rfl, rfl, rfl, rfl, rfl, [], rfl, by simp⟩

theorem setStatusCode_frame (s : Sock) (c : Int) (r : Option Bytes) : Frame s (Sock.setStatusCode s c r) :=
  ⟨rfl, rfl, rfl, rfl, rfl, [], rfl, by simp [Sock.setStatusCode]⟩

theorem setHeader_frame (s : Sock) (n v : Bytes) (r : Bool) : Frame s (Sock.setHeader s n v r) := by
  unfold Sock.setHeader
  split <;> exact ⟨rfl, rfl, rfl, rfl, rfl, [], rfl, by simp⟩

theorem log_frame (s : Sock) (o : Obs) (h : quiet o = true) : Frame s { s with log := s.log ++ [o] } :=
  ⟨rfl, rfl, rfl, rfl, rfl, [o], by simp [h], rfl⟩

theorem close_spec (s : Sock) :
    (Sock.close s).ws = .finished ∧ (Sock.close s).ioOpen = false ∧ (Sock.close s).alive = s.alive ∧
    (Sock.close s).tcp.devOpen = false ∧ (Sock.close s).tcp.wire = s.tcp.wire ∧
    (Sock.close s).tcp.unacked = s.tcp.unacked ∧
    (Sock.close s).log = (if s.tcp.devOpen then s.log ++ [Obs.tc] else s.log) := by
  simp only [Sock.close, Sock.tcpClose]
  cases hd : s.tcp.devOpen
  · simp [hd]
  · cases hc : s.tcp.conn
    · simp; split <;> simp
    · simp
    · simp

/-! #### phase B: nothing reaches the wire any more -/

/-- `s'` has the transport and lifetime of `s` and only quiet observations more -/
structure BFrame (s s' : Sock) : Prop where
  tcp : s'.tcp = s.tcp
  alive : s'.alive = s.alive
  log : ∃ q, List.all q quiet = true ∧ s'.log = s.log ++ q

theorem Frame.b {s s'} (f : Frame s s') : BFrame s s' := ⟨f.tcp, f.alive, f.log⟩

theorem BFrame.refl (s : Sock) : BFrame s s := (Frame.refl s).b

theorem BFrame.trans {a b c : Sock} (h1 : BFrame a b) (h2 : BFrame b c) : BFrame a c := by
  obtain ⟨q1, hq1, hl1⟩ := h1.log
  obtain ⟨q2, hq2, hl2⟩ := h2.log
  exact ⟨h2.tcp.trans h1.tcp, h2.alive.trans h1.alive, q1 ++ q2, by simp [hq1, hq2], by rw [hl2, hl1]; simp⟩

theorem Core.bframe {ack s s'} (f : BFrame s s') (c : Core ack s) : Core ack s' := by
  obtain ⟨q, hq, hl⟩ := f.log
  constructor
  · rw [f.alive]; exact c.alive
  · rw [hl, f.tcp, wire_quiet _ _ hq]; exact c.wire
  · rw [hl, f.tcp, track_quiet _ _ _ _ hq]; exact c.wr
  · rw [hl, f.tcp, track_quiet _ _ _ _ hq]; exact c.ak
  · rw [hl, f.tcp, anyTc_quiet _ _ hq]; exact c.tc
  · rw [hl, f.tcp, anyTc_quiet _ _ hq]; exact c.tc2

theorem PhB.bframe {s s'} (f : BFrame s s') (p : PhB s) : PhB s' := by
  obtain ⟨q, hq, hl⟩ := f.log
  exact ⟨by rw [f.tcp]; exact p.dev, by rw [f.tcp]; exact p.wire, by rw [f.tcp]; exact p.un,
    by rw [hl, noBw_quiet _ _ hq]; exact p.nobw⟩

theorem writeHeaders_dead (s : Sock) (h : s.tcp.devOpen = false) : BFrame s (Sock.writeHeaders s) := by
  unfold Sock.writeHeaders
  show BFrame s (Sock.tcpWrite _ _)
  rw [tcpWrite_dead]
  · exact ⟨rfl, rfl, [], rfl, by simp⟩
  · exact h

theorem write_dead (s : Sock) (b : Bytes) (h : s.tcp.devOpen = false) : BFrame s (Sock.write s b) := by
  unfold Sock.write
  split
  · exact BFrame.refl s
  · split
    · have f := writeHeaders_dead s h
      rw [tcpWrite_dead _ _ (by rw [f.tcp]; exact h)]
      exact f
    · rw [tcpWrite_dead _ _ h]; exact BFrame.refl s

theorem close_dead (s : Sock) (h : s.tcp.devOpen = false) : BFrame s (Sock.close s) := by
  simp only [Sock.close, Sock.tcpClose, h]
  exact ⟨rfl, rfl, [], rfl, by simp⟩

theorem writeError_dead (env : Env) (s : Sock) (c : Int) (r : Option Bytes) (h : s.tcp.devOpen = false) :
    BFrame s (Sock.writeError env s c r) := by
  unfold Sock.writeError
  have f1 := (setStatusCode_frame s c r).b
  have f2 := f1.trans (setHeader_frame _ Sock.CONTENT_LENGTH
    (natDigits (env.errPage (Sock.setStatusCode s c r).code (Sock.setStatusCode s c r).reason).length) true).b
  have f3 := f2.trans (setHeader_frame _ Sock.CONTENT_TYPE Sock.TEXT_HTML true).b
  have f4 := f3.trans (writeHeaders_dead _ (by rw [f3.tcp]; exact h))
  have f5 := f4.trans (write_dead _ (env.errPage (Sock.setStatusCode s c r).code (Sock.setStatusCode s c r).reason)
    (by rw [f4.tcp]; exact h))
  exact f5.trans (close_dead _ (by rw [f5.tcp]; exact h))

theorem writeRedirect_dead (s : Sock) (p : Bytes) (pm : Bool) (h : s.tcp.devOpen = false) :
    BFrame s (Sock.writeRedirect s p pm) := by
  unfold Sock.writeRedirect
  have f1 := (setStatusCode_frame s (if pm then 301 else 302) none).b
  have f2 := f1.trans (setHeader_frame _ (lit ['L','o','c','a','t','i','o','n']) p true).b
  have f3 := f2.trans (writeHeaders_dead _ (by rw [f2.tcp]; exact h))
  exact f3.trans (close_dead _ (by rw [f3.tcp]; exact h))

theorem writeJson_dead (s : Sock) (bd : Bytes) (c : Int) (h : s.tcp.devOpen = false) :
    BFrame s (Sock.writeJson s bd c) := by
  unfold Sock.writeJson
  have f1 := (setStatusCode_frame s c none).b
  have f2 := f1.trans (setHeader_frame _ Sock.CONTENT_LENGTH (natDigits bd.length) true).b
  have f3 := f2.trans (setHeader_frame _ Sock.CONTENT_TYPE Sock.APP_JSON true).b
  have f4 := f3.trans (write_dead _ bd (by rw [f3.tcp]; exact h))
  exact f4.trans (close_dead _ (by rw [f4.tcp]; exact h))

/-- API calls the scenario may make: anything but recording an observation the walk looks at -/
def okOp : ApiOp → Bool
  | .note o => quiet o
  | _ => true

theorem apiPrim_dead (env : Env) (s : Sock) (op : ApiOp) (hop : okOp op = true)
    (h : s.tcp.devOpen = false) : BFrame s (Sock.apiPrim env s op) := by
  unfold Sock.apiPrim
  split
  · exact BFrame.refl s
  · cases op with
    | read n => exact (read_frame s n).b.trans (log_frame _ _ rfl).b
    | readAll => exact (readAll_frame s).b.trans (log_frame _ _ rfl).b
    | avail => exact (log_frame _ _ rfl).b
    | snap => exact (log_frame _ _ rfl).b
    | status c r => exact (setStatusCode_frame s c r).b
    | hdr n v r => exact (setHeader_frame s n v r).b
    | hdrs m => exact ⟨rfl, rfl, [], rfl, by simp⟩
    | wh => exact writeHeaders_dead s h
    | write bs => exact write_dead s bs h
    | err c r => exact writeError_dead env s c r h
    | redir p pm => exact writeRedirect_dead s p pm h
    | json bd c => exact writeJson_dead s bd c h
    | close => exact close_dead s h
    | note o => exact (log_frame s o hop).b


/-! #### phases A and C -/

theorem write_A {ack s} (b : Bytes) (c : Core ack s) (p : PhA s) :
    Core ack (Sock.write s b) ∧ ∃ h, PhC ack h (Sock.write s b) := by
  have hw : Sock.write s b = Sock.tcpWrite (Sock.writeHeaders s) b := by
    simp [Sock.write, p.lv.2.2, p.ws]
  obtain ⟨c1, p1, _⟩ := writeHeaders_A c p
  rw [hw]
  exact ⟨c1.tcpWrite b, _, p1.tcpWrite b⟩

theorem PhC.ws_ne {ack h s} (p : PhC ack h s) : s.ws ≠ .none := by
  rcases p.st with h1 | h1 | h1 <;> rw [h1.1] <;> simp

theorem write_C {ack h s} (b : Bytes) (c : Core ack s) (p : PhC ack h s) :
    Core ack (Sock.write s b) ∧ PhC ack h (Sock.write s b) := by
  unfold Sock.write
  split
  · exact ⟨c, p⟩
  · rw [if_neg p.ws_ne]
    exact ⟨c.tcpWrite b, p.tcpWrite b⟩

theorem Core.close {ack s} (c : Core ack s) : Core ack (Sock.close s) := by
  obtain ⟨_, _, h3, h4, h5, h6, h7⟩ := close_spec s
  constructor
  · rw [h3]; exact c.alive
  · rw [h7, h5]; split
    · rw [wire_snoc]; simpa using c.wire
    · exact c.wire
  · rw [h7, h5]; split
    · simpa [wstep] using c.wr
    · exact c.wr
  · rw [h7, h5, h6]; split
    · simpa [wstep] using c.ak
    · exact c.ak
  · rw [h4]; intro h; cases h
  · intro _; rw [h7]; split
    · simp [Obs.isTc]
    · rename_i hd; exact c.tc2 (by simpa using hd)

theorem close_A {ack s} (c : Core ack s) (p : PhA s) : Core ack (Sock.close s) ∧ PhB (Sock.close s) := by
  obtain ⟨_, _, h3, h4, h5, h6, h7⟩ := close_spec s
  refine ⟨c.close, h4, by rw [h5]; exact p.wire, by rw [h6]; exact p.un, ?_⟩
  rw [h7, p.lv.1]
  simp only [↓reduceIte, noBw, List.all_append, List.all_cons, List.all_nil, Bool.and_true, Bool.and_eq_true]
  exact ⟨p.nobw, rfl⟩

theorem close_C {ack h s} (c : Core ack s) (p : PhC ack h s) :
    Core ack (Sock.close s) ∧ PhC ack h (Sock.close s) := by
  obtain ⟨h1, h2, h3, h4, h5, h6, h7⟩ := close_spec s
  refine ⟨c.close, ?_, ?_, Or.inr (Or.inr ⟨h1, h4, h2⟩)⟩
  · rw [h5]; exact p.hl
  · rw [h7]; split
    · rw [walk'_snoc, p.wk]; rfl
    · exact p.wk


theorem setStatusCode_A {ack s} (c : Int) (r : Option Bytes) (hr : ∀ x, r = some x → noCR x = true)
    (co : Core ack s) (p : PhA s) :
    Core ack (Sock.setStatusCode s c r) ∧ PhA (Sock.setStatusCode s c r) :=
  ⟨co.frame (setStatusCode_frame s c r),
   p.frame (setStatusCode_frame s c r) (cleanHead_setStatusCode s c r hr p.clean)⟩

theorem setHeader_A {ack s} (n v : Bytes) (r : Bool) (hn : noCR n = true) (hv : noCR v = true)
    (co : Core ack s) (p : PhA s) :
    Core ack (Sock.setHeader s n v r) ∧ PhA (Sock.setHeader s n v r) :=
  ⟨co.frame (setHeader_frame s n v r),
   p.frame (setHeader_frame s n v r) (cleanHead_setHeader s n v r hn hv p.clean)⟩

theorem writeError_A {ack s} (env : Env) (c : Int) (r : Option Bytes)
    (hr : ∀ x, r = some x → noCR x = true) (co : Core ack s) (p : PhA s) :
    Core ack (Sock.writeError env s c r) ∧ ∃ h, PhC ack h (Sock.writeError env s c r) := by
  unfold Sock.writeError
  obtain ⟨c1, p1⟩ := setStatusCode_A c r hr co p
  obtain ⟨c2, p2⟩ := setHeader_A Sock.CONTENT_LENGTH
    (natDigits (env.errPage (Sock.setStatusCode s c r).code (Sock.setStatusCode s c r).reason).length) true
    (by decide) (noCR_natDigits _) c1 p1
  obtain ⟨c3, p3⟩ := setHeader_A Sock.CONTENT_TYPE Sock.TEXT_HTML true (by decide) (by decide) c2 p2
  obtain ⟨c4, p4, _⟩ := writeHeaders_A c3 p3
  obtain ⟨c5, p5⟩ := write_C (env.errPage (Sock.setStatusCode s c r).code (Sock.setStatusCode s c r).reason) c4 p4
  obtain ⟨c6, p6⟩ := close_C c5 p5
  exact ⟨c6, _, p6⟩

theorem writeRedirect_A {ack s} (path : Bytes) (pm : Bool) (hp : noCR path = true)
    (co : Core ack s) (p : PhA s) :
    Core ack (Sock.writeRedirect s path pm) ∧ ∃ h, PhC ack h (Sock.writeRedirect s path pm) := by
  unfold Sock.writeRedirect
  obtain ⟨c1, p1⟩ := setStatusCode_A (if pm then 301 else 302) none (by intro x hx; cases hx) co p
  obtain ⟨c2, p2⟩ := setHeader_A (lit ['L','o','c','a','t','i','o','n']) path true (by decide) hp c1 p1
  obtain ⟨c3, p3, _⟩ := writeHeaders_A c2 p2
  obtain ⟨c4, p4⟩ := close_C c3 p3
  exact ⟨c4, _, p4⟩

theorem writeJson_A {ack s} (bd : Bytes) (c : Int) (co : Core ack s) (p : PhA s) :
    Core ack (Sock.writeJson s bd c) ∧ ∃ h, PhC ack h (Sock.writeJson s bd c) := by
  unfold Sock.writeJson
  obtain ⟨c1, p1⟩ := setStatusCode_A c none (by intro x hx; cases hx) co p
  obtain ⟨c2, p2⟩ := setHeader_A Sock.CONTENT_LENGTH (natDigits bd.length) true
    (by decide) (noCR_natDigits _) c1 p1
  obtain ⟨c3, p3⟩ := setHeader_A Sock.CONTENT_TYPE Sock.APP_JSON true (by decide) (by decide) c2 p2
  obtain ⟨c4, h, p4⟩ := write_A bd c3 p3
  obtain ⟨c5, p5⟩ := close_C c4 p4
  exact ⟨c5, _, p5⟩

theorem read_clean (s : Sock) (n : Nat) : cleanHead (Sock.read s n).1 = cleanHead s := by
  simp only [Sock.read, Sock.readData]
  repeat' split
  all_goals rfl

theorem readAll_clean (s : Sock) : cleanHead (Sock.readAll s).1 = cleanHead s := by
  simp only [Sock.readAll, Sock.readData]
  repeat' split
  all_goals rfl

def WInv (ack : Nat → Nat → Nat) (started : Bool) (s : Sock) : Prop :=
  Core ack s ∧ (PhB s ∨ (started = false ∧ PhA s) ∨ (started = true ∧ ∃ h, PhC ack h s))

def nextStarted (op : ApiOp) (st : Bool) : Bool :=
  match op with
  | .wh => true | .write _ => true | .err _ _ => true | .redir _ _ => true | .json _ _ => true
  | _ => st

theorem wfOps_next (op : ApiOp) (ops : List ApiOp) (st : Bool) (h : C03.wfOps (op :: ops) st = true) :
    C03.wfOps ops (nextStarted op st) = true := by
  cases op <;> simp_all [C03.wfOps, nextStarted]

theorem cleanMap_of_all (m : List (Bytes × Bytes))
    (h : m.all (fun e => !e.1.isEmpty && !containsByte COLON e.1 && !C03.hasCRLF e.1 && !C03.hasCRLF e.2 && trim e.1 == e.1) = true) :
    cleanMap m = true := by
  simp only [List.all_eq_true, Bool.and_eq_true, Bool.not_eq_true'] at h
  simp only [cleanMap, List.all_eq_true, Bool.and_eq_true]
  intro e he
  have := h e he
  exact ⟨noCR_of_hasCRLF _ this.1.1.2, noCR_of_hasCRLF _ this.1.2⟩

theorem apiPrim_A (env : Env) (ack) (s : Sock) (op : ApiOp) (ops : List ApiOp) (hop : okOp op = true)
    (hwf : C03.wfOps (op :: ops) false = true) (co : Core ack s) (p : PhA s) :
    WInv ack (nextStarted op false) (Sock.apiPrim env s op) := by
  unfold Sock.apiPrim
  rw [if_neg (by simp [co.alive])]
  cases op with
  | read n =>
    have f := (read_frame s n).trans (log_frame _ (Obs.rd (Sock.read s n).2) rfl)
    exact ⟨co.frame f, Or.inr (Or.inl ⟨rfl, p.frame f (by rw [← p.clean, ← read_clean s n]; rfl)⟩)⟩
  | readAll =>
    have f := (readAll_frame s).trans (log_frame _ (Obs.rd (Sock.readAll s).2) rfl)
    exact ⟨co.frame f, Or.inr (Or.inl ⟨rfl, p.frame f (by rw [← p.clean, ← readAll_clean s]; rfl)⟩)⟩
  | avail =>
    have f := log_frame s (Obs.av (Sock.bytesAvailable s)) rfl
    exact ⟨co.frame f, Or.inr (Or.inl ⟨rfl, p.frame f p.clean⟩)⟩
  | snap =>
    have f := log_frame s (Obs.snap (Sock.takeSnap s)) rfl
    exact ⟨co.frame f, Or.inr (Or.inl ⟨rfl, p.frame f p.clean⟩)⟩
  | note o =>
    have f := log_frame s o hop
    exact ⟨co.frame f, Or.inr (Or.inl ⟨rfl, p.frame f p.clean⟩)⟩
  | status c r =>
    simp only [C03.wfOps, Bool.and_eq_true] at hwf
    obtain ⟨c1, p1⟩ := setStatusCode_A c r (by
      intro x hx; subst hx
      exact noCR_of_hasCRLF _ (by simpa using hwf.1.2)) co p
    exact ⟨c1, Or.inr (Or.inl ⟨rfl, p1⟩)⟩
  | hdr n v r =>
    simp only [C03.wfOps, Bool.and_eq_true, Bool.not_eq_true'] at hwf
    obtain ⟨c1, p1⟩ := setHeader_A n v r (noCR_of_hasCRLF _ hwf.1.1.1.2) (noCR_of_hasCRLF _ hwf.1.1.2) co p
    exact ⟨c1, Or.inr (Or.inl ⟨rfl, p1⟩)⟩
  | hdrs m =>
    simp only [C03.wfOps, Bool.and_eq_true] at hwf
    have f : Frame s { s with respHeaders := m.foldl (fun acc e => HeaderMap.insert e.1 e.2 acc) [] } :=
      ⟨rfl, rfl, rfl, rfl, rfl, [], rfl, by simp⟩
    refine ⟨co.frame f, Or.inr (Or.inl ⟨rfl, p.frame f ?_⟩)⟩
    have hc := p.clean
    simp only [cleanHead, Bool.and_eq_true] at hc ⊢
    exact ⟨hc.1, cleanMap_foldl_insert m [] (cleanMap_of_all m hwf.1) rfl⟩
  | wh =>
    obtain ⟨c1, p1, _⟩ := writeHeaders_A co p
    exact ⟨c1, Or.inr (Or.inr ⟨rfl, _, p1⟩)⟩
  | write bs =>
    obtain ⟨c1, h, p1⟩ := write_A bs co p
    exact ⟨c1, Or.inr (Or.inr ⟨rfl, _, p1⟩)⟩
  | err c r =>
    simp only [C03.wfOps, Bool.and_eq_true] at hwf
    obtain ⟨c1, h, p1⟩ := writeError_A env c r (by
      intro x hx; subst hx
      exact noCR_of_hasCRLF _ (by simpa using hwf.1.2)) co p
    exact ⟨c1, Or.inr (Or.inr ⟨rfl, _, p1⟩)⟩
  | redir path pm =>
    simp only [C03.wfOps, Bool.and_eq_true, Bool.not_eq_true'] at hwf
    obtain ⟨c1, h, p1⟩ := writeRedirect_A path pm (noCR_of_hasCRLF _ hwf.1.2) co p
    exact ⟨c1, Or.inr (Or.inr ⟨rfl, _, p1⟩)⟩
  | json bd c =>
    obtain ⟨c1, h, p1⟩ := writeJson_A bd c co p
    exact ⟨c1, Or.inr (Or.inr ⟨rfl, _, p1⟩)⟩
  | close =>
    obtain ⟨c1, p1⟩ := close_A co p
    exact ⟨c1, Or.inl p1⟩

theorem apiPrim_C (env : Env) (ack) (h : Nat) (s : Sock) (op : ApiOp) (ops : List ApiOp) (hop : okOp op = true)
    (hwf : C03.wfOps (op :: ops) true = true) (co : Core ack s) (p : PhC ack h s) :
    Core ack (Sock.apiPrim env s op) ∧ PhC ack h (Sock.apiPrim env s op) := by
  unfold Sock.apiPrim
  rw [if_neg (by simp [co.alive])]
  cases op with
  | read n =>
    have f := (read_frame s n).trans (log_frame _ (Obs.rd (Sock.read s n).2) rfl)
    exact ⟨co.frame f, p.frame f⟩
  | readAll =>
    have f := (readAll_frame s).trans (log_frame _ (Obs.rd (Sock.readAll s).2) rfl)
    exact ⟨co.frame f, p.frame f⟩
  | avail =>
    have f := log_frame s (Obs.av (Sock.bytesAvailable s)) rfl
    exact ⟨co.frame f, p.frame f⟩
  | snap =>
    have f := log_frame s (Obs.snap (Sock.takeSnap s)) rfl
    exact ⟨co.frame f, p.frame f⟩
  | note o =>
    have f := log_frame s o hop
    exact ⟨co.frame f, p.frame f⟩
  | status c r => exact ⟨co.frame (setStatusCode_frame s c r), p.frame (setStatusCode_frame s c r)⟩
  | hdr n v r => exact ⟨co.frame (setHeader_frame s n v r), p.frame (setHeader_frame s n v r)⟩
  | hdrs m =>
    have f : Frame s { s with respHeaders := m.foldl (fun acc e => HeaderMap.insert e.1 e.2 acc) [] } :=
      ⟨rfl, rfl, rfl, rfl, rfl, [], rfl, by simp⟩
    exact ⟨co.frame f, p.frame f⟩
  | wh => simp [C03.wfOps] at hwf
  | write bs => exact write_C bs co p
  | err c r => simp [C03.wfOps] at hwf
  | redir path pm => simp [C03.wfOps] at hwf
  | json bd c => simp [C03.wfOps] at hwf
  | close => exact close_C co p

/-- one API call from idle context keeps the invariant (the silent application: the reaction to
    `disconnected` is empty) -/
theorem api_inv (env : Env) (ack) (s : Sock) (op : ApiOp) (ops : List ApiOp) (st : Bool)
    (hop : okOp op = true) (hwf : C03.wfOps (op :: ops) st = true) (i : WInv ack st s) :
    WInv ack (nextStarted op st) (Sock.api env {} s op) := by
  -- the `disconnected` emission is a quiet frame
  have hdc : ∀ s' : Sock, Frame s' (Sock.emitDc env {} s') := by
    intro s'
    exact ⟨rfl, rfl, rfl, rfl, rfl, [Obs.dc], rfl, by simp [Sock.emitDc]⟩
  have key : WInv ack (nextStarted op st) (Sock.apiPrim env s op) := by
    obtain ⟨co, ph⟩ := i
    rcases ph with pb | ⟨rfl, pa⟩ | ⟨rfl, h, pc⟩
    · have f := apiPrim_dead env s op hop pb.dev
      exact ⟨co.bframe f, Or.inl (pb.bframe f)⟩
    · exact apiPrim_A env ack s op ops hop hwf co pa
    · obtain ⟨c1, p1⟩ := apiPrim_C env ack h s op ops hop hwf co pc
      have : nextStarted op true = true := by cases op <;> rfl
      exact ⟨c1, Or.inr (Or.inr ⟨this, h, p1⟩)⟩
  unfold Sock.api
  show WInv ack (nextStarted op st)
    (if (Sock.apiPrim env s op).dcFlag = true then Sock.emitDc env {} (Sock.apiPrim env s op)
     else Sock.apiPrim env s op)
  split
  · obtain ⟨co, ph⟩ := key
    have f := hdc (Sock.apiPrim env s op)
    refine ⟨co.frame f, ?_⟩
    rcases ph with pb | ⟨e, pa⟩ | ⟨e, h, pc⟩
    · exact Or.inl (pb.frame f)
    · exact Or.inr (Or.inl ⟨e, pa.frame f (by rw [← pa.clean]; rfl)⟩)
    · exact Or.inr (Or.inr ⟨e, h, pc.frame f⟩)
  · exact key


/-! ### acknowledgements -/

theorem obw_stay (env : Env) (s : Sock) (b : Int) (hws : s.ws = .headers) (h : s.hdrRemaining - b > 0) :
    Sock.onBytesWritten env {} s b = { s with hdrRemaining := s.hdrRemaining - b } := by
  unfold Sock.onBytesWritten
  rw [if_pos hws, if_pos h]
  simp [hws]

theorem obw_done (env : Env) (s : Sock) (b : Int) (hws : s.ws = .headers) (h : ¬ s.hdrRemaining - b > 0) :
    Sock.onBytesWritten env {} s b
      = { s with ws := .data, log := s.log ++ [Obs.bw (b - s.hdrRemaining)] } := by
  unfold Sock.onBytesWritten
  rw [if_pos hws, if_neg h]
  simp [Sock.emit, Sock.apis]

theorem obw_data (env : Env) (s : Sock) (b : Int) (hws : s.ws = .data) :
    Sock.onBytesWritten env {} s b = { s with log := s.log ++ [Obs.bw b] } := by
  unfold Sock.onBytesWritten
  rw [if_neg (by rw [hws]; simp)]
  simp [Sock.emit, Sock.apis, hws]

theorem obw_other (env : Env) (s : Sock) (b : Int) (h1 : s.ws ≠ .headers) (h2 : s.ws ≠ .data) :
    Sock.onBytesWritten env {} s b = s := by
  unfold Sock.onBytesWritten
  rw [if_neg h1]
  simp [h2]

def ackTail (env : Env) (s : Sock) : Sock :=
  if s.tcp.conn == .closing && s.tcp.unacked = 0 then
    Sock.emitDc env {} { s with tcp := { s.tcp with conn := .unconnected } }
  else s

theorem ackN_eq (env : Env) (s : Sock) (n : Nat) :
    Sock.ackN env {} s n =
      if min n s.tcp.unacked = 0 then s else
      ackTail env (Sock.onBytesWritten env {}
        { s with tcp := { s.tcp with unacked := s.tcp.unacked - min n s.tcp.unacked } }
        (min n s.tcp.unacked : Nat)) := rfl

theorem ackTail_live (env : Env) (s : Sock) (h : s.tcp.conn = .connected) : ackTail env s = s := by
  simp [ackTail, h]

theorem ackTail_spec (env : Env) (s : Sock) :
    (ackTail env s).tcp.wire = s.tcp.wire ∧ (ackTail env s).tcp.unacked = s.tcp.unacked ∧
    (ackTail env s).tcp.devOpen = s.tcp.devOpen ∧ (ackTail env s).ws = s.ws ∧
    (ackTail env s).ioOpen = s.ioOpen ∧ (ackTail env s).alive = s.alive ∧
    ((ackTail env s).log = s.log ∨ (ackTail env s).log = s.log ++ [Obs.dc]) := by
  unfold ackTail
  split <;> simp [Sock.emitDc]

theorem Core.ackTail {ack s} (env : Env) (c : Core ack s) : Core ack (ackTail env s) := by
  obtain ⟨h1, h2, h3, _, _, h6, h7⟩ := ackTail_spec env s
  have hq : ∃ q, List.all q quiet = true ∧ (C18L.ackTail env s).log = s.log ++ q := by
    rcases h7 with h | h
    · exact ⟨[], rfl, by simp [h]⟩
    · exact ⟨[Obs.dc], rfl, h⟩
  obtain ⟨q, hq, hl⟩ := hq
  constructor
  · rw [h6]; exact c.alive
  · rw [hl, h1, wire_quiet _ _ hq]; exact c.wire
  · rw [hl, h1, track_quiet _ _ _ _ hq]; exact c.wr
  · rw [hl, h1, h2, track_quiet _ _ _ _ hq]; exact c.ak
  · rw [hl, h3, anyTc_quiet _ _ hq]; exact c.tc
  · rw [hl, h3, anyTc_quiet _ _ hq]; exact c.tc2

theorem PhC.ackTail_fin {ack h s} (env : Env) (p : PhC ack h s) (hws : s.ws = .finished)
    (hd : s.tcp.devOpen = false) (hio : s.ioOpen = false) : PhC ack h (ackTail env s) := by
  obtain ⟨h1, h2, h3, h4, h5, h6, h7⟩ := ackTail_spec env s
  refine ⟨by rw [h1]; exact p.hl, ?_, Or.inr (Or.inr ⟨by rw [h4]; exact hws, by rw [h3]; exact hd, by rw [h5]; exact hio⟩)⟩
  rcases h7 with h | h
  · rw [h]; exact p.wk
  · rw [h, walk'_snoc, p.wk]; rfl

/-- the notification after `n'` more bytes were acknowledged (`a` before, `a + n'` now) -/
theorem obw_C (env : Env) (ack : Nat → Nat → Nat) (h : Nat) (s2 : Sock) (a n' : Nat)
    (c2 : Core ack s2)
    (hl : (breakOn CRLF2 s2.tcp.wire).map (fun p => p.1.length + 4) = some h)
    (wk2 : walk' ack h s2.log {} = true)
    (ha : (track ack s2.log).acked = a + n')
    (st : (s2.ws = .headers ∧ live s2 ∧ s2.hdrRemaining = (h : Int) - a ∧ a < h ∧ (track ack s2.log).sum = 0)
        ∨ (s2.ws = .data ∧ live s2 ∧ h ≤ a ∧ (track ack s2.log).sum = (a : Int) - h)
        ∨ (s2.ws = .finished ∧ s2.tcp.devOpen = false ∧ s2.ioOpen = false)) :
    Core ack (ackTail env (Sock.onBytesWritten env {} s2 (n' : Nat))) ∧
    PhC ack h (ackTail env (Sock.onBytesWritten env {} s2 (n' : Nat))) := by
  have hwr := c2.wr
  have hak := c2.ak
  rcases st with ⟨hws, hlv, hrem, hlt, hsum⟩ | ⟨hws, hlv, hge, hsum⟩ | ⟨hws, hd, hio⟩
  · -- inside the header block
    by_cases hstay : s2.hdrRemaining - ((n' : Nat) : Int) > 0
    · rw [obw_stay env s2 _ hws hstay, ackTail_live _ _ (by exact hlv.2.1)]
      refine ⟨⟨c2.alive, c2.wire, c2.wr, c2.ak, c2.tc, c2.tc2⟩, hl, wk2, Or.inl ⟨hws, hlv, ?_, ?_, hsum⟩⟩
      · show s2.hdrRemaining - (n' : Int) = (h : Int) - ((track ack s2.log).acked : Nat)
        rw [ha, hrem]; omega
      · show (track ack s2.log).acked < h
        rw [hrem] at hstay; omega
    · rw [obw_done env s2 _ hws hstay, ackTail_live _ _ (by exact hlv.2.1)]
      refine ⟨⟨c2.alive, ?_, ?_, ?_, ?_, ?_⟩, hl, ?_, Or.inr (Or.inl ⟨rfl, hlv, ?_, ?_⟩)⟩
      · show Obs.wire (s2.log ++ [Obs.bw _]) = s2.tcp.wire
        rw [wire_snoc]; simpa using c2.wire
      · show (track ack (s2.log ++ [Obs.bw _])).written = _
        rw [track_snoc]; simpa [wstep] using c2.wr
      · show (track ack (s2.log ++ [Obs.bw _])).acked + _ = _
        rw [track_snoc]; simpa [wstep] using c2.ak
      · intro hd
        show (s2.log ++ [Obs.bw _]).any Obs.isTc = false
        simp [c2.tc hd, Obs.isTc]
      · intro hd
        show (s2.log ++ [Obs.bw _]).any Obs.isTc = true
        simp [c2.tc2 hd]
      · show walk' ack h (s2.log ++ [Obs.bw _]) {} = true
        rw [walk'_snoc, wk2]
        simp only [wok, Bool.true_and, Bool.and_eq_true, decide_eq_true_eq]
        rw [hrem] at hstay ⊢; rw [hsum, ha]
        refine ⟨⟨?_, ?_⟩, ?_⟩ <;> omega
      · show h ≤ (track ack (s2.log ++ [Obs.bw _])).acked
        rw [track_snoc]; simp only [wstep]
        rw [hrem] at hstay; omega
      · show (track ack (s2.log ++ [Obs.bw _])).sum = ((track ack (s2.log ++ [Obs.bw _])).acked : Int) - h
        rw [track_snoc]; simp only [wstep]
        rw [hrem, hsum, ha]; omega
  · -- body bytes
    rw [obw_data env s2 _ hws, ackTail_live _ _ (by exact hlv.2.1)]
    refine ⟨⟨c2.alive, ?_, ?_, ?_, ?_, ?_⟩, hl, ?_, Or.inr (Or.inl ⟨hws, hlv, ?_, ?_⟩)⟩
    · show Obs.wire (s2.log ++ [Obs.bw _]) = s2.tcp.wire
      rw [wire_snoc]; simpa using c2.wire
    · show (track ack (s2.log ++ [Obs.bw _])).written = _
      rw [track_snoc]; simpa [wstep] using c2.wr
    · show (track ack (s2.log ++ [Obs.bw _])).acked + _ = _
      rw [track_snoc]; simpa [wstep] using c2.ak
    · intro hd
      show (s2.log ++ [Obs.bw _]).any Obs.isTc = false
      simp [c2.tc hd, Obs.isTc]
    · intro hd
      show (s2.log ++ [Obs.bw _]).any Obs.isTc = true
      simp [c2.tc2 hd]
    · show walk' ack h (s2.log ++ [Obs.bw _]) {} = true
      rw [walk'_snoc, wk2]
      simp only [wok, Bool.true_and, Bool.and_eq_true, decide_eq_true_eq]
      rw [hsum, ha]
      refine ⟨⟨?_, ?_⟩, ?_⟩ <;> omega
    · show h ≤ (track ack (s2.log ++ [Obs.bw _])).acked
      rw [track_snoc]; simp only [wstep]; omega
    · show (track ack (s2.log ++ [Obs.bw _])).sum = ((track ack (s2.log ++ [Obs.bw _])).acked : Int) - h
      rw [track_snoc]; simp only [wstep]; rw [hsum, ha]; omega
  · -- closed: no notification; the last acknowledgement may complete the shutdown
    rw [obw_other env s2 _ (by rw [hws]; simp) (by rw [hws]; simp)]
    have p2 : PhC ack h s2 := ⟨hl, wk2, Or.inr (Or.inr ⟨hws, hd, hio⟩)⟩
    exact ⟨c2.ackTail env, p2.ackTail_fin env hws hd hio⟩

/-- the `k`-th event is an acknowledgement of `n` bytes: marker and acknowledgement together -/
theorem ackN_C (env : Env) (ack : Nat → Nat → Nat) (h : Nat) (s : Sock) (k n : Nat)
    (co : Core ack s) (p : PhC ack h s) (hack : ack k s.tcp.unacked = min n s.tcp.unacked) :
    Core ack (Sock.ackN env {} { s with log := s.log ++ [Obs.ev k] } n) ∧
    PhC ack h (Sock.ackN env {} { s with log := s.log ++ [Obs.ev k] } n) := by
  have hwr := co.wr
  have hak := co.ak
  have hdiff : (track ack s.log).written - (track ack s.log).acked = s.tcp.unacked := by omega
  have htr : track ack (s.log ++ [Obs.ev k])
      = { track ack s.log with acked := (track ack s.log).acked + min n s.tcp.unacked } := by
    rw [track_snoc]; simp only [wstep]; rw [hdiff, hack]
  have hle : min n s.tcp.unacked ≤ s.tcp.unacked := Nat.min_le_right _ _
  -- the state after the marker and the decrement of `unacked`
  have c2 : Core ack { s with log := s.log ++ [Obs.ev k],
                              tcp := { s.tcp with unacked := s.tcp.unacked - min n s.tcp.unacked } } := by
    refine ⟨co.alive, ?_, ?_, ?_, ?_, ?_⟩
    · show Obs.wire (s.log ++ [Obs.ev k]) = s.tcp.wire
      rw [wire_snoc]; simpa using co.wire
    · show (track ack (s.log ++ [Obs.ev k])).written = s.tcp.wire.length
      rw [htr]; exact hwr
    · show (track ack (s.log ++ [Obs.ev k])).acked + (s.tcp.unacked - min n s.tcp.unacked) = s.tcp.wire.length
      rw [htr]; show (track ack s.log).acked + min n s.tcp.unacked + _ = _; omega
    · intro hd
      show (s.log ++ [Obs.ev k]).any Obs.isTc = false
      simp [co.tc hd, Obs.isTc]
    · intro hd
      show (s.log ++ [Obs.ev k]).any Obs.isTc = true
      simp [co.tc2 hd]
  have wk2 : walk' ack h (s.log ++ [Obs.ev k]) {} = true := by
    rw [walk'_snoc, p.wk]; rfl
  rw [ackN_eq]
  split
  · -- nothing to acknowledge
    rename_i h0
    have h0' : min n s.tcp.unacked = 0 := h0
    rw [h0'] at htr c2
    refine ⟨⟨co.alive, c2.wire, c2.wr, ?_, c2.tc, c2.tc2⟩, p.hl, wk2, ?_⟩
    · have := c2.ak; simpa using this
    · show _ ∨ _ ∨ _
      have e : track ack (s.log ++ [Obs.ev k]) = track ack s.log := by rw [htr]; rfl
      show (s.ws = .headers ∧ live s ∧ s.hdrRemaining = (h : Int) - (track ack (s.log ++ [Obs.ev k])).acked ∧
          (track ack (s.log ++ [Obs.ev k])).acked < h ∧ (track ack (s.log ++ [Obs.ev k])).sum = 0)
        ∨ (s.ws = .data ∧ live s ∧ h ≤ (track ack (s.log ++ [Obs.ev k])).acked ∧
          (track ack (s.log ++ [Obs.ev k])).sum = ((track ack (s.log ++ [Obs.ev k])).acked : Int) - h)
        ∨ (s.ws = .finished ∧ s.tcp.devOpen = false ∧ s.ioOpen = false)
      rw [e]; exact p.st
  · exact obw_C env ack h _ (track ack s.log).acked (min n s.tcp.unacked) c2 p.hl wk2
      (by show (track ack (s.log ++ [Obs.ev k])).acked = _; rw [htr])
      (by
        show (s.ws = .headers ∧ live s ∧ s.hdrRemaining = (h : Int) - (track ack s.log).acked ∧
            (track ack s.log).acked < h ∧ (track ack (s.log ++ [Obs.ev k])).sum = 0)
          ∨ (s.ws = .data ∧ live s ∧ h ≤ (track ack s.log).acked ∧
            (track ack (s.log ++ [Obs.ev k])).sum = ((track ack s.log).acked : Int) - h)
          ∨ (s.ws = .finished ∧ s.tcp.devOpen = false ∧ s.ioOpen = false)
        rw [htr]; exact p.st)

theorem ackN_unacked (env : Env) (s : Sock) (n : Nat) :
    (Sock.ackN env {} s n).tcp.unacked = s.tcp.unacked - min n s.tcp.unacked := by
  rw [ackN_eq]
  split
  · rename_i h; rw [h]; rfl
  · rw [(ackTail_spec env _).2.1]
    unfold Sock.onBytesWritten
    simp only [Sock.emit, Sock.apis, List.foldl_nil]
    repeat' split
    all_goals simp_all


/-! ### one external event -/

/-- a marker whose event acknowledges nothing changes nothing -/
theorem marker0 {ack : Nat → Nat → Nat} {s : Sock} (k : Nat) (st : Bool) (h0 : ack k s.tcp.unacked = 0)
    (i : WInv ack st s) : WInv ack st { s with log := s.log ++ [Obs.ev k] } := by
  obtain ⟨co, ph⟩ := i
  have hwr := co.wr
  have hak := co.ak
  have hdiff : (track ack s.log).written - (track ack s.log).acked = s.tcp.unacked := by omega
  have htr : track ack (s.log ++ [Obs.ev k]) = track ack s.log := by
    rw [track_snoc]; simp only [wstep]; rw [hdiff, h0]; rfl
  have c1 : Core ack { s with log := s.log ++ [Obs.ev k] } := by
    refine ⟨co.alive, ?_, ?_, ?_, ?_, ?_⟩
    · show Obs.wire (s.log ++ [Obs.ev k]) = s.tcp.wire
      rw [wire_snoc]; simpa using co.wire
    · show (track ack (s.log ++ [Obs.ev k])).written = s.tcp.wire.length
      rw [htr]; exact hwr
    · show (track ack (s.log ++ [Obs.ev k])).acked + s.tcp.unacked = s.tcp.wire.length
      rw [htr]; exact hak
    · intro hd
      show (s.log ++ [Obs.ev k]).any Obs.isTc = false
      simp [co.tc hd, Obs.isTc]
    · intro hd
      show (s.log ++ [Obs.ev k]).any Obs.isTc = true
      simp [co.tc2 hd]
  have hnb : noBw s.log = true → noBw (s.log ++ [Obs.ev k]) = true := by
    intro h; simp only [noBw, List.all_append, List.all_cons, List.all_nil, Bool.and_true, Bool.and_eq_true]
    exact ⟨h, rfl⟩
  refine ⟨c1, ?_⟩
  rcases ph with pb | ⟨e, pa⟩ | ⟨e, h, pc⟩
  · exact Or.inl ⟨pb.dev, pb.wire, pb.un, hnb pb.nobw⟩
  · exact Or.inr (Or.inl ⟨e, pa.ws, pa.wire, pa.un, pa.lv, pa.clean, hnb pa.nobw⟩)
  · refine Or.inr (Or.inr ⟨e, h, pc.hl, ?_, ?_⟩)
    · show walk' ack h (s.log ++ [Obs.ev k]) {} = true
      rw [walk'_snoc, pc.wk]; rfl
    · show (s.ws = .headers ∧ live s ∧ s.hdrRemaining = (h : Int) - (track ack (s.log ++ [Obs.ev k])).acked ∧
          (track ack (s.log ++ [Obs.ev k])).acked < h ∧ (track ack (s.log ++ [Obs.ev k])).sum = 0)
        ∨ (s.ws = .data ∧ live s ∧ h ≤ (track ack (s.log ++ [Obs.ev k])).acked ∧
          (track ack (s.log ++ [Obs.ev k])).sum = ((track ack (s.log ++ [Obs.ev k])).acked : Int) - h)
        ∨ (s.ws = .finished ∧ s.tcp.devOpen = false ∧ s.ioOpen = false)
      rw [htr]; exact pc.st

/-- the events of the scenario shape: API calls from idle context and acknowledgements -/
def okEvent : Event → Bool
  | .api op => okOp op
  | .ack _ => true
  | .ackAll => true
  | _ => false

/-- the API calls among the events (as `C03.apiOps`) -/
def opsOf (evs : List Event) : List ApiOp :=
  evs.filterMap fun e => match e with | .api o => some o | _ => none

def nextSt (e : Event) (st : Bool) : Bool :=
  match e with
  | .api op => nextStarted op st
  | _ => st

/-- what the event acknowledges when `u` bytes are outstanding (as `C18.ackOf`) -/
def ackOfEvent (e : Event) (u : Nat) : Nat :=
  match e with
  | .ack n => min n u
  | .ackAll => u
  | _ => 0

theorem ackN_inv (env : Env) (ack : Nat → Nat → Nat) (s : Sock) (k n : Nat) (st : Bool)
    (hack : ack k s.tcp.unacked = min n s.tcp.unacked) (i : WInv ack st s) :
    WInv ack st (Sock.ackN env {} { s with log := s.log ++ [Obs.ev k] } n) := by
  have h0 : s.tcp.unacked = 0 → Sock.ackN env {} { s with log := s.log ++ [Obs.ev k] } n
      = { s with log := s.log ++ [Obs.ev k] } := by
    intro hu; rw [ackN_eq]
    have : min n ({ s with log := s.log ++ [Obs.ev k] } : Sock).tcp.unacked = 0 := by
      show min n s.tcp.unacked = 0
      rw [hu]; simp
    rw [if_pos this]
  obtain ⟨co, ph⟩ := i
  rcases ph with pb | ⟨e, pa⟩ | ⟨e, h, pc⟩
  · rw [h0 pb.un]
    exact marker0 k st (by rw [hack, pb.un]; simp) ⟨co, Or.inl pb⟩
  · rw [h0 pa.un]
    exact marker0 k st (by rw [hack, pa.un]; simp) ⟨co, Or.inr (Or.inl ⟨e, pa⟩)⟩
  · obtain ⟨c1, p1⟩ := ackN_C env ack h s k n co pc hack
    exact ⟨c1, Or.inr (Or.inr ⟨e, h, p1⟩)⟩

theorem opsOf_cons_api (op : ApiOp) (rest : List Event) : opsOf (.api op :: rest) = op :: opsOf rest := rfl

theorem stepK_inv (env : Env) (ack : Nat → Nat → Nat) (s : Sock) (k : Nat) (e : Event)
    (rest : List Event) (st : Bool) (hev : okEvent e = true)
    (hwf : C03.wfOps (opsOf (e :: rest)) st = true)
    (hack : ∀ u, ack k u = ackOfEvent e u) (i : WInv ack st s) :
    WInv ack (nextSt e st) (Sock.stepK env {} (s, k) e).1 ∧
    C03.wfOps (opsOf rest) (nextSt e st) = true ∧
    (e = .ackAll → (Sock.stepK env {} (s, k) e).1.tcp.unacked = 0) ∧
    (Sock.stepK env {} (s, k) e).2 = k + 1 := by
  have halive : s.alive = true := i.1.alive
  have hs : Sock.stepK env {} (s, k) e
      = (Sock.step env {} { s with log := s.log ++ [Obs.ev k] } e, k + 1) := by
    simp [Sock.stepK, halive]
  rw [hs]
  have hal : ({ s with log := s.log ++ [Obs.ev k] } : Sock).alive = true := halive
  cases e with
  | api op =>
    have hstep : Sock.step env {} { s with log := s.log ++ [Obs.ev k] } (.api op)
        = Sock.api env {} { s with log := s.log ++ [Obs.ev k] } op := by
      simp [Sock.step, halive]
    rw [hstep]
    have i1 := marker0 k st (by rw [hack]; rfl) i
    exact ⟨api_inv env ack _ op (opsOf rest) st hev hwf i1, wfOps_next op (opsOf rest) st hwf,
      (by intro h; cases h), rfl⟩
  | ack n =>
    have hstep : Sock.step env {} { s with log := s.log ++ [Obs.ev k] } (.ack n)
        = Sock.ackN env {} { s with log := s.log ++ [Obs.ev k] } n := by
      simp [Sock.step, halive]
    rw [hstep]
    exact ⟨ackN_inv env ack s k n st (by rw [hack]; rfl) i, hwf, (by intro h; cases h), rfl⟩
  | ackAll =>
    have hstep : Sock.step env {} { s with log := s.log ++ [Obs.ev k] } .ackAll
        = Sock.ackN env {} { s with log := s.log ++ [Obs.ev k] } s.tcp.unacked := by
      simp [Sock.step, halive]
    rw [hstep]
    refine ⟨ackN_inv env ack s k s.tcp.unacked st (by rw [hack]; simp [ackOfEvent]) i, hwf, ?_, rfl⟩
    intro _
    show (Sock.ackN env {} { s with log := s.log ++ [Obs.ev k] } s.tcp.unacked).tcp.unacked = 0
    rw [ackN_unacked]
    show s.tcp.unacked - min s.tcp.unacked s.tcp.unacked = 0
    simp
  | prebuf _ => simp [okEvent] at hev
  | new => simp [okEvent] at hev
  | feed _ => simp [okEvent] at hev
  | peerClose => simp [okEvent] at hev
  | turn => simp [okEvent] at hev


/-! ### the whole run -/

theorem fold_inv (env : Env) (ack : Nat → Nat → Nat) (evs : List Event)
    (hack : ∀ j e, evs[j]? = some e → ∀ u, ack j u = ackOfEvent e u) :
    ∀ (suf pre : List Event) (sk : Sock × Nat) (st : Bool),
      pre ++ suf = evs → sk.2 = pre.length → suf.all okEvent = true →
      C03.wfOps (opsOf suf) st = true → WInv ack st sk.1 →
      (pre.getLast? = some .ackAll → sk.1.tcp.unacked = 0) →
      ∃ st', WInv ack st' (suf.foldl (Sock.stepK env {}) sk).1 ∧
        (evs.getLast? = some .ackAll → (suf.foldl (Sock.stepK env {}) sk).1.tcp.unacked = 0) := by
  intro suf
  induction suf with
  | nil =>
    intro pre sk st hpre _ _ _ i hl
    rw [List.append_nil] at hpre
    exact ⟨st, i, by rw [← hpre]; exact hl⟩
  | cons e suf ih =>
    intro pre sk st hpre hk hall hwf i _
    obtain ⟨s, k⟩ := sk
    simp only at hk i
    simp only [List.all_cons, Bool.and_eq_true] at hall
    have hidx : evs[k]? = some e := by
      rw [← hpre, hk]; simp
    obtain ⟨i', hwf', hlast, hk'⟩ := stepK_inv env ack s k e suf st hall.1 hwf (hack k e hidx) i
    rw [List.foldl_cons]
    refine ih (pre ++ [e]) _ _ (by rw [← hpre]; simp) (by rw [hk', hk]; simp) hall.2 hwf' i' ?_
    intro hl
    rw [List.getLast?_concat] at hl
    exact hlast (Option.some.inj hl)

/-- the state right after `new` (event 0) -/
theorem init_inv (env : Env) (ack : Nat → Nat → Nat) (h0 : ∀ u, ack 0 u = 0) :
    WInv ack false (Sock.stepK env {} ({}, 0) .new).1 ∧ (Sock.stepK env {} ({}, 0) .new).2 = 1 := by
  have e : Sock.stepK env {} ({}, 0) .new = ({ initPending := true, log := [Obs.ev 0] }, 1) := rfl
  rw [e]
  refine ⟨⟨⟨rfl, rfl, rfl, ?_, fun _ => rfl, fun h => by cases h⟩, Or.inr (Or.inl ⟨rfl, rfl, rfl, rfl, ⟨rfl, rfl, rfl⟩, by decide, rfl⟩)⟩, rfl⟩
  show (track ack [Obs.ev 0]).acked + 0 = 0
  simp [track, wstep, h0]

/-- every run of the scenario shape ends in a state satisfying the invariant -/
theorem run_inv (env : Env) (ack : Nat → Nat → Nat) (rest : List Event)
    (hack : ∀ j e, (Event.new :: rest)[j]? = some e → ∀ u, ack j u = ackOfEvent e u)
    (hall : rest.all okEvent = true) (hwf : C03.wfOps (opsOf rest) false = true) :
    ∃ st', WInv ack st' (Sock.run env {} (.new :: rest)) ∧
      ((Event.new :: rest).getLast? = some .ackAll → (Sock.run env {} (.new :: rest)).tcp.unacked = 0) := by
  obtain ⟨i0, hk0⟩ := init_inv env ack (fun u => hack 0 .new rfl u)
  have := fold_inv env ack (.new :: rest) hack rest [.new] (Sock.stepK env {} ({}, 0) .new) false rfl
    (by rw [hk0]; rfl) hall hwf i0 (by intro h; cases h)
  simpa [Sock.run] using this

end C18L
end Qhttp
