import Qhttp.Lemmas.C04Inv
/-
  What `LogOK W l` (history `a ++ tc :: c`, response on the wire in `a`, quiet tail `c`) gives
  for the quantities the predicate `C04.holds` computes from a history.
-/
namespace Qhttp.C04L
open Qhttp

theorem countP_zero (p q : Obs → Bool) (hpq : ∀ o, q o = true → p o = false) :
    ∀ (l : List Obs), l.all q = true → Obs.countP p l = 0 := by
  intro l
  induction l with
  | nil => intro _; rfl
  | cons o l ih =>
    intro h
    simp only [List.all_cons, Bool.and_eq_true] at h
    have := ih h.2
    simp only [Obs.countP, List.filter_cons, hpq o h.1] at this ⊢
    simpa using this

theorem countP_append (p : Obs → Bool) (a c : List Obs) :
    Obs.countP p (a ++ c) = Obs.countP p a + Obs.countP p c := by
  simp [Obs.countP]

theorem wire_append (a c : List Obs) : Obs.wire (a ++ c) = Obs.wire a ++ Obs.wire c := by
  simp [Obs.wire]

theorem wire_quiet : ∀ (c : List Obs), c.all qObs = true → Obs.wire c = [] := by
  intro c
  induction c with
  | nil => intro _; rfl
  | cons o c ih =>
    intro h
    simp only [List.all_cons, Bool.and_eq_true] at h
    have := ih h.2
    cases o <;> simp [qObs] at h <;> simpa [Obs.wire, List.flatMap_cons] using this

theorem dropWhile_pre : ∀ (a c : List Obs), a.all preObs = true →
    (a ++ Obs.tc :: c).dropWhile (fun o => !Obs.isTc o) = Obs.tc :: c := by
  intro a
  induction a with
  | nil => intro c _; simp [Obs.isTc]
  | cons o a ih =>
    intro c h
    simp only [List.all_cons, Bool.and_eq_true] at h
    have hno : Obs.isTc o = false := by cases o <;> simp [preObs] at h <;> rfl
    simp only [List.cons_append, List.dropWhile_cons, hno, Bool.not_false, if_true]
    exact ih c h.2

theorem LogOK.facts {W : Bytes} {l : List Obs} (h : LogOK W l) :
    Obs.countP Obs.isHp l = 0 ∧ Obs.countP Obs.isRouting l = 0 ∧ Obs.countP Obs.isCrash l = 0 ∧
    Obs.wire l = W ∧ Obs.countP Obs.isTc l = 1 ∧
    Obs.countP Obs.isW (l.dropWhile (fun o => !Obs.isTc o)) = 0 := by
  obtain ⟨a, c, rfl, ha, hw, hc⟩ := h
  have hc' : (Obs.tc :: c) = [Obs.tc] ++ c := rfl
  refine ⟨?_, ?_, ?_, ?_, ?_, ?_⟩
  · rw [hc', countP_append, countP_append,
      countP_zero Obs.isHp preObs (by intro o; cases o <;> simp [preObs, Obs.isHp]) a ha,
      countP_zero Obs.isHp qObs (by intro o; cases o <;> simp [qObs, Obs.isHp]) c hc]
    rfl
  · rw [hc', countP_append, countP_append,
      countP_zero Obs.isRouting preObs (by intro o; cases o <;> simp [preObs, Obs.isRouting]) a ha,
      countP_zero Obs.isRouting qObs (by intro o; cases o <;> simp [qObs, Obs.isRouting]) c hc]
    rfl
  · rw [hc', countP_append, countP_append,
      countP_zero Obs.isCrash preObs (by intro o; cases o <;> simp [preObs, Obs.isCrash]) a ha,
      countP_zero Obs.isCrash qObs (by intro o; cases o <;> simp [qObs, Obs.isCrash]) c hc]
    rfl
  · rw [hc', wire_append, wire_append, wire_quiet c hc, hw]
    simp [Obs.wire]
  · rw [hc', countP_append, countP_append,
      countP_zero Obs.isTc preObs (by intro o; cases o <;> simp [preObs, Obs.isTc]) a ha,
      countP_zero Obs.isTc qObs (by intro o; cases o <;> simp [qObs, Obs.isTc]) c hc]
    rfl
  · rw [dropWhile_pre a c ha, hc', countP_append,
      countP_zero Obs.isW qObs (by intro o; cases o <;> simp [qObs, Obs.isW]) c hc]
    rfl

end Qhttp.C04L
