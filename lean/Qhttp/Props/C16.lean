import Qhttp.Model.Range
/-
  C16 — Range values are internally consistent for all offsets and sizes.
-/
namespace Qhttp.C16
open Qhttp

/-- how a range was built -/
inductive Build
  | nums (f t s : Int)                    -- Range(from, to, dataSize)
  | text (txt : Bytes) (s : Int)          -- Range("...", dataSize)
  | resize (f t s s' : Int)               -- Range(Range(from, to, dataSize), dataSize')
deriving Repr, DecidableEq

def build : Build → Range
  | .nums f t s => Range.ofNums f t s
  | .text x s => Range.ofString x s
  | .resize f t s s' => (Range.ofNums f t s).withSize s'

/-- what the accessors of a Range object report -/
structure Acc where
  valid : Bool
  frm   : Int
  to    : Int
  len   : Int
  size  : Int
  text  : Bytes
deriving Repr, DecidableEq

def accOf (r : Range) : Acc :=
  { valid := r.isValid, frm := r.absFrom, to := r.absTo, len := r.length, size := r.size, text := r.contentRange }

/-- the three shapes the property names, for raw bounds `(f, t)` (`t < 0` = open end, `f < 0` =
    last `-f` bytes) and a size (`< 0` = unknown) -/
def specValid (f t s : Int) : Bool :=
  if f < 0 then decide (s < 0 ∨ -f ≤ s)                 -- `-n` with 1 ≤ n ≤ size
  else if t < 0 then decide (s < 0 ∨ f < s)              -- `a-` with 0 ≤ a < size
  else decide (f ≤ t ∧ (s < 0 ∨ t < s))                  -- `a-b` with 0 ≤ a ≤ b < size

/-- the text forms: `digits-digits` with at least one number (ASCII, surrounding blanks allowed);
    returns the raw bounds; numerals above 2^31-1 are rejected as the 32-bit parser does -/
def specText (x : Bytes) : Option (Int × Int) :=
  match breakOn [45] (trim x) with
  | none => none
  | some (a, c) =>
    if !(a.all isDigit) || !(c.all isDigit) || (a.isEmpty && c.isEmpty) then none else
    if a.isEmpty then
      (if digitsVal c 0 ≤ 2147483647 ∧ digitsVal c 0 ≠ 0 then some (-(digitsVal c 0 : Int), -1) else none)
    else if c.isEmpty then
      (if digitsVal a 0 ≤ 2147483647 then some ((digitsVal a 0 : Int), -1) else none)
    else
      (if digitsVal a 0 ≤ 2147483647 ∧ digitsVal c 0 ≤ 2147483647
       then some ((digitsVal a 0 : Int), (digitsVal c 0 : Int)) else none)

def expectedValid : Build → Bool
  | .nums f t s => specValid f t s
  | .text x s => match specText x with | some (f, t) => specValid f t s | none => false
  | .resize f t _ s' => specValid f t s'

/-- the property, clause by clause, on the values an object reports -/
def holds (b : Build) (a : Acc) : Bool :=
  -- valid and size known: 0 ≤ from ≤ to < size, length = to − from + 1, text `from-to/size`
  (if a.valid && a.size ≥ 0 then
     0 ≤ a.frm && a.frm ≤ a.to && a.to < a.size && a.len == a.to - a.frm + 1 &&
     a.text == intText a.frm ++ [45] ++ intText a.to ++ [47] ++ intText a.size
   else true) &&
  -- invalid: length −1, text `*/size`, empty when the size is unknown
  (if !a.valid then a.len == -1 && a.text == (if a.size ≥ 0 then [42, 47] ++ intText a.size else []) else true) &&
  -- valid exactly in the three shapes
  a.valid == expectedValid b &&
  -- copying / re-sizing preserves the bounds: same report as building directly with the new size
  (match b with
   | .resize f t _ s' => s' < -1 || a == accOf (Range.ofNums f t s')
   | _ => true)

/-! ## Theorems (all over `Int`, i.e. for every offset and size) -/

/-- representation invariant of every Range the constructors can produce: the stored end bound
    is a real offset or the marker −1 (`ofNums` normalises, `ofString` parses digits) -/
def WF (r : Range) : Prop := r.to ≥ -1

theorem wf_ofNums (f t s : Int) : WF (Range.ofNums f t s) := by
  simp only [WF, Range.ofNums]; grind

theorem wf_withSize (r : Range) (s : Int) (h : WF r) : WF (r.withSize s) := h

theorem wf_invalid : WF Range.invalid := by simp [WF, Range.invalid]

theorem wf_ofString (x : Bytes) (s : Int) : WF (Range.ofString x s) := by
  unfold Range.ofString
  simp only []
  split
  · exact wf_invalid
  · split
    · exact wf_invalid
    · split
      · exact wf_invalid
      · split
        · rename_i f t' hf ht
          split
          · simp only [WF]; split <;> simp [Range.invalid]
          · simp only [WF]
            -- `t'` is −1 or the value of a digit string
            rename_i c _ _ _ hne
            split at ht
            · cases ht; simp
            · simp only [Range.digitsToInt] at ht
              split at ht
              · cases ht; omega
              · cases ht
        · exact wf_invalid

theorem valid_known (r : Range) (hwf : WF r) (hv : r.isValid = true) (hs : r.size ≥ 0) :
    0 ≤ r.absFrom ∧ r.absFrom ≤ r.absTo ∧ r.absTo < r.size ∧ r.length = r.absTo - r.absFrom + 1 ∧
    r.contentRange = intText r.absFrom ++ [45] ++ intText r.absTo ++ [47] ++ intText r.size := by
  obtain ⟨f, t, s⟩ := r
  simp only [WF] at hwf
  have hv' := hv
  simp only [Range.isValid] at hv
  simp only [Range.absFrom, Range.absTo, Range.length, Range.contentRange, hv']
  refine ⟨?_, ?_, ?_, ?_, ?_⟩ <;> grind

theorem invalid_report (r : Range) (hv : r.isValid = false) :
    r.length = -1 ∧ r.contentRange = (if r.size ≥ 0 then [42, 47] ++ intText r.size else []) := by
  simp [Range.length, Range.contentRange, hv]

/-- numeric construction: valid exactly in the three shapes (sizes < 0 mean "unknown") -/
theorem valid_iff_nums (f t s : Int) : (Range.ofNums f t s).isValid = specValid f t s := by
  simp only [Range.ofNums, Range.isValid, specValid]
  grind

/-- the stored size of a numeric construction is the given one, or −1 when unknown -/
theorem size_nums (f t s : Int) : (Range.ofNums f t s).size = if s < 0 then -1 else s := rfl

/-- re-sizing keeps the raw bounds: building with the new size directly gives the same object
    (for a size the numeric constructor would keep as is, i.e. `s' ≥ -1`) -/
theorem resize_preserves (f t s s' : Int) (h : s' ≥ -1) :
    (Range.ofNums f t s).withSize s' = Range.ofNums f t s' := by
  simp only [Range.ofNums, Range.withSize]
  grind

theorem copy_preserves (r : Range) : r.withSize r.size = r := rfl

/-- 64-bit safety: for magnitudes below 2^62 no intermediate value of the accessors leaves the
    signed 64-bit range (each is one addition or subtraction of two stored values, or ±1) -/
theorem no_overflow (r : Range) (B : Int) (hB : B = 2 ^ 62)
    (hf : -B < r.frm ∧ r.frm < B) (ht : -B < r.to ∧ r.to < B) (hs : -B < r.size ∧ r.size < B) :
    (-(2 * B) < r.size + r.frm ∧ r.size + r.frm < 2 * B) ∧ (-(2 * B) < r.to - r.frm + 1 ∧ r.to - r.frm + 1 < 2 * B) ∧
    (-(2 * B) < r.size - r.frm ∧ r.size - r.frm < 2 * B) ∧ (-(2 * B) < r.size - 1) := by
  subst hB; omega


theorem invalid_isValid : Range.invalid.isValid = false := by decide

/-- text construction: valid exactly when the text is one of the three forms and that form is
    satisfiable for the size -/
theorem valid_iff_text (x : Bytes) (s : Int) :
    (Range.ofString x s).isValid =
      (match specText x with | some (f, t) => specValid f t s | none => false) := by
  unfold Range.ofString specText
  simp only []
  cases h : breakOn [45] (trim x) with
  | none => simp [invalid_isValid]
  | some p =>
    obtain ⟨a, c⟩ := p
    simp only []
    by_cases hd : (!(a.all isDigit) || !(c.all isDigit)) = true
    · simp [hd, invalid_isValid]
    · by_cases he : (a.isEmpty && c.isEmpty) = true
      · simp [hd, he, invalid_isValid]
      · simp only [hd, he]
        simp only [Bool.false_eq_true, if_false, Bool.or_false, Range.digitsToInt]
        by_cases ha : a.isEmpty = true
        · have hc : c.isEmpty = false := by simpa [ha] using he
          simp only [ha, hc, if_true]
          by_cases hv : digitsVal c 0 ≤ 2147483647
          · simp only [hv, if_true]
            by_cases hz : digitsVal c 0 = 0
            · simp [hz, invalid_isValid]
            · have : ¬ ((digitsVal c 0 : Nat) : Int) = 0 := by omega
              simp only [this, if_false, hz, Bool.false_eq_true, ne_eq, not_false_eq_true, and_self, if_true]
              simp only [Range.isValid, specValid]
              grind
          · simp [hv, invalid_isValid]
        · simp only [ha, Bool.false_eq_true, if_false]
          by_cases hc : c.isEmpty = true
          · simp only [hc, if_true]
            by_cases hv : digitsVal a 0 ≤ 2147483647
            · simp only [hv, if_true, Range.isValid, specValid]; grind
            · simp [hv, invalid_isValid]
          · simp only [hc, Bool.false_eq_true, if_false]
            by_cases hv : digitsVal a 0 ≤ 2147483647 <;> by_cases hw : digitsVal c 0 ≤ 2147483647
            · simp only [hv, hw, if_true, and_self, Range.isValid, specValid]; grind
            · simp [hv, hw, invalid_isValid]
            · simp [hv, hw, invalid_isValid]
            · simp [hv, hw, invalid_isValid]


/-- the first two clauses of `holds` follow from the representation invariant alone -/
theorem clauses12 (r : Range) (hwf : WF r) :
    ((if (accOf r).valid && (accOf r).size ≥ 0 then
       0 ≤ (accOf r).frm && (accOf r).frm ≤ (accOf r).to && (accOf r).to < (accOf r).size &&
       (accOf r).len == (accOf r).to - (accOf r).frm + 1 &&
       (accOf r).text == intText (accOf r).frm ++ [45] ++ intText (accOf r).to ++ [47] ++ intText (accOf r).size
     else true) &&
    (if !(accOf r).valid then (accOf r).len == -1 &&
       (accOf r).text == (if (accOf r).size ≥ 0 then [42, 47] ++ intText (accOf r).size else []) else true)) = true := by
  simp only [accOf]
  by_cases hv : r.isValid = true
  · by_cases hs : r.size ≥ 0
    · obtain ⟨h1, h2, h3, h4, h5⟩ := valid_known r hwf hv hs
      simp [hv, hs, h1, h2, h3, h4, h5]
    · simp [hv, hs]
  · have hv' : r.isValid = false := by simpa using hv
    obtain ⟨h1, h2⟩ := invalid_report r hv'
    simp [hv', h1, h2]

theorem valid_resize (f t s s' : Int) : ((Range.ofNums f t s).withSize s').isValid = specValid f t s' := by
  simp only [Range.ofNums, Range.withSize, Range.isValid, specValid]
  by_cases ht : t < 0 <;> by_cases hs : s' ≥ 0 <;> by_cases hf : f < 0 <;>
    simp [ht, hs, hf] <;> grind

/-- **C16, main theorem**: whatever way a range is built (numbers, text, copy with a new size),
    with every offset and size, the values its accessors report satisfy the property. -/
theorem holds_build (b : Build) : holds b (accOf (build b)) = true := by
  have key : ∀ r : Range, WF r → (accOf r).valid = expectedValid b →
      (match b with
       | .resize f t _ s' => s' < -1 || accOf r == accOf (Range.ofNums f t s')
       | _ => true) = true → holds b (accOf r) = true := by
    intro r hwf hval h4
    have h12 := clauses12 r hwf
    unfold holds
    simp only [Bool.and_eq_true] at h12 ⊢
    refine ⟨⟨⟨h12.1, h12.2⟩, by simp [hval]⟩, ?_⟩
    cases b <;> simp_all
  cases b with
  | nums f t s =>
    exact key _ (wf_ofNums f t s) (by simp only [accOf, expectedValid, build]; exact valid_iff_nums f t s) (by simp)
  | text x s =>
    exact key _ (wf_ofString x s) (by simp only [accOf, expectedValid, build]; exact valid_iff_text x s) (by simp)
  | resize f t s s' =>
    refine key _ (wf_withSize _ _ (wf_ofNums f t s)) (by simp only [accOf, expectedValid, build]; exact valid_resize f t s s') ?_
    simp only [build]
    by_cases h : s' < -1
    · simp [h]
    · have : s' ≥ -1 := by omega
      rw [resize_preserves f t s s' this]; simp

example : holds (.text (lit ['-','5','0','0']) 1000) (accOf (build (.text (lit ['-','5','0','0']) 1000))) = true := by decide
example : (accOf (build (.text (lit [' ','1','0','-','6','0','0']) 1000))) =
    { valid := true, frm := 10, to := 600, len := 591, size := 1000, text := lit ['1','0','-','6','0','0','/','1','0','0','0'] } := by decide
example : (build (.text (lit ['-','0']) 1000)).isValid = false := by decide
example : (build (.nums 100 200 150)).isValid = false := by decide

/-! non-vacuity: concrete objects of each shape -/
example : (build (.text (lit ['-','0']) 10)).isValid = false := by decide
example : (build (.nums 100 200 150)).isValid = false := by decide
example : (build (.text (lit ['-','5']) 10)).isValid = true := by decide
example : (accOf (build (.text (lit [' ','1','-','6']) 10))) =
    { valid := true, frm := 1, to := 6, len := 6, size := 10, text := lit ['1','-','6','/','1','0'] } := by decide
example : WF (build (.resize 3 (-7) 9 20)) ∧ (build (.resize 3 (-7) 9 20)).isValid = true :=
  ⟨wf_withSize _ _ (wf_ofNums 3 (-7) 9), by decide⟩

end Qhttp.C16
