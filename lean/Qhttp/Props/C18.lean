import Qhttp.Model.Http
import Qhttp.Lemmas.C18Inv
/-
  C18 — write-progress notifications count body bytes only, for every acknowledgement pattern.
-/
namespace Qhttp.C18
open Qhttp

/-- number of bytes of the header block on the wire (up to and including the blank line) -/
def headerLen (wire : Bytes) : Option Nat :=
  (breakOn CRLF2 wire).map fun p => p.1.length + 4

def ackOf (evs : List Event) (k : Nat) : Nat → Nat := fun unacked =>
  match evs[k]? with
  | some (.ack n) => min n unacked
  | some .ackAll => unacked
  | _ => 0

/-- walk the history: `written` bytes on the wire, `acked` bytes acknowledged, `sum` notified.
    At every notification: count ≥ 0 and sum ≤ max 0 (acked − H); H is known once on the wire. -/
def walk (evs : List Event) (h : Nat) : List Obs → (written acked : Nat) → (sum : Int) → Bool
  | [], _, _, _ => true
  | o :: l, written, acked, sum =>
    match o with
    | .ev k => walk evs h l written (acked + ackOf evs k (written - acked)) sum
    | .w b => walk evs h l (written + b.length) acked sum
    | .bw n => n ≥ 0 && sum + n ≤ ((acked : Int) - h) && sum + n ≤ ((written : Int) - h) &&
               walk evs h l written acked (sum + n)
    | _ => walk evs h l written acked sum

def sumBw (obs : List Obs) : Int := obs.foldl (fun a o => match o with | .bw n => a + n | _ => a) 0

/-- the connection was ended (by the application or the peer) during the history -/
def ended (sc : Scenario) (obs : List Obs) : Bool :=
  obs.any Obs.isTc || sc.events.any fun e => match e with | .peerClose => true | _ => false

/-- scenario shape: one response head (written explicitly or implicitly, once), body writes,
    acknowledgements in arbitrary pieces. -/
def holds (sc : Scenario) (obs : List Obs) : Bool :=
  let wire := Obs.wire obs
  match headerLen wire with
  | none => Obs.countP (fun o => match o with | .bw _ => true | _ => false) obs == 0 || true
  | some h =>
    walk sc.events h obs 0 0 0 &&
    -- not closed and everything acknowledged at the end: the sum is the body byte count
    (if !ended sc obs && (match sc.events.getLast? with | some .ackAll => true | _ => false)
     then sumBw obs == (wire.length : Int) - h else true)

end Qhttp.C18

/-! ## Theorems

Scenario shape: the silent application, `new`, then response-side API calls from idle context
(within the documented preconditions `C03.wfOps`: CR/LF-free tokens, the head requested at most
once) interleaved with acknowledgements `ack n` / `ackAll` of arbitrary sizes.

Invariant (Lemmas/C18Inv.lean, `Core`/`PhA`/`PhB`/`PhC`): with `H` the length of the response head,
`Σ notified = max 0 (Σ acked − H)` while the socket is not closed, `hdrRemaining = H − Σ acked`
while the write state is `headers`, `Σ acked + unacked = written`, every count ≥ 0, and `H` is what
`headerLen` reads off the wire (Lemmas/C18Head.lean: the first blank line of a clean head is its end).
-/

namespace Qhttp.C18
open Qhttp

/-- the events of the scenario shape: API calls (any call; a `note` may record anything but
    `ev`/`w`/`bw`/`tc`, which the walk interprets) and acknowledgements -/
abbrev okEvent : Event → Bool := C18L.okEvent

theorem walk_eq (evs : List Event) (h : Nat) (l : List Obs) (w a : Nat) (s : Int) :
    walk evs h l w a s = C18L.walk' (ackOf evs) h l ⟨w, a, s⟩ := by
  induction l generalizing w a s with
  | nil => rfl
  | cons o l ih =>
    cases o <;> simp only [walk, C18L.walk', C18L.wok, C18L.wstep, ih, Bool.true_and, Bool.and_assoc]

theorem sumBw_eq (ack : Nat → Nat → Nat) (obs : List Obs) : sumBw obs = (C18L.track ack obs).sum := by
  rw [C18L.track_sum]; rfl

theorem ackOf_event (evs : List Event) (j : Nat) (e : Event) (h : evs[j]? = some e) (u : Nat) :
    ackOf evs j u = C18L.ackOfEvent e u := by
  unfold ackOf C18L.ackOfEvent
  rw [h]
  cases e <;> rfl

theorem headerLen_nil : headerLen [] = none := rfl

/-- the final state of every run of the shape satisfies the invariant -/
theorem run_inv (env : Env) (rest : List Event) (hev : rest.all okEvent = true)
    (hwf : C03.wfOps (C03.apiOps ⟨{}, .new :: rest⟩) false = true) :
    ∃ st, C18L.WInv (ackOf (.new :: rest)) st (Scenario.run env ⟨{}, .new :: rest⟩) ∧
      ((Event.new :: rest).getLast? = some .ackAll →
        (Scenario.run env ⟨{}, .new :: rest⟩).tcp.unacked = 0) :=
  C18L.run_inv env (ackOf (.new :: rest)) rest (fun j e h u => ackOf_event _ j e h u) hev hwf

/-- **C18** on the model: for every environment and every history of the shape the predicate
    evaluated by the driver holds. -/
theorem holds_run (env : Env) (rest : List Event) (hev : rest.all okEvent = true)
    (hwf : C03.wfOps (C03.apiOps ⟨{}, .new :: rest⟩) false = true) :
    holds ⟨{}, .new :: rest⟩ (Scenario.run env ⟨{}, .new :: rest⟩).log = true := by
  obtain ⟨st, ⟨co, ph⟩, hlast⟩ := run_inv env rest hev hwf
  unfold holds
  simp only []
  rw [co.wire]
  rcases ph with pb | ⟨_, pa⟩ | ⟨_, h, pc⟩
  · rw [pb.wire, headerLen_nil]; simp only [Bool.or_true]
  · rw [pa.wire, headerLen_nil]; simp only [Bool.or_true]
  · have hh : headerLen (Scenario.run env ⟨{}, .new :: rest⟩).tcp.wire = some h := pc.hl
    rw [hh]
    simp only []
    rw [walk_eq, show (⟨0, 0, 0⟩ : C18L.WSt) = {} from rfl, pc.wk, Bool.true_and]
    split
    · rename_i hc
      simp only [Bool.and_eq_true, Bool.not_eq_true', ended, Bool.or_eq_false_iff] at hc
      obtain ⟨⟨hnotc, _⟩, hl⟩ := hc
      have hlast' : (Event.new :: rest).getLast? = some .ackAll := by
        revert hl
        cases (Event.new :: rest).getLast? with
        | none => simp
        | some e => cases e <;> simp
      have hun := hlast hlast'
      have hak := co.ak
      rw [hun] at hak
      rw [sumBw_eq (ackOf (.new :: rest)), beq_iff_eq]
      rcases pc.st with ⟨_, _, _, hlt, _⟩ | ⟨_, _, _, hsum⟩ | ⟨_, hd, _⟩
      · -- everything acknowledged yet still inside the head: impossible, the head is on the wire
        exfalso
        have hle : h ≤ (Scenario.run env ⟨{}, .new :: rest⟩).tcp.wire.length := by
          have := pc.hl
          cases hb : breakOn CRLF2 (Scenario.run env ⟨{}, .new :: rest⟩).tcp.wire with
          | none => simp [hb] at this
          | some ar =>
            simp only [hb, Option.map_some, Option.some.injEq] at this
            have h2 := C18L.breakOn_length _ _ ar.1 ar.2 hb
            have h4 : CRLF2.length = 4 := rfl
            omega
        omega
      · rw [hsum]; omega
      · exfalso
        have := co.tc2 hd
        rw [hnotc] at this
        cases this
    · rfl

/-- `headerLen` measures the response head: whatever body follows a head whose reason phrase and
    header fields are CR-free, the first blank line on the wire is the end of that head. -/
theorem headerLen_head (s : Sock) (hc : C18L.cleanHead s = true) (body : Bytes) :
    headerLen (Sock.headBytes s ++ body) = some (Sock.headBytes s).length := by
  obtain ⟨a, ha, hl⟩ := C18L.breakOn_head s hc body
  simp [headerLen, ha, hl]

/-- The invariant in plain terms, independent of `holds`: at the end of every history of the shape,
    if the head (of length `H`) is on the wire and the socket has not been closed, the notified
    counts add up to `max 0 (acknowledged − H)`, where acknowledged = written − unacknowledged.
    In particular no header byte is ever notified and never more than the body bytes written. -/
theorem sum_bw_eq (env : Env) (rest : List Event) (hev : rest.all okEvent = true)
    (hwf : C03.wfOps (C03.apiOps ⟨{}, .new :: rest⟩) false = true) (H : Nat)
    (hH : headerLen (Scenario.run env ⟨{}, .new :: rest⟩).tcp.wire = some H)
    (hopen : (Scenario.run env ⟨{}, .new :: rest⟩).tcp.devOpen = true) :
    sumBw (Scenario.run env ⟨{}, .new :: rest⟩).log
      = max 0 (((Scenario.run env ⟨{}, .new :: rest⟩).tcp.wire.length : Int)
                - (Scenario.run env ⟨{}, .new :: rest⟩).tcp.unacked - H) := by
  obtain ⟨st, ⟨co, ph⟩, _⟩ := run_inv env rest hev hwf
  have hak := co.ak
  rw [sumBw_eq (ackOf (.new :: rest))]
  rcases ph with pb | ⟨_, pa⟩ | ⟨_, h, pc⟩
  · rw [pb.dev] at hopen; cases hopen
  · rw [pa.wire, headerLen_nil] at hH; cases hH
  · have hh : headerLen (Scenario.run env ⟨{}, .new :: rest⟩).tcp.wire = some h := pc.hl
    rw [hh] at hH
    cases hH
    rcases pc.st with ⟨_, _, _, hlt, hsum⟩ | ⟨_, _, hge, hsum⟩ | ⟨_, hd, _⟩
    · rw [hsum]; omega
    · rw [hsum]; omega
    · rw [hd] at hopen; cases hopen

/-- once everything is acknowledged (socket not closed), the sum is the number of body bytes -/
theorem sum_bw_all_acked (env : Env) (rest : List Event) (hev : rest.all okEvent = true)
    (hwf : C03.wfOps (C03.apiOps ⟨{}, .new :: rest⟩) false = true) (H : Nat)
    (hH : headerLen (Scenario.run env ⟨{}, .new :: rest⟩).tcp.wire = some H)
    (hopen : (Scenario.run env ⟨{}, .new :: rest⟩).tcp.devOpen = true)
    (hall : (Scenario.run env ⟨{}, .new :: rest⟩).tcp.unacked = 0) :
    sumBw (Scenario.run env ⟨{}, .new :: rest⟩).log
      = ((Scenario.run env ⟨{}, .new :: rest⟩).tcp.wire.length : Int) - H := by
  rw [sum_bw_eq env rest hev hwf H hH hopen, hall]
  have hle : H ≤ (Scenario.run env ⟨{}, .new :: rest⟩).tcp.wire.length := by
    cases hb : breakOn CRLF2 (Scenario.run env ⟨{}, .new :: rest⟩).tcp.wire with
    | none => simp [headerLen, hb] at hH
    | some ar =>
      simp only [headerLen, hb, Option.map_some, Option.some.injEq] at hH
      have h2 := C18L.breakOn_length _ _ ar.1 ar.2 hb
      have h4 : CRLF2.length = 4 := rfl
      omega
  omega

/-! ### non-vacuity: the 18-byte head `HTTP/1.0 200 K\r\n\r\n`, body `xyz`, acknowledged in pieces
    that end exactly at, one byte before, and across the end of the head -/

def exEnv : Env := { url := fun p => some (p, []), errPage := fun _ _ => [60, 62] }

def exPre : List Event :=
  [.api (.status 200 (some [75])), .api (.hdr [65] [49] false), .api (.status 200 (some [75])),
   .api (.hdrs []), .api (.write [120, 121, 122]), .ack 14]

/-- exactly at the end of the head, then the body byte by byte -/
def exAt : List Event := exPre ++ [.ack 4, .ack 1, .ack 1, .api (.write [119]), .ackAll]
/-- one byte before the end, then one piece straddling into the body -/
def exBefore : List Event := exPre ++ [.ack 3, .ack 2, .ackAll]
/-- one piece from inside the head to inside the body -/
def exAcross : List Event := exPre ++ [.ack 6, .ack 100]
/-- closed before everything is acknowledged -/
def exClosed : List Event := exPre ++ [.ack 5, .api .close, .ackAll]

example : exAt.all okEvent = true ∧ C03.wfOps (C03.apiOps ⟨{}, .new :: exAt⟩) false = true := by decide
example : exClosed.all okEvent = true ∧ C03.wfOps (C03.apiOps ⟨{}, .new :: exClosed⟩) false = true := by
  decide

def bwOf (l : List Obs) : List Int := l.filterMap fun o => match o with | .bw n => some n | _ => none

example : bwOf (Scenario.run exEnv ⟨{}, .new :: exAt⟩).log = [0, 1, 1, 2] := by decide +kernel
example : bwOf (Scenario.run exEnv ⟨{}, .new :: exBefore⟩).log = [1, 2] := by decide +kernel
example : bwOf (Scenario.run exEnv ⟨{}, .new :: exAcross⟩).log = [2, 1] := by decide +kernel
example : bwOf (Scenario.run exEnv ⟨{}, .new :: exClosed⟩).log = [1] := by decide +kernel
example : headerLen (Scenario.run exEnv ⟨{}, .new :: exAt⟩).tcp.wire = some 18 := by decide +kernel

example : holds ⟨{}, .new :: exAt⟩ (Scenario.run exEnv ⟨{}, .new :: exAt⟩).log = true := by
  decide +kernel
example : holds ⟨{}, .new :: exBefore⟩ (Scenario.run exEnv ⟨{}, .new :: exBefore⟩).log = true := by
  decide +kernel
example : holds ⟨{}, .new :: exAcross⟩ (Scenario.run exEnv ⟨{}, .new :: exAcross⟩).log = true := by
  decide +kernel
example : holds ⟨{}, .new :: exClosed⟩ (Scenario.run exEnv ⟨{}, .new :: exClosed⟩).log = true := by
  decide +kernel

/-- the predicate is not vacuous: a history with a header byte notified is rejected -/
example : holds ⟨{}, [.new, .api .wh, .ack 5]⟩
    [.ev 0, .ev 1, .w (Sock.headBytes {}), .ev 2, .bw 5] = false := by decide +kernel

end Qhttp.C18
