import Qhttp.Model.Http
/-
  C18 — write-progress notifications count body bytes only, for every acknowledgement pattern.
-/
namespace Qhttp.C18
open Qhttp

/-- number of bytes of the header block on the wire (up to and including the blank line) -/
def headerLen (wire : Bytes) : Option Nat :=
  (breakOn CRLF2 wire).map fun p => p.1.length + 4

def ackOf (evs : List Event) (k : Nat) : Nat → Nat := fun unacked =>
  match evs[k]? with
  | some (.ack n) => min n unacked
  | some .ackAll => unacked
  | _ => 0

/-- walk the history: `written` bytes on the wire, `acked` bytes acknowledged, `sum` notified.
    At every notification: count ≥ 0 and sum ≤ max 0 (acked − H); H is known once on the wire. -/
def walk (evs : List Event) (h : Nat) : List Obs → (written acked : Nat) → (sum : Int) → Bool
  | [], _, _, _ => true
  | o :: l, written, acked, sum =>
    match o with
    | .ev k => walk evs h l written (acked + ackOf evs k (written - acked)) sum
    | .w b => walk evs h l (written + b.length) acked sum
    | .bw n => n ≥ 0 && sum + n ≤ ((acked : Int) - h) && sum + n ≤ ((written : Int) - h) &&
               walk evs h l written acked (sum + n)
    | _ => walk evs h l written acked sum

def sumBw (obs : List Obs) : Int := obs.foldl (fun a o => match o with | .bw n => a + n | _ => a) 0

/-- the connection was ended (by the application or the peer) during the history -/
def ended (sc : Scenario) (obs : List Obs) : Bool :=
  obs.any Obs.isTc || sc.events.any fun e => match e with | .peerClose => true | _ => false

/-- scenario shape: one response head (written explicitly or implicitly, once), body writes,
    acknowledgements in arbitrary pieces. -/
def holds (sc : Scenario) (obs : List Obs) : Bool :=
  let wire := Obs.wire obs
  match headerLen wire with
  | none => Obs.countP (fun o => match o with | .bw _ => true | _ => false) obs == 0 || true
  | some h =>
    walk sc.events h obs 0 0 0 &&
    -- not closed and everything acknowledged at the end: the sum is the body byte count
    (if !ended sc obs && (match sc.events.getLast? with | some .ackAll => true | _ => false)
     then sumBw obs == (wire.length : Int) - h else true)

end Qhttp.C18
