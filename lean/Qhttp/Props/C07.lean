import Qhttp.Model.FsHandler
import Qhttp.Model.Http
import Qhttp.Props.C01
import Qhttp.Lemmas.FsWalk
import Qhttp.Lemmas.C07Run
/-
  C07 — files are served only from inside the document root.
-/
namespace Qhttp.C07
open Qhttp FsHandler

/-- `QString::toHtmlEscaped` -/
def htmlEscape : Bytes → Bytes
  | [] => []
  | c :: cs =>
    (if c == 60 then lit ['&','l','t',';'] else if c == 62 then lit ['&','g','t',';']
     else if c == 38 then lit ['&','a','m','p',';'] else if c == 34 then lit ['&','q','u','o','t',';']
     else [c]) ++ htmlEscape cs

def HREF : Bytes := lit ['h','r','e','f','=','"']

/-- location of the document root (resolved) -/
def rootLoc (fe : FsEnv) : Option (List Bytes) := Fs.resolve fe.tree (Fs.storedRoot fe.root)

def inside (rootL loc : List Bytes) : Bool := rootL.isPrefixOf loc

def statusOf (wire : Bytes) : Option Nat :=
  match Http.parse wire with
  | some m => (Http.statusLine m.start).map (·.code)
  | none => none

def bodyOf (wire : Bytes) : Bytes := match Http.parse wire with | some m => m.body | none => []

/-- a success response discloses an outside location if its body is the content of a file outside
    the root, or lists (as a link) a name that exists only outside the root -/
def disclosesOutside (fe : FsEnv) (rootL : List Bytes) (body : Bytes) : Bool :=
  let outside := fe.tree.filter fun e => !inside rootL e.1
  let insideNames := (fe.tree.filter fun e => inside rootL e.1 && e.1 != rootL).filterMap fun e => e.1.getLast?
  outside.any fun e =>
    match e.2, e.1.getLast? with
    | .file, some n =>
      (!(fe.content e.1).isEmpty && body == fe.content e.1) ||
      (!insideNames.contains n && isInfixB (HREF ++ htmlEscape n ++ [34]) body)
    | .dir, some n => !insideNames.contains n && isInfixB (HREF ++ htmlEscape n ++ [47, 34]) body
    | _, none => false

/-- plain relative path: non-empty names without '.', '..', '%', separated by single slashes -/
def plain (p : Bytes) : Bool :=
  !p.isEmpty && (Fs.segs p).all fun s => !s.isEmpty && s != Fs.DOT && s != Fs.DOTDOT && !containsByte 37 s && !containsByte 0 s

def hidden (n : Bytes) : Bool := n.head? == some 46

/-- `path` is what the root handler receives (the request path decoded once, leading slash
    removed).  A success response never discloses anything outside the root; a plain relative
    path to something that exists inside the root is answered 200 with that thing. -/
def holds (fe : FsEnv) (path : Bytes) (complete : Bool) (obs : List Obs) : Bool :=
  match rootLoc fe with
  | none => true
  | some rootL =>
    let wire := Obs.wire obs
    let st := statusOf wire
    (if st == some 200 || st == some 206 then !disclosesOutside fe rootL (bodyOf wire) else true) &&
    (if complete && plain path then
       match Fs.kindAt fe.tree (rootL ++ Fs.segs path) with
       | some .file => st == some 200 && bodyOf wire == fe.content (rootL ++ Fs.segs path)
       | some .dir =>
         st == some 200 &&
         (fe.tree.all fun e =>
            if e.1.dropLast == rootL ++ Fs.segs path then
              (match e.1.getLast? with
               | some n => hidden n || isInfixB (HREF ++ htmlEscape n ++ (if e.2 == .dir then [47, 34] else [34])) (bodyOf wire)
               | none => true)
            else true)
       | none => true
     else true)

/-! ## Theorems

  The file system `t : Fs.Tree` is a parameter everywhere; `path` is ANY byte string (the
  result of whatever decoding happened before); the document root ranges over the decidable
  class `Fs.CleanAbs` (absolute spellings without a `..` segment: repeated / trailing slashes
  and `.` segments are allowed; `Fs.StrictCleanAbs`, i.e. `/` or `/name/…/name`, is a subclass).
  `Fs.locOf root` is the list of the root's names (for the strict class: its non-empty
  segments, `locOf_strict`).  Helper lemmas: `Qhttp/Lemmas/Fs{Segs,Stack,Paths,Walk}.lean`. -/

open Fs in
/-- 1. containment: whatever `served` returns lies inside the document root, segment-wise
    (so `/r/rootx` is not inside `/r/root`). -/
theorem contained (t : Fs.Tree) (root path : Bytes) (hr : Fs.CleanAbs root = true)
    {loc : List Bytes} (h : Fs.served t root path = some loc) : Fs.locOf root <+: loc := by
  cases hp : isAbs path with
  | false =>
    rw [(served_rel_eq t hr hp h).1]
    exact List.prefix_append _ _
  | true =>
    obtain ⟨hpre, hloc⟩ := served_abs_eq t hr hp h
    by_cases hne : locOf root = []
    · rw [hne]; exact List.nil_prefix
    · rw [hloc hne]; exact hpre

/-- the same with the executable `inside` used by `holds` -/
theorem contained_inside (t : Fs.Tree) (root path : Bytes) (hr : Fs.CleanAbs root = true)
    {loc : List Bytes} (h : Fs.served t root path = some loc) : inside (Fs.locOf root) loc = true :=
  List.isPrefixOf_iff_prefix.2 (contained t root path hr h)

/-- where exactly: for a relative request path the served location is the root's location
    followed by the lexically cleaned request segments, which do not begin with `..` -/
theorem served_rel (t : Fs.Tree) (root path : Bytes) (hr : Fs.CleanAbs root = true)
    (hp : Fs.isAbs path = false) {loc : List Bytes} (h : Fs.served t root path = some loc) :
    loc = Fs.locOf root ++ Fs.normStack [] (Fs.segs path) ∧
      (Fs.normStack [] (Fs.segs path)).head? ≠ some Fs.DOTDOT :=
  Fs.served_rel_eq t hr hp h

/-- key lemma (a) restated here: a successful kernel resolution is the lexical normalisation -/
theorem resolve_lexical (t : Fs.Tree) (abs : Bytes) {loc : List Bytes}
    (h : Fs.resolve t abs = some loc) : loc = Fs.lexical [] (Fs.segs abs) :=
  Fs.walk_lexical t [] _ loc h

/-- the location `holds` measures against (`rootLoc`: where the stored root resolves) is
    `locOf root` whenever the root exists -/
theorem rootLoc_eq (fe : FsEnv) (hr : Fs.CleanAbs fe.root = true) {l : List Bytes}
    (h : rootLoc fe = some l) : l = Fs.locOf fe.root := by
  have := Fs.walk_lexR fe.tree [] _ l h
  rw [this, Fs.lexR_storedRoot hr, List.reverse_reverse]

/-- `plain` paths consist of names only -/
theorem plain_allNames {p : Bytes} (h : plain p = true) : Fs.allNames p = true := by
  unfold plain at h
  simp only [Bool.and_eq_true, List.all_eq_true] at h
  apply Fs.allNames_iff.2
  intro s hs
  have := h.2 s hs
  apply Fs.isName_iff.2
  obtain ⟨⟨⟨⟨h1, h2⟩, h3⟩, _⟩, _⟩ := this
  refine ⟨?_, by simpa using h2, by simpa using h3⟩
  intro e; subst e; simp at h1

open Fs in
/-- 2. reachability, kernel form: if the plain relative path resolves (every intermediate
    component is a directory) to the location `root ++ path`, it is served. -/
theorem reachable (t : Fs.Tree) (root path : Bytes) (hpl : plain path = true)
    (hres : Fs.resolve t (Fs.absoluteFilePath root path) = some (Fs.locOf root ++ Fs.segs path)) :
    Fs.served t root path = some (Fs.locOf root ++ Fs.segs path) := by
  have hn := plain_allNames hpl
  rw [served_some_iff]
  refine ⟨hres, ?_⟩
  rw [relativeFilePath_rel root (allNames_not_abs hn)]
  apply (rel_accepted_iff (allNames_not_abs hn)).2
  rw [allNames_normStack hn]
  cases hs : segs path with
  | nil => simp
  | cons x l =>
    have := allNames_iff.1 hn x (by rw [hs]; simp)
    simp only [List.head?_cons, ne_eq, Option.some.injEq]
    exact (isName_iff.1 this).2.2

open Fs in
/-- on a prefix-closed tree (every listed location has its ancestors listed as directories),
    existence of `root ++ path` is enough for the kernel resolution to succeed -/
theorem resolve_of_exists (t : Fs.Tree) (root path : Bytes) (ht : Fs.treeClosed t = true)
    (hr : Fs.CleanAbs root = true) (hn : Fs.allNames path = true) {k : Fs.Kind}
    (hk : Fs.kindAt t (Fs.locOf root ++ Fs.segs path) = some k) :
    Fs.resolve t (Fs.absoluteFilePath root path) = some (Fs.locOf root ++ Fs.segs path) := by
  obtain ⟨pre, hseg, hdd, hpre⟩ :=
    segs_absoluteFilePath hr (allNames_ne_nil hn) (allNames_not_abs hn)
  have hlen : 0 < (segs path).length := by
    cases hs : segs path with
    | nil => exact absurd hs (segs_ne_nil path)
    | cons x l => simp
  unfold resolve
  rw [hseg, walk_dirs t [] pre (segs path) hdd (by
    intro n hle
    rw [hpre] at hle ⊢
    have := kindAt_prefix_dir ht hk (n := n) (by simp; omega)
    rw [List.take_append_of_le_length hle] at this
    simpa using this)]
  rw [hpre, List.append_nil]
  have := walk_names t (locOf root).reverse (segs path) k (allNames_iff.1 hn)
    (by
      intro n hlt
      rw [List.reverse_reverse]
      have := kindAt_prefix_dir ht hk (n := (locOf root).length + n) (by simp; omega)
      rw [List.take_append, List.take_of_length_le (by omega)] at this
      simpa using this)
    (by rw [List.reverse_reverse]; exact hk)
  rw [this, List.reverse_reverse]

/-- 2'. reachability, existence form: on a prefix-closed tree every existing file or directory
    inside the root is served under its plain relative path. -/
theorem reachable_exists (t : Fs.Tree) (root path : Bytes) (ht : Fs.treeClosed t = true)
    (hr : Fs.CleanAbs root = true) (hpl : plain path = true) {k : Fs.Kind}
    (hk : Fs.kindAt t (Fs.locOf root ++ Fs.segs path) = some k) :
    Fs.served t root path = some (Fs.locOf root ++ Fs.segs path) :=
  reachable t root path hpl (resolve_of_exists t root path ht hr (plain_allNames hpl) hk)

/-- 3a. `cleanPath` is idempotent -/
theorem cleanPath_idem (p : Bytes) : Fs.cleanPath (Fs.cleanPath p) = Fs.cleanPath p :=
  Fs.cleanPath_idem' p

open Fs in
/-- 3b. a cleaned path is `.`, `/`, or (after the leading slash of an absolute path) a slash-
    separated list of segments none of which is empty or `.`, with `..` only as a leading run
    (`isNF`); absoluteness is preserved -/
theorem cleanPath_no_dot (p : Bytes) (hp : p ≠ []) :
    Fs.isAbs (Fs.cleanPath p) = Fs.isAbs p ∧
    ((Fs.cleanPath p = Fs.DOT ∧ Fs.isAbs p = false) ∨ (Fs.cleanPath p = [47] ∧ Fs.isAbs p = true) ∨
     Fs.isNF (Fs.segs (if Fs.isAbs p then (Fs.cleanPath p).drop 1 else Fs.cleanPath p)) = true) := by
  have hnf := NF_iff.1 (normStack_nil_NF (segs p))
  have hel := normStack_segs_elems p
  cases habs : isAbs p with
  | true =>
    rw [cleanPath_abs habs]
    refine ⟨by simp [isAbs, SLASH], ?_⟩
    cases hst : normStack [] (segs p) with
    | nil => right; left; exact ⟨rfl, rfl⟩
    | cons x l =>
      right; right
      rw [← hst]
      simp only [if_true, List.drop_succ_cons, List.drop_zero]
      rw [segs_joinSegs (by rw [hst]; simp) (fun s hs => (hel s hs).2)]
      exact hnf
  | false =>
    refine ⟨cleanPath_rel_isAbs habs, ?_⟩
    rw [cleanPath_rel hp habs]
    split
    · left; exact ⟨rfl, rfl⟩
    · rename_i he
      right; right
      simp only [Bool.false_eq_true, if_false]
      rw [segs_joinSegs (by intro e; rw [e] at he; exact he rfl) (fun s hs => (hel s hs).2)]
      exact hnf

/-! ### `holds` on the composed run -/

/-- the links of all non-hidden entries of the directory at `loc` occur in `body` (the directory
    clause of `holds`) -/
def listsAll (fe : FsEnv) (loc : List Bytes) (body : Bytes) : Bool :=
  fe.tree.all fun e =>
    if e.1.dropLast == loc then
      (match e.1.getLast? with
       | some n => hidden n || isInfixB (HREF ++ htmlEscape n ++ (if e.2 == .dir then [47, 34] else [34])) body
       | none => true)
    else true

theorem mem_joinSegs {c : UInt8} : ∀ {l : List Bytes}, c ∈ Fs.joinSegs l → c = 47 ∨ ∃ s ∈ l, c ∈ s := by
  intro l
  induction l with
  | nil => intro h; simp [Fs.joinSegs_nil] at h
  | cons x l ih =>
    intro h
    cases l with
    | nil => rw [Fs.joinSegs_single] at h; exact .inr ⟨x, by simp, h⟩
    | cons y l =>
      rw [Fs.joinSegs_cons x (by simp)] at h
      rcases List.mem_append.1 h with h | h
      · exact .inr ⟨x, by simp, h⟩
      · rcases List.mem_cons.1 h with h | h
        · exact .inl h
        · rcases ih h with h | ⟨s, hs, hc⟩
          · exact .inl h
          · exact .inr ⟨s, by simp [hs], hc⟩

theorem plain_no_pct {p : Bytes} (h : plain p = true) : (37 : UInt8) ∉ p := by
  intro hm
  rw [← Fs.joinSegs_segs p] at hm
  rcases mem_joinSegs hm with h47 | ⟨s, hs, hc⟩
  · exact absurd h47 (by decide)
  · unfold plain at h
    simp only [Bool.and_eq_true, List.all_eq_true] at h
    have := (h.2 s hs).1.2
    have hc' : containsByte 37 s = true := containsByte_iff.2 hc
    rw [hc'] at this
    cases this

theorem plan_served {fe : FsEnv} {path : Bytes} {hs : HeaderMap} :
    (plan fe path hs = .notFound → True) ∧
    (∀ loc d, plan fe path hs = .dir loc d →
      Fs.served fe.tree fe.root (Fs.pctDecode path) = some loc ∧ d = Fs.pctDecode path) ∧
    (∀ loc r, plan fe path hs = .file loc r → Fs.served fe.tree fe.root (Fs.pctDecode path) = some loc) := by
  unfold plan
  simp only []
  refine ⟨fun _ => trivial, ?_, ?_⟩
  · intro loc d h
    split at h
    · cases h
    · rename_i l hl
      split at h
      · cases h; exact ⟨hl, rfl⟩
      · cases h
  · intro loc r h
    split at h
    · cases h
    · rename_i l hl
      split at h
      · cases h
      · cases h; exact hl

theorem plan_of_served {fe : FsEnv} {path : Bytes} {hs : HeaderMap} {loc : List Bytes}
    (h : Fs.served fe.tree fe.root (Fs.pctDecode path) = some loc) :
    (Fs.kindAt fe.tree loc = some .dir → plan fe path hs = .dir loc (Fs.pctDecode path)) ∧
    (Fs.kindAt fe.tree loc = some .file → ∃ r, plan fe path hs = .file loc r) := by
  unfold plan
  simp only [h]
  constructor
  · intro hk; rw [hk]
  · intro hk; rw [hk]; exact ⟨_, rfl⟩

/-- `C07_decode_all`: the statement is about the string after both decodings, so singly and
    doubly percent-encoded dots and slashes are covered by the quantifier: for EVERY path handed to
    `process` (any bytes, any encoding), whatever `process` decides to serve — as a file or as a
    directory listing — lies inside the document root and exists. -/
theorem plan_contained (fe : FsEnv) (path : Bytes) (hs : HeaderMap) (hroot : Fs.CleanAbs fe.root = true) :
    match plan fe path hs with
    | .notFound => True
    | .dir loc _ => Fs.locOf fe.root <+: loc ∧ Fs.kindAt fe.tree loc ≠ none
    | .file loc _ => Fs.locOf fe.root <+: loc ∧ Fs.kindAt fe.tree loc ≠ none := by
  obtain ⟨_, hpd, hpf⟩ := plan_served (fe := fe) (path := path) (hs := hs)
  cases hplan : plan fe path hs with
  | notFound => trivial
  | dir loc d =>
    have h := (hpd loc d hplan).1
    exact ⟨contained _ _ _ hroot h, Fs.served_exists _ _ _ h⟩
  | file loc r =>
    have h := hpf loc r hplan
    exact ⟨contained _ _ _ hroot h, Fs.served_exists _ _ _ h⟩

/-- every existing location inside the root: files fit one copy block, MIME type names are
    CR-free -/
def okFiles (fe : FsEnv) : Bool :=
  (([], Fs.Kind.dir) :: fe.tree).all fun e =>
    !inside (Fs.locOf fe.root) e.1 ||
      (decide ((fe.content e.1).length ≤ 65536) && !containsByte CR (fe.mime e.1))

/-- canary hypothesis: the content / the listing (for the decoded path `d`) of an existing location
    inside the root does not by itself coincide with an outside canary -/
def noCanary (fe : FsEnv) (d : Bytes) : Bool :=
  (([], Fs.Kind.dir) :: fe.tree).all fun e =>
    !inside (Fs.locOf fe.root) e.1 ||
      (!disclosesOutside fe (Fs.locOf fe.root) (fe.content e.1) &&
       !disclosesOutside fe (Fs.locOf fe.root) (fe.listing e.1 d))

/-- the listing oracle links every non-hidden entry of every directory -/
def listingOk (fe : FsEnv) (d : Bytes) : Bool :=
  (([], Fs.Kind.dir) :: fe.tree).all fun e => e.2 != .dir || listsAll fe e.1 (fe.listing e.1 d)

/-- **C07 on the composed run** (socket + `FilesystemHandler::process` + copier), for EVERY
    request path.  Scenario shape: the socket is created, the whole request arrives in one
    segment (a head `C01.expect` accepts, no Content-Length, no Range header), an event-loop turn,
    then any acknowledgements and turns.  Parameters and what is assumed of them (all decidable):
    * the document root is absolute without `..` segment; the tree is prefix-closed;
    * `okFiles`: files inside the root fit one copy block and have CR-free MIME type names;
    * `noCanary`: the content of a file inside the root / the listing of a directory inside the
      root does not by itself coincide with an outside canary;
    * `listingOk`: the listing oracle links every non-hidden entry.
    Then the executable predicate the driver evaluates holds: a success response discloses nothing
    outside the root, and a plain relative path to an existing file or directory inside the root
    is answered 200 with that file / listing. -/
theorem holds_run (env : Env) (fe : FsEnv) (req head : Bytes) (snap : Snap) (tail : List Event)
    (complete : Bool)
    (hreq : breakOn CRLF2 req = some (head, []))
    (hexp : C01.expect env head = some snap)
    (hcl : HeaderMap.contains Sock.CONTENT_LENGTH snap.headers = false)
    (hnr : HeaderMap.value RANGE snap.headers = [])
    (hroot : Fs.CleanAbs fe.root = true) (htree : Fs.treeClosed fe.tree = true)
    (hfile : okFiles fe = true)
    (hcan : noCanary fe (Fs.pctDecode (snap.path.drop 1)) = true)
    (hlist : listingOk fe (Fs.pctDecode (snap.path.drop 1)) = true)
    (htail : tail.all C03L.allowedEv = true) :
    holds fe (snap.path.drop 1) complete
      (FsHandler.run env fe (.new :: .feed req :: .turn :: tail)).sock.log = true := by
  obtain ⟨rh, p, q, hparse, hurl, rfl⟩ := (C01.expect_eq_some_iff env head snap).1 hexp
  simp only at hcl hnr hcan hlist ⊢
  unfold holds
  cases hrl : rootLoc fe with
  | none => rfl
  | some rootL =>
    have hR : rootL = Fs.locOf fe.root := rootLoc_eq fe hroot hrl
    subst hR
    simp only []
    obtain ⟨hpn, hpd, hpf⟩ := plan_served (fe := fe) (path := p.drop 1) (hs := rh.headers)
    -- whatever is served is an existing location inside the root
    have hins : ∀ loc, Fs.served fe.tree fe.root (Fs.pctDecode (p.drop 1)) = some loc →
        inside (Fs.locOf fe.root) loc = true ∧ ∃ e ∈ ([], Fs.Kind.dir) :: fe.tree, e.1 = loc := by
      intro loc h
      refine ⟨contained_inside _ _ _ hroot h, ?_⟩
      cases hk : Fs.kindAt fe.tree loc with
      | none => exact absurd hk (Fs.served_exists _ _ _ h)
      | some k =>
        obtain ⟨e, he, h1, _⟩ := Fs.kindAt_mem hk
        exact ⟨e, he, h1⟩
    have hfile' : ∀ loc, Fs.served fe.tree fe.root (Fs.pctDecode (p.drop 1)) = some loc →
        (fe.content loc).length ≤ 65536 ∧ CR ∉ fe.mime loc := by
      intro loc h
      obtain ⟨hi, e, he, rfl⟩ := hins loc h
      have := List.all_eq_true.1 hfile e he
      simp only [hi, Bool.not_true, Bool.false_or, Bool.and_eq_true, decide_eq_true_eq,
        Bool.not_eq_true'] at this
      exact ⟨this.1, containsByte_eq_false_iff.1 this.2⟩
    have hcan' : ∀ loc, Fs.served fe.tree fe.root (Fs.pctDecode (p.drop 1)) = some loc →
        disclosesOutside fe (Fs.locOf fe.root) (fe.content loc) = false ∧
        disclosesOutside fe (Fs.locOf fe.root) (fe.listing loc (Fs.pctDecode (p.drop 1))) = false := by
      intro loc h
      obtain ⟨hi, e, he, rfl⟩ := hins loc h
      have := List.all_eq_true.1 hcan e he
      simp only [hi, Bool.not_true, Bool.false_or, Bool.and_eq_true, Bool.not_eq_true'] at this
      exact this
    obtain ⟨m, hm, hres⟩ := C07L.run_response env fe req head rh p q tail hreq hparse hurl hcl hnr
      (fun loc r hpl => hfile' loc (hpf loc r hpl)) htail
    have hst : statusOf (Obs.wire (FsHandler.run env fe (.new :: .feed req :: .turn :: tail)).sock.log) =
        (Http.statusLine m.start).map (·.code) := by
      unfold statusOf; rw [hm]
    have hbd : bodyOf (Obs.wire (FsHandler.run env fe (.new :: .feed req :: .turn :: tail)).sock.log) =
        m.body := by
      unfold bodyOf; rw [hm]
    rw [hst, hbd]
    rw [Bool.and_eq_true]
    constructor
    · -- a success response discloses nothing outside the root
      cases hplan : plan fe (p.drop 1) rh.headers with
      | notFound =>
        rw [hplan] at hres
        simp only [] at hres
        rw [hres, if_neg (by decide)]
      | dir loc d =>
        rw [hplan] at hres
        simp only [] at hres
        obtain ⟨hsv, rfl⟩ := hpd loc d hplan
        have := (hcan' loc hsv).2
        rw [hres.1, hres.2, this]
        decide
      | file loc r =>
        rw [hplan] at hres
        simp only [] at hres
        have := (hcan' loc (hpf loc r hplan)).1
        rw [hres.1, hres.2, this]
        decide
    · -- a plain relative path to something that exists is answered with it
      by_cases hcp : (complete && plain (p.drop 1)) = true
      · rw [if_pos hcp]
        have hpl : plain (p.drop 1) = true := by
          rw [Bool.and_eq_true] at hcp; exact hcp.2
        have hdec : Fs.pctDecode (p.drop 1) = p.drop 1 := C07L.pctDecode_plain _ (plain_no_pct hpl)
        cases hk : Fs.kindAt fe.tree (Fs.locOf fe.root ++ Fs.segs (p.drop 1)) with
        | none => rfl
        | some k =>
          have hsv := reachable_exists fe.tree fe.root (p.drop 1) htree hroot hpl hk
          rw [← hdec] at hsv
          obtain ⟨hd, hf⟩ := plan_of_served (hs := rh.headers) hsv
          rw [hdec] at hd hf hsv
          cases k with
          | dir =>
            rw [hd hk] at hres
            simp only [] at hres
            simp only []
            rw [hres.1, hres.2]
            obtain ⟨e, he, h1, h2⟩ := Fs.kindAt_mem hk
            have := List.all_eq_true.1 hlist e he
            rw [h2, h1, hdec] at this
            simp only [bne_self_eq_false, Bool.false_or] at this
            unfold listsAll at this
            simp only [beq_self_eq_true, Bool.true_and]
            exact this
          | file =>
            obtain ⟨r, hr⟩ := hf hk
            rw [hr] at hres
            simp only [] at hres
            simp only []
            rw [hres.1, hres.2]
            simp
      · rw [if_neg hcp]

/-- the class of roots is not empty and contains the spellings the property names -/
example : Fs.CleanAbs (lit ['/','r','/','r','o','o','t']) = true := by decide
example : Fs.StrictCleanAbs (lit ['/','r','/','r','o','o','t']) = true := by decide
example : Fs.CleanAbs (lit ['/','r','/','r','o','o','t','/']) = true := by decide
example : Fs.CleanAbs (lit ['/','r','/','.','/','r','o','o','t']) = true := by decide
example : Fs.CleanAbs (lit ['/']) = true := by decide
example : Fs.CleanAbs (lit ['/','r','/','.','.','/','r']) = false := by decide
example : Fs.locOf (lit ['/','r','/','.','/','r','o','o','t','/']) = [lit ['r'], lit ['r','o','o','t']] := by decide

/-! ### 4. non-vacuity on a concrete tree

  `/r/secret`, `/r/rootx/s` (sibling whose name extends the root's), `/r/root/{in, sub/deep.txt}` -/

def exTree : Fs.Tree :=
  [ ([lit ['r']], .dir),
    ([lit ['r'], lit ['s','e','c','r','e','t']], .file),
    ([lit ['r'], lit ['r','o','o','t','x']], .dir),
    ([lit ['r'], lit ['r','o','o','t','x'], lit ['s']], .file),
    ([lit ['r'], lit ['r','o','o','t']], .dir),
    ([lit ['r'], lit ['r','o','o','t'], lit ['i','n']], .file),
    ([lit ['r'], lit ['r','o','o','t'], lit ['s','u','b']], .dir),
    ([lit ['r'], lit ['r','o','o','t'], lit ['s','u','b'], lit ['d','e','e','p','.','t','x','t']], .file) ]

def exRoot : Bytes := lit ['/','r','/','r','o','o','t']

example : Fs.treeClosed exTree = true := by decide
-- the requests that clean to the parent, and would resolve to it:
example : Fs.resolve exTree (Fs.absoluteFilePath exRoot (lit ['.','.'])) = some [lit ['r']] := by decide
example : Fs.served exTree exRoot (lit ['.','.']) = none := by decide
example : Fs.served exTree exRoot (lit ['s','u','b','/','.','.','/','.','.']) = none := by decide
example : Fs.served exTree exRoot (lit ['.','.','/']) = none := by decide
example : Fs.served exTree exRoot (lit ['.','.','/','.']) = none := by decide
example : Fs.served exTree exRoot (lit ['.','.','/','/']) = none := by decide
-- the sibling whose name extends the root's name, relative and absolute
example : Fs.resolve exTree (Fs.absoluteFilePath exRoot (lit ['.','.','/','r','o','o','t','x','/','s'])) =
    some [lit ['r'], lit ['r','o','o','t','x'], lit ['s']] := by decide
example : Fs.served exTree exRoot (lit ['.','.','/','r','o','o','t','x','/','s']) = none := by decide
example : Fs.served exTree exRoot (lit ['/','r','/','r','o','o','t','x','/','s']) = none := by decide
example : Fs.served exTree exRoot (lit ['/','r','/','s','e','c','r','e','t']) = none := by decide
example : Fs.served exTree exRoot (lit ['/','r']) = none := by decide
example : Fs.served exTree exRoot (lit ['/']) = none := by decide
-- inside the root
example : Fs.served exTree exRoot (lit ['s','u','b','/','d','e','e','p','.','t','x','t']) =
    some [lit ['r'], lit ['r','o','o','t'], lit ['s','u','b'], lit ['d','e','e','p','.','t','x','t']] := by decide
example : Fs.served exTree exRoot (lit ['s','u','b','/','.','.','/','i','n']) =
    some [lit ['r'], lit ['r','o','o','t'], lit ['i','n']] := by decide
example : Fs.served exTree exRoot (lit ['/','r','/','r','o','o','t','/','i','n']) =
    some [lit ['r'], lit ['r','o','o','t'], lit ['i','n']] := by decide
example : Fs.served exTree exRoot [] = some [lit ['r'], lit ['r','o','o','t']] := by decide
-- other spellings of the same root
example : Fs.served exTree (lit ['/','r','/','r','o','o','t','/']) (lit ['.','.']) = none := by decide
example : Fs.served exTree (lit ['/','r','/','.','/','r','o','o','t','/']) (lit ['s','u','b','/','d','e','e','p','.','t','x','t']) =
    some [lit ['r'], lit ['r','o','o','t'], lit ['s','u','b'], lit ['d','e','e','p','.','t','x','t']] := by decide
-- the hypotheses of `reachable_exists` on a concrete input
example : plain (lit ['s','u','b','/','d','e','e','p','.','t','x','t']) = true ∧
    Fs.kindAt exTree (Fs.locOf exRoot ++ Fs.segs (lit ['s','u','b','/','d','e','e','p','.','t','x','t'])) = some .file := by
  decide
-- validation of the cleanPath sub-model against the Qt observations of DESIGN.md
example : Fs.cleanPath (lit ['s','u','b','/','.','.']) = lit ['.'] := by decide
example : Fs.cleanPath (lit ['s','u','b','/','.','.','/','.','.']) = lit ['.','.'] := by decide
example : Fs.cleanPath (lit ['a','/','.','.','/','.','.','/','x']) = lit ['.','.','/','x'] := by decide
example : Fs.cleanPath (lit ['/','a','/','.','.','/','.','.']) = lit ['/','.','.'] := by decide
example : Fs.relativeFilePath exRoot (lit ['/','r','/','r','o','o','t','x','/','s']) = lit ['.','.','/','r','o','o','t','x','/','s'] := by decide
example : Fs.relativeFilePath exRoot (lit ['/','r','/','r','o','o','t']) = lit ['.'] := by decide

/-! ### non-vacuity of `holds_run` -/

def exEnv : Env := { url := fun raw => some (raw, []), errPage := fun _ _ => lit ['n','o'] }

/-- canary contents: every file contains its own location; listings link the entries -/
def exFe : FsEnv :=
  { root := exRoot, tree := exTree,
    content := fun loc => Fs.joinSegs loc,
    mime := fun _ => lit ['t','e','x','t','/','p','l','a','i','n'],
    listing := fun loc _ =>
      (exTree.filter fun e => e.1.dropLast == loc).flatMap fun e =>
        match e.1.getLast? with
        | some n => HREF ++ htmlEscape n ++ (if e.2 == .dir then [47, 34] else [34])
        | none => [] }

def exHead1 : Bytes := lit ['G','E','T',' ','/','s','u','b','/','d','e','e','p','.','t','x','t',' ','H','T','T','P','/','1','.','1']
def exSnap1 : Snap :=
  { parsed := true, method := 2, rawPath := lit ['/','s','u','b','/','d','e','e','p','.','t','x','t'],
    path := lit ['/','s','u','b','/','d','e','e','p','.','t','x','t'], query := [], headers := [], total := -1 }
def exHead2 : Bytes := lit ['G','E','T',' ','/','.','.',' ','H','T','T','P','/','1','.','1']
def exSnap2 : Snap :=
  { parsed := true, method := 2, rawPath := lit ['/','.','.'], path := lit ['/','.','.'], query := [],
    headers := [], total := -1 }
def exTail : List Event := [.turn, .turn, .turn, .turn, .ackAll, .turn]

theorem exPct1 : Fs.pctDecode (exSnap1.path.drop 1) = lit ['s','u','b','/','d','e','e','p','.','t','x','t'] :=
  C07L.pctDecode_plain _ (by decide)
theorem exPct2 : Fs.pctDecode (exSnap2.path.drop 1) = lit ['.','.'] :=
  C07L.pctDecode_plain _ (by decide)

/-- a plain path to an existing file: the theorem's hypotheses hold (all by `decide`) -/
example : holds exFe (lit ['s','u','b','/','d','e','e','p','.','t','x','t']) true
    (FsHandler.run exEnv exFe (.new :: .feed (exHead1 ++ CRLF2) :: .turn :: exTail)).sock.log = true :=
  holds_run exEnv exFe (exHead1 ++ CRLF2) exHead1 exSnap1 exTail true (by decide) (by decide) (by decide)
    (by decide) (by decide) (by decide) (by decide) (by rw [exPct1]; decide) (by rw [exPct1]; decide)
    (by decide)

/-- the parent directory `..`: answered 404, the predicate holds -/
example : holds exFe (lit ['.','.']) true
    (FsHandler.run exEnv exFe (.new :: .feed (exHead2 ++ CRLF2) :: .turn :: exTail)).sock.log = true :=
  holds_run exEnv exFe (exHead2 ++ CRLF2) exHead2 exSnap2 exTail true (by decide) (by decide) (by decide)
    (by decide) (by decide) (by decide) (by decide) (by rw [exPct2]; decide) (by rw [exPct2]; decide)
    (by decide)

-- the clause is not vacuous for this input: the path is plain and the file exists
example : plain (lit ['s','u','b','/','d','e','e','p','.','t','x','t']) = true ∧
    Fs.kindAt exFe.tree (Fs.locOf exFe.root ++ Fs.segs (lit ['s','u','b','/','d','e','e','p','.','t','x','t'])) =
      some .file ∧ rootLoc exFe = some (Fs.locOf exFe.root) := by decide


end Qhttp.C07
