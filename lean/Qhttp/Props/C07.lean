import Qhttp.Model.FsHandler
import Qhttp.Model.Http
import Qhttp.Props.C01
/-
  C07 — files are served only from inside the document root.
-/
namespace Qhttp.C07
open Qhttp FsHandler

/-- `QString::toHtmlEscaped` -/
def htmlEscape : Bytes → Bytes
  | [] => []
  | c :: cs =>
    (if c == 60 then lit ['&','l','t',';'] else if c == 62 then lit ['&','g','t',';']
     else if c == 38 then lit ['&','a','m','p',';'] else if c == 34 then lit ['&','q','u','o','t',';']
     else [c]) ++ htmlEscape cs

def HREF : Bytes := lit ['h','r','e','f','=','"']

/-- location of the document root (resolved) -/
def rootLoc (fe : FsEnv) : Option (List Bytes) := Fs.resolve fe.tree (Fs.storedRoot fe.root)

def inside (rootL loc : List Bytes) : Bool := rootL.isPrefixOf loc

def statusOf (wire : Bytes) : Option Nat :=
  match Http.parse wire with
  | some m => (Http.statusLine m.start).map (·.code)
  | none => none

def bodyOf (wire : Bytes) : Bytes := match Http.parse wire with | some m => m.body | none => []

/-- a success response discloses an outside location if its body is the content of a file outside
    the root, or lists (as a link) a name that exists only outside the root -/
def disclosesOutside (fe : FsEnv) (rootL : List Bytes) (body : Bytes) : Bool :=
  let outside := fe.tree.filter fun e => !inside rootL e.1
  let insideNames := (fe.tree.filter fun e => inside rootL e.1 && e.1 != rootL).filterMap fun e => e.1.getLast?
  outside.any fun e =>
    match e.2, e.1.getLast? with
    | .file, some n =>
      (!(fe.content e.1).isEmpty && body == fe.content e.1) ||
      (!insideNames.contains n && isInfixB (HREF ++ htmlEscape n ++ [34]) body)
    | .dir, some n => !insideNames.contains n && isInfixB (HREF ++ htmlEscape n ++ [47, 34]) body
    | _, none => false

/-- plain relative path: non-empty names without '.', '..', '%', separated by single slashes -/
def plain (p : Bytes) : Bool :=
  !p.isEmpty && (Fs.segs p).all fun s => !s.isEmpty && s != Fs.DOT && s != Fs.DOTDOT && !containsByte 37 s && !containsByte 0 s

def hidden (n : Bytes) : Bool := n.head? == some 46

/-- `path` is what the root handler receives (the request path decoded once, leading slash
    removed).  A success response never discloses anything outside the root; a plain relative
    path to something that exists inside the root is answered 200 with that thing. -/
def holds (fe : FsEnv) (path : Bytes) (complete : Bool) (obs : List Obs) : Bool :=
  match rootLoc fe with
  | none => true
  | some rootL =>
    let wire := Obs.wire obs
    let st := statusOf wire
    (if st == some 200 || st == some 206 then !disclosesOutside fe rootL (bodyOf wire) else true) &&
    (if complete && plain path then
       match Fs.kindAt fe.tree (rootL ++ Fs.segs path) with
       | some .file => st == some 200 && bodyOf wire == fe.content (rootL ++ Fs.segs path)
       | some .dir =>
         st == some 200 &&
         (fe.tree.all fun e =>
            if e.1.dropLast == rootL ++ Fs.segs path then
              (match e.1.getLast? with
               | some n => hidden n || isInfixB (HREF ++ htmlEscape n ++ (if e.2 == .dir then [47, 34] else [34])) (bodyOf wire)
               | none => true)
            else true)
       | none => true
     else true)

end Qhttp.C07
