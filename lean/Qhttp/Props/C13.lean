import Qhttp.Props.C12
/-
  C13 — the proxy relays the upstream response faithfully and maps failures to 502.
-/
namespace Qhttp.C13
open Qhttp Proxy

/-- what the upstream server sent while the connection was up, in order, and whether it then
    closed the connection; only chunks written after the first turn that follows the routing can
    have been sent -/
def upstreamSent : List PEv → (connected : Bool) → Bytes × Bool
  | [], _ => ([], false)
  | .turn :: rest, _ => upstreamSent rest true
  | .up b :: rest, true => let (x, c) := upstreamSent rest true; (b ++ x, c)
  | .upClose :: _, true => ([], true)
  | _ :: rest, conn => upstreamSent rest conn

def headerPairs (lines : List Bytes) : Option (List (Bytes × Bytes)) :=
  lines.foldr (fun l acc =>
    match acc, breakOn [COLON] l with
    | some hs, some (n, v) => some ((trim n, trim v) :: hs)
    | _, _ => none) (some [])

/-- an upstream response head the proxy must understand: `version SP code SP reason` with a code
    in 100..599, then `name: value` lines -/
def specHead (head : Bytes) : Option (Int × Bytes × List (Bytes × Bytes)) :=
  match splitF CRLF (head.length + 1) none head with
  | [] => none
  | first :: lines =>
    match splitF [SP] (first.length + 1) (some 2) first with
    | [_, code, reason] =>
      let cv := toIntQ code
      if 100 ≤ cv && cv ≤ 599 then (headerPairs lines).map fun hs => (cv, reason, hs) else none
    | _ => none

def is502Only (wire : Bytes) : Bool :=
  match Http.parse wire with
  | some m =>
    (Http.statusLine m.start).map (·.code) == some 502 &&
    Http.valuesOf Sock.CONTENT_LENGTH m.headers == [natDigits m.body.length]
  | none => false

def delivered (evs : List PEv) : Bool :=
  -- the last upstream action is followed by a turn
  match (evs.reverse.dropWhile fun e => match e with | .up _ => false | .upClose => false | _ => true) with
  | [] => true
  | _ => (evs.reverse.takeWhile fun e => match e with | .up _ => false | .upClose => false | _ => true).any
           fun e => match e with | .turn => true | _ => false

/-- scenario shape: one accepted client request, at least one turn (connection established or
    refused), then the upstream script.  Either the client receives the upstream response — same
    code and reason, every header value exactly once under its name, the body bytes in order,
    closed when the upstream ends — or, if the connection was refused, ended or produced an
    unparsable head before a complete head was relayed, exactly one 502 and nothing else. -/
def holds (env : Env) (c : Cfg) (evs : List PEv) (obs : List Obs) : Bool :=
  let stream := C12.clientStream evs
  let accepted := match C01.headOf stream with | some h => (C01.expect env h).isSome | none => false
  if !accepted || C12.nTurns evs == 0 || !delivered evs then true else
  let wire := Obs.wire obs
  if c.refuse then is502Only wire else
  let (sent, closed) := upstreamSent evs false
  match breakOn CRLF2 sent with
  | none => if closed then is502Only wire else wire.isEmpty
  | some (head, body) =>
    match specHead head with
    | none => is502Only wire
    | some (code, reason, hs) =>
      (match Http.parse wire with
       | none => false
       | some m =>
         (match Http.statusLine m.start with
          | some st => (st.code : Int) == code && st.reason == reason
          | none => false) &&
         m.body == body &&
         (Http.names m.headers).all (fun n => hs.any fun h => lower h.1 == n) &&
         hs.all (fun h => C12.vals h.1 m.headers == C12.vals h.1 hs)) &&
      (if closed then obs.any Obs.isTc else !(obs.any Obs.isTc))

end Qhttp.C13
