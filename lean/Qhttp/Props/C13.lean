import Qhttp.Props.C12
import Qhttp.Lemmas.C13Turn
import Qhttp.Lemmas.C13Parse
import Qhttp.Lemmas.C13Run
/-
  C13 — the proxy relays the upstream response faithfully and maps failures to 502.
-/
namespace Qhttp.C13
open Qhttp Proxy

/-- what the upstream server sent while the connection was up, in order, and whether it then
    closed the connection; only chunks written after the first turn that follows the routing can
    have been sent -/
def upstreamSent : List PEv → (connected : Bool) → Bytes × Bool
  | [], _ => ([], false)
  | .turn :: rest, _ => upstreamSent rest true
  | .up b :: rest, true => let (x, c) := upstreamSent rest true; (b ++ x, c)
  | .upClose :: _, true => ([], true)
  | _ :: rest, conn => upstreamSent rest conn

/-- the `name: value` pairs of the header lines; `none` when some line is not of that form: no
    colon, or nothing but white space before the first colon -/
def headerPairs (lines : List Bytes) : Option (List (Bytes × Bytes)) :=
  lines.foldr (fun l acc =>
    match acc, breakOn [COLON] l with
    | some hs, some (n, v) => if (trim n).isEmpty then none else some ((trim n, trim v) :: hs)
    | _, _ => none) (some [])

/-- an upstream response head the proxy must understand: `version SP code SP reason` with a code
    in 100..599, then `name: value` lines (each with a colon and a name that is not blank) -/
def specHead (head : Bytes) : Option (Int × Bytes × List (Bytes × Bytes)) :=
  match splitF CRLF (head.length + 1) none head with
  | [] => none
  | first :: lines =>
    match splitF [SP] (first.length + 1) (some 2) first with
    | [_, code, reason] =>
      let cv := toIntQ code
      if 100 ≤ cv && cv ≤ 599 then (headerPairs lines).map fun hs => (cv, reason, hs) else none
    | _ => none

def is502Only (wire : Bytes) : Bool :=
  match Http.parse wire with
  | some m =>
    (Http.statusLine m.start).map (·.code) == some 502 &&
    Http.valuesOf Sock.CONTENT_LENGTH m.headers == [natDigits m.body.length]
  | none => false

def delivered (evs : List PEv) : Bool :=
  -- the last upstream action is followed by a turn
  match (evs.reverse.dropWhile fun e => match e with | .up _ => false | .upClose => false | _ => true) with
  | [] => true
  | _ => (evs.reverse.takeWhile fun e => match e with | .up _ => false | .upClose => false | _ => true).any
           fun e => match e with | .turn => true | _ => false

/-- scenario shape: one accepted client request, at least one turn (connection established or
    refused), then the upstream script.  Either the client receives the upstream response — same
    code and reason, every header value exactly once under its name, the body bytes in order,
    closed when the upstream ends — or, if the connection was refused, ended or produced an
    unparsable head before a complete head was relayed, exactly one 502 and nothing else. -/
def holds (env : Env) (c : Cfg) (evs : List PEv) (obs : List Obs) : Bool :=
  let stream := C12.clientStream evs
  let accepted := match C01.headOf stream with | some h => (C01.expect env h).isSome | none => false
  if !accepted || C12.nTurns evs == 0 || !delivered evs then true else
  let wire := Obs.wire obs
  if c.refuse then is502Only wire else
  let (sent, closed) := upstreamSent evs false
  match breakOn CRLF2 sent with
  | none => if closed then is502Only wire else wire.isEmpty
  | some (head, body) =>
    match specHead head with
    | none => is502Only wire
    | some (code, reason, hs) =>
      (match Http.parse wire with
       | none => false
       | some m =>
         (match Http.statusLine m.start with
          | some st => (st.code : Int) == code && st.reason == reason
          | none => false) &&
         m.body == body &&
         (Http.names m.headers).all (fun n => hs.any fun h => lower h.1 == n) &&
         hs.all (fun h => C12.vals h.1 m.headers == C12.vals h.1 hs)) &&
      (if closed then obs.any Obs.isTc else !(obs.any Obs.isTc))

/-! ## Theorems

  Helper lemmas: `Qhttp/Lemmas/C13*.lean` (namespace `Qhttp.C13L`).  `C13L.WOpen s`: the socket's
  response can still be written (alive, open, connected, nothing closed, no `tc` in the history);
  `C13L.WShut s`: the library closed the transport; `C13L.Frozen w s`: closed and the wire is `w`.
  Nothing is assumed about the request side of the socket (a request may be half read).

  Everything below is for EVERY list of chunks (every segmentation of the upstream stream),
  every `env` (error page, URL oracle) and every proxy state satisfying the stated hypotheses.

  REPAIRED FINDING: an upstream header line with an empty or blank name (`": v"`, `"  : v"`) used to
  be accepted by `Parser::parseHeaderList` and relayed as the line `": v"`, which the strict reader
  refuses; `holds` was false on
  `new feed:"GET /a HTTP/1.1<CRLF><CRLF>" turn up:"HTTP/1.1 200 OK<CRLF>: v<CRLF><CRLF>body" turn ackall turn`.
  The parser now refuses such a line, so that head is unparsable and the client gets the 502
  (`empty_name_502`, `blank_name_unparsable`); `specHead` says the same (a `name: value` line needs
  a name).  With that the hypothesis `upOk`/`upstreamOk` of the re-parsing theorems and of
  `holds_run` (non-empty names, no CR in reason, names, values) is gone altogether: whatever
  `Parser::parseResponseHeaders` accepts re-reads (`C13L.resp_parts_ok`: names non-empty and free
  of ':', nothing contains CR LF; a lone CR is an ordinary byte, `Http.parse_render_w`). -/

open C13L

theorem specHead_def (head : Bytes) : specHead head = specHead' head := rfl
theorem is502Only_def (wire : Bytes) : is502Only wire = is502Only' wire := rfl

/-! ### 6c. the specification's head reader and the library's parser -/

/-- **6c** `Parser::parseResponseHeaders` succeeds exactly when `specHead` does, with the same
    code and reason; its header map is the insertion of `specHead`'s pairs in line order -/
theorem specHead_eq (head : Bytes) :
    Parser.parseResponseHeaders head =
      (specHead head).map fun x => (x.1, x.2.1, x.2.2.foldl (fun acc e => HeaderMap.insert e.1 e.2 acc) []) :=
  specHead'_eq head

theorem specHead_none_iff (head : Bytes) :
    specHead head = none ↔ Parser.parseResponseHeaders head = none := by
  rw [specHead_eq]; cases specHead head <;> simp

/-- the map is a permutation of the pairs: per name the same values (`C12.vals` sorts them), and
    no other name -/
theorem specHead_vals {head : Bytes} {code : Int} {reason : Bytes} {pairs : List (Bytes × Bytes)}
    (h : specHead head = some (code, reason, pairs)) :
    ∃ m, Parser.parseResponseHeaders head = some (code, reason, m) ∧ m.Perm pairs ∧
      (∀ n, C12.vals n m = C12.vals n pairs) ∧
      (Http.names m).all (fun n => pairs.any fun h => lower h.1 == n) = true := by
  refine ⟨mapOf pairs, by rw [specHead_eq, h]; rfl, ?_, fun n => vals_mapOf n pairs, names_mapOf pairs⟩
  simpa using mapOf_perm pairs []

/-! ### 6a. the accumulator -/

/-- **6a** while the bytes accumulated contain no blank line nothing is written (the socket is
    not touched at all) and `upRead` is everything delivered -/
theorem accumulate (env : Env) (cs : List Bytes) (st : St) (hp : st.headersParsed = false)
    (hn : breakOn CRLF2 (st.upRead ++ cs.flatten) = none) :
    deliverAll env cs st = { st with upRead := st.upRead ++ cs.flatten } :=
  C13L.accumulate env cs st hp hn

/-- the first blank line does not move when more chunks arrive -/
theorem first_blank_line_stable {acc head rest : Bytes} (pre post : List Bytes)
    (h : breakOn CRLF2 (acc ++ pre.flatten) = some (head, rest)) :
    breakOn CRLF2 (acc ++ (pre ++ post).flatten) = some (head, rest ++ post.flatten) :=
  C13L.first_blank_line_stable pre post h

/-! ### 6b. the relay is faithful, for every chunking -/

/-- **6b** `relay_faithful`: the socket open for writing, no head relayed yet, no blank line among
    the bytes already accumulated.  If the accumulated bytes followed by the chunks are
    `head ++ CRLFCRLF ++ body` (first blank line) and the parser accepts `head`, then for EVERY
    chunking the client's wire grows by exactly the status line with the upstream's code and reason,
    one line per entry of the parsed header map, a blank line and `body`; the head counts as
    relayed, the socket is still open and nothing was closed. -/
theorem relay_faithful (env : Env) (cs : List Bytes) (st : St) {head body reason : Bytes} {code : Int}
    {hs : HeaderMap}
    (ho : WOpen st.sock) (hp : st.headersParsed = false) (hu : breakOn CRLF2 st.upRead = none)
    (hb : breakOn CRLF2 (st.upRead ++ cs.flatten) = some (head, body))
    (hq : Parser.parseResponseHeaders head = some (code, reason, hs)) :
    Obs.wire (deliverAll env cs st).sock.log =
      Obs.wire st.sock.log ++
        (lit ['H','T','T','P','/','1','.','0',' '] ++ intText code ++ [SP] ++ reason ++ CRLF ++
          Sock.headerLines hs ++ CRLF ++ body) ∧
    (deliverAll env cs st).headersParsed = true ∧ WOpen (deliverAll env cs st).sock ∧
    (deliverAll env cs st).sock.log.any Obs.isTc = false := by
  have := deliver_outcome env cs st ho hp hu
  cases this with
  | waiting h e => rw [hb] at h; cases h
  | relayed head' body' code' reason' hs' hb' hp' op wire parsed ws respH initP rest =>
    rw [hb] at hb'; cases hb'
    rw [hq] at hp'; cases hp'
    exact ⟨wire, parsed, op, anyTc_of_logOpen op.logOpen⟩
  | failed head' body' hb' hp' fr parsed rest =>
    rw [hb] at hb'; cases hb'
    rw [hq] at hp'; cases hp'

/-- the special case of the brief: nothing accumulated yet -/
theorem relay_faithful_fresh (env : Env) (cs : List Bytes) (st : St) {head body reason : Bytes} {code : Int}
    {hs : HeaderMap}
    (ho : WOpen st.sock) (hp : st.headersParsed = false) (hu : st.upRead = [])
    (hb : breakOn CRLF2 cs.flatten = some (head, body))
    (hq : Parser.parseResponseHeaders head = some (code, reason, hs)) :
    Obs.wire (deliverAll env cs st).sock.log =
      Obs.wire st.sock.log ++
        (lit ['H','T','T','P','/','1','.','0',' '] ++ intText code ++ [SP] ++ reason ++ CRLF ++
          Sock.headerLines hs ++ CRLF ++ body) ∧
    (deliverAll env cs st).headersParsed = true ∧ WOpen (deliverAll env cs st).sock ∧
    (deliverAll env cs st).sock.log.any Obs.isTc = false :=
  relay_faithful env cs st ho hp (by rw [hu]; rfl) (by rw [hu]; exact hb) hq

/-- prefix version: after any prefix of the chunks the client's wire is a prefix of the final one -/
theorem relay_prefix (env : Env) (pre post : List Bytes) (st : St) {head body reason : Bytes} {code : Int}
    {hs : HeaderMap}
    (ho : WOpen st.sock) (hp : st.headersParsed = false) (hu : breakOn CRLF2 st.upRead = none)
    (hb : breakOn CRLF2 (st.upRead ++ (pre ++ post).flatten) = some (head, body))
    (hq : Parser.parseResponseHeaders head = some (code, reason, hs)) :
    Obs.wire (deliverAll env pre st).sock.log <+: Obs.wire (deliverAll env (pre ++ post) st).sock.log := by
  obtain ⟨hw, _, _, _⟩ := relay_faithful env (pre ++ post) st ho hp hu hb hq
  rw [hw]
  have := deliver_outcome env pre st ho hp hu
  cases this with
  | waiting h e => rw [e]; exact ⟨_, rfl⟩
  | relayed head' body' code' reason' hs' hb' hp' op wire parsed ws respH initP rest =>
    have h2 := C13L.first_blank_line_stable pre post hb'
    rw [hb] at h2; cases h2
    rw [hq] at hp'; cases hp'
    rw [wire]
    refine ⟨post.flatten, ?_⟩
    simp [headOut, List.append_assoc]
  | failed head' body' hb' hp' fr parsed rest =>
    have h2 := C13L.first_blank_line_stable pre post hb'
    rw [hb] at h2; cases h2
    rw [hq] at hp'; cases hp'

/-- the relayed bytes re-parse, for EVERY head the library's parser accepts (no hypothesis on the
    upstream head): the strict reader finds the status line, which reads back as the upstream's
    code and reason, the parsed header map entry by entry, and the body -/
theorem relay_reparses {head body reason : Bytes} {code : Int} {hs : HeaderMap}
    (hq : Parser.parseResponseHeaders head = some (code, reason, hs)) :
    ∃ m, Http.parse (lit ['H','T','T','P','/','1','.','0',' '] ++ intText code ++ [SP] ++ reason ++ CRLF ++
          Sock.headerLines hs ++ CRLF ++ body) = some m ∧
      Http.statusLine m.start = some { code := code.natAbs, reason := reason } ∧
      ((code.natAbs : Nat) : Int) = code ∧ m.headers = hs ∧ m.body = body := by
  obtain ⟨hr, hw, hc, _⟩ := resp_parts_ok hq
  have hc0 : 0 ≤ code := by omega
  obtain ⟨h1, h2⟩ := parse_relayed_w body hc0 hr hw
  exact ⟨_, h1, h2, Int.natAbs_of_nonneg hc0, rfl, rfl⟩

/-! ### 7. failures become exactly one 502; afterwards the wire never changes -/

/-- the bytes `writeError(502)` puts on the wire on a socket whose header map was `H`
    (`C09L.writeError_state`): status line, `H` with `Content-Length`/`Content-Type` replaced,
    blank line, the error page -/
theorem err502_def (env : Env) (H : HeaderMap) :
    err502 env H = C09L.errStart 502 ++ CRLF ++
      Sock.headerLines (C09L.errHeaders H (natDigits (C09L.errBody env 502).length)) ++ CRLF ++
      C09L.errBody env 502 := rfl

/-- **7a** the upstream connection is refused or ends before a head was relayed: exactly the 502
    is written and the transport is closed -/
theorem fault_502_error (env : Env) (st : St) (ho : WOpen st.sock) (hp : st.headersParsed = false) :
    Obs.wire (onUpstreamError env st).sock.log = Obs.wire st.sock.log ++ err502 env st.sock.respHeaders ∧
    WShut (onUpstreamError env st).sock ∧ (onUpstreamError env st).sock.log.any Obs.isTc = true := by
  obtain ⟨⟨h1, w1⟩, _⟩ := onUpstreamError_502 env ho hp
  exact ⟨w1, h1, anyTc_of_logShut h1.logShut⟩

/-- after a head was relayed an upstream error only closes the connection -/
theorem fault_close (env : Env) (st : St) (ho : WOpen st.sock) (hp : st.headersParsed = true) :
    Obs.wire (onUpstreamError env st).sock.log = Obs.wire st.sock.log ∧
    WShut (onUpstreamError env st).sock ∧ (onUpstreamError env st).sock.log.any Obs.isTc = true := by
  obtain ⟨⟨h1, w1⟩, _⟩ := onUpstreamError_close env ho hp
  exact ⟨w1, h1, anyTc_of_logShut h1.logShut⟩

/-- **7b** a complete head that `parseResponseHeaders` rejects: the same bytes, for every
    chunking, however many chunks follow; no head counts as relayed -/
theorem fault_502_badhead (env : Env) (cs : List Bytes) (st : St) {head body : Bytes}
    (ho : WOpen st.sock) (hp : st.headersParsed = false) (hu : breakOn CRLF2 st.upRead = none)
    (hb : breakOn CRLF2 (st.upRead ++ cs.flatten) = some (head, body))
    (hq : Parser.parseResponseHeaders head = none) :
    Obs.wire (deliverAll env cs st).sock.log = Obs.wire st.sock.log ++ err502 env st.sock.respHeaders ∧
    WShut (deliverAll env cs st).sock ∧ (deliverAll env cs st).headersParsed = false := by
  have := deliver_outcome env cs st ho hp hu
  cases this with
  | waiting h e => rw [hb] at h; cases h
  | relayed head' body' code' reason' hs' hb' hp' op wire parsed ws respH initP rest =>
    rw [hb] at hb'; cases hb'
    rw [hq] at hp'; cases hp'
  | failed head' body' hb' hp' fr parsed rest => exact ⟨fr.wire, fr.shut, parsed⟩

/-- **7c** once the transport is closed the wire NEVER changes: upstream data, upstream errors,
    event-loop turns, client segments and acknowledgements all leave `Obs.wire` as it is and the
    socket closed (or deleted: a deleted socket is still `WShut`) -/
theorem wire_frozen (env : Env) (c : Cfg) (st : St) (hs : WShut st.sock) :
    (∀ chunk, WShut (onUpstreamReadyRead env st chunk).sock ∧
        Obs.wire (onUpstreamReadyRead env st chunk).sock.log = Obs.wire st.sock.log) ∧
    (∀ cs, WShut (deliverAll env cs st).sock ∧ Obs.wire (deliverAll env cs st).sock.log = Obs.wire st.sock.log) ∧
    (WShut (onUpstreamError env st).sock ∧ Obs.wire (onUpstreamError env st).sock.log = Obs.wire st.sock.log) ∧
    (WShut (Proxy.turn env c st).sock ∧ Obs.wire (Proxy.turn env c st).sock.log = Obs.wire st.sock.log) ∧
    (WShut (marker st).sock ∧ Obs.wire (marker st).sock.log = Obs.wire st.sock.log) ∧
    (∀ e, pevOk e = true → WShut (Proxy.step env c st e).sock ∧
        Obs.wire (Proxy.step env c st e).sock.log = Obs.wire st.sock.log) ∧
    (∀ evs : List PEv, (∀ e ∈ evs, pevOk e = true) → WShut (evs.foldl (Proxy.step env c) st).sock ∧
        Obs.wire (evs.foldl (Proxy.step env c) st).sock.log = Obs.wire st.sock.log) := by
  have h : Frozen (Obs.wire st.sock.log) st.sock := ⟨hs, rfl⟩
  refine ⟨fun chunk => ?_, fun cs => ?_, ?_, ?_, ?_, fun e he => ?_, fun evs he => ?_⟩
  · exact ⟨(frozen_onUpstreamReadyRead env h chunk).shut, (frozen_onUpstreamReadyRead env h chunk).wire⟩
  · exact ⟨(frozen_deliverAll env cs h).shut, (frozen_deliverAll env cs h).wire⟩
  · exact ⟨(frozen_onUpstreamError env h).shut, (frozen_onUpstreamError env h).wire⟩
  · exact ⟨(frozen_turn env c h).shut, (frozen_turn env c h).wire⟩
  · exact ⟨(frozen_marker h).shut, (frozen_marker h).wire⟩
  · exact ⟨(frozen_pstep env c h he).shut, (frozen_pstep env c h he).wire⟩
  · exact ⟨(frozen_run env c evs h he).shut, (frozen_run env c evs h he).wire⟩

/-- the events `wire_frozen` covers: `.up`, `.upClose`, `.turn`, and the socket events `.feed`,
    `.ack n`, `.ackAll`, `.turn` -/
example : pevOk (.up [1]) = true ∧ pevOk .upClose = true ∧ pevOk .turn = true ∧
    pevOk (.sock (.feed [1])) = true ∧ pevOk (.sock (.ack 3)) = true ∧ pevOk (.sock .ackAll) = true ∧
    pevOk (.sock .turn) = true := by decide

/-- **7d** the 502 written on a socket whose header map was empty (as it is until the proxy relays
    a head) is exactly one 502 response: `is502Only` accepts it, for every error page -/
theorem is502Only_502 (env : Env) : is502Only (err502 env []) = true := is502Only_err502 env

/-- what the strict reader sees of it -/
theorem parse_502 (env : Env) :
    Http.parse (err502 env []) = some
      { start := C09L.errStart 502,
        headers := [(Sock.CONTENT_LENGTH, natDigits (C09L.errBody env 502).length),
                    (Sock.CONTENT_TYPE, Sock.TEXT_HTML)],
        body := C09L.errBody env 502 } := C13L.parse_502 env

/-! ### non-vacuity -/

section examples

def exChunks : List Bytes :=
  [lit ['H','T','T','P','/','1','.','1',' ','2','0','0',' ','O','K','\r','\n','A',':',' ','b','\r'],
   lit ['\n','a',':','c','\r','\n','\r'], lit ['\n','b','o'], lit ['d','y','\r','\n','\r','\n','x']]

def exHead : Bytes :=
  lit ['H','T','T','P','/','1','.','1',' ','2','0','0',' ','O','K','\r','\n','A',':',' ','b','\r','\n','a',':','c']

/-- the hypotheses of `relay_faithful_fresh` on the fresh state (chunk boundaries inside the
    CRLFCRLF, a second CRLFCRLF in the body, a repeated header name) -/
example : WOpen ({} : St).sock ∧ ({} : St).headersParsed = false ∧ ({} : St).upRead = [] ∧
    breakOn CRLF2 exChunks.flatten = some (exHead, lit ['b','o','d','y','\r','\n','\r','\n','x']) ∧
    Parser.parseResponseHeaders exHead =
      some (200, lit ['O','K'], [(lit ['a'], lit ['c']), (lit ['A'], lit ['b'])]) :=
  ⟨wopen_default, rfl, rfl, by decide, by decide⟩

/-- and the model evaluated on it -/
example : Obs.wire (deliverAll C01.envT exChunks {}).sock.log =
    lit ['H','T','T','P','/','1','.','0',' ','2','0','0',' ','O','K','\r','\n','a',':',' ','c','\r','\n',
         'A',':',' ','b','\r','\n','\r','\n','b','o','d','y','\r','\n','\r','\n','x'] := by decide +kernel

/-- a head the parser rejects (code 99) -/
example : Parser.parseResponseHeaders (lit ['H','T','T','P','/','1','.','1',' ','9','9',' ','O','K']) = none ∧
    specHead (lit ['H','T','T','P','/','1','.','1',' ','9','9',' ','O','K']) = none := by decide

/-- REPAIRED FINDING (see the file comment): an upstream head with a header line whose name is
    empty or blank is refused by the library's parser and by `specHead` alike (it used to be
    parsed to the entry `("", "v")` and relayed as the line `": v"`) -/
theorem empty_name_502 :
    let head : Bytes := lit ['H','T','T','P','/','1','.','1',' ','2','0','0',' ','O','K','\r','\n',':',' ','v']
    let head2 : Bytes := lit ['H','T','T','P','/','1','.','1',' ','2','0','0',' ','O','K','\r','\n','A',':','b','\r','\n',' ','\t',':','v']
    Parser.parseResponseHeaders head = none ∧ specHead head = none ∧
    Parser.parseResponseHeaders head2 = none ∧ specHead head2 = none := by
  decide +kernel

/-- in general: an upstream head `first CRLF line …` (pieces free of CRLF) one of whose header
    lines has nothing but white space before its first colon is unparsable, wherever the line
    stands — so by `fault_502_badhead` the client receives exactly the 502, for every chunking -/
theorem blank_name_unparsable (first : Bytes) (pre post : List Bytes) (n x : Bytes)
    (hf : ¬ CRLF <:+: first) (hl : ∀ l ∈ pre ++ (n ++ [COLON] ++ x) :: post, ¬ CRLF <:+: l)
    (hn : COLON ∉ n) (hb : Parser.Blank n) :
    Parser.parseResponseHeaders (joinWith CRLF (first :: (pre ++ (n ++ [COLON] ++ x) :: post))) = none := by
  unfold Parser.parseResponseHeaders Parser.parseHeaders
  rw [split_CRLF_joinWith _ (by simp) (by
    intro p hp
    rcases List.mem_cons.1 hp with rfl | hp
    · exact hf
    · exact hl p hp)]
  simp only [C12.blank_name_refused pre post n x [] hn hb]
  generalize split [SP] 2 first = parts
  rcases parts with _ | ⟨p0, _ | ⟨p1, _ | ⟨p2, _ | ⟨p3, ps⟩⟩⟩⟩ <;> rfl

end examples

/-! ### 8. the executable predicate on every scripted-upstream history of the model -/

theorem upstreamSent_def : ∀ (evs : List PEv) (c : Bool), upstreamSent evs c = upstreamSent' evs c := by
  intro evs
  induction evs with
  | nil => intro c; rfl
  | cons e r ih =>
    intro c
    cases e with
    | sock ev => cases c <;> simp only [upstreamSent, upstreamSent', ih]
    | turn => cases c <;> simp only [upstreamSent, upstreamSent', ih]
    | up b => cases c <;> simp only [upstreamSent, upstreamSent', ih]
    | upClose => cases c <;> simp only [upstreamSent, upstreamSent', ih]

theorem delivered_def (evs : List PEv) : delivered evs = delivered' evs := rfl

/-- the scenario shape of `gen_C13`: `new; feed req; turn`, then upstream writes, the upstream's
    close, event-loop turns and acknowledgements in any order, except that the upstream server
    writes nothing between its close and the next turn (with `refuse` nothing is excluded) -/
def shapeOk (refuse : Bool) : List PEv → Bool
  | .sock .new :: .sock (.feed _) :: .turn :: rest => restOk (if refuse then .closed else .open) rest
  | _ => false

theorem clientStream_rest : ∀ (r : List PEv) (ph : UpPh), restOk ph r = true → C12.clientStream r = [] := by
  intro r
  induction r with
  | nil => intro _ _; rfl
  | cons x r ih =>
    intro ph h
    cases x with
    | sock ev =>
      cases ev <;> first | (simp only [restOk] at h; simpa [C12.clientStream] using ih ph h) | (simp [restOk] at h)
    | turn => simpa [C12.clientStream] using ih _ h
    | up b =>
      simp only [restOk, Bool.and_eq_true] at h
      simpa [C12.clientStream] using ih _ h.2
    | upClose => simpa [C12.clientStream] using ih _ h

theorem accepted_of_expect {env : Env} {req head : Bytes} (h1 : C01.headOf req = some head)
    (h2 : (C01.expect env head).isSome = true) : Accepted env req := by
  unfold C01.headOf at h1
  cases hb : breakOn CRLF2 req with
  | none => rw [hb] at h1; cases h1
  | some x =>
    obtain ⟨hd, rest⟩ := x
    rw [hb] at h1
    simp only [Option.map_some, Option.some.injEq] at h1
    subst h1
    unfold C01.expect at h2
    cases hp : Parser.parseRequestHeaders hd with
    | none => rw [hp] at h2; cases h2
    | some rh =>
      rw [hp] at h2
      dsimp only at h2
      cases hu : env.url rh.rawPath with
      | none => rw [hu] at h2; cases h2
      | some pq =>
        obtain ⟨p, q⟩ := pq
        exact ⟨hd, rest, rh, p, q, hb, hp, hu⟩

/-- **8** `holds_run`: the predicate the driver evaluates on implementation traces is true on the
    run of the model for EVERY history of the shape above — every client request (accepted or
    not, with or without body bytes), every upstream byte stream in every segmentation and with
    every interleaving of turns and acknowledgements, upstream close at any point, connection
    refused or not.  No hypothesis on the upstream bytes (the former `upstreamOk` — non-empty header
    names, no CR in reason, names, values — is gone: heads with an empty or blank header name are
    unparsable and get the 502, everything the parser accepts re-reads, `relay_reparses`). -/
theorem holds_run (env : Env) (c : Cfg) (evs : List PEv) (hs : shapeOk c.refuse evs = true) :
    holds env c evs (Proxy.run env c evs).sock.log = true := by
  unfold shapeOk at hs
  split at hs
  · rename_i req rest
    unfold holds
    have hcs : C12.clientStream (.sock .new :: .sock (.feed req) :: .turn :: rest) = req := by
      have := clientStream_rest rest _ hs
      simp [C12.clientStream] at this ⊢
      exact this
    rw [hcs]
    dsimp only
    -- the request is not accepted, or not everything was delivered: nothing is claimed
    have hnt : (C12.nTurns (.sock .new :: .sock (.feed req) :: .turn :: rest) == 0) = false := by
      simp [C12.nTurns]
    rw [hnt]
    cases hacc : (match C01.headOf req with
        | some h => (C01.expect env h).isSome
        | none => false) with
    | false => simp
    | true =>
    cases hdl : delivered (.sock .new :: .sock (.feed req) :: .turn :: rest) with
    | false => simp
    | true =>
    simp only [Bool.not_true, Bool.or_self, Bool.false_eq_true, if_false]
    -- the run
    have ha : Accepted env req := by
      cases h1 : C01.headOf req with
      | none => rw [h1] at hacc; cases hacc
      | some head => rw [h1] at hacc; exact accepted_of_expect h1 hacc
    have hd : dl false rest = true := by
      have := dl_of_delivered' (.sock .new :: .sock (.feed req) :: .turn :: rest)
      rw [← delivered_def, hdl] at this
      simpa [dl] using this
    obtain ⟨f1, f2⟩ := run_final env c req rest ha hs hd
    generalize (Proxy.run env c (.sock .new :: .sock (.feed req) :: .turn :: rest)).sock = s at f1 f2
    by_cases hrf : c.refuse = true
    · rw [if_pos hrf, is502Only_def, (f1 hrf).wire]
      exact is502Only_err502 env
    · rw [if_neg hrf]
      have hrf' : c.refuse = false := by simpa using hrf
      have fin := f2 hrf'
      have hus : upstreamSent (.sock .new :: .sock (.feed req) :: .turn :: rest) false =
          upstreamSent' rest true := by
        rw [upstreamSent_def]; rfl
      rw [hus]
      generalize upstreamSent' rest true = sc at fin
      obtain ⟨sent, closed⟩ := sc
      dsimp only at fin ⊢
      unfold FinalP at fin
      cases hb : breakOn CRLF2 sent with
      | none =>
        rw [hb] at fin
        dsimp only at fin ⊢
        cases closed with
        | true =>
          simp only [if_true] at fin ⊢
          rw [is502Only_def, fin]; exact is502Only_err502 env
        | false =>
          simp only [Bool.false_eq_true, if_false] at fin ⊢
          rw [fin]; rfl
      | some hbdy =>
        obtain ⟨head, body⟩ := hbdy
        rw [hb] at fin
        dsimp only at fin ⊢
        have hsp := specHead_eq head
        cases hsh : specHead head with
        | none =>
          rw [hsh] at hsp
          simp only [Option.map_none] at hsp
          rw [hsp] at fin
          dsimp only at fin ⊢
          rw [is502Only_def, fin]; exact is502Only_err502 env
        | some x =>
          obtain ⟨code, reason, pairs⟩ := x
          rw [hsh] at hsp
          simp only [Option.map_some] at hsp
          rw [hsp] at fin
          dsimp only at fin ⊢
          obtain ⟨hw, hcl⟩ := fin
          obtain ⟨hr, hwf, hc, _⟩ := resp_parts_ok hsp
          have hrc := relayCheck_relayed_w (code := code) (reason := reason) (pairs := pairs) body
            (by omega) hr hwf
          rw [Bool.and_eq_true]
          constructor
          · rw [hw]; exact hrc
          · cases closed with
            | true =>
              simp only [if_true] at hcl ⊢
              exact anyTc_of_logShut hcl.logShut
            | false =>
              simp only [Bool.false_eq_true, if_false] at hcl ⊢
              rw [anyTc_of_logOpen hcl.logOpen]; rfl
  · cases hs

/-! ### non-vacuity of `holds_run` -/

section examples8

def exEnv : Env := { C01.envT with errPage := fun _ _ => C01.str "<h1>502</h1>" }

def exReq : Bytes := C01.str "POST /a?x=1 HTTP/1.1\r\nHost: h\r\nContent-Length: 5\r\n\r\nabc"

/-- head split inside the CRLFCRLF, repeated header name, partial acknowledgements, upstream close,
    late upstream data after the close was delivered -/
def exRelay : List PEv :=
  [.sock .new, .sock (.feed exReq), .turn,
   .up (C01.str "HTTP/1.1 404 Not Found\r\nA: b\r\na: c\r"), .turn, .sock (.ack 3),
   .up (C01.str "\n\r"), .up (C01.str "\nbo"), .turn, .sock (.ack 7), .up (C01.str "dy\r\n\r\nx"), .upClose, .turn,
   .up (C01.str "late"), .sock .ackAll, .turn]

/-- a head the parser rejects (code 99), then more data and the close -/
def exBad : List PEv :=
  [.sock .new, .sock (.feed exReq), .turn,
   .up (C01.str "HTTP/1.1 99 Low\r\n\r\nzz"), .turn, .up (C01.str "HTTP/1.1 200 OK\r\n\r\n"), .turn,
   .upClose, .turn, .sock .ackAll, .turn]

/-- the upstream closes before a complete head -/
def exShort : List PEv :=
  [.sock .new, .sock (.feed exReq), .turn, .up (C01.str "HTTP/1.1 200 OK\r\nA: b\r\n\r"), .turn, .upClose, .turn]

/-- nothing listens upstream -/
def exRefused : List PEv :=
  [.sock .new, .sock (.feed exReq), .turn, .up (C01.str "HTTP/1.1 200 OK\r\n\r\n"), .upClose,
   .up (C01.str "x"), .turn, .sock .ackAll, .turn]

/-- the hypotheses of `holds_run` hold on these histories, the request is accepted and everything
    was delivered (so `holds` does not return `true` trivially) -/
example : shapeOk false exRelay = true ∧ delivered exRelay = true ∧
    shapeOk false exBad = true ∧ delivered exBad = true ∧
    shapeOk false exShort = true ∧ delivered exShort = true ∧
    shapeOk true exRefused = true ∧ delivered exRefused = true ∧
    ((C01.headOf exReq).bind (C01.expect exEnv)).isSome = true := by decide +kernel

/-- the relayed response as the client receives it -/
example : Obs.wire (Proxy.run exEnv {} exRelay).sock.log =
    C01.str "HTTP/1.0 404 Not Found\r\na: c\r\nA: b\r\n\r\nbody\r\n\r\nx" ∧
    (Proxy.run exEnv {} exRelay).sock.log.any Obs.isTc = true := by decide +kernel

/-- the 502 as the client receives it, and nothing after it -/
example : Obs.wire (Proxy.run exEnv {} exBad).sock.log =
    C01.str "HTTP/1.0 502 BAD GATEWAY\r\nContent-Length: 12\r\nContent-Type: text/html\r\n\r\n<h1>502</h1>" ∧
    Obs.wire (Proxy.run exEnv {} exShort).sock.log = Obs.wire (Proxy.run exEnv {} exBad).sock.log ∧
    Obs.wire (Proxy.run exEnv { refuse := true } exRefused).sock.log =
      Obs.wire (Proxy.run exEnv {} exBad).sock.log := by decide +kernel

/-- the executable predicate evaluated on these runs (also given by `holds_run`) -/
example : holds exEnv {} exRelay (Proxy.run exEnv {} exRelay).sock.log = true :=
  holds_run exEnv {} exRelay (by decide +kernel)
example : holds exEnv {} exRelay (Proxy.run exEnv {} exRelay).sock.log = true ∧
    holds exEnv {} exBad (Proxy.run exEnv {} exBad).sock.log = true ∧
    holds exEnv {} exShort (Proxy.run exEnv {} exShort).sock.log = true ∧
    holds exEnv { refuse := true } exRefused (Proxy.run exEnv { refuse := true } exRefused).sock.log = true := by
  decide +kernel

/-- `holds` is not trivially true on this shape: a history outside `restOk` (the upstream server
    "writes" between its close and the next turn: the model delivers it, the real server cannot)
    fails it -/
example :
    let evs : List PEv := [.sock .new, .sock (.feed exReq), .turn,
      .up (C01.str "HTTP/1.1 200 OK\r\n\r\nbo"), .upClose, .up (C01.str "dy"), .turn]
    shapeOk false evs = false ∧ holds exEnv {} evs (Proxy.run exEnv {} evs).sock.log = false := by
  decide +kernel

/-- the repaired finding on a whole run: the upstream head with the empty header name is
    unparsable, the client receives the 502 and nothing else, and `holds` is true (it was false:
    the line `": v"` was relayed) -/
example :
    let evs : List PEv := [.sock .new, .sock (.feed exReq), .turn,
      .up (C01.str "HTTP/1.1 200 OK\r\n: v\r\n\r\nbody"), .turn]
    shapeOk false evs = true ∧
    holds exEnv {} evs (Proxy.run exEnv {} evs).sock.log = true ∧
    Obs.wire (Proxy.run exEnv {} evs).sock.log = Obs.wire (Proxy.run exEnv {} exBad).sock.log := by
  decide +kernel

/-- an upstream head OUTSIDE the former hypothesis `upstreamOk` that `holds_run` now covers: lone
    CRs in the reason, in a header name and in a header value; relayed as they are, and re-read -/
example :
    let evs : List PEv := [.sock .new, .sock (.feed exReq), .turn,
      .up (C01.str "HTTP/1.1 200 O\rK\r\nX\rY: a\rb\r\n\r\nbody"), .turn]
    shapeOk false evs = true ∧
    holds exEnv {} evs (Proxy.run exEnv {} evs).sock.log = true ∧
    Obs.wire (Proxy.run exEnv {} evs).sock.log = C01.str "HTTP/1.0 200 O\rK\r\nX\rY: a\rb\r\n\r\nbody" := by
  decide +kernel

end examples8

end Qhttp.C13
