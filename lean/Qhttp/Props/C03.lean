import Qhttp.Model.Http
import Qhttp.Lemmas.C03Wire
/-
  C03 — every response on the wire is exactly the status, headers and body that were set.
-/
namespace Qhttp.C03
open Qhttp

/-- the abstract response an API history denotes -/
structure Spec where
  code    : Int := 200
  reason  : Bytes := statusReason 200
  values  : List (Bytes × List Bytes) := []     -- case-folded name ↦ values in the order set
  started : Bool := false                       -- the head has been emitted
  closed  : Bool := false
  body    : Bytes := []
deriving Repr, Inhabited

def setVals (n : Bytes) (f : List Bytes → List Bytes) : List (Bytes × List Bytes) → List (Bytes × List Bytes)
  | [] => [(lower n, f [])]
  | (k, vs) :: m => if k == lower n then (k, f vs) :: m else (k, vs) :: setVals n f m

def Spec.status (s : Spec) (c : Int) (r : Option Bytes) : Spec :=
  { s with code := c, reason := match r with | some x => x | none => statusReason c }

/-- one API call on the abstract response; `page` is the error-page body for (code, reason) -/
def Spec.step (page : Int → Bytes → Bytes) (s : Spec) (op : ApiOp) : Spec :=
  if s.closed then s else
  match op with
  | .status c r => if s.started then s else s.status c r
  | .hdr n v true => if s.started then s else { s with values := setVals n (fun _ => [v]) s.values }
  | .hdr n v false => if s.started then s else { s with values := setVals n (fun vs => vs ++ [v]) s.values }
  | .hdrs m => if s.started then s else
      { s with values := m.foldl (fun acc e => setVals e.1 (fun vs => vs ++ [e.2]) acc) [] }
  | .wh => { s with started := true }
  | .write b => { s with started := true, body := s.body ++ b }
  | .err c r =>
    if s.started then { s with closed := true } else
    let s := s.status c r
    let body := page s.code s.reason
    { s with values := setVals Sock.CONTENT_TYPE (fun _ => [Sock.TEXT_HTML])
                        (setVals Sock.CONTENT_LENGTH (fun _ => [natDigits body.length]) s.values),
             started := true, closed := true, body := body }
  | .redir p perm =>
    if s.started then { s with closed := true } else
    let s := s.status (if perm then 301 else 302) none
    { s with values := setVals (lit ['L','o','c','a','t','i','o','n']) (fun _ => [p]) s.values,
             started := true, closed := true }
  | .json b c =>
    if s.started then { s with closed := true } else
    let s := s.status c none
    { s with values := setVals Sock.CONTENT_TYPE (fun _ => [Sock.APP_JSON])
                        (setVals Sock.CONTENT_LENGTH (fun _ => [natDigits b.length]) s.values),
             started := true, closed := true, body := b }
  | .close => { s with closed := true }
  | _ => s

def hasCRLF (x : Bytes) : Bool := containsByte CR x || containsByte LF x

/-- documented preconditions of the response API (outside them nothing is claimed):
    tokens free of CR/LF, names non-empty and colon-free, a non-negative status code,
    the head requested at most once and before any body byte, convenience calls only on a fresh
    response -/
def wfOps : List ApiOp → (started : Bool) → Bool
  | [], _ => true
  | op :: ops, started =>
    match op with
    | .status c r => c ≥ 0 && (match r with | some x => !hasCRLF x | none => true) && wfOps ops started
    | .hdr n v _ => !n.isEmpty && !containsByte COLON n && !hasCRLF n && !hasCRLF v &&
                    (trim n == n) && wfOps ops started
    | .hdrs m =>
      m.all (fun e => !e.1.isEmpty && !containsByte COLON e.1 && !hasCRLF e.1 && !hasCRLF e.2 && trim e.1 == e.1) &&
      wfOps ops started
    | .wh => !started && wfOps ops true
    | .write _ => wfOps ops true
    | .err c r => !started && c ≥ 0 && (match r with | some x => !hasCRLF x | none => true) && wfOps ops true
    | .redir p _ => !started && !hasCRLF p && wfOps ops true
    | .json _ c => !started && c ≥ 0 && wfOps ops true
    | _ => wfOps ops started

def apiOps (sc : Scenario) : List ApiOp :=
  sc.events.filterMap fun e => match e with | .api o => some o | _ => none

def splitVals (vs : List Bytes) : List Bytes :=
  Http.sortBytes (vs.flatMap fun v => splitF [44, 32] (v.length + 1) none v)

/-- scenario shape: `new`, then API calls from idle context interleaved with acknowledgements. -/
def holds (env : Env) (sc : Scenario) (obs : List Obs) : Bool :=
  let ops := apiOps sc
  if !wfOps ops false then true else
  let spec := ops.foldl (Spec.step env.errPage) {}
  let wire := Obs.wire obs
  -- nothing after the library closed the transport
  Obs.countP Obs.isW (obs.dropWhile (fun o => !Obs.isTc o)) == 0 &&
  -- the convenience calls and close() shut the connection
  (if spec.closed then Obs.countP Obs.isTc obs == 1 else Obs.countP Obs.isTc obs == 0) &&
  (if !spec.started then wire.isEmpty else
   match Http.parse wire with
   | none => false
   | some m =>
     (match Http.statusLine m.start with
      | some st => (st.code : Int) == spec.code && st.reason == spec.reason
      | none => false) &&
     m.body == spec.body &&
     -- the same names, and under each name the same multiset of values
     (Http.names m.headers).all (fun n => (spec.values.any fun e => e.1 == n && !e.2.isEmpty)) &&
     spec.values.all (fun e => e.2.isEmpty ||
        Http.sortBytes (Http.valuesOf e.1 m.headers) == splitVals e.2))

open Qhttp.HB Qhttp.Http Qhttp.C03L Qhttp.HeaderMap Qhttp.Sock

/-! ## Proofs -/

/-! ### the abstract value table -/

/-- the values the abstract response holds under a case-folded name -/
def look (k : Bytes) : List (Bytes × List Bytes) → List Bytes
  | [] => []
  | (k', vs) :: m => if k' == k then vs else look k m

theorem look_setVals (n : Bytes) (f : List Bytes → List Bytes) (k : Bytes) (vals : List (Bytes × List Bytes)) :
    look k (setVals n f vals) = if k = lower n then f (look (lower n) vals) else look k vals := by
  induction vals with
  | nil =>
    simp only [setVals, look]
    by_cases h : k = lower n
    · simp [h]
    · have : ¬ lower n = k := fun e => h e.symm
      simp [h, this]
  | cons a vals ih =>
    obtain ⟨k', vs⟩ := a
    simp only [setVals]
    by_cases h1 : k' = lower n
    · subst h1
      by_cases h : k = lower n
      · subst h; simp [look]
      · have : ¬ lower n = k := fun e => h e.symm
        simp [look, h, this]
    · by_cases h : k = lower n
      · subst h; simp [look, h1, ih]
      · simp only [beq_iff_eq, h1, if_false, look, ih, h]

/-- keys are case-folded and distinct, every entry holds at least one value -/
def KeysOk (vals : List (Bytes × List Bytes)) : Prop :=
  (vals.map (·.1)).Nodup ∧ ∀ e ∈ vals, lower e.1 = e.1 ∧ e.2 ≠ []

theorem keys_setVals (n : Bytes) (f : List Bytes → List Bytes) (vals : List (Bytes × List Bytes)) (k : Bytes) :
    k ∈ (setVals n f vals).map (·.1) ↔ k = lower n ∨ k ∈ vals.map (·.1) := by
  induction vals with
  | nil => simp [setVals]
  | cons a vals ih =>
    obtain ⟨k', vs⟩ := a
    simp only [setVals]
    by_cases h1 : k' = lower n
    · subst h1; simp only [beq_self_eq_true, if_true, List.map_cons, List.mem_cons]
      constructor
      · intro h; rcases h with h | h
        · exact Or.inl h
        · exact Or.inr (Or.inr h)
      · intro h; rcases h with h | h | h
        · exact Or.inl h
        · exact Or.inl h
        · exact Or.inr h
    · simp only [beq_iff_eq, h1, if_false, List.map_cons, List.mem_cons, ih]
      constructor
      · intro h; rcases h with h | h | h
        · exact Or.inr (Or.inl h)
        · exact Or.inl h
        · exact Or.inr (Or.inr h)
      · intro h; rcases h with h | h | h
        · exact Or.inr (Or.inl h)
        · exact Or.inl h
        · exact Or.inr (Or.inr h)

theorem mem_setVals {n : Bytes} {f : List Bytes → List Bytes} {vals : List (Bytes × List Bytes)}
    {e : Bytes × List Bytes} (h : e ∈ setVals n f vals) : e ∈ vals ∨ (e.1 = lower n ∧ ∃ vs, e.2 = f vs) := by
  induction vals with
  | nil => simp only [setVals, List.mem_singleton] at h; subst h; exact Or.inr ⟨rfl, [], rfl⟩
  | cons a vals ih =>
    obtain ⟨k', vs⟩ := a
    simp only [setVals] at h
    by_cases h1 : k' = lower n
    · subst h1; simp only [beq_self_eq_true, if_true, List.mem_cons] at h
      rcases h with h | h
      · subst h; exact Or.inr ⟨rfl, vs, rfl⟩
      · exact Or.inl (by simp [h])
    · simp only [beq_iff_eq, h1, if_false, List.mem_cons] at h
      rcases h with h | h
      · exact Or.inl (by simp [h])
      · rcases ih h with h | h
        · exact Or.inl (by simp [h])
        · exact Or.inr h

theorem nodup_setVals (n : Bytes) (f : List Bytes → List Bytes) {vals : List (Bytes × List Bytes)}
    (h : (vals.map (·.1)).Nodup) : ((setVals n f vals).map (·.1)).Nodup := by
  induction vals with
  | nil => simp [setVals]
  | cons a vals ih =>
    obtain ⟨k', vs⟩ := a
    simp only [List.map_cons, List.nodup_cons] at h
    simp only [setVals]
    by_cases h1 : k' = lower n
    · subst h1; simp only [beq_self_eq_true, if_true, List.map_cons, List.nodup_cons]; exact h
    · simp only [beq_iff_eq, h1, if_false, List.map_cons, List.nodup_cons]
      refine ⟨?_, ih h.2⟩
      rw [keys_setVals]; intro hk; rcases hk with hk | hk
      · exact h1 hk
      · exact h.1 hk

theorem keysOk_setVals (n : Bytes) {f : List Bytes → List Bytes} (hf : ∀ vs, f vs ≠ [])
    {vals : List (Bytes × List Bytes)} (h : KeysOk vals) : KeysOk (setVals n f vals) := by
  refine ⟨nodup_setVals n f h.1, ?_⟩
  intro e he
  rcases mem_setVals he with he | ⟨h1, vs, h2⟩
  · exact h.2 e he
  · exact ⟨by rw [h1, lower_idem], by rw [h2]; exact hf vs⟩

theorem look_of_mem {vals : List (Bytes × List Bytes)} (h : (vals.map (·.1)).Nodup) {e : Bytes × List Bytes}
    (he : e ∈ vals) : look e.1 vals = e.2 := by
  induction vals with
  | nil => simp at he
  | cons a vals ih =>
    obtain ⟨k', vs⟩ := a
    simp only [List.map_cons, List.nodup_cons] at h
    rcases List.mem_cons.mp he with he | he
    · subst he; simp [look]
    · have : ¬ k' = e.1 := by
        intro e'; apply h.1; rw [e']; exact List.mem_map.mpr ⟨e, he, rfl⟩
      simp only [look, beq_iff_eq, this, if_false]
      exact ih h.2 he

theorem mem_of_look_ne_nil {k : Bytes} {vals : List (Bytes × List Bytes)} (h : look k vals ≠ []) :
    ∃ e ∈ vals, e.1 = k ∧ e.2 = look k vals := by
  induction vals with
  | nil => simp [look] at h
  | cons a vals ih =>
    obtain ⟨k', vs⟩ := a
    by_cases h1 : k' = k
    · subst h1; exact ⟨(k', vs), by simp, rfl, by simp [look]⟩
    · simp only [look, beq_iff_eq, h1, if_false] at h ⊢
      obtain ⟨e, he, h2, h3⟩ := ih h
      exact ⟨e, by simp [he], h2, h3⟩

/-! ### the header map denotes the value table -/

theorem splitVals_eq (l : List Bytes) : splitVals l = sortBytes (svals l) := rfl

/-- simulation relation between the response header multimap and the abstract value table:
    under every name the map carries, as a multiset of comma-separated values, exactly the
    values of the table -/
structure HdrRel (m : HeaderMap) (vals : List (Bytes × List Bytes)) : Prop where
  sorted : Sorted m
  wf : HdrWf m
  keys : KeysOk vals
  perm : ∀ n, (vs n m).Perm (svals (look (lower n) vals))

theorem hdrRel_nil : HdrRel [] [] :=
  ⟨List.Pairwise.nil, fun _ h => by simp at h, ⟨by simp, fun _ h => by simp at h⟩,
   fun n => by simp [vs, svals, look, HeaderMap.values]⟩

theorem keyEq_iff (a c : Bytes) : keyEq a c = true ↔ lower a = lower c := by simp [keyEq]

theorem hdrRel_replace {m : HeaderMap} {vals : List (Bytes × List Bytes)} (h : HdrRel m vals) {n v : Bytes}
    (he : EntryOk (n, v)) : HdrRel (hset n v true m) (setVals n (fun _ => [v]) vals) := by
  refine ⟨sorted_hset h.sorted, wf_hset h.wf he, keysOk_setVals n (by simp) h.keys, ?_⟩
  intro n'
  refine (vs_hset_replace n v n' m).trans ?_
  rw [look_setVals]
  by_cases hk : lower n = lower n'
  · rw [if_pos ((keyEq_iff _ _).mpr hk), if_pos hk.symm]; simp [svals]
  · rw [if_neg (fun e => hk ((keyEq_iff _ _).mp e)), if_neg (fun e => hk e.symm)]; exact h.perm n'

theorem hdrRel_append {m : HeaderMap} {vals : List (Bytes × List Bytes)} (h : HdrRel m vals) {n v : Bytes}
    (he : EntryOk (n, v)) : HdrRel (hset n v false m) (setVals n (fun vs => vs ++ [v]) vals) := by
  refine ⟨sorted_hset h.sorted, wf_hset h.wf he, keysOk_setVals n (by simp) h.keys, ?_⟩
  intro n'
  refine (vs_hset_append n v n' h.sorted).trans ?_
  rw [look_setVals]
  by_cases hk : lower n = lower n'
  · rw [if_pos ((keyEq_iff _ _).mpr hk), if_pos hk.symm, hk]
    simp only [svals, List.flatMap_append, List.flatMap_cons, List.flatMap_nil, List.append_nil]
    exact List.Perm.append_right _ (h.perm n')
  · rw [if_neg (fun e => hk ((keyEq_iff _ _).mp e)), if_neg (fun e => hk e.symm)]; exact h.perm n'

theorem hdrRel_insert {m : HeaderMap} {vals : List (Bytes × List Bytes)} (h : HdrRel m vals) {k v : Bytes}
    (he : EntryOk (k, v)) : HdrRel (HeaderMap.insert k v m) (setVals k (fun vs => vs ++ [v]) vals) := by
  refine ⟨sorted_insert h.sorted, wf_insert h.wf he, keysOk_setVals k (by simp) h.keys, ?_⟩
  intro n'
  refine (vs_insert k v n' m).trans ?_
  rw [look_setVals]
  by_cases hk : lower k = lower n'
  · rw [if_pos ((keyEq_iff _ _).mpr hk), if_pos hk.symm, hk]
    simp only [svals, List.flatMap_append, List.flatMap_cons, List.flatMap_nil, List.append_nil]
    exact List.perm_append_comm.trans (List.Perm.append_right _ (h.perm n'))
  · rw [if_neg (fun e => hk ((keyEq_iff _ _).mp e)), if_neg (fun e => hk e.symm)]; exact h.perm n'

theorem hdrRel_foldl (l : List (Bytes × Bytes)) (hl : ∀ e ∈ l, EntryOk e) :
    ∀ {m : HeaderMap} {vals : List (Bytes × List Bytes)}, HdrRel m vals →
    HdrRel (l.foldl (fun acc e => HeaderMap.insert e.1 e.2 acc) m)
           (l.foldl (fun acc e => setVals e.1 (fun vs => vs ++ [e.2]) acc) vals) := by
  induction l with
  | nil => intro m vals h; exact h
  | cons e l ih =>
    intro m vals h
    exact ih (fun e h => hl e (by simp [h])) (hdrRel_insert h (hl e (by simp)))

/-- what the executable predicate checks about the header block follows from the relation -/
theorem hdrRel_check {m : HeaderMap} {vals : List (Bytes × List Bytes)} (h : HdrRel m vals) :
    (Http.names m).all (fun n => vals.any fun e => e.1 == n && !e.2.isEmpty) = true ∧
    vals.all (fun e => e.2.isEmpty || Http.sortBytes (Http.valuesOf e.1 m) == splitVals e.2) = true := by
  constructor
  · rw [List.all_eq_true]
    intro n hn
    simp only [Http.names, List.mem_eraseDups, List.mem_map] at hn
    obtain ⟨a, ha, rfl⟩ := hn
    have hp := h.perm a.1
    have hne : vs a.1 m ≠ [] := by
      simp only [vs, ne_eq, svals_eq_nil]
      intro e
      have : a.2 ∈ HeaderMap.values a.1 m := by
        simp only [HeaderMap.values, List.mem_map, List.mem_filter]
        exact ⟨a, ⟨ha, by simp [keyEq]⟩, rfl⟩
      rw [e] at this; simp at this
    have hl : look (lower a.1) vals ≠ [] := by
      intro e; rw [e] at hp; simp only [svals, List.flatMap_nil] at hp
      exact hne (List.Perm.eq_nil hp)
    obtain ⟨e, he, h1, h2⟩ := mem_of_look_ne_nil hl
    rw [List.any_eq_true]
    refine ⟨e, he, ?_⟩
    simp only [Bool.and_eq_true, beq_iff_eq, Bool.not_eq_true', List.isEmpty_eq_false_iff]
    exact ⟨h1, by rw [h2]; exact hl⟩
  · rw [List.all_eq_true]
    intro e he
    have hp := h.perm e.1
    rw [(h.keys.2 e he).1, look_of_mem h.keys.1 he] at hp
    simp only [Bool.or_eq_true, beq_iff_eq]
    right
    rw [valuesOf_eq, splitVals_eq]
    exact sortBytes_perm hp

/-! ### preconditions, one call at a time -/

/-- the precondition `wfOps` puts on one call, given whether the head was already requested -/
def wfOp (op : ApiOp) (started : Bool) : Bool :=
  match op with
  | .status c r => c ≥ 0 && (match r with | some x => !hasCRLF x | none => true)
  | .hdr n v _ => !n.isEmpty && !containsByte COLON n && !hasCRLF n && !hasCRLF v && (trim n == n)
  | .hdrs m =>
    m.all (fun e => !e.1.isEmpty && !containsByte COLON e.1 && !hasCRLF e.1 && !hasCRLF e.2 && trim e.1 == e.1)
  | .wh => !started
  | .write _ => true
  | .err c r => !started && c ≥ 0 && (match r with | some x => !hasCRLF x | none => true)
  | .redir p _ => !started && !hasCRLF p
  | .json _ c => !started && c ≥ 0
  | _ => true

def nextSt (op : ApiOp) (started : Bool) : Bool :=
  match op with
  | .wh | .write _ | .err _ _ | .redir _ _ | .json _ _ => true
  | _ => started

theorem wfOps_cons (op : ApiOp) (ops : List ApiOp) (st : Bool) :
    wfOps (op :: ops) st = (wfOp op st && wfOps ops (nextSt op st)) := by
  cases op <;> simp [wfOps, wfOp, nextSt, Bool.and_assoc]
  all_goals (rename_i c r; cases r <;> rfl)

theorem nextSt_mono (op : ApiOp) {st : Bool} (h : st = true) : nextSt op st = true := by
  cases op <;> simp [nextSt, h]

theorem not_hasCRLF {x : Bytes} (h : hasCRLF x = false) : CR ∉ x := by
  simp only [hasCRLF, Bool.or_eq_false_iff] at h
  exact containsByte_eq_false.mp h.1

theorem not_mem_ite {p : Prop} [Decidable p] {a b : Bytes} {c : UInt8} (ha : c ∉ a) (hb : c ∉ b) :
    c ∉ (if p then a else b) := by split <;> assumption

theorem CR_not_mem_statusReason (c : Int) : CR ∉ statusReason c := by
  unfold statusReason
  repeat (refine not_mem_ite (by decide) ?_)
  decide

theorem reason_ok {c : Int} {r : Option Bytes}
    (h : (match r with | some x => !hasCRLF x | none => true) = true) :
    CR ∉ (match r with | some x => x | none => statusReason c) := by
  cases r with
  | none => exact CR_not_mem_statusReason c
  | some x => simp only [Bool.not_eq_true'] at h; exact not_hasCRLF h

theorem entryOk_of_wf {n v : Bytes}
    (h : (!n.isEmpty && !containsByte COLON n && !hasCRLF n && !hasCRLF v && (trim n == n)) = true) :
    EntryOk (n, v) := by
  simp only [Bool.and_eq_true, Bool.not_eq_true', List.isEmpty_eq_false_iff] at h
  obtain ⟨⟨⟨⟨h1, h2⟩, h3⟩, h4⟩, _⟩ := h
  exact ⟨h1, containsByte_eq_false.mp h2, not_hasCRLF h3, not_hasCRLF h4⟩

/-! ### the simulation invariant between `Sock` and `Spec` -/

/-- `head` is the serialisation of a status line and a header block that denote
    `(code, reason, values)` -/
def HeadOk (head : Bytes) (code : Int) (reason : Bytes) (values : List (Bytes × List Bytes)) : Prop :=
  ∃ m, head = HTTP10 ++ intText code ++ [SP] ++ reason ++ CRLF ++ Sock.headerLines m ++ CRLF ∧
       0 ≤ code ∧ CR ∉ reason ∧ HdrRel m values

/-- before the head is emitted the socket holds what the abstract response holds -/
structure Pre (s : Sock) (sp : Spec) : Prop where
  ws : s.ws = .none
  code : s.code = sp.code
  reason : s.reason = sp.reason
  codeOk : 0 ≤ sp.code
  reasonOk : CR ∉ sp.reason
  hdr : HdrRel s.respHeaders sp.values
  body : sp.body = []

/-- `st` is the `started` flag `wfOps` has reached -/
structure WInv (st : Bool) (s : Sock) (sp : Spec) : Prop where
  stW : sp.started = true → st = true
  opn : sp.closed = false → Open s
  shut : sp.closed = true → Shut s
  pre : sp.closed = false → sp.started = false → Pre s sp
  post : sp.closed = false → sp.started = true → s.ws ≠ .none
  wire0 : sp.started = false → chunks s.log = []
  wire1 : sp.started = true →
    ∃ head cs, chunks s.log = head :: cs ∧ cs.flatten = sp.body ∧ HeadOk head sp.code sp.reason sp.values

theorem Pre.headOk {s : Sock} {sp : Spec} (h : Pre s sp) : HeadOk (headBytes s) sp.code sp.reason sp.values :=
  ⟨s.respHeaders, by rw [← h.code, ← h.reason]; rfl, h.codeOk, h.reasonOk, h.hdr⟩

/-- a step that changes neither the abstract response nor (before the head) the pending head -/
theorem WInv.neutral {st st' : Bool} {s s' : Sock} {sp : Spec} (h : WInv st s sp)
    (hst : st = true → st' = true)
    (ho : sp.closed = false → Open s') (hs : sp.closed = true → Shut s')
    (hc : chunks s'.log = chunks s.log)
    (hw : sp.closed = false → (s'.ws = .none ↔ s.ws = .none))
    (hf : sp.closed = false → sp.started = false →
          s'.code = s.code ∧ s'.reason = s.reason ∧ s'.respHeaders = s.respHeaders) :
    WInv st' s' sp := by
  refine ⟨fun x => hst (h.stW x), ho, hs, ?_, ?_, ?_, ?_⟩
  · intro a b
    obtain ⟨p1, p2, p3, p4, p5, p6, p7⟩ := h.pre a b
    obtain ⟨f1, f2, f3⟩ := hf a b
    exact ⟨(hw a).mpr p1, f1 ▸ p2, f2 ▸ p3, p4, p5, f3 ▸ p6, p7⟩
  · intro a b e; exact h.post a b ((hw a).mp e)
  · intro a; rw [hc]; exact h.wire0 a
  · intro a; rw [hc]; exact h.wire1 a

theorem winv_init : WInv false { ({} : Sock) with log := [Obs.ev 0], initPending := true } {} := by
  refine ⟨by simp, fun _ => ?_, by simp, fun _ _ => ?_, by simp, fun _ => rfl, by simp⟩
  · exact ⟨⟨rfl, rfl, rfl, by simp⟩, rfl, rfl, rfl, rfl, rfl, rfl, by intro o ho; simp at ho; subst ho; rfl⟩
  · exact ⟨rfl, rfl, by decide, by decide, by decide, hdrRel_nil, rfl⟩

theorem api_eq_of_open (env : Env) (app : App) {s s' : Sock} {op : ApiOp} (e : apiPrim env s op = s')
    (h : Open s') : api env app s op = s' := by
  subst e; exact api_of_open env app op h

theorem flatten_opt (b : Bytes) : (if b = [] then ([] : List Bytes) else [b]).flatten = b := by
  split <;> simp_all

/-- the response stays open and un-started: only the pending head changed -/
theorem WInv.preUpdate {st st' : Bool} {s s' : Sock} {sp sp' : Spec} (h : WInv st s sp)
    (hs : sp.started = false) (ho : Open s') (hl : chunks s'.log = chunks s.log)
    (hs' : sp'.started = false) (hc' : sp'.closed = false) (hp : Pre s' sp') : WInv st' s' sp' :=
  ⟨fun x => (by rw [hs'] at x; cases x), fun _ => ho, fun x => (by rw [hc'] at x; cases x), fun _ _ => hp,
   fun _ x => (by rw [hs'] at x; cases x), fun _ => (by rw [hl]; exact h.wire0 hs),
   fun x => (by rw [hs'] at x; cases x)⟩

/-- a started response -/
theorem WInv.mkStarted {s : Sock} {sp : Spec} (hs : sp.started = true)
    (ho : sp.closed = false → Open s ∧ s.ws ≠ .none) (hsh : sp.closed = true → Shut s)
    (hw : ∃ head cs, chunks s.log = head :: cs ∧ cs.flatten = sp.body ∧ HeadOk head sp.code sp.reason sp.values) :
    WInv true s sp :=
  ⟨fun _ => rfl, fun x => (ho x).1, hsh, fun _ x => (by rw [hs] at x; cases x), fun x _ => (ho x).2,
   fun x => (by rw [hs] at x; cases x), fun _ => hw⟩

/-- `close()` and the convenience calls on a response that is not started yet and stays so -/
theorem WInv.closeNow {st st' : Bool} {s s' : Sock} {sp sp' : Spec} (h : WInv st s sp) (hst : st = true → st' = true)
    (hsh : Shut s') (hl : chunks s'.log = chunks s.log) (hc' : sp'.closed = true)
    (hs' : sp'.started = sp.started) (hb : sp'.body = sp.body) (hcode : sp'.code = sp.code)
    (hr : sp'.reason = sp.reason) (hv : sp'.values = sp.values) : WInv st' s' sp' :=
  ⟨fun x => hst (h.stW (hs' ▸ x)), fun x => (by rw [hc'] at x; cases x), fun _ => hsh,
   fun x => (by rw [hc'] at x; cases x), fun x => (by rw [hc'] at x; cases x),
   fun x => (by rw [hl]; exact h.wire0 (hs' ▸ x)),
   fun x => (by rw [hl, hb, hcode, hr, hv]; exact h.wire1 (hs' ▸ x))⟩

/-- the reason phrase a status call puts in effect -/
def effReason (c : Int) (r : Option Bytes) : Bytes :=
  match r with | some x => x | none => statusReason c

theorem effReason_ok {c : Int} {r : Option Bytes}
    (h : (match r with | some x => !hasCRLF x | none => true) = true) : CR ∉ effReason c r :=
  reason_ok h

theorem entryOk_CL (n : Nat) : EntryOk (CONTENT_LENGTH, natDigits n) :=
  ⟨(by decide : CONTENT_LENGTH ≠ []), (by decide : COLON ∉ CONTENT_LENGTH), (by decide : CR ∉ CONTENT_LENGTH),
   natDigits_not_mem n (Or.inl (by decide))⟩

theorem entryOk_CT_html : EntryOk (CONTENT_TYPE, TEXT_HTML) := ⟨by decide, by decide, by decide, by decide⟩
theorem entryOk_CT_json : EntryOk (CONTENT_TYPE, APP_JSON) := ⟨by decide, by decide, by decide, by decide⟩

theorem entryOk_location {p : Bytes} (h : CR ∉ p) : EntryOk (lit ['L','o','c','a','t','i','o','n'], p) :=
  ⟨(by decide : lit ['L','o','c','a','t','i','o','n'] ≠ []),
   (by decide : COLON ∉ lit ['L','o','c','a','t','i','o','n']),
   (by decide : CR ∉ lit ['L','o','c','a','t','i','o','n']), h⟩

/-- one response-side call on a response that is not closed yet -/
theorem winv_api_open {app : App} (hq : QuietApp app) (env : Env) {st : Bool} {s : Sock} {sp : Spec}
    (h : WInv st s sp) (hc : sp.closed = false) {op : ApiOp} (hop : respOp op = true)
    (hwf : wfOp op st = true) :
    WInv (nextSt op st) (api env app s op) (Spec.step env.errPage sp op) := by
  have ho := h.opn hc
  have hcl : ∀ {P : Prop}, sp.closed = true → P := fun x => by rw [hc] at x; cases x
  by_cases hs : sp.started = true
  · -- the head is out: setters no longer matter, writes extend the body
    have hst := h.stW hs
    have hns : ∀ {P : Prop}, sp.started = false → P := fun x => by rw [hs] at x; cases x
    obtain ⟨head, cs, w1, w2, w3⟩ := h.wire1 hs
    cases op <;> simp only [respOp, Bool.false_eq_true] at hop
    · rename_i c r
      have e : Spec.step env.errPage sp (.status c r) = sp := by simp [Spec.step, hc, hs]
      rw [e, api_eq_of_open env app (apiPrim_status env ho c r) (open_setStatusCode ho c r)]
      exact h.neutral (nextSt_mono _) (fun _ => open_setStatusCode ho c r) hcl rfl (fun _ => Iff.rfl)
        (fun _ x => hns x)
    · rename_i n v r
      have e : Spec.step env.errPage sp (.hdr n v r) = sp := by
        cases r <;> simp [Spec.step, hc, hs]
      rw [e, api_eq_of_open env app (apiPrim_hdr env ho n v r) (ho.of_eq rfl ho.logOpen)]
      exact h.neutral (nextSt_mono _) (fun _ => ho.of_eq rfl ho.logOpen) hcl rfl (fun _ => Iff.rfl)
        (fun _ x => hns x)
    · rename_i m
      have e : Spec.step env.errPage sp (.hdrs m) = sp := by simp [Spec.step, hc, hs]
      rw [e, api_eq_of_open env app (apiPrim_hdrs env ho m) (ho.of_eq rfl ho.logOpen)]
      exact h.neutral (nextSt_mono _) (fun _ => ho.of_eq rfl ho.logOpen) hcl rfl (fun _ => Iff.rfl)
        (fun _ x => hns x)
    · simp [wfOp, hst] at hwf
    · rename_i b
      have e : Spec.step env.errPage sp (.write b) = { sp with started := true, body := sp.body ++ b } := by
        simp [Spec.step, hc]
      obtain ⟨o1, o2, o3⟩ := open_write ho b
      rw [e, api_eq_of_open env app (apiPrim_write env ho b) o1]
      refine WInv.mkStarted rfl (fun _ => ⟨o1, o2⟩) hcl ?_
      refine ⟨head, cs ++ (if b = [] then [] else [b]), ?_, ?_, w3⟩
      · rw [o3, if_neg (h.post hc hs), w1]; simp
      · show (cs ++ _).flatten = sp.body ++ b
        rw [List.flatten_append, w2, flatten_opt]
    · simp [wfOp, hst] at hwf
    · simp [wfOp, hst] at hwf
    · simp [wfOp, hst] at hwf
    · have e : Spec.step env.errPage sp .close = { sp with closed := true } := by simp [Spec.step, hc]
      obtain ⟨c1, c2⟩ := open_closeDc hq env ho
      rw [e, api_close env app ho]
      exact h.closeNow (nextSt_mono _) c1 c2 rfl rfl rfl rfl rfl rfl
  · -- nothing is on the wire yet
    have hs : sp.started = false := by simpa using hs
    have P := h.pre hc hs
    have w0 := h.wire0 hs
    cases op <;> simp only [respOp, Bool.false_eq_true] at hop
    · rename_i c r
      simp only [wfOp, Bool.and_eq_true, decide_eq_true_eq] at hwf
      have e : Spec.step env.errPage sp (.status c r) = sp.status c r := by simp [Spec.step, hc, hs]
      rw [e, api_eq_of_open env app (apiPrim_status env ho c r) (open_setStatusCode ho c r)]
      exact h.preUpdate hs (open_setStatusCode ho c r) rfl hs hc
        ⟨P.ws, rfl, rfl, hwf.1, reason_ok hwf.2, P.hdr, P.body⟩
    · rename_i n v r
      have he := entryOk_of_wf hwf
      rw [api_eq_of_open env app (apiPrim_hdr env ho n v r) (ho.of_eq rfl ho.logOpen)]
      cases r
      · have e : Spec.step env.errPage sp (.hdr n v false) =
            { sp with values := setVals n (fun vs => vs ++ [v]) sp.values } := by simp [Spec.step, hc, hs]
        rw [e]
        exact h.preUpdate hs (ho.of_eq rfl ho.logOpen) rfl hs hc
          ⟨P.ws, P.code, P.reason, P.codeOk, P.reasonOk, hdrRel_append P.hdr he, P.body⟩
      · have e : Spec.step env.errPage sp (.hdr n v true) =
            { sp with values := setVals n (fun _ => [v]) sp.values } := by simp [Spec.step, hc, hs]
        rw [e]
        exact h.preUpdate hs (ho.of_eq rfl ho.logOpen) rfl hs hc
          ⟨P.ws, P.code, P.reason, P.codeOk, P.reasonOk, hdrRel_replace P.hdr he, P.body⟩
    · rename_i m
      have hm : ∀ e ∈ m, EntryOk e := by
        simp only [wfOp, List.all_eq_true] at hwf
        intro e he; exact entryOk_of_wf (hwf e he)
      have e : Spec.step env.errPage sp (.hdrs m) =
          { sp with values := m.foldl (fun acc e => setVals e.1 (fun vs => vs ++ [e.2]) acc) [] } := by
        simp [Spec.step, hc, hs]
      rw [e, api_eq_of_open env app (apiPrim_hdrs env ho m) (ho.of_eq rfl ho.logOpen)]
      exact h.preUpdate hs (ho.of_eq rfl ho.logOpen) rfl hs hc
        ⟨P.ws, P.code, P.reason, P.codeOk, P.reasonOk, hdrRel_foldl m hm hdrRel_nil, P.body⟩
    · have e : Spec.step env.errPage sp .wh = { sp with started := true } := by simp [Spec.step, hc]
      obtain ⟨o1, o2, o3⟩ := open_writeHeaders ho
      rw [e, api_eq_of_open env app (apiPrim_wh env ho) o1]
      refine WInv.mkStarted rfl (fun _ => ⟨o1, by rw [o3]; simp⟩) hcl ⟨headBytes s, [], ?_, ?_, P.headOk⟩
      · rw [o2, chunks_append, w0, chunks_w]; rfl
      · exact P.body.symm
    · rename_i b
      have e : Spec.step env.errPage sp (.write b) = { sp with started := true, body := sp.body ++ b } := by
        simp [Spec.step, hc]
      obtain ⟨o1, o2, o3⟩ := open_write ho b
      rw [e, api_eq_of_open env app (apiPrim_write env ho b) o1]
      refine WInv.mkStarted rfl (fun _ => ⟨o1, o2⟩) hcl
        ⟨headBytes s, (if b = [] then [] else [b]), ?_, ?_, P.headOk⟩
      · rw [o3, if_pos P.ws, w0]; rfl
      · show _ = sp.body ++ b
        rw [flatten_opt, P.body]; rfl
    · -- writeError
      rename_i c r
      simp only [wfOp, Bool.and_eq_true, decide_eq_true_eq] at hwf
      obtain ⟨⟨_, hc0⟩, hr0⟩ := hwf
      rw [api_err env app ho c r]
      have e3 : setHeader (setHeader (setStatusCode s c r) CONTENT_LENGTH
            (natDigits (env.errPage (setStatusCode s c r).code (setStatusCode s c r).reason).length) true)
            CONTENT_TYPE TEXT_HTML true =
          { s with code := c, reason := (effReason c r),
                   respHeaders := hset CONTENT_TYPE TEXT_HTML true (hset CONTENT_LENGTH
                     (natDigits (env.errPage c (effReason c r)).length)
                     true s.respHeaders) } := by
        simp only [setHeader_eq]; cases r <;> rfl
      rw [e3]
      have o3 := ho.setHead c (effReason c r)
        (hset CONTENT_TYPE TEXT_HTML true (hset CONTENT_LENGTH
          (natDigits (env.errPage c (effReason c r)).length)
          true s.respHeaders))
      obtain ⟨o4, l4, w4⟩ := open_writeHeaders o3
      obtain ⟨o5, _, l5⟩ := open_write o4 (env.errPage (setStatusCode s c r).code (setStatusCode s c r).reason)
      obtain ⟨c1, c2⟩ := open_closeDc hq env o5
      have e : Spec.step env.errPage sp (.err c r) =
          { sp with code := c, reason := (effReason c r),
                    values := setVals CONTENT_TYPE (fun _ => [TEXT_HTML]) (setVals CONTENT_LENGTH
                      (fun _ => [natDigits (env.errPage c
                        (effReason c r)).length]) sp.values),
                    started := true, closed := true,
                    body := env.errPage c (effReason c r) } := by
        cases r <;> simp [Spec.step, hc, hs, Spec.status, effReason]
      rw [e]
      refine WInv.mkStarted rfl (fun x => by cases x) (fun _ => c1) ?_
      rw [c2, l5, w4, if_neg (by decide : ¬ WState.headers = WState.none), l4, chunks_append, w0, chunks_w]
      exact ⟨_, _, rfl, flatten_opt _, _, rfl, hc0, effReason_ok hr0,
          hdrRel_replace (hdrRel_replace P.hdr (entryOk_CL _)) entryOk_CT_html⟩
    · -- writeRedirect
      rename_i p pm
      simp only [wfOp, Bool.and_eq_true, Bool.not_eq_true'] at hwf
      rw [api_redir env app ho p pm]
      have e3 : setHeader (setStatusCode s (if pm then 301 else 302) none)
            (lit ['L','o','c','a','t','i','o','n']) p true =
          { s with code := (if pm then 301 else 302), reason := statusReason (if pm then 301 else 302),
                   respHeaders := hset (lit ['L','o','c','a','t','i','o','n']) p true s.respHeaders } := by
        simp [setHeader_eq, setStatusCode]
      rw [e3]
      have o3 := ho.setHead (if pm then 301 else 302) (statusReason (if pm then 301 else 302))
        (hset (lit ['L','o','c','a','t','i','o','n']) p true s.respHeaders)
      obtain ⟨o4, l4, w4⟩ := open_writeHeaders o3
      obtain ⟨c1, c2⟩ := open_closeDc hq env o4
      have e : Spec.step env.errPage sp (.redir p pm) =
          { sp with code := (if pm then 301 else 302), reason := statusReason (if pm then 301 else 302),
                    values := setVals (lit ['L','o','c','a','t','i','o','n']) (fun _ => [p]) sp.values,
                    started := true, closed := true } := by
        simp [Spec.step, hc, hs, Spec.status]
      rw [e]
      refine WInv.mkStarted rfl (fun x => by cases x) (fun _ => c1) ?_
      rw [c2, l4, chunks_append, w0, chunks_w]
      exact ⟨_, [], rfl, P.body.symm, _, rfl, (show (0 : Int) ≤ (if pm = true then 301 else 302) by cases pm <;> decide),
          CR_not_mem_statusReason _,
          hdrRel_replace P.hdr (entryOk_location (not_hasCRLF hwf.2))⟩
    · -- writeJson
      rename_i b c
      simp only [wfOp, Bool.and_eq_true, decide_eq_true_eq] at hwf
      rw [api_json env app ho b c]
      have e3 : setHeader (setHeader (setStatusCode s c none) CONTENT_LENGTH (natDigits b.length) true)
            CONTENT_TYPE APP_JSON true =
          { s with code := c, reason := statusReason c,
                   respHeaders := hset CONTENT_TYPE APP_JSON true (hset CONTENT_LENGTH
                     (natDigits b.length) true s.respHeaders) } := by
        simp [setHeader_eq, setStatusCode]
      rw [e3]
      have o3 := ho.setHead c (statusReason c)
        (hset CONTENT_TYPE APP_JSON true (hset CONTENT_LENGTH (natDigits b.length) true s.respHeaders))
      obtain ⟨o5, _, l5⟩ := open_write o3 b
      obtain ⟨c1, c2⟩ := open_closeDc hq env o5
      have e : Spec.step env.errPage sp (.json b c) =
          { sp with code := c, reason := statusReason c,
                    values := setVals CONTENT_TYPE (fun _ => [APP_JSON]) (setVals CONTENT_LENGTH
                      (fun _ => [natDigits b.length]) sp.values),
                    started := true, closed := true, body := b } := by
        simp [Spec.step, hc, hs, Spec.status]
      rw [e]
      refine WInv.mkStarted rfl (fun x => by cases x) (fun _ => c1) ?_
      rw [c2, l5, if_pos (show _ = WState.none from P.ws), w0]
      exact ⟨_, _, rfl, flatten_opt _, _, rfl, hwf.2, CR_not_mem_statusReason _,
          hdrRel_replace (hdrRel_replace P.hdr (entryOk_CL _)) entryOk_CT_json⟩
    · have e : Spec.step env.errPage sp .close = { sp with closed := true } := by simp [Spec.step, hc]
      obtain ⟨c1, c2⟩ := open_closeDc hq env ho
      rw [e, api_close env app ho]
      exact h.closeNow (nextSt_mono _) c1 c2 rfl rfl rfl rfl rfl rfl

/-! ### lifting over external events -/

theorem WInv.ev {st : Bool} {s : Sock} {sp : Spec} (h : WInv st s sp) (hc : sp.closed = false) (k : Nat) :
    WInv st { s with log := s.log ++ [Obs.ev k] } sp :=
  h.neutral id (fun _ => (h.opn hc).ev k) (fun x => by rw [hc] at x; cases x) (chunks_ev _ _)
    (fun _ => Iff.rfl) (fun _ _ => ⟨rfl, rfl, rfl⟩)

theorem winv_stepK_api {app : App} (hq : QuietApp app) (env : Env) {st : Bool} {s : Sock} {sp : Spec} (k : Nat)
    (h : WInv st s sp) {op : ApiOp} (hop : allowedEv (.api op) = true) (hwf : wfOp op st = true) :
    WInv (nextSt op st) (stepK env app (s, k) (.api op)).1 (Spec.step env.errPage sp op) := by
  by_cases hc : sp.closed = true
  · have e : Spec.step env.errPage sp op = sp := by simp [Spec.step, hc]
    obtain ⟨h1, e1, _⟩ := shut_stepK hq env k (h.shut hc) (e := .api op) hop
    rw [e]
    exact h.neutral (nextSt_mono op) (fun x => by rw [hc] at x; cases x) (fun _ => h1) e1
      (fun x => by rw [hc] at x; cases x) (fun x => by rw [hc] at x; cases x)
  · have hc : sp.closed = false := by simpa using hc
    have ho := h.opn hc
    rw [stepK_alive env app k _ ho.alive, step_api env app op (by exact ho.alive)]
    rcases Bool.or_eq_true_iff.mp hop with hop | hop
    · exact winv_api_open hq env (h.ev hc k) hc hop hwf
    · -- a call that does not touch the response
      have e : Spec.step env.errPage sp op = sp := by
        cases op <;> simp only [passiveOp, Bool.false_eq_true] at hop <;> simp [Spec.step]
      have en : nextSt op st = st := by
        cases op <;> simp only [passiveOp, Bool.false_eq_true] at hop <;> rfl
      have ho' := ho.ev k
      obtain ⟨a1, a2, a3, a4, a5, a6⟩ := open_pstep ho' (api_passive env app hop ho'.rb ho'.dcF)
      rw [e, en]
      exact (h.ev hc k).neutral id (fun _ => a1) (fun x => by rw [hc] at x; cases x) a2
        (fun _ => by rw [a6]) (fun _ _ => ⟨a3, a4, a5⟩)

theorem winv_stepK_other {app : App} (hq : QuietApp app) (env : Env) {st : Bool} {s : Sock} {sp : Spec} (k : Nat)
    (h : WInv st s sp) {e : Event} (he : allowedEv e = true) (hne : ∀ op, e ≠ .api op) :
    WInv st (stepK env app (s, k) e).1 sp := by
  by_cases hc : sp.closed = true
  · obtain ⟨h1, e1, _⟩ := shut_stepK hq env k (h.shut hc) he
    exact h.neutral id (fun x => by rw [hc] at x; cases x) (fun _ => h1) e1
      (fun x => by rw [hc] at x; cases x) (fun x => by rw [hc] at x; cases x)
  · have hc : sp.closed = false := by simpa using hc
    have ho := h.opn hc
    have hcl : ∀ {P : Prop}, sp.closed = true → P := fun x => by rw [hc] at x; cases x
    have h' := h.ev hc k
    have ho' := ho.ev k
    rw [stepK_alive env app k _ ho.alive]
    cases e <;> simp only [allowedEv, Bool.false_eq_true] at he
    · rename_i n
      have : step env app { s with log := s.log ++ [Obs.ev k] } (.ack n) =
          ackN env app { s with log := s.log ++ [Obs.ev k] } n := by simp [step, ho.alive]
      rw [this]
      obtain ⟨a1, a2, a3, a4, a5, a6⟩ := open_ackN hq env ho' n
      exact h'.neutral id (fun _ => a1) hcl a2 (fun _ => a6) (fun _ _ => ⟨a3, a4, a5⟩)
    · have : step env app { s with log := s.log ++ [Obs.ev k] } .ackAll =
          ackN env app { s with log := s.log ++ [Obs.ev k] } s.tcp.unacked := by simp [step, ho.alive]
      rw [this]
      obtain ⟨a1, a2, a3, a4, a5, a6⟩ := open_ackN hq env ho' s.tcp.unacked
      exact h'.neutral id (fun _ => a1) hcl a2 (fun _ => a6) (fun _ _ => ⟨a3, a4, a5⟩)
    · obtain ⟨a1, a2, a3, a4, a5, a6⟩ := open_turn env app ho'
      exact h'.neutral id (fun _ => a1) hcl (by rw [a2]) (fun _ => by rw [a6]) (fun _ _ => ⟨a3, a4, a5⟩)
    · exact absurd rfl (hne _)

theorem apiOps_cons_api (app : App) (op : ApiOp) (evs : List Event) :
    apiOps ⟨app, .api op :: evs⟩ = op :: apiOps ⟨app, evs⟩ := rfl

theorem apiOps_cons_other (app : App) {e : Event} (evs : List Event) (hne : ∀ op, e ≠ .api op) :
    apiOps ⟨app, e :: evs⟩ = apiOps ⟨app, evs⟩ := by
  cases e <;> first | rfl | exact absurd rfl (hne _)

/-- the invariant holds along every history of allowed events that satisfies `wfOps` -/
theorem winv_run {app : App} (hq : QuietApp app) (env : Env) :
    ∀ (evs : List Event) {st : Bool} {s : Sock} {sp : Spec} (k : Nat), WInv st s sp →
      (∀ e ∈ evs, allowedEv e = true) → wfOps (apiOps ⟨app, evs⟩) st = true →
      ∃ st', WInv st' (evs.foldl (stepK env app) (s, k)).1
        ((apiOps ⟨app, evs⟩).foldl (Spec.step env.errPage) sp)
  | [], st, s, sp, k, h, _, _ => ⟨st, h⟩
  | e :: evs, st, s, sp, k, h, hal, hwf => by
    have he := hal e (by simp)
    have hal' : ∀ e ∈ evs, allowedEv e = true := fun x hx => hal x (by simp [hx])
    by_cases hapi : ∃ op, e = .api op
    · obtain ⟨op, rfl⟩ := hapi
      rw [apiOps_cons_api, wfOps_cons, Bool.and_eq_true] at hwf
      rw [apiOps_cons_api, List.foldl_cons, List.foldl_cons]
      exact winv_run hq env evs _ (winv_stepK_api hq env k h he hwf.1) hal' hwf.2
    · have hne : ∀ op, e ≠ .api op := fun op x => hapi ⟨op, x⟩
      rw [apiOps_cons_other app evs hne] at hwf ⊢
      rw [List.foldl_cons]
      exact winv_run hq env evs _ (winv_stepK_other hq env k h he hne) hal' hwf

/-! ### the executable predicate follows from the invariant -/

theorem CR_not_mem_start {code : Int} {reason : Bytes} (hc : 0 ≤ code) (hr : CR ∉ reason) :
    CR ∉ HTTP10 ++ intText code ++ [SP] ++ reason := by
  rw [intText_of_nonneg hc]
  simp only [List.mem_append, not_or]
  exact ⟨⟨⟨by decide, natDigits_not_mem _ (Or.inl (by decide))⟩, by decide⟩, hr⟩

theorem holds_of_winv {st : Bool} {s : Sock} {sp : Spec} (h : WInv st s sp) :
    (Obs.countP Obs.isW (s.log.dropWhile (fun o => !Obs.isTc o)) == 0 &&
     (if sp.closed then Obs.countP Obs.isTc s.log == 1 else Obs.countP Obs.isTc s.log == 0) &&
     (if !sp.started then (Obs.wire s.log).isEmpty else
      match Http.parse (Obs.wire s.log) with
      | none => false
      | some m =>
        (match Http.statusLine m.start with
         | some st => (st.code : Int) == sp.code && st.reason == sp.reason
         | none => false) &&
        m.body == sp.body &&
        (Http.names m.headers).all (fun n => (sp.values.any fun e => e.1 == n && !e.2.isEmpty)) &&
        sp.values.all (fun e => e.2.isEmpty ||
           Http.sortBytes (Http.valuesOf e.1 m.headers) == splitVals e.2))) = true := by
  have p1 : Obs.countP Obs.isW (afterTc s.log) = 0 ∧
      (if sp.closed then Obs.countP Obs.isTc s.log == 1 else Obs.countP Obs.isTc s.log == 0) = true := by
    by_cases hc : sp.closed = true
    · have := (h.shut hc).logShut
      simp [hc, this.oneTc, this.noW]
    · have hc : sp.closed = false := by simpa using hc
      have := (h.opn hc).logOpen
      rw [afterTc_of_logOpen this, countTc_of_logOpen this]
      simp [hc, Obs.countP]
  have p3 : (if !sp.started then (Obs.wire s.log).isEmpty else
      match Http.parse (Obs.wire s.log) with
      | none => false
      | some m =>
        (match Http.statusLine m.start with
         | some st => (st.code : Int) == sp.code && st.reason == sp.reason
         | none => false) &&
        m.body == sp.body &&
        (Http.names m.headers).all (fun n => (sp.values.any fun e => e.1 == n && !e.2.isEmpty)) &&
        sp.values.all (fun e => e.2.isEmpty ||
           Http.sortBytes (Http.valuesOf e.1 m.headers) == splitVals e.2)) = true := by
    by_cases hs : sp.started = true
    · obtain ⟨head, cs, w1, w2, m, hh, hcode, hreason, hrel⟩ := h.wire1 hs
      have hw : Obs.wire s.log =
          (HTTP10 ++ intText sp.code ++ [SP] ++ sp.reason) ++ CRLF ++ Sock.headerLines m ++ CRLF ++ sp.body := by
        rw [wire_eq_chunks, w1, List.flatten_cons, w2, hh]
      rw [hw, parse_render _ m sp.body (CR_not_mem_start hcode hreason) hrel.wf]
      obtain ⟨c1, c2⟩ := hdrRel_check hrel
      simp only [hs, Bool.not_true, Bool.false_eq_true, if_false, statusLine_intText hcode, c1, c2,
        beq_self_eq_true, Bool.and_true, beq_iff_eq]
      omega
    · have hs : sp.started = false := by simpa using hs
      simp [hs, wire_eq_chunks, h.wire0 hs]
  show (Obs.countP Obs.isW (afterTc s.log) == 0 && _ && _) = true
  rw [p1.1, p1.2, p3]; rfl

/-! ### main theorem -/

theorem run_new (env : Env) (app : App) (rest : List Event) :
    Scenario.run env ⟨app, .new :: rest⟩ =
      (rest.foldl (stepK env app) ({ ({} : Sock) with log := [Obs.ev 0], initPending := true }, 1)).1 := rfl

/-- **C03**: for every environment, every application whose `bytesWritten` / `disconnected`
    reactions make no response-side call (`QuietApp`: they may read, query, record harmless notes;
    reactions to request-side signals are arbitrary), and every history `new` followed by
    response-side calls (`status/hdr/hdrs/wh/write/err/redir/json/close`, interleaved with reads
    and queries if desired), acknowledgements and event-loop turns (`allowedEv`), the executable
    predicate holds on the model run.  Unbounded in the history, the byte strings and the
    environment; the documented preconditions are those of `wfOps` (inside `holds`). -/
theorem holds_run (env : Env) (app : App) (hq : QuietApp app) (rest : List Event)
    (hr : ∀ e ∈ rest, allowedEv e = true) :
    holds env ⟨app, .new :: rest⟩ (Scenario.run env ⟨app, .new :: rest⟩).log = true := by
  unfold holds
  have ha : apiOps ⟨app, .new :: rest⟩ = apiOps ⟨app, rest⟩ := rfl
  simp only [ha]
  by_cases hwf : wfOps (apiOps ⟨app, rest⟩) false = true
  · obtain ⟨st', h⟩ := winv_run hq env rest 1 winv_init hr hwf
    rw [run_new]
    simp only [hwf, Bool.not_true, Bool.false_eq_true, if_false]
    exact holds_of_winv h
  · simp [hwf]

/-! ### what `holds` means, in plain terms -/

/-- the abstract response a history denotes -/
def specOf (env : Env) (evs : List Event) : Spec :=
  (apiOps ⟨{}, evs⟩).foldl (Spec.step env.errPage) {}

/-- the invariant at the end of every admissible run -/
theorem run_winv (env : Env) (app : App) (hq : QuietApp app) (rest : List Event)
    (hr : ∀ e ∈ rest, allowedEv e = true) (hwf : wfOps (apiOps ⟨app, rest⟩) false = true) :
    ∃ st, WInv st (Scenario.run env ⟨app, .new :: rest⟩) (specOf env rest) := by
  obtain ⟨st', h⟩ := winv_run hq env rest 1 winv_init hr hwf
  exact ⟨st', h⟩

/-- **the wire denotes the abstract response**: once the head is out the wire re-parses, the
    status line carries the code and reason set, the body is the written bytes in order, and under
    every name the header block carries exactly the multiset of values set for it -/
theorem WInv.wire_spec {st : Bool} {s : Sock} {sp : Spec} (h : WInv st s sp) (hs : sp.started = true) :
    ∃ msg, Http.parse (Obs.wire s.log) = some msg ∧
      Http.statusLine msg.start = some { code := sp.code.natAbs, reason := sp.reason } ∧
      (sp.code.natAbs : Int) = sp.code ∧ msg.body = sp.body ∧
      ∀ n, Http.sortBytes (Http.valuesOf n msg.headers) = splitVals (look (lower n) sp.values) := by
  obtain ⟨head, cs, w1, w2, m, hh, hcode, hreason, hrel⟩ := h.wire1 hs
  have hw : Obs.wire s.log =
      (HTTP10 ++ intText sp.code ++ [SP] ++ sp.reason) ++ CRLF ++ Sock.headerLines m ++ CRLF ++ sp.body := by
    rw [wire_eq_chunks, w1, List.flatten_cons, w2, hh]
  refine ⟨_, by rw [hw]; exact parse_render _ m sp.body (CR_not_mem_start hcode hreason) hrel.wf,
    statusLine_intText hcode _, by omega, rfl, ?_⟩
  intro n
  rw [valuesOf_eq, splitVals_eq]
  exact sortBytes_perm (hrel.perm n)

/-- nothing reaches the wire before the head, the first chunk written is the complete head
    (status line, header block, blank line) and the remaining chunks are exactly the body:
    the head is emitted exactly once and first, whether or not `writeHeaders` was called -/
theorem WInv.head_once_first {st : Bool} {s : Sock} {sp : Spec} (h : WInv st s sp) :
    (sp.started = false → chunks s.log = []) ∧
    (sp.started = true → ∃ head cs start m, chunks s.log = head :: cs ∧ cs.flatten = sp.body ∧
      head = start ++ CRLF ++ Sock.headerLines m ++ CRLF ∧
      Http.statusLine start = some { code := sp.code.natAbs, reason := sp.reason } ∧
      ∀ body, Http.parse (head ++ body) = some { start := start, headers := m, body := body }) := by
  refine ⟨h.wire0, fun hs => ?_⟩
  obtain ⟨head, cs, w1, w2, m, hh, hcode, hreason, hrel⟩ := h.wire1 hs
  refine ⟨head, cs, HTTP10 ++ intText sp.code ++ [SP] ++ sp.reason, m, w1, w2, hh,
    statusLine_intText hcode _, fun body => ?_⟩
  rw [hh]
  exact parse_render _ m body (CR_not_mem_start hcode hreason) hrel.wf

theorem split_at_tc : ∀ {l : List Obs}, Obs.countP Obs.isTc l = 1 →
    ∃ pre post, l = pre ++ Obs.tc :: post ∧ (∀ o ∈ pre, Obs.isTc o = false) ∧
      (∀ o ∈ post, Obs.isTc o = false) ∧ afterTc l = Obs.tc :: post
  | [], h => by simp [Obs.countP] at h
  | o :: l, h => by
    by_cases ho : Obs.isTc o = true
    · have ho' : o = Obs.tc := by cases o <;> simp_all [Obs.isTc]
      subst ho'
      have hl : ∀ x ∈ l, Obs.isTc x = false := by
        simp only [Obs.countP, List.filter_cons, ho, if_true, List.length_cons, Nat.add_eq_right,
          List.length_eq_zero_iff, List.filter_eq_nil_iff] at h
        intro x hx; simpa using h x hx
      exact ⟨[], l, rfl, by simp, hl, by simp [afterTc, Obs.isTc]⟩
    · have ho' : Obs.isTc o = false := by simpa using ho
      have h' : Obs.countP Obs.isTc l = 1 := by
        simpa [Obs.countP, List.filter_cons, ho'] using h
      obtain ⟨pre, post, e, h1, h2, h3⟩ := split_at_tc h'
      refine ⟨o :: pre, post, by rw [e]; rfl, ?_, h2, ?_⟩
      · intro x hx
        rcases List.mem_cons.mp hx with hx | hx
        · subst hx; exact ho'
        · exact h1 x hx
      · simp only [afterTc, List.dropWhile_cons, ho', Bool.not_false, if_true] at h3 ⊢
        exact h3

/-- while the response is not closed the transport is not closed; once it is, the history is
    `pre ++ tc :: post` with every write in `pre` — all bytes written before `close` are on
    the wire before the transport is closed, and the wire never changes afterwards -/
theorem WInv.flush_before_close {st : Bool} {s : Sock} {sp : Spec} (h : WInv st s sp) :
    (sp.closed = false → ∀ o ∈ s.log, Obs.isTc o = false) ∧
    (sp.closed = true → ∃ pre post, s.log = pre ++ Obs.tc :: post ∧
      (∀ o ∈ pre, Obs.isTc o = false) ∧ (∀ o ∈ post, Obs.isTc o = false ∧ Obs.isW o = false) ∧
      Obs.wire pre = Obs.wire s.log) := by
  refine ⟨fun hc => (h.opn hc).logOpen, fun hc => ?_⟩
  have hl := (h.shut hc).logShut
  obtain ⟨pre, post, e, h1, h2, h3⟩ := split_at_tc hl.oneTc
  have hw : ∀ o ∈ post, Obs.isW o = false := by
    have := hl.noW
    rw [h3] at this
    have h4 : Obs.countP Obs.isW post = 0 := by
      simpa [Obs.countP, List.filter_cons, show Obs.isW Obs.tc = false from rfl] using this
    simp only [Obs.countP, List.length_eq_zero_iff, List.filter_eq_nil_iff] at h4
    intro o ho; simpa using h4 o ho
  have hpost : chunks post = [] := by
    simp only [chunks, List.filterMap_eq_nil_iff]
    intro o ho; have := hw o ho; cases o <;> simp_all [Obs.isW]
  refine ⟨pre, post, e, h1, fun o ho => ⟨h2 o ho, hw o ho⟩, ?_⟩
  · rw [wire_eq_chunks, wire_eq_chunks, e, chunks_append]
    have : chunks (Obs.tc :: post) = [] := by
      have : Obs.tc :: post = [Obs.tc] ++ post := rfl
      rw [this, chunks_append, hpost]; rfl
    rw [this, List.append_nil]

/-! ### the convenience responses -/

/-- the `started` flag `wfOps` reaches after a list of calls -/
def stAfter (ops : List ApiOp) (st : Bool) : Bool := ops.foldl (fun st op => nextSt op st) st

theorem wfOps_append (a c : List ApiOp) (st : Bool) :
    wfOps (a ++ c) st = (wfOps a st && wfOps c (stAfter a st)) := by
  induction a generalizing st with
  | nil => simp [wfOps, stAfter]
  | cons op a ih => simp only [List.cons_append, wfOps_cons, ih, stAfter, List.foldl_cons, Bool.and_assoc]

theorem started_le (page : Int → Bytes → Bytes) {sp : Spec} {st : Bool} (h : sp.started = true → st = true)
    (op : ApiOp) : (Spec.step page sp op).started = true → nextSt op st = true := by
  cases hc : sp.closed
  · cases hs : sp.started
    · cases op <;> simp [Spec.step, hc, hs, nextSt, Spec.status]
      rename_i n v r; cases r <;> simp
    · intro _; exact nextSt_mono op (h hs)
  · simp only [Spec.step, hc, if_true]; intro x; exact nextSt_mono op (h x)

theorem started_le_foldl (page : Int → Bytes → Bytes) (ops : List ApiOp) :
    ∀ {sp : Spec} {st : Bool}, (sp.started = true → st = true) →
      (ops.foldl (Spec.step page) sp).started = true → stAfter ops st = true := by
  induction ops with
  | nil => intro sp st h; exact h
  | cons op ops ih => intro sp st h; exact ih (started_le page h op)

theorem foldl_step_closed (page : Int → Bytes → Bytes) (ops : List ApiOp) {sp : Spec} (h : sp.closed = true) :
    ops.foldl (Spec.step page) sp = sp := by
  induction ops with
  | nil => rfl
  | cons op ops ih =>
    have : Spec.step page sp op = sp := by simp [Spec.step, h]
    rw [List.foldl_cons, this, ih]

/-- the body a convenience call sends with a `Content-Length` -/
def convBody (env : Env) : ApiOp → Option Bytes
  | .json b _ => some b
  | .err c r => some (env.errPage c (effReason c r))
  | _ => none

def isConv : ApiOp → Bool
  | .json _ _ | .err _ _ | .redir _ _ => true
  | _ => false

theorem conv_step (env : Env) {sp : Spec} (hc : sp.closed = false) (hs : sp.started = false) {op : ApiOp}
    (hop : isConv op = true) :
    (Spec.step env.errPage sp op).closed = true ∧ (Spec.step env.errPage sp op).started = true ∧
    ∀ body, convBody env op = some body → (Spec.step env.errPage sp op).body = body ∧
      look (lower CONTENT_LENGTH) (Spec.step env.errPage sp op).values = [natDigits body.length] := by
  have hne : ¬ lower CONTENT_LENGTH = lower CONTENT_TYPE := by decide
  cases op <;> simp only [isConv, Bool.false_eq_true] at hop
  · rename_i c r
    refine ⟨by simp [Spec.step, hc, hs], by simp [Spec.step, hc, hs], ?_⟩
    intro body hb
    simp only [convBody, Option.some.injEq] at hb
    subst hb
    have e : Spec.step env.errPage sp (.err c r) =
        { sp with code := c, reason := effReason c r,
                  values := setVals CONTENT_TYPE (fun _ => [TEXT_HTML]) (setVals CONTENT_LENGTH
                    (fun _ => [natDigits (env.errPage c (effReason c r)).length]) sp.values),
                  started := true, closed := true, body := env.errPage c (effReason c r) } := by
      cases r <;> simp [Spec.step, hc, hs, Spec.status, effReason]
    rw [e]
    refine ⟨rfl, ?_⟩
    show look _ (setVals _ _ (setVals _ _ _)) = _
    rw [look_setVals, if_neg hne, look_setVals, if_pos rfl]
  · exact ⟨by simp [Spec.step, hc, hs], by simp [Spec.step, hc, hs], fun body hb => by simp [convBody] at hb⟩
  · rename_i b c
    refine ⟨by simp [Spec.step, hc, hs], by simp [Spec.step, hc, hs], ?_⟩
    intro body hb
    simp only [convBody, Option.some.injEq] at hb
    subst hb
    have e : Spec.step env.errPage sp (.json b c) =
        { sp with code := c, reason := statusReason c,
                  values := setVals CONTENT_TYPE (fun _ => [APP_JSON]) (setVals CONTENT_LENGTH
                    (fun _ => [natDigits b.length]) sp.values),
                  started := true, closed := true, body := b } := by
      simp [Spec.step, hc, hs, Spec.status]
    rw [e]
    refine ⟨rfl, ?_⟩
    show look _ (setVals _ _ (setVals _ _ _)) = _
    rw [look_setVals, if_neg hne, look_setVals, if_pos rfl]

theorem apiOps_append (app : App) (a c : List Event) :
    apiOps ⟨app, a ++ c⟩ = apiOps ⟨app, a⟩ ++ apiOps ⟨app, c⟩ := by
  simp [apiOps]

theorem splitVals_digits (n : Nat) : splitVals [natDigits n] = [natDigits n] := by
  rw [splitVals_eq]
  have : csplit (natDigits n) = [natDigits n] :=
    splitAll_of_not_mem (c := 44) (d := [32]) (natDigits_not_mem n (Or.inl (by decide)))
  simp [svals, this, sortBytes, insertSorted]

/-- **convenience responses**: a `writeError` / `writeJson` / `writeRedirect` on a response that is
    still open closes the connection (exactly one `tc`), and for the error page and the JSON
    document the wire re-parses to a message whose body is the page / document and whose
    `Content-Length` header carries exactly the decimal length of that body -/
theorem convenience_content_length (env : Env) (app : App) (hq : QuietApp app) (evs1 evs2 : List Event)
    (op : ApiOp) (hop : isConv op = true)
    (hr : ∀ e ∈ evs1 ++ .api op :: evs2, allowedEv e = true)
    (hwf : wfOps (apiOps ⟨app, evs1 ++ .api op :: evs2⟩) false = true)
    (hopen : (specOf env evs1).closed = false) :
    Obs.countP Obs.isTc (Scenario.run env ⟨app, .new :: (evs1 ++ .api op :: evs2)⟩).log = 1 ∧
    ∀ body, convBody env op = some body →
      ∃ msg, Http.parse (Obs.wire (Scenario.run env ⟨app, .new :: (evs1 ++ .api op :: evs2)⟩).log) = some msg ∧
        msg.body = body ∧
        Http.sortBytes (Http.valuesOf CONTENT_LENGTH msg.headers) = [natDigits body.length] := by
  obtain ⟨st, h⟩ := run_winv env app hq _ hr hwf
  have hwf' := hwf
  rw [apiOps_append, apiOps_cons_api, wfOps_append, Bool.and_eq_true, wfOps_cons, Bool.and_eq_true] at hwf'
  obtain ⟨_, hwop, _⟩ := hwf'
  have hst : stAfter (apiOps ⟨app, evs1⟩) false = false := by
    cases hx : stAfter (apiOps ⟨app, evs1⟩) false
    · rfl
    · rw [hx] at hwop; cases op <;> simp [isConv] at hop <;> simp [wfOp] at hwop
  have hs0 : (specOf env evs1).started = false := by
    cases hx : (specOf env evs1).started
    · rfl
    · have := started_le_foldl env.errPage (apiOps ⟨{}, evs1⟩) (sp := {}) (st := false) (by simp) hx
      rw [show apiOps ⟨{}, evs1⟩ = apiOps ⟨app, evs1⟩ from rfl, hst] at this; cases this
  obtain ⟨c1, c2, c3⟩ := conv_step env hopen hs0 hop
  have hsp : specOf env (evs1 ++ .api op :: evs2) = Spec.step env.errPage (specOf env evs1) op := by
    simp only [specOf]
    rw [apiOps_append, apiOps_cons_api, List.foldl_append, List.foldl_cons]
    exact foldl_step_closed _ _ c1
  rw [hsp] at h
  refine ⟨(h.shut c1).logShut.oneTc, fun body hb => ?_⟩
  obtain ⟨d1, d2⟩ := c3 body hb
  obtain ⟨msg, m1, _, _, m4, m5⟩ := h.wire_spec c2
  exact ⟨msg, m1, by rw [m4, d1], by rw [m5, d2, splitVals_digits]⟩

/-! ### the corollaries for runs -/

section runs
variable (env : Env) (app : App) (hq : QuietApp app) (rest : List Event)
  (hr : ∀ e ∈ rest, allowedEv e = true) (hwf : wfOps (apiOps ⟨app, rest⟩) false = true)
include hq hr hwf

/-- C03_wire: the wire of every admissible run denotes the abstract response of its history -/
theorem wire_denotes_spec (hs : (specOf env rest).started = true) :
    ∃ msg, Http.parse (Obs.wire (Scenario.run env ⟨app, .new :: rest⟩).log) = some msg ∧
      Http.statusLine msg.start =
        some { code := (specOf env rest).code.natAbs, reason := (specOf env rest).reason } ∧
      ((specOf env rest).code.natAbs : Int) = (specOf env rest).code ∧
      msg.body = (specOf env rest).body ∧
      ∀ n, Http.sortBytes (Http.valuesOf n msg.headers) = splitVals (look (lower n) (specOf env rest).values) := by
  obtain ⟨st, h⟩ := run_winv env app hq rest hr hwf
  exact h.wire_spec hs

/-- C03_head_once_first -/
theorem head_once_first :
    ((specOf env rest).started = false → chunks (Scenario.run env ⟨app, .new :: rest⟩).log = []) ∧
    ((specOf env rest).started = true → ∃ head cs start m,
      chunks (Scenario.run env ⟨app, .new :: rest⟩).log = head :: cs ∧
      cs.flatten = (specOf env rest).body ∧
      head = start ++ CRLF ++ Sock.headerLines m ++ CRLF ∧
      Http.statusLine start =
        some { code := (specOf env rest).code.natAbs, reason := (specOf env rest).reason } ∧
      ∀ body, Http.parse (head ++ body) = some { start := start, headers := m, body := body }) := by
  obtain ⟨st, h⟩ := run_winv env app hq rest hr hwf
  exact h.head_once_first

/-- C03_flush_before_close -/
theorem flush_before_close :
    ((specOf env rest).closed = false → ∀ o ∈ (Scenario.run env ⟨app, .new :: rest⟩).log, Obs.isTc o = false) ∧
    ((specOf env rest).closed = true → ∃ pre post,
      (Scenario.run env ⟨app, .new :: rest⟩).log = pre ++ Obs.tc :: post ∧
      (∀ o ∈ pre, Obs.isTc o = false) ∧ (∀ o ∈ post, Obs.isTc o = false ∧ Obs.isW o = false) ∧
      Obs.wire pre = Obs.wire (Scenario.run env ⟨app, .new :: rest⟩).log) := by
  obtain ⟨st, h⟩ := run_winv env app hq rest hr hwf
  exact h.flush_before_close

end runs

/-! ### non-vacuity -/

theorem quietApp_default : QuietApp {} := quietApp_of_nil fun _ => ⟨rfl, rfl⟩
theorem quietApp_script : QuietApp (Script.app {}) := quietApp_of_nil fun _ => ⟨rfl, rfl⟩

/-- for scripted applications the hypothesis on the application is decidable -/
theorem quietApp_of_script (sc : Script)
    (h : (sc.onBw.all passiveOp && sc.onDc.all passiveOp) = true) : QuietApp (Script.app sc) := by
  simp only [Bool.and_eq_true, List.all_eq_true] at h
  exact fun _ => ⟨h.1, h.2⟩

def exEnv : Env := { url := fun _ => none, errPage := fun c r => intText c ++ [SP] ++ r }

/-- `hdrs:X-Tag=z,x-TAG=y status:404:~ hdr:X-tag:"b, c":a hdr:Set:1:r hdr:SET:2:r hdr:set:3:a
    write:"he" ack:5 write:"llo" close ackall turn` (after `new`): mixed-case repeated names as a
    whole map, in append and in replace mode, an implicit head, a body in two chunks, close. -/
def exEvents : List Event :=
  [ .api (.hdrs [(lit ['X','-','T','a','g'], lit ['z']), (lit ['x','-','T','A','G'], lit ['y'])]),
    .api (.status 404 none),
    .api (.hdr (lit ['X','-','t','a','g']) (lit ['b',',',' ','c']) false),
    .api (.hdr (lit ['S','e','t']) (lit ['1']) true),
    .api (.hdr (lit ['S','E','T']) (lit ['2']) true),
    .api (.hdr (lit ['s','e','t']) (lit ['3']) false),
    .api (.write (lit ['h','e'])), .ack 5, .api (.write (lit ['l','l','o'])),
    .api .close, .ackAll, .turn ]

example : ∀ e ∈ exEvents, allowedEv e = true := by decide
example : wfOps (apiOps ⟨{}, .new :: exEvents⟩) false = true := by decide
example : holds exEnv ⟨{}, .new :: exEvents⟩ (Scenario.run exEnv ⟨{}, .new :: exEvents⟩).log = true := by
  decide +kernel
/-- what that run put on the wire -/
example : Obs.wire (Scenario.run exEnv ⟨{}, .new :: exEvents⟩).log =
    lit ['H','T','T','P','/','1','.','0',' ','4','0','4',' ','N','O','T',' ','F','O','U','N','D','\r','\n',
         'S','E','T',':',' ','2',',',' ','3','\r','\n',
         'x','-','T','A','G',':',' ','y',',',' ','b',',',' ','c','\r','\n',
         'X','-','T','a','g',':',' ','z','\r','\n','\r','\n','h','e','l','l','o'] := by decide +kernel
/-- the history is closed, started, and denotes `{x-tag ↦ [z, y, "b, c"], set ↦ [2, 3]}` -/
example : (specOf exEnv exEvents).closed = true ∧ (specOf exEnv exEvents).started = true ∧
    (specOf exEnv exEvents).body = lit ['h','e','l','l','o'] ∧
    look (lit ['x','-','t','a','g']) (specOf exEnv exEvents).values =
      [lit ['z'], lit ['y'], lit ['b',',',' ','c']] ∧
    look (lit ['s','e','t']) (specOf exEnv exEvents).values = [lit ['2'], lit ['3']] := by decide +kernel
/-- an error page and a JSON document: the hypotheses of `convenience_content_length` are
    satisfiable and the predicate holds on the run -/
example : holds exEnv ⟨{}, [.new, .api (.status 201 none), .api (.err 500 none), .ackAll, .turn]⟩
    (Scenario.run exEnv ⟨{}, [.new, .api (.status 201 none), .api (.err 500 none), .ackAll, .turn]⟩).log = true := by
  decide +kernel
example : isConv (.err 500 none) = true ∧
    wfOps (apiOps ⟨{}, [.api (.status 201 none)] ++ .api (.err 500 none) :: [.ackAll, .turn]⟩) false = true ∧
    (specOf exEnv [.api (.status 201 none)]).closed = false := by decide

/-- a scripted application that reacts to `bytesWritten` with `bytesAvailable()` and to
    `disconnected` with `readAll()` and a note (and would close on `headersParsed`), with reads
    interleaved in the history: the hypotheses of `holds_run` are satisfied and `holds` is true -/
def exScript : Script :=
  { onHp := [.close], onBw := [.avail], onDc := [.readAll, .note (.misc 1 [])] }

def exEvents2 : List Event :=
  [ .api (.hdr (lit ['A']) (lit ['1']) false), .api (.read 3), .api (.hdr (lit ['a']) (lit ['2']) false),
    .api (.write (lit ['x','y'])), .ackAll, .api .snap, .api (.write (lit ['!'])), .api .close,
    .ackAll, .turn, .turn, .api (.write (lit ['z'])) ]

example : (exScript.onBw.all passiveOp && exScript.onDc.all passiveOp) = true := by decide
example : ∀ e ∈ exEvents2, allowedEv e = true := by decide
example : wfOps (apiOps ⟨exScript.app, .new :: exEvents2⟩) false = true := by decide
example : holds exEnv ⟨exScript.app, .new :: exEvents2⟩
    (Scenario.run exEnv ⟨exScript.app, .new :: exEvents2⟩).log = true := by decide +kernel
example : Obs.wire (Scenario.run exEnv ⟨exScript.app, .new :: exEvents2⟩).log =
    lit ['H','T','T','P','/','1','.','0',' ','2','0','0',' ','O','K','\r','\n',
         'A',':',' ','1',',',' ','2','\r','\n','\r','\n','x','y','!'] := by decide +kernel

/-- the main theorem applies to that scenario -/
example : holds exEnv ⟨exScript.app, .new :: exEvents2⟩
    (Scenario.run exEnv ⟨exScript.app, .new :: exEvents2⟩).log = true :=
  holds_run exEnv _ (quietApp_of_script exScript (by decide)) exEvents2 (by decide)
example : holds exEnv ⟨{}, .new :: exEvents⟩ (Scenario.run exEnv ⟨{}, .new :: exEvents⟩).log = true :=
  holds_run exEnv _ quietApp_default exEvents (by decide)

end Qhttp.C03
