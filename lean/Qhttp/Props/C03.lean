import Qhttp.Model.Http
import Qhttp.Lemmas.C03Hdr
/-
  C03 — every response on the wire is exactly the status, headers and body that were set.
-/
namespace Qhttp.C03
open Qhttp

/-- the abstract response an API history denotes -/
structure Spec where
  code    : Int := 200
  reason  : Bytes := statusReason 200
  values  : List (Bytes × List Bytes) := []     -- case-folded name ↦ values in the order set
  started : Bool := false                       -- the head has been emitted
  closed  : Bool := false
  body    : Bytes := []
deriving Repr, Inhabited

def setVals (n : Bytes) (f : List Bytes → List Bytes) : List (Bytes × List Bytes) → List (Bytes × List Bytes)
  | [] => [(lower n, f [])]
  | (k, vs) :: m => if k == lower n then (k, f vs) :: m else (k, vs) :: setVals n f m

def Spec.status (s : Spec) (c : Int) (r : Option Bytes) : Spec :=
  { s with code := c, reason := match r with | some x => x | none => statusReason c }

/-- one API call on the abstract response; `page` is the error-page body for (code, reason) -/
def Spec.step (page : Int → Bytes → Bytes) (s : Spec) (op : ApiOp) : Spec :=
  if s.closed then s else
  match op with
  | .status c r => if s.started then s else s.status c r
  | .hdr n v true => if s.started then s else { s with values := setVals n (fun _ => [v]) s.values }
  | .hdr n v false => if s.started then s else { s with values := setVals n (fun vs => vs ++ [v]) s.values }
  | .hdrs m => if s.started then s else
      { s with values := m.foldl (fun acc e => setVals e.1 (fun vs => vs ++ [e.2]) acc) [] }
  | .wh => { s with started := true }
  | .write b => { s with started := true, body := s.body ++ b }
  | .err c r =>
    if s.started then { s with closed := true } else
    let s := s.status c r
    let body := page s.code s.reason
    { s with values := setVals Sock.CONTENT_TYPE (fun _ => [Sock.TEXT_HTML])
                        (setVals Sock.CONTENT_LENGTH (fun _ => [natDigits body.length]) s.values),
             started := true, closed := true, body := body }
  | .redir p perm =>
    if s.started then { s with closed := true } else
    let s := s.status (if perm then 301 else 302) none
    { s with values := setVals (lit ['L','o','c','a','t','i','o','n']) (fun _ => [p]) s.values,
             started := true, closed := true }
  | .json b c =>
    if s.started then { s with closed := true } else
    let s := s.status c none
    { s with values := setVals Sock.CONTENT_TYPE (fun _ => [Sock.APP_JSON])
                        (setVals Sock.CONTENT_LENGTH (fun _ => [natDigits b.length]) s.values),
             started := true, closed := true, body := b }
  | .close => { s with closed := true }
  | _ => s

def hasCRLF (x : Bytes) : Bool := containsByte CR x || containsByte LF x

/-- documented preconditions of the response API (outside them nothing is claimed):
    tokens free of CR/LF, names non-empty and colon-free, a non-negative status code,
    the head requested at most once and before any body byte, convenience calls only on a fresh
    response -/
def wfOps : List ApiOp → (started : Bool) → Bool
  | [], _ => true
  | op :: ops, started =>
    match op with
    | .status c r => c ≥ 0 && (match r with | some x => !hasCRLF x | none => true) && wfOps ops started
    | .hdr n v _ => !n.isEmpty && !containsByte COLON n && !hasCRLF n && !hasCRLF v &&
                    (trim n == n) && wfOps ops started
    | .hdrs m =>
      m.all (fun e => !e.1.isEmpty && !containsByte COLON e.1 && !hasCRLF e.1 && !hasCRLF e.2 && trim e.1 == e.1) &&
      wfOps ops started
    | .wh => !started && wfOps ops true
    | .write _ => wfOps ops true
    | .err c r => !started && c ≥ 0 && (match r with | some x => !hasCRLF x | none => true) && wfOps ops true
    | .redir p _ => !started && !hasCRLF p && wfOps ops true
    | .json _ c => !started && c ≥ 0 && wfOps ops true
    | _ => wfOps ops started

def apiOps (sc : Scenario) : List ApiOp :=
  sc.events.filterMap fun e => match e with | .api o => some o | _ => none

def splitVals (vs : List Bytes) : List Bytes :=
  Http.sortBytes (vs.flatMap fun v => splitF [44, 32] (v.length + 1) none v)

/-- scenario shape: `new`, then API calls from idle context interleaved with acknowledgements. -/
def holds (env : Env) (sc : Scenario) (obs : List Obs) : Bool :=
  let ops := apiOps sc
  if !wfOps ops false then true else
  let spec := ops.foldl (Spec.step env.errPage) {}
  let wire := Obs.wire obs
  -- nothing after the library closed the transport
  Obs.countP Obs.isW (obs.dropWhile (fun o => !Obs.isTc o)) == 0 &&
  -- the convenience calls and close() shut the connection
  (if spec.closed then Obs.countP Obs.isTc obs == 1 else Obs.countP Obs.isTc obs == 0) &&
  (if !spec.started then wire.isEmpty else
   match Http.parse wire with
   | none => false
   | some m =>
     (match Http.statusLine m.start with
      | some st => (st.code : Int) == spec.code && st.reason == spec.reason
      | none => false) &&
     m.body == spec.body &&
     -- the same names, and under each name the same multiset of values
     (Http.names m.headers).all (fun n => (spec.values.any fun e => e.1 == n && !e.2.isEmpty)) &&
     spec.values.all (fun e => e.2.isEmpty ||
        Http.sortBytes (Http.valuesOf e.1 m.headers) == splitVals e.2))

end Qhttp.C03
