import Qhttp.Model.Http
import Qhttp.Lemmas.C03Wire
/-
  C03 — every response on the wire is exactly the status, headers and body that were set.
-/
namespace Qhttp.C03
open Qhttp

/-- the abstract response an API history denotes -/
structure Spec where
  code    : Int := 200
  reason  : Bytes := statusReason 200
  values  : List (Bytes × List Bytes) := []     -- case-folded name ↦ values in the order set
  started : Bool := false                       -- the head has been emitted
  closed  : Bool := false
  body    : Bytes := []
deriving Repr, Inhabited

def setVals (n : Bytes) (f : List Bytes → List Bytes) : List (Bytes × List Bytes) → List (Bytes × List Bytes)
  | [] => [(lower n, f [])]
  | (k, vs) :: m => if k == lower n then (k, f vs) :: m else (k, vs) :: setVals n f m

def Spec.status (s : Spec) (c : Int) (r : Option Bytes) : Spec :=
  { s with code := c, reason := match r with | some x => x | none => statusReason c }

/-- one API call on the abstract response; `page` is the error-page body for (code, reason) -/
def Spec.step (page : Int → Bytes → Bytes) (s : Spec) (op : ApiOp) : Spec :=
  if s.closed then s else
  match op with
  | .status c r => if s.started then s else s.status c r
  | .hdr n v true => if s.started then s else { s with values := setVals n (fun _ => [v]) s.values }
  | .hdr n v false => if s.started then s else { s with values := setVals n (fun vs => vs ++ [v]) s.values }
  | .hdrs m => if s.started then s else
      { s with values := m.foldl (fun acc e => setVals e.1 (fun vs => vs ++ [e.2]) acc) [] }
  | .wh => { s with started := true }
  | .write b => { s with started := true, body := s.body ++ b }
  | .err c r =>
    if s.started then { s with closed := true } else
    let s := s.status c r
    let body := page s.code s.reason
    { s with values := setVals Sock.CONTENT_TYPE (fun _ => [Sock.TEXT_HTML])
                        (setVals Sock.CONTENT_LENGTH (fun _ => [natDigits body.length]) s.values),
             started := true, closed := true, body := body }
  | .redir p perm =>
    if s.started then { s with closed := true } else
    let s := s.status (if perm then 301 else 302) none
    { s with values := setVals (lit ['L','o','c','a','t','i','o','n']) (fun _ => [p]) s.values,
             started := true, closed := true }
  | .json b c =>
    if s.started then { s with closed := true } else
    let s := s.status c none
    { s with values := setVals Sock.CONTENT_TYPE (fun _ => [Sock.APP_JSON])
                        (setVals Sock.CONTENT_LENGTH (fun _ => [natDigits b.length]) s.values),
             started := true, closed := true, body := b }
  | .close => { s with closed := true }
  | _ => s

def hasCRLF (x : Bytes) : Bool := containsByte CR x || containsByte LF x

/-- documented preconditions of the response API (outside them nothing is claimed):
    tokens free of CR/LF, names non-empty and colon-free, a non-negative status code,
    the head requested at most once and before any body byte, convenience calls only on a fresh
    response -/
def wfOps : List ApiOp → (started : Bool) → Bool
  | [], _ => true
  | op :: ops, started =>
    match op with
    | .status c r => c ≥ 0 && (match r with | some x => !hasCRLF x | none => true) && wfOps ops started
    | .hdr n v _ => !n.isEmpty && !containsByte COLON n && !hasCRLF n && !hasCRLF v &&
                    (trim n == n) && wfOps ops started
    | .hdrs m =>
      m.all (fun e => !e.1.isEmpty && !containsByte COLON e.1 && !hasCRLF e.1 && !hasCRLF e.2 && trim e.1 == e.1) &&
      wfOps ops started
    | .wh => !started && wfOps ops true
    | .write _ => wfOps ops true
    | .err c r => !started && c ≥ 0 && (match r with | some x => !hasCRLF x | none => true) && wfOps ops true
    | .redir p _ => !started && !hasCRLF p && wfOps ops true
    | .json _ c => !started && c ≥ 0 && wfOps ops true
    | _ => wfOps ops started

def apiOps (sc : Scenario) : List ApiOp :=
  sc.events.filterMap fun e => match e with | .api o => some o | _ => none

def splitVals (vs : List Bytes) : List Bytes :=
  Http.sortBytes (vs.flatMap fun v => splitF [44, 32] (v.length + 1) none v)

/-- scenario shape: `new`, then API calls from idle context interleaved with acknowledgements. -/
def holds (env : Env) (sc : Scenario) (obs : List Obs) : Bool :=
  let ops := apiOps sc
  if !wfOps ops false then true else
  let spec := ops.foldl (Spec.step env.errPage) {}
  let wire := Obs.wire obs
  -- nothing after the library closed the transport
  Obs.countP Obs.isW (obs.dropWhile (fun o => !Obs.isTc o)) == 0 &&
  -- the convenience calls and close() shut the connection
  (if spec.closed then Obs.countP Obs.isTc obs == 1 else Obs.countP Obs.isTc obs == 0) &&
  (if !spec.started then wire.isEmpty else
   match Http.parse wire with
   | none => false
   | some m =>
     (match Http.statusLine m.start with
      | some st => (st.code : Int) == spec.code && st.reason == spec.reason
      | none => false) &&
     m.body == spec.body &&
     -- the same names, and under each name the same multiset of values
     (Http.names m.headers).all (fun n => (spec.values.any fun e => e.1 == n && !e.2.isEmpty)) &&
     spec.values.all (fun e => e.2.isEmpty ||
        Http.sortBytes (Http.valuesOf e.1 m.headers) == splitVals e.2))

open Qhttp.HB Qhttp.Http Qhttp.C03L Qhttp.HeaderMap

/-! ## Proofs -/

/-! ### the abstract value table -/

/-- the values the abstract response holds under a case-folded name -/
def look (k : Bytes) : List (Bytes × List Bytes) → List Bytes
  | [] => []
  | (k', vs) :: m => if k' == k then vs else look k m

theorem look_setVals (n : Bytes) (f : List Bytes → List Bytes) (k : Bytes) (vals : List (Bytes × List Bytes)) :
    look k (setVals n f vals) = if k = lower n then f (look (lower n) vals) else look k vals := by
  induction vals with
  | nil =>
    simp only [setVals, look]
    by_cases h : k = lower n
    · simp [h]
    · have : ¬ lower n = k := fun e => h e.symm
      simp [h, this]
  | cons a vals ih =>
    obtain ⟨k', vs⟩ := a
    simp only [setVals]
    by_cases h1 : k' = lower n
    · subst h1
      by_cases h : k = lower n
      · subst h; simp [look]
      · have : ¬ lower n = k := fun e => h e.symm
        simp [look, h, this]
    · by_cases h : k = lower n
      · subst h; simp [look, h1, ih]
      · simp only [beq_iff_eq, h1, if_false, look, ih, h]

/-- keys are case-folded and distinct, every entry holds at least one value -/
def KeysOk (vals : List (Bytes × List Bytes)) : Prop :=
  (vals.map (·.1)).Nodup ∧ ∀ e ∈ vals, lower e.1 = e.1 ∧ e.2 ≠ []

theorem keys_setVals (n : Bytes) (f : List Bytes → List Bytes) (vals : List (Bytes × List Bytes)) (k : Bytes) :
    k ∈ (setVals n f vals).map (·.1) ↔ k = lower n ∨ k ∈ vals.map (·.1) := by
  induction vals with
  | nil => simp [setVals]
  | cons a vals ih =>
    obtain ⟨k', vs⟩ := a
    simp only [setVals]
    by_cases h1 : k' = lower n
    · subst h1; simp only [beq_self_eq_true, if_true, List.map_cons, List.mem_cons]
      constructor
      · intro h; rcases h with h | h
        · exact Or.inl h
        · exact Or.inr (Or.inr h)
      · intro h; rcases h with h | h | h
        · exact Or.inl h
        · exact Or.inl h
        · exact Or.inr h
    · simp only [beq_iff_eq, h1, if_false, List.map_cons, List.mem_cons, ih]
      constructor
      · intro h; rcases h with h | h | h
        · exact Or.inr (Or.inl h)
        · exact Or.inl h
        · exact Or.inr (Or.inr h)
      · intro h; rcases h with h | h | h
        · exact Or.inr (Or.inl h)
        · exact Or.inl h
        · exact Or.inr (Or.inr h)

theorem mem_setVals {n : Bytes} {f : List Bytes → List Bytes} {vals : List (Bytes × List Bytes)}
    {e : Bytes × List Bytes} (h : e ∈ setVals n f vals) : e ∈ vals ∨ (e.1 = lower n ∧ ∃ vs, e.2 = f vs) := by
  induction vals with
  | nil => simp only [setVals, List.mem_singleton] at h; subst h; exact Or.inr ⟨rfl, [], rfl⟩
  | cons a vals ih =>
    obtain ⟨k', vs⟩ := a
    simp only [setVals] at h
    by_cases h1 : k' = lower n
    · subst h1; simp only [beq_self_eq_true, if_true, List.mem_cons] at h
      rcases h with h | h
      · subst h; exact Or.inr ⟨rfl, vs, rfl⟩
      · exact Or.inl (by simp [h])
    · simp only [beq_iff_eq, h1, if_false, List.mem_cons] at h
      rcases h with h | h
      · exact Or.inl (by simp [h])
      · rcases ih h with h | h
        · exact Or.inl (by simp [h])
        · exact Or.inr h

theorem nodup_setVals (n : Bytes) (f : List Bytes → List Bytes) {vals : List (Bytes × List Bytes)}
    (h : (vals.map (·.1)).Nodup) : ((setVals n f vals).map (·.1)).Nodup := by
  induction vals with
  | nil => simp [setVals]
  | cons a vals ih =>
    obtain ⟨k', vs⟩ := a
    simp only [List.map_cons, List.nodup_cons] at h
    simp only [setVals]
    by_cases h1 : k' = lower n
    · subst h1; simp only [beq_self_eq_true, if_true, List.map_cons, List.nodup_cons]; exact h
    · simp only [beq_iff_eq, h1, if_false, List.map_cons, List.nodup_cons]
      refine ⟨?_, ih h.2⟩
      rw [keys_setVals]; intro hk; rcases hk with hk | hk
      · exact h1 hk
      · exact h.1 hk

theorem keysOk_setVals (n : Bytes) {f : List Bytes → List Bytes} (hf : ∀ vs, f vs ≠ [])
    {vals : List (Bytes × List Bytes)} (h : KeysOk vals) : KeysOk (setVals n f vals) := by
  refine ⟨nodup_setVals n f h.1, ?_⟩
  intro e he
  rcases mem_setVals he with he | ⟨h1, vs, h2⟩
  · exact h.2 e he
  · exact ⟨by rw [h1, lower_idem], by rw [h2]; exact hf vs⟩

theorem look_of_mem {vals : List (Bytes × List Bytes)} (h : (vals.map (·.1)).Nodup) {e : Bytes × List Bytes}
    (he : e ∈ vals) : look e.1 vals = e.2 := by
  induction vals with
  | nil => simp at he
  | cons a vals ih =>
    obtain ⟨k', vs⟩ := a
    simp only [List.map_cons, List.nodup_cons] at h
    rcases List.mem_cons.mp he with he | he
    · subst he; simp [look]
    · have : ¬ k' = e.1 := by
        intro e'; apply h.1; rw [e']; exact List.mem_map.mpr ⟨e, he, rfl⟩
      simp only [look, beq_iff_eq, this, if_false]
      exact ih h.2 he

theorem mem_of_look_ne_nil {k : Bytes} {vals : List (Bytes × List Bytes)} (h : look k vals ≠ []) :
    ∃ e ∈ vals, e.1 = k ∧ e.2 = look k vals := by
  induction vals with
  | nil => simp [look] at h
  | cons a vals ih =>
    obtain ⟨k', vs⟩ := a
    by_cases h1 : k' = k
    · subst h1; exact ⟨(k', vs), by simp, rfl, by simp [look]⟩
    · simp only [look, beq_iff_eq, h1, if_false] at h ⊢
      obtain ⟨e, he, h2, h3⟩ := ih h
      exact ⟨e, by simp [he], h2, h3⟩

/-! ### the header map denotes the value table -/

theorem splitVals_eq (l : List Bytes) : splitVals l = sortBytes (svals l) := rfl

/-- simulation relation between the response header multimap and the abstract value table:
    under every name the map carries, as a multiset of comma-separated values, exactly the
    values of the table -/
structure HdrRel (m : HeaderMap) (vals : List (Bytes × List Bytes)) : Prop where
  sorted : Sorted m
  wf : HdrWf m
  keys : KeysOk vals
  perm : ∀ n, (vs n m).Perm (svals (look (lower n) vals))

theorem hdrRel_nil : HdrRel [] [] :=
  ⟨List.Pairwise.nil, fun _ h => by simp at h, ⟨by simp, fun _ h => by simp at h⟩,
   fun n => by simp [vs, svals, look, HeaderMap.values]⟩

theorem keyEq_iff (a c : Bytes) : keyEq a c = true ↔ lower a = lower c := by simp [keyEq]

theorem hdrRel_replace {m : HeaderMap} {vals : List (Bytes × List Bytes)} (h : HdrRel m vals) {n v : Bytes}
    (he : EntryOk (n, v)) : HdrRel (hset n v true m) (setVals n (fun _ => [v]) vals) := by
  refine ⟨sorted_hset h.sorted, wf_hset h.wf he, keysOk_setVals n (by simp) h.keys, ?_⟩
  intro n'
  refine (vs_hset_replace n v n' m).trans ?_
  rw [look_setVals]
  by_cases hk : lower n = lower n'
  · rw [if_pos ((keyEq_iff _ _).mpr hk), if_pos hk.symm]; simp [svals]
  · rw [if_neg (fun e => hk ((keyEq_iff _ _).mp e)), if_neg (fun e => hk e.symm)]; exact h.perm n'

theorem hdrRel_append {m : HeaderMap} {vals : List (Bytes × List Bytes)} (h : HdrRel m vals) {n v : Bytes}
    (he : EntryOk (n, v)) : HdrRel (hset n v false m) (setVals n (fun vs => vs ++ [v]) vals) := by
  refine ⟨sorted_hset h.sorted, wf_hset h.wf he, keysOk_setVals n (by simp) h.keys, ?_⟩
  intro n'
  refine (vs_hset_append n v n' h.sorted).trans ?_
  rw [look_setVals]
  by_cases hk : lower n = lower n'
  · rw [if_pos ((keyEq_iff _ _).mpr hk), if_pos hk.symm, hk]
    simp only [svals, List.flatMap_append, List.flatMap_cons, List.flatMap_nil, List.append_nil]
    exact List.Perm.append_right _ (h.perm n')
  · rw [if_neg (fun e => hk ((keyEq_iff _ _).mp e)), if_neg (fun e => hk e.symm)]; exact h.perm n'

theorem hdrRel_insert {m : HeaderMap} {vals : List (Bytes × List Bytes)} (h : HdrRel m vals) {k v : Bytes}
    (he : EntryOk (k, v)) : HdrRel (HeaderMap.insert k v m) (setVals k (fun vs => vs ++ [v]) vals) := by
  refine ⟨sorted_insert h.sorted, wf_insert h.wf he, keysOk_setVals k (by simp) h.keys, ?_⟩
  intro n'
  refine (vs_insert k v n' m).trans ?_
  rw [look_setVals]
  by_cases hk : lower k = lower n'
  · rw [if_pos ((keyEq_iff _ _).mpr hk), if_pos hk.symm, hk]
    simp only [svals, List.flatMap_append, List.flatMap_cons, List.flatMap_nil, List.append_nil]
    exact List.perm_append_comm.trans (List.Perm.append_right _ (h.perm n'))
  · rw [if_neg (fun e => hk ((keyEq_iff _ _).mp e)), if_neg (fun e => hk e.symm)]; exact h.perm n'

theorem hdrRel_foldl (l : List (Bytes × Bytes)) (hl : ∀ e ∈ l, EntryOk e) :
    ∀ {m : HeaderMap} {vals : List (Bytes × List Bytes)}, HdrRel m vals →
    HdrRel (l.foldl (fun acc e => HeaderMap.insert e.1 e.2 acc) m)
           (l.foldl (fun acc e => setVals e.1 (fun vs => vs ++ [e.2]) acc) vals) := by
  induction l with
  | nil => intro m vals h; exact h
  | cons e l ih =>
    intro m vals h
    exact ih (fun e h => hl e (by simp [h])) (hdrRel_insert h (hl e (by simp)))

/-- what the executable predicate checks about the header block follows from the relation -/
theorem hdrRel_check {m : HeaderMap} {vals : List (Bytes × List Bytes)} (h : HdrRel m vals) :
    (Http.names m).all (fun n => vals.any fun e => e.1 == n && !e.2.isEmpty) = true ∧
    vals.all (fun e => e.2.isEmpty || Http.sortBytes (Http.valuesOf e.1 m) == splitVals e.2) = true := by
  constructor
  · rw [List.all_eq_true]
    intro n hn
    simp only [Http.names, List.mem_eraseDups, List.mem_map] at hn
    obtain ⟨a, ha, rfl⟩ := hn
    have hp := h.perm a.1
    have hne : vs a.1 m ≠ [] := by
      simp only [vs, ne_eq, svals_eq_nil]
      intro e
      have : a.2 ∈ HeaderMap.values a.1 m := by
        simp only [HeaderMap.values, List.mem_map, List.mem_filter]
        exact ⟨a, ⟨ha, by simp [keyEq]⟩, rfl⟩
      rw [e] at this; simp at this
    have hl : look (lower a.1) vals ≠ [] := by
      intro e; rw [e] at hp; simp only [svals, List.flatMap_nil] at hp
      exact hne (List.Perm.eq_nil hp)
    obtain ⟨e, he, h1, h2⟩ := mem_of_look_ne_nil hl
    rw [List.any_eq_true]
    refine ⟨e, he, ?_⟩
    simp only [Bool.and_eq_true, beq_iff_eq, Bool.not_eq_true', List.isEmpty_eq_false_iff]
    exact ⟨h1, by rw [h2]; exact hl⟩
  · rw [List.all_eq_true]
    intro e he
    have hp := h.perm e.1
    rw [(h.keys.2 e he).1, look_of_mem h.keys.1 he] at hp
    simp only [Bool.or_eq_true, beq_iff_eq]
    right
    rw [valuesOf_eq, splitVals_eq]
    exact sortBytes_perm hp

/-! ### preconditions, one call at a time -/

/-- the precondition `wfOps` puts on one call, given whether the head was already requested -/
def wfOp (op : ApiOp) (started : Bool) : Bool :=
  match op with
  | .status c r => c ≥ 0 && (match r with | some x => !hasCRLF x | none => true)
  | .hdr n v _ => !n.isEmpty && !containsByte COLON n && !hasCRLF n && !hasCRLF v && (trim n == n)
  | .hdrs m =>
    m.all (fun e => !e.1.isEmpty && !containsByte COLON e.1 && !hasCRLF e.1 && !hasCRLF e.2 && trim e.1 == e.1)
  | .wh => !started
  | .write _ => true
  | .err c r => !started && c ≥ 0 && (match r with | some x => !hasCRLF x | none => true)
  | .redir p _ => !started && !hasCRLF p
  | .json _ c => !started && c ≥ 0
  | _ => true

def nextSt (op : ApiOp) (started : Bool) : Bool :=
  match op with
  | .wh | .write _ | .err _ _ | .redir _ _ | .json _ _ => true
  | _ => started

theorem wfOps_cons (op : ApiOp) (ops : List ApiOp) (st : Bool) :
    wfOps (op :: ops) st = (wfOp op st && wfOps ops (nextSt op st)) := by
  cases op <;> simp [wfOps, wfOp, nextSt, Bool.and_assoc]
  all_goals (rename_i c r; cases r <;> rfl)

theorem nextSt_mono (op : ApiOp) {st : Bool} (h : st = true) : nextSt op st = true := by
  cases op <;> simp [nextSt, h]

theorem not_hasCRLF {x : Bytes} (h : hasCRLF x = false) : CR ∉ x := by
  simp only [hasCRLF, Bool.or_eq_false_iff] at h
  exact containsByte_eq_false.mp h.1

theorem not_mem_ite {p : Prop} [Decidable p] {a b : Bytes} {c : UInt8} (ha : c ∉ a) (hb : c ∉ b) :
    c ∉ (if p then a else b) := by split <;> assumption

theorem CR_not_mem_statusReason (c : Int) : CR ∉ statusReason c := by
  unfold statusReason
  repeat (refine not_mem_ite (by decide) ?_)
  decide

theorem reason_ok {c : Int} {r : Option Bytes}
    (h : (match r with | some x => !hasCRLF x | none => true) = true) :
    CR ∉ (match r with | some x => x | none => statusReason c) := by
  cases r with
  | none => exact CR_not_mem_statusReason c
  | some x => simp only [Bool.not_eq_true'] at h; exact not_hasCRLF h

theorem entryOk_of_wf {n v : Bytes}
    (h : (!n.isEmpty && !containsByte COLON n && !hasCRLF n && !hasCRLF v && (trim n == n)) = true) :
    EntryOk (n, v) := by
  simp only [Bool.and_eq_true, Bool.not_eq_true', List.isEmpty_eq_false_iff] at h
  obtain ⟨⟨⟨⟨h1, h2⟩, h3⟩, h4⟩, _⟩ := h
  exact ⟨h1, containsByte_eq_false.mp h2, not_hasCRLF h3, not_hasCRLF h4⟩

end Qhttp.C03
