import Qhttp.Model.Tls
/-
  C20 — with TLS configured, nothing is routed before a completed handshake (partial).
-/
namespace Qhttp.C20
open Qhttp Tls

def routedTargets (obs : List Obs) : List Bytes :=
  obs.filterMap fun o => match o with | .pr _ t => some t | _ => none

def clearHttp (obs : List Obs) : Bool :=
  obs.any fun o => match o with | .misc 41 b => startsWith (lit ['H','T','T','P','/']) b | _ => false

/-- what a client of the given kind did: `raw` sends bytes in the clear (never a handshake),
    `ssl` completes a handshake and sends one request for `target` -/
inductive Client
  | raw (bytes : Bytes)
  | ssl (target : Bytes)
deriving Repr, DecidableEq

/-- on the observations of one connection: on a TLS server a clear-text client never gets a
    handler or middleware invoked and never receives an HTTP response in clear text, and its
    connection is released; over a completed handshake (and on a plain server) a request is
    routed exactly as over plain TCP: once, with the same target -/
def holds (tls : Bool) (c : Client) (obs : List Obs) : Bool :=
  !obs.any Obs.isCrash &&
  (match tls, c with
   | true, .raw _ => routedTargets obs == [] && !clearHttp obs && obs.any (· == .misc 40 [1])
   | _, .ssl target => routedTargets obs == [target]
   | false, .raw _ => true)

/-! ## Theorems about the gate (every event sequence) -/

theorem routed_append_misc (l : List Obs) (t : Nat) (d : Bytes) :
    routedTargets (l ++ [.misc t d]) = routedTargets l := by
  simp [routedTargets, List.filterMap_append]

theorem routed_append_pr (l : List Obs) (n : Nat) (t : Bytes) :
    routedTargets (l ++ [.pr n t]) = routedTargets l ++ [t] := by
  simp [routedTargets, List.filterMap_append]

/-- invariant: on a TLS-configured server `process` has run only if the handshake completed;
    a request is routed only on a processed connection -/
def GInv (s : St) : Prop := (s.tls = true → s.processed = true → s.encrypted = true) ∧
  (s.routed = true → s.processed = true) ∧ (s.routed = false → routedTargets s.log = []) ∧
  (s.routed = true → s.connected = true)

theorem ginv_init (tls : Bool) : GInv { tls := tls } := by
  simp [GInv, routedTargets]

theorem ginv_step (s : St) (e : TEv) (h : GInv s) : GInv (step s e) := by
  obtain ⟨h1, h2, h3, h4⟩ := h
  cases e with
  | connect =>
    simp only [step]
    split
    · exact ⟨h1, h2, h3, h4⟩
    · rename_i hc
      refine ⟨?_, ?_, h3, fun _ => rfl⟩
      · intro ht hp
        have ht' : s.tls = true := ht
        have hp' : (!s.tls) = true := hp
        rw [ht'] at hp'; cases hp'
      · intro hr
        have hr' : s.routed = true := hr
        exact absurd (h4 hr') hc
  | clear b => exact ⟨h1, h2, h3, h4⟩
  | handshakeDone =>
    simp only [step]
    split
    · exact ⟨fun _ _ => rfl, fun _ => rfl, h3, h4⟩
    · exact ⟨h1, h2, h3, h4⟩
  | sslError =>
    simp only [step]
    split
    · exact ⟨h1, h2, fun hr => by rw [routed_append_misc]; exact h3 hr, h4⟩
    · exact ⟨h1, h2, h3, h4⟩
  | request t =>
    simp only [step]
    split
    · rename_i hc
      simp only [Bool.and_eq_true, Bool.not_eq_true'] at hc
      exact ⟨h1, fun _ => hc.1.1.2, fun hr => Bool.noConfusion hr, fun _ => hc.1.1.1⟩
    · exact ⟨h1, h2, h3, h4⟩
  | clientClose =>
    simp only [step]
    split
    · exact ⟨h1, h2, fun hr => by rw [routed_append_misc]; exact h3 hr, h4⟩
    · exact ⟨h1, h2, h3, h4⟩

theorem ginv_run (tls : Bool) (evs : List TEv) : GInv (run tls evs) := by
  unfold run
  have : ∀ s, GInv s → GInv (evs.foldl step s) := by
    induction evs with
    | nil => intro s h; exact h
    | cons e es ih => intro s h; exact ih _ (ginv_step s e h)
  exact this _ (ginv_init tls)

/-- `tls` never changes -/
theorem tls_const (s : St) (e : TEv) : (step s e).tls = s.tls := by
  cases e <;> simp only [step] <;> (try split) <;> rfl

theorem tls_run (tls : Bool) (evs : List TEv) : (run tls evs).tls = tls := by
  unfold run
  have : ∀ s, (evs.foldl step s).tls = s.tls := by
    induction evs with
    | nil => intro s; rfl
    | cons e es ih => intro s; rw [List.foldl_cons, ih, tls_const]
  exact this _

/-- encrypted is set only by `handshakeDone` -/
theorem encrypted_needs_handshake (tls : Bool) (evs : List TEv) (h : TEv.handshakeDone ∉ evs) :
    (run tls evs).encrypted = false := by
  unfold run
  have : ∀ s, s.encrypted = false → (evs.foldl step s).encrypted = false := by
    induction evs with
    | nil => intro s hs; exact hs
    | cons e es ih =>
      intro s hs
      have he : e ≠ .handshakeDone := fun hc => h (by simp [hc])
      have hes : TEv.handshakeDone ∉ es := fun hc => h (by simp [hc])
      apply ih hes
      cases e <;> simp only [step] <;> (try split) <;> simp_all
  exact this _ rfl

/-- **gate**: on a TLS-configured server, for every event sequence in which no handshake
    completes — whatever clear-text bytes arrive, in whatever order with connects, errors,
    requests and disconnects — nothing is ever routed -/
theorem gate (evs : List TEv) (h : TEv.handshakeDone ∉ evs) : routedTargets (run true evs).log = [] := by
  have hi := ginv_run true evs
  have ht := tls_run true evs
  have he := encrypted_needs_handshake true evs h
  obtain ⟨h1, h2, h3, _⟩ := hi
  cases hr : (run true evs).routed with
  | false => exact h3 hr
  | true =>
    have := h1 ht (h2 hr)
    rw [he] at this
    cases this

/-- after a completed handshake the connection routes a request exactly like a plain one -/
theorem same_routing (t : Bytes) :
    routedTargets (run true [.connect, .handshakeDone, .request t]).log =
    routedTargets (run false [.connect, .request t]).log := by
  simp [run, step, routedTargets]

/-- a failed handshake releases the connection -/
theorem error_releases (pre : List TEv) (h : (run true pre).connected = true) (hr : (run true pre).released = false) :
    (run true (pre ++ [.sslError])).released = true := by
  have ht := tls_run true pre
  simp only [run, List.foldl_append, List.foldl_cons, List.foldl_nil] at *
  simp [step, h, hr, ht]

example : holds true (.raw [1, 2]) (run true [.connect, .clear [1, 2], .request [47], .clientClose]).log = true := by decide
example : holds true (.ssl [47]) (run true [.connect, .handshakeDone, .request [47], .clientClose]).log = true := by decide

end Qhttp.C20
