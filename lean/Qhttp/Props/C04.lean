import Qhttp.Props.C01
import Qhttp.Model.Http
import Qhttp.Lemmas.C04Phase1
import Qhttp.Lemmas.C04Log
/-
  C04 — malformed requests get one 400 and are never routed, however they arrive.
-/
namespace Qhttp.C04
open Qhttp

/-- the first head of the stream is complete and not acceptable -/
def malformed (env : Env) (stream : Bytes) : Bool :=
  match C01.headOf stream with
  | none => false
  | some head => (C01.expect env head).isNone

def contentLengthOK (m : Http.Msg) : Bool :=
  match Http.valuesOf Sock.CONTENT_LENGTH m.headers with
  | [v] => v.all isDigit && !v.isEmpty && digitsVal v 0 == m.body.length
  | _ => false

/-- exactly one well-formed 400 whose Content-Length is its body length, the transport closed by
    the library after it, no notification, no routing, no crash -/
def holds (env : Env) (sc : Scenario) (obs : List Obs) : Bool :=
  if !malformed env (Scenario.fed sc.events) then true else
  Obs.countP Obs.isHp obs == 0 && Obs.countP Obs.isRouting obs == 0 &&
  Obs.countP Obs.isCrash obs == 0 &&
  (match Http.parse (Obs.wire obs) with
   | none => false
   | some m =>
     (match Http.statusLine m.start with | some st => st.code == 400 | none => false) &&
     contentLengthOK m) &&
  Obs.countP Obs.isTc obs == 1 &&
  -- nothing reaches the wire after the library closed the transport
  Obs.countP Obs.isW (obs.dropWhile (fun o => !Obs.isTc o)) == 0

end Qhttp.C04

/-! ## Theorems -/

namespace Qhttp.C04
open Qhttp

/-- observations an application `note` may record without touching what C04 looks at -/
def quietObs : Obs → Bool
  | .hp => false | .crash => false | .tc => false | .w _ => false
  | .mw _ _ => false | .rt _ _ => false | .pr _ _ => false | .slot _ _ => false
  | _ => true

def quietOp : ApiOp → Bool
  | .note o => quietObs o
  | _ => true

/-- the application class: arbitrary reactions (functions of the socket state) to every signal,
    making any API calls whatever (writes, closes, reads, ...); routing, `hp`, `crash`, `tc`, `w`
    are recorded by nobody but (possibly) the `headersParsed` slot, which is unconstrained. -/
structure AppOK (app : App) : Prop where
  rr  : ∀ s, (app.onRr s).all quietOp = true
  rcf : ∀ s, (app.onRcf s).all quietOp = true
  bw  : ∀ s, (app.onBw s).all quietOp = true
  dc  : ∀ s, (app.onDc s).all quietOp = true

/-- the events by which the request stream arrives -/
def arrival : Event → Bool
  | .prebuf _ => true | .new => true | .feed _ => true | .turn => true | _ => false

/-- anything that may happen afterwards -/
def lateEv : Event → Bool
  | .api op => quietOp op
  | _ => true

/-- every byte handed to the transport has been passed on to the Socket: after the last `prebuf`
    there is a `feed`, or a `turn` that runs the initial read queued by `new` -/
def flushedAux : (pending queued : Bool) → List Event → Bool
  | p, _, [] => !p
  | _, q, .prebuf _ :: r => flushedAux true q r
  | p, _, .new :: r => flushedAux p true r
  | _, q, .feed _ :: r => flushedAux false q r
  | p, q, .turn :: r => if q then flushedAux false false r else flushedAux p q r
  | p, q, _ :: r => flushedAux p q r

def flushed (evs : List Event) : Bool := flushedAux false false evs

/-! ### bridges to the model lemmas (`Qhttp/Lemmas/C04*.lean`) -/

open C04L

theorem quietObs_eq : quietObs = qObs := by
  funext o; cases o <;> rfl

theorem quietOp_eq : quietOp = qOp := by
  funext op; cases op <;> simp [quietOp, qOp, quietObs_eq]

theorem AppOK.toQ {app : App} (h : AppOK app) : AppQ app :=
  ⟨by simpa [quietOp_eq] using h.rr, by simpa [quietOp_eq] using h.rcf,
   by simpa [quietOp_eq] using h.bw, by simpa [quietOp_eq] using h.dc⟩

theorem lateEv_api {e : Event} (h : lateEv e = true) : ∀ op, e = .api op → qOp op = true := by
  intro op he
  subst he
  simpa [lateEv, quietOp_eq] using h

theorem arrival_api {e : Event} (h : arrival e = true) : ∀ op, e = .api op → qOp op = true := by
  intro op he
  subst he
  simp [arrival] at h

theorem fed_append (a c : List Event) :
    Scenario.fed (a ++ c) = Scenario.fed a ++ Scenario.fed c := by
  simp [Scenario.fed]

theorem fed_cons (e : Event) (c : List Event) :
    Scenario.fed (e :: c) = Scenario.fed [e] ++ Scenario.fed c := fed_append [e] c

/-- what `malformed` says: the first blank line ends a head the parser or `QUrl` rejects -/
theorem malformed_bad {env : Env} {stream : Bytes} (h : malformed env stream = true) :
    ∃ head rest, breakOn CRLF2 stream = some (head, rest) ∧ BadHead env head := by
  unfold malformed C01.headOf at h
  cases hb : breakOn CRLF2 stream with
  | none => simp [hb] at h
  | some p =>
    obtain ⟨head, rest⟩ := p
    refine ⟨head, rest, rfl, ?_⟩
    simp only [hb, Option.map_some] at h
    intro rh hrh
    unfold C01.expect at h
    rw [hrh] at h
    simp only at h
    cases hu : env.url rh.rawPath with
    | none => rfl
    | some pq => obtain ⟨p, q⟩ := pq; simp [hu] at h

/-- the response of phase 2 satisfies the predicate -/
theorem holds_of_done (env : Env) (sc : Scenario) (s : Sock) (h : Done (W400 env) s) :
    holds env sc s.log = true := by
  obtain ⟨f1, f2, f3, f4, f5, f6⟩ := h.2.2.facts
  have hd := natDigits_all (body400 env).length
  have hparse : Http.parse (Obs.wire s.log) =
      some (msg400 (natDigits (body400 env).length) (body400 env)) := by
    rw [f4]; exact parse_head400 _ _ hd
  have hcl : contentLengthOK (msg400 (natDigits (body400 env).length) (body400 env)) = true := by
    unfold contentLengthOK
    simp only [msg400, valuesOf_cl _ hd, hd, digitsVal_natDigits, Bool.true_and, beq_self_eq_true,
      Bool.and_true]
    have := natDigits_ne_nil (body400 env).length
    cases hn : natDigits (body400 env).length with
    | nil => exact absurd hn this
    | cons _ _ => rfl
  unfold holds
  split
  · rfl
  · rw [f1, f2, f3, f5, f6, hparse]
    simp only [msg400] at hcl
    simp only [msg400, statusLine_start400, hcl]
    rfl

/-- phase 1: arrival events on a fresh socket either answer 400 or leave it fresh; in the
    second case a flushed arrival means the whole stream has no blank line -/
theorem phase1 (env : Env) {app : App} (ha : AppQ app) (total : Bytes)
    (hbad : ∀ h r, breakOn CRLF2 total = some (h, r) → BadHead env h) :
    ∀ (arr : List Event) (sk : Sock × Nat) (p : Bool), arr.all arrival = true → Fresh sk.1 →
      (p = false → sk.1.tcp.inbox = []) →
      sk.1.readBuffer ++ sk.1.tcp.inbox ++ Scenario.fed arr = total →
      Done (W400 env) (arr.foldl (Sock.stepK env app) sk).1 ∨
      (flushedAux p sk.1.initPending arr = true → breakOn CRLF2 total = none) := by
  intro arr
  induction arr with
  | nil =>
    intro sk p _ hf hp htot
    right
    intro hfl
    simp [flushedAux] at hfl
    have := hp hfl
    rw [← htot, this]
    simpa [Scenario.fed] using hf.nobrk
  | cons e arr ih =>
    intro sk p harr hf hp htot
    simp only [List.all_cons, Bool.and_eq_true] at harr
    obtain ⟨he, harr⟩ := harr
    have hrest : ∀ e' ∈ arr, ∀ op, e' = .api op → qOp op = true := fun e' he' =>
      arrival_api (List.all_eq_true.mp harr e' he')
    have hpre : ∀ (buf tail : Bytes), buf ++ tail = total →
        ∀ h r, breakOn CRLF2 buf = some (h, r) → BadHead env h := by
      intro buf tail hbt h r hb
      apply hbad h (r ++ tail)
      rw [← hbt]; exact breakOn_append tail hb
    rw [fed_cons] at htot
    simp only [List.foldl_cons]
    have hsk : (Sock.stepK env app sk e).1 = Sock.step env app (marked sk) e :=
      stepK_alive env app sk e hf.alive
    have hm := hf.marked
    cases e with
    | prebuf bs =>
      obtain ⟨g1, g2, g3, g4⟩ := hm.step_prebuf env app bs
      rw [← hsk] at g1 g2 g3 g4
      have := ih (Sock.stepK env app sk (.prebuf bs)) true harr g1 (by simp)
        (by rw [g2, g3, ← htot]; simp [Scenario.fed])
      rw [g4] at this
      simpa [flushedAux] using this
    | new =>
      obtain ⟨g1, g2, g3, g4⟩ := hm.step_new env app
      rw [← hsk] at g1 g2 g3 g4
      have := ih (Sock.stepK env app sk .new) p harr g1 (by rw [g3]; simpa using hp)
        (by rw [g2, g3, ← htot]; simp [Scenario.fed])
      rw [g4] at this
      simpa [flushedAux] using this
    | feed seg =>
      have hb' := hpre (sk.1.readBuffer ++ (sk.1.tcp.inbox ++ seg)) (Scenario.fed arr)
        (by rw [← htot]; simp [Scenario.fed])
      rcases hm.step_feed env ha seg hb' with ⟨g1, g2, g3, g4⟩ | hd
      · rw [← hsk] at g1 g2 g3 g4
        have := ih (Sock.stepK env app sk (.feed seg)) false harr g1 (fun _ => g3)
          (by rw [g2, g3, ← htot]; simp [Scenario.fed])
        rw [g4] at this
        simpa [flushedAux] using this
      · left
        rw [← hsk] at hd
        exact Done.steps_ok env ha arr _ hd hrest
    | turn =>
      have hb' := hpre (sk.1.readBuffer ++ sk.1.tcp.inbox) (Scenario.fed arr)
        (by rw [← htot]; simp [Scenario.fed])
      rcases hm.step_turn env ha hb' with ⟨g1, g2, g3⟩ | hd
      · rw [← hsk] at g1 g2 g3
        cases hq : sk.1.initPending with
        | true =>
          simp only [marked_initPending, hq, if_true] at g3
          have := ih (Sock.stepK env app sk .turn) false harr g1 (fun _ => g3.2)
            (by rw [g3.1, g3.2, ← htot]; simp [Scenario.fed])
          rw [g2] at this
          simpa [flushedAux] using this
        | false =>
          simp only [marked_initPending, hq, Bool.false_eq_true, if_false] at g3
          have := ih (Sock.stepK env app sk .turn) p harr g1 (by rw [g3.2]; exact hp)
            (by rw [g3.1, g3.2, ← htot]; simp [Scenario.fed])
          rw [g2] at this
          simpa [flushedAux] using this
      · left
        rw [← hsk] at hd
        exact Done.steps_ok env ha arr _ hd hrest
    | ack n => simp [arrival] at he
    | ackAll => simp [arrival] at he
    | peerClose => simp [arrival] at he
    | api op => simp [arrival] at he

theorem fresh_init : Fresh ({} : Sock) :=
  ⟨rfl, rfl, rfl, rfl, rfl, rfl, rfl, rfl, rfl, by decide⟩

/-- General form: the stream arrives by any mix of `prebuf`/`new`/`feed`/`turn` that ends up
    delivering every byte; afterwards anything at all may happen. -/
theorem holds_run (env : Env) (app : App) (arr late : List Event)
    (happ : AppOK app)
    (harr : arr.all arrival = true) (hfl : flushed arr = true)
    (hmal : malformed env (Scenario.fed arr) = true)
    (hlate : late.all lateEv = true) :
    holds env ⟨app, arr ++ late⟩ (Scenario.run env ⟨app, arr ++ late⟩).log = true := by
  have ha := happ.toQ
  obtain ⟨head, rest, hbrk, hbh⟩ := malformed_bad hmal
  have hbad : ∀ h r, breakOn CRLF2 (Scenario.fed arr) = some (h, r) → BadHead env h := by
    intro h r hb
    rw [hbrk] at hb
    simp only [Option.some.injEq, Prod.mk.injEq] at hb
    rw [← hb.1]; exact hbh
  have hmid : Done (W400 env) (arr.foldl (Sock.stepK env app) (({} : Sock), 0)).1 := by
    rcases phase1 env ha (Scenario.fed arr) hbad arr (({} : Sock), 0) false harr fresh_init
      (fun _ => rfl) (by simp) with hd | hn
    · exact hd
    · have := hn hfl
      rw [hbrk] at this
      exact absurd this (by simp)
  apply holds_of_done
  show Done (W400 env) ((arr ++ late).foldl (Sock.stepK env app) (({} : Sock), 0)).1
  rw [List.foldl_append]
  exact Done.steps_ok env ha late _ hmid
    (fun e he => lateEv_api (List.all_eq_true.mp hlate e he))

/-! ### the shapes of the property statement -/

theorem fed_feeds (l : List Bytes) : Scenario.fed (l.map Event.feed) = l.flatten := by
  induction l with
  | nil => rfl
  | cons x l ih => rw [List.map_cons, fed_cons, ih]; simp [Scenario.fed]

theorem fed_prebufs (l : List Bytes) : Scenario.fed (l.map Event.prebuf) = l.flatten := by
  induction l with
  | nil => rfl
  | cons x l ih => rw [List.map_cons, fed_cons, ih]; simp [Scenario.fed]

theorem arrival_feeds (l : List Bytes) : (l.map Event.feed).all arrival = true := by
  simp [List.all_map, arrival]

theorem arrival_prebufs (l : List Bytes) : (l.map Event.prebuf).all arrival = true := by
  simp [List.all_map, arrival]

theorem flushedAux_feeds (q : Bool) (l : List Bytes) :
    flushedAux false q (l.map Event.feed) = true := by
  induction l with
  | nil => simp [flushedAux]
  | cons x l ih => simpa [flushedAux] using ih

theorem flushedAux_feeds_append (l : List Bytes) (rest : List Event) :
    ∀ (p q : Bool), ∃ p', flushedAux p q (l.map Event.feed ++ rest) = flushedAux p' q rest := by
  induction l with
  | nil => intro p q; exact ⟨p, rfl⟩
  | cons x l ih =>
    intro p q
    obtain ⟨p', hp'⟩ := ih false q
    exact ⟨p', by simpa [flushedAux] using hp'⟩

theorem flushedAux_prebufs_append (l : List Bytes) (rest : List Event) :
    ∀ (p q : Bool), ∃ p', flushedAux p q (l.map Event.prebuf ++ rest) = flushedAux p' q rest := by
  induction l with
  | nil => intro p q; exact ⟨p, rfl⟩
  | cons x l ih =>
    intro p q
    obtain ⟨p', hp'⟩ := ih true q
    exact ⟨p', by simpa [flushedAux] using hp'⟩

/-- The Socket exists before the first byte: every segmentation. -/
theorem holds_run_feeds (env : Env) (app : App) (segs : List Bytes) (late : List Event)
    (happ : AppOK app) (hmal : malformed env segs.flatten = true)
    (hlate : late.all lateEv = true) :
    let evs := Event.new :: segs.map Event.feed ++ late
    holds env ⟨app, evs⟩ (Scenario.run env ⟨app, evs⟩).log = true := by
  intro evs
  have hfed : Scenario.fed (Event.new :: segs.map Event.feed) = segs.flatten := by
    rw [fed_cons, fed_feeds]; rfl
  exact holds_run env app (Event.new :: segs.map Event.feed) late happ
    (by rw [List.all_cons, arrival_feeds]; rfl)
    (by simp only [flushed, flushedAux]; exact flushedAux_feeds true segs)
    (by rw [hfed]; exact hmal) hlate

/-- `k` leading segments are in the transport before the Socket is constructed; the queued
    initial read runs at a `turn` that comes after `j` more segments were fed (`j = 0`: at once). -/
theorem holds_run_prebuf (env : Env) (app : App) (segs : List Bytes) (k j : Nat) (late : List Event)
    (happ : AppOK app) (hmal : malformed env segs.flatten = true)
    (hlate : late.all lateEv = true) :
    let evs := (segs.take k).map Event.prebuf ++ [Event.new] ++
               ((segs.drop k).take j).map Event.feed ++ [Event.turn] ++
               ((segs.drop k).drop j).map Event.feed ++ late
    holds env ⟨app, evs⟩ (Scenario.run env ⟨app, evs⟩).log = true := by
  intro evs
  have hfed : Scenario.fed ((segs.take k).map Event.prebuf ++ [Event.new] ++
      ((segs.drop k).take j).map Event.feed ++ [Event.turn] ++
      ((segs.drop k).drop j).map Event.feed) = segs.flatten := by
    simp only [fed_append, fed_feeds, fed_prebufs]
    have h1 : Scenario.fed [Event.new] = [] := rfl
    have h2 : Scenario.fed [Event.turn] = [] := rfl
    rw [h1, h2, List.append_nil, List.append_nil, List.append_assoc, ← List.flatten_append,
      List.take_append_drop, ← List.flatten_append, List.take_append_drop]
  have hflu : flushed ((segs.take k).map Event.prebuf ++ [Event.new] ++
      ((segs.drop k).take j).map Event.feed ++ [Event.turn] ++
      ((segs.drop k).drop j).map Event.feed) = true := by
    have e : (segs.take k).map Event.prebuf ++ [Event.new] ++
        ((segs.drop k).take j).map Event.feed ++ [Event.turn] ++
        ((segs.drop k).drop j).map Event.feed =
        (segs.take k).map Event.prebuf ++ (Event.new ::
          (((segs.drop k).take j).map Event.feed ++ (Event.turn ::
            ((segs.drop k).drop j).map Event.feed))) := by
      simp only [List.append_assoc, List.cons_append, List.nil_append]
    rw [e, flushed]
    obtain ⟨p1, h1⟩ := flushedAux_prebufs_append (segs.take k) (Event.new ::
          (((segs.drop k).take j).map Event.feed ++ (Event.turn ::
            ((segs.drop k).drop j).map Event.feed))) false false
    rw [h1]
    simp only [flushedAux]
    obtain ⟨p2, h2⟩ := flushedAux_feeds_append ((segs.drop k).take j) (Event.turn ::
            ((segs.drop k).drop j).map Event.feed) p1 true
    rw [h2]
    simp only [flushedAux, if_true]
    exact flushedAux_feeds false _
  exact holds_run env app _ late happ
    (by simp only [List.all_append, arrival_feeds, arrival_prebufs]; rfl)
    hflu (by rw [hfed]; exact hmal) hlate

/-! ### non-vacuity -/

/-- an application with non-trivial reactions that is in the class `AppOK` -/
def appEx : App :=
  { onDc := fun _ => [.wh, .write [1, 2], .note .rcf],
    onBw := fun s => if s.closeCalled then [.close, .write [3]] else [.avail],
    onRcf := fun _ => [.err 500 none],
    onRr := fun _ => [.readAll, .note (.misc 1 [2])] }

example : AppOK appEx :=
  ⟨fun _ => rfl, fun _ => rfl, fun s => by simp only [appEx]; split <;> rfl, fun _ => rfl⟩

/-- every URL is valid; the error page itself contains a blank line -/
def envEx : Env := { url := fun p => some (p, []), errPage := fun _ _ => [60, 13, 10, 13, 10, 62] }

/-- `GET / HTTP/1.2` + blank line + one more byte: the version is not acceptable -/
def strmEx : Bytes :=
  lit ['G','E','T',' ','/',' ','H','T','T','P','/','1','.','2','\r','\n','\r','\n','x']

/-- the stream cut inside the blank line, the first part in the transport before the Socket
    exists; later the peer closes, bytes are acknowledged and the stream arrives once more -/
def scEx : Scenario :=
  { app := appEx,
    events := [.prebuf (strmEx.take 16), .new, .feed (strmEx.drop 16), .turn, .peerClose, .ack 3,
      .ackAll, .feed strmEx] }

example : malformed envEx strmEx = true := by decide
example : malformed envEx (Scenario.fed scEx.events) = true := by decide
example : holds envEx scEx (Scenario.run envEx scEx).log = true := by decide +kernel

/-- the hypotheses of `holds_run_prebuf` are satisfiable (`k = 1`, `j = 0`) -/
example :
    AppOK appEx ∧ malformed envEx [strmEx.take 16, strmEx.drop 16].flatten = true ∧
    [Event.peerClose, .ack 3, .ackAll, .feed strmEx, .api (.write [7]), .api (.note .rr)].all
      lateEv = true :=
  ⟨⟨fun _ => rfl, fun _ => rfl, fun s => by simp only [appEx]; split <;> rfl, fun _ => rfl⟩,
   by decide, by decide⟩

/-- and of `holds_run` for the events of `scEx` (`arr` = the first four) -/
example : (scEx.events.take 4).all arrival = true ∧ flushed (scEx.events.take 4) = true ∧
    malformed envEx (Scenario.fed (scEx.events.take 4)) = true ∧
    (scEx.events.drop 4).all lateEv = true := by decide

end Qhttp.C04
