import Qhttp.Props.C01
import Qhttp.Model.Http
/-
  C04 — malformed requests get one 400 and are never routed, however they arrive.
-/
namespace Qhttp.C04
open Qhttp

/-- the first head of the stream is complete and not acceptable -/
def malformed (env : Env) (stream : Bytes) : Bool :=
  match C01.headOf stream with
  | none => false
  | some head => (C01.expect env head).isNone

def contentLengthOK (m : Http.Msg) : Bool :=
  match Http.valuesOf Sock.CONTENT_LENGTH m.headers with
  | [v] => v.all isDigit && !v.isEmpty && digitsVal v 0 == m.body.length
  | _ => false

/-- exactly one well-formed 400 whose Content-Length is its body length, the transport closed by
    the library after it, no notification, no routing, no crash -/
def holds (env : Env) (sc : Scenario) (obs : List Obs) : Bool :=
  if !malformed env (Scenario.fed sc.events) then true else
  Obs.countP Obs.isHp obs == 0 && Obs.countP Obs.isRouting obs == 0 &&
  Obs.countP Obs.isCrash obs == 0 &&
  (match Http.parse (Obs.wire obs) with
   | none => false
   | some m =>
     (match Http.statusLine m.start with | some st => st.code == 400 | none => false) &&
     contentLengthOK m) &&
  Obs.countP Obs.isTc obs == 1 &&
  -- nothing reaches the wire after the library closed the transport
  Obs.countP Obs.isW (obs.dropWhile (fun o => !Obs.isTc o)) == 0

end Qhttp.C04
