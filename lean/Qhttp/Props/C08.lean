import Qhttp.Props.C07
import Qhttp.Props.C16
/-
  C08 — file responses are self-consistent full or partial content.
-/
namespace Qhttp.C08
open Qhttp FsHandler

def one (vs : List Bytes) : Option Bytes := match vs with | [v] => some v | _ => none

/-- the property's reading of a Range header for a file of `size` bytes: `some (a, b)` when the
    header is `bytes=` followed by a first element that is one of the three satisfiable forms -/
def specRange (hdr : Bytes) (size : Nat) : Option (Nat × Nat) :=
  if !startsWith BYTES_EQ hdr then none else
  match breakOn [44] (hdr.drop 6) with
  | first =>
    let el := match first with | some (a, _) => a | none => hdr.drop 6
    match C16.specText el with
    | none => none
    | some (f, t) =>
      if !C16.specValid f t size then none else
      if f < 0 then some ((size : Int) + f |>.toNat, size - 1)
      else if t < 0 then some (f.toNat, size - 1)
      else some (f.toNat, t.toNat)

/-- the served location is a file: the response is the whole file (200) or exactly the first
    range (206), self-consistent either way; a directory: the listing names every non-hidden
    entry and its Content-Length is its length (the latter through C03/C07) -/
def holds (fe : FsEnv) (path : Bytes) (rangeHdr : Bytes) (complete : Bool) (obs : List Obs) : Bool :=
  if !complete then true else
  match plan fe path [(RANGE, rangeHdr)] with
  | .file loc _ =>
    let file := fe.content loc
    let size := file.length
    (match Http.parse (Obs.wire obs) with
     | none => false
     | some m =>
       let code := (Http.statusLine m.start).map (·.code)
       let cl := one (Http.valuesOf Sock.CONTENT_LENGTH m.headers)
       let cr := Http.valuesOf CONTENT_RANGE m.headers
       match specRange rangeHdr size with
       | none => code == some 200 && cl == some (natDigits size) && m.body == file && cr == []
       | some (a, b) =>
         code == some 206 && a ≤ b && b < size &&
         cl == some (natDigits (b - a + 1)) &&
         cr == [BYTES_SP ++ natDigits a ++ [45] ++ natDigits b ++ [47] ++ natDigits size] &&
         m.body == (file.drop a).take (b - a + 1))
  | .dir _ _ =>
    (match Http.parse (Obs.wire obs) with
     | none => false
     | some m => one (Http.valuesOf Sock.CONTENT_LENGTH m.headers) == some (natDigits m.body.length))
  | .notFound => true

end Qhttp.C08
