import Qhttp.Props.C07
import Qhttp.Props.C16
import Qhttp.Props.C14
import Qhttp.Lemmas.C08Range
import Qhttp.Lemmas.C08Parse
/-
  C08 — file responses are self-consistent full or partial content.
-/
namespace Qhttp.C08
open Qhttp FsHandler

def one (vs : List Bytes) : Option Bytes := match vs with | [v] => some v | _ => none

/-- the property's reading of a Range header for a file of `size` bytes: `some (a, b)` when the
    header is `bytes=` followed by a first element that is one of the three satisfiable forms -/
def specRange (hdr : Bytes) (size : Nat) : Option (Nat × Nat) :=
  if !startsWith BYTES_EQ hdr then none else
  match breakOn [44] (hdr.drop 6) with
  | first =>
    let el := match first with | some (a, _) => a | none => hdr.drop 6
    match C16.specText el with
    | none => none
    | some (f, t) =>
      if !C16.specValid f t size then none else
      if f < 0 then some ((size : Int) + f |>.toNat, size - 1)
      else if t < 0 then some (f.toNat, size - 1)
      else some (f.toNat, t.toNat)

/-- the served location is a file: the response is the whole file (200) or exactly the first
    range (206), self-consistent either way; a directory: the listing names every non-hidden
    entry and its Content-Length is its length (the latter through C03/C07) -/
def holds (fe : FsEnv) (path : Bytes) (rangeHdr : Bytes) (complete : Bool) (obs : List Obs) : Bool :=
  if !complete then true else
  match plan fe path [(RANGE, rangeHdr)] with
  | .file loc _ =>
    let file := fe.content loc
    let size := file.length
    (match Http.parse (Obs.wire obs) with
     | none => false
     | some m =>
       let code := (Http.statusLine m.start).map (·.code)
       let cl := one (Http.valuesOf Sock.CONTENT_LENGTH m.headers)
       let cr := Http.valuesOf CONTENT_RANGE m.headers
       match specRange rangeHdr size with
       | none => code == some 200 && cl == some (natDigits size) && m.body == file && cr == []
       | some (a, b) =>
         code == some 206 && a ≤ b && b < size &&
         cl == some (natDigits (b - a + 1)) &&
         cr == [BYTES_SP ++ natDigits a ++ [45] ++ natDigits b ++ [47] ++ natDigits size] &&
         m.body == (file.drop a).take (b - a + 1))
  | .dir loc _ =>
    (match Http.parse (Obs.wire obs) with
     | none => false
     | some m =>
       one (Http.valuesOf Sock.CONTENT_LENGTH m.headers) == some (natDigits m.body.length) &&
       -- the listing names every non-hidden entry the directory has now
       C07.listsAll fe loc m.body)
  | .notFound => true

/-! ## Theorems -/

open C08L

theorem startsWith_ne_nil {hdr : Bytes} (h : startsWith BYTES_EQ hdr = true) : hdr.isEmpty = false := by
  cases hdr with
  | nil => exact absurd h (by decide)
  | cons c cs => rfl

/-- `processFile`'s derivation, with `split(',')[0]` written as "everything before the first comma" -/
theorem requestedRange_eq (hdr : Bytes) (size : Nat) :
    requestedRange hdr size =
      if startsWith BYTES_EQ hdr then Range.ofString (firstElem 44 (hdr.drop 6)) size
      else Range.invalid := by
  unfold requestedRange
  by_cases hs : startsWith BYTES_EQ hdr = true
  · rw [if_pos (by simp [hs, startsWith_ne_nil hs]), if_pos hs]
    obtain ⟨rest, hr⟩ := splitChar_first 44 (hdr.drop 6)
    rw [hr]
  · rw [if_neg (by simp [hs]), if_neg hs]

theorem specRange_eq (hdr : Bytes) (size : Nat) :
    specRange hdr size =
      if !startsWith BYTES_EQ hdr then none else
      match C16.specText (firstElem 44 (hdr.drop 6)) with
      | none => none
      | some (f, t) =>
        if !C16.specValid f t size then none else
        if f < 0 then some ((size : Int) + f |>.toNat, size - 1)
        else if t < 0 then some (f.toNat, size - 1)
        else some (f.toNat, t.toNat) := rfl

/-- 5. the Range object `processFile` builds is valid exactly when the property's own reading of
    the header yields a range, and then its absolute bounds are that range, with
    `0 ≤ from ≤ to < size` and `length = to − from + 1` (every header, every size). -/
theorem range_eq_spec (hdr : Bytes) (size : Nat) :
    (requestedRange hdr size).isValid = (specRange hdr size).isSome ∧
    ((requestedRange hdr size).isValid = true →
      specRange hdr size =
        some ((requestedRange hdr size).absFrom.toNat, (requestedRange hdr size).absTo.toNat) ∧
      0 ≤ (requestedRange hdr size).absFrom ∧
      (requestedRange hdr size).absFrom ≤ (requestedRange hdr size).absTo ∧
      (requestedRange hdr size).absTo < size ∧
      (requestedRange hdr size).length =
        (requestedRange hdr size).absTo - (requestedRange hdr size).absFrom + 1) := by
  rw [requestedRange_eq, specRange_eq]
  by_cases hs : startsWith BYTES_EQ hdr = true
  · rw [if_pos hs, if_neg (by simp [hs])]
    have hvt := C16.valid_iff_text (firstElem 44 (hdr.drop 6)) size
    cases hst : C16.specText (firstElem 44 (hdr.drop 6)) with
    | none =>
      rw [hst] at hvt
      simp only [] at hvt ⊢
      rw [hvt]; simp
    | some p =>
      obtain ⟨f, t⟩ := p
      rw [hst] at hvt
      simp only [] at hvt ⊢
      have hr := ofString_of_specText (size : Int) hst
      have hwf := specText_wf hst
      rw [hvt]
      cases hv : C16.specValid f t size with
      | false => simp
      | true =>
        simp only [Bool.not_true, Bool.false_eq_true, if_false]
        have hvalid : (Range.ofString (firstElem 44 (hdr.drop 6)) size).isValid = true := by
          rw [hvt]; exact hv
        obtain ⟨h0, h1, h2, h3, _⟩ :=
          C16.valid_known _ (C16.wf_ofString _ _) hvalid (by rw [hr]; exact Int.natCast_nonneg size)
        refine ⟨?_, fun _ => ⟨?_, h0, h1, by rw [hr] at h2 ⊢; exact h2, h3⟩⟩
        · split
          · rfl
          · split <;> rfl
        · obtain ⟨hfrom, hto, hsz, hlt⟩ := abs_of_valid f t size hwf hv
          rw [hr, hfrom, hto]
          by_cases hf : f < 0
          · have := hsz hf
            simp only [hf, if_true]
            congr 2
            omega
          · simp only [hf, if_false]
            by_cases ht : t < 0
            · simp only [ht, if_true]
              have := hlt (by omega)
              congr 2
              omega
            · simp only [ht, if_false]
  · rw [if_neg hs, if_pos (by simp [hs])]
    simp [C16.invalid_isValid]

/-- `requestedRange` stores the file size -/
theorem requestedRange_valid_size {hdr : Bytes} {size : Nat}
    (h : (requestedRange hdr size).isValid = true) : (requestedRange hdr size).size = size := by
  have h' := h
  rw [requestedRange_eq] at h ⊢
  by_cases hs : startsWith BYTES_EQ hdr = true
  · rw [if_pos hs] at h ⊢
    rw [C16.valid_iff_text] at h
    cases hst : C16.specText (firstElem 44 (hdr.drop 6)) with
    | none => rw [hst] at h; cases h
    | some p => obtain ⟨f, t⟩ := p; rw [ofString_of_specText _ hst]
  · rw [if_neg hs] at h; exact absurd h (by decide)

/-- what `plan` classifies as a file carries the range derived from the Range header and the
    file's size -/
theorem plan_file_range {fe : FsEnv} {path : Bytes} {hs : HeaderMap} {loc : List Bytes} {r : Range}
    (h : plan fe path hs = .file loc r) :
    r = requestedRange (HeaderMap.value RANGE hs) (fe.content loc).length := by
  unfold plan at h
  simp only [] at h
  split at h
  · cases h
  · split at h
    · cases h
    · cases h; rfl

/-- a header the property reads as the range `(a, b)`: the Range object is valid, its absolute
    bounds are `a` and `b`, and its `length()` / `contentRange()` texts are the expected ones -/
theorem range_texts {hdr : Bytes} {size a b : Nat} (hsp : specRange hdr size = some (a, b)) :
    (requestedRange hdr size).isValid = true ∧
    (requestedRange hdr size).absFrom = (a : Int) ∧ (requestedRange hdr size).absTo = (b : Int) ∧
    a ≤ b ∧ b < size ∧
    intText (requestedRange hdr size).length = natDigits (b - a + 1) ∧
    (requestedRange hdr size).contentRange =
      natDigits a ++ [45] ++ natDigits b ++ [47] ++ natDigits size := by
  obtain ⟨hiff, hval⟩ := range_eq_spec hdr size
  rw [hsp] at hiff
  have hv : (requestedRange hdr size).isValid = true := by simpa using hiff
  obtain ⟨hspec, h0, h1, h2, hlen⟩ := hval hv
  rw [hsp] at hspec
  simp only [Option.some.injEq, Prod.mk.injEq] at hspec
  obtain ⟨ha, hb⟩ := hspec
  have hsize := requestedRange_valid_size hv
  have hwf : C16.WF (requestedRange hdr size) := by
    rw [requestedRange_eq]
    split
    · exact C16.wf_ofString _ _
    · exact C16.wf_invalid
  have hcr := (C16.valid_known _ hwf hv (by rw [hsize]; omega)).2.2.2.2
  have hfa : (requestedRange hdr size).absFrom = (a : Int) := by omega
  have hfb : (requestedRange hdr size).absTo = (b : Int) := by omega
  refine ⟨hv, hfa, hfb, by omega, by omega, ?_, ?_⟩
  · rw [hlen, hfa, hfb]
    have : ((b : Int) - (a : Int) + 1) = ((b - a + 1 : Nat) : Int) := by omega
    rw [this, intText_nat]
  · rw [hcr, hfa, hfb, hsize, intText_nat, intText_nat, intText_nat]

theorem range_invalid {hdr : Bytes} {size : Nat} (hsp : specRange hdr size = none) :
    (requestedRange hdr size).isValid = false := by
  have := (range_eq_spec hdr size).1
  rw [hsp] at this
  simpa using this

/-- 6. shape of a file response: the API calls made from `headersParsed` and the copier
    configuration, in terms of the property's reading `specRange` of the Range header.
    Either no (valid first) range: `Content-Length: size`, the copier copies the whole file;
    or the range `(a, b)`: status 206, `Content-Length: b−a+1`, `Content-Range: bytes a-b/size`,
    and the copier is asked for exactly `file[a..b]` (`C14.wanted`). -/
theorem file_plan_shape (fe : FsEnv) (s : Sock) (loc : List Bytes) (r : Range)
    (hp : plan fe (s.path.drop 1) s.reqHeaders = .file loc r) :
    match specRange (HeaderMap.value RANGE s.reqHeaders) (fe.content loc).length with
    | none =>
      hpOps fe s =
        [.hdr Sock.CONTENT_LENGTH (natDigits (fe.content loc).length) true,
         .hdr Sock.CONTENT_TYPE (fe.mime loc) true, .wh] ∧
      copierCfg fe s = some { src := fe.content loc, block := 65536, range := none } ∧
      C14.wanted { src := fe.content loc, block := 65536, range := none } = fe.content loc
    | some (a, b) =>
      a ≤ b ∧ b < (fe.content loc).length ∧
      hpOps fe s =
        [.status 206 none, .hdr Sock.CONTENT_LENGTH (natDigits (b - a + 1)) true,
         .hdr CONTENT_RANGE (BYTES_SP ++ natDigits a ++ [45] ++ natDigits b ++ [47] ++
            natDigits (fe.content loc).length) true,
         .hdr Sock.CONTENT_TYPE (fe.mime loc) true, .wh] ∧
      copierCfg fe s =
        some { src := fe.content loc, block := 65536, range := some ((a : Int), (b : Int)) } ∧
      C14.wanted { src := fe.content loc, block := 65536, range := some ((a : Int), (b : Int)) } =
        ((fe.content loc).drop a).take (b - a + 1) := by
  have hr := plan_file_range hp
  unfold hpOps copierCfg
  rw [hp]
  simp only []
  cases hsp : specRange (HeaderMap.value RANGE s.reqHeaders) (fe.content loc).length with
  | none =>
    have hv : r.isValid = false := by rw [hr]; exact range_invalid hsp
    simp only [hv, Bool.false_eq_true, if_false, List.cons_append, List.nil_append, true_and]
    rfl
  | some p =>
    obtain ⟨a, b⟩ := p
    obtain ⟨hv, hfa, hfb, hab, hbs, hlt, hct⟩ := range_texts hsp
    rw [← hr] at hv hfa hfb hlt hct
    simp only [hv, if_true, List.cons_append, List.nil_append]
    refine ⟨hab, hbs, ?_, ?_, ?_⟩
    · rw [hlt, hct]
      simp [List.append_assoc]
    · rw [hfa, hfb]
    · rw [C14.wanted_fresh _ rfl]
      simp only []
      rw [if_neg (by omega), if_neg (by omega), if_neg (by omega)]
      simp only [Int.toNat_natCast]
      have : b + 1 - a = b - a + 1 := by omega
      rw [this]

/-! ### 7. the composed run -/

/-- **C08 on the composed run** (socket + `processFile` + copier), files not larger than one
    copy block.  Scenario shape: the socket is created, the whole request `head CRLF CRLF`
    arrives in one segment (a head `C01.expect` accepts, without Content-Length, any Range header
    or none), one event-loop turn, then any sequence of acknowledgements and further turns.
    The response then is the whole file with `Content-Length: size`, or exactly the first range
    with 206 / `Content-Range` / `Content-Length` consistent — the executable predicate the driver
    evaluates on implementation traces. -/
theorem holds_run (env : Env) (fe : FsEnv) (req head : Bytes) (snap : Snap) (loc : List Bytes)
    (r : Range) (tail : List Event) (complete : Bool)
    (hreq : breakOn CRLF2 req = some (head, []))
    (hexp : C01.expect env head = some snap)
    (hcl : HeaderMap.contains Sock.CONTENT_LENGTH snap.headers = false)
    (hplan : plan fe (snap.path.drop 1) snap.headers = .file loc r)
    (hsize : (fe.content loc).length ≤ 65536)
    (hmime : containsByte CR (fe.mime loc) = false)
    (htail : tail.all C03L.allowedEv = true) :
    holds fe (snap.path.drop 1) (HeaderMap.value RANGE snap.headers) complete
      (FsHandler.run env fe (.new :: .feed req :: .turn :: tail)).sock.log = true := by
  obtain ⟨rh, p, q, hparse, hurl, rfl⟩ := (C01.expect_eq_some_iff env head snap).1 hexp
  simp only at hcl hplan ⊢
  have hr := plan_file_range hplan
  have hm : CR ∉ fe.mime loc := containsByte_eq_false_iff.1 hmime
  have hbounds : r.isValid = true →
      0 ≤ r.absFrom ∧ r.absFrom ≤ r.absTo ∧ r.absTo < (fe.content loc).length := by
    intro hv
    rw [hr] at hv ⊢
    obtain ⟨_, h0, h1, h2, _⟩ := (range_eq_spec _ _).2 hv
    exact ⟨h0, h1, h2⟩
  have hwire := run_wire env fe req head rh p q loc r tail hreq hparse hurl hcl hplan hsize hbounds htail
  have hplan' : plan fe (p.drop 1) [(RANGE, HeaderMap.value RANGE rh.headers)] = .file loc r := by
    rw [plan_congr fe _ (value_RANGE_single _)]; exact hplan
  unfold holds
  cases complete with
  | false => rfl
  | true =>
    simp only [Bool.not_true, Bool.false_eq_true, if_false, hplan', hwire,
      parse_response r _ _ _ hm, statusLine_respStart]
    cases hsp : specRange (HeaderMap.value RANGE rh.headers) (fe.content loc).length with
    | none =>
      have hv : r.isValid = false := by rw [hr]; exact range_invalid hsp
      simp only [respHdrs, bodyOf, hv, Bool.false_eq_true, if_false]
      rw [valuesOf_CL_full _ _ (comma_not_mem_natDigits _), valuesOf_CR_full]
      simp [one]
    | some ab =>
      obtain ⟨a, b⟩ := ab
      obtain ⟨hv, hfa, hfb, hab, hbs, hlt, hct⟩ := range_texts hsp
      rw [← hr] at hv hfa hfb hlt hct
      simp only [respHdrs, bodyOf, hv, if_true, hlt, hct, hfa, hfb, Int.toNat_natCast]
      have hcomma := comma_not_mem_rangeText a b (fe.content loc).length
      have e : BYTES_SP ++ (natDigits a ++ [45] ++ natDigits b ++ [47] ++ natDigits (fe.content loc).length) =
          BYTES_SP ++ natDigits a ++ [45] ++ natDigits b ++ [47] ++ natDigits (fe.content loc).length := by
        simp [List.append_assoc]
      rw [e, valuesOf_CL_partial _ _ _ (comma_not_mem_natDigits _), valuesOf_CR_partial _ _ _ hcomma]
      simp [one, hab, hbs]

example : specRange (lit ['b','y','t','e','s','=','2','-','5',',','7','-']) 10 = some (2, 5) := by decide
example : specRange (lit ['b','y','t','e','s','=','-','3']) 10 = some (7, 9) := by decide
example : specRange (lit ['b','y','t','e','s','=','4','-']) 10 = some (4, 9) := by decide
example : specRange (lit ['b','y','t','e','s','=','4','-','1','0']) 10 = none := by decide
example : specRange (lit ['b','y','t','e','s','=','-','0']) 10 = none := by decide
example : specRange (lit ['i','t','e','m','s','=','1','-','2']) 10 = none := by decide
example : (requestedRange (lit ['b','y','t','e','s','=','2','-','5',',','7','-']) 10).isValid = true := by decide

/-- the directory clause on the composed run: the listing goes out with a Content-Length equal
    to its length (any listing oracle, any number of acknowledgements / turns afterwards) -/
theorem holds_run_dir (env : Env) (fe : FsEnv) (req head : Bytes) (snap : Snap) (loc : List Bytes)
    (d : Bytes) (tail : List Event) (complete : Bool)
    (hreq : breakOn CRLF2 req = some (head, []))
    (hexp : C01.expect env head = some snap)
    (hcl : HeaderMap.contains Sock.CONTENT_LENGTH snap.headers = false)
    (hplan : plan fe (snap.path.drop 1) snap.headers = .dir loc d)
    (hlist : C07.listsAll fe loc (fe.listing loc d) = true)
    (htail : tail.all C03L.allowedEv = true) :
    holds fe (snap.path.drop 1) (HeaderMap.value RANGE snap.headers) complete
      (FsHandler.run env fe (.new :: .feed req :: tail)).sock.log = true := by
  obtain ⟨rh, p, q, hparse, hurl, rfl⟩ := (C01.expect_eq_some_iff env head snap).1 hexp
  simp only at hcl hplan ⊢
  have hwire := run_wire_answered env fe req head rh p q 200 (lit ['O','K']) (dirHdrs (fe.listing loc d))
    (fe.listing loc d) tail hreq hparse hurl hcl (hpResult_dir env fe rh p q loc d hplan)
    (hpOps_dir (s := hpSock rh p q) hplan).2 htail
  have hplan' : plan fe (p.drop 1) [(RANGE, HeaderMap.value RANGE rh.headers)] = .dir loc d := by
    rw [plan_congr fe _ (value_RANGE_single _)]; exact hplan
  unfold holds
  cases complete with
  | false => rfl
  | true =>
    have hparse' := parse_answered 200 (lit ['O','K']) (dirHdrs (fe.listing loc d)) (fe.listing loc d)
      (by omega) (by decide) (entryOk_dirHdrs _)
    simp only [Bool.not_true, Bool.false_eq_true, if_false, hplan', hwire, hparse', valuesOf_CL_dirHdrs]
    simp [one, hlist]

/-- an unserved path: the predicate asks nothing of the response -/
theorem holds_notFound (fe : FsEnv) (path rangeHdr : Bytes) (complete : Bool) (obs : List Obs)
    (hplan : plan fe path [(RANGE, rangeHdr)] = .notFound) :
    holds fe path rangeHdr complete obs = true := by
  unfold holds
  cases complete with
  | false => rfl
  | true => simp only [Bool.not_true, Bool.false_eq_true, if_false, hplan]

/-- **C08 on the composed run, every outcome of `process`**: scenario shape `new`, the whole
    request in one `feed`, a turn, then any acknowledgements and turns; the request head is one
    `C01.expect` accepts, without Content-Length; if the path is served as a file, the file is not
    larger than one copy block and its MIME type name has no CR. -/
theorem holds_run_any (env : Env) (fe : FsEnv) (req head : Bytes) (snap : Snap) (tail : List Event)
    (complete : Bool)
    (hreq : breakOn CRLF2 req = some (head, []))
    (hexp : C01.expect env head = some snap)
    (hcl : HeaderMap.contains Sock.CONTENT_LENGTH snap.headers = false)
    (hfile : ∀ loc r, plan fe (snap.path.drop 1) snap.headers = .file loc r →
      (fe.content loc).length ≤ 65536 ∧ containsByte CR (fe.mime loc) = false)
    (hdir : ∀ loc d, plan fe (snap.path.drop 1) snap.headers = .dir loc d →
      C07.listsAll fe loc (fe.listing loc d) = true)
    (htail : tail.all C03L.allowedEv = true) :
    holds fe (snap.path.drop 1) (HeaderMap.value RANGE snap.headers) complete
      (FsHandler.run env fe (.new :: .feed req :: .turn :: tail)).sock.log = true := by
  cases hplan : plan fe (snap.path.drop 1) snap.headers with
  | notFound =>
    apply holds_notFound
    rw [plan_congr fe _ (value_RANGE_single _)]; exact hplan
  | dir loc d =>
    exact holds_run_dir env fe req head snap loc d (.turn :: tail) complete hreq hexp hcl hplan (hdir loc d hplan)
      (by rw [List.all_cons, htail]; rfl)
  | file loc r =>
    obtain ⟨h1, h2⟩ := hfile loc r hplan
    exact holds_run env fe req head snap loc r tail complete hreq hexp hcl hplan h1 h2 htail

/-! ### non-vacuity of `holds_run` -/

def exEnv : Env := { url := fun raw => some (raw, []), errPage := fun _ _ => [] }
def exFe : FsEnv :=
  { root := lit ['/','r'], tree := [([lit ['r']], .dir), ([lit ['r'], lit ['f']], .file)],
    content := fun _ => lit ['h','e','l','l','o',' ','w','o','r','l','d'],
    mime := fun _ => lit ['t','e','x','t','/','p','l','a','i','n'],
    listing := fun _ _ => [] }
def exHead : Bytes := lit ['G','E','T',' ','/','f',' ','H','T','T','P','/','1','.','1','\r','\n',
  'R','a','n','g','e',':',' ','b','y','t','e','s','=','2','-','5',',','7','-']
def exReq : Bytes := exHead ++ CRLF2
def exSnap : Snap :=
  { parsed := true, method := 2, rawPath := lit ['/','f'], path := lit ['/','f'], query := [],
    headers := [(lit ['R','a','n','g','e'], lit ['b','y','t','e','s','=','2','-','5',',','7','-'])], total := -1 }

-- the hypotheses of `holds_run` on a concrete request (`GET /f` with `Range: bytes=2-5,7-`)
example : breakOn CRLF2 exReq = some (exHead, []) := by decide
example : C01.expect exEnv exHead = some exSnap := by decide
theorem exPct : Fs.pctDecode (lit ['f']) = lit ['f'] := by
  simp [Fs.pctDecode, lit, b]
theorem exPlan : plan exFe (exSnap.path.drop 1) exSnap.headers =
    .file [lit ['r'], lit ['f']] (requestedRange (HeaderMap.value RANGE exSnap.headers) 11) := by
  unfold plan
  have : List.drop 1 exSnap.path = lit ['f'] := by decide
  rw [this, exPct]
  have h1 : Fs.served exFe.tree exFe.root (lit ['f']) = some [lit ['r'], lit ['f']] := by decide
  have h2 : Fs.kindAt exFe.tree [lit ['r'], lit ['f']] = some .file := by decide
  simp only [h1, h2]
  rfl

def exTail : List Event := [.turn, .turn, .turn, .turn, .ackAll, .turn]

/-- the theorem applies to the scenario shape the harness generates (`new feed turn×5 ackall turn`) -/
example :
    holds exFe (lit ['f']) (lit ['b','y','t','e','s','=','2','-','5',',','7','-']) true
      (FsHandler.run exEnv exFe (.new :: .feed exReq :: .turn :: exTail)).sock.log = true :=
  holds_run exEnv exFe exReq exHead exSnap _ _ exTail true (by decide) (by decide) (by decide) exPlan
    (by decide) (by decide) (by decide)

/-- and the bytes on the wire are the 206 response with bytes 2..5 of the file -/
example :
    Obs.wire (FsHandler.run exEnv exFe (.new :: .feed exReq :: .turn :: exTail)).sock.log =
      lit ['H','T','T','P','/','1','.','0',' ','2','0','6',' ','P','A','R','T','I','A','L',' ','C','O','N','T','E','N','T','\r','\n',
           'C','o','n','t','e','n','t','-','L','e','n','g','t','h',':',' ','4','\r','\n',
           'C','o','n','t','e','n','t','-','R','a','n','g','e',':',' ','b','y','t','e','s',' ','2','-','5','/','1','1','\r','\n',
           'C','o','n','t','e','n','t','-','T','y','p','e',':',' ','t','e','x','t','/','p','l','a','i','n','\r','\n','\r','\n',
           'l','l','o',' '] := by
  have hb : (requestedRange (HeaderMap.value RANGE exSnap.headers) 11).isValid = true →
      0 ≤ (requestedRange (HeaderMap.value RANGE exSnap.headers) 11).absFrom ∧
      (requestedRange (HeaderMap.value RANGE exSnap.headers) 11).absFrom ≤
        (requestedRange (HeaderMap.value RANGE exSnap.headers) 11).absTo ∧
      (requestedRange (HeaderMap.value RANGE exSnap.headers) 11).absTo < (11 : Nat) := by decide
  rw [C08L.run_wire exEnv exFe exReq exHead ⟨2, lit ['/','f'], exSnap.headers⟩ (lit ['/','f']) [] _ _ exTail
    (by decide) (by decide) (by decide) (by decide) exPlan (by decide) hb (by decide)]
  decide

end Qhttp.C08
