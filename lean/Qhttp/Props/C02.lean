import Qhttp.Props.C01
import Qhttp.Lemmas.C02Run
import Qhttp.Lemmas.C02Close
import Qhttp.Lemmas.C02C01
import Qhttp.Lemmas.C02First
import Qhttp.Lemmas.BytesLemmas
/-
  C02 — the request body reaches the reader intact under every segmentation.
-/
namespace Qhttp.C02
open Qhttp

/-- the declared request: head accepted with `Content-Length: N`, `N ≥ 0`; `rest` is everything
    the client sent after the blank line -/
structure Req where
  headLen : Nat
  n       : Nat
  rest    : Bytes
deriving Repr

def req (env : Env) (stream : Bytes) : Option Req :=
  match breakOn CRLF2 stream with
  | none => none
  | some (head, rest) =>
    match C01.expect env head with
    | none => none
    | some f => if f.total < 0 then none else some { headLen := head.length + 4, n := f.total.toNat, rest := rest }

def entitled (r : Req) : Bytes := r.rest.take r.n

def evBytes (evs : List Event) (k : Nat) : Nat :=
  match evs[k]? with
  | some (.feed b) => b.length
  | some (.prebuf b) => b.length
  | _ => 0

/-- walk the history keeping: bytes fed so far, whether `hp` was seen, the last `av`;
    returns false as soon as a clause fails -/
def walk (evs : List Event) (r : Req) : List Obs → (fed : Nat) → (hp : Bool) → (lastAv : Option Nat) → Bool
  | [], _, _, _ => true
  | o :: l, fed, hp, lastAv =>
    match o with
    | .ev k => walk evs r l (fed + evBytes evs k) hp none
    | .hp => walk evs r l fed true none
    | .av n => walk evs r l fed hp (some n)
    | .rd b =>
      -- nothing readable before headersParsed; bytesAvailable is exact for the read that follows
      (hp || b.isEmpty) && (match lastAv with | some n => b.length == n | none => true) &&
        walk evs r l fed hp none
    | .rcf => (fed ≥ r.headLen + r.n) && walk evs r l fed hp none
    | _ => walk evs r l fed hp none

/-- the connection was ended (by the application, a handler or the peer) during the history -/
def ended (sc : Scenario) (obs : List Obs) : Bool :=
  obs.any Obs.isTc || sc.events.any fun e => match e with | .peerClose => true | _ => false

/-- scenario shape: the Socket is created first, then the stream is fed in segments; the reader
    uses `read n`, `readAll` and `avail` (the latter always directly followed by `readAll`). -/
def holds (env : Env) (sc : Scenario) (obs : List Obs) : Bool :=
  match req env (Scenario.fed sc.events) with
  | none => true
  | some r =>
    (Obs.reads obs).isPrefixOf (entitled r) &&
    Obs.countP Obs.isHp obs ≤ 1 && Obs.countP Obs.isRcf obs ≤ 1 &&
    walk sc.events r obs 0 false none &&
    -- left to run with a reader that drains at the end: everything, and both notifications
    (if !ended sc obs && r.rest.length ≥ r.n &&
        (match sc.events.getLast? with | some (.api .readAll) => true | _ => false)
     then Obs.reads obs == entitled r && Obs.countP Obs.isHp obs == 1 && Obs.countP Obs.isRcf obs == 1
     else true) &&
    -- arrived bytes stay readable: a reader that drains at the end has everything that arrived of the body,
    -- however much of it that is
    (if !ended sc obs && (match sc.events.getLast? with | some (.api .readAll) => true | _ => false)
     then Obs.reads obs == entitled r && Obs.countP Obs.isHp obs == 1
     else true)

/-! ## Theorems

  The proofs live in `Qhttp/Lemmas/C02*.lean`: `Mid` is what holds whenever application code can
  run, `RInv` what holds between two external events, both stated against the bytes delivered so
  far; `run_inv` is the induction over the event list. -/

theorem walk_eq (evs : List Event) (r : Req) :
    ∀ l f h a, walk evs r l f h a = walkL evs r.headLen r.n l f h a := by
  intro l
  induction l with
  | nil => intro f h a; rfl
  | cons o l ih =>
    intro f h a
    cases o <;> simp [walk, walkL, ih, evBytes, evLen] <;> rfl

/-- `C01.expect` accepting the head with a declared length `N ≥ 0` is `Acc` -/
theorem acc_of_expect {env : Env} {head : Bytes} {f : Snap} {N : Nat}
    (hf : C01.expect env head = some f) (hN : f.total = (N : Int)) : Acc env head N := by
  unfold C01.expect at hf
  split at hf
  · exact absurd hf (by simp)
  · rename_i rh hp
    split at hf
    · exact absurd hf (by simp)
    · rename_i p q hu
      simp only [Option.some.injEq] at hf
      subst hf
      simp only at hN
      refine ⟨rh, p, q, hp, hu, ?_, ?_⟩
      · by_cases hc : HeaderMap.contains Sock.CONTENT_LENGTH rh.headers = true
        · exact hc
        · simp [hc] at hN
      · by_cases hc : HeaderMap.contains Sock.CONTENT_LENGTH rh.headers = true
        · simp only [hc, if_true] at hN
          exact hN
        · simp [hc] at hN

/-- what `req` returning a request means -/
theorem req_some {env : Env} {stream : Bytes} {r : Req} (h : req env stream = some r) :
    ∃ head, breakOn CRLF2 stream = some (head, r.rest) ∧ Acc env head r.n ∧ r.headLen = head.length + 4 := by
  unfold req at h
  split at h
  · exact absurd h (by simp)
  · rename_i head rest hb
    split at h
    · exact absurd h (by simp)
    · rename_i f hf
      split at h
      · exact absurd h (by simp)
      · rename_i hneg
        simp only [Option.some.injEq] at h
        subst h
        exact ⟨head, hb, acc_of_expect hf (by simp only; omega), rfl⟩

theorem okEvent_of_shape {evs : List Event} (h : readerEvents evs = true) : ∀ e ∈ evs, okEvent e = true := by
  unfold readerEvents at h
  split at h
  · rename_i rest
    intro e he
    rcases List.mem_cons.mp he with rfl | he
    · rfl
    · have := List.all_eq_true.mp h e he
      simp [okEvent, this]
  · exact absurd h (by simp)

/-- `holds` from its clauses -/
theorem holds_of_facts (env : Env) (sc : Scenario) (obs : List Obs) (r : Req)
    (hreq : req env (Scenario.fed sc.events) = some r)
    (h1 : Obs.reads obs <+: entitled r)
    (h2 : Obs.countP Obs.isHp obs ≤ 1) (h3 : Obs.countP Obs.isRcf obs ≤ 1)
    (h4 : walk sc.events r obs 0 false none = true)
    (h5 : r.rest.length ≥ r.n → sc.events.getLast? = some (.api .readAll) →
            Obs.reads obs = entitled r ∧ Obs.countP Obs.isHp obs = 1 ∧ Obs.countP Obs.isRcf obs = 1)
    (h6 : sc.events.getLast? = some (.api .readAll) →
            Obs.reads obs = entitled r ∧ Obs.countP Obs.isHp obs = 1) :
    holds env sc obs = true := by
  unfold holds
  rw [hreq]
  have e1 : (Obs.reads obs).isPrefixOf (entitled r) = true := List.isPrefixOf_iff_prefix.mpr h1
  simp only [e1, h2, h3, h4, decide_true, Bool.and_self, Bool.true_and]
  split
  · rename_i hl
    obtain ⟨g1, g2⟩ := h6 hl
    by_cases hN : r.rest.length ≥ r.n
    · obtain ⟨f1, f2, f3⟩ := h5 hN hl
      simp [f1, f2, f3]
    · simp [hN, g1, g2]
  · simp

/-- **C02, main theorem.** For every environment, every reader application (arbitrary reactions
    made of `read n`, `readAll`, `avail; readAll`, chosen as a function of the socket state) and
    every scenario `new :: (feed seg | turn | idle-context read)*` — i.e. every segmentation of
    every stream and every reader policy — the executable predicate holds on the model's run. -/
theorem holds_run (env : Env) (app : App) (happ : ReaderApp app) (evs : List Event)
    (hshape : readerEvents evs = true) :
    holds env ⟨app, evs⟩ (Scenario.run env ⟨app, evs⟩).log = true := by
  cases hreq : req env (Scenario.fed evs) with
  | none => unfold holds; simp only [hreq]
  | some r =>
    obtain ⟨head, hfin, acc, hhl⟩ := req_some hreq
    have hok := okEvent_of_shape hshape
    have hR : RInv evs head r.n (Scenario.fed evs) (Sock.run env app evs) :=
      run_inv env app happ acc r.rest hfin evs [] (by simp) hok
    have hpre := hR.reads_prefix hfin (List.prefix_refl _)
    obtain ⟨chp, crcf, cwalk, ctc⟩ := hR.counts
    refine holds_of_facts env ⟨app, evs⟩ _ r hreq hpre ?_ ?_ ?_ ?_ ?_
    · show Obs.countP Obs.isHp (Sock.run env app evs).log ≤ 1
      rw [chp]; split <;> omega
    · show Obs.countP Obs.isRcf (Sock.run env app evs).log ≤ 1
      rw [crcf]; split <;> omega
    · show walk evs r (Sock.run env app evs).log 0 false none = true
      rw [walk_eq, hhl]; exact cwalk
    · intro hN hl
      obtain ⟨pre, hpe⟩ := List.getLast?_eq_some_iff.mp hl
      have hpe : evs = pre ++ [.api .readAll] := hpe
      have hRp : RInv evs head r.n (Scenario.fed pre) (Sock.run env app pre) :=
        run_inv env app happ acc r.rest hfin pre [.api .readAll] hpe
          (fun e he => hok e (by rw [hpe]; simp [he]))
      have hfp : Scenario.fed pre = Scenario.fed evs := by
        rw [hpe, fed_append, fed_single]; simp [evBytesOf]
      rw [hfp] at hRp
      have hrun : Sock.run env app evs =
          (Sock.stepK env app (Sock.run env app pre, (pre.foldl (Sock.stepK env app) ({}, 0)).2)
            (.api .readAll)).1 := by
        rw [hpe]; simp [Sock.run, List.foldl_append]
      obtain ⟨f1, f2, f3⟩ := hRp.final_readAll env app hfin hN (pre.foldl (Sock.stepK env app) ({}, 0)).2
      rw [← hrun] at f1 f2 f3
      exact ⟨f1, f2, f3⟩
    · intro hl
      obtain ⟨pre, hpe⟩ := List.getLast?_eq_some_iff.mp hl
      have hpe : evs = pre ++ [.api .readAll] := hpe
      have hRp : RInv evs head r.n (Scenario.fed pre) (Sock.run env app pre) :=
        run_inv env app happ acc r.rest hfin pre [.api .readAll] hpe
          (fun e he => hok e (by rw [hpe]; simp [he]))
      have hfp : Scenario.fed pre = Scenario.fed evs := by
        rw [hpe, fed_append, fed_single]; simp [evBytesOf]
      rw [hfp] at hRp
      have hrun : Sock.run env app evs =
          (Sock.stepK env app (Sock.run env app pre, (pre.foldl (Sock.stepK env app) ({}, 0)).2)
            (.api .readAll)).1 := by
        rw [hpe]; simp [Sock.run, List.foldl_append]
      obtain ⟨f1, f2⟩ := hRp.final_readAll_partial env app hfin (pre.foldl (Sock.stepK env app) ({}, 0)).2
      rw [← hrun] at f1 f2
      exact ⟨f1, f2⟩

/-! ## The property in plain terms

  `Stream env head N rest evs`: the scenario has the reader shape and its byte stream is an
  accepted head declaring `N ≥ 0` body bytes, the first blank line, and `rest` (the body and
  whatever follows it).  Every statement is about *every prefix* `pre` of the event list, i.e.
  about every point of every run under every segmentation. -/

structure Stream (env : Env) (head : Bytes) (N : Nat) (rest : Bytes) (evs : List Event) : Prop where
  shape : readerEvents evs = true
  fed : Scenario.fed evs = head ++ CRLF2 ++ rest
  /-- the blank line after `head` is the first one in the stream -/
  first : ¬ CRLF2 <:+: head ++ CRLF2.dropLast
  accepted : ∃ f, C01.expect env head = some f ∧ f.total = (N : Int)

section plain
variable {env : Env} {app : App} {head rest : Bytes} {N : Nat} {evs : List Event}

/-- `first` follows from `accepted` (an accepted head contains no blank line) -/
theorem Stream.of_accepted (shape : readerEvents evs = true) (fed : Scenario.fed evs = head ++ CRLF2 ++ rest)
    (accepted : ∃ f, C01.expect env head = some f ∧ f.total = (N : Int)) : Stream env head N rest evs :=
  ⟨shape, fed, first_of_accepted env head (by obtain ⟨f, hf, _⟩ := accepted; rw [hf]; rfl), accepted⟩

theorem Stream.brk (h : Stream env head N rest evs) :
    breakOn CRLF2 (Scenario.fed evs) = some (head, rest) := by
  rw [h.fed]; exact breakOn_of_not_infix rest (by decide) h.first

theorem Stream.inv (h : Stream env head N rest evs) (happ : ReaderApp app) (pre post : List Event)
    (hevs : evs = pre ++ post) :
    RInv evs head N (Scenario.fed pre) (Sock.run env app pre) ∧ Scenario.fed pre <+: Scenario.fed evs := by
  obtain ⟨f, hf, hN⟩ := h.accepted
  refine ⟨run_inv env app happ (acc_of_expect hf hN) rest h.brk pre post hevs
    (fun e he => okEvent_of_shape h.shape e (by rw [hevs]; simp [he])), ?_⟩
  rw [hevs, fed_append]; exact List.prefix_append _ _

/-- while the state is `headers`, fewer than `|head| + 4` bytes have arrived -/
theorem arrived_lt_of_headers {fed : Bytes} {s : Sock} (h : Stream env head N rest evs)
    (hR : RInv evs head N fed s) (hpre : fed <+: Scenario.fed evs) (hrs : s.rs = .headers) :
    fed.length < head.length + 4 := by
  obtain ⟨a, hb, B, hm, _, hrel⟩ := hR
  have hnone := (hrel.1 hrs).2
  apply Nat.lt_of_not_le
  intro hle
  have h1 : head ++ CRLF2 <+: Scenario.fed evs := by rw [h.fed]; exact List.prefix_append _ _
  have h2 : head ++ CRLF2 <+: fed :=
    List.prefix_of_prefix_length_le h1 hpre (by simp [CRLF2_length]; omega)
  obtain ⟨t, ht⟩ := h2
  exact breakOn_none hnone ⟨head, t, ht⟩

/-- **nothing lost, duplicated, reordered, nothing beyond `N`; arrived bytes stay readable.**
    At every point between two events, what the reader has obtained so far followed by what
    `readAll()` would return now is exactly the first `min N arrived` bytes after the blank line. -/
theorem readable_exact (h : Stream env head N rest evs) (happ : ReaderApp app)
    (pre post : List Event) (hevs : evs = pre ++ post) :
    Obs.reads (Sock.run env app pre).log ++ (Sock.readAll (Sock.run env app pre)).2 =
      ((Scenario.fed pre).drop (head.length + 4)).take N := by
  obtain ⟨hR, hpre⟩ := h.inv happ pre post hevs
  by_cases hrs : (Sock.run env app pre).rs = .headers
  · have hlt := arrived_lt_of_headers h hR hpre hrs
    obtain ⟨a, hb, B, hm, _, _⟩ := hR
    obtain ⟨_, _, _, e4, e5, _⟩ := hm.hdr hrs
    rw [readAll_headers _ hrs e4, e5, List.drop_of_length_le (by omega)]; simp
  · obtain ⟨rest', t, e1, _, e3, _⟩ := hR.rest_eq h.brk hpre hrs
    obtain ⟨a, hb, B, hm, _, _⟩ := hR
    rw [readAll_data _ hm.ioOpen hrs, e1]
    have : (head ++ CRLF2 ++ rest').drop (head.length + 4) = rest' := by
      apply List.drop_left'; simp [CRLF2_length]
    rw [this, ← e3]; simp

/-- **reads form a prefix of the entitled body**, at every point of the run -/
theorem reads_prefix (h : Stream env head N rest evs) (happ : ReaderApp app)
    (pre post : List Event) (hevs : evs = pre ++ post) :
    Obs.reads (Sock.run env app pre).log <+: rest.take N := by
  obtain ⟨hR, hpre⟩ := h.inv happ pre post hevs
  exact hR.reads_prefix h.brk hpre

/-- **`bytesAvailable()` is exact** (state form): at every point between two events it equals the
    length of what an immediate `readAll()` returns -/
theorem avail_exact (h : Stream env head N rest evs) (happ : ReaderApp app)
    (pre post : List Event) (hevs : evs = pre ++ post) :
    Sock.bytesAvailable (Sock.run env app pre) = (Sock.readAll (Sock.run env app pre)).2.length :=
  (h.inv happ pre post hevs).1.avail_exact

/-- **`bytesAvailable()` is exact** (history form, covers calls made inside reactions): an answer
    `n` directly followed by a read is followed by a read of exactly `n` bytes -/
theorem avail_exact_log (h : Stream env head N rest evs) (happ : ReaderApp app)
    (l1 l2 : List Obs) (n : Nat) (b : Bytes)
    (hlog : (Sock.run env app evs).log = l1 ++ Obs.av n :: Obs.rd b :: l2) : b.length = n := by
  obtain ⟨hR, _⟩ := h.inv happ evs [] (by simp)
  have hw := hR.counts.2.2.1
  rw [hlog] at hw
  exact walkL_av_rd _ _ _ _ _ _ _ hw

/-- **completeness**: the whole body was delivered (nobody closed anything: the shape has no
    close) and the reader ends with `readAll()`: it has read exactly the first `N` bytes after the
    blank line -/
theorem complete (h : Stream env head N rest evs) (happ : ReaderApp app) (hN : N ≤ rest.length)
    (pre : List Event) (hlast : evs = pre ++ [.api .readAll]) :
    Obs.reads (Sock.run env app evs).log = rest.take N := by
  have := readable_exact h happ evs [] (by simp)
  have hR := (h.inv happ evs [] (by simp)).1
  -- after the final readAll nothing is left to read
  obtain ⟨hRp, _⟩ := h.inv happ pre [.api .readAll] hlast
  have hfp : Scenario.fed pre = Scenario.fed evs := by
    rw [hlast, fed_append, fed_single]; simp [evBytesOf]
  rw [hfp] at hRp
  have hrun : Sock.run env app evs =
      (Sock.stepK env app (Sock.run env app pre, (pre.foldl (Sock.stepK env app) ({}, 0)).2)
        (.api .readAll)).1 := by
    rw [hlast]; simp [Sock.run, List.foldl_append]
  rw [hrun]
  exact (hRp.final_readAll env app h.brk hN _).1

/-- **notifications.** At every point between two events: `headersParsed` was emitted at most
    once, and exactly once iff the head and its blank line have arrived; `readChannelFinished`
    at most once, and exactly once iff moreover `N` body bytes have arrived. -/
theorem notifications (h : Stream env head N rest evs) (happ : ReaderApp app)
    (pre post : List Event) (hevs : evs = pre ++ post) :
    Obs.countP Obs.isHp (Sock.run env app pre).log ≤ 1 ∧
    Obs.countP Obs.isRcf (Sock.run env app pre).log ≤ 1 ∧
    (Obs.countP Obs.isHp (Sock.run env app pre).log = 1 ↔ head.length + 4 ≤ (Scenario.fed pre).length) ∧
    (Obs.countP Obs.isRcf (Sock.run env app pre).log = 1 ↔
      head.length + 4 + N ≤ (Scenario.fed pre).length) := by
  obtain ⟨hR, hpre⟩ := h.inv happ pre post hevs
  obtain ⟨chp, crcf, _, _⟩ := hR.counts
  by_cases hrs : (Sock.run env app pre).rs = .headers
  · have hlt := arrived_lt_of_headers h hR hpre hrs
    rw [chp, crcf, hrs]
    simp; omega
  · obtain ⟨rest', t, e1, _, _, e4⟩ := hR.rest_eq h.brk hpre hrs
    have hlen : (Scenario.fed pre).length = head.length + 4 + rest'.length := by
      rw [e1]; simp [CRLF2_length]; omega
    rw [chp, crcf, if_neg hrs]
    by_cases hfin : (Sock.run env app pre).rs = .finished
    · have := e4.mp hfin
      rw [if_pos hfin]; simp; omega
    · have : ¬ N ≤ rest'.length := fun hc => hfin (e4.mpr hc)
      rw [if_neg hfin]; simp; omega

/-- **notifications, order in the history** (covers reads made inside reactions): a read that
    returns at least one byte comes after `headersParsed` -/
theorem hp_before_data (h : Stream env head N rest evs) (happ : ReaderApp app)
    (l1 l2 : List Obs) (b : Bytes) (hlog : (Sock.run env app evs).log = l1 ++ Obs.rd b :: l2)
    (hb : b ≠ []) : Obs.hp ∈ l1 := by
  obtain ⟨hR, _⟩ := h.inv happ evs [] (by simp)
  have hw := hR.counts.2.2.1
  rw [hlog] at hw
  exact walkL_rd_hp _ _ _ _ _ _ hw hb

end plain

/-! ## C01 at the socket level

  With the application `@hp snap @end` and the socket created before any byte arrives, for every
  stream and every way of cutting it into segments: `headersParsed` is emitted iff the bytes
  before the first blank line are an acceptable head, exactly once, and the snapshot taken in
  the slot shows exactly the expected fields. -/

/-- `@hp snap @end new feed:seg₁ … feed:segₙ` -/
def snapScenario (segs : List Bytes) : Scenario := ⟨snapApp, .new :: segs.map .feed⟩

theorem snapScenario_inv (env : Env) (segs : List Bytes) :
    C1Inv env segs.flatten (Scenario.run env (snapScenario segs)) := by
  have := run_c1 env _ (feeds_ok segs)
  rw [fed_feeds] at this
  exact this

/-- every stream, every segmentation (no hypothesis on the head at all) -/
theorem C01_holds_run (env : Env) (segs : List Bytes) :
    C01.holds env (snapScenario segs) (Scenario.run env (snapScenario segs)).log = true := by
  obtain ⟨_, h⟩ := snapScenario_inv env segs
  unfold C01.holds
  have hf : Scenario.fed (snapScenario segs).events = segs.flatten := fed_feeds segs
  rw [hf]
  rcases h with ⟨h0, hn⟩ | ⟨_, head, rest, f, h1, h2, h3, h4⟩ | ⟨_, head, rest, h1, h2, h3⟩
  · simp [C01.headOf, hn, h0.hp]
  · simp [C01.headOf, h1, h2, h3, h4]
  · simp [C01.headOf, h1, h2, h3]

/-- accepted head: `headersParsed` exactly once and the slot sees exactly the expected fields,
    for every `rest` and every segmentation of `head ++ CRLF2 ++ rest`.  (An accepted head never
    contains a blank line and the one that ends it is the first of the stream:
    `first_of_accepted`, so no separation hypothesis is needed.) -/
theorem C01_holds_run_accepted (env : Env) (head rest : Bytes) (f : Snap) (segs : List Bytes)
    (hacc : C01.expect env head = some f)
    (hflat : segs.flatten = head ++ CRLF2 ++ rest) :
    C01.holds env (snapScenario segs) (Scenario.run env (snapScenario segs)).log = true ∧
    Obs.countP Obs.isHp (Scenario.run env (snapScenario segs)).log = 1 ∧
    C01.firstSnap (Scenario.run env (snapScenario segs)).log = some f := by
  refine ⟨C01_holds_run env segs, ?_⟩
  obtain ⟨_, h⟩ := snapScenario_inv env segs
  have hfirst := first_of_accepted env head (by rw [hacc]; rfl)
  have hb : breakOn CRLF2 segs.flatten = some (head, rest) := by
    rw [hflat]; exact breakOn_of_not_infix rest (by decide) hfirst
  rcases h with ⟨h0, hn⟩ | ⟨_, head', rest', f', h1, h2, h3, h4⟩ | ⟨_, head', rest', h1, h2, h3⟩
  · rw [hb] at hn; exact absurd hn (by simp)
  · rw [hb] at h1
    simp only [Option.some.injEq, Prod.mk.injEq] at h1
    obtain ⟨rfl, rfl⟩ := h1
    rw [hacc] at h2
    simp only [Option.some.injEq] at h2
    subst h2
    exact ⟨h3, h4⟩
  · rw [hb] at h1
    simp only [Option.some.injEq, Prod.mk.injEq] at h1
    obtain ⟨rfl, rfl⟩ := h1
    rw [hacc] at h2; exact absurd h2 (by simp)

/-- rejected head: no `headersParsed`, whatever follows and however the stream is cut -/
theorem C01_holds_run_rejected (env : Env) (head rest : Bytes) (segs : List Bytes)
    (hrej : C01.expect env head = none) (hfirst : ¬ CRLF2 <:+: head ++ CRLF2.dropLast)
    (hflat : segs.flatten = head ++ CRLF2 ++ rest) :
    C01.holds env (snapScenario segs) (Scenario.run env (snapScenario segs)).log = true ∧
    Obs.countP Obs.isHp (Scenario.run env (snapScenario segs)).log = 0 := by
  refine ⟨C01_holds_run env segs, ?_⟩
  obtain ⟨_, h⟩ := snapScenario_inv env segs
  have hb : breakOn CRLF2 segs.flatten = some (head, rest) := by
    rw [hflat]; exact breakOn_of_not_infix rest (by decide) hfirst
  rcases h with ⟨h0, hn⟩ | ⟨_, head', rest', f', h1, h2, h3, h4⟩ | ⟨_, head', rest', h1, h2, h3⟩
  · rw [hb] at hn; exact absurd hn (by simp)
  · rw [hb] at h1
    simp only [Option.some.injEq, Prod.mk.injEq] at h1
    obtain ⟨rfl, rfl⟩ := h1
    rw [hrej] at h2; exact absurd h2 (by simp)
  · exact h3

/-- no blank line yet: no `headersParsed` -/
theorem C01_holds_run_incomplete (env : Env) (segs : List Bytes) (hno : ¬ CRLF2 <:+: segs.flatten) :
    Obs.countP Obs.isHp (Scenario.run env (snapScenario segs)).log = 0 := by
  obtain ⟨_, h⟩ := snapScenario_inv env segs
  rcases h with ⟨h0, hn⟩ | ⟨_, head', rest', f', h1, h2, h3, h4⟩ | ⟨_, head', rest', h1, h2, h3⟩
  · exact h0.hp
  · exact absurd (breakOn_some_infix h1) hno
  · exact absurd (breakOn_some_infix h1) hno

/-! ### non-vacuity: a run with the blank line split between segments and a lazy reader -/

/-- a concrete environment for examples: every target is a valid URL with an empty query -/
def envEx : Env := { url := fun raw => some (raw, []), errPage := fun _ _ => [] }

/-- `POST /a HTTP/1.1\r\nContent-Length: 3\r\n\r` | `\nab` | `cX` : the blank line is split
    between two segments, the body between two segments, one trailing byte -/
def seg1 : Bytes := [80, 79, 83, 84, 32, 47, 97, 32, 72, 84, 84, 80, 47, 49, 46, 49, 13, 10, 67, 111, 110, 116, 101, 110, 116, 45, 76, 101, 110, 103, 116, 104, 58, 32, 51, 13, 10, 13]
def seg2 : Bytes := [10, 97, 98]
def seg3 : Bytes := [99, 88]

/-- lazy reader: one byte per `readyRead`, the rest from idle context one turn later -/
def lazyScript : Script := { onRr := [.read 1] }
def evsEx : List Event :=
  [.new, .feed seg1, .feed seg2, .turn, .feed seg3, .turn, .api .avail, .api .readAll]

example : readerEvents evsEx = true := by decide
example : ReaderApp lazyScript.app := ReaderApp.of_script _ (by decide)
example : (req envEx (Scenario.fed evsEx)).map (fun r => (r.headLen, r.n, r.rest)) = some (39, 3, [97, 98, 99, 88]) := by decide +kernel
example : holds envEx ⟨lazyScript.app, evsEx⟩ (Scenario.run envEx ⟨lazyScript.app, evsEx⟩).log = true := by decide +kernel
example : Obs.reads (Scenario.run envEx ⟨lazyScript.app, evsEx⟩).log = [97, 98, 99] := by decide +kernel
example : holds envEx ⟨lazyScript.app, evsEx⟩ (Scenario.run envEx ⟨lazyScript.app, evsEx⟩).log = true :=
  holds_run envEx lazyScript.app (ReaderApp.of_script _ (by decide)) evsEx (by decide)

/-- `POST /a HTTP/1.1\r\nContent-Length: 3` -/
def headEx : Bytes := [80, 79, 83, 84, 32, 47, 97, 32, 72, 84, 84, 80, 47, 49, 46, 49, 13, 10, 67, 111, 110, 116, 101, 110, 116, 45, 76, 101, 110, 103, 116, 104, 58, 32, 51]

/-- the hypotheses of the plain-terms theorems are satisfiable (same scenario) -/
example : Stream envEx headEx 3 [97, 98, 99, 88] evsEx where
  shape := by decide
  fed := by decide +kernel
  first := by rw [← isInfixB_iff]; decide +kernel
  accepted := by
    have ht : (C01.expect envEx headEx).map (·.total) = some 3 := by decide +kernel
    cases h : C01.expect envEx headEx with
    | none => rw [h] at ht; exact absurd ht (by simp)
    | some f => rw [h] at ht; exact ⟨f, rfl, by simpa using ht⟩

/-! C01 at the socket level: the same stream (accepted head, blank line split between segments),
    and a rejected head `BAD` -/
example : C01.holds envEx (snapScenario [seg1, seg2, seg3]) (Scenario.run envEx (snapScenario [seg1, seg2, seg3])).log = true := by
  decide +kernel
example : (C01.expect envEx headEx).isSome = true ∧
    [seg1, seg2, seg3].flatten = headEx ++ CRLF2 ++ [97, 98, 99, 88] :=
  ⟨by decide +kernel, by decide +kernel⟩
example : Obs.countP Obs.isHp (Scenario.run envEx (snapScenario [seg1, seg2, seg3])).log = 1 := by decide +kernel
example : C01.expect envEx [66, 65, 68] = none ∧ ¬ CRLF2 <:+: [66, 65, 68] ++ CRLF2.dropLast ∧
    [[66, 65, 68, 13], [10, 13], [10, 120]].flatten = [66, 65, 68] ++ CRLF2 ++ [120] :=
  ⟨by decide +kernel, by rw [← isInfixB_iff]; decide +kernel, by decide +kernel⟩
example : Obs.countP Obs.isHp (Scenario.run envEx (snapScenario [[66, 65, 68, 13], [10, 13], [10, 120]])).log = 0 := by
  decide +kernel

/-! ## The client leaves

  Scenario shape `closingEvents`: `new :: pre ++ peerClose :: post` — the Socket is created, the
  client sends segments (`pre`: `feed`, `turn`, idle-context reads), then LEAVES (the transport
  reports `readChannelFinished` and `disconnected`; this may be before the head is complete, in the
  middle of the declared body, exactly at its end, or after it), then the event loop keeps
  turning and the application keeps reading (`post`: `turn`, idle-context reads; nothing more can
  arrive).  Reader applications are as before; in particular their reaction to `disconnected`
  may read. -/

/-- `holds` when the connection was ended: the two "left to run" clauses do not apply -/
theorem holds_of_facts_ended (env : Env) (sc : Scenario) (obs : List Obs) (r : Req)
    (hreq : req env (Scenario.fed sc.events) = some r)
    (h1 : Obs.reads obs <+: entitled r)
    (h2 : Obs.countP Obs.isHp obs ≤ 1) (h3 : Obs.countP Obs.isRcf obs ≤ 1)
    (h4 : walk sc.events r obs 0 false none = true)
    (h5 : ended sc obs = true) :
    holds env sc obs = true := by
  unfold holds
  rw [hreq]
  have e1 : (Obs.reads obs).isPrefixOf (entitled r) = true := List.isPrefixOf_iff_prefix.mpr h1
  simp [e1, h2, h3, h4, h5]

theorem ended_of_closing {app : App} {evs : List Event} (obs : List Obs) (h : closingEvents evs = true) :
    ended ⟨app, evs⟩ obs = true := by
  obtain ⟨pre, post, rfl, _, _⟩ := (closingEvents_iff evs).mp h
  simp [ended]

/-- **C02 when the client leaves, main theorem.** For every environment, every reader application
    and every scenario `new :: (feed seg | turn | idle read)* ++ peerClose :: (turn | idle read)*`
    the executable predicate holds on the model's run: whatever part of the declared body had
    arrived when the client left, the reader obtains a prefix of the entitled bytes,
    `headersParsed` and `readChannelFinished` are emitted at most once, and `readChannelFinished`
    never before `|head| + 4 + N` bytes have arrived. -/
theorem holds_run_closing (env : Env) (app : App) (happ : ReaderApp app) (evs : List Event)
    (hshape : closingEvents evs = true) :
    holds env ⟨app, evs⟩ (Scenario.run env ⟨app, evs⟩).log = true := by
  cases hreq : req env (Scenario.fed evs) with
  | none => unfold holds; simp only [hreq]
  | some r =>
    obtain ⟨head, hfin, acc, hhl⟩ := req_some hreq
    obtain ⟨pre, post, hevs, hpre, hpost⟩ := (closingEvents_iff evs).mp hshape
    have hR : RInv evs head r.n (Scenario.fed evs) (Sock.run env app evs) :=
      closing_inv env app happ acc r.rest hfin pre post hevs hpre hpost evs [] (by simp)
    have hp := hR.reads_prefix hfin (List.prefix_refl _)
    obtain ⟨chp, crcf, cwalk, _⟩ := hR.counts
    refine holds_of_facts_ended env ⟨app, evs⟩ _ r hreq hp ?_ ?_ ?_ (ended_of_closing _ hshape)
    · show Obs.countP Obs.isHp (Sock.run env app evs).log ≤ 1
      rw [chp]; split <;> omega
    · show Obs.countP Obs.isRcf (Sock.run env app evs).log ≤ 1
      rw [crcf]; split <;> omega
    · show walk evs r (Sock.run env app evs).log 0 false none = true
      rw [walk_eq, hhl]; exact cwalk

/-! ### in plain terms

  `Closing env head N rest evs`: the scenario has the closing shape and its byte stream — all the
  client sent before it left — is an accepted head declaring `N ≥ 0` body bytes, the first blank
  line, and `rest`: the part of the body that was sent (`rest.length < N`: the client left
  mid-body), or the body and whatever followed it. -/

structure Closing (env : Env) (head : Bytes) (N : Nat) (rest : Bytes) (evs : List Event) : Prop where
  shape : closingEvents evs = true
  fed : Scenario.fed evs = head ++ CRLF2 ++ rest
  first : ¬ CRLF2 <:+: head ++ CRLF2.dropLast
  accepted : ∃ f, C01.expect env head = some f ∧ f.total = (N : Int)

/-! what `RInv` says, for any scenario shape that establishes it -/
section of_inv
variable {env : Env} {head rest fed fedF : Bytes} {N : Nat} {evs : List Event} {s : Sock}

theorem RInv.arrived_lt (hR : RInv evs head N fed s) (hF : fedF = head ++ CRLF2 ++ rest)
    (hpre : fed <+: fedF) (hrs : s.rs = .headers) : fed.length < head.length + 4 := by
  obtain ⟨a, hb, B, hm, _, hrel⟩ := hR
  have hnone := (hrel.1 hrs).2
  apply Nat.lt_of_not_le
  intro hle
  have h1 : head ++ CRLF2 <+: fedF := by rw [hF]; exact List.prefix_append _ _
  have h2 : head ++ CRLF2 <+: fed :=
    List.prefix_of_prefix_length_le h1 hpre (by simp [CRLF2_length]; omega)
  obtain ⟨t, ht⟩ := h2
  exact breakOn_none hnone ⟨head, t, ht⟩

theorem RInv.readable_exact (hR : RInv evs head N fed s) (hF : fedF = head ++ CRLF2 ++ rest)
    (hbrk : breakOn CRLF2 fedF = some (head, rest)) (hpre : fed <+: fedF) :
    Obs.reads s.log ++ (Sock.readAll s).2 = (fed.drop (head.length + 4)).take N := by
  by_cases hrs : s.rs = .headers
  · have hlt := hR.arrived_lt hF hpre hrs
    obtain ⟨a, hb, B, hm, _, _⟩ := hR
    obtain ⟨_, _, _, e4, e5, _⟩ := hm.hdr hrs
    rw [readAll_headers _ hrs e4, e5, List.drop_of_length_le (by omega)]; simp
  · obtain ⟨rest', t, e1, _, e3, _⟩ := hR.rest_eq hbrk hpre hrs
    obtain ⟨a, hb, B, hm, _, _⟩ := hR
    rw [readAll_data _ hm.ioOpen hrs, e1]
    have : (head ++ CRLF2 ++ rest').drop (head.length + 4) = rest' := by
      apply List.drop_left'; simp [CRLF2_length]
    rw [this, ← e3]; simp

theorem RInv.notifications (hR : RInv evs head N fed s) (hF : fedF = head ++ CRLF2 ++ rest)
    (hbrk : breakOn CRLF2 fedF = some (head, rest)) (hpre : fed <+: fedF) :
    Obs.countP Obs.isHp s.log ≤ 1 ∧ Obs.countP Obs.isRcf s.log ≤ 1 ∧
    (Obs.countP Obs.isHp s.log = 1 ↔ head.length + 4 ≤ fed.length) ∧
    (Obs.countP Obs.isRcf s.log = 1 ↔ head.length + 4 + N ≤ fed.length) := by
  obtain ⟨chp, crcf, _, _⟩ := hR.counts
  by_cases hrs : s.rs = .headers
  · have hlt := hR.arrived_lt hF hpre hrs
    rw [chp, crcf, hrs]
    simp; omega
  · obtain ⟨rest', t, e1, _, _, e4⟩ := hR.rest_eq hbrk hpre hrs
    have hlen : fed.length = head.length + 4 + rest'.length := by
      rw [e1]; simp [CRLF2_length]; omega
    rw [chp, crcf, if_neg hrs]
    by_cases hfin : s.rs = .finished
    · have := e4.mp hfin
      rw [if_pos hfin]; simp; omega
    · have : ¬ N ≤ rest'.length := fun hc => hfin (e4.mpr hc)
      rw [if_neg hfin]; simp; omega

end of_inv

section closing
variable {env : Env} {app : App} {head rest : Bytes} {N : Nat} {evs : List Event}

theorem Closing.of_accepted (shape : closingEvents evs = true) (fed : Scenario.fed evs = head ++ CRLF2 ++ rest)
    (accepted : ∃ f, C01.expect env head = some f ∧ f.total = (N : Int)) : Closing env head N rest evs :=
  ⟨shape, fed, first_of_accepted env head (by obtain ⟨f, hf, _⟩ := accepted; rw [hf]; rfl), accepted⟩

theorem Closing.brk (h : Closing env head N rest evs) :
    breakOn CRLF2 (Scenario.fed evs) = some (head, rest) := by
  rw [h.fed]; exact breakOn_of_not_infix rest (by decide) h.first

/-- the invariant at every point `p` of the run, before and after the client leaves -/
theorem Closing.inv (h : Closing env head N rest evs) (happ : ReaderApp app) (p q : List Event)
    (hevs : evs = p ++ q) :
    RInv evs head N (Scenario.fed p) (Sock.run env app p) ∧ Scenario.fed p <+: Scenario.fed evs := by
  obtain ⟨f, hf, hN⟩ := h.accepted
  obtain ⟨pre, post, hsh, hpre, hpost⟩ := (closingEvents_iff evs).mp h.shape
  refine ⟨closing_inv env app happ (acc_of_expect hf hN) rest h.brk pre post hsh hpre hpost p q hevs, ?_⟩
  rw [hevs, fed_append]; exact List.prefix_append _ _

/-- once the client has left, everything it sent has arrived -/
theorem Closing.fed_after (h : Closing env head N rest evs) (pre post1 post2 : List Event)
    (hevs : evs = .new :: pre ++ .peerClose :: (post1 ++ post2)) :
    Scenario.fed (.new :: pre ++ .peerClose :: post1) = head ++ CRLF2 ++ rest := by
  have hidle : ∀ e ∈ post1 ++ post2, idleEvent e = true := by
    have hc : closingEvents evs = true := h.shape
    rw [hevs] at hc
    exact closingTail_idle_after pre (post1 ++ post2) hc
  rw [← h.fed, hevs]
  have e1 : Event.new :: pre ++ .peerClose :: post1 = (Event.new :: pre) ++ (.peerClose :: post1) := rfl
  have e2 : Event.new :: pre ++ .peerClose :: (post1 ++ post2) = (Event.new :: pre) ++ (.peerClose :: (post1 ++ post2)) := rfl
  rw [e1, e2, fed_append, fed_append, fed_peerClose _ hidle,
    fed_peerClose post1 (fun e he => hidle e (by simp [he]))]

/-- **(a) end-of-body is never announced early.**  If `readChannelFinished` occurs in the history,
    the bytes that had arrived before it (those of the external events that had started) include
    the head, the blank line and all `N` declared body bytes. -/
theorem closing_rcf_after_body (h : Closing env head N rest evs) (happ : ReaderApp app)
    (l1 l2 : List Obs) (hlog : (Sock.run env app evs).log = l1 ++ Obs.rcf :: l2) :
    head.length + 4 + N ≤ arrivedAt evs l1 := by
  obtain ⟨hR, _⟩ := h.inv happ evs [] (by simp)
  have hw := hR.counts.2.2.1
  rw [hlog] at hw
  exact walkL_rcf _ _ _ _ _ hw

/-- `arrivedAt` is the right measure: between two events it is the number of bytes fed so far -/
theorem closing_arrivedAt (h : Closing env head N rest evs) (happ : ReaderApp app)
    (p q : List Event) (hevs : evs = p ++ q) :
    arrivedAt evs (Sock.run env app p).log = (Scenario.fed p).length :=
  (h.inv happ p q hevs).1.arrivedAt_eq

/-- **(a), (b) notifications.** At every point between two events, before and after the client
    leaves: `headersParsed` at most once, and exactly once iff the head and its blank line have
    arrived; `readChannelFinished` at most once, and exactly once iff moreover `N` body bytes have
    arrived. -/
theorem closing_notifications (h : Closing env head N rest evs) (happ : ReaderApp app)
    (p q : List Event) (hevs : evs = p ++ q) :
    Obs.countP Obs.isHp (Sock.run env app p).log ≤ 1 ∧
    Obs.countP Obs.isRcf (Sock.run env app p).log ≤ 1 ∧
    (Obs.countP Obs.isHp (Sock.run env app p).log = 1 ↔ head.length + 4 ≤ (Scenario.fed p).length) ∧
    (Obs.countP Obs.isRcf (Sock.run env app p).log = 1 ↔
      head.length + 4 + N ≤ (Scenario.fed p).length) := by
  obtain ⟨hR, hpre⟩ := h.inv happ p q hevs
  exact hR.notifications h.fed h.brk hpre

/-- **(a) a client that leaves mid-body produces no end-of-body notification**: fewer than `N`
    body bytes were sent, so `readChannelFinished` occurs nowhere in the history of the whole run
    (the transport's own `readChannelFinished` is not forwarded for a request with a declared
    length) -/
theorem closing_no_rcf_midbody (h : Closing env head N rest evs) (happ : ReaderApp app)
    (hmid : rest.length < N) : Obs.rcf ∉ (Sock.run env app evs).log := by
  obtain ⟨_, h2, _, h4⟩ := closing_notifications h happ evs [] (by simp)
  have hlen : (Scenario.fed evs).length = head.length + 4 + rest.length := by
    rw [h.fed]; simp [CRLF2_length]; omega
  have h0 : Obs.countP Obs.isRcf (Sock.run env app evs).log = 0 := by
    have : ¬ Obs.countP Obs.isRcf (Sock.run env app evs).log = 1 := fun hc => by
      have := h4.mp hc; omega
    omega
  intro hm
  have : 0 < Obs.countP Obs.isRcf (Sock.run env app evs).log := by
    unfold Obs.countP
    exact List.length_pos_of_mem (List.mem_filter.mpr ⟨hm, rfl⟩)
  omega

/-- **(c) nothing lost, duplicated, reordered, nothing beyond `N`**, at every point between two
    events, before and after the client leaves: what the reader has obtained so far followed by
    what `readAll()` would return now is exactly the first `min N arrived` bytes after the blank
    line. -/
theorem closing_readable_exact (h : Closing env head N rest evs) (happ : ReaderApp app)
    (p q : List Event) (hevs : evs = p ++ q) :
    Obs.reads (Sock.run env app p).log ++ (Sock.readAll (Sock.run env app p)).2 =
      ((Scenario.fed p).drop (head.length + 4)).take N := by
  obtain ⟨hR, hpre⟩ := h.inv happ p q hevs
  exact hR.readable_exact h.fed h.brk hpre

/-- **(c) reads form a prefix of the entitled body**, at every point of the run -/
theorem closing_reads_prefix (h : Closing env head N rest evs) (happ : ReaderApp app)
    (p q : List Event) (hevs : evs = p ++ q) :
    Obs.reads (Sock.run env app p).log <+: rest.take N := by
  obtain ⟨hR, hpre⟩ := h.inv happ p q hevs
  exact hR.reads_prefix h.brk hpre

/-- **(c) arrived bytes stay readable after the client has left.**  At every point `post1` after
    the `peerClose` (a reader application never closes the Socket, so the proviso "until the
    application closes the connection" is met throughout): reads so far followed by what
    `readAll()` would return now is everything the client sent of the body, cut at `N`; and
    `bytesAvailable()` announces exactly the length of that `readAll()`. -/
theorem closing_retained (h : Closing env head N rest evs) (happ : ReaderApp app)
    (pre post1 post2 : List Event) (hevs : evs = .new :: pre ++ .peerClose :: (post1 ++ post2)) :
    Obs.reads (Sock.run env app (.new :: pre ++ .peerClose :: post1)).log ++
        (Sock.readAll (Sock.run env app (.new :: pre ++ .peerClose :: post1))).2 = rest.take N ∧
    Sock.bytesAvailable (Sock.run env app (.new :: pre ++ .peerClose :: post1)) =
        (Sock.readAll (Sock.run env app (.new :: pre ++ .peerClose :: post1))).2.length := by
  have hsplit : evs = (.new :: pre ++ .peerClose :: post1) ++ post2 := by rw [hevs]; simp
  refine ⟨?_, (h.inv happ _ post2 hsplit).1.avail_exact⟩
  rw [closing_readable_exact h happ _ post2 hsplit, h.fed_after pre post1 post2 hevs]
  have : (head ++ CRLF2 ++ rest).drop (head.length + 4) = rest := by
    apply List.drop_left'; simp [CRLF2_length]
  rw [this]

/-- a reader that ends with `readAll()` after the client has left has obtained everything the
    client sent of the body (up to `N` bytes) -/
theorem closing_complete (h : Closing env head N rest evs) (happ : ReaderApp app)
    (pre post1 : List Event) (hevs : evs = .new :: pre ++ .peerClose :: (post1 ++ [.api .readAll])) :
    Obs.reads (Sock.run env app evs).log = rest.take N := by
  -- after the final `readAll` nothing is left to read
  obtain ⟨hRp, _⟩ := h.inv (app := app) happ (.new :: pre ++ .peerClose :: post1) [.api .readAll]
    (by rw [hevs]; simp)
  have hfp := h.fed_after pre post1 [.api .readAll] hevs
  rw [← h.fed] at hfp
  rw [hfp] at hRp
  have hrun : Sock.run env app evs =
      (Sock.stepK env app (Sock.run env app (.new :: pre ++ .peerClose :: post1),
          ((Event.new :: pre ++ .peerClose :: post1).foldl (Sock.stepK env app) ({}, 0)).2)
        (.api .readAll)).1 := by
    have : evs = (.new :: pre ++ .peerClose :: post1) ++ [.api .readAll] := by rw [hevs]; simp
    rw [this]; simp [Sock.run, List.foldl_append]
  rw [hrun]
  exact (hRp.final_readAll_partial env app h.brk _).1

/-- **`bytesAvailable()` is exact** (history form, covers calls made inside reactions, the
    reaction to `disconnected` included) -/
theorem closing_avail_exact_log (h : Closing env head N rest evs) (happ : ReaderApp app)
    (l1 l2 : List Obs) (n : Nat) (b : Bytes)
    (hlog : (Sock.run env app evs).log = l1 ++ Obs.av n :: Obs.rd b :: l2) : b.length = n := by
  obtain ⟨hR, _⟩ := h.inv happ evs [] (by simp)
  have hw := hR.counts.2.2.1
  rw [hlog] at hw
  exact walkL_av_rd _ _ _ _ _ _ _ hw

/-- a read that returns at least one byte comes after `headersParsed` -/
theorem closing_hp_before_data (h : Closing env head N rest evs) (happ : ReaderApp app)
    (l1 l2 : List Obs) (b : Bytes) (hlog : (Sock.run env app evs).log = l1 ++ Obs.rd b :: l2)
    (hb : b ≠ []) : Obs.hp ∈ l1 := by
  obtain ⟨hR, _⟩ := h.inv happ evs [] (by simp)
  have hw := hR.counts.2.2.1
  rw [hlog] at hw
  exact walkL_rd_hp _ _ _ _ _ _ hw hb

end closing

/-! ### non-vacuity: declared length 5, three body bytes arrive, the client leaves -/

/-- `POST /a HTTP/1.1\r\nContent-Length: 5` -/
def headEx5 : Bytes := [80, 79, 83, 84, 32, 47, 97, 32, 72, 84, 84, 80, 47, 49, 46, 49, 13, 10, 67, 111, 110, 116, 101, 110, 116, 45, 76, 101, 110, 103, 116, 104, 58, 32, 53]

/-- head and `\r\n\r` | `\nab` | `c` | the client leaves | turn | `bytesAvailable` | `readAll` -/
def evsCl : List Event :=
  [.new, .feed (headEx5 ++ [13, 10, 13]), .feed [10, 97, 98], .turn, .feed [99], .peerClose, .turn,
   .api .avail, .api .readAll]

example : closingEvents evsCl = true := by decide
example : ReaderApp lazyScript.app := ReaderApp.of_script _ (by decide)
example : (req envEx (Scenario.fed evsCl)).map (fun r => (r.headLen, r.n, r.rest)) = some (39, 5, [97, 98, 99]) := by decide +kernel
example : holds envEx ⟨lazyScript.app, evsCl⟩ (Scenario.run envEx ⟨lazyScript.app, evsCl⟩).log = true := by decide +kernel
example : holds envEx ⟨lazyScript.app, evsCl⟩ (Scenario.run envEx ⟨lazyScript.app, evsCl⟩).log = true :=
  holds_run_closing envEx lazyScript.app (ReaderApp.of_script _ (by decide)) evsCl (by decide)
/-- the lazy reader got one byte per `readyRead` and the third from idle context after the client
    had left; `disconnected` was delivered, `readChannelFinished` was not -/
example : Obs.reads (Scenario.run envEx ⟨lazyScript.app, evsCl⟩).log = [97, 98, 99] := by decide +kernel
example : Obs.countP Obs.isHp (Scenario.run envEx ⟨lazyScript.app, evsCl⟩).log = 1 ∧
    Obs.countP Obs.isRcf (Scenario.run envEx ⟨lazyScript.app, evsCl⟩).log = 0 ∧
    Obs.countP Obs.isDc (Scenario.run envEx ⟨lazyScript.app, evsCl⟩).log = 1 := by decide +kernel

/-- the hypotheses of the plain-terms theorems are satisfiable (same scenario) -/
theorem closingEx : Closing envEx headEx5 5 [97, 98, 99] evsCl where
  shape := by decide
  fed := by decide +kernel
  first := by rw [← isInfixB_iff]; decide +kernel
  accepted := by
    have ht : (C01.expect envEx headEx5).map (·.total) = some 5 := by decide +kernel
    cases h : C01.expect envEx headEx5 with
    | none => rw [h] at ht; exact absurd ht (by simp)
    | some f => rw [h] at ht; exact ⟨f, rfl, by simpa using ht⟩

/-- ... and so are the hypotheses about the shape of the event list and of the history -/
example : evsCl = .new :: [.feed (headEx5 ++ [13, 10, 13]), .feed [10, 97, 98], .turn, .feed [99]] ++
    .peerClose :: ([.turn, .api .avail] ++ [.api .readAll]) := rfl
example : Obs.rcf ∉ (Sock.run envEx lazyScript.app evsCl).log :=
  closing_no_rcf_midbody closingEx (ReaderApp.of_script _ (by decide)) (by decide)
example : Obs.reads (Sock.run envEx lazyScript.app evsCl).log = [97, 98, 99] :=
  closing_complete closingEx (ReaderApp.of_script _ (by decide))
    [.feed (headEx5 ++ [13, 10, 13]), .feed [10, 97, 98], .turn, .feed [99]] [.turn, .api .avail] rfl

/-- the same stream with the whole body (`abcde`) before the client leaves: `readChannelFinished`
    once, after all five bytes (the hypothesis of `closing_rcf_after_body` is satisfiable) -/
def evsClFull : List Event :=
  [.new, .feed (headEx5 ++ [13, 10, 13, 10, 97, 98]), .feed [99, 100, 101], .peerClose, .api .readAll]

example : closingEvents evsClFull = true := by decide
example : ∃ l1 l2, (Sock.run envEx lazyScript.app evsClFull).log = l1 ++ Obs.rcf :: l2 ∧
    arrivedAt evsClFull l1 = 39 + 5 := by
  refine ⟨((Sock.run envEx lazyScript.app evsClFull).log.takeWhile (fun o => !Obs.isRcf o)),
    ((Sock.run envEx lazyScript.app evsClFull).log.dropWhile (fun o => !Obs.isRcf o)).tail, ?_, ?_⟩
  · decide +kernel
  · decide +kernel

end Qhttp.C02
