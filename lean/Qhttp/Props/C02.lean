import Qhttp.Props.C01
/-
  C02 — the request body reaches the reader intact under every segmentation.
-/
namespace Qhttp.C02
open Qhttp

/-- the declared request: head accepted with `Content-Length: N`, `N ≥ 0`; `rest` is everything
    the client sent after the blank line -/
structure Req where
  headLen : Nat
  n       : Nat
  rest    : Bytes
deriving Repr

def req (env : Env) (stream : Bytes) : Option Req :=
  match breakOn CRLF2 stream with
  | none => none
  | some (head, rest) =>
    match C01.expect env head with
    | none => none
    | some f => if f.total < 0 then none else some { headLen := head.length + 4, n := f.total.toNat, rest := rest }

def entitled (r : Req) : Bytes := r.rest.take r.n

def evBytes (evs : List Event) (k : Nat) : Nat :=
  match evs[k]? with
  | some (.feed b) => b.length
  | some (.prebuf b) => b.length
  | _ => 0

/-- walk the history keeping: bytes fed so far, whether `hp` was seen, the last `av`;
    returns false as soon as a clause fails -/
def walk (evs : List Event) (r : Req) : List Obs → (fed : Nat) → (hp : Bool) → (lastAv : Option Nat) → Bool
  | [], _, _, _ => true
  | o :: l, fed, hp, lastAv =>
    match o with
    | .ev k => walk evs r l (fed + evBytes evs k) hp none
    | .hp => walk evs r l fed true none
    | .av n => walk evs r l fed hp (some n)
    | .rd b =>
      -- nothing readable before headersParsed; bytesAvailable is exact for the read that follows
      (hp || b.isEmpty) && (match lastAv with | some n => b.length == n | none => true) &&
        walk evs r l fed hp none
    | .rcf => (fed ≥ r.headLen + r.n) && walk evs r l fed hp none
    | _ => walk evs r l fed hp none

/-- the connection was ended (by the application, a handler or the peer) during the history -/
def ended (sc : Scenario) (obs : List Obs) : Bool :=
  obs.any Obs.isTc || sc.events.any fun e => match e with | .peerClose => true | _ => false

/-- scenario shape: the Socket is created first, then the stream is fed in segments; the reader
    uses `read n`, `readAll` and `avail` (the latter always directly followed by `readAll`). -/
def holds (env : Env) (sc : Scenario) (obs : List Obs) : Bool :=
  match req env (Scenario.fed sc.events) with
  | none => true
  | some r =>
    (Obs.reads obs).isPrefixOf (entitled r) &&
    Obs.countP Obs.isHp obs ≤ 1 && Obs.countP Obs.isRcf obs ≤ 1 &&
    walk sc.events r obs 0 false none &&
    -- left to run with a reader that drains at the end: everything, and both notifications
    (if !ended sc obs && r.rest.length ≥ r.n &&
        (match sc.events.getLast? with | some (.api .readAll) => true | _ => false)
     then Obs.reads obs == entitled r && Obs.countP Obs.isHp obs == 1 && Obs.countP Obs.isRcf obs == 1
     else true)

end Qhttp.C02
