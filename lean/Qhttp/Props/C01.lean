import Qhttp.Model.Socket
/-
  C01 — request head accepted iff well-formed, parsed fields exact.
  Definitions (`expect`, `holds`) come first; the theorems about them are below and in
  Qhttp/Lemmas.  Nothing else lives here.
-/
namespace Qhttp.C01
open Qhttp

/-- what the application must be shown for a request head (bytes before the first blank line):
    `none` = the head is not acceptable -/
def expect (env : Env) (head : Bytes) : Option Snap :=
  match Parser.parseRequestHeaders head with
  | none => none
  | some rh =>
    match env.url rh.rawPath with
    | none => none
    | some (p, q) =>
      some { parsed := true, method := rh.method, rawPath := rh.rawPath, path := p,
             query := q.foldl (fun m e => Sock.qmInsert e.1 e.2 m) [],
             headers := rh.headers,
             total := if HeaderMap.contains Sock.CONTENT_LENGTH rh.headers
                      then toLongLong (HeaderMap.value Sock.CONTENT_LENGTH rh.headers) else -1 }

def headOf (stream : Bytes) : Option Bytes := (breakOn CRLF2 stream).map (·.1)

def firstSnap : List Obs → Option Snap
  | [] => none
  | .snap s :: _ => some s
  | _ :: l => firstSnap l

/-- scenario shape: `@hp snap @end`, the Socket created before any byte arrives.
    The application is told "headers parsed" iff the head is acceptable, and then sees exactly
    the expected fields. -/
def holds (env : Env) (sc : Scenario) (obs : List Obs) : Bool :=
  match headOf (Scenario.fed sc.events) with
  | none => Obs.countP Obs.isHp obs == 0
  | some head =>
    match expect env head with
    | none => Obs.countP Obs.isHp obs == 0
    | some f => Obs.countP Obs.isHp obs == 1 && firstSnap obs == some f

end Qhttp.C01
