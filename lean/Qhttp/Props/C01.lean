import Qhttp.Model.Socket
import Qhttp.Lemmas.BytesLemmas
import Qhttp.Lemmas.BytesNum
import Qhttp.Lemmas.C01Parser
/-
  C01 — request head accepted iff well-formed, parsed fields exact.
  Definitions (`expect`, `holds`) come first; the theorems about them are below and in
  Qhttp/Lemmas.  Nothing else lives here.
-/
namespace Qhttp.C01
open Qhttp

/-- what the application must be shown for a request head (bytes before the first blank line):
    `none` = the head is not acceptable -/
def expect (env : Env) (head : Bytes) : Option Snap :=
  match Parser.parseRequestHeaders head with
  | none => none
  | some rh =>
    match env.url rh.rawPath with
    | none => none
    | some (p, q) =>
      some { parsed := true, method := rh.method, rawPath := rh.rawPath, path := p,
             query := q.foldl (fun m e => Sock.qmInsert e.1 e.2 m) [],
             headers := rh.headers,
             total := if HeaderMap.contains Sock.CONTENT_LENGTH rh.headers
                      then toLongLong (HeaderMap.value Sock.CONTENT_LENGTH rh.headers) else -1 }

def headOf (stream : Bytes) : Option Bytes := (breakOn CRLF2 stream).map (·.1)

def firstSnap : List Obs → Option Snap
  | [] => none
  | .snap s :: _ => some s
  | _ :: l => firstSnap l

/-- scenario shape: `@hp snap @end`, the Socket created before any byte arrives.
    The application is told "headers parsed" iff the head is acceptable, and then sees exactly
    the expected fields. -/
def holds (env : Env) (sc : Scenario) (obs : List Obs) : Bool :=
  match headOf (Scenario.fed sc.events) with
  | none => Obs.countP Obs.isHp obs == 0
  | some head =>
    match expect env head with
    | none => Obs.countP Obs.isHp obs == 0
    | some f => Obs.countP Obs.isHp obs == 1 && firstSnap obs == some f


/-! ## Theorems

  All statements are about arbitrary byte strings (unbounded) and an arbitrary `env`
  (`env.url` is the `QUrl` oracle: nothing is assumed about it). -/

open Parser

/-- the grammar side: `METHOD SP target SP version (CRLF line)*`.  A header line has the form
    `name: value` when it is `Parser.HdrLine`: `l = name ++ ":" ++ value`, no colon in the name (the
    colon shown is the first one) and the name is not blank (some byte of it is not white space;
    `Parser.hdrLineB` is the executable form).  A line such as `: v` or `  : v` is NOT of that
    form and makes the head unacceptable (`blank_name_rejected`). -/
def render (m t v : Bytes) (hs : List Bytes) : Bytes :=
  m ++ [SP] ++ t ++ [SP] ++ v ++ hs.flatMap (fun l => CRLF ++ l)

/-- side conditions of the grammar, as one executable predicate -/
def wellFormedB (env : Env) (m t v : Bytes) (hs : List Bytes) : Bool :=
  (methodCode m).isSome && (v == HTTP10 || v == HTTP11) && !t.contains SP && !isInfixB CRLF t &&
  (env.url t).isSome && hs.all (fun l => hdrLineB l && !isInfixB CRLF l)

theorem wellFormedB_iff (env : Env) (m t v : Bytes) (hs : List Bytes) :
    wellFormedB env m t v hs = true ↔
      methodCode m ≠ none ∧ (v = HTTP10 ∨ v = HTTP11) ∧ SP ∉ t ∧ ¬ CRLF <:+: t ∧
      (env.url t).isSome ∧ (∀ l ∈ hs, HdrLine l ∧ ¬ CRLF <:+: l) := by
  have hi : ∀ xs : Bytes, (!isInfixB CRLF xs) = true ↔ ¬ CRLF <:+: xs := fun xs => by
    rw [← isInfixB_iff]; simp
  simp only [wellFormedB, Bool.and_eq_true, Bool.or_eq_true, beq_iff_eq, hi, List.all_eq_true,
    hdrLineB_iff, Bool.not_eq_true', ← Option.isSome_iff_ne_none]
  constructor
  · rintro ⟨⟨⟨⟨⟨h1, h2⟩, h3⟩, h4⟩, h5⟩, h6⟩
    refine ⟨h1, h2, ?_, h4, h5, h6⟩
    intro c
    have := List.contains_iff_mem.2 c
    rw [h3] at this; cases this
  · rintro ⟨h1, h2, h3, h4, h5, h6⟩
    refine ⟨⟨⟨⟨⟨h1, h2⟩, ?_⟩, h4⟩, h5⟩, h6⟩
    cases hc : t.contains SP with
    | false => rfl
    | true => exact absurd (List.contains_iff_mem.1 hc) h3

theorem render_eq_joinWith (m t v : Bytes) (hs : List Bytes) :
    render m t v hs = joinWith CRLF ((m ++ [SP] ++ t ++ [SP] ++ v) :: hs) := by
  rw [joinWith_cons_eq_flatMap]; rfl

/-- Exact characterisation of the parser model, independent of the URL oracle:
    `parseRequestHeaders` succeeds with `rh` iff the input is a rendering of a method token
    with code `rh.method`, the target `rh.rawPath`, one of the two versions and header lines
    each of the form `name: value` (`Parser.HdrLine`: a colon, and a name before the first colon
    that is not blank), and `rh.headers` is the fold of the lines. -/
theorem parse_eq_some_iff (head : Bytes) (rh : Parser.ReqHead) :
    Parser.parseRequestHeaders head = some rh ↔
      ∃ m v hs, methodCode m = some rh.method ∧ (v = HTTP10 ∨ v = HTTP11) ∧
        SP ∉ rh.rawPath ∧ ¬ CRLF <:+: rh.rawPath ∧ (∀ l ∈ hs, HdrLine l ∧ ¬ CRLF <:+: l) ∧
        rh.headers = hs.foldl insertLine [] ∧ head = render m rh.rawPath v hs := by
  rw [Parser.parseRequestHeaders_eq_some_iff]
  constructor
  · rintro ⟨p0, p2, hp, hv, hc⟩
    obtain ⟨hs, _, h1, hf, hl, hpl, rfl⟩ := (Parser.parseHeaders_eq_some_iff _ _ _ _ _ _).1 hp
    rw [Parser.parseHeaderList_eq] at hpl
    split at hpl
    · rename_i hcol
      have hhd := (Option.some.inj hpl).symm
      refine ⟨p0, p2, hs, hc, hv, h1, ?_, fun l hl' => ⟨(hdrLineB_iff l).1 (hcol l hl'), hl l hl'⟩, hhd,
        (render_eq_joinWith _ _ _ _).symm⟩
      · intro c
        apply hf
        obtain ⟨s, t, e⟩ := c
        exact ⟨p0 ++ [SP] ++ s, t ++ [SP] ++ p2, by rw [← e]; simp [List.append_assoc]⟩
    · cases hpl
  · rintro ⟨m, v, hs, hc, hv, h1, h2, hl, hh, rfl⟩
    have hm : methodCode m ≠ none := by rw [hc]; simp
    refine ⟨m, v, ?_, hv, hc⟩
    rw [Parser.parseHeaders_eq_some_iff]
    refine ⟨hs, (Parser.method_no_SP_CR hm).1, h1, Parser.requestLine_no_CRLF hm hv h2,
      fun l hl' => (hl l hl').2, ?_, render_eq_joinWith _ _ _ _⟩
    rw [Parser.parseHeaderList_eq, if_pos (fun l hl' => (hdrLineB_iff l).2 (hl l hl').1), hh]

theorem expect_eq_some_iff (env : Env) (head : Bytes) (s : Snap) :
    expect env head = some s ↔
      ∃ rh p q, Parser.parseRequestHeaders head = some rh ∧ env.url rh.rawPath = some (p, q) ∧
        s = { parsed := true, method := rh.method, rawPath := rh.rawPath, path := p,
              query := q.foldl (fun m e => Sock.qmInsert e.1 e.2 m) [],
              headers := rh.headers,
              total := if HeaderMap.contains Sock.CONTENT_LENGTH rh.headers
                       then toLongLong (HeaderMap.value Sock.CONTENT_LENGTH rh.headers)
                       else -1 } := by
  unfold expect
  constructor
  · intro h
    split at h
    · cases h
    · rename_i rh hrh
      split at h
      · cases h
      · rename_i p q hu
        cases h
        exact ⟨rh, p, q, hrh, hu, rfl⟩
  · rintro ⟨rh, p, q, hrh, hu, rfl⟩
    rw [hrh]
    simp only [hu]

/-- **C01, acceptance.**  A request head is accepted iff it is
    `METHOD SP target SP HTTP/1.0|HTTP/1.1 (CRLF line)*` with one of the eight method tokens,
    a target without space and without CRLF that the URL oracle accepts, and every line of the
    form `name: value` — `Parser.HdrLine`: `name ++ ":" ++ value` with a colon-free name that is not
    blank — (and no CRLF, i.e. the lines are exactly the CRLF-separated pieces).
    `→` is "nothing else is ever accepted".  The statement is true exactly as proposed: the
    target may be empty iff the oracle accepts the empty string, the version must be the exact
    8 bytes (a trailing CR or space is rejected). -/
theorem accept_iff (env : Env) (head : Bytes) :
    (expect env head).isSome ↔
      ∃ m t v hs, methodCode m ≠ none ∧ (v = HTTP10 ∨ v = HTTP11) ∧ SP ∉ t ∧ ¬ CRLF <:+: t ∧
        (env.url t).isSome ∧ (∀ l ∈ hs, HdrLine l ∧ ¬ CRLF <:+: l) ∧ head = render m t v hs := by
  constructor
  · intro h
    obtain ⟨s, hs⟩ := Option.isSome_iff_exists.1 h
    obtain ⟨rh, p, q, hrh, hu, _⟩ := (expect_eq_some_iff _ _ _).1 hs
    obtain ⟨m, v, hs, hc, hv, h1, h2, hl, _, e⟩ := (parse_eq_some_iff _ _).1 hrh
    exact ⟨m, rh.rawPath, v, hs, by rw [hc]; simp, hv, h1, h2, by rw [hu]; rfl, hl, e⟩
  · rintro ⟨m, t, v, hs, hm, hv, h1, h2, hu, hl, rfl⟩
    obtain ⟨c, hc⟩ := Option.isSome_iff_exists.1 (Option.isSome_iff_ne_none.2 hm)
    obtain ⟨⟨p, q⟩, hpq⟩ := Option.isSome_iff_exists.1 hu
    have hp : Parser.parseRequestHeaders (render m t v hs) =
        some { method := c, rawPath := t, headers := hs.foldl insertLine [] } :=
      (parse_eq_some_iff _ _).2 ⟨m, v, hs, hc, hv, h1, h2, hl, rfl, rfl⟩
    apply Option.isSome_iff_exists.2
    exact ⟨_, (expect_eq_some_iff _ _ _).2 ⟨_, p, q, hp, hpq, rfl⟩⟩

/-- the same with the right-hand side as the executable predicate `wellFormedB` -/
theorem accept_iff' (env : Env) (head : Bytes) :
    (expect env head).isSome ↔
      ∃ m t v hs, wellFormedB env m t v hs = true ∧ head = render m t v hs := by
  rw [accept_iff]
  constructor
  · rintro ⟨m, t, v, hs, h1, h2, h3, h4, h5, h6, e⟩
    exact ⟨m, t, v, hs, (wellFormedB_iff _ _ _ _ _).2 ⟨h1, h2, h3, h4, h5, h6⟩, e⟩
  · rintro ⟨m, t, v, hs, h, e⟩
    obtain ⟨h1, h2, h3, h4, h5, h6⟩ := (wellFormedB_iff _ _ _ _ _).1 h
    exact ⟨m, t, v, hs, h1, h2, h3, h4, h5, h6, e⟩

/-- the decomposition of an accepted head is unique (the grammar is unambiguous) -/
theorem render_unique {m t v : Bytes} {hs : List Bytes} {m' t' v' : Bytes} {hs' : List Bytes}
    (hm : methodCode m ≠ none) (hv : v = HTTP10 ∨ v = HTTP11) (h1 : SP ∉ t)
    (h2 : ¬ CRLF <:+: t) (hl : ∀ l ∈ hs, ¬ CRLF <:+: l)
    (hm' : methodCode m' ≠ none) (hv' : v' = HTTP10 ∨ v' = HTTP11) (h1' : SP ∉ t')
    (h2' : ¬ CRLF <:+: t') (hl' : ∀ l ∈ hs', ¬ CRLF <:+: l)
    (e : render m t v hs = render m' t' v' hs') : m = m' ∧ t = t' ∧ v = v' ∧ hs = hs' := by
  rw [render_eq_joinWith, render_eq_joinWith] at e
  have s1 := split_CRLF_joinWith ((m ++ [SP] ++ t ++ [SP] ++ v) :: hs) (by simp) (by
    intro p hp
    rcases List.mem_cons.1 hp with rfl | hp
    · exact Parser.requestLine_no_CRLF hm hv h2
    · exact hl p hp)
  have s2 := split_CRLF_joinWith ((m' ++ [SP] ++ t' ++ [SP] ++ v') :: hs') (by simp) (by
    intro p hp
    rcases List.mem_cons.1 hp with rfl | hp
    · exact Parser.requestLine_no_CRLF hm' hv' h2'
    · exact hl' p hp)
  rw [e, s2] at s1
  simp only [List.cons.injEq] at s1
  obtain ⟨ef, eh⟩ := s1
  have a1 := (Parser.split_SP2_eq_iff _ m t v).2 ⟨(Parser.method_no_SP_CR hm).1, h1, rfl⟩
  have a2 := (Parser.split_SP2_eq_iff _ m' t' v').2 ⟨(Parser.method_no_SP_CR hm').1, h1', rfl⟩
  rw [← ef, a2] at a1
  simp only [List.cons.injEq, and_true] at a1
  exact ⟨a1.1.symm, a1.2.1.symm, a1.2.2.symm, eh.symm⟩

/-- the cut of a header line at its first colon is unique -/
theorem first_colon_unique {n x n' x' : Bytes} (hn : COLON ∉ n) (hn' : COLON ∉ n')
    (e : n ++ [COLON] ++ x = n' ++ [COLON] ++ x') : n = n' ∧ x = x' := by
  have a := breakOn_singleton x hn
  have b := breakOn_singleton x' hn'
  rw [e, b] at a
  simp only [Option.some.injEq, Prod.mk.injEq] at a
  exact ⟨a.1.symm, a.2.symm⟩

/-- a line whose name part (before the first colon) is blank is not of the form `name: value` -/
theorem not_hdrLine_of_blank {n x : Bytes} (hn : COLON ∉ n) (hb : Blank n) :
    ¬ HdrLine (n ++ [COLON] ++ x) := by
  rintro ⟨n', x', e, hn', hc⟩
  obtain ⟨rfl, _⟩ := first_colon_unique hn hn' e
  exact (not_blank_iff n).2 hc hb

/-- **C01, blank header names are refused.**  A head that is otherwise a rendering of the grammar
    (`METHOD SP target SP version (CRLF line)*`, method token, version, target without space, no
    CRLF inside the pieces — no assumption on the other lines) but has ONE line whose name part,
    i.e. what stands before its first colon, is empty or white space only (`: v`, ` \t: v`), is
    not accepted, whatever the URL oracle says.  (Until the repair of the parser such a line
    was accepted and entered the header map under the empty name.) -/
theorem blank_name_rejected (env : Env) (m t v : Bytes) (hs : List Bytes)
    (hm : methodCode m ≠ none) (hv : v = HTTP10 ∨ v = HTTP11) (h1 : SP ∉ t) (h2 : ¬ CRLF <:+: t)
    (hl : ∀ l ∈ hs, ¬ CRLF <:+: l)
    (n x : Bytes) (hmem : n ++ [COLON] ++ x ∈ hs) (hn : COLON ∉ n) (hb : Blank n) :
    expect env (render m t v hs) = none := by
  cases he : expect env (render m t v hs) with
  | none => rfl
  | some s =>
    exfalso
    have hsome : (expect env (render m t v hs)).isSome := by rw [he]; rfl
    obtain ⟨m', t', v', hs', hm', hv', h1', h2', _, hl', e⟩ := (accept_iff env _).1 hsome
    obtain ⟨_, _, _, rfl⟩ := render_unique hm hv h1 h2 hl hm' hv' h1' h2' (fun l h => (hl' l h).2) e
    exact not_hdrLine_of_blank hn hb (hl' _ hmem).1

/-- the accepted method tokens are exactly the eight upper-case literals … -/
theorem method_tokens (m : Bytes) :
    methodCode m ≠ none ↔
      m = Parser.OPTIONS ∨ m = Parser.GET ∨ m = Parser.HEAD ∨ m = Parser.POST ∨
      m = Parser.PUT ∨ m = Parser.DELETE ∨ m = Parser.TRACE ∨ m = Parser.CONNECT :=
  Parser.methodCode_ne_none_iff m

/-- … and their codes are the eight distinct powers of two of `Socket::Method` -/
theorem method_codes :
    methodCode Parser.OPTIONS = some 1 ∧ methodCode Parser.GET = some 2 ∧
    methodCode Parser.HEAD = some 4 ∧ methodCode Parser.POST = some 8 ∧
    methodCode Parser.PUT = some 16 ∧ methodCode Parser.DELETE = some 32 ∧
    methodCode Parser.TRACE = some 64 ∧ methodCode Parser.CONNECT = some 128 := by decide

/-- **C01, exact fields.**  On a well-formed head the application is shown: the code of the
    method token, the raw target, the path and the query items the URL oracle returned (items
    inserted with `QMultiMap::insert` in order), and for every name `k` the header values
    whose (trimmed) name equals `k` case-insensitively, trimmed, duplicates kept, most recent
    first. -/
theorem fields_exact (env : Env) (m t v : Bytes) (hs : List Bytes)
    (hm : methodCode m ≠ none) (hv : v = HTTP10 ∨ v = HTTP11) (h1 : SP ∉ t)
    (h2 : ¬ CRLF <:+: t) (hu : (env.url t).isSome) (hl : ∀ l ∈ hs, HdrLine l ∧ ¬ CRLF <:+: l) :
    ∃ s c p q, expect env (render m t v hs) = some s ∧ methodCode m = some c ∧
      env.url t = some (p, q) ∧
      s.parsed = true ∧ s.method = c ∧ s.rawPath = t ∧ s.path = p ∧
      s.query = q.foldl (fun acc e => Sock.qmInsert e.1 e.2 acc) [] ∧
      ∀ k, HeaderMap.values k s.headers =
        hs.reverse.filterMap (fun l =>
          match breakOn [COLON] l with
          | some (n, x) => if lower (trim n) = lower k then some (trim x) else none
          | none => none) := by
  obtain ⟨c, hc⟩ := Option.isSome_iff_exists.1 (Option.isSome_iff_ne_none.2 hm)
  obtain ⟨⟨p, q⟩, hpq⟩ := Option.isSome_iff_exists.1 hu
  have hp : Parser.parseRequestHeaders (render m t v hs) =
      some { method := c, rawPath := t, headers := hs.foldl insertLine [] } :=
    (parse_eq_some_iff _ _).2 ⟨m, v, hs, hc, hv, h1, h2, hl, rfl, rfl⟩
  refine ⟨_, c, p, q, (expect_eq_some_iff _ _ _).2 ⟨_, p, q, hp, hpq, rfl⟩, hc, hpq,
    rfl, rfl, rfl, rfl, rfl, fun k => ?_⟩
  simp only
  rw [Parser.values_foldl_insertLine, HeaderMap.values_nil, List.append_nil]
  rfl

/-- **C01, declared length.**  `contentLength()` is `toLongLong` of the most recent
    `Content-Length` value (name compared case-insensitively), and −1 when there is none.
    (NB the proposed "`total = -1` iff there is no such header" is false in one direction:
    `Content-Length: -1` also gives −1, see the example below; the exact statement is this
    one.) -/
theorem content_length (env : Env) (head : Bytes) (s : Snap) (h : expect env head = some s) :
    s.total = match HeaderMap.values Sock.CONTENT_LENGTH s.headers with
              | [] => -1
              | x :: _ => toLongLong x := by
  obtain ⟨rh, p, q, _, _, rfl⟩ := (expect_eq_some_iff _ _ _).1 h
  exact HeaderMap.contains_value_eq _ _ _ _

/-- no `Content-Length` line: −1 -/
theorem content_length_absent (env : Env) (head : Bytes) (s : Snap) (h : expect env head = some s)
    (hn : HeaderMap.values Sock.CONTENT_LENGTH s.headers = []) : s.total = -1 := by
  rw [content_length env head s h, hn]

/-- the most recent `Content-Length` value is a decimal numeral below 2^63, possibly padded
    with white space: the declared length is that number -/
theorem content_length_numeral (env : Env) (head : Bytes) (s : Snap)
    (h : expect env head = some s) (n : Nat) (hn : n < 2 ^ 63) (p q : Bytes)
    (hp : ∀ c ∈ p, isSp c = true) (hq : ∀ c ∈ q, isSp c = true) (rest : List Bytes)
    (hv : HeaderMap.values Sock.CONTENT_LENGTH s.headers = (p ++ natDigits n ++ q) :: rest) :
    s.total = (n : Int) := by
  rw [content_length env head s h, hv]
  exact toLongLong_natDigits_padded n hn p q hp hq

/-- `content_length` in terms of the lines the client sent -/
theorem content_length_lines (env : Env) (m t v : Bytes) (hs : List Bytes) (s : Snap)
    (hm : methodCode m ≠ none) (hv : v = HTTP10 ∨ v = HTTP11) (h1 : SP ∉ t)
    (h2 : ¬ CRLF <:+: t) (hl : ∀ l ∈ hs, HdrLine l ∧ ¬ CRLF <:+: l)
    (h : expect env (render m t v hs) = some s) :
    s.total = match hs.reverse.filterMap (lineValue Sock.CONTENT_LENGTH) with
              | [] => -1
              | x :: _ => toLongLong x := by
  have hu : (env.url t).isSome := by
    obtain ⟨rh, p, q, hrh, hu, _⟩ := (expect_eq_some_iff _ _ _).1 h
    obtain ⟨m', v', hs', hc, hv', h1', h2', hl', _, e⟩ := (parse_eq_some_iff _ _).1 hrh
    have := render_unique hm hv h1 h2 (fun l hl0 => (hl l hl0).2)
      (by rw [hc]; simp) hv' h1' h2' (fun l hl0 => (hl' l hl0).2) e
    rw [this.2.1, hu]; rfl
  obtain ⟨s', c, p, q, hs', _, _, _, _, _, _, _, hvals⟩ :=
    fields_exact env m t v hs hm hv h1 h2 hu hl
  rw [h] at hs'
  cases hs'
  rw [content_length env _ s h, hvals]
  rfl

/-! ### non-vacuity: concrete heads, evaluated by the kernel
  (`decide +kernel`: plain `decide` evaluates with the elaborator's `whnf`, which takes minutes
  on 100-byte inputs; both are checked by the kernel) -/

/-- bytes of a string literal (examples only) -/
def str (x : String) : Bytes := x.toList.map b

/-- a toy URL oracle for the examples: the target must start with '/', the path is the part
    before '?', the query items are the '&'-separated `k=v` pairs after it -/
def envT : Env where
  url := fun t =>
    if t.head? ≠ some 47 then none else
    match breakOn [63] t with
    | none => some (t, [])
    | some (p, q) =>
      some (p, (splitChar 38 q).map (fun kv =>
        match breakOn [61] kv with
        | some (k, x) => (k, x)
        | none => (kv, [])))
  errPage := fun _ _ => []

def sampleHead : Bytes :=
  str "POST /a/b?z=1&k=2 HTTP/1.1\r\nHost: example\r\ncontent-length:  12 \r\nX-Tag:one\r\nCONTENT-LENGTH :\t7 \r\nx-tag:   two  words "

def sampleLines : List Bytes :=
  [str "Host: example", str "content-length:  12 ", str "X-Tag:one", str "CONTENT-LENGTH :\t7 ",
   str "x-tag:   two  words "]

/-- the sample is a rendering that satisfies the right-hand side of `accept_iff` … -/
example : sampleHead = render Parser.POST (str "/a/b?z=1&k=2") HTTP11 sampleLines := by decide +kernel
example : wellFormedB envT Parser.POST (str "/a/b?z=1&k=2") HTTP11 sampleLines = true := by decide +kernel

/-- … it is accepted with exactly the expected fields: mixed-case duplicate headers are kept,
    most recent first, values are trimmed, the last `Content-Length` wins -/
example :
    expect envT sampleHead =
      some { parsed := true, method := 8, rawPath := str "/a/b?z=1&k=2", path := str "/a/b",
             query := [(str "k", str "2"), (str "z", str "1")],
             headers := [(str "CONTENT-LENGTH", str "7"), (str "content-length", str "12"),
                         (str "Host", str "example"),
                         (str "x-tag", str "two  words"), (str "X-Tag", str "one")],
             total := 7 } := by decide +kernel

example : (expect envT sampleHead).map (fun s => HeaderMap.values (str "X-TAG") s.headers) =
    some [str "two  words", str "one"] := by decide +kernel

/-- rejected near-misses of the grammar -/
example : expect envT (str "GET / HTTP/1.2\r\nHost: x") = none := by decide +kernel
example : expect envT (str "get / HTTP/1.1\r\nHost: x") = none := by decide +kernel
example : expect envT (str "GET / HTTP/1.1\r\nHost x") = none := by decide +kernel
/-- a header line with an empty or blank name is not of the form `name: value` (these two were
    accepted before the repair of `Parser::parseHeaderList`; `blank_name_rejected`) -/
example : expect envT (str "GET / HTTP/1.1\r\n: v") = none := by decide +kernel
example : expect envT (str "GET / HTTP/1.1\r\nHost: x\r\n \t : v\r\nA: b") = none := by decide +kernel
example : hdrLineB (str ": v") = false ∧ hdrLineB (str " \t : v") = false ∧ hdrLineB (str "::") = false ∧
    hdrLineB (str " a :") = true ∧ hdrLineB (str "a") = false := by decide
/-- the hypotheses of `blank_name_rejected` on the second of them -/
example : methodCode Parser.GET ≠ none ∧ SP ∉ str "/" ∧ ¬ CRLF <:+: str "/" ∧
    (∀ l ∈ [str "Host: x", str " \t : v", str "A: b"], ¬ CRLF <:+: l) ∧
    str " \t " ++ [COLON] ++ str " v" ∈ [str "Host: x", str " \t : v", str "A: b"] ∧
    COLON ∉ str " \t " ∧ Blank (str " \t ") ∧
    str "GET / HTTP/1.1\r\nHost: x\r\n \t : v\r\nA: b" =
      render Parser.GET (str "/") HTTP11 [str "Host: x", str " \t : v", str "A: b"] := by
  have hi : ∀ xs : Bytes, isInfixB CRLF xs = false → ¬ CRLF <:+: xs := fun xs h c => by
    rw [isInfixB_iff.2 c] at h; cases h
  refine ⟨by decide, by decide, hi _ (by decide +kernel), ?_, by decide +kernel, by decide,
    by decide, by decide +kernel⟩
  intro l hl
  simp only [List.mem_cons, List.not_mem_nil, or_false] at hl
  rcases hl with rfl | rfl | rfl <;> exact hi _ (by decide +kernel)
example : expect envT (str "GET / x HTTP/1.1\r\nHost: x") = none := by decide +kernel
example : expect envT (str "GET / HTTP/1.1\r") = none := by decide +kernel
example : expect envT (str "GET / HTTP/1.1\r\n") = none := by decide +kernel
example : expect envT (str "GET  / HTTP/1.1") = none := by decide +kernel
example : expect envT (str "GET relative HTTP/1.1") = none := by decide +kernel
example : (expect envT (str "GET / HTTP/1.0")).isSome = true := by decide +kernel

/-- `Content-Length: -1` is reported as −1 although the header is present (why
    `content_length` is not an "iff"); a non-numeral is reported as 0 -/
example : (expect envT (str "GET / HTTP/1.1\r\nContent-Length: -1")).map (·.total) = some (-1) := by
  decide +kernel
example : (expect envT (str "GET / HTTP/1.1\r\nContent-Length: 1x")).map (·.total) = some 0 := by
  decide +kernel
example : (expect envT (str "GET / HTTP/1.1\r\nHost: x")).map (·.total) = some (-1) := by decide +kernel

/-- `holds` evaluated on concrete runs of the model: the head above (one segment, then two
    segments cut inside the request line) is announced once with the expected fields; a
    rejected head is never announced -/
def sampleApp : App := (Script.app { onHp := [.snap] })
example : holds envT { app := sampleApp, events := [.new, .feed (sampleHead ++ CRLF2)] }
    (Scenario.run envT { app := sampleApp, events := [.new, .feed (sampleHead ++ CRLF2)] }).log
    = true := by decide +kernel
example : holds envT { app := sampleApp, events := [.new, .feed (str "GET / HTTP/1.2\r\n\r\n")] }
    (Scenario.run envT { app := sampleApp,
                         events := [.new, .feed (str "GET / HTTP/1.2\r\n\r\n")] }).log
    = true := by decide +kernel

end Qhttp.C01
