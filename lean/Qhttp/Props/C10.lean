import Qhttp.Model.Life
/-
  C10 — connections never outlive their peer and ending one never crashes (partial: the
  ownership protocol is modelled and proved; memory errors are observed with sanitizers).
-/
namespace Qhttp.C10
open Qhttp

def liveOf (obs : List Obs) : Option Nat :=
  obs.findSome? fun o => match o with | .misc 30 [n] => some n.toNat | _ => none
def fdOf (obs : List Obs) : Option Nat :=
  obs.findSome? fun o => match o with | .misc 31 [n] => some n.toNat | _ => none

/-- every scenario of the `life` family ends with both sides closed and four event-loop turns;
    then no per-connection object and no descriptor is left, and nothing crashed on the way -/
def holds (obs : List Obs) : Bool :=
  !obs.any Obs.isCrash && liveOf obs == some 0 && fdOf obs == some 0

end Qhttp.C10
