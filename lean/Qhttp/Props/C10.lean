import Qhttp.Model.Life
import Qhttp.Lemmas.C10Sock
import Qhttp.Lemmas.C10Life
import Qhttp.Lemmas.C10Copy
import Qhttp.Lemmas.C10Dc
/-
  C10 — connections never outlive their peer and ending one never crashes (partial: the
  ownership protocol is modelled and proved; memory errors are observed with sanitizers).
-/
namespace Qhttp.C10
open Qhttp

def liveOf (obs : List Obs) : Option Nat :=
  obs.findSome? fun o => match o with | .misc 30 [n] => some n.toNat | _ => none
def fdOf (obs : List Obs) : Option Nat :=
  obs.findSome? fun o => match o with | .misc 31 [n] => some n.toNat | _ => none

/-- every scenario of the `life` family ends with both sides closed and four event-loop turns;
    then no per-connection object and no descriptor is left, and nothing crashed on the way -/
def holds (obs : List Obs) : Bool :=
  !obs.any Obs.isCrash && liveOf obs == some 0 && fdOf obs == some 0

end Qhttp.C10

/-! ## Theorems

  Model-level counterpart of C10 (the claim is PARTIAL: memory errors are observed by the
  sanitizers, the ownership protocol below is proved).  Everything is for every `Env`, every
  file-system environment, every application where the socket model alone is concerned, and
  every (unbounded) event sequence.
-/

namespace Qhttp.C10
open Qhttp Qhttp.C10L

/-! ### 1. a destroyed socket is inert (no use after free at model level) -/

/-- every entry point of the socket model is a no-op on a destroyed object -/
theorem dead_is_inert (env : Env) (app : App) (s : Sock) (h : s.alive = false) :
    (∀ e, Sock.step env app s e = s) ∧ (∀ op, Sock.apiPrim env s op = s) ∧
    (s.dcFlag = false → ∀ op, Sock.api env app s op = s) :=
  ⟨fun e => step_dead env app s e h, fun op => apiPrim_dead env s op h,
   fun hf op => api_dead env app s op h hf⟩

/-- the side condition of `dead_is_inert` for `api`: the "disconnected is due" flag is never left
    set — `api` and `emitDc` always clear it, an external event keeps it clear -/
theorem dcFlag_clear (env : Env) (app : App) (s : Sock) :
    (∀ op, (Sock.api env app s op).dcFlag = false) ∧ (Sock.emitDc env app s).dcFlag = false ∧
    (∀ e, s.dcFlag = false → (Sock.step env app s e).dcFlag = false) := by
  refine ⟨fun op => (api_ext env app s op).2, (emitDc_ext env app s).2.1, fun e hf => ?_⟩
  cases ha : s.alive
  · rw [step_dead env app s e ha]; exact hf
  · by_cases he : e = .turn
    · subst he
      rw [step_turn env app s ha]
      exact (reap_evo _).df ((initRead_extE env app s).2 hf)
    · exact (step_extE env app s e he).2 hf

/-- hence on every run of the socket model, for every application -/
theorem dcFlag_clear_run (env : Env) (app : App) (evs : List Event) :
    (Sock.run env app evs).dcFlag = false := by
  have key : ∀ (evs : List Event) (sk : Sock × Nat), sk.1.dcFlag = false →
      (evs.foldl (Sock.stepK env app) sk).1.dcFlag = false := by
    intro evs
    induction evs with
    | nil => exact fun _ h => h
    | cons e evs ih =>
      intro sk h
      apply ih
      unfold Sock.stepK
      apply (dcFlag_clear env app _).2.2
      split
      · exact h
      · exact h
  exact key evs _ rfl

/-- the composed models: no event changes anything once the socket is destroyed
    (`FsHandler.turn` included: it returns its argument) -/
theorem dead_is_inert_fs (env : Env) (fe : FsHandler.FsEnv) (st : FsHandler.St) (e : Event)
    (h : st.sock.alive = false) : FsHandler.step env fe st e = st :=
  fsStep_dead env fe st e h

theorem dead_is_inert_life (env : Env) (fe : FsHandler.FsEnv) (st : Life.St) (e : Event)
    (h : st.fs.sock.alive = false) : Life.step env fe st (.ev e) = st :=
  lifeStep_dead env fe st e h

/-- destroyed is for ever: no step of the composed model resurrects the socket -/
theorem dead_stays_dead (env : Env) (fe : FsHandler.FsEnv) (st : Life.St) (ev : Life.LEv)
    (h : st.fs.sock.alive = false) : (Life.step env fe st ev).fs.sock.alive = false := by
  cases hx : (Life.step env fe st ev).fs.sock.alive
  · rfl
  · have := (lifeStep_evo env fe st ev).al hx
    rw [h] at this
    exact absurd this (by simp)

/-- in every reachable state the flag is clear, so API calls on a destroyed socket are no-ops
    without side condition -/
theorem dead_is_inert_reachable (env : Env) (fe : FsHandler.FsEnv) (evs : List Life.LEv) (op : ApiOp)
    (h : (Life.run env fe evs).fs.sock.alive = false) :
    Sock.api env (FsHandler.app fe) (Life.run env fe evs).fs.sock op = (Life.run env fe evs).fs.sock :=
  api_dead env _ _ op h (run_inv env fe evs).df

/-! ### 2. `disconnected` schedules the deletion, and nothing but the event loop consumes it -/

/-- an event during which the transport reported `disconnected` leaves the deletion scheduled
    (if the socket is still there) -/
theorem dc_schedules_deletion (env : Env) (fe : FsHandler.FsEnv) (st : Life.St) (e : Event)
    (ha : (Life.step env fe st (.ev e)).fs.sock.alive = true)
    (hdc : Life.dcCount (Life.step env fe st (.ev e)).fs.sock ≠ Life.dcCount st.fs.sock) :
    (Life.step env fe st (.ev e)).fs.sock.delPending = true :=
  lifeStep_schedules env fe st e ha hdc

/-- API calls, transport events and the copier's relayed calls never clear `delPending`
    (nor destroy, nor resurrect the object) -/
theorem delPending_mono (env : Env) (app : App) (s : Sock) (h : s.delPending = true) :
    (∀ op, (Sock.api env app s op).delPending = true) ∧
    (∀ e, e ≠ .turn → (Sock.step env app s e).delPending = true) ∧
    (∀ l, (FsHandler.relay env app s l).delPending = true) :=
  ⟨fun op => (api_ext env app s op).1.dp h, fun e he => (step_extE env app s e he).1.dp h,
   fun l => (relay_extE env app l s).1.dp h⟩

theorem alive_const (env : Env) (app : App) (s : Sock) :
    (∀ op, (Sock.api env app s op).alive = s.alive) ∧
    (∀ e, e ≠ .turn → (Sock.step env app s e).alive = s.alive) ∧
    (∀ l, (FsHandler.relay env app s l).alive = s.alive) :=
  ⟨fun op => (api_ext env app s op).1.al, fun e he => (step_extE env app s e he).1.al,
   fun l => (relay_extE env app l s).1.al⟩

/-- the scheduled deletion stays scheduled under every step of the composed model that is not
    an event-loop turn -/
theorem delPending_stays (env : Env) (fe : FsHandler.FsEnv) (st : Life.St) (ev : Life.LEv)
    (hev : ev ≠ .ev .turn) (h : st.fs.sock.delPending = true) :
    (Life.step env fe st ev).fs.sock.delPending = true := by
  cases ev with
  | ev e => exact lifeStep_keeps env fe st e (fun he => hev (by rw [he])) h
  | killServer =>
    unfold Life.step
    dsimp only
    split
    · exact h
    · exact h

/-! ### 3. the event loop performs the deletion -/

theorem turn_deletes (env : Env) (fe : FsHandler.FsEnv) (st : Life.St) (hs : st.deadSrv = false)
    (ha : st.fs.sock.alive = true) (hd : st.fs.sock.delPending = true) :
    (Life.step env fe st (.ev .turn)).fs.sock.alive = false :=
  lifeStep_turn_deletes env fe st hs ha hd

/-- on reachable states the Server is there whenever the socket is -/
theorem turn_deletes_run (env : Env) (fe : FsHandler.FsEnv) (evs : List Life.LEv)
    (hd : (Life.run env fe evs).fs.sock.delPending = true) :
    (Life.step env fe (Life.run env fe evs) (.ev .turn)).fs.sock.alive = false := by
  cases ha : (Life.run env fe evs).fs.sock.alive
  · exact dead_stays_dead env fe _ _ ha
  · cases hs : (Life.run env fe evs).deadSrv
    · exact turn_deletes env fe _ hs ha hd
    · have := (run_inv env fe evs).ds hs
      rw [ha] at this
      exact absurd this (by simp)

/-! ### 4. released: one event-loop turn after `disconnected` nothing per-connection is left -/

/-- the invariant behind it: in every reachable state, a live socket whose transport reported
    `disconnected` has its deletion scheduled -/
theorem dc_implies_delPending (env : Env) (fe : FsHandler.FsEnv) (evs : List Life.LEv)
    (ha : (Life.run env fe evs).fs.sock.alive = true)
    (hdc : Obs.dc ∈ (Life.run env fe evs).fs.sock.log) :
    (Life.run env fe evs).fs.sock.delPending = true :=
  (run_inv env fe evs).dl ha hdc

theorem released (env : Env) (fe : FsHandler.FsEnv) (evs : List Life.LEv)
    (hdc : Obs.dc ∈ (Life.run env fe evs).fs.sock.log) :
    Life.live (Life.step env fe (Life.run env fe evs) (.ev .turn)) = 0 := by
  have hal : (Life.step env fe (Life.run env fe evs) (.ev .turn)).fs.sock.alive = false := by
    cases ha : (Life.run env fe evs).fs.sock.alive
    · exact dead_stays_dead env fe _ _ ha
    · exact turn_deletes_run env fe evs (dc_implies_delPending env fe evs ha hdc)
  simp [Life.live, hal]

/-- destroying the Server releases the connection at once, whatever state it is in -/
theorem killServer_releases (env : Env) (fe : FsHandler.FsEnv) (st : Life.St) :
    Life.live (Life.step env fe st .killServer) = 0 := by
  cases hs : st.deadSrv <;> simp [Life.live, Life.step, hs]

/-- nothing comes back: once no per-connection object is left, none appears -/
theorem live_zero_stays (env : Env) (fe : FsHandler.FsEnv) (st : Life.St) (ev : Life.LEv)
    (h : Life.live st = 0) : Life.live (Life.step env fe st ev) = 0 := by
  cases hs : st.deadSrv
  · have ha : st.fs.sock.alive = false := by
      cases hx : st.fs.sock.alive
      · rfl
      · simp [Life.live, hs, hx] at h
    simp [Life.live, dead_stays_dead env fe st ev ha]
  · rw [lifeStep_deadSrv env fe st ev hs]; exact h

/-! ### 5. `disconnected` is reported at most once -/

/-- C19's counting invariant carried through the composed model (copier relay, Server glue,
    Server destruction).  Hypothesis, as in C19: API calls made from idle context do not `note` an
    observation that is counted (`C10L.lifeEvOK`: `C19L.evOK` on socket-level events); the
    application is `FsHandler.app fe`, which notes nothing. -/
theorem dc_at_most_once (env : Env) (fe : FsHandler.FsEnv) (evs : List Life.LEv)
    (h : evs.all lifeEvOK = true) :
    Obs.countP Obs.isDc (Life.run env fe evs).fs.sock.log ≤ 1 :=
  DS_final (run_D env fe evs h)

/-- the same for the filesystem handler alone -/
theorem dc_at_most_once_fs (env : Env) (fe : FsHandler.FsEnv) (evs : List Event)
    (h : evs.all C19L.evOK = true) :
    Obs.countP Obs.isDc (FsHandler.run env fe evs).sock.log ≤ 1 := by
  apply DS_final
  unfold FsHandler.run
  have key : ∀ (evs : List Event) (st : FsHandler.St), evs.all C19L.evOK = true → DS 0 st.sock →
      DS 0 (evs.foldl (FsHandler.step env fe) st).sock := by
    intro evs
    induction evs with
    | nil => exact fun _ _ h => h
    | cons e evs ih =>
      intro st hall h
      simp only [List.all_cons, Bool.and_eq_true] at hall
      exact ih _ hall.2 (fsStep_D env fe st e hall.1 h)
  refine key evs _ h ⟨?_, rfl⟩
  unfold D
  rfl

/-- so "the number of `dc` grew during the event" (`dc_schedules_deletion`) happens at most once
    per connection, and `Life.dcCount` is 0 or 1 -/
theorem dcCount_le_one (env : Env) (fe : FsHandler.FsEnv) (evs : List Life.LEv)
    (h : evs.all lifeEvOK = true) : Life.dcCount (Life.run env fe evs).fs.sock ≤ 1 :=
  dc_at_most_once env fe evs h

/-! ### 6. a file copy in progress is stopped by `disconnected` -/

/-- if, after the socket-level part of an event during which `disconnected` was reported, the
    socket is still there and a copier exists that has not signalled `finished` (and was not
    stopped before), then the Server glue stops it: `stopped` is recorded, the copier's state is
    `Copier.stop cs` (its `stopped` flag is set), `Socket::close` was called, and the deletion
    of the socket is scheduled -/
theorem copy_stopped_on_disconnect (env : Env) (fe : FsHandler.FsEnv) (st : Life.St) (e : Event)
    (cfg : Copier.Cfg) (cs : Copier.St) (hs : st.deadSrv = false) (hst : st.stopped = false)
    (ha : (FsHandler.step env fe st.fs e).sock.alive = true)
    (hdc : Life.dcCount (FsHandler.step env fe st.fs e).sock ≠ Life.dcCount st.fs.sock)
    (hc : (FsHandler.step env fe st.fs e).cop = some (cfg, cs)) (hf : copFinished cs = false) :
    (Life.step env fe st (.ev e)).stopped = true ∧
    (Life.step env fe st (.ev e)).fs.cop = some (cfg, Copier.stop cs) ∧
    (Copier.stop cs).stopped = true ∧
    (Life.step env fe st (.ev e)).fs.sock.closeCalled = true ∧
    (Life.step env fe st (.ev e)).fs.sock.delPending = true ∧
    (Life.step env fe st (.ev e)).fs.sock.alive = true := by
  rw [lifeStep_ev env fe st e hs,
    afterEvent_stops env fe _ { st with fs := FsHandler.step env fe st.fs e } cfg cs ha hdc hc hf hst]
  refine ⟨rfl, rfl, rfl, api_close_cc env _ _ ha, (api_ext env _ _ _).1.dp rfl, ?_⟩
  exact (api_ext env _ _ _).1.al.trans ha

/-- in every reachable state, `stopped` means: there is a copier, its `stopped` flag is set, and
    `Socket::close` was called -/
theorem stopped_means_stopped (env : Env) (fe : FsHandler.FsEnv) (evs : List Life.LEv)
    (h : (Life.run env fe evs).stopped = true) :
    ∃ cfg cs, (Life.run env fe evs).fs.cop = some (cfg, cs) ∧ cs.stopped = true ∧
      (Life.run env fe evs).fs.sock.closeCalled = true :=
  (run_sinv env fe evs).sp h

/-- state form of C14's `stop_halts` for the way the composed model drives the copier (one
    `Copier.step … .turn` per event-loop turn): a stopped copier hands nothing more to the
    destination, signals nothing, and stays stopped -/
theorem stopped_copier_silent (cfg : Copier.Cfg) (cs : Copier.St) (h : cs.stopped = true) :
    (Copier.step cfg cs .turn).log = cs.log ∧ (Copier.step cfg cs .turn).stopped = true :=
  copier_stopped_turn cfg cs h

/-- hence, from a reachable stopped state on, no event-loop turn relays a copier write to the
    socket: the copier part of the turn (`C10L.turnCop`, see `C10L.fsTurn_eq`) leaves the
    socket as it is — for the state reached and, since `stopped` persists, for all later ones -/
theorem stopped_relays_nothing (env : Env) (fe : FsHandler.FsEnv) (evs : List Life.LEv) (a : App)
    (h : (Life.run env fe evs).stopped = true) (sock : Sock) :
    (turnCop env a { (Life.run env fe evs).fs with sock := sock }).sock = sock := by
  obtain ⟨cfg, cs, h1, h2, _⟩ := stopped_means_stopped env fe evs h
  exact turnCop_stopped env a _ cfg cs h1 h2

theorem stopped_persists (env : Env) (fe : FsHandler.FsEnv) (st : Life.St) (ev : Life.LEv)
    (h : st.stopped = true) : (Life.step env fe st ev).stopped = true := by
  cases hd : st.deadSrv
  · cases ev with
    | ev e =>
      rw [lifeStep_ev env fe st e hd]
      unfold Life.afterEvent
      dsimp only
      split
      · exact h
      · split
        · split
          · exact h
          · rfl
        · exact h
    | killServer => simp [Life.step, hd, h]
  · rw [lifeStep_deadSrv env fe st ev hd]; exact h

/-! ### 7. the harness' closing sequence: both sides closed, then event-loop turns -/

theorem live_zero_foldl (env : Env) (fe : FsHandler.FsEnv) (evs : List Life.LEv) (st : Life.St)
    (h : Life.live st = 0) : Life.live (evs.foldl (Life.step env fe) st) = 0 := by
  induction evs generalizing st with
  | nil => exact h
  | cons ev evs ih => exact ih _ (live_zero_stays env fe st ev h)

/-- after the peer's close, the first event-loop turn releases the connection — whatever the
    history before (`evs`), whatever happens in between (`mid`) and afterwards (`more`);
    no assumption on the scenario: the socket need not even have been constructed -/
theorem released_after_peerClose (env : Env) (fe : FsHandler.FsEnv) (evs mid more : List Life.LEv) :
    Life.live (Life.run env fe (evs ++ .ev .peerClose :: (mid ++ .ev .turn :: more))) = 0 := by
  unfold Life.run
  rw [List.foldl_append, List.foldl_cons, List.foldl_append, List.foldl_cons]
  apply live_zero_foldl
  have h1 : Closing (List.foldl (Life.step env fe)
      (Life.step env fe (List.foldl (Life.step env fe) {} evs) (.ev .peerClose)) mid) :=
    Closing.foldl env fe mid (Closing.peerClose env fe (run_inv env fe evs))
  simp [Life.live, h1.turn env fe]

/-- what the harness appends to every scenario of the `life` family -/
def closeDown : List Life.LEv := [.ev .peerClose, .ev .ackAll, .ev .turn, .ev .turn]

/-- model-side counterpart of `holds` (`misc 30 [0]`): after the closing sequence no
    per-connection object is left, for every event list -/
theorem quiescent (env : Env) (fe : FsHandler.FsEnv) (evs : List Life.LEv) :
    Life.live (Life.run env fe (evs ++ closeDown)) = 0 :=
  released_after_peerClose env fe evs [.ev .ackAll] [.ev .turn]

/-- the driver runs the closing events without their markers (`C10L.quietStep`), four turns -/
def driverTail : List Life.LEv :=
  [.ev .peerClose, .ev .ackAll, .ev .turn, .ev .turn, .ev .turn, .ev .turn]

theorem live_quietStep (env : Env) (fe : FsHandler.FsEnv) (st : Life.St) (e : Life.LEv) :
    Life.live (quietStep env fe st e) = Life.live (Life.step env fe st e) := rfl

theorem quiescent_driver (env : Env) (fe : FsHandler.FsEnv) (evs : List Life.LEv) :
    Life.live (driverTail.foldl (quietStep env fe) (Life.run env fe evs)) = 0 := by
  have h1 := Closing.quietPeerClose env fe (run_inv env fe evs)
  have h2 := h1.quietStep env fe (.ev .ackAll)
  have h3 : Life.live (quietStep env fe (quietStep env fe (quietStep env fe (Life.run env fe evs)
      (.ev .peerClose)) (.ev .ackAll)) (.ev .turn)) = 0 := by
    rw [live_quietStep]
    simp [Life.live, h2.turn env fe]
  simp only [driverTail, List.foldl_cons, List.foldl_nil]
  rw [live_quietStep]; apply live_zero_stays
  rw [live_quietStep]; apply live_zero_stays
  rw [live_quietStep]; apply live_zero_stays
  exact h3

/-- observations the model never makes by itself (only an application `note` could) -/
def cleanObs : Obs → Bool
  | .crash => false
  | .misc 30 _ => false
  | .misc 31 _ => false
  | _ => true

theorem liveOf_clean (l : List Obs) (h : l.all cleanObs = true) (n : UInt8) :
    liveOf (l ++ [Obs.misc 30 [n], Obs.misc 31 [0]]) = some n.toNat := by
  unfold liveOf
  rw [List.findSome?_append]
  have : l.findSome? (fun o => match o with | .misc 30 [n] => some n.toNat | _ => none) = none := by
    rw [List.findSome?_eq_none_iff]
    intro o ho
    have := List.all_eq_true.mp h o ho
    split
    · simp [cleanObs] at this
    · rfl
  rw [this]
  rfl

theorem fdOf_clean (l : List Obs) (h : l.all cleanObs = true) (n : UInt8) :
    fdOf (l ++ [Obs.misc 30 [n], Obs.misc 31 [0]]) = some 0 := by
  unfold fdOf
  rw [List.findSome?_append]
  have : l.findSome? (fun o => match o with | .misc 31 [n] => some n.toNat | _ => none) = none := by
    rw [List.findSome?_eq_none_iff]
    intro o ho
    have := List.all_eq_true.mp h o ho
    split
    · simp [cleanObs] at this
    · rfl
  rw [this]
  rfl

/-- the executable predicate on the model's own observation list, as the driver builds it
    (the body's history, then the live-object count after the unmarked closing events, then the
    descriptor count, which the model does not have: `0`).
    Hypothesis: nobody `note`d a `crash` or a counter into the history (the model itself never
    does; it is a decidable check on the run). -/
theorem holds_model (env : Env) (fe : FsHandler.FsEnv) (evs : List Life.LEv)
    (hclean : (Life.run env fe evs).fs.sock.log.all cleanObs = true) :
    holds ((Life.run env fe evs).fs.sock.log ++
      [Obs.misc 30 [UInt8.ofNat (Life.live (driverTail.foldl (quietStep env fe) (Life.run env fe evs)))],
       Obs.misc 31 [0]]) = true := by
  rw [quiescent_driver]
  unfold holds
  rw [liveOf_clean _ hclean, fdOf_clean _ hclean]
  have : ((Life.run env fe evs).fs.sock.log ++ [Obs.misc 30 [UInt8.ofNat 0], Obs.misc 31 [0]]).any
      Obs.isCrash = false := by
    rw [List.any_append]
    have : (Life.run env fe evs).fs.sock.log.any Obs.isCrash = false := by
      rw [List.any_eq_false]
      intro o ho
      have := List.all_eq_true.mp hclean o ho
      cases o <;> simp [cleanObs, Obs.isCrash] at this ⊢
    rw [this]; rfl
  rw [this]
  decide

/-! ### non-vacuity -/

def exEnv : Env := { url := fun p => some (p, []), errPage := fun _ _ => [60, 62] }
def exFe : FsHandler.FsEnv :=
  { root := lit ['/','r'], tree := [([lit ['r']], .dir), ([lit ['r'], lit ['f']], .file)],
    content := fun _ => lit ['h','e','l','l','o'],
    mime := fun _ => lit ['t','/','p'],
    listing := fun _ _ => [] }
def exReq : Bytes := lit ['G','E','T',' ','/','f',' ','H','T','T','P','/','1','.','1','\r','\n','\r','\n']

/-- the file is served, the client goes away before acknowledging: `dc` is reported -/
def exEvs : List Life.LEv := [.ev .new, .ev (.feed exReq), .ev .turn, .ev .turn, .ev .peerClose]

-- `released` applies: the hypothesis holds, the socket is alive before the turn, dead after
example : Obs.dc ∈ (Life.run exEnv exFe exEvs).fs.sock.log := by decide +kernel
example : Life.live (Life.run exEnv exFe exEvs) = 1 ∧
    (Life.run exEnv exFe exEvs).fs.sock.delPending = true ∧
    Life.live (Life.step exEnv exFe (Life.run exEnv exFe exEvs) (.ev .turn)) = 0 := by decide +kernel
-- `dc_schedules_deletion`: the last event of `exEvs` is one during which `dc` is reported
example :
    let st := Life.run exEnv exFe (exEvs.take 4)
    (Life.step exEnv exFe st (.ev .peerClose)).fs.sock.alive = true ∧
    Life.dcCount (Life.step exEnv exFe st (.ev .peerClose)).fs.sock ≠ Life.dcCount st.fs.sock ∧
    st.fs.sock.delPending = false := by decide +kernel
-- `dead_is_inert`: a destroyed socket exists and later events leave it as it is
example :
    let st := Life.run exEnv exFe (exEvs ++ [.ev .turn])
    st.fs.sock.alive = false ∧ Obs.del ∈ st.fs.sock.log ∧
    (Life.step exEnv exFe st (.ev (.api (.write [65])))).fs.sock.log = st.fs.sock.log := by
  decide +kernel
-- the Server destroyed with the request in flight
example : Life.live (Life.run exEnv exFe [.ev .new, .ev (.feed exReq)]) = 1 ∧
    Life.live (Life.run exEnv exFe [.ev .new, .ev (.feed exReq), .killServer]) = 0 := by
  decide +kernel

-- `dc_at_most_once`: the hypothesis holds for the example (and for every scenario of the `life`
-- family, whose tokens have no `note`), a late second close of the peer changes nothing
def exEvs2 : List Life.LEv := exEvs ++ [.ev .peerClose, .ev (.api .close), .ev .ackAll]
example : exEvs2.all lifeEvOK = true := by decide
example : Life.dcCount (Life.run exEnv exFe exEvs2).fs.sock = 1 := by decide +kernel
-- `copy_stopped_on_disconnect`: the request is routed, the copier started and not yet run when
-- the client goes away; all hypotheses hold, and so does the conclusion
example :
    let st := Life.run exEnv exFe [.ev .new, .ev (.feed exReq)]
    let fs1 := FsHandler.step exEnv exFe st.fs .peerClose
    st.deadSrv = false ∧ st.stopped = false ∧ fs1.sock.alive = true ∧
    Life.dcCount fs1.sock ≠ Life.dcCount st.fs.sock ∧
    fs1.cop.map (fun p => copFinished p.2) = some false ∧
    (Life.step exEnv exFe st (.ev .peerClose)).stopped = true ∧
    (Life.step exEnv exFe st (.ev .peerClose)).fs.sock.closeCalled = true := by decide +kernel
-- the closing sequence on a request in flight (file being streamed): alive before, gone after
example : Life.live (Life.run exEnv exFe [.ev .new, .ev (.feed exReq)]) = 1 ∧
    Life.live (Life.run exEnv exFe ([.ev .new, .ev (.feed exReq)] ++ closeDown)) = 0 := by
  decide +kernel
-- `holds_model`: its hypothesis holds on a concrete run, and `holds` evaluates to true
example : (Life.run exEnv exFe exEvs).fs.sock.log.all cleanObs = true := by decide +kernel
example : holds ((Life.run exEnv exFe exEvs).fs.sock.log ++
    [Obs.misc 30 [UInt8.ofNat (Life.live (driverTail.foldl (quietStep exEnv exFe) (Life.run exEnv exFe exEvs)))],
     Obs.misc 31 [0]]) = true := by decide +kernel

end Qhttp.C10
